/-
Helper lemmas for C13 (integers): `opl_parse_int`, `output_int`, `string_to_object_id`,
`string_to_ulong`, `str_to_int` on digit strings of arbitrary length.
-/
import Osmium.Model.Conv

namespace Osmium.Conv.IntLemmas

open Osmium.Conv

/-! ### vocabulary -/

/-- the characters of a list of digit values (most significant first) -/
def digitsStr (ds : List Nat) : List UInt8 := ds.map digitChar

/-- the number a list of digit values (most significant first) denotes -/
def valMS (ds : List Nat) : Nat := ds.foldl (fun a d => a * 10 + d) 0

def AllDigits (ds : List Nat) : Prop := ∀ d ∈ ds, d < 10

/-- the character under the cursor is not a digit (in particular: end of string) -/
def NoDigitHead (rest : List UInt8) : Prop := isDigit (peek rest) = false

/-- `valMS` continued from an accumulator -/
def valFrom (m : Nat) (ds : List Nat) : Nat := ds.foldl (fun a d => a * 10 + d) m

theorem valMS_eq (ds : List Nat) : valMS ds = valFrom 0 ds := rfl

@[simp] theorem valFrom_nil (m : Nat) : valFrom m [] = m := rfl
@[simp] theorem valFrom_cons (m d : Nat) (ds : List Nat) :
    valFrom m (d :: ds) = valFrom (m * 10 + d) ds := rfl

theorem valFrom_ge (ds : List Nat) : ∀ m, m ≤ valFrom m ds := by
  induction ds with
  | nil => intro m; simp
  | cons d ds ih => intro m; simp only [valFrom_cons]; have := ih (m * 10 + d); omega

theorem valFrom_append (ds es : List Nat) (m : Nat) :
    valFrom m (ds ++ es) = valFrom (valFrom m ds) es := by
  simp [valFrom, List.foldl_append]

theorem valMS_snoc (ds : List Nat) (d : Nat) : valMS (ds ++ [d]) = valMS ds * 10 + d := by
  simp [valMS, List.foldl_append]

/-! ### characters -/

private theorem fin10 :
    ∀ d : Fin 10, isDigit (digitChar d.val) = true ∧ digitVal (digitChar d.val) = d.val ∧
      (digitChar d.val).toNat = 48 + d.val ∧ digitChar d.val ≠ cMinus ∧ digitChar d.val ≠ cPlus ∧
      isSpace (digitChar d.val) = false ∧ digitChar d.val ≠ 0 := by
  decide

theorem isDigit_digitChar {d : Nat} (h : d < 10) : isDigit (digitChar d) = true :=
  (fin10 ⟨d, h⟩).1
theorem digitVal_digitChar {d : Nat} (h : d < 10) : digitVal (digitChar d) = d :=
  (fin10 ⟨d, h⟩).2.1
theorem toNat_digitChar {d : Nat} (h : d < 10) : (digitChar d).toNat = 48 + d :=
  (fin10 ⟨d, h⟩).2.2.1
theorem digitChar_ne_minus {d : Nat} (h : d < 10) : digitChar d ≠ cMinus :=
  (fin10 ⟨d, h⟩).2.2.2.1
theorem digitChar_ne_plus {d : Nat} (h : d < 10) : digitChar d ≠ cPlus :=
  (fin10 ⟨d, h⟩).2.2.2.2.1
theorem isSpace_digitChar {d : Nat} (h : d < 10) : isSpace (digitChar d) = false :=
  (fin10 ⟨d, h⟩).2.2.2.2.2.1
theorem digitChar_ne_zero {d : Nat} (h : d < 10) : digitChar d ≠ 0 :=
  (fin10 ⟨d, h⟩).2.2.2.2.2.2

theorem allDigits_cons {d : Nat} {ds : List Nat} (h : AllDigits (d :: ds)) :
    d < 10 ∧ AllDigits ds :=
  ⟨h d (by simp), fun x hx => h x (by simp [hx])⟩

@[simp] theorem digitsStr_nil : digitsStr [] = [] := rfl
@[simp] theorem digitsStr_cons (d : Nat) (ds : List Nat) :
    digitsStr (d :: ds) = digitChar d :: digitsStr ds := rfl
theorem digitsStr_append (ds es : List Nat) : digitsStr (ds ++ es) = digitsStr ds ++ digitsStr es := by
  simp [digitsStr]

/-! ### opl_parse_int -/

/-- One step of the digit loop never leaves `[INT64_MIN, 0]`: whenever the guard lets the
    multiplication through, `value * 10 - (c - '0')` is representable.  (Any byte `c` that
    passes `isDigit`, any `value` in range.) -/
theorem oplDigits_no_overflow (value : Int) (c : UInt8)
    (hlo : int64Min ≤ value) (hhi : value ≤ 0) (hc : isDigit c = true)
    (hg : (decide (value ≤ -922337203685477580) &&
            (decide (value < -922337203685477580) || decide (c.toNat > 56))) = false) :
    int64Min ≤ value * 10 - digitVal c ∧ value * 10 - digitVal c ≤ 0 := by
  simp only [isDigit, Bool.and_eq_true, decide_eq_true_eq] at hc
  simp only [int64Min, digitVal] at *
  simp only [Bool.and_eq_false_iff, Bool.or_eq_false_iff, decide_eq_false_iff_not] at hg
  omega

/-- The digit loop on `ds ++ rest`, started with `value = -m`: the exact result, for digit
    strings of any length. -/
theorem oplDigits_spec (ds : List Nat) : ∀ (m : Nat) (rest : List UInt8),
    AllDigits ds → NoDigitHead rest → m ≤ 9223372036854775808 →
    oplDigits (-(m : Int)) (digitsStr ds ++ rest) =
      if valFrom m ds ≤ 9223372036854775808 then .ok (-(valFrom m ds : Int), rest)
      else .error .oplError := by
  induction ds with
  | nil =>
    intro m rest _ hr hm
    simp only [digitsStr_nil, List.nil_append, valFrom_nil, hm, if_true]
    cases rest with
    | nil => simp [oplDigits]
    | cons c s =>
      have : isDigit c = false := hr
      simp [oplDigits, this]
  | cons d ds ih =>
    intro m rest hd hr hm
    obtain ⟨hd10, hds⟩ := allDigits_cons hd
    simp only [digitsStr_cons, List.cons_append, valFrom_cons, oplDigits,
      isDigit_digitChar hd10, toNat_digitChar hd10, digitVal_digitChar hd10, if_true]
    by_cases hov : m * 10 + d ≤ 9223372036854775808
    · have hg : (decide (-(m : Int) ≤ -922337203685477580) &&
          (decide (-(m : Int) < -922337203685477580) || decide (48 + d > 56))) = false := by
        simp only [Bool.and_eq_false_iff, Bool.or_eq_false_iff, decide_eq_false_iff_not]
        omega
      rw [hg]
      have e : -(m : Int) * 10 - (d : Int) = -((m * 10 + d : Nat) : Int) := by omega
      simp only [Bool.false_eq_true, if_false, e]
      exact ih (m * 10 + d) rest hds hr hov
    · have hg : (decide (-(m : Int) ≤ -922337203685477580) &&
          (decide (-(m : Int) < -922337203685477580) || decide (48 + d > 56))) = true := by
        simp only [Bool.and_eq_true, Bool.or_eq_true, decide_eq_true_eq]
        omega
      rw [hg]
      have := valFrom_ge ds (m * 10 + d)
      have h2 : ¬ valFrom (m * 10 + d) ds ≤ 9223372036854775808 := by omega
      simp [h2]

/-- the digit loop as the machine executes it: every arithmetic result is wrapped to 64 bits -/
def oplDigitsW : Int → List UInt8 → Except Err (Int × List UInt8)
  | value, [] => .ok (value, [])
  | value, c :: s =>
    if isDigit c then
      if value ≤ -922337203685477580 && (value < -922337203685477580 || c.toNat > 56) then
        .error .oplError
      else oplDigitsW (wrap64 (wrap64 (value * 10) - digitVal c)) s
    else .ok (value, c :: s)

theorem wrap64_id {x : Int} (h1 : int64Min ≤ x) (h2 : x ≤ int64Max) : wrap64 x = x := by
  simp only [int64Min, int64Max] at h1 h2
  unfold wrap64
  omega

/-- Modelling the `int64_t value` of `opl_parse_int` by an unbounded `Int` is exact: on every
    input (any bytes), started anywhere in `[INT64_MIN, 0]`, the wrapped loop and the model
    agree, i.e. no intermediate result ever leaves the int64 range. -/
theorem oplDigits_eq_wrapped (s : List UInt8) : ∀ value : Int, int64Min ≤ value → value ≤ 0 →
    oplDigitsW value s = oplDigits value s := by
  induction s with
  | nil => intro v _ _; simp [oplDigitsW, oplDigits]
  | cons c s ih =>
    intro v hlo hhi
    unfold oplDigitsW oplDigits
    cases hc : isDigit c with
    | false => simp
    | true =>
      simp only [if_true]
      cases hg : (decide (v ≤ -922337203685477580) &&
            (decide (v < -922337203685477580) || decide (c.toNat > 56))) with
      | true => simp
      | false =>
        have hb := oplDigits_no_overflow v c hlo hhi hc hg
        have hm : wrap64 (v * 10) = v * 10 := by
          apply wrap64_id
          · have : 0 ≤ (digitVal c : Int) := Int.natCast_nonneg _
            simp only [int64Min] at *; omega
          · simp only [int64Max]; omega
        have hm2 : wrap64 (v * 10 - digitVal c) = v * 10 - digitVal c :=
          wrap64_id hb.1 (by simp only [int64Max]; omega)
        simp only [Bool.false_eq_true, if_false, hm, hm2]
        exact ih _ hb.1 hb.2

/-- a digit string followed by a non-digit starts with a digit iff it is nonempty -/
theorem peek_digits {ds : List Nat} (hne : ds ≠ []) (hd : AllDigits ds) (rest : List UInt8) :
    ∃ d, d < 10 ∧ peek (digitsStr ds ++ rest) = digitChar d := by
  cases ds with
  | nil => exact absurd rfl hne
  | cons d ds => exact ⟨d, (allDigits_cons hd).1, rfl⟩

/-- `opl_parse_int<T>` on `[-]digits rest`: accepted iff the denoted value is in `[tmin, tmax]`,
    for any number of digits (leading zeros, arbitrarily long). -/
theorem opl_int_strict (tmin tmax : Int) (h1 : int64Min ≤ tmin) (h2 : tmin ≤ 0) (h3 : 0 ≤ tmax)
    (h4 : tmax ≤ int64Max) (neg : Bool) (ds : List Nat) (hne : ds ≠ []) (hd : AllDigits ds)
    (rest : List UInt8) (hr : NoDigitHead rest) :
    oplParseInt tmin tmax ((if neg then [cMinus] else []) ++ digitsStr ds ++ rest) =
      (let v : Int := if neg then -(valMS ds : Int) else (valMS ds : Int)
       if tmin ≤ v ∧ v ≤ tmax then .ok (v, rest) else .error .oplError) := by
  obtain ⟨d0, hd0, hp⟩ := peek_digits hne hd rest
  have hspec := oplDigits_spec ds 0 rest hd hr (by omega)
  simp only [Int.natCast_zero, Int.neg_zero, ← valMS_eq] at hspec
  simp only [int64Min, int64Max] at h1 h4
  cases neg with
  | true =>
    have hpc : peek (cMinus :: (digitsStr ds ++ rest)) = cMinus := rfl
    simp only [if_true, List.cons_append, List.nil_append, oplParseInt, hpc, beq_self_eq_true,
      List.tail_cons, hp, isDigit_digitChar hd0, Bool.not_true, Bool.false_eq_true, if_false, hspec]
    by_cases hv : valMS ds ≤ 9223372036854775808
    · simp only [hv, if_true]
      by_cases ht : -(valMS ds : Int) < tmin
      · have : ¬ (tmin ≤ -(valMS ds : Int) ∧ -(valMS ds : Int) ≤ tmax) := by omega
        simp [ht, this]
      · have : (tmin ≤ -(valMS ds : Int) ∧ -(valMS ds : Int) ≤ tmax) := by omega
        simp [ht, this]
    · have : ¬ (tmin ≤ -(valMS ds : Int) ∧ -(valMS ds : Int) ≤ tmax) := by omega
      simp [hv, this]
  | false =>
    have hnm : (digitChar d0 == cMinus) = false := by simpa using digitChar_ne_minus hd0
    simp only [Bool.false_eq_true, if_false, List.nil_append, oplParseInt, hp, hnm,
      isDigit_digitChar hd0, Bool.not_true, hspec]
    by_cases hv : valMS ds ≤ 9223372036854775808
    · simp only [hv, if_true, int64Min]
      by_cases he : (-(valMS ds : Int) == -9223372036854775808) = true
      · have he' : -(valMS ds : Int) = -9223372036854775808 := by simpa using he
        have : ¬ (tmin ≤ (valMS ds : Int) ∧ (valMS ds : Int) ≤ tmax) := by omega
        simp [he, this]
      · have he' : -(valMS ds : Int) ≠ -9223372036854775808 := by simpa using he
        by_cases ht : tmax < (valMS ds : Int)
        · have : ¬ (tmin ≤ (valMS ds : Int) ∧ (valMS ds : Int) ≤ tmax) := by omega
          simp [he, ht, this]
        · have : (tmin ≤ (valMS ds : Int) ∧ (valMS ds : Int) ≤ tmax) := by omega
          simp [he, ht, this]
    · have : ¬ (tmin ≤ (valMS ds : Int) ∧ (valMS ds : Int) ≤ tmax) := by omega
      simp [hv, this]

/-- no digit after the optional minus sign: "expected integer" -/
theorem opl_int_needs_digit (tmin tmax : Int) (s : List UInt8)
    (h : isDigit (peek (if peek s == cMinus then s.tail else s)) = false) :
    oplParseInt tmin tmax s = .error .oplError := by
  unfold oplParseInt
  simp only [h, Bool.not_false, if_true]

/-! ### output_int -/

/-- `revDigits64` writes the decimal digits of `n` (reversed: most significant first), for any
    `n` that fits the buffer. -/
theorem revDigits64_spec : ∀ (fuel n : Nat), n < 10 ^ fuel → 1 ≤ fuel →
    ∃ ds, (revDigits64 fuel n).reverse = digitsStr ds ∧ valMS ds = n ∧ ds ≠ [] ∧ AllDigits ds := by
  intro fuel
  induction fuel with
  | zero => intro n _ h; omega
  | succ f ih =>
    intro n hn _
    have hmod : n % 10 < 10 := Nat.mod_lt _ (by omega)
    by_cases hq : n / 10 > 0
    · have hlt : n / 10 < 10 ^ f := by
        rw [Nat.pow_succ] at hn
        exact Nat.div_lt_of_lt_mul (by rw [Nat.mul_comm]; exact hn)
      have hf : 1 ≤ f := by
        cases f with
        | zero => simp at hlt; omega
        | succ f => omega
      obtain ⟨ds, h1, h2, _, h4⟩ := ih (n / 10) hlt hf
      refine ⟨ds ++ [n % 10], ?_, ?_, by simp, ?_⟩
      · simp only [revDigits64, hq, if_true, List.reverse_cons, h1, digitsStr_append,
          digitsStr_cons, digitsStr_nil]
      · rw [valMS_snoc, h2]; omega
      · intro d hd
        rcases List.mem_append.1 hd with h | h
        · exact h4 d h
        · simp at h; omega
    · refine ⟨[n % 10], ?_, ?_, by simp, ?_⟩
      · simp [revDigits64, hq]
      · simp only [valMS, List.foldl]; omega
      · intro d hd; simp at hd; omega

theorem revDigits64_20 (n : Nat) (h : n < 9223372036854775808) :
    ∃ ds, (revDigits64 20 n).reverse = digitsStr ds ∧ valMS ds = n ∧ ds ≠ [] ∧ AllDigits ds :=
  revDigits64_spec 20 n (Nat.lt_of_lt_of_le h (by decide)) (by decide)

/-- what `output_int` writes, `opl_parse_int<T>` reads back: for every `T` whose range
    `[tmin, tmax]` contains `v` (`int64_t`: object ids; `uint32_t`: versions, changesets, uids) -/
theorem output_int_roundtrip_gen (tmin tmax : Int) (h1 : int64Min ≤ tmin) (h2 : tmin ≤ 0)
    (h3 : 0 ≤ tmax) (h4 : tmax ≤ int64Max) (v : Int) (hv0 : int64Min < v) (hv1 : tmin ≤ v)
    (hv2 : v ≤ tmax) (rest : List UInt8) (hr : NoDigitHead rest) :
    ∃ out, outputInt v = some out ∧ oplParseInt tmin tmax (out ++ rest) = .ok (v, rest) := by
  have hv0' := hv0
  have h4' := h4
  simp only [int64Min, int64Max] at hv0' h4'
  have hnot : ¬ (v ≤ int64Min ∨ v > int64Max) := by simp only [int64Min, int64Max]; omega
  by_cases hneg : v < 0
  · obtain ⟨ds, e1, e2, e3, e4⟩ := revDigits64_20 (-v).toNat (by omega)
    refine ⟨cMinus :: digitsStr ds, ?_, ?_⟩
    · simp [outputInt, hnot, hneg, e1]
    · have := opl_int_strict tmin tmax h1 h2 h3 h4 true ds e3 e4 rest hr
      simp only [if_true, List.cons_append, List.nil_append] at this
      rw [List.cons_append, this, e2]
      have hvv : -(((-v).toNat : Nat) : Int) = v := by omega
      simp only [hvv, hv1, hv2, and_self, if_true]
  · obtain ⟨ds, e1, e2, e3, e4⟩ := revDigits64_20 v.toNat (by omega)
    refine ⟨digitsStr ds, ?_, ?_⟩
    · simp [outputInt, hnot, hneg, e1]
    · have := opl_int_strict tmin tmax h1 h2 h3 h4 false ds e3 e4 rest hr
      simp only [Bool.false_eq_true, if_false, List.nil_append] at this
      rw [this, e2]
      have hvv : ((v.toNat : Nat) : Int) = v := by omega
      simp only [hvv, hv1, hv2, and_self, if_true]

theorem output_int_roundtrip (v : Int) (hv0 : int64Min < v) (hv1 : v ≤ int64Max)
    (rest : List UInt8) (hr : NoDigitHead rest) :
    ∃ out, outputInt v = some out ∧ oplParseInt int64Min int64Max (out ++ rest) = .ok (v, rest) :=
  output_int_roundtrip_gen int64Min int64Max (Int.le_refl _) (by decide) (by decide) (Int.le_refl _)
    v hv0 (Int.le_of_lt hv0) hv1 rest hr

theorem output_int_roundtrip_u32 (v : Int) (hv0 : 0 ≤ v) (hv1 : v ≤ 4294967295)
    (rest : List UInt8) (hr : NoDigitHead rest) :
    ∃ out, outputInt v = some out ∧ oplParseInt 0 4294967295 (out ++ rest) = .ok (v, rest) :=
  output_int_roundtrip_gen 0 4294967295 (by decide) (Int.le_refl _) (by decide) (by decide)
    v (by simp only [int64Min]; omega) hv0 hv1 rest hr

/-- `output_int(INT64_MIN)` negates INT64_MIN: undefined behaviour, no output in the model -/
theorem output_int_min : outputInt int64Min = none := by decide

/-! ### strtoll / strtoul contracts on sign + digits -/

theorem natDigits_spec (ds : List Nat) : ∀ (acc : Nat) (rest : List UInt8),
    AllDigits ds → NoDigitHead rest →
    natDigits acc (digitsStr ds ++ rest) = (valFrom acc ds, rest) := by
  induction ds with
  | nil =>
    intro acc rest _ hr
    cases rest with
    | nil => simp [natDigits]
    | cons c s =>
      have : isDigit c = false := hr
      simp [natDigits, this]
  | cons d ds ih =>
    intro acc rest hd hr
    obtain ⟨hd10, hds⟩ := allDigits_cons hd
    simp only [digitsStr_cons, List.cons_append, natDigits, isDigit_digitChar hd10,
      digitVal_digitChar hd10, if_true, valFrom_cons]
    exact ih _ rest hds hr

/-- optional sign: `none` = no sign, `some true` = '-', `some false` = '+' -/
def signStr : Option Bool → List UInt8
  | none => []
  | some true => [cMinus]
  | some false => [cPlus]

/-- the value a sign and a magnitude denote -/
def signed (sg : Option Bool) (m : Nat) : Int := if sg = some true then -(m : Int) else (m : Int)

theorem strtoScan_spec (sg : Option Bool) (ds : List Nat) (hne : ds ≠ []) (hd : AllDigits ds)
    (rest : List UInt8) (hr : NoDigitHead rest) :
    strtoScan (signStr sg ++ digitsStr ds ++ rest) = some (sg == some true, valMS ds, rest) := by
  obtain ⟨d0, hd0, hp⟩ := peek_digits hne hd rest
  have hnd := natDigits_spec ds 0 rest hd hr
  rw [← valMS_eq] at hnd
  have hdig := isDigit_digitChar hd0
  match sg with
  | some true =>
    have e : signStr (some true) ++ digitsStr ds ++ rest = cMinus :: (digitsStr ds ++ rest) := rfl
    have hs : isSpace cMinus = false := by decide
    have hpc : peek (cMinus :: (digitsStr ds ++ rest)) = cMinus := rfl
    simp only [e, strtoScan, List.dropWhile_cons, hs, Bool.false_eq_true, if_false, hpc,
      beq_self_eq_true, if_true, List.tail_cons, hp, hdig, hnd]
  | some false =>
    have e : signStr (some false) ++ digitsStr ds ++ rest = cPlus :: (digitsStr ds ++ rest) := rfl
    have hs : isSpace cPlus = false := by decide
    have hpc : peek (cPlus :: (digitsStr ds ++ rest)) = cPlus := rfl
    have hpm : (cPlus == cMinus) = false := by decide
    simp only [e, strtoScan, List.dropWhile_cons, hs, Bool.false_eq_true, if_false, hpc, hpm,
      beq_self_eq_true, if_true, List.tail_cons, hp, hdig, hnd]
    rfl
  | none =>
    have e : signStr none ++ digitsStr ds ++ rest = digitsStr ds ++ rest := rfl
    have hdw : (digitsStr ds ++ rest).dropWhile isSpace = digitsStr ds ++ rest := by
      cases ds with
      | nil => exact absurd rfl hne
      | cons d ds =>
        have := isSpace_digitChar (allDigits_cons hd).1
        simp [this]
    have hpm : (digitChar d0 == cMinus) = false := by simpa using digitChar_ne_minus hd0
    have hpp : (digitChar d0 == cPlus) = false := by simpa using digitChar_ne_plus hd0
    simp only [e, strtoScan, hdw, hp, hpm, hpp, Bool.false_eq_true, if_false, hdig, if_true, hnd]
    rfl

/-- saturation of `strtoll` -/
def clamp64 (x : Int) : Int :=
  if x < int64Min then int64Min else if x > int64Max then int64Max else x

theorem strtoll_spec (sg : Option Bool) (ds : List Nat) (hne : ds ≠ []) (hd : AllDigits ds)
    (rest : List UInt8) (hr : NoDigitHead rest) :
    strtoll (signStr sg ++ digitsStr ds ++ rest) = (clamp64 (signed sg (valMS ds)), rest) := by
  simp only [strtoll, strtoScan_spec sg ds hne hd rest hr, clamp64, signed]
  cases sg with
  | none => simp
  | some b => cases b <;> simp

theorem strtoul_spec (sg : Option Bool) (ds : List Nat) (hne : ds ≠ []) (hd : AllDigits ds)
    (rest : List UInt8) (hr : NoDigitHead rest) :
    strtoul (signStr sg ++ digitsStr ds ++ rest) =
      (if valMS ds > 18446744073709551615 then 18446744073709551615
       else if sg = some true then (18446744073709551616 - valMS ds) % 18446744073709551616
       else valMS ds, rest) := by
  simp only [strtoul, strtoScan_spec sg ds hne hd rest hr]
  by_cases h : valMS ds > 18446744073709551615
  · simp [h]
  · cases sg with
    | none => simp [h]
    | some b => cases b <;> simp [h]

/-- the first character of sign + digits -/
theorem peek_signed (sg : Option Bool) (ds : List Nat) (hne : ds ≠ []) (hd : AllDigits ds)
    (rest : List UInt8) :
    ∃ c, peek (signStr sg ++ digitsStr ds ++ rest) = c ∧ c ≠ 0 ∧ isSpace c = false ∧
      (c = cMinus ↔ sg = some true) := by
  obtain ⟨d0, hd0, hp⟩ := peek_digits hne hd rest
  match sg with
  | some true => exact ⟨cMinus, rfl, by decide, by decide, by simp⟩
  | some false => exact ⟨cPlus, rfl, by decide, by decide, by decide⟩
  | none =>
    exact ⟨digitChar d0, hp, digitChar_ne_zero hd0, isSpace_digitChar hd0,
      by simpa using digitChar_ne_minus hd0⟩

/-! ### string_to_object_id -/

theorem strtollErange_spec (sg : Option Bool) (ds : List Nat) (hne : ds ≠ []) (hd : AllDigits ds)
    (rest : List UInt8) (hr : NoDigitHead rest) :
    strtollErange (signStr sg ++ digitsStr ds ++ rest) =
      (decide (signed sg (valMS ds) < int64Min) || decide (signed sg (valMS ds) > int64Max)) := by
  simp only [strtollErange, strtoScan_spec sg ds hne hd rest hr, signed]
  cases sg with
  | none => simp
  | some b => cases b <;> simp

/-- `string_to_object_id` on `[+-]digits rest` (any number of digits): accepted iff nothing
    follows the digits and the value is in (INT64_MIN, INT64_MAX]. -/
theorem object_id_spec (sg : Option Bool) (ds : List Nat) (hne : ds ≠ []) (hd : AllDigits ds)
    (rest : List UInt8) (hr : NoDigitHead rest) :
    stringToObjectId (signStr sg ++ digitsStr ds ++ rest) =
      (let v := signed sg (valMS ds)
       if int64Min < v ∧ v ≤ int64Max ∧ peek rest = 0 then .ok v else .error .rangeError) := by
  obtain ⟨c, hc, hc0, hcs, _⟩ := peek_signed sg ds hne hd rest
  have hc0' : (c != 0) = true := by simpa using hc0
  simp only [stringToObjectId, hc, hc0', hcs, Bool.not_false, Bool.and_self, if_true,
    strtoll_spec sg ds hne hd rest hr, strtollErange_spec sg ds hne hd rest hr]
  generalize signed sg (valMS ds) = v
  simp only [clamp64, int64Min, int64Max]
  by_cases hz : peek rest = 0
  · by_cases h1 : v < -9223372036854775808
    · have : ¬ (-9223372036854775808 < v ∧ v ≤ 9223372036854775807 ∧ peek rest = 0) := by omega
      simp [h1, this]
    · by_cases h2 : v > 9223372036854775807
      · have : ¬ (-9223372036854775808 < v ∧ v ≤ 9223372036854775807 ∧ peek rest = 0) := by omega
        have h2' : ¬ (v ≤ 9223372036854775807) := by omega
        simp [h1, h2, this]
      · by_cases h3 : v = -9223372036854775808
        · subst h3; simp
        · have : (-9223372036854775808 < v ∧ v ≤ 9223372036854775807 ∧ peek rest = 0) :=
            ⟨by omega, by omega, hz⟩
          have h1' : ¬ (v < -9223372036854775808) := h1
          have h2' : ¬ (9223372036854775807 < v) := by omega
          simp [h1', h2', h3, this]
  · simp [hz]

theorem object_id_strict (sg : Option Bool) (ds : List Nat) (hne : ds ≠ []) (hd : AllDigits ds) :
    stringToObjectId (signStr sg ++ digitsStr ds) =
      (let v := signed sg (valMS ds)
       if int64Min < v ∧ v ≤ int64Max then .ok v else .error .rangeError) := by
  have := object_id_spec sg ds hne hd [] rfl
  simpa [peek] using this

theorem object_id_empty : stringToObjectId [] = .error .rangeError := by
  simp [stringToObjectId, peek]

theorem object_id_leading_space (s : List UInt8) (h : isSpace (peek s) = true) :
    stringToObjectId s = .error .rangeError := by
  simp [stringToObjectId, h]

theorem object_id_trailing (sg : Option Bool) (ds : List Nat) (hne : ds ≠ []) (hd : AllDigits ds)
    (rest : List UInt8) (hr : NoDigitHead rest) (hz : peek rest ≠ 0) :
    stringToObjectId (signStr sg ++ digitsStr ds ++ rest) = .error .rangeError := by
  rw [object_id_spec sg ds hne hd rest hr]
  simp [hz]

/-! ### string_to_ulong -/

/-- the special case `input[0] == '-' && input[1] == '1' && input[2] == 0` -/
def isMinusOne (s : List UInt8) : Bool :=
  match s with
  | a :: b :: r => a == cMinus && b == 49 && peek r == 0
  | _ => false

theorem stringToUlong_eq (s : List UInt8) :
    stringToUlong s =
      if isMinusOne s then .ok 0
      else if peek s != 0 && peek s != cMinus && !isSpace (peek s) then
        (if (strtoul s).1 < 4294967295 && peek (strtoul s).2 == 0 then .ok (strtoul s).1
         else .error .rangeError)
      else .error .rangeError := rfl

theorem isMinusOne_false_of_peek {s : List UInt8} (h : peek s ≠ cMinus) : isMinusOne s = false := by
  match s with
  | [] => rfl
  | [_] => rfl
  | a :: b :: r =>
    have : (a == cMinus) = false := by simpa [peek] using h
    simp [isMinusOne, this]

/-- `string_to_ulong` on `[+]digits rest` (any number of digits): accepted iff nothing follows
    the digits and the value is below 2^32 - 1 (the code rejects 4294967295 itself). -/
theorem ulong_spec (sg : Option Bool) (hsg : sg ≠ some true) (ds : List Nat) (hne : ds ≠ [])
    (hd : AllDigits ds) (rest : List UInt8) (hr : NoDigitHead rest) :
    stringToUlong (signStr sg ++ digitsStr ds ++ rest) =
      if valMS ds < 4294967295 ∧ peek rest = 0 then .ok (valMS ds) else .error .rangeError := by
  obtain ⟨c, hc, hc0, hcs, hcm⟩ := peek_signed sg ds hne hd rest
  have hnm : c ≠ cMinus := fun h => hsg (hcm.1 h)
  have hc0' : (c != 0) = true := by simpa using hc0
  have hnm' : (c != cMinus) = true := by simpa using hnm
  rw [stringToUlong_eq, isMinusOne_false_of_peek (by rw [hc]; exact hnm)]
  simp only [hc, hc0', hnm', hcs, Bool.not_false, Bool.and_self, if_true, Bool.false_eq_true,
    if_false, strtoul_spec sg ds hne hd rest hr, hsg]
  by_cases hz : peek rest = 0
  · by_cases hbig : valMS ds > 18446744073709551615
    · have : ¬ (valMS ds < 4294967295 ∧ peek rest = 0) := by omega
      simp [hbig, this]
    · by_cases hv : valMS ds < 4294967295
      · simp [hbig, hv, hz]
      · simp [hbig, hv]
  · simp [hz]

theorem ulong_strict (ds : List Nat) (hne : ds ≠ []) (hd : AllDigits ds) :
    stringToUlong (digitsStr ds) =
      if valMS ds < 4294967295 then .ok (valMS ds) else .error .rangeError := by
  have := ulong_spec none (by simp) ds hne hd [] rfl
  simpa [peek, signStr] using this

/-- "-1" is accepted and means 0 -/
theorem ulong_minus_one : stringToUlong [cMinus, 49] = .ok 0 := by
  simp [stringToUlong_eq, isMinusOne, peek]

/-- any other string starting with '-' is rejected -/
theorem ulong_minus (s : List UInt8) (h : peek s = cMinus) (h1 : isMinusOne s = false) :
    stringToUlong s = .error .rangeError := by
  simp [stringToUlong_eq, h, h1]

theorem ulong_empty : stringToUlong [] = .error .rangeError := by
  simp [stringToUlong_eq, isMinusOne, peek]

theorem ulong_leading_space (s : List UInt8) (h : isSpace (peek s) = true) :
    stringToUlong s = .error .rangeError := by
  have hm : peek s ≠ cMinus := by
    intro e; rw [e] at h; exact absurd h (by decide)
  simp [stringToUlong_eq, isMinusOne_false_of_peek hm, h]

theorem ulong_trailing (sg : Option Bool) (hsg : sg ≠ some true) (ds : List Nat) (hne : ds ≠ [])
    (hd : AllDigits ds) (rest : List UInt8) (hr : NoDigitHead rest) (hz : peek rest ≠ 0) :
    stringToUlong (signStr sg ++ digitsStr ds ++ rest) = .error .rangeError := by
  rw [ulong_spec sg hsg ds hne hd rest hr]
  simp [hz]

/-! ### str_to_int -/

/-- `str_to_int<T>` on `[+-]digits rest`: the value if it is non-negative, below `tmax` and
    below INT64_MAX and nothing follows; 0 otherwise.  (No hypothesis on `tmax` needed.) -/
theorem str_to_int_gen (tmax : Int) (sg : Option Bool) (ds : List Nat) (hne : ds ≠ [])
    (hd : AllDigits ds) (rest : List UInt8) (hr : NoDigitHead rest) :
    strToInt tmax (signStr sg ++ digitsStr ds ++ rest) =
      (let v := signed sg (valMS ds)
       if 0 ≤ v ∧ v < tmax ∧ v < int64Max ∧ peek rest = 0 then v else 0) := by
  simp only [strToInt, strtoll_spec sg ds hne hd rest hr]
  generalize signed sg (valMS ds) = v
  simp only [clamp64, int64Min, int64Max]
  by_cases hz : peek rest = 0
  · by_cases h1 : v < -9223372036854775808
    · have : ¬ (0 ≤ v ∧ v < tmax ∧ v < 9223372036854775807 ∧ peek rest = 0) := by omega
      simp [h1, this]
    · by_cases h2 : v > 9223372036854775807
      · have : ¬ (0 ≤ v ∧ v < tmax ∧ v < 9223372036854775807 ∧ peek rest = 0) := by omega
        simp [h1, h2, this]
      · by_cases h3 : 0 ≤ v ∧ v < tmax ∧ v < 9223372036854775807
        · have : (0 ≤ v ∧ v < tmax ∧ v < 9223372036854775807 ∧ peek rest = 0) :=
            ⟨h3.1, h3.2.1, h3.2.2, hz⟩
          have h5 : ¬ v < 0 := by omega
          have h6 : ¬ v = 9223372036854775807 := by omega
          have h7 : ¬ tmax ≤ v := by omega
          simp [h1, h2, this, h5, h6, h7]
        · have : ¬ (0 ≤ v ∧ v < tmax ∧ v < 9223372036854775807 ∧ peek rest = 0) :=
            fun h => h3 ⟨h.1, h.2.1, h.2.2.1⟩
          have h8 : v < 0 ∨ v = 9223372036854775807 ∨ tmax ≤ v := by omega
          simp only [h1, h2, if_false, this]
          rcases h8 with h | h | h <;> simp [h]
  · simp [hz]

theorem str_to_int_spec (tmax : Int) (ds : List Nat) (hne : ds ≠ []) (hd : AllDigits ds) :
    strToInt tmax (digitsStr ds) =
      if (valMS ds : Int) < tmax ∧ (valMS ds : Int) < int64Max then (valMS ds : Int) else 0 := by
  have := str_to_int_gen tmax none ds hne hd [] rfl
  simpa [peek, signStr, signed] using this

end Osmium.Conv.IntLemmas
