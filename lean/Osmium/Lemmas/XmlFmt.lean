/-
Leaf lemmas for the XML round trip (Props/C01Text.lean): reference decoding is the identity on
the plain ASCII the writer emits for numbers / timestamps / keywords and undoes `Xml.escape` on
strings (C14); `string_to_object_id`, `string_to_ulong`, the strict timestamp setter and `set_lon`
undo `output_int`, `to_iso_all`, `append_location_coordinate_to_string` (C13).
-/
import Osmium.Model.XmlFmt
import Osmium.Lemmas.OplFmtCs

namespace Osmium.XmlFmt
open Osmium.Osm Osmium.TextFmt Osmium.Conv Osmium.Utf8
open Osmium.Conv.IntLemmas (digitsStr valMS AllDigits NoDigitHead signStr signed)

/-! ### plain bytes -/

/-- ASCII letters, digits, '-', '.', ':' -/
def plainClass (n : Nat) : Bool :=
  (0x30 ≤ n && n ≤ 0x39) || (0x41 ≤ n && n ≤ 0x5a) || (0x61 ≤ n && n ≤ 0x7a) || n == 0x2d || n == 0x2e || n == 0x3a

/-- a byte the escaper copies, that is ASCII, an XML Char and not special in attribute values -/
def plainB (b : UInt8) : Bool :=
  Xml.escapeByte b == [b] && decide (b.toNat < 0x80) && Xml.charOk b.toNat &&
  !(b == 0x3c || b == 0x22 || b == 0x26 || b == 0x09 || b == 0x0a || b == 0x0d)

theorem plain_table : ∀ n : Fin 256, plainClass n.val = true → plainB (UInt8.ofNat n.val) = true := by
  decide +kernel

theorem plain_of_class (b : UInt8) (h : plainClass b.toNat = true) : plainB b = true := by
  have := plain_table ⟨b.toNat, b.toNat_lt⟩ h
  simpa using this

def AllPlain (bs : Bytes) : Prop := ∀ b ∈ bs, plainClass b.toNat = true

theorem escape_plain (bs : Bytes) (h : AllPlain bs) : Xml.escape bs = bs := by
  induction bs with
  | nil => rfl
  | cons b bs ih =>
    have hb := plain_of_class b (h b (by simp))
    simp only [plainB, Bool.and_eq_true, beq_iff_eq] at hb
    have := ih (fun x hx => h x (by simp [hx]))
    simp only [Xml.escape, List.flatMap_cons] at this ⊢
    rw [hb.1.1.1, this]; rfl

theorem encodeStr_ascii (bs : Bytes) (h : ∀ b ∈ bs, b.toNat < 0x80) : encodeStr (bs.map (·.toNat)) = bs := by
  induction bs with
  | nil => rfl
  | cons b bs ih =>
    rw [List.map_cons, encodeStr_cons, encode_ascii _ (h b (by simp)), ih (fun x hx => h x (by simp [hx]))]
    simp

/-- reference decoding is the identity on plain ASCII -/
theorem unescape_plain (bs : Bytes) (h : AllPlain bs) : Xml.unescapeAttr bs = some bs := by
  have hp := fun b hb => plain_of_class b (h b hb)
  have hascii : ∀ b ∈ bs, b.toNat < 0x80 := by
    intro b hb
    have := hp b hb
    simp only [plainB, Bool.and_eq_true, decide_eq_true_eq] at this
    exact this.1.1.2
  have hok : C14.XmlCharStr (bs.map (·.toNat)) := by
    intro c hc
    simp only [List.mem_map] at hc
    obtain ⟨b, hb, rfl⟩ := hc
    have := hp b hb
    simp only [plainB, Bool.and_eq_true] at this
    exact this.1.2
  have := C14.xml_roundtrip_partial (bs.map (·.toNat)) hok
  rwa [encodeStr_ascii bs hascii, escape_plain bs h] at this

theorem AllPlain.append {a b : Bytes} (ha : AllPlain a) (hb : AllPlain b) : AllPlain (a ++ b) := by
  intro x hx; rcases List.mem_append.1 hx with h | h; exact ha x h; exact hb x h

theorem numByte_plain {b : UInt8} (h : OplFmt.NumByte b) : plainClass b.toNat = true := by
  rcases h with rfl | rfl | ⟨h1, h2⟩
  · decide
  · decide
  · simp [plainClass]; left; left; left; left; left; omega

theorem allPlain_of_num {bs : Bytes} (h : ∀ b ∈ bs, OplFmt.NumByte b) : AllPlain bs :=
  fun b hb => numByte_plain (h b hb)

/-- strings of the XML domain: valid UTF-8 of XML `Char`s (no NUL, no C0 controls except TAB/LF/CR,
    no U+FFFE/U+FFFF), at most 1024 bytes -/
def xstrOK (bs : Bytes) : Bool :=
  match decodeStr bs with
  | .ok s => s.all (fun c => Xml.charOk c) && encodeStr s == bs && decide (bs.length ≤ 1024)
  | .error _ => false

theorem xstrOK_spec {bs : Bytes} (h : xstrOK bs = true) :
    ∃ s : List Nat, bs = encodeStr s ∧ C14.XmlCharStr s ∧ bs.length ≤ 1024 := by
  unfold xstrOK at h
  split at h
  · rename_i s _
    simp only [Bool.and_eq_true, List.all_eq_true, decide_eq_true_eq, beq_iff_eq] at h
    exact ⟨s, h.1.2.symm, fun c hc => h.1.1 c hc, h.2⟩
  · cases h

theorem unescape_escape (bs : Bytes) (h : xstrOK bs = true) : Xml.unescapeAttr (Xml.escape bs) = some bs := by
  obtain ⟨s, rfl, hs, _⟩ := xstrOK_spec h
  exact C14.xml_roundtrip_partial s hs

/-! ### numbers -/

/-- the shape of `output_int`: optional '-' and the digits of the magnitude -/
theorem outputInt_digits (v : Int) (h0 : int64Min < v) (h1 : v ≤ int64Max) :
    ∃ sg ds, outputInt v = some (signStr sg ++ digitsStr ds) ∧ ds ≠ [] ∧ AllDigits ds ∧ signed sg (valMS ds) = v ∧
      (0 ≤ v → sg = none) := by
  simp only [int64Min, int64Max] at h0 h1
  have hnot : ¬ (v ≤ int64Min ∨ v > int64Max) := by simp only [int64Min, int64Max]; omega
  by_cases hneg : v < 0
  · obtain ⟨ds, e1, e2, e3, e4⟩ := IntLemmas.revDigits64_20 (-v).toNat (by omega)
    refine ⟨some true, ds, by simp [outputInt, hnot, hneg, e1, signStr], e3, e4, ?_, fun h => by omega⟩
    simp [signed, e2]; omega
  · obtain ⟨ds, e1, e2, e3, e4⟩ := IntLemmas.revDigits64_20 v.toNat (by omega)
    refine ⟨none, ds, by simp [outputInt, hnot, hneg, e1, signStr], e3, e4, ?_, fun _ => rfl⟩
    simp [signed, e2]; omega

theorem wInt_rId (v : Int) (h0 : int64Min < v) (h1 : v ≤ int64Max) :
    ∃ out, wInt v = .ok out ∧ AllPlain out ∧ rId out = .ok v := by
  obtain ⟨sg, ds, ho, hne, hd, hv, _⟩ := outputInt_digits v h0 h1
  obtain ⟨out', ho', _, hnum⟩ := OplFmt.outputInt_shape v h0 h1
  rw [ho] at ho'; cases ho'
  refine ⟨_, by simp [wInt, ho], allPlain_of_num hnum, ?_⟩
  simp only [rId, IntLemmas.object_id_strict sg ds hne hd, hv, h0, h1, and_self, if_true, convR]

theorem wInt_rUlong (n : Nat) (h : n < 4294967295) :
    ∃ out, wInt (n : Int) = .ok out ∧ AllPlain out ∧ rUlong out = .ok n := by
  have h0 : int64Min < (n : Int) := by simp only [int64Min]; omega
  have h1 : (n : Int) ≤ int64Max := by simp only [int64Max]; omega
  obtain ⟨sg, ds, ho, hne, hd, hv, hs⟩ := outputInt_digits n h0 h1
  obtain ⟨out', ho', _, hnum⟩ := OplFmt.outputInt_shape n h0 h1
  rw [ho] at ho'; cases ho'
  have hsg := hs (by omega)
  subst hsg
  have hval : valMS ds = n := by simpa [signed] using hv
  refine ⟨_, by simp [wInt, ho], allPlain_of_num hnum, ?_⟩
  simp only [signStr, List.nil_append, rUlong, IntLemmas.ulong_strict ds hne hd, hval, h, if_true, convR]

/-! ### timestamps, coordinates -/

theorem toIsoAll_plain (t : Nat) : AllPlain (toIsoAll t) := by
  rw [toIsoAll_eq]
  have d2 : ∀ n, AllPlain (fmt2 n) := by
    intro n b hb
    simp only [fmt2, List.mem_cons, List.not_mem_nil, or_false] at hb
    rcases hb with rfl | rfl <;> exact numByte_plain (OplFmt.digitChar_num _)
  have d4 : ∀ n, AllPlain (fmt4 n) := by
    intro n b hb
    simp only [fmt4, List.mem_cons, List.not_mem_nil, or_false] at hb
    rcases hb with rfl | rfl | rfl | rfl <;> exact numByte_plain (OplFmt.digitChar_num _)
  have s1 : ∀ c : UInt8, plainClass c.toNat = true → AllPlain [c] := by
    intro c hc b hb; simp at hb; subst hb; exact hc
  exact ((((((((((((d4 _).append (s1 _ (by decide))).append (d2 _)).append (s1 _ (by decide))).append (d2 _)).append
    (s1 _ (by decide))).append (d2 _)).append (s1 _ (by decide))).append (d2 _)).append (s1 _ (by decide))).append
    (d2 _)).append (s1 _ (by decide)))

theorem rTimestampStrict_of (s : Bytes) (x : Int) (h : parseTimestampNow s = .ok (x, [])) :
    rTimestampStrict s = .ok (toU32 x) := by
  unfold rTimestampStrict; rw [h]; rfl

theorem rTimestamp_of (s : Bytes) (x : Nat) (h : timestampNow s = .ok x) : rTimestamp s = .ok x := by
  unfold rTimestamp; rw [h]; rfl

theorem rTimestampStrict_toIsoAll (t : Nat) (ht : t < 4294967296) : rTimestampStrict (toIsoAll t) = .ok t := by
  have := (ts_roundtrip_fixed true true t ht []).1
  rw [List.append_nil] at this
  rw [rTimestampStrict_of _ _ this, toU32_of_lt t ht]

theorem rTimestamp_toIsoAll (t : Nat) (ht : t < 4294967296) : rTimestamp (toIsoAll t) = .ok t := by
  have := (ts_roundtrip_fixed true true t ht []).2
  rw [List.append_nil] at this
  exact rTimestamp_of _ _ this

theorem formatCoord_plain (v : Int) (h1 : int32Min ≤ v) (h2 : v ≤ int32Max) : AllPlain (formatCoord v) :=
  allPlain_of_num (OplFmt.formatCoord_shape v h1 h2).2

theorem rCoord_formatCoord (v : Int) (h1 : int32Min ≤ v) (h2 : v ≤ int32Max) : rCoord (formatCoord v) = .ok v := by
  simp [rCoord, C13.coord_roundtrip_full .now v h1 h2, convR]

end Osmium.XmlFmt
