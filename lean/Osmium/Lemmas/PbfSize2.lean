/-
`DenseNodes::size()` (fix 9b8b2e0) bounds the serialized DenseNodes message; with it `PrimitiveBlock::size()`
bounds the serialized block for dense blocks too.
-/
import Osmium.Lemmas.PbfSize
import Osmium.Lemmas.PbfObj

namespace Osmium.Pbf

open Osmium.Wire Osmium.PbfMsg Osmium.Osm

theorem pack_len (k : Nat) : ∀ (L : List Nat), (∀ v ∈ L, (encodeVarint v).length ≤ k) → (pack L).length ≤ k * L.length
  | [], _ => by simp [pack]
  | v :: L, h => by
    have h1 := h v List.mem_cons_self
    have h2 := pack_len k L (fun x hx => h x (List.mem_cons_of_mem _ hx))
    simp only [pack, List.flatMap_cons, List.length_append, List.length_cons] at *
    rw [Nat.mul_succ]; omega

theorem fPacked_len (tag k : Nat) (L : List Nat) (ht : tag < 16) (h : ∀ v ∈ L, (encodeVarint v).length ≤ k) :
    (encodeFields (fPacked tag L)).length ≤ 12 + k * L.length := by
  unfold fPacked
  split
  · simp [encodeFields]
  · have := encodeField_bytes_len tag (pack L) ht
    have := pack_len k L h
    simp only [encodeFields, List.flatMap_cons, List.flatMap_nil, List.append_nil]
    omega

theorem varint5 (v : Nat) (h : v < 2 ^ 35) : (encodeVarint v).length ≤ 5 :=
  encodeVarint_len v 5 (by decide) (by simpa using h) (by simp only [Nat.reducePow] at *; omega)

theorem varint10 (v : Nat) (h : v < 2 ^ 64) : (encodeVarint v).length ≤ 10 :=
  encodeVarint_len v 10 (by decide) (by simp only [Nat.reducePow] at *; omega) h

theorem varint1 (v : Nat) (h : v < 128) : (encodeVarint v).length ≤ 1 :=
  encodeVarint_len v 1 (by decide) (by simpa using h) (by omega)

/-- values whose pairwise differences need at most 34 bits: uint32 and int32 values -/
def InR (x : Int) : Prop := -(2:Int)^32 < x ∧ x < (2:Int)^32

theorem encGo_small : ∀ (xs : List Int) (p : Int), InR p → (∀ x ∈ xs, InR x) →
    ∀ d ∈ Delta.encGo 64 p xs, zigzag64 d < 2 ^ 35
  | [], _, _, _ => by simp [Delta.encGo]
  | x :: xs, p, hp, hx => by
    intro d hd
    simp only [Delta.encGo, List.mem_cons] at hd
    rcases hd with rfl | hd
    · have hx0 := hx x List.mem_cons_self
      unfold InR at *
      unfold zigzag64 Delta.swrap
      simp only [Int.reducePow, Nat.reducePow, Nat.reduceSub] at *
      (repeat' split) <;> omega
    · exact encGo_small xs x (hx x List.mem_cons_self) (fun y hy => hx y (List.mem_cons_of_mem _ hy)) d hd

theorem packed_delta_len (tag : Nat) (ht : tag < 16) (xs : List Int) (h : ∀ x ∈ xs, InR x) :
    (encodeFields (fPacked tag ((Delta.enc 64 xs).map zigzag64))).length ≤ 12 + 5 * xs.length := by
  have := fPacked_len tag 5 ((Delta.enc 64 xs).map zigzag64) ht (fun v hv => by
    obtain ⟨d, hd, rfl⟩ := List.mem_map.mp hv
    exact varint5 _ (encGo_small xs 0 (by unfold InR; simp) h d hd))
  simpa [Delta.enc_length] using this

/-- the part of the value domain the size estimate relies on -/
def RowDom (r : DenseRow) : Prop :=
  r.version < 2 ^ 31 ∧ r.timestamp < 2 ^ 32 ∧ r.changeset < 2 ^ 32 ∧ InR r.lat ∧ InR r.lon ∧ ∀ i ∈ r.tags, i < 2 ^ 31

theorem encodeFields_append_len (a b : List Field) : (encodeFields (a ++ b)).length = (encodeFields a).length + (encodeFields b).length := by
  simp [encodeFields]

theorem ite_nil_len (c : Bool) (fs : List Field) : (encodeFields (if c then fs else [])).length ≤ (encodeFields fs).length := by
  cases c <;> simp [encodeFields]

theorem natInR (n : Nat) (h : n < 2 ^ 32) : InR (n : Int) := by
  unfold InR; simp only [Int.reducePow, Nat.reducePow] at *; omega

/-- `DenseNodes::serialize()` is at most `DenseNodes::size()` + 144 bytes of field headers -/
theorem dense_len (o : Opts) (rows : List DenseRow) (hd : ∀ r ∈ rows, RowDom r) :
    (encodeFields (encDense o rows)).length ≤ denseSize o rows + 144 := by
  have n1 : ∀ x ∈ rows.map (·.lat), InR x := fun x hx => by obtain ⟨r, hr, rfl⟩ := List.mem_map.mp hx; exact (hd r hr).2.2.2.1
  have n2 : ∀ x ∈ rows.map (·.lon), InR x := fun x hx => by obtain ⟨r, hr, rfl⟩ := List.mem_map.mp hx; exact (hd r hr).2.2.2.2.1
  have n3 : ∀ x ∈ rows.map (fun r => (r.timestamp : Int)), InR x := fun x hx => by
    obtain ⟨r, hr, rfl⟩ := List.mem_map.mp hx; exact natInR _ (hd r hr).2.1
  have n4 : ∀ x ∈ rows.map (fun r => (r.changeset : Int)), InR x := fun x hx => by
    obtain ⟨r, hr, rfl⟩ := List.mem_map.mp hx; exact natInR _ (hd r hr).2.2.1
  -- ids: any int64 delta, 10 bytes
  have b1 := fPacked_len 1 10 ((Delta.encId (rows.map (·.id))).map zigzag64) (by decide) (fun v hv => by
    obtain ⟨d, hd', rfl⟩ := List.mem_map.mp hv
    have := encGo64_range (rows.map (·.id)) 0 d (by simpa [Delta.encId, Delta.enc] using hd')
    exact varint10 _ (zigzag_lt d this.1 this.2))
  have b8 := packed_delta_len 8 (by decide) (rows.map (·.lat)) n1
  have b9 := packed_delta_len 9 (by decide) (rows.map (·.lon)) n2
  have b10 := fPacked_len 10 5 (rows.flatMap fun r => r.tags.map fun i => u64 (toInt32 i)) (by decide) (fun v hv => by
    obtain ⟨r, hr, hv'⟩ := List.mem_flatMap.mp hv
    obtain ⟨i, hi, rfl⟩ := List.mem_map.mp hv'
    have hi' := (hd r hr).2.2.2.2.2 i hi
    rw [toInt32_small i hi', u64_nat i (by simp only [Nat.reducePow] at *; omega)]
    exact varint5 _ (by simp only [Nat.reducePow] at *; omega))
  have i1 := fPacked_len 1 5 (rows.map fun r => u64 (toInt32 r.version)) (by decide) (fun v hv => by
    obtain ⟨r, hr, rfl⟩ := List.mem_map.mp hv
    have hv' := (hd r hr).1
    rw [toInt32_small _ hv', u64_nat _ (by simp only [Nat.reducePow] at *; omega)]
    exact varint5 _ (by simp only [Nat.reducePow] at *; omega))
  have i2 := packed_delta_len 2 (by decide) (rows.map fun r => (r.timestamp : Int)) n3
  have i3 := packed_delta_len 3 (by decide) (rows.map fun r => (r.changeset : Int)) n4
  have z32 : ∀ (xs : List Int), ∀ v ∈ (Delta.enc 32 xs).map zigzag32, (encodeVarint v).length ≤ 5 := fun xs v hv => by
    obtain ⟨d, _, rfl⟩ := List.mem_map.mp hv
    unfold zigzag32
    have : zigzag64 d % 2 ^ 32 < 2 ^ 32 := Nat.mod_lt _ (by decide)
    exact varint5 _ (by simp only [Nat.reducePow] at *; omega)
  have i4 := fPacked_len 4 5 _ (by decide) (z32 (rows.map fun r => (r.uid : Int)))
  have i5 := fPacked_len 5 5 _ (by decide) (z32 (rows.map fun r => (r.userSid : Int)))
  have i6 := fPacked_len 6 1 (rows.map fun r => if r.visible then 1 else 0) (by decide) (fun v hv => by
    obtain ⟨r, _, rfl⟩ := List.mem_map.mp hv
    exact varint1 _ (by split <;> decide))
  have tl : (rows.flatMap fun r => r.tags.map fun i => u64 (toInt32 i)).length = (rows.map fun r => r.tags.length).sum := by
    simp [List.length_flatMap]
  simp only [Delta.encId, Delta.encCoord, Delta.encTimestamp, Delta.encChangeset, Delta.encUid, Delta.encUserSid,
    List.length_map, Delta.enc_length, tl] at *
  unfold encDense denseSize
  simp only [Delta.encId, Delta.encCoord, Delta.encTimestamp, Delta.encChangeset, Delta.encUid, Delta.encUserSid]
  simp only [encodeFields_append_len]
  -- the DenseInfo field
  have hinfo : ∀ (c : Bool) (info : List Field), (encodeFields (if c then [fBytes 5 (encodeFields info)] else [])).length ≤
      12 + (encodeFields info).length := fun c info => by
    have := encodeField_bytes_len 5 (encodeFields info) (by decide)
    cases c
    · simp [encodeFields]
    · simp only [↓reduceIte, encodeFields, List.flatMap_cons, List.flatMap_nil, List.append_nil] at *; omega
  have j1 := ite_nil_len o.mdVersion (fPacked 1 (rows.map fun r => u64 (toInt32 r.version)))
  have j2 := ite_nil_len o.mdTimestamp (fPacked 2 ((Delta.enc 64 (rows.map fun r => (r.timestamp : Int))).map zigzag64))
  have j3 := ite_nil_len o.mdChangeset (fPacked 3 ((Delta.enc 64 (rows.map fun r => (r.changeset : Int))).map zigzag64))
  have j4 := ite_nil_len o.mdUid (fPacked 4 ((Delta.enc 32 (rows.map fun r => (r.uid : Int))).map zigzag32))
  have j5 := ite_nil_len o.mdUser (fPacked 5 ((Delta.enc 32 (rows.map fun r => (r.userSid : Int))).map zigzag32))
  have j6 := ite_nil_len o.history (fPacked 6 (rows.map fun r => if r.visible then 1 else 0))
  have hI := hinfo ((o.anyMeta || o.history) && !(
      (if o.mdVersion then fPacked 1 (rows.map fun r => u64 (toInt32 r.version)) else []) ++
      (if o.mdTimestamp then fPacked 2 ((Delta.enc 64 (rows.map fun r => (r.timestamp : Int))).map zigzag64) else []) ++
      (if o.mdChangeset then fPacked 3 ((Delta.enc 64 (rows.map fun r => (r.changeset : Int))).map zigzag64) else []) ++
      (if o.mdUid then fPacked 4 ((Delta.enc 32 (rows.map fun r => (r.uid : Int))).map zigzag32) else []) ++
      (if o.mdUser then fPacked 5 ((Delta.enc 32 (rows.map fun r => (r.userSid : Int))).map zigzag32) else []) ++
      (if o.history then fPacked 6 (rows.map fun r => if r.visible then 1 else 0) else [])).isEmpty)
    ((if o.mdVersion then fPacked 1 (rows.map fun r => u64 (toInt32 r.version)) else []) ++
      (if o.mdTimestamp then fPacked 2 ((Delta.enc 64 (rows.map fun r => (r.timestamp : Int))).map zigzag64) else []) ++
      (if o.mdChangeset then fPacked 3 ((Delta.enc 64 (rows.map fun r => (r.changeset : Int))).map zigzag64) else []) ++
      (if o.mdUid then fPacked 4 ((Delta.enc 32 (rows.map fun r => (r.uid : Int))).map zigzag32) else []) ++
      (if o.mdUser then fPacked 5 ((Delta.enc 32 (rows.map fun r => (r.userSid : Int))).map zigzag32) else []) ++
      (if o.history then fPacked 6 (rows.map fun r => if r.visible then 1 else 0) else []))
  simp only [encodeFields_append_len] at hI
  obtain ⟨d, mv, mt, mc, mu, mus, hist, low⟩ := o
  cases mv <;> cases mt <;> cases mc <;> cases mu <;> cases mus <;> cases hist <;>
    simp only [↓reduceIte, Bool.false_eq_true, encodeFields, List.flatMap_nil, List.length_nil, Nat.add_zero, Nat.zero_add] at * <;>
    omega

theorem denseSize_reverse (o : Opts) (rows : List DenseRow) : denseSize o rows.reverse = denseSize o rows := by
  unfold denseSize
  simp only [List.length_reverse, List.map_reverse, List.sum_reverse]

/-- dense blocks: the serialized PrimitiveBlock is at most `size()` + 180 bytes -/
theorem size_estimate_dense (o : Opts) (b : Block) (hk : (b.kind == 2) = true)
    (hs : ∀ s ∈ b.table.added, s.length < 2 ^ 21) (hd : ∀ r ∈ b.rows, RowDom r) :
    (b.message o).length ≤ b.size o + 180 := by
  unfold Block.message Block.size Block.groupData
  simp only [hk, ↓reduceIte]
  have h1 := stringtable_len b.table hs
  have h2 := encodeField_bytes_len 1 (encodeFields (b.table.strings.map (fBytes 1))) (by decide)
  have h3 := encodeField_bytes_len 2 (encodeField (fBytes 2 (encodeFields (encDense o b.rows.reverse)))) (by decide)
  have h4 := encodeField_bytes_len 2 (encodeFields (encDense o b.rows.reverse)) (by decide)
  have h5 := dense_len o b.rows.reverse (fun r hr => hd r (List.mem_reverse.mp hr))
  rw [denseSize_reverse] at h5
  simp only [encodeFields, List.flatMap_cons, List.flatMap_nil, List.append_nil, List.length_append] at *
  omega

/-- every block: `size()` + 180 bounds the serialized PrimitiveBlock -/
theorem size_estimate_all (o : Opts) (b : Block) (hc : b.Consistent)
    (hs : ∀ s ∈ b.table.added, s.length < 2 ^ 21) (hd : ∀ r ∈ b.rows, RowDom r) :
    (b.message o).length ≤ b.size o + 180 := by
  cases hk : b.kind == 2
  · have := size_estimate_plain o b hk hc hs; omega
  · exact size_estimate_dense o b hk hs hd

end Osmium.Pbf
