/-
Reader half of `xml_decode_spec` (C02), part 3: `init_object` on the (permuted) metadata attributes of
the specification renderer.
-/
import Osmium.Lemmas.XmlSpecRead2

namespace Osmium.XmlFmt.XmlSpec
open Osmium.Osm Osmium.TextFmt Osmium.Conv Osmium.XmlFmt

theorem metaAttrs_optA (ch : Choices) (m : Meta) :
    metaAttrs ch m = [("id", num m.id)] ++ optA (!(ch.omitDefaults && m.version == 0)) "version" (num m.version) ++
      optA (!(m.timestamp == 0)) "timestamp" (toIsoAll m.timestamp) ++
      optA (!(ch.omitDefaults && m.uid == 0)) "uid" (num m.uid) ++
      optA (!(ch.omitDefaults && m.user.isEmpty)) "user" m.user ++
      optA (!(ch.omitDefaults && m.changeset == 0)) "changeset" (num m.changeset) ++
      optA ch.visibleAttr "visible" (if m.visible then bTrue else bFalse) := by
  unfold metaAttrs optA
  generalize (ch.omitDefaults && m.version == 0) = b1
  generalize (m.timestamp == 0) = b2
  generalize (ch.omitDefaults && m.uid == 0) = b3
  generalize (ch.omitDefaults && m.user.isEmpty) = b4
  generalize (ch.omitDefaults && m.changeset == 0) = b5
  cases b1 <;> cases b2 <;> cases b3 <;> cases b4 <;> cases b5 <;> rfl

theorem optA_names_sublist (b : Bool) (n : String) (v : Bytes) : ((optA b n v).map Prod.fst).Sublist [n] := by
  cases b <;> simp [optA]

theorem mem_optA {b : Bool} {n : String} {v : Bytes} {a : Attr} (h : a ∈ optA b n v) : b = true ∧ a = (n, v) := by
  cases b
  · simp [optA] at h
  · simpa [optA] using h

/-- the attribute list of an object: metadata + optional location -/
def objAttrs (b1 b2 b3 b4 b5 b6 e : Bool) (idv vv tv uv usr cv visv yv xv : Bytes) : List Attr :=
  [("id", idv)] ++ optA b1 "version" vv ++ optA b2 "timestamp" tv ++ optA b3 "uid" uv ++ optA b4 "user" usr ++
    optA b5 "changeset" cv ++ optA b6 "visible" visv ++ (optA e "lat" yv ++ optA e "lon" xv)

theorem objAttrs_nodup (b1 b2 b3 b4 b5 b6 e : Bool) (idv vv tv uv usr cv visv yv xv : Bytes) :
    ((objAttrs b1 b2 b3 b4 b5 b6 e idv vv tv uv usr cv visv yv xv).map Prod.fst).Nodup := by
  have hs : ((objAttrs b1 b2 b3 b4 b5 b6 e idv vv tv uv usr cv visv yv xv).map Prod.fst).Sublist
      (["id"] ++ ["version"] ++ ["timestamp"] ++ ["uid"] ++ ["user"] ++ ["changeset"] ++ ["visible"] ++ (["lat"] ++ ["lon"])) := by
    unfold objAttrs
    simp only [List.map_append]
    exact (((((((List.Sublist.refl _).append (optA_names_sublist _ _ _)).append (optA_names_sublist _ _ _)).append
      (optA_names_sublist _ _ _)).append (optA_names_sublist _ _ _)).append (optA_names_sublist _ _ _)).append
      (optA_names_sublist _ _ _)).append ((optA_names_sublist _ _ _).append (optA_names_sublist _ _ _))
  exact hs.nodup (by decide)

theorem objAttrs_good (b1 b2 b3 b4 b5 b6 e : Bool) (idv vv tv uv usr cv yv xv : Bytes) (vis : Bool)
    (idx : Int) (vx tx ux cx : Nat) (X Y : Int)
    (h_id : rId idv = .ok idx) (h_v : rUlong vv = .ok vx) (h_t : rTimestampStrict tv = .ok tx)
    (h_u : rUlong uv = .ok ux) (h_c : rUlong cv = .ok cx) (h_y : rCoord yv = .ok Y) (h_x : rCoord xv = .ok X) :
    ∀ a ∈ objAttrs b1 b2 b3 b4 b5 b6 e idv vv tv uv usr cv (if vis then bTrue else bFalse) yv xv, objGood a := by
  intro a ha
  unfold objAttrs at ha
  simp only [List.mem_append, List.mem_singleton] at ha
  rcases ha with ((((((ha | ha) | ha) | ha) | ha) | ha) | ha) | (ha | ha)
  · subst ha; simp (config := { decide := true }) [objGood, h_id]
  · rw [(mem_optA ha).2]; simp (config := { decide := true }) [objGood, h_v]
  · rw [(mem_optA ha).2]; simp (config := { decide := true }) [objGood, h_t]
  · rw [(mem_optA ha).2]; simp (config := { decide := true }) [objGood, h_u]
  · rw [(mem_optA ha).2]; simp (config := { decide := true }) [objGood]
  · rw [(mem_optA ha).2]; simp (config := { decide := true }) [objGood, h_c]
  · rw [(mem_optA ha).2]; cases vis <;> simp (config := { decide := true }) [objGood]
  · rw [(mem_optA ha).2]; simp (config := { decide := true }) [objGood, h_y]
  · rw [(mem_optA ha).2]; simp (config := { decide := true }) [objGood, h_x]

/-- the object `init_object` starts from -/
def metaStart (inDel : Bool) : Meta := if inDel then { emptyMeta with visible := false } else emptyMeta

/-- the metadata after the attribute loop -/
def metaLoop (ch : Choices) (m : Meta) (inDel : Bool) : Meta :=
  { metaStart inDel with
    id := m.id,
    version := if (!(ch.omitDefaults && m.version == 0)) then m.version % 2147483648 else (metaStart inDel).version,
    timestamp := if (!(m.timestamp == 0)) then m.timestamp else (metaStart inDel).timestamp,
    uid := if (!(ch.omitDefaults && m.uid == 0)) then m.uid else (metaStart inDel).uid,
    changeset := if (!(ch.omitDefaults && m.changeset == 0)) then m.changeset else (metaStart inDel).changeset,
    visible := if ch.visibleAttr then m.visible else (metaStart inDel).visible }

/-- the metadata the reader ends up with for a spec-rendered object -/
theorem spec_meta_result (ch : Choices) (m : Meta) (h : XMetaOK m) :
    ({ metaLoop ch m (ch.osc && !m.visible) with
        user := if (!(ch.omitDefaults && m.user.isEmpty)) then m.user else [] } : Meta)
      = { projectMeta (specOpts ch) m with tags := [] } := by
  have hv : m.version % 2147483648 = m.version := Nat.mod_eq_of_lt h.ver
  rcases m with ⟨id, ver, vis, ts, cs, uid, user, tags⟩
  rcases ch with ⟨ao, qu, em, wm, ee, od, dm, es, va, tf, osc⟩
  simp only at hv
  simp only [metaLoop, metaStart, projectMeta, specOpts, addVisibleFlag, emptyMeta, hv]
  cases od <;> cases va <;> cases osc <;> cases vis <;> simp <;> omega

/-- `init_object`'s attribute loop on the permuted attributes of a spec-rendered node / way / relation -/
theorem spec_init (ch : Choices) (mk : Meta → Object) (hmk : IsMk mk) (m : Meta) (hm : XMetaOK m) (e : Bool) (l : Location)
    (hl : XLocOK l) :
    initObjectAttrs (OplFmt.OplSpec.pick ch.attrOrder (metaAttrs ch m ++ (if e then latLon "lat" "lon" l else [])))
        (if (parentCtx (specOpts ch) m == Ctx.deleteSection) then mapMeta (fun x => { x with visible := false }) (mk emptyMeta)
         else mk emptyMeta) Location.undefined [] =
      .ok (mk (metaLoop ch m (ch.osc && !m.visible)), (if e then l else Location.undefined),
           (if (!(ch.omitDefaults && m.user.isEmpty)) then m.user else [])) := by
  obtain ⟨hx0, hx1, hy0, hy1⟩ := hl
  have hid := rId_num m.id hm.id0 hm.id1
  have hv := rUlong_num m.version (by have := hm.ver; omega)
  have hu := rUlong_num m.uid (by have := hm.uid; omega)
  have hc := rUlong_num m.changeset hm.cs
  have hts := rTimestampStrict_toIsoAll m.timestamp hm.ts
  have hx := rCoord_formatCoord _ hx0 hx1
  have hy := rCoord_formatCoord _ hy0 hy1
  have hmk' : ∀ f x, mapMeta f (mk x) = mk (f x) := hmk
  have e1 : metaAttrs ch m ++ (if e then latLon "lat" "lon" l else []) =
      objAttrs (!(ch.omitDefaults && m.version == 0)) (!(m.timestamp == 0)) (!(ch.omitDefaults && m.uid == 0))
        (!(ch.omitDefaults && m.user.isEmpty)) (!(ch.omitDefaults && m.changeset == 0)) ch.visibleAttr e
        (num m.id) (num m.version) (toIsoAll m.timestamp) (num m.uid) m.user (num m.changeset)
        (if m.visible then bTrue else bFalse) (formatCoord l.y) (formatCoord l.x) := by
    rw [metaAttrs_optA]
    cases e <;> simp [objAttrs, optA, latLon]
  have e0 : (if (parentCtx (specOpts ch) m == Ctx.deleteSection) then mapMeta (fun x => { x with visible := false }) (mk emptyMeta)
      else mk emptyMeta) = mk (metaStart (ch.osc && !m.visible)) := by
    rw [parent_inDelete, hmk', metaStart]
    simp only [specOpts]
    exact (apply_ite mk _ _ _).symm
  rw [e1, initObjectAttrs_pick _ _ (objAttrs_nodup ..) (objAttrs_good _ _ _ _ _ _ _ _ _ _ _ _ _ _ _ _ _ _ _ _ _ _ _ hid hv hts hu hc hy hx),
    e0]
  unfold objAttrs
  rw [init_chain mk hmk _ _ _ _ _ _ _ _ _ _ _ _ _ _ _ _ _ _ hid hv hts hu hc]
  cases e
  · simp only [optA, Bool.false_eq_true, if_false, List.append_nil, initObjectAttrs]
    rfl
  · simp (config := { decide := true }) only [optA, if_true, List.cons_append, List.nil_append, initObjectAttrs, hx, hy, bindE_ok, if_false]
    rfl

end Osmium.XmlFmt.XmlSpec
