import Osmium.Lemmas.PipelineShapeOutD1

set_option linter.unusedSimpArgs false
set_option linter.unusedVariables false

namespace Osmium.Pipeline
open Osmium.Mon
variable {α : Type} [DecidableEq α]
namespace Complete

structure InvD2 (s : State α) : Prop where
  d_end : s.status = .okay → ∀ p ∈ s.outq.popped, (isExc (s.want p.2.2) ∨ s.want p.2.2 = .eod) →
    s.cpc = .readGot p.2.2 ∨ s.cpc = .eodSd ∨ s.cpc = .eodSdRun
  d_got : ∀ id, s.cpc = .readGot id → ∃ l p, s.outq.popped = l ++ [p] ∧ p.2.2 = id

set_option maxHeartbeats 1600000 in
theorem invD2 (c : Cfg α) : ∀ s, (machine c).Reachable s → InvD2 s := by
  apply Machine.invariant
  · constructor <;> simp [machine, init, QueueSM.init]
  · intro s e s' hr ih hst
    have hN := (invN c s hr).n_fut
    have hP := (invD1 c s hr).d_pop
    obtain ⟨h1, h2⟩ := ih
    pc_cases e with hst
    all_goals (refine ⟨?_, ?_⟩ <;> first
      | assumption
      | (simp_all [setPc_apply, apCpc]; done)
      | (simp only [setPc_apply, QueueSM.take_popped, apCpc] at *; grind [isExc])
      | skip)
    · intro id hid
      rename_i hg
      simp only [CPc.readGot.injEq] at hid; subst hid
      rename_i t _ _ _ _ it
      refine ⟨s.outq.popped, (t, it), ?_, rfl⟩
      simp only [QueueSM.take_popped, ← hg.2.2.2]; rfl
    · intro id hid
      rename_i hg
      simp only [CPc.readGot.injEq] at hid; subst hid
      rename_i t _ _ _ _ it
      refine ⟨s.outq.popped, (t, it), ?_, rfl⟩
      simp only [QueueSM.take_popped, ← hg.2.2.2.2]; rfl
    all_goals (rename_i k _; cases k <;> simp_all [acStatus, acCpc] <;> assumption)

theorem invD (c : Cfg α) : ∀ s, (machine c).Reachable s → InvD s := by
  intro s hr
  have h1 := invD1 c s hr
  have h2 := invD2 c s hr
  exact ⟨h2.d_end, h2.d_got, h1.d_pop, h1.d_items, h1.d_fl⟩

end Complete
end Osmium.Pipeline
