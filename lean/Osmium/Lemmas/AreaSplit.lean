/-
C10 — `create_locations_list` / `find_split_locations` (basic_assembler.hpp 581-607).

* `endpointList` (the model of the sorted `m_locations`) is a sorted permutation of all segment
  end points.
* The scan over the sorted list reports no open ring exactly when every location is an end
  point of an even number of segments (every node has even degree).
* When there is no open ring, the number of split locations is the number of distinct
  locations in which four or more segment ends meet.
-/
import Osmium.Lemmas.AreaOrder

namespace Osmium.Area

/-- all end points of a segment list (unsorted) -/
def endpoints (segs : List Seg) : List Vec := segs.flatMap fun s => [s.first, s.second]

/-! ## the location list is a sorted permutation of the end points -/

theorem insertVec_perm (v : Vec) (l : List Vec) : (insertVec v l).Perm (v :: l) := by
  induction l with
  | nil => simp [insertVec]
  | cons h t ih =>
    simp only [insertVec]
    split
    · exact List.Perm.refl _
    · exact ((List.Perm.cons h ih).trans (List.Perm.swap v h t))

theorem foldr_insertVec_perm (l : List Vec) : (l.foldr insertVec []).Perm l := by
  induction l with
  | nil => simp
  | cons a t ih =>
    simp only [List.foldr_cons]
    exact (insertVec_perm a _).trans (List.Perm.cons a ih)

theorem endpointList_perm (segs : List Seg) : (endpointList segs).Perm (endpoints segs) :=
  foldr_insertVec_perm _

/-- sorted w.r.t. the location order: no later element strictly smaller -/
abbrev SortedVec (l : List Vec) : Prop := l.Pairwise (fun a b => Vec.lt b a = false)

theorem insertVec_sorted (v : Vec) (l : List Vec) (h : SortedVec l) : SortedVec (insertVec v l) := by
  induction l with
  | nil => simp [insertVec, SortedVec]
  | cons a t ih =>
    simp only [SortedVec, List.pairwise_cons] at h
    simp only [insertVec]
    split
    · next hva =>
      simp only [SortedVec, List.pairwise_cons]
      refine ⟨?_, h.1, h.2⟩
      intro b hb
      rcases List.mem_cons.mp hb with rfl | hb
      · exact vec_lt_asymm _ _ hva
      · have h1 := h.1 b hb
        cases hbv : b.lt v with
        | false => rfl
        | true => rw [vec_lt_trans b v a hbv hva] at h1; exact h1
    · next hva =>
      simp only [SortedVec, List.pairwise_cons]
      refine ⟨?_, ih h.2⟩
      intro b hb
      have hb' := (insertVec_perm v t).mem_iff.mp hb
      rcases List.mem_cons.mp hb' with rfl | hb'
      · simpa using hva
      · exact h.1 b hb'

theorem foldr_insertVec_sorted (l : List Vec) : SortedVec (l.foldr insertVec []) := by
  induction l with
  | nil => simp [SortedVec]
  | cons a t ih => exact insertVec_sorted a _ ih

/-- sorted: no later element strictly smaller -/
theorem endpointList_sorted (segs : List Seg) :
    (endpointList segs).Pairwise (fun a b => Vec.lt b a = false) :=
  foldr_insertVec_sorted _

/-! ## the scan without fuel -/

/-- `splitScan` by structural recursion on the location list -/
def scan : Option Vec → List Vec → List Vec → Nat × List Vec
  | _, splits, [] => (0, splits)
  | _, splits, [_] => (1, splits)
  | prev, splits, a :: b :: rest =>
    if a != b then
      ((scan (some a) splits (b :: rest)).1 + 1, (scan (some a) splits (b :: rest)).2)
    else
      scan (some a) (if prev == some a && splits.head? != some a then a :: splits else splits) rest

theorem splitScan_eq_scan (fuel : Nat) (l : List Vec) (prev : Option Vec) (splits : List Vec)
    (hf : l.length < fuel) : splitScan fuel prev splits l = scan prev splits l := by
  induction fuel generalizing l prev splits with
  | zero => omega
  | succ fuel ih =>
    match l with
    | [] => simp [splitScan, scan]
    | [_] => simp [splitScan, scan]
    | a :: b :: rest =>
      simp only [List.length_cons] at hf
      simp only [splitScan, scan]
      split
      · rw [ih (b :: rest) _ _ (by simp only [List.length_cons]; omega)]
      · rw [ih rest _ _ (by omega)]

/-- number of open rings: the first component of the scan -/
def openCount : List Vec → Nat
  | [] => 0
  | [_] => 1
  | a :: b :: rest => if a != b then openCount (b :: rest) + 1 else openCount rest

theorem scan_fst (l : List Vec) (prev : Option Vec) (splits : List Vec) :
    (scan prev splits l).1 = openCount l := by
  fun_induction openCount l generalizing prev splits with
  | case1 => simp [scan]
  | case2 => simp [scan]
  | case3 a b rest h ih => simp only [scan, h, if_true]; rw [ih]
  | case4 a b rest h ih => simp only [scan, h]; exact ih _ _


/-! ## open rings = locations of odd multiplicity -/

/-- in a sorted list equal locations are contiguous -/
theorem not_mem_of_sorted_ne (a b : Vec) (rest : List Vec) (hs : SortedVec (a :: b :: rest))
    (hab : a ≠ b) : a ∉ b :: rest := by
  simp only [SortedVec, List.pairwise_cons] at hs
  intro hm
  rcases List.mem_cons.mp hm with rfl | hm
  · exact hab rfl
  · have h1 : b.lt a = false := hs.1 b (List.mem_cons_self)
    have h2 : a.lt b = false := hs.2.1 a hm
    exact hab (vec_lt_total a b h2 h1)

theorem openCount_zero_iff (l : List Vec) (hs : SortedVec l) :
    openCount l = 0 ↔ ∀ v, l.count v % 2 = 0 := by
  fun_induction openCount l with
  | case1 => simp
  | case2 a =>
    constructor
    · intro h; exact absurd h (by decide)
    · intro h
      have := h a
      simp at this
  | case3 a b rest h ih =>
    have hab : a ≠ b := by simpa using h
    have hn := not_mem_of_sorted_ne a b rest hs hab
    simp only [Nat.succ_ne_zero, false_iff]
    intro hc
    have := hc a
    rw [List.count_cons_self, List.count_eq_zero_of_not_mem hn] at this
    omega
  | case4 a b rest h ih =>
    have hab : a = b := by simpa using h
    subst hab
    have hs' : SortedVec rest := by
      simp only [SortedVec, List.pairwise_cons] at hs
      exact hs.2.2
    rw [ih hs']
    constructor
    · intro hc v
      have := hc v
      simp only [List.count_cons]
      split <;> omega
    · intro hc v
      have := hc v
      simp only [List.count_cons] at this
      split at this <;> omega

/-- number of open rings found by the scan of a sorted location list is 0 exactly when every
    location occurs an even number of times -/
theorem splitScan_open_zero_iff (l : List Vec) (hs : l.Pairwise (fun a b => Vec.lt b a = false))
    (fuel : Nat) (hf : l.length < fuel) (prev : Option Vec) (splits : List Vec) :
    (splitScan fuel prev splits l).1 = 0 ↔ ∀ v, l.count v % 2 = 0 := by
  rw [splitScan_eq_scan fuel l prev splits hf, scan_fst]
  exact openCount_zero_iff l hs

theorem openAndSplit_eq (segs : List Seg) :
    openAndSplit segs = (openCount (endpointList segs), (scan none [] (endpointList segs)).2.length) := by
  simp only [openAndSplit]
  rw [splitScan_eq_scan _ _ _ _ (Nat.lt_succ_self _), ← scan_fst (endpointList segs) none []]

/-- find_split_locations reports no open ring exactly when every location is an end point of an
    even number of segments (every node has even degree) -/
theorem open_rings_zero_iff (segs : List Seg) :
    (openAndSplit segs).1 = 0 ↔ ∀ v, (endpoints segs).count v % 2 = 0 := by
  rw [openAndSplit_eq]
  simp only
  rw [openCount_zero_iff _ (endpointList_sorted segs)]
  constructor
  · intro h v; rw [← (endpointList_perm segs).count_eq]; exact h v
  · intro h v; rw [(endpointList_perm segs).count_eq]; exact h v


/-! ## split locations = locations of multiplicity ≥ 4 -/

theorem nodup_eraseDups (l : List Vec) : l.eraseDups.Nodup := by
  suffices h : ∀ n (l : List Vec), l.length ≤ n → l.eraseDups.Nodup from h _ l (Nat.le_refl _)
  intro n
  induction n with
  | zero =>
    intro l hl
    have : l = [] := List.eq_nil_of_length_eq_zero (by omega)
    subst this; simp
  | succ n ih =>
    intro l hl
    match l with
    | [] => simp
    | a :: t =>
      rw [List.eraseDups_cons, List.nodup_cons]
      constructor
      · simp
      · apply ih
        have := List.length_filter_le (fun b => !b == a) t
        simp only [List.length_cons] at hl
        omega

theorem eraseDups_perm {l₁ l₂ : List Vec} (h : l₁.Perm l₂) : l₁.eraseDups.Perm l₂.eraseDups := by
  rw [List.perm_ext_iff_of_nodup (nodup_eraseDups _) (nodup_eraseDups _)]
  intro a
  simp only [List.mem_eraseDups]
  exact h.mem_iff

/-- number of distinct locations of multiplicity at least 4 -/
def cnt4 (l : List Vec) : Nat := (l.eraseDups.filter fun v => decide (l.count v ≥ 4)).length

theorem cnt4_perm {l₁ l₂ : List Vec} (h : l₁.Perm l₂) : cnt4 l₁ = cnt4 l₂ := by
  unfold cnt4
  have e : (fun v => decide (l₁.count v ≥ 4)) = (fun v => decide (l₂.count v ≥ 4)) := by
    funext v; rw [h.count_eq]
  rw [e]
  exact ((eraseDups_perm h).filter _).length_eq

theorem cnt4_run (a : Vec) (m : Nat) (l' : List Vec) (ha : a ∉ l') :
    cnt4 (List.replicate (m + 1) a ++ l') = (if m + 1 ≥ 4 then 1 else 0) + cnt4 l' := by
  have hf : List.filter (fun b => !b == a) l' = l' := by
    rw [List.filter_eq_self]
    intro b hb
    simp only [Bool.not_eq_eq_eq_not, Bool.not_true, beq_eq_false_iff_ne, ne_eq]
    rintro rfl; exact ha hb
  have he : (List.replicate (m + 1) a ++ l').eraseDups = a :: l'.eraseDups := by
    rw [List.replicate_succ, List.cons_append, List.eraseDups_cons, List.filter_append, hf]
    simp
  have hca : (List.replicate (m + 1) a ++ l').count a = m + 1 := by
    rw [List.count_append, List.count_replicate_self, List.count_eq_zero_of_not_mem ha]
  unfold cnt4
  rw [he, List.filter_cons, hca]
  have hrest : List.filter (fun v => decide ((List.replicate (m + 1) a ++ l').count v ≥ 4)) l'.eraseDups
      = List.filter (fun v => decide (l'.count v ≥ 4)) l'.eraseDups := by
    apply List.filter_congr
    intro v hv
    have hva : a ≠ v := by
      rintro rfl; exact ha (List.mem_eraseDups.mp hv)
    rw [List.count_append, List.count_replicate]
    simp [hva]
  rw [hrest]
  split
  · simp_all; omega
  · simp_all

theorem sorted_run (a : Vec) (t : List Vec) (hs : SortedVec (a :: t)) :
    ∃ n l', a :: t = List.replicate (n + 1) a ++ l' ∧ a ∉ l' ∧ SortedVec l' := by
  induction t with
  | nil => exact ⟨0, [], by simp, by simp, by simp [SortedVec]⟩
  | cons b t ih =>
    by_cases hab : a = b
    · subst hab
      have hs1 : SortedVec (a :: t) := (List.pairwise_cons.mp hs).2
      obtain ⟨n, l', he, hn, hl⟩ := ih hs1
      refine ⟨n + 1, l', ?_, hn, hl⟩
      rw [he, List.replicate_succ (n := n + 1), List.cons_append]
    · refine ⟨0, b :: t, by simp, not_mem_of_sorted_ne a b t hs hab, ?_⟩
      simp only [SortedVec, List.pairwise_cons] at hs
      simp only [SortedVec, List.pairwise_cons]
      exact hs.2

theorem scan_pair (prev : Option Vec) (splits : List Vec) (a : Vec) (X : List Vec) :
    scan prev splits (a :: a :: X) =
      scan (some a) (if prev == some a && splits.head? != some a then a :: splits else splits) X := by
  simp [scan]

/-- the rest of a run whose location is already recorded -/
theorem scan_run_done (a : Vec) (k : Nat) (l' splits : List Vec) (hh : splits.head? = some a) :
    scan (some a) splits (List.replicate (2 * k) a ++ l') = scan (some a) splits l' := by
  induction k with
  | zero => simp
  | succ k ih =>
    have e : 2 * (k + 1) = 2 * k + 1 + 1 := by omega
    rw [e, List.replicate_succ, List.replicate_succ, List.cons_append, List.cons_append, scan_pair]
    simp only [hh, bne_self_eq_false, Bool.and_false]
    exact ih

/-- a complete run of `2 (k+1)` equal locations, entered from another location -/
theorem scan_run (a : Vec) (k : Nat) (l' splits : List Vec) (prev : Option Vec)
    (hp : prev ≠ some a) (hh : splits.head? ≠ some a) :
    scan prev splits (List.replicate (2 * (k + 1)) a ++ l') =
      scan (some a) (if k ≥ 1 then a :: splits else splits) l' := by
  have e : 2 * (k + 1) = 2 * k + 1 + 1 := by omega
  rw [e, List.replicate_succ, List.replicate_succ, List.cons_append, List.cons_append, scan_pair]
  have hp' : (prev == some a) = false := by simpa using hp
  simp only [hp', Bool.false_and, Bool.false_eq_true, if_false]
  match k with
  | 0 => simp
  | k + 1 =>
    have e : 2 * (k + 1) = 2 * k + 1 + 1 := by omega
    rw [e, List.replicate_succ, List.replicate_succ, List.cons_append, List.cons_append, scan_pair]
    have hh' : (splits.head? != some a) = true := by simpa using hh
    simp only [BEq.rfl, hh', Bool.and_self, if_true]
    rw [scan_run_done a k l' (a :: splits) (by simp)]
    simp

theorem scan_snd_length (n : Nat) : ∀ (l : List Vec), l.length ≤ n → SortedVec l →
    (∀ v, l.count v % 2 = 0) → ∀ (prev : Option Vec) (splits : List Vec),
    (∀ p, prev = some p → p ∉ l) → (∀ s, splits.head? = some s → s ∉ l) →
    (scan prev splits l).2.length = splits.length + cnt4 l := by
  induction n with
  | zero =>
    intro l hl _ _ prev splits _ _
    have : l = [] := List.eq_nil_of_length_eq_zero (by omega)
    subst this; simp [scan, cnt4]
  | succ n ih =>
    intro l hl hs he prev splits hp hh
    match l with
    | [] => simp [scan, cnt4]
    | a :: t =>
      obtain ⟨m, l', heq, hn, hs'⟩ := sorted_run a t hs
      rw [heq] at he hp hh hl ⊢
      have hca : (List.replicate (m + 1) a ++ l').count a = m + 1 := by
        rw [List.count_append, List.count_replicate_self, List.count_eq_zero_of_not_mem hn]
      have hev := he a
      rw [hca] at hev
      obtain ⟨k, hk⟩ : ∃ k, m + 1 = 2 * (k + 1) := ⟨(m - 1) / 2, by omega⟩
      have hmem : a ∈ List.replicate (m + 1) a ++ l' := by simp
      have hp1 : prev ≠ some a := fun h => hp a h hmem
      have hh1 : splits.head? ≠ some a := fun h => hh a h hmem
      rw [cnt4_run a m l' hn]
      rw [hk] at he hp hh hl ⊢
      rw [scan_run a k l' splits prev hp1 hh1]
      have hl' : l'.length ≤ n := by
        simp only [List.length_append, List.length_replicate] at hl
        omega
      have he' : ∀ v, l'.count v % 2 = 0 := by
        intro v
        by_cases hva : a = v
        · subst hva; rw [List.count_eq_zero_of_not_mem hn]
        · have := he v
          rw [List.count_append, List.count_replicate] at this
          simpa [hva] using this
      have hsub : ∀ s, s ∉ List.replicate (2 * (k + 1)) a ++ l' → s ∉ l' := by
        intro s h1 h2; exact h1 (List.mem_append_right _ h2)
      rw [ih l' hl' hs' he' (some a) _ (by intro p h; cases h; exact hn)]
      · by_cases hk1 : 1 ≤ k
        · have h4 : 4 ≤ 2 * (k + 1) := by omega
          simp only [ge_iff_le, hk1, h4, if_true, List.length_cons]; omega
        · have h4 : ¬ 4 ≤ 2 * (k + 1) := by omega
          simp only [ge_iff_le, hk1, h4, if_false]; omega
      · intro s h
        split at h
        · simp at h; subst h; exact hn
        · exact hsub s (hh s h)

/-- when there is no open ring, the number of split locations is the number of distinct locations
    where more than two segment ends meet (count ≥ 4) -/
theorem split_count (segs : List Seg) (h : (openAndSplit segs).1 = 0) :
    (openAndSplit segs).2 =
      ((endpoints segs).eraseDups.filter fun v => decide ((endpoints segs).count v ≥ 4)).length := by
  have he := (open_rings_zero_iff segs).mp h
  rw [openAndSplit_eq]
  simp only
  rw [scan_snd_length _ _ (Nat.le_refl _) (endpointList_sorted segs) ?_ none [] (by simp) (by simp)]
  · simp only [List.length_nil, Nat.zero_add]
    exact cnt4_perm (endpointList_perm segs)
  · intro v; rw [(endpointList_perm segs).count_eq]; exact he v

/-! ## non-vacuity -/

/-- a closed square: no open ring, no split location -/
example : openAndSplit [⟨⟨0, 0⟩, ⟨1, 0⟩⟩, ⟨⟨1, 0⟩, ⟨1, 1⟩⟩, ⟨⟨0, 1⟩, ⟨1, 1⟩⟩, ⟨⟨0, 0⟩, ⟨0, 1⟩⟩] = (0, 0) := by
  decide

/-- a path of two segments: two open ends -/
example : openAndSplit [⟨⟨0, 0⟩, ⟨1, 0⟩⟩, ⟨⟨1, 0⟩, ⟨1, 1⟩⟩] = (2, 0) := by decide

/-- two triangles touching in (1,1): no open ring, one split location -/
example : openAndSplit [⟨⟨0, 0⟩, ⟨1, 1⟩⟩, ⟨⟨0, 0⟩, ⟨0, 1⟩⟩, ⟨⟨0, 1⟩, ⟨1, 1⟩⟩,
    ⟨⟨1, 1⟩, ⟨2, 2⟩⟩, ⟨⟨1, 1⟩, ⟨2, 1⟩⟩, ⟨⟨2, 1⟩, ⟨2, 2⟩⟩] = (0, 1) := by decide

/-- three rings through one location (multiplicity 6) are still ONE split location -/
example : openAndSplit [⟨⟨0, 0⟩, ⟨1, 1⟩⟩, ⟨⟨0, 0⟩, ⟨0, 1⟩⟩, ⟨⟨0, 1⟩, ⟨1, 1⟩⟩,
    ⟨⟨1, 1⟩, ⟨2, 2⟩⟩, ⟨⟨1, 1⟩, ⟨2, 1⟩⟩, ⟨⟨2, 1⟩, ⟨2, 2⟩⟩,
    ⟨⟨1, 1⟩, ⟨1, 3⟩⟩, ⟨⟨1, 1⟩, ⟨0, 3⟩⟩, ⟨⟨0, 3⟩, ⟨1, 3⟩⟩] = (0, 1) := by decide

end Osmium.Area
