/-
C03 — the leaf text parsers stop at the terminating NUL (see Model/HostileText.lean).

The work is done in the helper files (namespace `Osmium.HostileText.Aux`): every loop/helper
of the models commutes with appending `0 :: junk` to a NUL-free string
  Lemmas/HostileTextCoord.lean  digitsLoop, skipDigits, intPart, fracPart, expPart, parseCoord,
                                oplDigits, oplParseInt
  Lemmas/HostileTextTs.lean     fractionalSeconds, parseTimestamp (a string shorter than the 19
                                pattern characters fails on both sides: the NUL is none of the
                                expected characters), tsDateFields, `drop 20` after a success
  Lemmas/HostileTextStr.lean    parseEscaped, parseStringLoop (for any two sufficient fuels)
-/
import Osmium.Model.HostileText
import Osmium.Model.Conv
import Osmium.Model.Escape
import Osmium.Model.OplFmt
import Osmium.Lemmas.HostileTextCoord
import Osmium.Lemmas.HostileTextTs
import Osmium.Lemmas.HostileTextStr

namespace Osmium.HostileText

open Osmium.Conv

/-- `detail::parse_timestamp` (all variants) -/
theorem parseTimestampV_stops (leapFix : Bool) : StopsAtNul (parseTimestampV leapFix) :=
  Aux.parseTimestampV_stops leapFix

/-- `Timestamp(const char*)` -/
theorem timestampOfStringV_ignores (leapFix rangeFix : Bool) : IgnoresBehindNul (timestampOfStringV leapFix rangeFix) :=
  Aux.timestampOfStringV_ignores leapFix rangeFix

/-- `opl_parse_timestamp` (`*s += 20` after a successful parse stays inside the string) -/
theorem oplParseTimestampV_stops (leapFix rangeFix : Bool) : StopsAtNul (oplParseTimestampV leapFix rangeFix) :=
  Aux.oplParseTimestampV_stops leapFix rangeFix

/-- `detail::string_to_location_coordinate` (all variants): value, overflow flag and cursor -/
theorem parseCoord_stops (v : Variant) (s junk : Bytes) (h : NoNul s) :
    parseCoord v (s ++ behind junk) =
      (match parseCoord v s with
       | .ok o => .ok { o with rest := o.rest ++ behind junk }
       | .error e => .error e) := by
  rw [Aux.parseCoord_stops v s junk h]
  cases parseCoord v s <;> rfl

/-- `Location::set_lon(const char*)`: whole-string variant -/
theorem parseCoordFull_ignores (v : Variant) (s junk : Bytes) (h : NoNul s) :
    (parseCoord v (s ++ behind junk)).toOption.map (·.value) = (parseCoord v s).toOption.map (·.value) :=
  Aux.parseCoordFull_ignores v s junk h

/-- `opl_parse_int<T>` -/
theorem oplParseInt_stops (tmin tmax : Int) : StopsAtNul (oplParseInt tmin tmax) :=
  Aux.oplParseInt_stops tmin tmax

/-- `opl_parse_string` (with `opl_parse_escaped`) -/
theorem oplParseString_stops : StopsAtNul Opl.parseString :=
  Aux.oplParseString_stops

/-- the OPL field parsers built from the above -/
theorem pInt_stops (tmin tmax : Int) : StopsAtNul (OplFmt.pInt tmin tmax) := by
  intro s junk hn
  unfold OplFmt.pInt
  rw [oplParseInt_stops tmin tmax s junk hn]
  cases oplParseInt tmin tmax s with
  | error e => rfl
  | ok r => obtain ⟨a, b⟩ := r; rfl

theorem pStr_stops : StopsAtNul OplFmt.pStr := by
  intro s junk hn
  unfold OplFmt.pStr
  rw [oplParseString_stops s junk hn]
  cases Opl.parseString s with
  | error e => rfl
  | ok r => obtain ⟨a, b⟩ := r; rfl

theorem pTs_stops : StopsAtNul OplFmt.pTs := by
  intro s junk hn
  unfold OplFmt.pTs
  rw [oplParseTimestampV_stops true true s junk hn]
  cases oplParseTimestampV true true s with
  | error e => rfl
  | ok r => obtain ⟨a, b⟩ := r; rfl

theorem pCoord_stops : StopsAtNul OplFmt.pCoord := by
  intro s junk hn
  unfold OplFmt.pCoord
  rw [parseCoord_stops .now s junk hn]
  cases parseCoord .now s with
  | error e => rfl
  | ok r => rfl

/-! ### C strings, small helpers for Props/C03Text.lean -/

theorem cstr_noNul (l : Bytes) : NoNul (Chunks.cstr l) := by
  induction l with
  | nil => intro b hb; cases hb
  | cons x xs ih =>
    unfold Chunks.cstr
    by_cases hx : (x == 0) = true
    · rw [if_pos hx]; intro b hb; cases hb
    · rw [if_neg hx]
      intro b hb
      rcases List.mem_cons.mp hb with rfl | hb
      · intro h0; exact hx (by simp [h0])
      · exact ih b hb

theorem cstr_behind (s junk : Bytes) (h : NoNul s) : Chunks.cstr (s ++ behind junk) = s := by
  induction s with
  | nil => simp [behind, Chunks.cstr]
  | cons x xs ih =>
    have hx : x ≠ 0 := h x (List.mem_cons_self ..)
    have hx' : (x == 0) = false := by simpa using hx
    simp only [List.cons_append, Chunks.cstr, hx']
    simp only [Bool.false_eq_true, if_false, List.cons.injEq, true_and]
    exact ih (fun b hb => h b (List.mem_cons_of_mem _ hb))

theorem bindE_ok_iff {ε α β : Type} (x : Except ε α) (f : α → Except ε β) (b : β) :
    TextFmt.bindE x f = .ok b ↔ ∃ a, x = .ok a ∧ f a = .ok b := by
  cases x with
  | ok a => simp [TextFmt.bindE]
  | error e => simp [TextFmt.bindE]

theorem setUserCheck_ok (u : Bytes) (h : OplFmt.setUserCheck u = .ok ()) : u.length ≤ 1024 := by
  unfold OplFmt.setUserCheck at h
  split at h
  · cases h
  · rename_i hn; simpa [OplFmt.maxString] using hn

/-! ### the driver's linear-time line splitter is the specification's -/

theorem segsFast_eq : ∀ (bs cur : Bytes) (acc : List Bytes),
    segsFast bs cur acc = (acc.reverse ++ (Chunks.segs bs cur.reverse).1, (Chunks.segs bs cur.reverse).2)
  | [], cur, acc => by simp [segsFast, Chunks.segs]
  | b :: bs, cur, acc => by
    unfold segsFast Chunks.segs
    by_cases hb : Chunks.isBreak b = true
    · rw [if_pos hb, if_pos hb, segsFast_eq bs [] (cur.reverse :: acc)]
      simp
    · rw [if_neg hb, if_neg hb, segsFast_eq bs (b :: cur) acc]
      simp

theorem specLinesFast_eq (bs : Bytes) : specLinesFast bs = Chunks.specLines bs := by
  unfold specLinesFast Chunks.specLines
  rw [segsFast_eq]
  simp

theorem cstrFast_eq : ∀ (bs acc : Bytes), cstrFast bs acc = acc.reverse ++ Chunks.cstr bs
  | [], acc => by simp [cstrFast, Chunks.cstr]
  | b :: bs, acc => by
    unfold cstrFast Chunks.cstr
    by_cases hb : (b == 0) = true
    · rw [if_pos hb, if_pos hb]; simp
    · rw [if_neg hb, if_neg hb, cstrFast_eq bs (b :: acc)]; simp

end Osmium.HostileText
