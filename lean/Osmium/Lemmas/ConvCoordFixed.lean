/-
C13, coordinates: the repaired parser (`Variant.fixed`: overflow check in the scaling loop and
pick-up of the fraction digits beyond the 8th) computes the decimal-arithmetic specification
`specParse` on every grammar string within the digit limits — no extra hypothesis
(compare `coordCore_current`, which needs `NoDroppedDigits` / `NoOverflow`).
-/
import Osmium.Lemmas.ConvCoordSpec

namespace Osmium.Conv

open IntLemmas (digitsStr valMS valFrom AllDigits NoDigitHead)

/-! ### small facts -/

theorem allDigits_fracDigits (g : CoordStr) (hw : g.WellFormed) : AllDigits (fracDigits g) := by
  unfold fracDigits
  match h : g.fp with
  | none => intro x hx; simp at hx
  | some f => exact hw.fp f h

theorem getD_lt_ten (ds : List Nat) (hd : AllDigits ds) (i : Nat) : ds.getD i 0 < 10 := by
  rw [List.getD_eq_getElem?_getD]
  cases h : ds[i]? with
  | none => simp
  | some x => exact hd x (List.mem_of_getElem? h)

theorem valFrom_valMS (a b : List Nat) : valFrom (valMS a) b = valMS (a ++ b) := by
  simp [valMS, valFrom, List.foldl_append]

/-! ### the value the repaired scaling loop reaches -/

/-- scaling the 8-fraction-digit prefix up by `k` places while picking up the dropped digits:
    the whole mantissa shifted by `k - (|f| - 8)` places -/
theorem stepVal_take (a f : List Nat) (hf : AllDigits f) (k : Nat) :
    stepVal (valMS (a ++ f.take 8)) (f.drop 8) k
      = valMS (a ++ f) / 10 ^ (f.length - (8 + k)) * 10 ^ (k - (f.length - 8)) := by
  unfold stepVal
  rw [valFrom_valMS, List.append_assoc, ← List.take_add, valMS_take a f hf (8 + k), List.length_drop]

/-- on a non-negative scale, `stepVal` is `⌊|value| * 10^8⌋` -/
theorem stepVal_floor8 (g : CoordStr) (hw : g.WellFormed)
    (hsc : 0 ≤ ((8 - fracLen g : Nat) : Int) + expVal g) :
    stepVal (valMS (g.ip ++ (fracDigits g).take 8)) ((fracDigits g).drop 8)
        (((8 - fracLen g : Nat) : Int) + expVal g).toNat = floor8 g := by
  rw [stepVal_take _ _ (allDigits_fracDigits g hw), fracDigits_len]
  unfold floor8 t7 mant
  generalize valMS (g.ip ++ fracDigits g) = M
  generalize expVal g = e at *
  generalize fracLen g = lf at *
  by_cases h : 0 ≤ 7 - (lf : Int) + e + 1
  · rw [if_pos h]
    have h1 : lf - (8 + (((8 - lf : Nat) : Int) + e).toNat) = 0 := by omega
    have h2 : (((8 - lf : Nat) : Int) + e).toNat - (lf - 8) = (7 - (lf : Int) + e + 1).toNat := by omega
    rw [h1, h2, Nat.pow_zero, Nat.div_one]
  · rw [if_neg h]
    have h1 : lf - (8 + (((8 - lf : Nat) : Int) + e).toNat) = (-(7 - (lf : Int) + e + 1)).toNat := by omega
    have h2 : (((8 - lf : Nat) : Int) + e).toNat - (lf - 8) = 0 := by omega
    rw [h1, h2, Nat.pow_zero, Nat.mul_one]

/-! ### the final step against the specification -/

theorem observe_finish (g : CoordStr) (rest : List UInt8) (h : floor8 g ≤ 9223372036854775802) :
    observe (finishCoord (floor8 g : Int) false (if g.neg then -1 else 1) rest) = specParse g rest := by
  rw [finishCoord_exact _ h]
  unfold specParse specRounded
  rw [← floor8_round]
  simp only []
  generalize (if g.neg then (-1 : Int) else 1) * (((floor8 g + 5) / 10 : Nat) : Int) = res
  by_cases hc : int32Min ≤ res ∧ res ≤ int32Max
  · rw [if_pos hc, if_pos hc]; rfl
  · rw [if_neg hc, if_neg hc]; rfl

/-- a value at or above `10 * mulLimit` before the rounding step is out of range in the
    specification too -/
theorem specParse_error (g : CoordStr) (rest : List UInt8) (h : 214748364900 ≤ floor8 g) :
    specParse g rest = .error .invalidLocation := by
  unfold specParse specRounded
  rw [← floor8_round]
  have h1 : 21474836490 ≤ (floor8 g + 5) / 10 := by omega
  generalize (floor8 g + 5) / 10 = q at h1
  rw [if_neg]
  simp only [int32Min, int32Max]
  cases g.neg <;> simp <;> omega

/-! ### scale < 0: same as the current code -/

theorem coordCore_neg_scale (v : Variant) (neg : Bool) (m8 sc : Nat) (extra : List UInt8) (e : Int)
    (rest : List UInt8) (h : (sc : Int) + e < 0) :
    coordCore v neg m8 sc extra e rest = coordCore Variant.old neg m8 sc [] e rest := by
  unfold coordCore
  simp only [if_pos h]

/-! ### the repaired code computes the specification -/

theorem coordCore_fixed (g : CoordStr) (hw : g.WellFormed) (hl : g.ip.length ≤ 10)
    (hlf : fracLen g ≤ 27) (rest : List UInt8) :
    observe (coordCore Variant.fixed g.neg (valMS (g.ip ++ (fracDigits g).take 8)) (8 - fracLen g)
        (digitsStr ((fracDigits g).drop 8)) (expVal g) rest) = specParse g rest := by
  have hfd := allDigits_fracDigits g hw
  have hds : AllDigits ((fracDigits g).drop 8) := fun x hx => hfd x (List.mem_of_mem_drop hx)
  have hm8lt := m8_lt g hw hl
  by_cases hneg : ((8 - fracLen g : Nat) : Int) + expVal g < 0
  · -- dividing: the variants do not differ
    have hA : NoDroppedDigits g := by unfold NoDroppedDigits; omega
    have hB : NoOverflow g := by
      intro h0; exfalso; unfold t7 at h0; omega
    have hcur := coordCore_current g hw hl hA hB rest
    unfold coordCore at hcur ⊢
    simp only [if_pos hneg] at hcur ⊢
    rw [hcur]
    exact observe_finish g rest (floor8_le g hw hl hA hB)
  · have hsc : 0 ≤ ((8 - fracLen g : Nat) : Int) + expVal g := by omega
    have hF := stepVal_floor8 g hw hsc
    have hfix : Variant.fixed.fixDigits = true := rfl
    unfold coordCore
    simp only [if_neg hneg, hfix, if_true]
    rw [mulLoop_fixed_spec _ _ _ false hds]
    generalize (((8 - fracLen g : Nat) : Int) + expVal g).toNat = k at hF
    by_cases hk : k = 0
    · subst hk
      rw [stepVal_zero] at hF
      simp only [if_true]
      rw [hF] at hm8lt ⊢
      exact observe_finish g rest (by omega)
    · rw [if_neg hk]
      have hsucc := stepVal_succ ((fracDigits g).drop 8) (valMS (g.ip ++ (fracDigits g).take 8)) (k - 1)
      have hk1 : k - 1 + 1 = k := by omega
      rw [hk1, hF] at hsucc
      have hd := getD_lt_ten _ hds (k - 1)
      by_cases hlim : stepVal (valMS (g.ip ++ (fracDigits g).take 8)) ((fracDigits g).drop 8) (k - 1) ≥ 21474836490
      · rw [if_pos hlim]
        simp only []
        rw [specParse_error g rest (by omega)]
        rfl
      · rw [if_neg hlim]
        simp only []
        rw [hF]
        exact observe_finish g rest (by omega)

/-- `string_to_location_coordinate` as repaired, on a grammar string: exactly the specification
    within the digit limits, `invalid_location` beyond them -/
theorem coord_parse_exact_fixed' (g : CoordStr) (hw : g.WellFormed) (rest : List UInt8)
    (hf : g.Follow rest) :
    observe (parseCoord Variant.fixed (g.render ++ rest)) =
      if g.ip.length ≤ 10 ∧ fracLen g ≤ 27 ∧ expLen g ≤ 5 then specParse g rest
      else .error .invalidLocation := by
  rw [parseCoord_grammar Variant.fixed g hw rest hf]
  by_cases h : g.ip.length ≤ 10 ∧ fracLen g ≤ 27 ∧ expLen g ≤ 5
  · rw [if_pos h, if_pos h]
    exact coordCore_fixed g hw h.1 h.2.1 rest
  · rw [if_neg h, if_neg h]
    rfl

end Osmium.Conv
