/-
PoolSM2Base — case split over the pool events and the basic global invariants of PoolSM
(C19): the work queue stays in use, `submitted` is the job projection of the push() calls
with distinct ids, only workers leave the loop, stop tasks are called only by the destructor
thread (k of them while `pushing k`), and after `dtorStart` no job is inside push().
-/
import Osmium.Lemmas.PoolSM
import Osmium.Lemmas.PoolSM2List

namespace Osmium.PoolSM

open Osmium.Mon

/-! ## case split -/

syntax "psm_q " ident : tactic
macro_rules
  | `(tactic| psm_q $hq:ident) => `(tactic|
      (simp only [QueueSM.step?] at $hq:ident
       repeat' split at $hq:ident
       all_goals first
         | (simp only [reduceCtorEq] at $hq:ident; done)
         | (simp only [Option.some.injEq] at $hq:ident; subst $hq:ident)))

syntax "psm_body " ident : tactic
macro_rules
  | `(tactic| psm_body $h:ident) => `(tactic|
      (simp only [step?] at $h:ident
       repeat' split at $h:ident
       all_goals (try simp only [Option.map_eq_some_iff] at $h:ident)
       all_goals first
         | (simp only [reduceCtorEq] at $h:ident; done)
         | (obtain ⟨q', hq, hs'⟩ := $h:ident; subst hs'; psm_q hq)
         | (simp only [Option.some.injEq] at $h:ident; subst $h:ident)))

/-- Case split of one pool step over all events (queue events unfolded down to the explicit
    successor state); every goal gets the guards as hypotheses. -/
syntax "psm_cases " ident " with " ident : tactic
macro_rules
  | `(tactic| psm_cases $e:ident with $h:ident) => `(tactic|
      (simp only [Machine.Step, machine] at $h:ident
       rcases $e:ident with ((⟨_, (⟨_, _⟩ | _)⟩ | _ | _ | _ | _ | _ | _ | _ | _ | _ | _ | _ | _) | _ | _ | _ | _ | _ | _ | _ | _)
       all_goals psm_body $h))

/-- close the goals of events that do not touch what the invariant `ih` talks about -/
syntax "psm_frame " ident : tactic
macro_rules
  | `(tactic| psm_frame $ih:ident) => `(tactic|
      first
        | exact $ih
        | (simp only [QueueSM.take_items, QueueSM.take_removed, QueueSM.take_popped, QueueSM.take_inUse,
             QueueSM.take_pc, QueueSM.take_waiters, QueueSM.take_called, QueueSM.take_dropped,
             QueueSM.take_pushed, QueueSM.take_ready, QueueSM.take_producers, QueueSM.take_sawSize,
             QueueSM.take_sdDone]; exact $ih)
        | skip)

/-! ## projections of queue elements -/

/-- the job carried by a queue element -/
def jobOf : QueueSM.Item Task → Option (Nat × Outcome)
  | (_, .job id out) => some (id, out)
  | (_, .stop) => none

/-- its id -/
def jid (x : QueueSM.Item Task) : Option Nat := (jobOf x).map (·.1)

def isStop (x : QueueSM.Item Task) : Bool := x.2 == Task.stop

@[simp] theorem jobOf_job (t : Tid) (id : Nat) (out : Outcome) : jobOf (t, .job id out) = some (id, out) := rfl
@[simp] theorem jobOf_stop (t : Tid) : jobOf (t, .stop) = none := rfl
@[simp] theorem jid_job (t : Tid) (id : Nat) (out : Outcome) : jid (t, .job id out) = some id := rfl
@[simp] theorem jid_stop (t : Tid) : jid (t, .stop) = none := rfl
@[simp] theorem isStop_job (t : Tid) (id : Nat) (out : Outcome) : isStop (t, .job id out) = false := rfl
@[simp] theorem isStop_stop (t : Tid) : isStop (t, .stop) = true := rfl

theorem isStop_iff (x : QueueSM.Item Task) : isStop x = true ↔ x.2 = .stop := by
  simp [isStop]

theorem jobOf_eq_some {x : QueueSM.Item Task} {id : Nat} {out : Outcome} (h : jobOf x = some (id, out)) :
    x = (x.1, .job id out) := by
  obtain ⟨t, tk⟩ := x
  cases tk <;> simp_all [jobOf]

theorem jid_eq_some {x : QueueSM.Item Task} {id : Nat} (h : jid x = some id) :
    ∃ out, x = (x.1, .job id out) := by
  obtain ⟨t, tk⟩ := x
  cases tk <;> simp_all [jid, jobOf]

/-- number of stop tasks the destructor has handed to push() -/
def dtorK (c : Cfg) : DPc → Nat
  | .notStarted => 0
  | .pushing k => k
  | .joining => c.workers.length
  | .done => c.workers.length

section carry
variable {α : Type} (t : Tid) (x : α)
@[simp] theorem carry_idle : QueueSM.carry t (QueueSM.Pc.idle : QueueSM.Pc α) = [] := rfl
@[simp] theorem carry_popWaiting : QueueSM.carry t (QueueSM.Pc.popWaiting : QueueSM.Pc α) = [] := rfl
@[simp] theorem carry_sdEntered : QueueSM.carry t (QueueSM.Pc.sdEntered : QueueSM.Pc α) = [] := rfl
@[simp] theorem carry_sdFlagged : QueueSM.carry t (QueueSM.Pc.sdFlagged : QueueSM.Pc α) = [] := rfl
@[simp] theorem carry_pushEntered : QueueSM.carry t (QueueSM.Pc.pushEntered x) = [(t, x)] := rfl
@[simp] theorem carry_pushPolling : QueueSM.carry t (QueueSM.Pc.pushPolling x) = [(t, x)] := rfl
@[simp] theorem carry_pushMustWait : QueueSM.carry t (QueueSM.Pc.pushMustWait x) = [(t, x)] := rfl
@[simp] theorem carry_pushReady : QueueSM.carry t (QueueSM.Pc.pushReady x) = [(t, x)] := rfl
end carry

/-! ## basic invariants -/

theorem inv_inUse (c : Cfg) : ∀ s, (machine c).Reachable s → s.q.inUse = true := by
  apply Machine.invariant
  · simp [machine, init, QueueSM.init]
  · intro s e s' _ ih hst
    psm_cases e with hst <;> simp_all

theorem inv_submitted (c : Cfg) : ∀ s, (machine c).Reachable s →
    s.q.called.filterMap jobOf = s.submitted ∧ (s.submitted.map (·.1)).Nodup := by
  apply Machine.invariant
  · simp [machine, init, QueueSM.init]
  · intro s e s' _ ih hst
    psm_cases e with hst <;> simp_all [List.filterMap_append, List.nodup_append]
    all_goals exact ‹_ ∧ _ ∧ _›.2.2

theorem inv_wpc (c : Cfg) : ∀ s, (machine c).Reachable s → ∀ w, w ∉ c.workers → s.wpc w = .loop := by
  apply Machine.invariant
  · simp [machine, init]
  · intro s e s' _ ih hst
    psm_cases e with hst <;> intro u hu <;> (try simp only [setPc_apply]) <;> (try split) <;> simp_all

/-- the guard of `dtorStart` / `dtorPushed`: no thread is inside push() -/
theorem noPush_quiescent (c : Cfg) (s : State) (h : (machine c).Reachable s)
    (hn : noPushInProgress s = true) (t : Tid) : QueueSM.inflight s.q t = [] := by
  have hq := reachable_q c s h
  have hu := inv_inUse c s h
  have hd := (QueueSM.inv_called c.qc s.q hq hu).1
  apply QueueSM.quiescent c.qc s.q hq hu
  simpa [noPushInProgress, hd] using hn

theorem inv_stops_called (c : Cfg) : ∀ s, (machine c).Reachable s →
    (s.q.called.filter isStop).length = dtorK c s.dtor ∧ dtorK c s.dtor ≤ c.workers.length ∧
    (∀ x ∈ s.q.called, isStop x = true → x = (s.dtorTid, .stop)) := by
  apply Machine.invariant
  · simp [machine, init, QueueSM.init, dtorK]
  · intro s e s' _ ih hst
    psm_cases e with hst <;> psm_frame ih
    all_goals (obtain ⟨ih1, ih2, ih3⟩ := ih; simp_all [dtorK, List.filter_append])
    all_goals first | assumption | grind [isStop]

/-- after `dtorStart` nobody is inside push() with a job: every submit() has enqueued -/
theorem inv_noJobInflight (c : Cfg) : ∀ s, (machine c).Reachable s →
    s.dtor ≠ .notStarted → ∀ t x, x ∈ QueueSM.inflight s.q t → isStop x = true := by
  apply Machine.invariant
  · simp [machine, init]
  · intro s e s' hr ih hst
    psm_cases e with hst <;> psm_frame ih
    all_goals (intro hd u y hy)
    all_goals (simp only [QueueSM.inflight, setPc_apply, QueueSM.take_pc] at hy ih)
    all_goals (try split at hy)
    all_goals first
      | (refine ih ?_ u y hy; simp_all; done)
      | (refine ih ?_ u y ?_ <;> simp_all; done)
      | (simp_all; done)
      | skip
    -- dtorStart: its guard says nobody is inside push()
    rename_i hg
    have := noPush_quiescent c s hr hg.2.2 u
    simp_all [QueueSM.inflight]

/-- once all stop tasks are enqueued (`dtorPushed`) nobody is inside push() any more -/
theorem inv_noInflight_joining (c : Cfg) : ∀ s, (machine c).Reachable s →
    (s.dtor = .joining ∨ s.dtor = .done) → ∀ t, QueueSM.inflight s.q t = [] := by
  apply Machine.invariant
  · simp [machine, init]
  · intro s e s' hr ih hst
    psm_cases e with hst <;> psm_frame ih
    all_goals (intro hd u)
    all_goals (simp only [QueueSM.inflight, setPc_apply, QueueSM.take_pc] at ih ⊢)
    all_goals (try split)
    all_goals first
      | (exact ih hd u)
      | (have h2 := ih hd u; simp_all; done)
      | (simp_all; done)
      | skip
    rename_i hg
    exact noPush_quiescent c s hr hg.2.2 u

/-- no stop task is called (hence none enqueued) before `dtorStart` -/
theorem no_stop_before_dtor (c : Cfg) (s : State) (h : (machine c).Reachable s)
    (hd : s.dtor = .notStarted) (x : QueueSM.Item Task) (hx : x ∈ s.q.called) : isStop x = false := by
  have h1 := (inv_stops_called c s h).1
  rw [hd] at h1
  simp only [dtorK, List.length_eq_zero_iff, List.filter_eq_nil_iff] at h1
  simpa using h1 x hx

/-- FIFO shape over all interleavings: the enqueue order is "all jobs, then all stop tasks" -/
theorem inv_pushed_shape (c : Cfg) : ∀ s, (machine c).Reachable s →
    s.q.pushed = s.q.pushed.filter (fun x => !isStop x) ++ s.q.pushed.filter isStop := by
  apply Machine.invariant
  · simp [machine, init, QueueSM.init]
  · intro s e s' hr ih hst
    psm_cases e with hst <;> psm_frame ih
    rename_i t n woke _ x heq hg
    show s.q.pushed ++ [(t, x)] = List.filter (fun x => !isStop x) (s.q.pushed ++ [(t, x)]) ++
      List.filter isStop (s.q.pushed ++ [(t, x)])
    have hin : (t, x) ∈ QueueSM.inflight s.q t := by simp [QueueSM.inflight, heq]
    cases hX : isStop (t, x) with
    | true =>
      simp only [List.filter_append, List.filter_cons, hX, Bool.not_true, Bool.false_eq_true, if_false,
        if_true, List.filter_nil, List.append_nil]
      rw [← List.append_assoc, ← ih]
    | false =>
      have hd : s.dtor = .notStarted := by
        by_contra hne
        have := inv_noJobInflight c s hr hne t _ hin
        simp [hX] at this
      have hnil : s.q.pushed.filter isStop = [] := by
        rw [List.filter_eq_nil_iff]
        intro y hy
        have := no_stop_before_dtor c s hr hd y
          (QueueSM.pushed_mem_called c.qc s.q (reachable_q c s hr) (inv_inUse c s hr) hy)
        simp [this]
      rw [hnil, List.append_nil] at ih
      simp only [List.filter_append, List.filter_cons, hX, Bool.not_false, if_true, Bool.false_eq_true,
        if_false, List.filter_nil, List.append_nil, hnil]
      rw [← ih]

end Osmium.PoolSM
