/-
`src_tie_*` lemmas for the small cursor functions of the OPL reader (io/detail/opl_parser_functions.hpp):
`opl_non_empty`, `opl_parse_visible`, `opl_parse_char`, `opl_parse_space`, `opl_parse_id`, TRANSLATED by tools/cxx2lean.py
(`Src.OplParserFunctions.…`), against the models `OplFmt.nonEmptyB`, `pVisible`, `pChar`, `HostileOpl.pSpaceC`, `OplFmt.pId`
(Osmium/Model/OplFmt.lean, HostileOpl.lean) of the C03 theorems.  Array and cursor as in Lemmas/Cursor.lean.
-/
import Osmium.Model.HostileOpl
import Osmium.Lemmas.SrcTieOpl

set_option Elab.async false
set_option linter.unusedSimpArgs false

namespace Osmium.SrcTie.OplSmall

open Osmium.Generated Osmium.CxxSem Osmium.Conv Osmium.Cursor Osmium.SrcTie.Coord Osmium.SrcTie.Opl
open Src.OplParserFunctions

/-- `split` on the next generated `if`; impossible branches are closed -/
macro "split_m" : tactic =>
  `(tactic| (split <;> (rename_i hc; (try cond_norm at hc); try (first | (exfalso; omega) | (exfalso; exact hc trivial)))))

theorem ncongr {σ ρ : Type} {a a' : σ} {b b' : ρ} (h1 : a = a') (h2 : b = b') :
    (Outcome.normal a b : Outcome σ ρ) = Outcome.normal a' b' := by subst h1 h2; rfl

theorem nonEmptyB_iff (c : UInt8) : OplFmt.nonEmptyB c = true ↔ (c.toNat ≠ 0 ∧ c.toNat ≠ 32 ∧ c.toNat ≠ 9) := by
  unfold OplFmt.nonEmptyB
  simp only [Bool.and_eq_true, bne_char, decide_eq_true_eq, and_assoc]
  exact Iff.rfl

theorem isSpTab_iff (c : UInt8) : OplFmt.isSpTab c = true ↔ (c.toNat = 32 ∨ c.toNat = 9) := by
  unfold OplFmt.isSpTab
  simp only [Bool.or_eq_true, beq_char, decide_eq_true_eq]
  exact Iff.rfl

/-- `opl_non_empty(s)` = the model's test on the byte under the cursor; one read, in bounds -/
theorem src_tie_opl_non_empty (s t : List UInt8) (i : Nat) (hi : i ≤ s.length) :
    opl_non_empty (s ++ 0 :: t) (i : Int) = OplFmt.nonEmptyB (peek (s.drop i)) ∧
    opl_non_empty_defined (s ++ 0 :: t) (i : Int) = true := by
  have hrd := rdS_cbuf s t i hi
  have hin := inB_cbuf s t i hi
  have hsc := sc_cases (peek (s.drop i))
  have hm := nonEmptyB_iff (peek (s.drop i))
  constructor
  · unfold opl_non_empty
    simp only [hrd]
    rw [Bool.eq_iff_iff, hm]
    simp only [Bool.and_eq_true, ne_iff]
    omega
  · unfold opl_non_empty_defined
    simp only [hrd, hin, Bool.or_true, Bool.and_true, Bool.true_and]

/-- a model result of `pVisible` / `pChar` as an outcome: the cursor moves by one, or `opl_error` with the cursor untouched -/
def stepOut {α ρ : Type} (i : Nat) (val : α → ρ) : Except OplFmt.PErr α → Outcome Int ρ
  | .ok a => .normal ((i + 1 : Nat) : Int) (val a)
  | .error _ => .thrown "osmium::opl_error" (i : Int)

theorem src_tie_opl_parse_visible (s t : List UInt8) (i : Nat) (hi : i ≤ s.length) :
    opl_parse_visible (s ++ 0 :: t) (i : Int) = stepOut i (fun p => p.1) (OplFmt.pVisible (s.drop i)) ∧
    (∀ b rest, OplFmt.pVisible (s.drop i) = .ok (b, rest) → i < s.length ∧ rest = s.drop (i + 1)) ∧
    opl_parse_visible_defined (s ++ 0 :: t) (i : Int) = true := by
  have hrd := rdS_cbuf s t i hi
  have hin := inB_cbuf s t i hi
  have hp1 := ptrOk_cbuf s t (i + 1) (by omega)
  cases hd : s.drop i with
  | nil =>
    rw [hd, peek_nil] at hrd
    have hsc := sc_cases (0 : UInt8)
    simp only [zero_toNat] at hsc
    refine ⟨?_, ?_, ?_⟩
    · unfold opl_parse_visible
      simp only [hrd, OplFmt.pVisible, stepOut]
      repeat' split_m
      all_goals rfl
    · intro b rest h; simp only [OplFmt.pVisible] at h; cases h
    · unfold opl_parse_visible_defined
      simp only [hrd, hin, Bool.true_and]
      repeat' split_m
      all_goals rfl
  | cons c u =>
    obtain ⟨hlt, hu⟩ := drop_cons s i c u hd
    rw [hd, peek_cons] at hrd
    have hsc := sc_cases c
    have h56 : c = 0x56 ↔ c.toNat = 86 := eq_char_iff c 0x56
    have h44 : c = 0x44 ↔ c.toNat = 68 := eq_char_iff c 0x44
    refine ⟨?_, ?_, ?_⟩
    · unfold opl_parse_visible
      simp only [hrd, OplFmt.pVisible]
      by_cases hV : c = 0x56
      · have := h56.mp hV
        rw [if_pos hV]
        simp only [stepOut]
        repeat' split_m
        all_goals exact ncongr (by omega) rfl
      · have hV' : ¬ c.toNat = 86 := fun e => hV (h56.mpr e)
        by_cases hD : c = 0x44
        · have := h44.mp hD
          rw [if_neg hV, if_pos hD]
          simp only [stepOut]
          repeat' split_m
          all_goals exact ncongr (by omega) rfl
        · have hD' : ¬ c.toNat = 68 := fun e => hD (h44.mpr e)
          rw [if_neg hV, if_neg hD]
          simp only [stepOut]
          repeat' split_m
          all_goals rfl
    · intro b rest h
      simp only [OplFmt.pVisible] at h
      refine ⟨hlt, ?_⟩
      rw [hu]
      by_cases hV : c = 0x56
      · simp only [hV, if_true] at h; cases h; rfl
      · by_cases hD : c = 0x44
        · simp only [hV, hD, if_true, if_false] at h; cases h; rfl
        · simp only [hV, hD, if_false] at h; cases h
    · unfold opl_parse_visible_defined
      simp only [hrd, hin, Bool.true_and]
      repeat' split_m
      all_goals first | (rw [idx_succ]; exact hp1) | rfl

/-- `opl_parse_char(&s, c)` for a character `c ≠ '\0'` (what the callers pass: '=', ',', '@', 'x', …; with `c = '\0'` the
    C++ function would step over the terminating NUL, which the model's `pChar` — on the bytes before the NUL — cannot
    express).  The `std::string msg` built for the exception is a local output string; only the class is modelled. -/
theorem src_tie_opl_parse_char (s t : List UInt8) (i : Nat) (hi : i ≤ s.length) (c : UInt8) (hc : c ≠ 0) :
    opl_parse_char (s ++ 0 :: t) (i : Int) (sc c) = stepOut i (fun _ => ()) (OplFmt.pChar c (s.drop i)) ∧
    (∀ rest, OplFmt.pChar c (s.drop i) = .ok rest → i < s.length ∧ rest = s.drop (i + 1)) ∧
    opl_parse_char_defined (s ++ 0 :: t) (i : Int) (sc c) = true := by
  have hrd := rdS_cbuf s t i hi
  have hin := inB_cbuf s t i hi
  have hp1 := ptrOk_cbuf s t (i + 1) (by omega)
  have hcc := sc_cases c
  have hc0 : ¬ c.toNat = 0 := fun e => hc ((eq_char_iff c 0).mpr e)
  cases hd : s.drop i with
  | nil =>
    rw [hd, peek_nil] at hrd
    have hsc := sc_cases (0 : UInt8)
    simp only [zero_toNat] at hsc
    refine ⟨?_, ?_, ?_⟩
    · unfold opl_parse_char
      simp only [hrd, OplFmt.pChar, stepOut]
      repeat' split_m
      all_goals rfl
    · intro rest h; simp only [OplFmt.pChar] at h; cases h
    · unfold opl_parse_char_defined
      simp only [hrd, hin, Bool.true_and]
      repeat' split_m
      all_goals first | (rw [idx_succ]; exact hp1) | rfl
  | cons d u =>
    obtain ⟨hlt, hu⟩ := drop_cons s i d u hd
    rw [hd, peek_cons] at hrd
    have hsc := sc_cases d
    have hdc : d = c ↔ d.toNat = c.toNat := eq_char_iff d c
    refine ⟨?_, ?_, ?_⟩
    · unfold opl_parse_char
      simp only [hrd, OplFmt.pChar]
      by_cases he : d = c
      · have := hdc.mp he
        rw [if_pos he]
        simp only [stepOut]
        repeat' split_m
        all_goals exact ncongr (by omega) rfl
      · have he' : ¬ d.toNat = c.toNat := fun e => he (hdc.mpr e)
        rw [if_neg he]
        simp only [stepOut]
        repeat' split_m
        all_goals rfl
    · intro rest h
      simp only [OplFmt.pChar] at h
      refine ⟨hlt, ?_⟩
      rw [hu]
      by_cases he : d = c
      · rw [if_pos he] at h; cases h; rfl
      · rw [if_neg he] at h; cases h
    · unfold opl_parse_char_defined
      simp only [hrd, hin, Bool.true_and]
      repeat' split_m
      all_goals first | (rw [idx_succ]; exact hp1) | rfl

/-! ### `opl_parse_space` -/

/-- the loop `while (**s == ' ' || **s == '\t') ++*s;` : `dropWhile isSpTab`; `k` = characters left -/
theorem src_tie_opl_parse_space_loop (s t : List UInt8) : ∀ (k i fuel : Nat) (iI : Int), iI = (i : Int) → i + k = s.length → k < fuel →
    (∃ j, i ≤ j ∧ j ≤ s.length ∧ (s.drop i).dropWhile OplFmt.isSpTab = s.drop j ∧
      opl_parse_space.loop_1 fuel (s ++ 0 :: t) iI = .next (j : Int)) ∧
    opl_parse_space.loop_1_defined fuel (s ++ 0 :: t) iI = true := by
  intro k
  induction k with
  | zero =>
    intro i fuel iI hiI hik hf
    subst hiI
    obtain ⟨f, rfl⟩ : ∃ f, fuel = f + 1 := ⟨fuel - 1, by omega⟩
    have hi : i ≤ s.length := by omega
    have hrd := rdS_cbuf s t i hi
    have hin := inB_cbuf s t i hi
    have hnil : s.drop i = [] := List.drop_eq_nil_of_le (by omega)
    rw [hnil, peek_nil] at hrd
    have hsc := sc_cases (0 : UInt8)
    simp only [zero_toNat] at hsc
    constructor
    · refine ⟨i, Nat.le_refl _, hi, by rw [hnil]; rfl, ?_⟩
      unfold opl_parse_space.loop_1
      simp only [hrd]
      repeat' split_m
      all_goals rfl
    · unfold opl_parse_space.loop_1_defined
      simp only [hrd, hin, Bool.true_and, Bool.or_true, Bool.and_true]
      repeat' split_m
      all_goals rfl
  | succ k ih =>
    intro i fuel iI hiI hik hf
    subst hiI
    obtain ⟨f, rfl⟩ : ∃ f, fuel = f + 1 := ⟨fuel - 1, by omega⟩
    have hi : i ≤ s.length := by omega
    have hrd := rdS_cbuf s t i hi
    have hin := inB_cbuf s t i hi
    have hp1 := ptrOk_cbuf s t (i + 1) (by omega)
    obtain ⟨c, u, hd⟩ : ∃ c u, s.drop i = c :: u := by
      cases h : s.drop i with
      | nil => have := List.drop_eq_nil_iff.mp h; omega
      | cons c u => exact ⟨c, u, rfl⟩
    obtain ⟨hlt, hu⟩ := drop_cons s i c u hd
    rw [hd, peek_cons] at hrd
    have hsc := sc_cases c
    have hm := isSpTab_iff c
    obtain ⟨⟨j, hj1, hj2, hj3, hj4⟩, ihd⟩ := ih (i + 1) f ((i : Int) + 1) (by omega) (by omega) (by omega)
    by_cases hsp : OplFmt.isSpTab c = true
    · have hsp' := hm.mp hsp
      constructor
      · refine ⟨j, by omega, hj2, by rw [hd, List.dropWhile_cons_of_pos hsp, ← hu]; exact hj3, ?_⟩
        unfold opl_parse_space.loop_1
        simp only [hrd]
        repeat' split_m
        all_goals exact hj4
      · unfold opl_parse_space.loop_1_defined
        simp only [hrd, hin, Bool.true_and, Bool.or_true, Bool.and_true]
        repeat' split_m
        all_goals simp only [Bool.and_eq_true]
        all_goals exact ⟨by rw [idx_succ]; exact hp1, ihd⟩
    · have hsp' : ¬ (c.toNat = 32 ∨ c.toNat = 9) := fun e => hsp (hm.mpr e)
      constructor
      · refine ⟨i, Nat.le_refl _, hi, by rw [hd, List.dropWhile_cons_of_neg hsp], ?_⟩
        unfold opl_parse_space.loop_1
        simp only [hrd]
        repeat' split_m
        all_goals rfl
      · unfold opl_parse_space.loop_1_defined
        simp only [hrd, hin, Bool.true_and, Bool.or_true, Bool.and_true]
        repeat' split_m
        all_goals rfl

/-- `opl_parse_space(&s)` = the model's `pSpaceC`: at least one space / tab, then all that follow; fuel: characters left + 2 -/
theorem src_tie_opl_parse_space (s t : List UInt8) (i fuel : Nat) (hi : i ≤ s.length) (hf : s.length - i + 2 ≤ fuel) :
    (match HostileOpl.pSpaceC (s.drop i) with
     | .ok rest => ∃ j, i < j ∧ j ≤ s.length ∧ rest = s.drop j ∧ opl_parse_space fuel (s ++ 0 :: t) (i : Int) = .normal (j : Int) ()
     | .error _ => opl_parse_space fuel (s ++ 0 :: t) (i : Int) = .thrown "osmium::opl_error" (i : Int)) ∧
    opl_parse_space_defined fuel (s ++ 0 :: t) (i : Int) = true := by
  have hrd := rdS_cbuf s t i hi
  have hin := inB_cbuf s t i hi
  have hsc := sc_cases (peek (s.drop i))
  have hm := isSpTab_iff (peek (s.drop i))
  unfold HostileOpl.pSpaceC
  by_cases hsp : OplFmt.isSpTab (peek (s.drop i)) = true
  · have hsp' := hm.mp hsp
    have hlt : i < s.length := lt_of_peek_ne_zero s i (by intro e; rw [e] at hsp'; simp at hsp')
    have hp1 := ptrOk_cbuf s t (i + 1) (by omega)
    obtain ⟨⟨j, hj1, hj2, hj3, hj4⟩, ihd⟩ := src_tie_opl_parse_space_loop s t (s.length - (i + 1)) (i + 1) fuel ((i : Int) + 1)
      (by omega) (by omega) (by omega)
    rw [if_pos hsp]
    constructor
    · refine ⟨j, by omega, hj2, by rw [← hj3, Cursor.tail_drop], ?_⟩
      unfold opl_parse_space
      simp only [hrd]
      repeat' split_m
      all_goals simp only [hj4, Flow.seq_next]
    · unfold opl_parse_space_defined
      simp only [hrd, hin, Bool.true_and, Bool.or_true, Bool.and_true]
      repeat' split_m
      all_goals simp only [Bool.and_eq_true]
      all_goals exact ⟨by rw [idx_succ]; exact hp1, ihd⟩
  · have hsp' : ¬ ((peek (s.drop i)).toNat = 32 ∨ (peek (s.drop i)).toNat = 9) := fun e => hsp (hm.mpr e)
    rw [if_neg hsp]
    constructor
    · unfold opl_parse_space
      simp only [hrd]
      repeat' split_m
      all_goals rfl
    · unfold opl_parse_space_defined
      simp only [hrd, hin, Bool.true_and, Bool.or_true, Bool.and_true]
      repeat' split_m
      all_goals rfl

/-! ### `opl_parse_id` -/

/-- `opl_parse_id(&s)` = `opl_parse_int<int64_t>` = the model's `pId` -/
theorem src_tie_opl_parse_id (s t : List UInt8) (i fuel : Nat) (hi : i ≤ s.length) (hf : s.length - i + 2 ≤ fuel) :
    (match OplFmt.pId (s.drop i) with
     | .ok (v, rest) => ∃ j, i ≤ j ∧ j ≤ s.length ∧ rest = s.drop j ∧ opl_parse_id fuel (s ++ 0 :: t) (i : Int) = .normal (j : Int) v
     | .error _ => ∃ j, i ≤ j ∧ j ≤ s.length ∧ opl_parse_id fuel (s ++ 0 :: t) (i : Int) = .thrown "osmium::opl_error" (j : Int)) ∧
    opl_parse_id_defined fuel (s ++ 0 :: t) (i : Int) = true := by
  obtain ⟨h1, h2⟩ := src_tie_opl_parse_int_ppc_ri64_main s t i fuel hi hf
  constructor
  · unfold OplFmt.pId OplFmt.pInt opl_parse_id
    have e1 : int64Min = -9223372036854775808 := rfl
    have e2 : int64Max = 9223372036854775807 := rfl
    rw [e1, e2]
    cases hm : oplParseInt (-9223372036854775808) 9223372036854775807 (s.drop i) with
    | ok q =>
      obtain ⟨v, rest⟩ := q
      rw [hm] at h1
      obtain ⟨j, hj1, hj2, hj3, hj4⟩ := h1
      exact ⟨j, hj1, hj2, hj3, by rw [hj4]; rfl⟩
    | error e =>
      rw [hm] at h1
      obtain ⟨j, hj1, hj2, hj4⟩ := h1
      exact ⟨j, hj1, hj2, by rw [hj4]; rfl⟩
  · unfold opl_parse_id_defined
    simp only [h2, Bool.and_true, Bool.true_and]

/-! ### conditions of `opl_parse_tags` / `opl_parse_timestamp` (functions that are outside the subset as a whole) -/

/-- the test that ends the loop of `opl_parse_tags` (`*s == ' ' || *s == '\t' || *s == '\0'`) = the model's test in `pTags` -/
theorem src_tie_opl_parse_tags_cond_end (s t : List UInt8) (i : Nat) (hi : i ≤ s.length) :
    opl_parse_tags_cond_end (s ++ 0 :: t) (i : Int) = (OplFmt.isSpTab (peek (s.drop i)) || peek (s.drop i) == 0) ∧
    opl_parse_tags_cond_end_defined (s ++ 0 :: t) (i : Int) = true := by
  have hrd := rdS_cbuf s t i hi
  have hin := inB_cbuf s t i hi
  have hsc := sc_cases (peek (s.drop i))
  have hm := isSpTab_iff (peek (s.drop i))
  constructor
  · unfold opl_parse_tags_cond_end
    simp only [hrd]
    rw [Bool.eq_iff_iff]
    simp only [Bool.or_eq_true, eq_iff, hm, beq_char, decide_eq_true_eq, zero_toNat]
    omega
  · unfold opl_parse_tags_cond_end_defined
    simp only [hrd, hin, Bool.or_true, Bool.and_true, Bool.true_and]

/-- the "no timestamp" test of `opl_parse_timestamp` (`**s == '\0' || **s == ' ' || **s == '\t'`) = the model's test in
    `oplParseTimestamp` -/
theorem src_tie_opl_parse_timestamp_cond_empty (s t : List UInt8) (i : Nat) (hi : i ≤ s.length) :
    opl_parse_timestamp_cond_empty (s ++ 0 :: t) (i : Int) = (peek (s.drop i) == 0 || peek (s.drop i) == 32 || peek (s.drop i) == 9) ∧
    opl_parse_timestamp_cond_empty_defined (s ++ 0 :: t) (i : Int) = true := by
  have hrd := rdS_cbuf s t i hi
  have hin := inB_cbuf s t i hi
  have hsc := sc_cases (peek (s.drop i))
  have e32 : (32 : UInt8).toNat = 32 := rfl
  have e9 : (9 : UInt8).toNat = 9 := rfl
  constructor
  · unfold opl_parse_timestamp_cond_empty
    simp only [hrd]
    rw [Bool.eq_iff_iff]
    simp only [Bool.or_eq_true, eq_iff, beq_char, decide_eq_true_eq, zero_toNat, e32, e9]
    omega
  · unfold opl_parse_timestamp_cond_empty_defined
    simp only [hrd, hin, Bool.or_true, Bool.and_true, Bool.true_and]

end Osmium.SrcTie.OplSmall
