/-
C13, coordinates: parsing a plain decimal "[-]digits[.digits]" with at most 7 fraction digits
(the shape `append_location_coordinate_to_string` produces) — every variant of the parser.
-/
import Osmium.Lemmas.ConvCoordSpec

namespace Osmium.Conv

open IntLemmas (digitsStr valMS valFrom AllDigits NoDigitHead)

theorem allDigits_of_all (ds : List Nat) (h : ds.all (· < 10) = true) : AllDigits ds := by
  intro d hd
  simpa using (List.all_eq_true.1 h) d hd

theorem parseCoord_plain (v : Variant) (neg : Bool) (hi kept : List Nat) (hhi : AllDigits hi)
    (hk : AllDigits kept) (hne : hi ≠ []) (hl : hi.length ≤ 10) (hkl : kept.length ≤ 7) (a : Nat)
    (ha : valMS (hi ++ kept) * 10 ^ (7 - kept.length) = a) (hr : a ≤ 2147483648)
    (hr2 : neg = false → a ≤ 2147483647) (rest : List UInt8) (hf : NoDigitHead rest)
    (h1 : peek rest ≠ cDot) (h2 : peek rest ≠ ce) (h3 : peek rest ≠ cE) :
    parseCoord v ((if neg then [cMinus] else []) ++
        (digitsStr hi ++ (if kept = [] then [] else cDot :: digitsStr kept)) ++ rest)
      = .ok ⟨(if neg then -1 else 1) * (a : Int), rest, false⟩ := by
  let g : CoordStr := ⟨neg, hi, if kept = [] then none else some kept, none⟩
  have hfd : fracDigits g = kept := by
    by_cases hke : kept = [] <;> simp [fracDigits, g, hke]
  have hfl : fracLen g = kept.length := by
    by_cases hke : kept = [] <;> simp [fracLen, g, hke]
  have hrender : (if neg then [cMinus] else []) ++
      (digitsStr hi ++ (if kept = [] then [] else cDot :: digitsStr kept)) = g.render := by
    by_cases hke : kept = [] <;> simp [CoordStr.render, g, hke, fracStr, expStr]
  have hw : g.WellFormed := by
    refine ⟨hhi, ?_, ?_, Or.inl hne⟩
    · intro f hf0
      by_cases hke : kept = [] <;> simp [g, hke] at hf0
      subst hf0; exact hk
    · intro up n e he; simp [g] at he
  have hfo : g.Follow rest := ⟨hf, fun _ => ⟨h2, h3⟩, fun _ _ => h1⟩
  rw [hrender, parseCoord_grammar v g hw rest hfo]
  have hlim : g.ip.length ≤ 10 ∧ fracLen g ≤ 27 ∧ expLen g ≤ 5 := by
    refine ⟨hl, by omega, by simp [expLen, g]⟩
  rw [if_pos hlim, hfd, hfl]
  have ht : kept.take 8 = kept := List.take_of_length_le (by omega)
  have hd : kept.drop 8 = [] := List.drop_of_length_le (by omega)
  have hex : expVal g = 0 := by simp [expVal, g]
  have hip : g.ip = hi := rfl
  have hng : g.neg = neg := rfl
  rw [ht, hd, hex, hip, hng]
  unfold coordCore
  have hsc : ¬ (((8 - kept.length : Nat) : Int) + 0 < 0) := by omega
  have hk8 : (((8 - kept.length : Nat) : Int) + 0).toNat = (7 - kept.length) + 1 := by omega
  simp only [hsc, if_false, hk8, IntLemmas.digitsStr_nil, ite_self]
  have hprod : valMS (hi ++ kept) * 10 ^ (7 - kept.length + 1) = a * 10 := by
    rw [Nat.pow_succ, ← Nat.mul_assoc, ha]
  rw [mulLoop_exact v _ _ _ (by rw [hprod]; omega), hprod]
  simp only []
  rw [finishCoord_exact (a * 10) (by omega) neg rest]
  have hdiv : (a * 10 + 5) / 10 = a := by omega
  simp only [hdiv, int32Min, int32Max]
  cases neg
  · have := hr2 rfl
    simp only [Bool.false_eq_true, if_false]
    rw [if_pos (by omega)]
  · simp only [if_true]
    rw [if_pos (by omega)]

end Osmium.Conv
