/-
Helper lemmas for C17 (lean/Osmium/Props/C17.lean).  Core only.
-/
import Osmium.Model.Geom

namespace Osmium.Geom

/-! ## generic: a loop that projects and adds = project everything, then add everything -/

theorem foldlM_bind_pure {α β γ ε : Type} (f : α → Except ε β) (g : γ → β → γ) (l : List α) (s : γ) :
    l.foldlM (fun s a => do let b ← f a; pure (g s b)) s
      = (do let bs ← l.mapM f; pure (bs.foldl g s) : Except ε γ) := by
  induction l generalizing s with
  | nil => rfl
  | cons a l ih =>
    simp only [List.foldlM_cons, List.mapM_cons]
    cases h : f a with
    | error e => rfl
    | ok b =>
      simp only [bind, Except.bind, pure, Except.pure] at ih ⊢
      rw [ih]
      cases l.mapM f <;> rfl

theorem mapM_length {α β ε : Type} (f : α → Except ε β) (l : List α) (bs : List β)
    (h : l.mapM f = .ok bs) : bs.length = l.length := by
  induction l generalizing bs with
  | nil => simp [List.mapM_nil, pure, Except.pure] at h; subst h; rfl
  | cons a l ih =>
    simp only [List.mapM_cons, bind, Except.bind, pure, Except.pure] at h
    cases hf : f a with
    | error e => simp [hf] at h
    | ok b =>
      simp only [hf] at h
      cases hl : l.mapM f with
      | error e => simp [hl] at h
      | ok bs' =>
        simp only [hl] at h
        cases h
        simp [ih bs' hl]

/-! ## `fillUnique` vs the specification's `dedup` -/

theorem cons_uniqueFrom (l : Location) (rest : List Location) :
    l :: Factory.uniqueFrom l rest = dedup (l :: rest) := by
  induction rest generalizing l with
  | nil => rfl
  | cons b rest ih =>
    by_cases h : l = b
    · subst h
      simp [Factory.uniqueFrom, dedup, ih]
    · simp [Factory.uniqueFrom, dedup, h, ih]

theorem fillUnique_repaired (nodes : List Location) :
    Factory.fillUnique .fixed nodes = dedup nodes := by
  cases nodes with
  | nil => rfl
  | cons l rest => simp [Factory.fillUnique, cons_uniqueFrom]

/-- today's loop = the repaired loop unless the first location is the undefined one -/
theorem fillUnique_current (nodes : List Location) (h : nodes.head? ≠ some Location.undefined) :
    Factory.fillUnique .beforeFix nodes = Factory.fillUnique .fixed nodes := by
  cases nodes with
  | nil => rfl
  | cons l rest =>
    have : (Location.undefined != l) = true := by
      simp at h
      simpa [bne_iff_ne] using fun e => h e.symm
    simp [Factory.fillUnique, Factory.uniqueFrom, this]


/-! ## the implementation's pure replay of a geometry -/

section run
variable {P σ O : Type} (impl : Impl P σ O)

def runInner (s : σ) (r : List P) : σ := impl.mpInnerFinish (r.foldl impl.mpAdd (impl.mpInnerStart s))

def runOuter (s : σ) (r : List P) : σ :=
  impl.mpOuterFinish (r.foldl impl.mpAdd (impl.mpOuterStart (impl.mpPolygonStart s)))

def runPoly (s : σ) (p : Poly P) : σ :=
  impl.mpPolygonFinish (p.inners.foldl (runInner impl) (runOuter impl s p.outer))

/-- the calls `create_*` makes on the implementation for a geometry -/
def run : Geom P → O
  | .point p => impl.makePoint p
  | .linestring ps =>
    impl.linestringFinish (ps.foldl impl.linestringAdd (impl.linestringStart impl.init)) ps.length
  | .polygon p =>
    impl.polygonFinish (p.outer.foldl impl.polygonAdd (impl.polygonStart impl.init)) p.outer.length
  | .multipolygon polys => impl.mpFinish (polys.foldl (runPoly impl) (impl.mpStart impl.init))

theorem seq_repaired (o : Opts) (nodes : List Location) :
    (if o.unique then Factory.fillUnique .fixed (Factory.iter o.backward nodes)
     else Factory.iter o.backward nodes) = seqOf o nodes := by
  simp [seqOf, Factory.iter, fillUnique_repaired]

variable (proj : Location → Except Err P)

theorem createLinestring_repaired (nodes : List Location) (o : Opts) :
    Factory.createLinestring impl .fixed proj nodes o
      = (geomOf proj (.way nodes) o).map (run impl) := by
  simp only [Factory.createLinestring, Factory.fill, foldlM_bind_pure, seq_repaired, geomOf, projAll]
  cases h : (seqOf o nodes).mapM proj with
  | error e => rfl
  | ok ps =>
    have hl := mapM_length _ _ _ h
    simp only [bind, Except.bind, pure, Except.pure, Except.map, ← hl]
    by_cases h2 : ps.length < 2 <;> simp [h2, run, throw, throwThe, MonadExceptOf.throw]

theorem createPolygon_repaired (nodes : List Location) (o : Opts) :
    Factory.createPolygon impl .fixed proj nodes o
      = (geomOf proj (.wayPolygon nodes) o).map (run impl) := by
  simp only [Factory.createPolygon, Factory.fill, foldlM_bind_pure, seq_repaired, geomOf, projAll]
  cases h : (seqOf o nodes).mapM proj with
  | error e => rfl
  | ok ps =>
    have hl := mapM_length _ _ _ h
    simp only [bind, Except.bind, pure, Except.pure, Except.map, ← hl]
    by_cases h2 : ps.length < 4 <;> simp [h2, run, throw, throwThe, MonadExceptOf.throw]

theorem createPoint_eq (l : Location) (o : Opts) :
    Factory.createPoint impl proj l = (geomOf proj (.node l) o).map (run impl) := by
  simp only [Factory.createPoint, geomOf]
  cases proj l <;> rfl


/-! ### create_multipolygon -/

/-- what one ring contributes: its (de-duplicated, projected) points -/
def ringPts (v : Variant) (item : RingItem) : Except Err (Bool × List P) := do
  let ps ← (Factory.fillUnique v item.2).mapM proj
  if v = .fixed ∧ ps.length < 4 then throw .geometry
  pure (item.1, ps)

/-- one loop iteration of create_multipolygon on already projected points -/
def mpPure (st : Factory.MpSt σ) (q : Bool × List P) : Factory.MpSt σ :=
  if q.1 then
    ⟨runOuter impl (if st.numPolygons > 0 then impl.mpPolygonFinish st.s else st.s) q.2,
      st.numPolygons + 1, st.numRings + 1⟩
  else ⟨runInner impl st.s q.2, st.numPolygons, st.numRings + 1⟩

theorem mpItem_eq (v : Variant) (st : Factory.MpSt σ) (item : RingItem) :
    Factory.mpItem impl v proj st item
      = (do let q ← ringPts proj v item; pure (mpPure impl st q)) := by
  obtain ⟨fl, ring⟩ := item
  simp only [Factory.mpItem, Factory.addPoints, foldlM_bind_pure, ringPts, mpPure]
  cases h : (Factory.fillUnique v ring).mapM proj with
  | error e => cases fl <;> rfl
  | ok ps =>
    have hl := mapM_length _ _ _ h
    simp only [← hl]
    cases fl <;>
      by_cases hc : v = .fixed ∧ ps.length < 4 <;>
      simp [bind, Except.bind, pure, Except.pure, hc, runOuter, runInner, throw, throwThe,
        MonadExceptOf.throw]

theorem createMultipolygon_eq (v : Variant) (items : List RingItem) :
    Factory.createMultipolygon impl v proj items
      = (do
          let qs ← items.mapM (ringPts proj v)
          let st := qs.foldl (mpPure impl) ⟨impl.mpStart impl.init, 0, 0⟩
          if st.numRings == 0 then throw .geometry
          pure (impl.mpFinish (impl.mpPolygonFinish st.s))) := by
  have : Factory.mpItem impl v proj
      = fun st item => (do let q ← ringPts proj v item; pure (mpPure impl st q)) := by
    funext st item; exact mpItem_eq impl proj v st item
  simp only [Factory.createMultipolygon, this, foldlM_bind_pure]
  cases items.mapM (ringPts proj v) <;> rfl

theorem mpPure_numRings (qs : List (Bool × List P)) (st : Factory.MpSt σ) :
    (qs.foldl (mpPure impl) st).numRings = st.numRings + qs.length := by
  induction qs generalizing st with
  | nil => rfl
  | cons q qs ih =>
    simp only [List.foldl_cons, ih, List.length_cons]
    unfold mpPure
    split <;> simp <;> omega

/-- the left-to-right ring/polygon state machine produces the polygons of `groupAux` -/
theorem mp_group (rest : List (Bool × List P)) (s : σ) (n k : Nat) :
    impl.mpPolygonFinish (rest.foldl (mpPure impl) ⟨s, n + 1, k⟩).s
      = (groupAux rest).2.foldl (runPoly impl)
          (impl.mpPolygonFinish ((groupAux rest).1.foldl (runInner impl) s)) := by
  induction rest generalizing s n k with
  | nil => rfl
  | cons q rest ih =>
    obtain ⟨fl, r⟩ := q
    cases fl with
    | false =>
      simp only [List.foldl_cons, groupAux]
      have : mpPure impl ⟨s, n + 1, k⟩ (false, r) = ⟨runInner impl s r, n + 1, k + 1⟩ := by
        simp [mpPure]
      rw [this, ih]
    | true =>
      simp only [List.foldl_cons, groupAux]
      have : mpPure impl ⟨s, n + 1, k⟩ (true, r)
          = ⟨runOuter impl (impl.mpPolygonFinish s) r, n + 1 + 1, k + 1⟩ := by
        simp [mpPure]
      rw [this, ih]
      simp [runPoly]

theorem ringPts_repaired (item : RingItem) : ringPts proj .fixed item = ringOf proj item := by
  simp [ringPts, ringOf, projAll, fillUnique_repaired]

theorem mapM_head_outer {ε : Type} (f : RingItem → Except ε (Bool × List P))
    (hf : ∀ it q, f it = .ok q → q.1 = it.1)
    (r : List Location) (rest : List RingItem) (qs : List (Bool × List P))
    (h : ((true, r) :: rest).mapM f = .ok qs) : ∃ ps qs', qs = (true, ps) :: qs' := by
  simp only [List.mapM_cons, bind, Except.bind, pure, Except.pure] at h
  cases h1 : f (true, r) with
  | error e => simp [h1] at h
  | ok q =>
    simp only [h1] at h
    cases h2 : rest.mapM f with
    | error e => simp [h2] at h
    | ok qs' =>
      simp only [h2] at h
      cases h
      have := hf _ _ h1
      obtain ⟨a, ps⟩ := q
      simp at this
      subst this
      exact ⟨ps, qs', rfl⟩

theorem ringOf_flag (it : RingItem) (q : Bool × List P) (h : ringOf proj it = .ok q) : q.1 = it.1 := by
  simp only [ringOf, projAll, bind, Except.bind] at h
  cases h1 : (dedup it.2).mapM proj with
  | error e => simp [h1] at h
  | ok ps =>
    simp only [h1] at h
    by_cases h4 : ps.length < 4
    · simp [h4, throw, throwThe, MonadExceptOf.throw] at h
    · simp [h4, pure, Except.pure] at h
      cases h; rfl

theorem createMultipolygon_repaired (items : List RingItem) (o : Opts) (hwf : (Obj.area items).wf) :
    Factory.createMultipolygon impl .fixed proj items
      = (geomOf proj (.area items) o).map (run impl) := by
  rw [createMultipolygon_eq]
  have : ringPts proj .fixed = ringOf proj := by funext it; exact ringPts_repaired proj it
  simp only [this, geomOf]
  cases h : items.mapM (ringOf proj) with
  | error e => rfl
  | ok qs =>
    cases items with
    | nil =>
      simp [List.mapM_nil, pure, Except.pure] at h
      subst h
      rfl
    | cons it rest =>
      obtain ⟨fl, r⟩ := it
      cases fl with
      | false => exact absurd hwf (by simp [Obj.wf])
      | true =>
        obtain ⟨ps, qs', rfl⟩ := mapM_head_outer (ε := Err) (ringOf proj) (ringOf_flag proj) r rest qs h
        have hn : ((((true, ps) :: qs').foldl (mpPure impl) ⟨impl.mpStart impl.init, 0, 0⟩).numRings == 0)
            = false := by
          rw [mpPure_numRings]; simp
        simp only [bind, Except.bind, pure, Except.pure, Except.map, hn]
        simp only [List.foldl_cons, List.isEmpty_cons, run, groupAux]
        have : mpPure impl ⟨impl.mpStart impl.init, 0, 0⟩ (true, ps)
            = ⟨runOuter impl (impl.mpStart impl.init) ps, 0 + 1, 1⟩ := by simp [mpPure]
        rw [this, mp_group]
        simp [runPoly]

/-- generic in the implementation: with the repairs, the factory makes exactly the calls of
`run` on `geomOf` -/
theorem create_repaired (obj : Obj) (o : Opts) (hwf : obj.wf) :
    Factory.create impl .fixed proj obj o = (geomOf proj obj o).map (run impl) := by
  cases obj with
  | node l => exact createPoint_eq impl proj l o
  | way nodes => exact createLinestring_repaired impl proj nodes o
  | wayPolygon nodes => exact createPolygon_repaired impl proj nodes o
  | area items => exact createMultipolygon_repaired impl proj items o hwf


/-! ### today's code = repaired code inside the domain -/

/-- no ring / no way starts (in iteration order) with the undefined location in unique mode -/
def NoLeadUndef (obj : Obj) (o : Opts) : Prop :=
  match obj with
  | .node _ => True
  | .way nodes => o.unique = true → (Factory.iter o.backward nodes).head? ≠ some Location.undefined
  | .wayPolygon nodes => o.unique = true → (Factory.iter o.backward nodes).head? ≠ some Location.undefined
  | .area items => ∀ it ∈ items, it.2.head? ≠ some Location.undefined

/-- every ring of an area has at least 4 distinct consecutive points -/
def RingsOk (obj : Obj) : Prop :=
  match obj with
  | .area items => ∀ it ∈ items, 4 ≤ (dedup it.2).length
  | _ => True

theorem mapM_congr_mem {α β ε : Type} (f g : α → Except ε β) (l : List α) (h : ∀ a ∈ l, f a = g a) :
    l.mapM f = l.mapM g := by
  induction l with
  | nil => rfl
  | cons a l ih =>
    simp only [List.mapM_cons]
    rw [h a (by simp), ih (fun b hb => h b (by simp [hb]))]

theorem ringPts_current (it : RingItem) (h1 : it.2.head? ≠ some Location.undefined)
    (h2 : 4 ≤ (dedup it.2).length) : ringPts proj .beforeFix it = ringPts proj .fixed it := by
  simp only [ringPts, fillUnique_current _ h1, fillUnique_repaired]
  cases h : (dedup it.2).mapM proj with
  | error e => rfl
  | ok ps =>
    have hl := mapM_length _ _ _ h
    have : ¬ ps.length < 4 := by omega
    simp [bind, Except.bind, this]

theorem create_current (obj : Obj) (o : Opts) (h1 : NoLeadUndef obj o) (h2 : RingsOk obj) :
    Factory.create impl .beforeFix proj obj o = Factory.create impl .fixed proj obj o := by
  cases obj with
  | node l => rfl
  | way nodes =>
    simp only [Factory.create, Factory.createLinestring, Factory.fill]
    cases hu : o.unique with
    | false => rfl
    | true => simp only [NoLeadUndef] at h1; simp [fillUnique_current _ (h1 hu)]
  | wayPolygon nodes =>
    simp only [Factory.create, Factory.createPolygon, Factory.fill]
    cases hu : o.unique with
    | false => rfl
    | true => simp only [NoLeadUndef] at h1; simp [fillUnique_current _ (h1 hu)]
  | area items =>
    simp only [Factory.create, createMultipolygon_eq]
    rw [mapM_congr_mem _ _ items (fun it hit => ringPts_current proj it (h1 it hit) (h2 it hit))]

end run

/-! ## WKB: the back-patching implementation writes the declarative encoding -/

namespace Wkb

theorem code_or (t : GType) : t.code ||| wkbSRID = t.code + wkbSRID := by
  cases t <;> rfl

theorem u32le_length (n : Nat) : (u32le n).length = 4 := rfl

theorem header_true (c : Cfg) (str : List UInt8) (t : GType) :
    header c str t true = (str ++ hdr c t ++ u32le 0, (str ++ hdr c t).length) := by
  cases h : c.ewkb <;> simp [header, hdr, h, code_or, u32le_length]

theorem header_false (c : Cfg) (str : List UInt8) (t : GType) :
    (header c str t false).1 = str ++ hdr c t := by
  cases h : c.ewkb <;> simp [header, hdr, h, code_or]

theorem setSize_slot (a x b : List UInt8) (n : Nat) (hx : x.length = 4) :
    setSize (a ++ x ++ b) a.length n = a ++ u32le n ++ b := by
  have h1 : (a ++ x ++ b).take a.length = a := by
    rw [List.append_assoc]; exact List.take_left' rfl
  have h2 : (a ++ x ++ b).drop (a.length + 4) = b :=
    List.drop_left' (by simp [hx])
  unfold setSize
  rw [h1, h2, List.append_assoc]

theorem setSize_append (d e : List UInt8) (off n : Nat) (h : off + 4 ≤ d.length) :
    setSize (d ++ e) off n = setSize d off n ++ e := by
  simp only [setSize, List.append_assoc]
  rw [List.take_append_of_le_length (by omega), List.drop_append_of_le_length (by omega)]


section
variable {P : Type} (bits : P → WPoint) (c : Cfg)

theorem encPoints_append (a b : List WPoint) : encPoints (a ++ b) = encPoints a ++ encPoints b := by
  simp [encPoints]

theorem foldl_lsAdd (ps : List P) (s : St) :
    ps.foldl (impl bits c).linestringAdd s = { s with data := s.data ++ encPoints (ps.map bits) } := by
  induction ps generalizing s with
  | nil => simp [encPoints]
  | cons p ps ih =>
    have : (impl bits c).linestringAdd s p = { s with data := s.data ++ pointBytes (bits p) } := rfl
    rw [List.foldl_cons, this, ih]
    simp [encPoints]

theorem foldl_polyAdd (ps : List P) (s : St) :
    ps.foldl (impl bits c).polygonAdd s = { s with data := s.data ++ encPoints (ps.map bits) } := by
  induction ps generalizing s with
  | nil => simp [encPoints]
  | cons p ps ih =>
    have : (impl bits c).polygonAdd s p = { s with data := s.data ++ pointBytes (bits p) } := rfl
    rw [List.foldl_cons, this, ih]
    simp [encPoints]

theorem foldl_mpAdd (ps : List P) (s : St) :
    ps.foldl (impl bits c).mpAdd s
      = { s with data := s.data ++ encPoints (ps.map bits), points := s.points + ps.length } := by
  induction ps generalizing s with
  | nil => simp [encPoints]
  | cons p ps ih =>
    have : (impl bits c).mpAdd s p
        = { s with data := s.data ++ pointBytes (bits p), points := s.points + 1 } := rfl
    rw [List.foldl_cons, this, ih]
    simp [encPoints]; omega

theorem run_linestring (ps : List P) :
    run (impl bits c) (.linestring ps) = emit c (.linestring (ps.map bits)) := by
  simp only [run, foldl_lsAdd, emit, encode]
  simp only [impl, header_true, List.nil_append, List.length_map]
  rw [setSize_slot _ _ _ _ (u32le_length 0)]

theorem run_polygon (ps : List P) :
    run (impl bits c) (.polygon ⟨ps, []⟩) = emit c (.polygon ⟨ps.map bits, []⟩) := by
  simp only [run, foldl_polyAdd, emit, encode, encPoly, encPolyBody, encRing, encRings]
  simp only [impl, header_true, List.nil_append, List.length_map]
  have h1 : setSize (hdr c .polygon ++ u32le 0) (hdr c .polygon).length 1 = hdr c .polygon ++ u32le 1 := by
    have := setSize_slot (hdr c .polygon) (u32le 0) [] 1 (u32le_length 0)
    simpa using this
  rw [h1]
  have h2 := setSize_slot (hdr c .polygon ++ u32le 1) (u32le 0) (encPoints (ps.map bits)) ps.length
    (u32le_length 0)
  simp only [List.append_assoc, List.length_append] at h2 ⊢
  rw [h2]
  simp

theorem run_point (p : P) : run (impl bits c) (.point p) = emit c (.point (bits p)) := by
  simp [run, impl, header_false, emit, encode]


theorem runInner_wkb (s : St) (r : List P) :
    runInner (impl bits c) s r
      = { s with data := s.data ++ encRing (r.map bits), rings := s.rings + 1, points := r.length,
                 ringSizeOffset := s.data.length } := by
  unfold runInner
  rw [foldl_mpAdd]
  simp only [impl]
  have := setSize_slot s.data (u32le 0) (encPoints (r.map bits)) r.length (u32le_length 0)
  simp only [List.append_assoc] at this
  simp [this, encRing]

theorem runOuter_wkb (s : St) (r : List P) :
    runOuter (impl bits c) s r
      = { s with data := s.data ++ hdr c .polygon ++ u32le 0 ++ encRing (r.map bits),
                 polygons := s.polygons + 1, rings := 1, points := r.length,
                 polygonSizeOffset := (s.data ++ hdr c .polygon).length,
                 ringSizeOffset := (s.data ++ hdr c .polygon ++ u32le 0).length } := by
  unfold runOuter
  rw [foldl_mpAdd]
  simp only [impl, header_true]
  have := setSize_slot (s.data ++ hdr c .polygon ++ u32le 0) (u32le 0) (encPoints (r.map bits)) r.length
    (u32le_length 0)
  simp only [List.append_assoc, List.length_append] at this
  simp [this, encRing]

theorem foldl_runInner_wkb (rs : List (List P)) (s : St) :
    (rs.foldl (runInner (impl bits c)) s).data = s.data ++ encRings (rs.map (·.map bits)) ∧
    (rs.foldl (runInner (impl bits c)) s).rings = s.rings + rs.length ∧
    (rs.foldl (runInner (impl bits c)) s).polygonSizeOffset = s.polygonSizeOffset ∧
    (rs.foldl (runInner (impl bits c)) s).polygons = s.polygons ∧
    (rs.foldl (runInner (impl bits c)) s).multipolygonSizeOffset = s.multipolygonSizeOffset := by
  induction rs generalizing s with
  | nil => simp [encRings]
  | cons r rs ih =>
    obtain ⟨h1, h2, h3, h4, h5⟩ := ih (runInner (impl bits c) s r)
    simp only [List.foldl_cons]
    refine ⟨?_, ?_, ?_, ?_, ?_⟩
    · rw [h1, runInner_wkb]; simp [encRings]
    · rw [h2, runInner_wkb]; simp; omega
    · rw [h3, runInner_wkb]
    · rw [h4, runInner_wkb]
    · rw [h5, runInner_wkb]

theorem runPoly_wkb (s : St) (p : Poly P) :
    (runPoly (impl bits c) s p).data = s.data ++ encPoly c (p.map bits) ∧
    (runPoly (impl bits c) s p).polygons = s.polygons + 1 ∧
    (runPoly (impl bits c) s p).multipolygonSizeOffset = s.multipolygonSizeOffset := by
  unfold runPoly
  obtain ⟨h1, h2, h3, h4, h5⟩ := foldl_runInner_wkb bits c p.inners (runOuter (impl bits c) s p.outer)
  have hf : ∀ t : St, (impl bits c).mpPolygonFinish t
      = { t with data := setSize t.data t.polygonSizeOffset t.rings } := fun _ => rfl
  rw [hf]
  simp only [runOuter_wkb] at h1 h2 h3 h4 h5 ⊢
  simp only [h1, h2, h3, h4, h5]
  refine ⟨?_, trivial, trivial⟩
  have := setSize_slot (s.data ++ hdr c .polygon) (u32le 0)
    (encRing (p.outer.map bits) ++ encRings (p.inners.map (·.map bits))) (1 + p.inners.length)
    (u32le_length 0)
  simp only [List.append_assoc] at this ⊢
  rw [this]
  simp [encPoly, encPolyBody, Poly.map]

theorem foldl_runPoly_wkb (ps : List (Poly P)) (s : St) :
    (ps.foldl (runPoly (impl bits c)) s).data = s.data ++ encPolys c (ps.map (·.map bits)) ∧
    (ps.foldl (runPoly (impl bits c)) s).polygons = s.polygons + ps.length ∧
    (ps.foldl (runPoly (impl bits c)) s).multipolygonSizeOffset = s.multipolygonSizeOffset := by
  induction ps generalizing s with
  | nil => simp [encPolys]
  | cons p ps ih =>
    rw [List.foldl_cons]
    obtain ⟨h1, h2, h3⟩ := ih (runPoly (impl bits c) s p)
    obtain ⟨g1, g2, g3⟩ := runPoly_wkb bits c s p
    refine ⟨?_, ?_, ?_⟩
    · rw [h1, g1]; simp [encPolys]
    · rw [h2, g2]; simp; omega
    · rw [h3, g3]

theorem run_multipolygon (ps : List (Poly P)) :
    run (impl bits c) (.multipolygon ps) = emit c (.multipolygon (ps.map (·.map bits))) := by
  simp only [run, emit, encode]
  obtain ⟨h1, h2, h3⟩ := foldl_runPoly_wkb bits c ps ((impl bits c).mpStart (impl bits c).init)
  have hf : ∀ t : St, (impl bits c).mpFinish t
      = out c (setSize t.data t.multipolygonSizeOffset t.polygons) := fun _ => rfl
  rw [hf, h1, h2, h3]
  simp only [impl, header_true, List.nil_append]
  have := setSize_slot (hdr c .multipolygon) (u32le 0) (encPolys c (ps.map (·.map bits))) ps.length
    (u32le_length 0)
  simp only [List.append_assoc] at this
  simp [this]

/-- the WKB implementation's calls produce the declarative encoding (a standalone polygon has
no inner rings) -/
theorem run_eq_emit (g : Geom P) (hg : ∀ p, g = .polygon p → p.inners = []) :
    run (impl bits c) g = emit c (g.map bits) := by
  cases g with
  | point p => exact run_point bits c p
  | linestring ps => exact run_linestring bits c ps
  | polygon p =>
    obtain ⟨o, inn⟩ := p
    have := hg _ rfl
    simp at this
    subst this
    exact run_polygon bits c o
  | multipolygon ps => exact run_multipolygon bits c ps

end

end Wkb

end Osmium.Geom
