/-
Helper lemmas for C04: byte writes preserve lengths, `reserve_space` establishes
written ≤ capacity, the abstraction (done, pend) of a buffer.
-/
import Osmium.Model.Buf

namespace Osmium.Buf

open Osmium.Layout

/-! ### writes preserve the length -/

@[simp] theorem writeAt_length (l : Bytes) (off : Nat) (d : Bytes) : (writeAt l off d).length = l.length := by
  induction d generalizing l off with
  | nil => rfl
  | cons x xs ih => simp [writeAt, ih]

@[simp] theorem setLE_length (p : Pend) (off v n : Nat) : (setLE p off v n).length = p.length := by
  simp [setLE]

@[simp] theorem addSizeAt_length (off n : Nat) (p : Pend) : (addSizeAt off n p).length = p.length := by
  simp [addSizeAt]

@[simp] theorem addSizeChain_length (offs : List Nat) (n : Nat) (p : Pend) :
    (addSizeChain offs n p).length = p.length := by
  induction offs generalizing p with
  | nil => rfl
  | cons o os ih => simp [addSizeChain, List.foldl] at *; rw [ih]; simp

@[simp] theorem flagWord_length (p : Pend) (off : Nat) (v : Bool) : (flagWord p off v).length = p.length := by
  simp [flagWord]

/-- length preserving function on the uncommitted part -/
def LP (g : Pend → Pend) : Prop := ∀ p, (g p).length = p.length

def Micro.LP : Micro → Prop
  | .alloc _ _ g => ∀ off, Osmium.Buf.LP (g off)
  | .upd g => Osmium.Buf.LP g
  | .deref _ g => ∀ off, Osmium.Buf.LP (g off)
  | .finish _ => True

/-! ### padded / capacity arithmetic -/

theorem padded_ge (n : Nat) : n ≤ padded n := by unfold padded; omega
theorem padded_dvd (n : Nat) : 8 ∣ padded n := by unfold padded; exact Nat.dvd_mul_left _ _
theorem padded_mod (n : Nat) : padded n % 8 = 0 := by unfold padded; omega

theorem calcCap_ge (c : Nat) : c ≤ calcCap c := by
  unfold calcCap minCapacity; split
  · omega
  · exact padded_ge c

theorem calcCap_pos (c : Nat) : 64 ≤ calcCap c := by
  unfold calcCap minCapacity; split
  · omega
  · have := padded_ge c; omega

theorem calcCap_mod (c : Nat) : calcCap c % 8 = 0 := by
  unfold calcCap minCapacity; split
  · rfl
  · exact padded_mod c

theorem dbl_ge (f need c : Nat) (h : need ≤ c * 2 ^ f) : need ≤ dbl f need c := by
  induction f generalizing c with
  | zero => simpa [dbl] using h
  | succ f ih =>
    unfold dbl
    split
    · apply ih; rw [Nat.pow_succ] at h; rw [Nat.mul_assoc, Nat.mul_comm 2]; exact h
    · omega

theorem dbl_ge' (need c : Nat) (hc : 1 ≤ c) : need ≤ dbl need need c := by
  apply dbl_ge
  have : need < 2 ^ need := Nat.lt_two_pow_self
  calc need ≤ 2 ^ need := Nat.le_of_lt this
    _ = 1 * 2 ^ need := by omega
    _ ≤ c * 2 ^ need := Nat.mul_le_mul_right _ hc

/-! ### bounds invariant of one buffer -/

/-- `0 ≤ committed ≤ written ≤ capacity` -/
def Buf.Bounds (b : Buf) : Prop := b.committed ≤ b.written ∧ b.written ≤ b.cap ∧ 64 ≤ b.cap

theorem bounds_mk (c : Nat) (m : Mode) (f : UInt8) : (Buf.mk' c m f).Bounds := by
  simp [Buf.Bounds, Buf.mk', Buf.written, calcCap_pos]

/-- one buffer relates to an earlier state of itself like this after (possible) growth -/
structure Grown (b b' : Buf) : Prop where
  pend : b'.pend = b.pend
  done : b'.done = b.done
  mode : b'.mode = b.mode
  fill : b'.fill = b.fill
  valid : b'.valid = b.valid
  epoch : b.epoch ≤ b'.epoch
  comm : b'.committed ≤ b'.written
  capge : b.cap ≤ b'.cap
  same : b'.epoch = b.epoch → b' = b

theorem grown_refl (b : Buf) (h : b.committed ≤ b.written) : Grown b b :=
  ⟨rfl, rfl, rfl, rfl, rfl, Nat.le_refl _, h, Nat.le_refl _, fun _ => rfl⟩

theorem grown_growInternal (b : Buf) (h : b.committed ≤ b.written) : Grown b (growInternal b) := by
  constructor <;> simp [growInternal, Buf.pend, Buf.done, Buf.comm, Buf.written]

theorem grown_grow (size : Nat) (b : Buf) (h : b.committed ≤ b.written) : Grown b (grow size b) := by
  unfold grow
  split
  · constructor <;> simp_all [Buf.pend, Buf.done, Buf.comm, Buf.written] <;> omega
  · exact grown_refl b h

theorem grown_trans {a b c : Buf} (h1 : Grown a b) (h2 : Grown b c) : Grown a c := by
  refine ⟨h2.pend.trans h1.pend, h2.done.trans h1.done, h2.mode.trans h1.mode, h2.fill.trans h1.fill,
    h2.valid.trans h1.valid, Nat.le_trans h1.epoch h2.epoch, h2.comm, Nat.le_trans h1.capge h2.capge, ?_⟩
  intro he
  have e1 := h1.epoch; have e2 := h2.epoch
  have hb : c = b := h2.same (by omega)
  subst hb
  exact h1.same he

theorem pend_length (b : Buf) (h : b.committed ≤ b.written) : b.pend.length = b.written - b.committed := by
  simp [Buf.pend, Buf.written]

theorem grown_written {b b' : Buf} (g : Grown b b') (h : b.committed ≤ b.written) :
    b'.written - b'.committed = b.written - b.committed := by
  rw [← pend_length b' g.comm, ← pend_length b h, g.pend]

theorem growFor_spec (n : Nat) (b : Buf) (h : b.committed ≤ b.written) (hcap : 1 ≤ b.cap) :
    Grown b (growFor n b) ∧ (growFor n b).written + n ≤ (growFor n b).cap := by
  unfold growFor
  have g1 : Grown b (if b.mode = Mode.internal ∧ b.committed ≠ 0 then growInternal b else b) := by
    split
    · exact grown_growInternal b h
    · exact grown_refl b h
  generalize (if b.mode = Mode.internal ∧ b.committed ≠ 0 then growInternal b else b) = b1 at g1
  simp only []
  split
  · refine ⟨grown_trans g1 (grown_grow _ b1 g1.comm), ?_⟩
    have hw : (grow (dbl (b1.written + n) (b1.written + n) (b1.cap * 2)) b1).written = b1.written := by
      unfold grow; split <;> rfl
    rw [hw]
    have hd := dbl_ge' (b1.written + n) (b1.cap * 2) (by
      have := g1.capge
      omega)
    have hc := calcCap_ge (dbl (b1.written + n) (b1.written + n) (b1.cap * 2))
    unfold grow
    split
    · simp; omega
    · rename_i hlt; simp at hlt; omega
  · rename_i hle
    exact ⟨g1, by omega⟩

theorem extend_written (n : Nat) (b : Buf) : (extend n b).written = b.written + n := by
  simp [extend, Buf.written]

/-- what `reserve_space` guarantees, in every grow mode: there is an intermediate "grown" buffer -/
theorem reserve_spec (n : Nat) (b b' : Buf) (hb : b.Bounds) (h : reserve n b = .ok b') :
    ∃ g, Grown b g ∧ b' = extend n g ∧ g.written + n ≤ g.cap := by
  obtain ⟨hc, hw, h64⟩ := hb
  unfold reserve at h
  split at h
  · split at h
    · cases h
    · injection h with h
      exact ⟨growFor n b, (growFor_spec n b hc (by omega)).1, h.symm, (growFor_spec n b hc (by omega)).2⟩
  · injection h with h
    rename_i hle
    exact ⟨b, grown_refl b hc, h.symm, by omega⟩

theorem reserve_ok_of_mode (n : Nat) (b : Buf) (hm : b.mode ≠ .no) : ∃ b', reserve n b = .ok b' := by
  unfold reserve
  split
  · simp [hm]
  · exact ⟨_, rfl⟩

theorem extend_pend (n : Nat) (g : Buf) (h : g.committed ≤ g.written) :
    (extend n g).pend = g.pend ++ List.replicate n g.fill := by
  simp only [extend, Buf.pend, Buf.written] at *
  exact List.drop_append_of_le_length h

theorem extend_done (n : Nat) (g : Buf) (h : g.committed ≤ g.written) : (extend n g).done = g.done := by
  simp only [extend, Buf.done, Buf.comm, Buf.written] at *
  rw [List.take_append_of_le_length h]

theorem extend_bounds (n : Nat) (g : Buf) (h : g.committed ≤ g.written) (hc : g.written + n ≤ g.cap) (h64 : 64 ≤ g.cap) :
    (extend n g).Bounds := by
  simp only [Buf.Bounds, extend, Buf.written, List.length_append, List.length_replicate] at *
  omega

/-! ### writes to the uncommitted part -/

theorem onPend_written (f : Pend → Pend) (b : Buf) (hf : LP f) (h : b.committed ≤ b.written) :
    (b.onPend f).written = b.written := by
  simp only [Buf.onPend, Buf.written, Buf.comm, Buf.pend, List.length_append, hf _, List.length_take, List.length_drop] at *
  omega

theorem onPend_bounds (f : Pend → Pend) (b : Buf) (hf : LP f) (h : b.Bounds) : (b.onPend f).Bounds := by
  have hw := onPend_written f b hf h.1
  simp only [Buf.Bounds] at *
  rw [hw]
  exact h

theorem onPend_pend (f : Pend → Pend) (b : Buf) (h : b.committed ≤ b.written) : (b.onPend f).pend = f b.pend := by
  simp only [Buf.onPend, Buf.pend, Buf.comm, Buf.written] at *
  rw [List.drop_append_of_le_length (by simp; omega)]
  simp [List.length_take, Nat.min_eq_left h]

theorem onPend_done (f : Pend → Pend) (b : Buf) (h : b.committed ≤ b.written) : (b.onPend f).done = b.done := by
  simp only [Buf.onPend, Buf.done, Buf.comm, Buf.written] at *
  rw [List.take_append_of_le_length (by simp; omega)]
  simp [List.take_take]

def St.Bounds (s : St) : Prop := s.b0.Bounds ∧ s.b1.Bounds

/-! ### every micro program of the builders is length preserving -/

def AllLP (ms : List Micro) : Prop := ∀ m ∈ ms, m.LP

theorem allLP_append {a b : List Micro} (ha : AllLP a) (hb : AllLP b) : AllLP (a ++ b) := by
  intro m hm
  rcases List.mem_append.1 hm with h | h
  · exact ha m h
  · exact hb m h

theorem allLP_nil : AllLP [] := by intro m hm; cases hm

theorem allLP_mAppend (offs : List Nat) (d : Bytes) : AllLP (mAppend offs d) := by
  intro m hm
  simp only [mAppend, List.mem_cons, List.not_mem_nil, or_false] at hm
  subst hm; simp [Micro.LP, LP]

theorem allLP_mPadding (offs : List Nat) (self : Bool) : AllLP (mPadding offs self) := by
  intro m hm
  cases offs with
  | nil => simp [mPadding] at hm
  | cons t ps =>
    simp only [mPadding, List.mem_cons, List.not_mem_nil, or_false] at hm
    subst hm; simp [Micro.LP, LP]

theorem allLP_mCtor (k : Kind) (offs : List Nat) : AllLP (mCtor k offs) := by
  intro m hm
  unfold mCtor at hm
  split at hm <;> simp only [List.mem_cons, List.not_mem_nil, or_false] at hm <;> subst hm <;> simp [Micro.LP, LP]

theorem allLP_mSetUser (k : Kind) (offs : List Nat) (u : Bytes) : AllLP (mSetUser k offs u) := by
  intro m hm
  cases offs with
  | nil => simp [mSetUser] at hm
  | cons t ps =>
    simp only [mSetUser, List.mem_cons, List.not_mem_nil, or_false] at hm
    subst hm
    simp only [Micro.LP, LP]; intro off p; split <;> (try split) <;> simp

theorem allLP_mTag (offs : List Nat) (k v : Bytes) : AllLP (mTag offs k v) :=
  allLP_append (allLP_mAppend _ _) (allLP_mAppend _ _)

theorem allLP_mNodeRef (offs : List Nat) (r x y : Int) : AllLP (mNodeRef offs r x y) := allLP_mAppend _ _

theorem allLP_mMember (offs : List Nat) (ty : Nat) (ref : Int) (role : Bytes) (full : Option Bytes) :
    AllLP (mMember offs ty ref role full) := by
  unfold mMember
  refine allLP_append (allLP_append (allLP_append ?_ (allLP_mAppend _ _)) (allLP_mPadding _ _)) ?_
  · intro m hm
    simp only [List.mem_cons, List.not_mem_nil, or_false] at hm
    rcases hm with rfl | rfl <;> simp [Micro.LP, LP]
  · cases full with
    | none => exact allLP_nil
    | some fm => exact allLP_mAppend _ _

theorem allLP_mComment (offs : List Nat) (d u : Nat) (user : Bytes) : AllLP (mComment offs d u user) := by
  unfold mComment
  refine allLP_append ?_ (allLP_mAppend _ _)
  intro m hm
  simp only [List.mem_cons, List.not_mem_nil, or_false] at hm
  rcases hm with rfl | rfl <;> simp [Micro.LP, LP]

theorem allLP_mCommentText (offs : List Nat) (t : Bytes) : AllLP (mCommentText offs t) := by
  unfold mCommentText
  refine allLP_append (allLP_append ?_ (allLP_mAppend _ _)) (allLP_mPadding _ _)
  intro m hm
  simp only [List.mem_cons, List.not_mem_nil, or_false] at hm
  subst hm; simp [Micro.LP, LP]

theorem allLP_mDtor (k : Kind) (offs : List Nat) : AllLP (mDtor k offs) := by
  unfold mDtor; split
  · exact allLP_nil
  · refine allLP_append ?_ (allLP_mPadding _ _)
    split
    · intro m hm; simp only [List.mem_cons, List.not_mem_nil, or_false] at hm; subst hm; trivial
    · exact allLP_nil

theorem allLP_single_upd (g : Pend → Pend) : AllLP [.upd g] ↔ LP g := by
  constructor
  · intro h; exact h _ List.mem_cons_self
  · intro h m hm; simp only [List.mem_cons, List.not_mem_nil, or_false] at hm; subst hm; exact h

theorem allLP_single_alloc (n : Pend → Nat) (sv : Bool) (d : Bytes) :
    AllLP [.alloc n sv (fun off p => writeAt p off d)] := by
  intro m hm; simp only [List.mem_cons, List.not_mem_nil, or_false] at hm; subst hm; simp [Micro.LP, LP]

theorem plan_LP (fs : List (Nat × Kind)) (pl : Nat) (aux : Bytes) (av : Bool) (c0 : Bytes) (op : Op)
    (ms : List Micro) (a : After) (h : plan fs pl aux av c0 op = .micros ms a) : AllLP ms := by
  cases op <;> simp only [plan] at h <;> (repeat' split at h) <;>
    first
    | (cases h; done)
    | (injection h with h1 h2; subst h1
       simp only [allLP_mCtor, allLP_mSetUser, allLP_mTag, allLP_mNodeRef, allLP_mMember, allLP_mComment,
         allLP_mCommentText, allLP_mDtor, allLP_single_alloc, allLP_single_upd, LP, setLE_length, writeAt_length,
         flagWord_length, implies_true])

/-! ### micro steps keep the bounds -/

/-- an invariant of single steps is an invariant of `execList` (whether or not it ends in an error) -/
theorem execList_inv (ex : St → Micro → Except Err St) (P : St → Prop) (Q : Micro → Prop)
    (h : ∀ s s' m, Q m → P s → ex s m = .ok s' → P s') (ms : List Micro) (s : St)
    (hq : ∀ m ∈ ms, Q m) (hp : P s) : P (execList ex s ms).1 := by
  induction ms generalizing s with
  | nil => exact hp
  | cons m ms ih =>
    simp only [execList]
    split
    · exact hp
    · rename_i s' hs'
      exact ih s' (fun x hx => hq x (List.mem_cons_of_mem _ hx)) (h s s' m (hq m List.mem_cons_self) hp hs')

/-- `finish` either does nothing or is a run of the primitive steps of `add_text(current, "", 0)`
    whose buffer_is_full is swallowed -/
theorem execMicro_finish (s s' : St) (offs : List Nat) (h : execMicro s (.finish offs) = .ok s') :
    s' = s ∨ s' = (execList execBase s (mCommentText offs [])).1 := by
  simp only [execMicro] at h
  split at h
  · split at h
    · rename_i s1 he; injection h with h; subst h; right; rw [he]
    · rename_i s1 he; injection h with h; subst h; right; rw [he]
    · cases h
  · injection h with h; exact Or.inl h.symm

theorem execMicro_base (s : St) (m : Micro) (hm : ∀ offs, m ≠ .finish offs) : execMicro s m = execBase s m := by
  cases m with
  | finish offs => exact absurd rfl (hm offs)
  | alloc n save g => rfl
  | upd g => rfl
  | deref keep g => rfl

theorem execBase_bounds (s s' : St) (m : Micro) (hm : m.LP) (hs : s.Bounds) (h : execBase s m = .ok s') : s'.Bounds := by
  cases m with
  | alloc n save g =>
    simp only [execBase] at h
    split at h
    · cases h
    · rename_i b' hr
      injection h with h
      subst h
      obtain ⟨g', hg, rfl, hcap⟩ := reserve_spec _ _ _ hs.1 hr
      refine ⟨onPend_bounds _ _ (hm _) (extend_bounds _ _ hg.comm hcap ?_), hs.2⟩
      have := hg.capge; have := hs.1.2.2; omega
  | upd g =>
    simp only [execBase] at h
    injection h with h; subst h
    exact ⟨onPend_bounds _ _ hm hs.1, hs.2⟩
  | deref keep g =>
    simp only [execBase] at h
    split at h
    · cases h
    · split at h
      · cases h
      · split at h
        · injection h with h; subst h
          exact ⟨onPend_bounds _ _ (hm _) hs.1, hs.2⟩
        · cases h
  | finish offs => simp only [execBase] at h; injection h with h; subst h; exact hs

theorem execBaseList_bounds (ms : List Micro) (s : St) (hm : AllLP ms) (hs : s.Bounds) :
    (execList execBase s ms).1.Bounds :=
  execList_inv execBase St.Bounds Micro.LP (fun s s' m hq hp h => execBase_bounds s s' m hq hp h) ms s hm hs

theorem execMicro_bounds (s s' : St) (m : Micro) (hm : m.LP) (hs : s.Bounds) (h : execMicro s m = .ok s') : s'.Bounds := by
  cases m with
  | finish offs =>
    rcases execMicro_finish s s' offs h with rfl | rfl
    · exact hs
    · exact execBaseList_bounds _ s (allLP_mCommentText _ _) hs
  | alloc n save g => exact execBase_bounds s s' _ hm hs h
  | upd g => exact execBase_bounds s s' _ hm hs h
  | deref keep g => exact execBase_bounds s s' _ hm hs h

theorem execMicros_bounds (ms : List Micro) (s : St) (hm : ∀ m ∈ ms, m.LP) (hs : s.Bounds) :
    (execMicros s ms).1.Bounds :=
  execList_inv execMicro St.Bounds Micro.LP (fun s s' m hq hp h => execMicro_bounds s s' m hq hp h) ms s hm hs

/-! ### whole operations keep the bounds -/

theorem unwind_bounds (fuel : Nat) (s : St) (hs : s.Bounds) : (unwind fuel s).1.Bounds := by
  induction fuel generalizing s with
  | zero => exact hs
  | succ f ih =>
    simp only [unwind]
    split
    · exact hs
    · rename_i fr rest hst
      have hb := execMicros_bounds (mDtor fr.kind (offsOf s.stack)) s (allLP_mDtor _ _) hs
      split
      · rename_i s' e he
        rw [he] at hb; exact hb
      · rename_i s' he
        rw [he] at hb
        exact ih _ hb

theorem applyAfter_bounds (a : After) (s : St) (hs : s.Bounds) : (applyAfter a s).Bounds := by
  cases a <;> simp only [applyAfter] <;> try exact hs
  exact ⟨⟨Nat.le_refl _, hs.1.2⟩, hs.2⟩

theorem runMicros_bounds (s : St) (ms : List Micro) (a : After) (hm : AllLP ms) (hs : s.Bounds) :
    (runMicros s ms (applyAfter a)).1.Bounds := by
  have hb := execMicros_bounds ms s hm hs
  simp only [runMicros]
  generalize execMicros s ms = r at hb ⊢
  obtain ⟨s', oe⟩ := r
  cases oe with
  | none => exact applyAfter_bounds a s' hb
  | some e =>
    cases e <;> simp only [] <;> try exact hb
    have hu := unwind_bounds (s'.stack.length + 1) s' hb
    generalize unwind (s'.stack.length + 1) s' = r at hu ⊢
    obtain ⟨s'', oe⟩ := r
    cases oe <;> exact hu

theorem purgeLoop_length (lim fuel : Nat) (b : Bytes) (r w : Nat) (cbs : List (Nat × Nat)) :
    (purgeLoop lim fuel b r w cbs).1.length = b.length := by
  induction fuel generalizing b r w cbs with
  | zero => rfl
  | succ f ih =>
    simp only [purgeLoop]
    split
    · rfl
    · split
      · split <;> simp [ih]
      · exact ih _ _ _ _

theorem purgeBuf_bounds (b : Buf) (hb : b.Bounds) : (purgeBuf b).1.Bounds := by
  simp only [purgeBuf]
  split
  · exact hb
  · simp only [purgeBytes]
    split
    · simp only [Buf.Bounds, Buf.written, List.length_take, Buf.comm] at *
      omega
    · have hl := purgeLoop_length b.comm.length (b.comm.length + 1) b.comm
        (skipNonEntity b.comm b.comm.length (b.comm.length + 1) 0) (skipNonEntity b.comm b.comm.length (b.comm.length + 1) 0) []
      generalize purgeLoop b.comm.length (b.comm.length + 1) b.comm _ _ [] = r at hl
      obtain ⟨b', w, cbs⟩ := r
      simp only [Buf.Bounds, Buf.written, List.length_take, Buf.comm] at *
      omega

theorem execBufOp_bounds (s : St) (o : BufOp) (hs : s.Bounds) : (execBufOp s o).1.Bounds := by
  obtain ⟨h0, h1⟩ := hs
  cases o <;> simp only [execBufOp]
  · exact ⟨⟨Nat.le_refl _, h0.2⟩, h1⟩
  · refine ⟨?_, h1⟩
    simp only [Buf.Bounds, Buf.written, Buf.comm, List.length_take] at *; omega
  · refine ⟨?_, h1⟩
    simp only [Buf.Bounds, Buf.written, List.length_nil] at *; omega
  · exact ⟨h1, h0⟩
  · exact ⟨h0, h1⟩
  · exact ⟨purgeBuf_bounds _ h0, h1⟩
  · exact ⟨h0, h1⟩
  · refine ⟨?_, h1⟩
    simp only [Buf.Bounds, Buf.written, Buf.comm, Buf.pend, List.length_append, flagWord_length, List.length_take, List.length_drop] at *
    omega

theorem step_bounds (s : St) (op : Op) (hs : s.Bounds) : (step s op).1.Bounds := by
  simp only [step]
  split
  · exact hs
  · split
    · exact hs
    · split
      · exact hs
      · exact hs
      · rename_i ms a hp
        exact runMicros_bounds s ms a (plan_LP _ _ _ _ _ _ _ _ hp) hs
      · exact execBufOp_bounds s _ hs

theorem run_bounds (ops : List Op) (s : St) (hs : s.Bounds) : (run s ops).Bounds := by
  induction ops generalizing s with
  | nil => exact hs
  | cons op ops ih => exact ih _ (step_bounds s op hs)

end Osmium.Buf
