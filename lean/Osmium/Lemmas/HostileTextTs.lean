/-
C03 helper: the timestamp parsers stop at the terminating NUL (used by Lemmas/HostileText.lean).
-/
import Osmium.Lemmas.HostileTextCoord

namespace Osmium.HostileText.Aux
open Osmium.Conv

theorem isDigit_ne_zero {c : UInt8} (h : isDigit c = true) : c ≠ 0 := by
  rintro rfl; exact absurd h (by decide)

theorem dropWhile_isDigit_mem (s junk : Bytes) :
    (s ++ behind junk).dropWhile isDigit = s.dropWhile isDigit ++ behind junk := by
  induction s with
  | nil => simp [behind, List.dropWhile, isDigit_zero]
  | cons c s ih =>
    simp only [List.cons_append, List.dropWhile]
    split
    · exact ih
    · rfl

/-- the part of `parse_timestamp` behind the 19 fixed characters -/
def tsTail (rest : Bytes) : Bool × Bytes :=
  if peek rest == cZ then (true, rest.tail)
  else ((fractionalSeconds rest).1, (fractionalSeconds rest).2.tail)

theorem fractionalSeconds_mem (rest junk : Bytes) :
    (fractionalSeconds (rest ++ behind junk)).1 = (fractionalSeconds rest).1 ∧
    ((fractionalSeconds rest).1 = true →
      (fractionalSeconds (rest ++ behind junk)).2.tail = (fractionalSeconds rest).2.tail ++ behind junk ∧
      (fractionalSeconds rest).2 ≠ [] ∧ rest ≠ []) := by
  unfold fractionalSeconds
  rw [peek_mem]
  by_cases h : (peek rest != cDot && peek rest != cComma) = true
  · simp [h]
  · simp only [h, Bool.false_eq_true, if_false]
    have hne : rest ≠ [] := by
      apply peek_ne_zero_ne_nil
      intro h0; rw [h0] at h; exact h (by decide)
    rw [tail_mem junk hne, peek_mem]
    by_cases hd : (!isDigit (peek rest.tail)) = true
    · simp [hd]
    · simp only [hd, Bool.false_eq_true, if_false, dropWhile_isDigit_mem, peek_mem, true_and]
      intro hz
      have hne2 : List.dropWhile isDigit rest.tail ≠ [] := by
        apply peek_ne_zero_ne_nil
        intro h0; rw [h0] at hz; exact absurd hz (by decide)
      exact ⟨tail_mem junk hne2, hne2, hne⟩

theorem tsTail_mem (rest junk : Bytes) :
    (tsTail (rest ++ behind junk)).1 = (tsTail rest).1 ∧
    ((tsTail rest).1 = true →
      (tsTail (rest ++ behind junk)).2 = (tsTail rest).2 ++ behind junk ∧ rest ≠ []) := by
  unfold tsTail
  rw [peek_mem]
  by_cases h : (peek rest == cZ) = true
  · have hne : rest ≠ [] := by
      apply peek_ne_zero_ne_nil
      intro h0; rw [h0] at h; exact absurd h (by decide)
    simp only [h, if_true, true_and]
    intro _
    exact ⟨tail_mem junk hne, hne⟩
  · simp only [h, Bool.false_eq_true, if_false]
    have := fractionalSeconds_mem rest junk
    refine ⟨this.1, fun hh => ⟨(this.2 hh).1, (this.2 hh).2.2⟩⟩

/-- `parseTimestamp` on a string with at least 19 characters, the tail factored out -/
theorem parseTimestamp_long (y0 y1 y2 y3 c4 m0 m1 c7 d0 d1 c10 h0 h1 c13 i0 i1 c16 s0 s1 : UInt8) (rest : Bytes) :
    parseTimestamp (y0 :: y1 :: y2 :: y3 :: c4 :: m0 :: m1 :: c7 :: d0 :: d1 :: c10 :: h0 :: h1 :: c13 :: i0 :: i1 :: c16 :: s0 :: s1 :: rest) =
    if isDigit y0 && isDigit y1 && isDigit y2 && isDigit y3 && c4 == cMinus &&
       isDigit m0 && isDigit m1 && c7 == cMinus && isDigit d0 && isDigit d1 && c10 == cT &&
       isDigit h0 && isDigit h1 && c13 == cColon && isDigit i0 && isDigit i1 && c16 == cColon &&
       isDigit s0 && isDigit s1 then
      if (tsTail rest).1 then
        if digitVal y0 * 1000 + digitVal y1 * 100 + digitVal y2 * 10 + digitVal y3 ≥ 1900 &&
            digitVal m0 * 10 + digitVal m1 ≥ 1 && digitVal m0 * 10 + digitVal m1 ≤ 12 &&
            digitVal d0 * 10 + digitVal d1 ≥ 1 &&
            digitVal d0 * 10 + digitVal d1 ≤ monLengths.getD (digitVal m0 * 10 + digitVal m1 - 1) 0 &&
            digitVal h0 * 10 + digitVal h1 ≤ 23 && digitVal i0 * 10 + digitVal i1 ≤ 59 &&
            digitVal s0 * 10 + digitVal s1 ≤ 60 then
          .ok (timegm (digitVal y0 * 1000 + digitVal y1 * 100 + digitVal y2 * 10 + digitVal y3)
                 (digitVal m0 * 10 + digitVal m1) (digitVal d0 * 10 + digitVal d1)
                 (digitVal h0 * 10 + digitVal h1) (digitVal i0 * 10 + digitVal i1)
                 (digitVal s0 * 10 + digitVal s1), (tsTail rest).2)
        else .error .invalidArgument
      else .error .invalidArgument
    else .error .invalidArgument := by
  unfold parseTimestamp tsTail
  simp only


theorem parseTimestamp_err (t : Bytes) :
    (∃ r, parseTimestamp t = .ok r) ∨ parseTimestamp t = .error .invalidArgument := by
  unfold parseTimestamp
  split
  · simp only
    repeat' split
    all_goals first | exact Or.inr rfl | exact Or.inl ⟨_, rfl⟩
  · exact Or.inr rfl

/-- a successful parse has looked at 19 non-NUL characters -/
theorem parseTimestamp_ok_prefix {t : Bytes} {r : Int × Bytes} (h : parseTimestamp t = .ok r) :
    ∃ p rest, t = p ++ rest ∧ p.length = 19 ∧ NoNul p := by
  unfold parseTimestamp at h
  split at h
  · rename_i y0 y1 y2 y3 c4 m0 m1 c7 d0 d1 c10 h0 h1 c13 i0 i1 c16 s0 s1 rest
    split at h
    · rename_i hc
      simp only [Bool.and_eq_true, beq_iff_eq] at hc
      refine ⟨[y0, y1, y2, y3, c4, m0, m1, c7, d0, d1, c10, h0, h1, c13, i0, i1, c16, s0, s1], rest, rfl, rfl, ?_⟩
      have e1 : cMinus ≠ 0 := by decide
      have e2 : cT ≠ 0 := by decide
      have e3 : cColon ≠ 0 := by decide
      intro b hb
      simp only [List.mem_cons, List.not_mem_nil, or_false] at hb
      obtain ⟨⟨⟨⟨⟨⟨⟨⟨⟨⟨⟨⟨⟨⟨⟨⟨⟨⟨a0, a1⟩, a2⟩, a3⟩, a4⟩, a5⟩, a6⟩, a7⟩, a8⟩, a9⟩, a10⟩, a11⟩, a12⟩, a13⟩, a14⟩, a15⟩, a16⟩, a17⟩, a18⟩ := hc
      rcases hb with rfl | rfl | rfl | rfl | rfl | rfl | rfl | rfl | rfl | rfl | rfl | rfl | rfl | rfl | rfl | rfl | rfl | rfl | rfl
      all_goals first | exact isDigit_ne_zero ‹_› | (subst_vars; assumption)
    · cases h
  · cases h


theorem exists_cons19 {s : Bytes} (h : 19 ≤ s.length) :
    ∃ (y0 y1 y2 y3 c4 m0 m1 c7 d0 d1 c10 h0 h1 c13 i0 i1 c16 s0 s1 : UInt8) (rest : Bytes), s = y0 :: y1 :: y2 :: y3 :: c4 :: m0 :: m1 :: c7 :: d0 :: d1 :: c10 :: h0 :: h1 :: c13 :: i0 :: i1 :: c16 :: s0 :: s1 :: rest := by
  rcases s with _ | ⟨y0, _ | ⟨y1, _ | ⟨y2, _ | ⟨y3, _ | ⟨c4, _ | ⟨m0, _ | ⟨m1, _ | ⟨c7, _ | ⟨d0, _ | ⟨d1, _ | ⟨c10, _ | ⟨h0, _ | ⟨h1, _ | ⟨c13, _ | ⟨i0, _ | ⟨i1, _ | ⟨c16, _ | ⟨s0, _ | ⟨s1, rest⟩⟩⟩⟩⟩⟩⟩⟩⟩⟩⟩⟩⟩⟩⟩⟩⟩⟩⟩
  all_goals first
    | exact ⟨_, _, _, _, _, _, _, _, _, _, _, _, _, _, _, _, _, _, _, _, rfl⟩
    | (exfalso; simp only [List.length_cons, List.length_nil] at h; omega)

theorem exists_cons10 {s : Bytes} (h : 10 ≤ s.length) :
    ∃ (y0 y1 y2 y3 c4 m0 m1 c7 d0 d1 : UInt8) (rest : Bytes), s = y0 :: y1 :: y2 :: y3 :: c4 :: m0 :: m1 :: c7 :: d0 :: d1 :: rest := by
  rcases s with _ | ⟨y0, _ | ⟨y1, _ | ⟨y2, _ | ⟨y3, _ | ⟨c4, _ | ⟨m0, _ | ⟨m1, _ | ⟨c7, _ | ⟨d0, _ | ⟨d1, rest⟩⟩⟩⟩⟩⟩⟩⟩⟩⟩
  all_goals first
    | exact ⟨_, _, _, _, _, _, _, _, _, _, _, rfl⟩
    | (exfalso; simp only [List.length_cons, List.length_nil] at h; omega)

theorem parseTimestamp_short {s : Bytes} (hl : ¬ 19 ≤ s.length) (hn : NoNul s) (junk : Bytes) :
    parseTimestamp s = .error .invalidArgument ∧
    parseTimestamp (s ++ behind junk) = .error .invalidArgument := by
  constructor
  · rcases parseTimestamp_err s with ⟨r, hr⟩ | h
    · obtain ⟨p, rest, rfl, hp, _⟩ := parseTimestamp_ok_prefix hr
      simp only [List.length_append] at hl; omega
    · exact h
  · rcases parseTimestamp_err (s ++ behind junk) with ⟨r, hr⟩ | h
    · exfalso
      obtain ⟨p, rest, he, hp, hnp⟩ := parseTimestamp_ok_prefix hr
      have h0 : (s ++ behind junk)[s.length]? = some 0 := by simp [behind]
      rw [he, List.getElem?_append_left (by omega)] at h0
      exact hnp 0 (List.mem_of_getElem? h0) rfl
    · exact h

theorem parseTimestamp_stops : StopsAtNul parseTimestamp := by
  intro s junk hn
  by_cases hl : 19 ≤ s.length
  · obtain ⟨y0, y1, y2, y3, c4, m0, m1, c7, d0, d1, c10, h0, h1, c13, i0, i1, c16, s0, s1, s, rfl⟩ := exists_cons19 hl
    simp only [List.cons_append]
    rw [parseTimestamp_long, parseTimestamp_long]
    have ht := tsTail_mem s junk
    split
    · by_cases hz : (tsTail s).1 = true
      · rw [ht.1, hz]
        simp only [if_true]
        rw [(ht.2 hz).1]
        split <;> rfl
      · rw [ht.1]
        simp only [hz, Bool.false_eq_true, if_false]
        rfl
    · rfl
  · obtain ⟨e1, e2⟩ := parseTimestamp_short hl hn junk
    rw [e1, e2]; rfl

/-- a successful parse has consumed at least 20 characters ("…Z" or a fraction) -/
theorem parseTimestamp_ok_len {s : Bytes} {r : Int × Bytes} (h : parseTimestamp s = .ok r) :
    20 ≤ s.length := by
  have hl : 19 ≤ s.length := by
    obtain ⟨p, rest, rfl, hp, _⟩ := parseTimestamp_ok_prefix h
    simp only [List.length_append]; omega
  obtain ⟨y0, y1, y2, y3, c4, m0, m1, c7, d0, d1, c10, h0, h1, c13, i0, i1, c16, s0, s1, s, rfl⟩ := exists_cons19 hl
  rw [parseTimestamp_long] at h
  split at h
  · split at h
    · rename_i hz
      have := ((tsTail_mem s []).2 hz).2
      cases s with
      | nil => exact absurd rfl this
      | cons a t => simp only [List.length_cons]; omega
    · cases h
  · cases h

theorem tsDateFields_mem {s : Bytes} (t : Bytes) (hl : 10 ≤ s.length) :
    tsDateFields (s ++ t) = tsDateFields s := by
  obtain ⟨y0, y1, y2, y3, c4, m0, m1, c7, d0, d1, s, rfl⟩ := exists_cons10 hl
  rfl

theorem parseTimestampV_stops (leapFix : Bool) : StopsAtNul (parseTimestampV leapFix) := by
  intro s junk hn
  unfold parseTimestampV
  rw [parseTimestamp_stops s junk hn]
  cases h : parseTimestamp s with
  | error e => rfl
  | ok r =>
    have hl := parseTimestamp_ok_len h
    obtain ⟨t, rest⟩ := r
    simp only [onMem]
    rw [tsDateFields_mem _ (by omega)]
    split <;> rfl

theorem timestampOfStringV_ignores (leapFix rangeFix : Bool) :
    IgnoresBehindNul (timestampOfStringV leapFix rangeFix) := by
  intro s junk hn
  unfold timestampOfStringV
  rw [parseTimestampV_stops leapFix s junk hn]
  cases parseTimestampV leapFix s with
  | error e => rfl
  | ok r => rfl

theorem timestampOfStringV_ok_len {leapFix rangeFix : Bool} {s : Bytes} {t : Nat}
    (h : timestampOfStringV leapFix rangeFix s = .ok t) : 20 ≤ s.length := by
  unfold timestampOfStringV parseTimestampV at h
  cases h' : parseTimestamp s with
  | error e => rw [h'] at h; cases h
  | ok r => exact parseTimestamp_ok_len h'

theorem oplParseTimestampV_stops (leapFix rangeFix : Bool) :
    StopsAtNul (oplParseTimestampV leapFix rangeFix) := by
  intro s junk hn
  unfold oplParseTimestampV
  rw [peek_mem, timestampOfStringV_ignores leapFix rangeFix s junk hn]
  split
  · rfl
  · cases h : timestampOfStringV leapFix rangeFix s with
    | error e => rfl
    | ok t =>
      have hl := timestampOfStringV_ok_len h
      simp only [onMem]
      rw [List.drop_append_of_le_length hl]

end Osmium.HostileText.Aux
