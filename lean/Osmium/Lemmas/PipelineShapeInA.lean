/-
Input side of the shape invariants, part A: case-split macro, list helpers (`chunks`, prefix lemma),
the shape predicate `RS` of the read thread, and the id invariant `invN` (even ids on the input
queue, freshness, `fut id = some v → v = want id` for input futures).
-/
import Osmium.Lemmas.PipelineShapeInDefs

set_option linter.unusedSimpArgs false
set_option linter.unusedVariables false

namespace Osmium.Pipeline.ShapeIn

open Osmium.Mon Osmium.Pipeline

variable {α : Type} [DecidableEq α]

/-- Case split of one pipeline step over all events with the QueueSM step unfolded. -/
syntax "si_cases " ident " with " ident : tactic
macro_rules
  | `(tactic| si_cases $e:ident with $h:ident) => `(tactic|
      ((try simp only [Machine.Step, machine] at $h:ident)
       cases $e:ident <;> (try (rename_i qe; cases qe)) <;>
         simp only [step?] at $h:ident <;> (repeat' split at $h:ident) <;>
         simp only [Option.map_eq_some_iff, Option.some.injEq, reduceCtorEq, false_and, exists_false] at $h:ident <;>
         first
           | (obtain ⟨q, hq, $h:ident⟩ := $h:ident
              simp only [QueueSM.step?] at hq
              (repeat' split at hq) <;> simp only [Option.some.injEq, reduceCtorEq] at hq <;> subst hq <;>
              (repeat' split at $h:ident) <;> subst $h:ident)
           | (subst $h:ident)))

/-! ## `afterPop` / `afterClose` touch only consumer fields -/
section fields
omit [DecidableEq α]
variable (s : State α) (lv : List (List α)) (k : CK)

@[simp] theorem afterPop_fut : (afterPop s lv).fut = s.fut := by
  unfold afterPop; split <;> (try split) <;> rfl
@[simp] theorem afterPop_want : (afterPop s lv).want = s.want := by
  unfold afterPop; split <;> (try split) <;> rfl
@[simp] theorem afterPop_nIn : (afterPop s lv).nIn = s.nIn := by
  unfold afterPop; split <;> (try split) <;> rfl
@[simp] theorem afterPop_nOut : (afterPop s lv).nOut = s.nOut := by
  unfold afterPop; split <;> (try split) <;> rfl
@[simp] theorem afterPop_rpc : (afterPop s lv).rpc = s.rpc := by
  unfold afterPop; split <;> (try split) <;> rfl
@[simp] theorem afterPop_ppc : (afterPop s lv).ppc = s.ppc := by
  unfold afterPop; split <;> (try split) <;> rfl
@[simp] theorem afterPop_stop : (afterPop s lv).stop = s.stop := by
  unfold afterPop; split <;> (try split) <;> rfl
@[simp] theorem afterPop_reads : (afterPop s lv).reads = s.reads := by
  unfold afterPop; split <;> (try split) <;> rfl
@[simp] theorem afterPop_avail : (afterPop s lv).avail = s.avail := by
  unfold afterPop; split <;> (try split) <;> rfl
@[simp] theorem afterPop_inputDone : (afterPop s lv).inputDone = s.inputDone := by
  unfold afterPop; split <;> (try split) <;> rfl
@[simp] theorem afterPop_work : (afterPop s lv).work = s.work := by
  unfold afterPop; split <;> (try split) <;> rfl
@[simp] theorem afterPop_wpc : (afterPop s lv).wpc = s.wpc := by
  unfold afterPop; split <;> (try split) <;> rfl

@[simp] theorem afterClose_fut : (afterClose s k).fut = s.fut := by cases k <;> rfl
@[simp] theorem afterClose_want : (afterClose s k).want = s.want := by cases k <;> rfl
@[simp] theorem afterClose_nIn : (afterClose s k).nIn = s.nIn := by cases k <;> rfl
@[simp] theorem afterClose_nOut : (afterClose s k).nOut = s.nOut := by cases k <;> rfl
@[simp] theorem afterClose_rpc : (afterClose s k).rpc = s.rpc := by cases k <;> rfl
@[simp] theorem afterClose_ppc : (afterClose s k).ppc = s.ppc := by cases k <;> rfl
@[simp] theorem afterClose_stop : (afterClose s k).stop = s.stop := by cases k <;> rfl
@[simp] theorem afterClose_reads : (afterClose s k).reads = s.reads := by cases k <;> rfl
@[simp] theorem afterClose_avail : (afterClose s k).avail = s.avail := by cases k <;> rfl
@[simp] theorem afterClose_inputDone : (afterClose s k).inputDone = s.inputDone := by cases k <;> rfl
@[simp] theorem afterClose_work : (afterClose s k).work = s.work := by cases k <;> rfl
@[simp] theorem afterClose_wpc : (afterClose s k).wpc = s.wpc := by cases k <;> rfl

end fields

/-! ## continuations -/
section conts
omit [DecidableEq α]

@[simp] theorem pCont_pushFut (k : PK) (id : Nat) (k' : PK) : (pCont k : PPc α) = .pushFut id k' ↔ False := by
  cases k <;> simp [pCont]
@[simp] theorem pCont_pushing (k : PK) (id : Nat) (ov : Option (Val α)) (k' : PK) :
    (pCont k : PPc α) = .pushing id ov k' ↔ False := by
  cases k <;> simp [pCont]
@[simp] theorem pCont_pushed (k : PK) (id : Nat) (v : Val α) (k' : PK) : (pCont k : PPc α) = .pushed id v k' ↔ False := by
  cases k <;> simp [pCont]
@[simp] theorem pCont_got (k : PK) (id : Nat) : (pCont k : PPc α) = .got id ↔ False := by
  cases k <;> simp [pCont]
@[simp] theorem pCont_popWait (k : PK) : (pCont k : PPc α) = .popWait ↔ False := by
  cases k <;> simp [pCont]
@[simp] theorem pCont_sdInRun (k k' : PK) : (pCont k : PPc α) = .sdInRun k' ↔ False := by
  cases k <;> simp [pCont]
@[simp] theorem pCont_sdIn_run (k : PK) : (pCont k : PPc α) = .sdIn .run ↔ False := by
  cases k <;> simp [pCont]
@[simp] theorem rCont_pushing (k : RK) (id : Nat) (v : Val α) (k' : RK) : (rCont k : RPc α) = .pushing id v k' ↔ False := by
  cases k <;> simp [rCont]
@[simp] theorem rCont_pushed (k : RK) (id : Nat) (v : Val α) (k' : RK) : (rCont k : RPc α) = .pushed id v k' ↔ False := by
  cases k <;> simp [rCont]

end conts

/-! ## chunk lists -/
section lists
omit [DecidableEq α]

/-- `chunk a, chunk (a+1), …, chunk (a+n-1)` -/
def chF : Nat → Nat → List (Val α)
  | _, 0 => []
  | a, n + 1 => .chunk a :: chF (a + 1) n

/-- `chunk 0 … chunk (k-1)` -/
def chunks (k : Nat) : List (Val α) := chF 0 k

theorem chF_snoc (a n : Nat) : (chF a (n + 1) : List (Val α)) = chF a n ++ [.chunk (a + n)] := by
  induction n generalizing a with
  | zero => simp [chF]
  | succ n ih =>
    rw [chF, ih (a + 1)]
    simp only [chF, List.cons_append]
    have : a + 1 + n = a + (n + 1) := by omega
    rw [this]

theorem chunks_succ (k : Nat) : (chunks (k + 1) : List (Val α)) = chunks k ++ [.chunk k] := by
  unfold chunks; rw [chF_snoc]; simp

@[simp] theorem chunks_zero : (chunks 0 : List (Val α)) = [] := rfl

theorem mem_chF (a n : Nat) (x : Val α) (h : x ∈ chF a n) : ∃ i, x = .chunk i ∧ i < a + n := by
  induction n generalizing a with
  | zero => simp [chF] at h
  | succ n ih =>
    simp only [chF, List.mem_cons] at h
    rcases h with h | h
    · exact ⟨a, h, by omega⟩
    · obtain ⟨i, hi, hl⟩ := ih (a + 1) h
      exact ⟨i, hi, by omega⟩

theorem mem_chunks (k : Nat) (x : Val α) (h : x ∈ chunks k) : ∃ i, x = .chunk i ∧ i < k := by
  obtain ⟨i, hi, hl⟩ := mem_chF 0 k x h
  exact ⟨i, hi, by omega⟩

/-- a list is chunk-free -/
def noChunk (l : List (Val α)) : Prop := ∀ x ∈ l, ∀ i, x ≠ .chunk i

theorem chF_prefix (a j k : Nat) (v : Val α) (tail : List (Val α)) (ht : noChunk tail)
    (h : chF a j ++ [v] <+: chF a k ++ tail) :
    (j < k ∧ v = .chunk (a + j)) ∨ (j = k ∧ tail.head? = some v) := by
  induction j generalizing a k with
  | zero =>
    cases k with
    | zero =>
      right
      refine ⟨rfl, ?_⟩
      simp only [chF, List.nil_append] at h
      obtain ⟨t, ht2⟩ := h
      subst ht2; rfl
    | succ k =>
      left
      simp only [chF, List.nil_append, List.cons_append] at h
      obtain ⟨t, ht2⟩ := h
      simp only [List.cons_append, List.cons.injEq] at ht2
      exact ⟨by omega, by simpa using ht2.1⟩
  | succ j ih =>
    cases k with
    | zero =>
      exfalso
      simp only [chF, List.nil_append, List.cons_append] at h
      obtain ⟨t, ht2⟩ := h
      subst ht2
      exact ht (.chunk a) (by simp) a rfl
    | succ k =>
      simp only [chF, List.cons_append] at h
      have h2 : chF (a + 1) j ++ [v] <+: chF (a + 1) k ++ tail := by
        obtain ⟨t, ht2⟩ := h
        simp only [List.cons_append, List.cons.injEq, true_and] at ht2
        exact ⟨t, ht2⟩
      rcases ih (a + 1) k h2 with ⟨h3, h4⟩ | ⟨h3, h4⟩
      · left; exact ⟨by omega, by rw [h4]; congr 1; omega⟩
      · right; exact ⟨by omega, h4⟩

theorem chunks_prefix (j k : Nat) (v : Val α) (tail : List (Val α)) (ht : noChunk tail)
    (h : chunks j ++ [v] <+: chunks k ++ tail) :
    (j < k ∧ v = .chunk j) ∨ (j = k ∧ tail.head? = some v) := by
  have := chF_prefix 0 j k v tail ht h
  simpa using this

/-- values of the futures of a list of queue items -/
def wmap (w : Nat → Val α) (l : List (QueueSM.Item Nat)) : List (Val α) := l.map (fun x => w x.2)

@[simp] theorem wmap_nil (w : Nat → Val α) : wmap w [] = [] := rfl
@[simp] theorem wmap_append (w : Nat → Val α) (a b : List (QueueSM.Item Nat)) :
    wmap w (a ++ b) = wmap w a ++ wmap w b := by simp [wmap]
@[simp] theorem wmap_single (w : Nat → Val α) (x : QueueSM.Item Nat) : wmap w [x] = [w x.2] := rfl

theorem wmap_setPc (w : Nat → Val α) (id : Nat) (v : Val α) (l : List (QueueSM.Item Nat))
    (h : ∀ x ∈ l, x.2 ≠ id) : wmap (setPc w id v) l = wmap w l := by
  unfold wmap
  apply List.map_congr_left
  intro x hx
  exact setPc_other _ _ _ _ (h x hx)

theorem wmap_prefix (w : Nat → Val α) (a b : List (QueueSM.Item Nat)) (h : a <+: b) : wmap w a <+: wmap w b := by
  obtain ⟨t, rfl⟩ := h
  simp

/-- the values of the futures handed to push() on the input queue, in call order -/
def inW (s : State α) : List (Val α) := wmap s.want s.inq.called

/-- the parser's position: number of objects available after `j` chunks -/
def availOf (c : Cfg α) (j : Nat) : Nat := if j = 0 then 0 else nth c.chunkEnd (j - 1)

end lists

/-! ## ids -/

/-- the future id the parser thread is about to push / is pushing / has pushed -/
def pId : PPc α → Option Nat
  | .pushFut id _ | .pushing id _ _ | .pushed id _ _ => some id
  | _ => none

omit [DecidableEq α] in
@[simp] theorem pId_pCont (k : PK) : pId (pCont k : PPc α) = none := by cases k <;> rfl

end Osmium.Pipeline.ShapeIn
