/-
Line level of `opl_decode_spec` (C02), part 3: nodes, ways, relations.

The local variables of `opl_parse_node/way/relation` as ten independent slots, every attribute of the
specification renderer as an `FSpec` that is `Good` for `objField`, the canonical attribute lists
(= `OplSpec.metaFields` / `locFields` / the `N` and `M` sections), and the assembly with
`Sys.run`: `renderLine_node`, `renderLine_way`, `renderLine_relation`.
-/
import Osmium.Lemmas.OplSpecLine2

namespace Osmium.OplFmt
open Osmium.Osm Osmium.TextFmt Osmium.Conv Osmium.Utf8
open Osmium.Conv.IntLemmas (NoDigitHead)

/-! ### the `objField` cases that look at what follows, for `Sep'` -/

theorem objField_T_empty' (k : Kind) (st : ObjSt) (hst : st.hasTags = false) (rest : Bytes) (hr : Sep' rest) :
    objField k st 0x54 rest = .ok ({ st with hasTags := true }, rest) := by
  simp [objField, hst, hr.notNonEmpty]

theorem objField_T' (k : Kind) (st : ObjSt) (hst : st.hasTags = false) (sec rest : Bytes) (hne : sec ≠ []) (hs : AllNE sec)
    (hr : Sep' rest) :
    objField k st 0x54 (sec ++ rest) = .ok ({ st with hasTags := true, tagsBegin := some (sec ++ rest) }, rest) := by
  simp [objField, hst, peek_append_ne hne hs, skipSection_append' hs hr]

theorem objField_x_empty' (st : ObjSt) (hst : st.hasLon = false) (rest : Bytes) (hr : Sep' rest) :
    objField .node st 0x78 rest = .ok ({ st with hasLon := true }, rest) := by
  simp [objField, hst, hr.notNonEmpty]

theorem objField_y_empty' (st : ObjSt) (hst : st.hasLat = false) (rest : Bytes) (hr : Sep' rest) :
    objField .node st 0x79 rest = .ok ({ st with hasLat := true }, rest) := by
  simp [objField, hst, hr.notNonEmpty]

theorem objField_x' (ch : OplSpec.Choices) (st : ObjSt) (hst : st.hasLon = false) (v : Int) (h1 : int32Min ≤ v)
    (h2 : v ≤ int32Max) (rest : Bytes) (hr : Sep' rest) :
    objField .node st 0x78 (OplSpec.coord ch v ++ rest) = .ok ({ st with hasLon := true, x := v }, rest) := by
  obtain ⟨⟨hne, hn⟩, hp⟩ := specCoord_pCoord ch v h1 h2
  simp [objField, hst, peek_append_ne hne (AllNE_of_num hn), hp rest hr.terminates]

theorem objField_y' (ch : OplSpec.Choices) (st : ObjSt) (hst : st.hasLat = false) (v : Int) (h1 : int32Min ≤ v)
    (h2 : v ≤ int32Max) (rest : Bytes) (hr : Sep' rest) :
    objField .node st 0x79 (OplSpec.coord ch v ++ rest) = .ok ({ st with hasLat := true, y := v }, rest) := by
  obtain ⟨⟨hne, hn⟩, hp⟩ := specCoord_pCoord ch v h1 h2
  simp [objField, hst, peek_append_ne hne (AllNE_of_num hn), hp rest hr.terminates]

theorem objField_N' (st : ObjSt) (hst : st.sec = none) (sec rest : Bytes) (hs : AllNE sec) (hr : Sep' rest) :
    objField .way st 0x4e (sec ++ rest) = .ok ({ st with sec := some sec }, rest) := by
  simp [objField, hst, sectionOf_append' hs hr, skipSection_append' hs hr]

theorem objField_M' (st : ObjSt) (hst : st.sec = none) (sec rest : Bytes) (hs : AllNE sec) (hr : Sep' rest) :
    objField .relation st 0x4d (sec ++ rest) = .ok ({ st with sec := some sec }, rest) := by
  simp [objField, hst, sectionOf_append' hs hr, skipSection_append' hs hr]

/-! ### slots -/

inductive OSlot | ver | vis | cs | ts | uid | user | tags | x | y | sec
  deriving DecidableEq

def oContent : OSlot → ObjSt → ObjSt
  | .ver, st => { version := st.version }
  | .vis, st => { visible := st.visible }
  | .cs, st => { changeset := st.changeset }
  | .ts, st => { timestamp := st.timestamp }
  | .uid, st => { uid := st.uid }
  | .user, st => { user := st.user }
  | .tags, st => { hasTags := st.hasTags, tagsBegin := st.tagsBegin }
  | .x, st => { hasLon := st.hasLon, x := st.x }
  | .y, st => { hasLat := st.hasLat, y := st.y }
  | .sec, st => { sec := st.sec }

def oSys (k : Kind) : Sys ObjSt OSlot := ⟨objField k, oContent, {}⟩

/-! ### the attributes -/

def fVer (v : Nat) : FSpec ObjSt OSlot := ⟨.ver, 0x76, OplSpec.int v, fun c => c.version = some v⟩
def fVis (b : Bool) : FSpec ObjSt OSlot := ⟨.vis, 0x64, [if b then 0x56 else 0x44], fun c => c.visible = some b⟩
def fCs (v : Nat) : FSpec ObjSt OSlot := ⟨.cs, 0x63, OplSpec.int v, fun c => c.changeset = some v⟩
def fTs (v : Nat) : FSpec ObjSt OSlot := ⟨.ts, 0x74, toIso v, fun c => c.timestamp = some v⟩
def fUid (v : Nat) : FSpec ObjSt OSlot := ⟨.uid, 0x69, OplSpec.int v, fun c => c.uid = some v⟩
def fUser (ch : OplSpec.Choices) (u : Bytes) : FSpec ObjSt OSlot := ⟨.user, 0x75, OplSpec.str ch u, fun c => c.user = some u⟩
def fTags (ch : OplSpec.Choices) (ts : List Tag) : FSpec ObjSt OSlot :=
  ⟨.tags, 0x54, OplSpec.tagsBody ch ts, fun c => finishTags c.tagsBegin = .ok ts⟩
def fX (ch : OplSpec.Choices) (l : Location) : FSpec ObjSt OSlot :=
  ⟨.x, 0x78, if isUndefined l then [] else OplSpec.coord ch l.x, fun c => c.x = l.x⟩
def fY (ch : OplSpec.Choices) (l : Location) : FSpec ObjSt OSlot :=
  ⟨.y, 0x79, if isUndefined l then [] else OplSpec.coord ch l.y, fun c => c.y = l.y⟩
def fNodes (ch : OplSpec.Choices) (ns : List NodeRef) : FSpec ObjSt OSlot :=
  ⟨.sec, 0x4e, joinSep 0x2c (ns.map (OplSpec.refBody ch)), fun c => c.sec = some (joinSep 0x2c (ns.map (OplSpec.refBody ch)))⟩
def fMembers (ch : OplSpec.Choices) (ms : List Member) : FSpec ObjSt OSlot :=
  ⟨.sec, 0x4d, joinSep 0x2c (ms.map (memberBody ch)), fun c => c.sec = some (joinSep 0x2c (ms.map (memberBody ch)))⟩

/-- closed facts about the attribute letter -/
macro "fs_dec" : tactic =>
  `(tactic| first
    | (simp only [fVer, fVis, fCs, fTs, fUid, fUser, fTags, fX, fY, fNodes, fMembers]; decide)
    | decide)

theorem clean_cons {c : UInt8} {s : Bytes} (hc : CleanB c) (hs : ∀ b ∈ s, CleanB b) : ∀ b ∈ c :: s, CleanB b := by
  intro b hb
  rcases List.mem_cons.1 hb with rfl | hb
  · exact hc
  · exact hs b hb

theorem good_ver (k : Kind) (v : Nat) (hv : v < 2147483648) : (oSys k).Good (fVer v) := by
  obtain ⟨_, hn, hp⟩ := int_pU32 v (by omega)
  refine Sys.Good.of_eff _ _ (fun _ st => { st with version := some v }) (by fs_dec) ?_ ?_
    (clean_cons (by fs_dec) (clean_of_AllNE_num hn))
  · intro st rest hu hr
    have h0 : st.version = none := congrArg ObjSt.version hu
    exact ⟨objField_v k st h0 v hv _ rest (hp rest hr.noDigit), rfl⟩
  · intro _ s st hs; cases s <;> first | rfl | exact absurd rfl hs

theorem good_vis (k : Kind) (b : Bool) : (oSys k).Good (fVis b) := by
  refine Sys.Good.of_eff _ _ (fun _ st => { st with visible := some b }) (by fs_dec) ?_ ?_
    (clean_cons (by fs_dec) (by cases b <;> (intro x hx; simp [fVis] at hx; subst hx; decide)))
  · intro st rest hu hr
    have h0 : st.visible = none := congrArg ObjSt.visible hu
    exact ⟨objField_d k st h0 b rest, rfl⟩
  · intro _ s st hs; cases s <;> first | rfl | exact absurd rfl hs

theorem good_cs (k : Kind) (v : Nat) (hv : v ≤ 4294967295) : (oSys k).Good (fCs v) := by
  obtain ⟨_, hn, hp⟩ := int_pU32 v hv
  refine Sys.Good.of_eff _ _ (fun _ st => { st with changeset := some v }) (by fs_dec) ?_ ?_
    (clean_cons (by fs_dec) (clean_of_AllNE_num hn))
  · intro st rest hu hr
    have h0 : st.changeset = none := congrArg ObjSt.changeset hu
    exact ⟨objField_c k st h0 v _ rest (hp rest hr.noDigit), rfl⟩
  · intro _ s st hs; cases s <;> first | rfl | exact absurd rfl hs

theorem good_ts (k : Kind) (v : Nat) (hv : v < 4294967296) : (oSys k).Good (fTs v) := by
  refine Sys.Good.of_eff _ _ (fun _ st => { st with timestamp := some v }) (by fs_dec) ?_ ?_
    (clean_cons (by fs_dec) (toIso_clean v))
  · intro st rest hu hr
    have h0 : st.timestamp = none := congrArg ObjSt.timestamp hu
    exact ⟨objField_t k st h0 v _ rest (toIso_pTs' v hv rest hr), rfl⟩
  · intro _ s st hs; cases s <;> first | rfl | exact absurd rfl hs

theorem good_uid (k : Kind) (v : Nat) (hv : v ≤ 4294967295) : (oSys k).Good (fUid v) := by
  obtain ⟨_, hn, hp⟩ := int_pU32 v hv
  refine Sys.Good.of_eff _ _ (fun _ st => { st with uid := some v }) (by fs_dec) ?_ ?_
    (clean_cons (by fs_dec) (clean_of_AllNE_num hn))
  · intro st rest hu hr
    have h0 : st.uid = none := congrArg ObjSt.uid hu
    exact ⟨objField_i k st h0 v _ rest (hp rest hr.noDigit), rfl⟩
  · intro _ s st hs; cases s <;> first | rfl | exact absurd rfl hs

theorem good_user (k : Kind) (ch : OplSpec.Choices) (u : Bytes) (hu : strOK 0x110000 u = true) :
    (oSys k).Good (fUser ch u) := by
  obtain ⟨hn, hp⟩ := specStr_pStr ch u hu
  refine Sys.Good.of_eff _ _ (fun _ st => { st with user := some u }) (by fs_dec) ?_ ?_
    (clean_cons (by fs_dec) (clean_of_noStructural hn))
  · intro st rest hus hr
    have h0 : st.user = none := congrArg ObjSt.user hus
    exact ⟨objField_u k st h0 u _ rest (hp rest hr.atStop), rfl⟩
  · intro _ s st hs; cases s <;> first | rfl | exact absurd rfl hs

theorem good_tags (k : Kind) (ch : OplSpec.Choices) (ts : List Tag) (hts : ∀ t ∈ ts, TagOK t) :
    (oSys k).Good (fTags ch ts) := by
  obtain ⟨hne, hcl, hnn, hlen, hp⟩ := tagsBody_spec ch ts hts
  refine Sys.Good.of_eff _ _
    (fun rest st => if ts = [] then { st with hasTags := true }
      else { st with hasTags := true, tagsBegin := some (OplSpec.tagsBody ch ts ++ rest) }) (by fs_dec) ?_ ?_
    (clean_cons (by fs_dec) hcl)
  · intro st rest hu hr
    have h0 : st.hasTags = false := congrArg ObjSt.hasTags hu
    have h1 : st.tagsBegin = none := congrArg ObjSt.tagsBegin hu
    by_cases ht : ts = []
    · subst ht
      simp only [if_true]
      refine ⟨objField_T_empty' k st h0 rest hr, ?_⟩
      show finishTags st.tagsBegin = .ok []
      rw [h1]; rfl
    · simp only [ht, if_false]
      refine ⟨objField_T' k st h0 _ rest (hnn ht) hne hr, ?_⟩
      show finishTags (some (OplSpec.tagsBody ch ts ++ rest)) = .ok ts
      simp only [finishTags]
      exact hp rest hr _ (by simp only [List.length_append]; omega) ht
  · intro rest s st hs
    by_cases ht : ts = []
    · simp only [ht, if_true]; cases s <;> first | rfl | exact absurd rfl hs
    · simp only [ht, if_false]; cases s <;> first | rfl | exact absurd rfl hs

theorem isUndefined_eq {l : Location} (h : isUndefined l = true) : l = Location.undefined := by
  cases l
  simp only [isUndefined, Bool.and_eq_true, beq_iff_eq] at h
  simp [Location.undefined, Location.undefinedCoordinate, h.1, h.2] at h ⊢

theorem LocOK.range {l : Location} (h : LocOK l) (hu : isUndefined l = false) :
    int32Min ≤ l.x ∧ l.x ≤ int32Max ∧ int32Min ≤ l.y ∧ l.y ≤ int32Max := by
  rcases h with rfl | hv
  · exact absurd hu (by fs_dec)
  · obtain ⟨h1, h2, h3, h4, _, _⟩ := valid_range hv
    exact ⟨h1, h2, h3, h4⟩

theorem coord_clean (ch : OplSpec.Choices) (v : Int) (h1 : int32Min ≤ v) (h2 : v ≤ int32Max) :
    ∀ b ∈ OplSpec.coord ch v, CleanB b :=
  clean_of_AllNE_num (specCoord_pCoord ch v h1 h2).1.2

theorem good_x (ch : OplSpec.Choices) (l : Location) (hl : LocOK l) : (oSys .node).Good (fX ch l) := by
  refine Sys.Good.of_eff _ _ (fun _ st => { st with hasLon := true, x := l.x }) (by fs_dec) ?_ ?_ ?_
  · intro st rest hu hr
    have h0 : st.hasLon = false := congrArg ObjSt.hasLon hu
    have h1 : st.x = Location.undefinedCoordinate := congrArg ObjSt.x hu
    refine ⟨?_, rfl⟩
    cases hiu : isUndefined l
    · obtain ⟨r1, r2, _, _⟩ := hl.range hiu
      simp only [fX, hiu, Bool.false_eq_true, if_false]
      exact objField_x' ch st h0 l.x r1 r2 rest hr
    · have hx : l.x = st.x := by rw [isUndefined_eq hiu, h1]; rfl
      simp only [fX, hiu, if_true, List.nil_append]
      show objField .node st 0x78 rest = _
      rw [objField_x_empty' st h0 rest hr, hx]
  · intro _ s st hs; cases s <;> first | rfl | exact absurd rfl hs
  · cases hiu : isUndefined l
    · obtain ⟨r1, r2, _, _⟩ := hl.range hiu
      simp only [FSpec.bytes, fX, hiu, Bool.false_eq_true, if_false]
      exact clean_cons (by fs_dec) (coord_clean ch _ r1 r2)
    · simp only [FSpec.bytes, fX, hiu, if_true]
      exact clean_cons (by fs_dec) (fun b hb => by cases hb)

theorem good_y (ch : OplSpec.Choices) (l : Location) (hl : LocOK l) : (oSys .node).Good (fY ch l) := by
  refine Sys.Good.of_eff _ _ (fun _ st => { st with hasLat := true, y := l.y }) (by fs_dec) ?_ ?_ ?_
  · intro st rest hu hr
    have h0 : st.hasLat = false := congrArg ObjSt.hasLat hu
    have h1 : st.y = Location.undefinedCoordinate := congrArg ObjSt.y hu
    refine ⟨?_, rfl⟩
    cases hiu : isUndefined l
    · obtain ⟨_, _, r1, r2⟩ := hl.range hiu
      simp only [fY, hiu, Bool.false_eq_true, if_false]
      exact objField_y' ch st h0 l.y r1 r2 rest hr
    · have hx : l.y = st.y := by rw [isUndefined_eq hiu, h1]; rfl
      simp only [fY, hiu, if_true, List.nil_append]
      show objField .node st 0x79 rest = _
      rw [objField_y_empty' st h0 rest hr, hx]
  · intro _ s st hs; cases s <;> first | rfl | exact absurd rfl hs
  · cases hiu : isUndefined l
    · obtain ⟨_, _, r1, r2⟩ := hl.range hiu
      simp only [FSpec.bytes, fY, hiu, Bool.false_eq_true, if_false]
      exact clean_cons (by fs_dec) (coord_clean ch _ r1 r2)
    · simp only [FSpec.bytes, fY, hiu, if_true]
      exact clean_cons (by fs_dec) (fun b hb => by cases hb)

theorem good_nodes (ch : OplSpec.Choices) (ns : List NodeRef) (hns : ∀ n ∈ ns, RefOK n) :
    (oSys .way).Good (fNodes ch ns) := by
  obtain ⟨hne, hcl, _⟩ := nodesBody_spec ch ns hns
  refine Sys.Good.of_eff _ _ (fun _ st => { st with sec := some (joinSep 0x2c (ns.map (OplSpec.refBody ch))) })
    (by fs_dec) ?_ ?_ (clean_cons (by fs_dec) hcl)
  · intro st rest hu hr
    have h0 : st.sec = none := congrArg ObjSt.sec hu
    exact ⟨objField_N' st h0 _ rest hne hr, rfl⟩
  · intro _ s st hs; cases s <;> first | rfl | exact absurd rfl hs

theorem good_members (ch : OplSpec.Choices) (ms : List Member) (hms : ∀ x ∈ ms, MemberOK x) :
    (oSys .relation).Good (fMembers ch ms) := by
  obtain ⟨hne, hcl, _⟩ := membersBody_spec ch ms hms
  refine Sys.Good.of_eff _ _ (fun _ st => { st with sec := some (joinSep 0x2c (ms.map (memberBody ch))) })
    (by fs_dec) ?_ ?_ (clean_cons (by fs_dec) hcl)
  · intro st rest hu hr
    have h0 : st.sec = none := congrArg ObjSt.sec hu
    exact ⟨objField_M' st h0 _ rest hne hr, rfl⟩
  · intro _ s st hs; cases s <;> first | rfl | exact absurd rfl hs

/-! ### the metadata attributes -/

/-- `OplSpec.metaFields` with the parser-side meaning of every attribute -/
def cfMeta (ch : OplSpec.Choices) (m : Meta) : List (Bool × FSpec ObjSt OSlot) :=
  [(m.version == 0, fVer m.version), (m.visible, fVis m.visible), (m.changeset == 0, fCs m.changeset),
   (m.timestamp == 0, fTs m.timestamp), (m.uid == 0, fUid m.uid), (m.user.isEmpty, fUser ch m.user),
   (m.tags.isEmpty, fTags ch m.tags)]

theorem cfMeta_bytes (ch : OplSpec.Choices) (m : Meta) :
    (cfMeta ch m).map (fun p => (p.1, p.2.bytes)) = OplSpec.metaFields ch m := rfl

theorem cfMeta_good (k : Kind) (ch : OplSpec.Choices) (m : Meta) (hm : MetaOK m) :
    ∀ p ∈ cfMeta ch m, (oSys k).Good p.2 := by
  intro p hp
  simp only [cfMeta, List.mem_cons, List.not_mem_nil, or_false] at hp
  rcases hp with rfl | rfl | rfl | rfl | rfl | rfl | rfl
  · exact good_ver k _ hm.ver
  · exact good_vis k _
  · exact good_cs k _ hm.cs
  · exact good_ts k _ hm.ts
  · exact good_uid k _ (by have := hm.uid; omega)
  · exact good_user k ch _ hm.user
  · exact good_tags k ch _ hm.tags

/-- what the slot-wise description of the final state says about the metadata -/
theorem meta_final (ch : OplSpec.Choices) (m : Meta) (fin : ObjSt)
    (h : ∀ p ∈ cfMeta ch m, p.2.post (oContent p.2.slot fin) ∨ (p.1 = true ∧ oContent p.2.slot fin = oContent p.2.slot {})) :
    finishTags fin.tagsBegin = .ok m.tags ∧ metaOf m.id fin m.tags = m := by
  have hver : fin.version.getD 0 = m.version := by
    rcases h (m.version == 0, fVer m.version) (by simp [cfMeta]) with h | ⟨hd, h⟩
    · have h : fin.version = some m.version := h
      simp [h]
    · have h : fin.version = none := congrArg ObjSt.version h
      have hd : m.version = 0 := by simpa using hd
      simp [h, hd]
  have hvis : fin.visible.getD true = m.visible := by
    rcases h (m.visible, fVis m.visible) (by simp [cfMeta]) with h | ⟨hd, h⟩
    · have h : fin.visible = some m.visible := h
      simp [h]
    · have h : fin.visible = none := congrArg ObjSt.visible h
      have hd : m.visible = true := hd
      simp [h, hd]
  have hcs : fin.changeset.getD 0 = m.changeset := by
    rcases h (m.changeset == 0, fCs m.changeset) (by simp [cfMeta]) with h | ⟨hd, h⟩
    · have h : fin.changeset = some m.changeset := h
      simp [h]
    · have h : fin.changeset = none := congrArg ObjSt.changeset h
      have hd : m.changeset = 0 := by simpa using hd
      simp [h, hd]
  have hts : fin.timestamp.getD 0 = m.timestamp := by
    rcases h (m.timestamp == 0, fTs m.timestamp) (by simp [cfMeta]) with h | ⟨hd, h⟩
    · have h : fin.timestamp = some m.timestamp := h
      simp [h]
    · have h : fin.timestamp = none := congrArg ObjSt.timestamp h
      have hd : m.timestamp = 0 := by simpa using hd
      simp [h, hd]
  have huid : fin.uid.getD 0 = m.uid := by
    rcases h (m.uid == 0, fUid m.uid) (by simp [cfMeta]) with h | ⟨hd, h⟩
    · have h : fin.uid = some m.uid := h
      simp [h]
    · have h : fin.uid = none := congrArg ObjSt.uid h
      have hd : m.uid = 0 := by simpa using hd
      simp [h, hd]
  have huser : fin.user.getD [] = m.user := by
    rcases h (m.user.isEmpty, fUser ch m.user) (by simp [cfMeta]) with h | ⟨hd, h⟩
    · have h : fin.user = some m.user := h
      simp [h]
    · have h : fin.user = none := congrArg ObjSt.user h
      have hd : m.user = [] := by simpa using hd
      simp [h, hd]
  have htags : finishTags fin.tagsBegin = .ok m.tags := by
    rcases h (m.tags.isEmpty, fTags ch m.tags) (by simp [cfMeta]) with h | ⟨hd, h⟩
    · exact h
    · have h : fin.tagsBegin = none := congrArg ObjSt.tagsBegin h
      have hd : m.tags = [] := by simpa using hd
      rw [h, hd]; rfl
  refine ⟨htags, ?_⟩
  cases m
  simp only [metaOf] at *
  simp [hver, hvis, hcs, hts, huid, huser]

theorem projectMeta_all (m : Meta) : projectMeta { locationsOnWays := true } m = m := by
  cases m; rfl

end Osmium.OplFmt
