/-
`src_tie_*` lemmas for `osmium::detail::string_to_location_coordinate` (osm/location.hpp), TRANSLATED by
tools/cxx2lean.py into `Osmium.Generated.Src.Location.string_to_location_coordinate` (+ its six loops), against
the hand-written model `Conv.parseCoord Variant.now` (Osmium/Model/Conv.lean) that the C13 theorems are about.
The byte array is `s ++ 0 :: t`, the cursor `i ≤ s.length` is the model's suffix `s.drop i` (Lemmas/Cursor.lean).
Every lemma here mentions generated definitions and is re-checked whenever the source changes.

Proof style (so that harmless rewrites of the source leave the proofs alone): the generated conditions are never
matched syntactically — `split` on the generated `if`, `cond_norm` turns the Bool condition into linear
arithmetic, `omega` relates it to the model's test; arguments of recursive calls are compared by `congr` + `omega`;
the conjuncts of a `_defined` goal are split by `and_intros` and closed one by one (`defined_goals`).
-/
import Osmium.Generated.Src
import Osmium.Lemmas.Cursor
import Osmium.Lemmas.ConvMul

set_option Elab.async false
set_option linter.unusedSimpArgs false

namespace Osmium.SrcTie.Coord

open Osmium.Generated Osmium.CxxSem Osmium.Conv Osmium.Cursor
open Src.Location

/-- normal form of the index after `++str` -/
theorem idx_succ (i : Nat) : (i : Int) + 1 = ((i + 1 : Nat) : Int) := by omega

/-- Bool conditions of the generated code → linear arithmetic -/
macro "cond_norm" " at " h:ident : tactic =>
  `(tactic| simp only [Bool.and_eq_true, Bool.or_eq_true, Bool.not_eq_true, Bool.and_eq_false_iff, Bool.or_eq_false_iff,
      Bool.not_eq_true', Bool.not_eq_false', Bool.not_not, Bool.not_and, Bool.not_or,
      ge_iff, le_iff, gt_iff, lt_iff, eq_iff, ne_iff, ge_false, le_false, gt_false, lt_false, CxxSem.eq_false', ne_false, not_and, not_or,
      Bool.not_eq_false, Int.not_lt, Int.not_le, ne_eq] at $h:ident)

/-- the generated condition (just `split` on) contradicts the model's test: `exfalso` first — on an equation between
    `Outcome`s `omega` would argue by contradiction through the derived `DecidableEq` instance (deep kernel recursion) -/
macro "cond_absurd" : tactic => `(tactic| (rename_i hc; cond_norm at hc; exfalso; omega))

/-- a `_defined` goal → its conjuncts, each an (in)equality or a Bool atom `= true` -/
macro "defined_split" : tactic =>
  `(tactic| (simp only [Bool.and_eq_true, Bool.or_eq_true, Bool.not_eq_true', Bool.true_and, Bool.and_true, Bool.or_true, Bool.true_or,
      inS64_iff, inS32_iff, ge_iff, le_iff, gt_iff, lt_iff, eq_iff, ne_iff, ge_false, le_false, gt_false, lt_false, CxxSem.eq_false', ne_false,
      decide_eq_true_eq, ne_eq, and_true, true_and, or_true, true_or]
             try and_intros))

/-- the digit loops (`while (*str >= '0' && *str <= '9' && n > 0) { acc = acc * 10 + (*str - '0'); ++str; --n; }`):
    result of the model's `digitsLoop` with the end position as an index, and the bounds the definedness needs -/
structure DigitsRun (s : List UInt8) (n acc i : Nat) (j r m : Nat) : Prop where
  model : digitsLoop n acc (s.drop i) = (r, m, s.drop j)
  le : i ≤ j
  len : j ≤ s.length
  cnt : j + m = i + n
  bound : (r + 1) * 10 ^ m ≤ (acc + 1) * 10 ^ n

set_option hygiene false in
/-- one proof for the three translated digit loops (they differ in the order of their variables and of the
    conjuncts of their conditions) -/
macro "digits_loop_tie" s:ident t:ident lp:ident ld:ident : tactic => `(tactic| (
  intro n
  induction n with
  | zero =>
    intro i acc fuel hi hf hb hn
    obtain ⟨f, rfl⟩ : ∃ f, fuel = f + 1 := ⟨fuel - 1, by omega⟩
    refine ⟨i, acc, 0, ⟨by simp [digitsLoop], Nat.le_refl _, hi, rfl, Nat.le_refl _⟩, ?_, ?_⟩
    · unfold $lp
      simp only [rdS_cbuf $s $t i hi]
      split
      · cond_absurd
      · rfl
    · unfold $ld
      simp only [rdS_cbuf $s $t i hi, inB_cbuf $s $t i hi]
      split
      · cond_absurd
      · simp
  | succ n ih =>
    intro i acc fuel hi hf hb hn
    obtain ⟨f, rfl⟩ : ∃ f, fuel = f + 1 := ⟨fuel - 1, by omega⟩
    cases hd : List.drop i $s with
    | nil =>
      refine ⟨i, acc, n + 1, ⟨by rw [hd]; simp [digitsLoop], Nat.le_refl _, hi, rfl, Nat.le_refl _⟩, ?_, ?_⟩
      · unfold $lp
        simp only [rdS_cbuf $s $t i hi, hd, peek_nil]
        split
        · rename_i hc; cond_norm at hc; have := sc_cases 0; simp at this; exfalso; omega
        · rfl
      · unfold $ld
        simp only [rdS_cbuf $s $t i hi, inB_cbuf $s $t i hi, hd, peek_nil]
        split
        · rename_i hc; cond_norm at hc; have := sc_cases 0; simp at this; exfalso; omega
        · simp
    | cons c u =>
      obtain ⟨hlt, hu⟩ := drop_cons $s i c u hd
      by_cases hdig : isDigit c = true
      · have hdv := digitVal_eq c hdig
        have hdg := (isDigit_iff c).mp hdig
        have hsc := sc_cases c
        have hpow : (acc * 10 + digitVal c + 1) * 10 ^ n ≤ (acc + 1) * 10 ^ (n + 1) := by
          rw [Nat.pow_succ, Nat.mul_comm (10 ^ n) 10, ← Nat.mul_assoc]
          apply Nat.mul_le_mul_right; unfold digitVal; omega
        obtain ⟨j, r, m, hrun, hv, hdf⟩ := ih (i + 1) (acc * 10 + digitVal c) f (by omega) (by omega) (by omega) (by omega)
        refine ⟨j, r, m, ⟨?_, by have := hrun.le; omega, hrun.len, by have := hrun.cnt; omega, Nat.le_trans hrun.bound hpow⟩, ?_, ?_⟩
        · rw [hd]; simp only [digitsLoop, hdig, if_true]; rw [← hu]; exact hrun.model
        · unfold $lp
          simp only [rdS_cbuf $s $t i hi, hd, peek_cons]
          split
          · rw [← hv]; congr 1 <;> (push_cast; omega)
          · cond_absurd
        · unfold $ld
          simp only [rdS_cbuf $s $t i hi, inB_cbuf $s $t i hi, hd, peek_cons]
          have hacc : (acc + 1) * 10 ≤ 2 ^ 63 := by
            have hpos : 0 < 10 ^ n := Nat.pow_pos (by decide)
            calc (acc + 1) * 10 = (acc + 1) * 10 * 1 := by omega
              _ ≤ (acc + 1) * 10 * 10 ^ n := Nat.mul_le_mul_left _ hpos
              _ = (acc + 1) * 10 ^ (n + 1) := by rw [Nat.pow_succ, Nat.mul_comm (10 ^ n) 10, Nat.mul_assoc]
              _ ≤ 2 ^ 63 := hb
          split
          · defined_split
            all_goals first
              | (rw [← hdf]; congr 1 <;> first | omega | (push_cast; omega))
              | (rw [idx_succ]; exact ptrOk_cbuf $s $t (i + 1) (by omega))
              | omega
          · simp
      · have hdg := (isDigit_false_iff c).mp (by simpa using hdig)
        have hsc := sc_cases c
        refine ⟨i, acc, n + 1, ⟨by rw [hd]; simp [digitsLoop, hdig], Nat.le_refl _, hi, rfl, Nat.le_refl _⟩, ?_, ?_⟩
        · unfold $lp
          simp only [rdS_cbuf $s $t i hi, hd, peek_cons]
          split
          · cond_absurd
          · rfl
        · unfold $ld
          simp only [rdS_cbuf $s $t i hi, inB_cbuf $s $t i hi, hd, peek_cons]
          split
          · cond_absurd
          · simp))

/-- loop #1: the digits before the decimal point (`max_digits` counts down) -/
theorem src_tie_coord_loop_1 (s t : List UInt8) : ∀ (n i acc fuel : Nat), i ≤ s.length → n < fuel →
    (acc + 1) * 10 ^ n ≤ 2 ^ 63 → n < 2 ^ 31 →
    ∃ j r m, DigitsRun s n acc i j r m ∧
      string_to_location_coordinate.loop_1 fuel (s ++ 0 :: t) (i : Int) (acc : Int) (n : Int) = .next ((j : Int), (r : Int), (m : Int)) ∧
      string_to_location_coordinate.loop_1_defined fuel (s ++ 0 :: t) (i : Int) (acc : Int) (n : Int) = true := by
  digits_loop_tie s t string_to_location_coordinate.loop_1 string_to_location_coordinate.loop_1_defined

/-- loop #2: the significant digits after the decimal point (`scale` counts down) -/
theorem src_tie_coord_loop_2 (s t : List UInt8) : ∀ (n i acc fuel : Nat), i ≤ s.length → n < fuel →
    (acc + 1) * 10 ^ n ≤ 2 ^ 63 → n < 2 ^ 31 →
    ∃ j r m, DigitsRun s n acc i j r m ∧
      string_to_location_coordinate.loop_2 fuel (s ++ 0 :: t) (i : Int) (acc : Int) (n : Int) = .next ((j : Int), (r : Int), (m : Int)) ∧
      string_to_location_coordinate.loop_2_defined fuel (s ++ 0 :: t) (i : Int) (acc : Int) (n : Int) = true := by
  digits_loop_tie s t string_to_location_coordinate.loop_2 string_to_location_coordinate.loop_2_defined

/-- loop #4: the digits of the exponent -/
theorem src_tie_coord_loop_4 (s t : List UInt8) : ∀ (n i acc fuel : Nat), i ≤ s.length → n < fuel →
    (acc + 1) * 10 ^ n ≤ 2 ^ 63 → n < 2 ^ 31 →
    ∃ j r m, DigitsRun s n acc i j r m ∧
      string_to_location_coordinate.loop_4 fuel (s ++ 0 :: t) (i : Int) (n : Int) (acc : Int) = .next ((j : Int), (m : Int), (r : Int)) ∧
      string_to_location_coordinate.loop_4_defined fuel (s ++ 0 :: t) (i : Int) (n : Int) (acc : Int) = true := by
  digits_loop_tie s t string_to_location_coordinate.loop_4 string_to_location_coordinate.loop_4_defined

/-- result of the model's `skipDigits` with the end position as an index; everything skipped is a digit -/
structure SkipRun (s : List UInt8) (n i : Nat) (j m : Nat) : Prop where
  model : skipDigits n (s.drop i) = (m, s.drop j)
  le : i ≤ j
  len : j ≤ s.length
  cnt : j + m = i + n
  digits : ∀ x, i ≤ x → x < j → isDigit (peek (s.drop x)) = true

/-- loop #3: the digits behind the 8th decimal place are skipped -/
theorem src_tie_coord_loop_3 (s t : List UInt8) : ∀ (n i fuel : Nat), i ≤ s.length → n < fuel → n < 2 ^ 31 →
    ∃ j m, SkipRun s n i j m ∧
      string_to_location_coordinate.loop_3 fuel (s ++ 0 :: t) (i : Int) (n : Int) = .next ((j : Int), (m : Int)) ∧
      string_to_location_coordinate.loop_3_defined fuel (s ++ 0 :: t) (i : Int) (n : Int) = true := by
  intro n
  induction n with
  | zero =>
    intro i fuel hi hf hn
    obtain ⟨f, rfl⟩ : ∃ f, fuel = f + 1 := ⟨fuel - 1, by omega⟩
    refine ⟨i, 0, ⟨by simp [skipDigits], Nat.le_refl _, hi, rfl, fun x h1 h2 => by omega⟩, ?_, ?_⟩
    · unfold string_to_location_coordinate.loop_3
      simp only [rdS_cbuf s t i hi]
      split
      · cond_absurd
      · rfl
    · unfold string_to_location_coordinate.loop_3_defined
      simp only [rdS_cbuf s t i hi, inB_cbuf s t i hi]
      split
      · cond_absurd
      · simp
  | succ n ih =>
    intro i fuel hi hf hn
    obtain ⟨f, rfl⟩ : ∃ f, fuel = f + 1 := ⟨fuel - 1, by omega⟩
    cases hd : s.drop i with
    | nil =>
      refine ⟨i, n + 1, ⟨by rw [hd]; simp [skipDigits], Nat.le_refl _, hi, rfl, fun x h1 h2 => by omega⟩, ?_, ?_⟩
      · unfold string_to_location_coordinate.loop_3
        simp only [rdS_cbuf s t i hi, hd, peek_nil]
        split
        · rename_i hc; cond_norm at hc; have := sc_cases 0; simp at this; exfalso; omega
        · rfl
      · unfold string_to_location_coordinate.loop_3_defined
        simp only [rdS_cbuf s t i hi, inB_cbuf s t i hi, hd, peek_nil]
        split
        · rename_i hc; cond_norm at hc; have := sc_cases 0; simp at this; exfalso; omega
        · simp
    | cons c u =>
      obtain ⟨hlt, hu⟩ := drop_cons s i c u hd
      by_cases hdig : isDigit c = true
      · have hdg := (isDigit_iff c).mp hdig
        have hsc := sc_cases c
        obtain ⟨j, m, hrun, hv, hdf⟩ := ih (i + 1) f (by omega) (by omega) (by omega)
        refine ⟨j, m, ⟨?_, by have := hrun.le; omega, hrun.len, by have := hrun.cnt; omega, ?_⟩, ?_, ?_⟩
        · rw [hd]; simp only [skipDigits, hdig, if_true]; rw [← hu]; exact hrun.model
        · intro x h1 h2
          by_cases hx : x = i
          · subst hx; rw [hd]; exact hdig
          · exact hrun.digits x (by omega) h2
        · unfold string_to_location_coordinate.loop_3
          simp only [rdS_cbuf s t i hi, hd, peek_cons]
          split
          · rw [← hv]; congr 1 <;> (push_cast; omega)
          · cond_absurd
        · unfold string_to_location_coordinate.loop_3_defined
          simp only [rdS_cbuf s t i hi, inB_cbuf s t i hi, hd, peek_cons]
          split
          · defined_split
            all_goals first
              | (rw [← hdf]; congr 1 <;> first | omega | (push_cast; omega))
              | (rw [idx_succ]; exact ptrOk_cbuf s t (i + 1) (by omega))
              | omega
          · simp
      · have hdg := (isDigit_false_iff c).mp (by simpa using hdig)
        have hsc := sc_cases c
        refine ⟨i, n + 1, ⟨by rw [hd]; simp [skipDigits, hdig], Nat.le_refl _, hi, rfl, fun x h1 h2 => by omega⟩, ?_, ?_⟩
        · unfold string_to_location_coordinate.loop_3
          simp only [rdS_cbuf s t i hi, hd, peek_cons]
          split
          · cond_absurd
          · rfl
        · unfold string_to_location_coordinate.loop_3_defined
          simp only [rdS_cbuf s t i hi, inB_cbuf s t i hi, hd, peek_cons]
          split
          · cond_absurd
          · simp

/-- loop #5: a negative `scale` (= `-k`) divides the result (`for (; scale < 0 && result > 0; ++scale) result /= 10;`) -/
theorem src_tie_coord_loop_5 (buf : Buf) : ∀ (k r fuel : Nat), k < fuel → k < 2 ^ 62 → r < 2 ^ 63 →
    (∃ sc' : Int, string_to_location_coordinate.loop_5 fuel buf (r : Int) (-(k : Int)) = .next (((divLoop k r : Nat) : Int), sc')) ∧
      string_to_location_coordinate.loop_5_defined fuel buf (r : Int) (-(k : Int)) = true := by
  intro k
  induction k with
  | zero =>
    intro r fuel hf hk hr
    obtain ⟨f, rfl⟩ : ∃ f, fuel = f + 1 := ⟨fuel - 1, by omega⟩
    constructor
    · refine ⟨-((0 : Nat) : Int), ?_⟩
      unfold string_to_location_coordinate.loop_5
      split
      · cond_absurd
      · rfl
    · unfold string_to_location_coordinate.loop_5_defined
      split
      · cond_absurd
      · rfl
  | succ k ih =>
    intro r fuel hf hk hr
    obtain ⟨f, rfl⟩ : ∃ f, fuel = f + 1 := ⟨fuel - 1, by omega⟩
    have hdiv : Int.tdiv (r : Int) 10 = ((r / 10 : Nat) : Int) := tdiv_nat r 10
    by_cases hr0 : 0 < r
    · obtain ⟨⟨sc', hv⟩, hdf⟩ := ih (r / 10) f (by omega) (by omega) (by omega)
      have hm : divLoop (k + 1) r = divLoop k (r / 10) := by simp [divLoop, hr0]
      constructor
      · refine ⟨sc', ?_⟩
        unfold string_to_location_coordinate.loop_5
        split
        · dsimp only; rw [hm, ← hv, hdiv]; congr 1; push_cast; omega
        · cond_absurd
      · unfold string_to_location_coordinate.loop_5_defined
        split
        · dsimp only; rw [hdiv]
          defined_split
          all_goals first
            | (rw [← hdf]; congr 1 <;> first | omega | (push_cast; omega))
            | exact sdivOk_pos (by omega)
            | omega
        · rfl
    · have hr1 : r = 0 := by omega
      have hm : divLoop (k + 1) r = r := by simp [divLoop, hr0]
      constructor
      · refine ⟨-((k + 1 : Nat) : Int), ?_⟩
        unfold string_to_location_coordinate.loop_5
        split
        · cond_absurd
        · rw [hm]
      · unfold string_to_location_coordinate.loop_5_defined
        split
        · cond_absurd
        · rfl

/-- outcome of the translated scaling loop against the model's `mulLoopNaive`: `none` = the `result >= limit` guard
    threw; otherwise no overflow was recorded and the result is small -/
def MulRun (out : Option (Int × Bool)) (fl : Flow Int (Int × Int × Int × Int) Int) (data : Int) : Prop :=
  match out with
  | none => fl = .exit (.thrown "osmium::invalid_location" data)
  | some (r', o) => o = false ∧ ∃ q : Nat, r' = (q : Int) ∧ q < 4611686018427387904 ∧ ∃ a b c : Int, fl = .next ((q : Int), a, b, c)

theorem take_drop_succ (s : List UInt8) (e d : Nat) (c : UInt8) (u : List UInt8) (h : s.drop e = c :: u) :
    (s.drop e).take (d + 1) = c :: (s.drop (e + 1)).take d := by
  rw [h, List.take_succ_cons, (drop_cons s e c u h).2]

/-- loop #6: a non-negative `scale` (= `k`) multiplies the result, picking up the skipped digits
    (`extra` .. `extra + extra_digits`), and throws before the product could leave the int32 range -/
theorem src_tie_coord_loop_6 (s t : List UInt8) (data full : Nat) (hfull : full ≤ s.length) :
    ∀ (k r e d fuel : Nat) (rI kI eI dI : Int), rI = r → kI = k → eI = e → dI = d →
      e + d ≤ s.length → (∀ x, e ≤ x → x < e + d → isDigit (peek (s.drop x)) = true) →
      k < fuel → k < 4611686018427387904 → d < 2147483648 → r < 4611686018427387904 →
      MulRun (mulLoopNaive Variant.now k (r : Int) ((s.drop e).take d) false)
        (string_to_location_coordinate.loop_6 fuel (s ++ 0 :: t) data full rI kI eI dI 21474836490) data ∧
      string_to_location_coordinate.loop_6_defined fuel (s ++ 0 :: t) data full rI kI eI dI 21474836490 = true := by
  intro k
  induction k with
  | zero =>
    intro r e d fuel rI kI eI dI hr hk he hd hlen hdig hf hk2 hd2 hr2
    subst hr hk he hd
    obtain ⟨f, rfl⟩ : ∃ f, fuel = f + 1 := ⟨fuel - 1, by omega⟩
    constructor
    · unfold string_to_location_coordinate.loop_6
      split
      · cond_absurd
      · exact ⟨rfl, r, rfl, hr2, _, _, _, rfl⟩
    · unfold string_to_location_coordinate.loop_6_defined
      split
      · cond_absurd
      · rfl
  | succ k ih =>
    intro r e d fuel rI kI eI dI hr hk he hd hlen hdig hf hk2 hd2 hr2
    subst hr hk he hd
    obtain ⟨f, rfl⟩ : ∃ f, fuel = f + 1 := ⟨fuel - 1, by omega⟩
    by_cases hlim : (r : Int) ≥ mulLimit
    · -- the guard throws
      have hm : ∀ ex, mulLoopNaive Variant.now (k + 1) (r : Int) ex false = none := by
        intro ex; cases ex <;> simp [mulLoopNaive, Variant.now, Variant.fixed, hlim]
      simp only [mulLimit] at hlim
      constructor
      · rw [hm]
        unfold string_to_location_coordinate.loop_6
        simp only [MulRun]
        split
        · split
          · rfl
          · cond_absurd
        · cond_absurd
      · unfold string_to_location_coordinate.loop_6_defined
        split
        · split
          · exact cstrOk_cbuf s t full hfull
          · cond_absurd
        · cond_absurd
    · have hlim' : (r : Int) < 21474836490 := by simp only [mulLimit] at hlim; omega
      cases d with
      | zero =>
        have hq : r * 10 < 4611686018427387904 := by omega
        have hkf : k < f := by omega
        have hk62 : k < 4611686018427387904 := by omega
        have hw : wrap64 ((r : Int) * 10) = (r : Int) * 10 := by unfold wrap64; omega
        have hm : mulLoopNaive Variant.now (k + 1) (r : Int) ((s.drop e).take 0) false =
            mulLoopNaive Variant.now k (((r * 10 : Nat) : Int)) ((s.drop e).take 0) false := by
          rw [mulLoopNaive_succ_plain _ _ _ _ _ (Or.inr (by simp))]
          simp [Variant.now, Variant.fixed, hlim, hw]
        clear hw
        have ih' : ∀ (rI kI eI dI : Int), rI = ((r * 10 : Nat) : Int) → kI = (k : Int) → eI = (e : Int) → dI = ((0 : Nat) : Int) → _ :=
          fun rI kI eI dI h1 h2 h3 h4 => ih (r * 10) e 0 f rI kI eI dI h1 h2 h3 h4 hlen hdig hkf hk62 hd2 hq
        constructor
        · rw [hm]; clear hm
          unfold string_to_location_coordinate.loop_6
          split
          · split
            · cond_absurd
            · simp only []
              split
              · cond_absurd
              · refine (ih' _ _ _ _ ?_ ?_ ?_ ?_).1 <;> first | omega | (push_cast; omega)
          · cond_absurd
        · clear hm
          unfold string_to_location_coordinate.loop_6_defined
          split
          · split
            · cond_absurd
            · simp only []
              split
              · cond_absurd
              · defined_split
                all_goals first
                  | (refine (ih' _ _ _ _ ?_ ?_ ?_ ?_).2 <;> first | omega | (push_cast; omega))
                  | omega
          · cond_absurd
      | succ d =>
        have hel : e < s.length := by omega
        obtain ⟨c, u, hdr⟩ : ∃ c u, s.drop e = c :: u := by
          cases h : s.drop e with
          | nil => have := List.drop_eq_nil_iff.mp h; omega
          | cons c u => exact ⟨c, u, rfl⟩
        have hcd : isDigit c = true := by have := hdig e (Nat.le_refl _) (by omega); rwa [hdr] at this
        have hdv := digitVal_eq c hcd
        have hdg := (isDigit_iff c).mp hcd
        have hsc := sc_cases c
        have hrd : rdS (s ++ 0 :: t) (e : Int) = sc c := by rw [rdS_cbuf s t e (by omega), hdr]; rfl
        have hq : r * 10 + digitVal c < 4611686018427387904 := by unfold digitVal; omega
        have hlen' : e + 1 + d ≤ s.length := by omega
        have hdig' : ∀ x, e + 1 ≤ x → x < e + 1 + d → isDigit (peek (s.drop x)) = true := fun x h1 h2 => hdig x (by omega) (by omega)
        have hkf : k < f := by omega
        have hk62 : k < 4611686018427387904 := by omega
        have hd31 : d < 2147483648 := by omega
        have hw : wrap64 ((r : Int) * 10 + (digitVal c : Int)) = (r : Int) * 10 + (digitVal c : Int) := by
          unfold wrap64; omega
        have hm : mulLoopNaive Variant.now (k + 1) (r : Int) ((s.drop e).take (d + 1)) false =
            mulLoopNaive Variant.now k (((r * 10 + digitVal c : Nat) : Int)) ((s.drop (e + 1)).take d) false := by
          rw [take_drop_succ s e d c u hdr, mulLoopNaive_succ_digit _ rfl]
          simp [Variant.now, Variant.fixed, hlim, hw]
        clear hw
        have ih' : ∀ (rI kI eI dI : Int), rI = ((r * 10 + digitVal c : Nat) : Int) → kI = (k : Int) → eI = ((e + 1 : Nat) : Int) → dI = (d : Int) → _ :=
          fun rI kI eI dI h1 h2 h3 h4 => ih (r * 10 + digitVal c) (e + 1) d f rI kI eI dI h1 h2 h3 h4 hlen' hdig' hkf hk62 hd31 hq
        constructor
        · rw [hm]; clear hm
          unfold string_to_location_coordinate.loop_6
          simp only [hrd]
          split
          · split
            · cond_absurd
            · split
              · refine (ih' _ _ _ _ ?_ ?_ ?_ ?_).1 <;> first | omega | (push_cast; omega)
              · cond_absurd
          · cond_absurd
        · clear hm
          unfold string_to_location_coordinate.loop_6_defined
          simp only [hrd, inB_cbuf s t e (by omega)]
          split
          · split
            · cond_absurd
            · split
              · defined_split
                all_goals first
                  | (refine (ih' _ _ _ _ ?_ ?_ ?_ ?_).2 <;> first | omega | (push_cast; omega))
                  | (rw [idx_succ]; exact ptrOk_cbuf s t (e + 1) (by omega))
                  | omega
              · cond_absurd
          · cond_absurd

/-! ### the stages of the function (the translator's join points `k_1 … k_5`) against the stages of `parseCoord` -/

/-- a model result as the outcome of the translated function: the end position as an index, every error is
    `invalid_location` with the cursor cell left alone -/
def coordOut (s : List UInt8) (i : Nat) : Except Err CoordOut → Outcome Int Int
  | .ok out => .normal ((s.length - out.rest.length : Nat) : Int) out.value
  | .error _ => .thrown "osmium::invalid_location" (i : Int)

/-- what a stage lemma says about the model result: no overflow was recorded, the rest is a suffix of `s` -/
def GoodOut (s : List UInt8) (m : Except Err CoordOut) : Prop :=
  ∀ out, m = .ok out → out.ovf = false ∧ ∃ j, j ≤ s.length ∧ out.rest = s.drop j

theorem wrapS32_id {x : Int} (h1 : -2147483648 ≤ x) (h2 : x ≤ 2147483647) : wrapS 32 x = x := by
  have e1 : (2 : Int) ^ (32 - 1) = 2147483648 := by decide
  have e2 : (2 : Int) ^ 32 = 4294967296 := by decide
  unfold wrapS; rw [e1, e2]; omega

theorem divLoop_le : ∀ (k r : Nat), divLoop k r ≤ r := by
  intro k
  induction k with
  | zero => intro r; simp [divLoop]
  | succ k ih =>
    intro r
    simp only [divLoop]
    split
    · exact Nat.le_trans (ih _) (Nat.div_le_self _ _)
    · exact Nat.le_refl _

/-- stage 5: `result = (result + 5) / 10 * sign;` range check, `*data = str`, return -/
theorem src_tie_coord_k5 (s t : List UInt8) (i0 full j r : Nat) (sg : Int) (hsg : sg = 1 ∨ sg = -1)
    (hr : r < 4611686018427387904) (hj : j ≤ s.length) (hfull : full ≤ s.length) :
    string_to_location_coordinate.k_5 (s ++ 0 :: t) i0 j full r sg = coordOut s i0 (finishCoord (r : Int) false sg (s.drop j)) ∧
    string_to_location_coordinate.k_5_defined (s ++ 0 :: t) i0 j full r sg = true ∧
    GoodOut s (finishCoord (r : Int) false sg (s.drop j)) := by
  have hw : wrap64 ((r : Int) + 5) = (r : Int) + 5 := by unfold wrap64; omega
  have hdiv : Int.tdiv ((r : Int) + 5) 10 = (((r + 5) / 10 : Nat) : Int) := by
    rw [show ((r : Int) + 5) = ((r + 5 : Nat) : Int) by omega]; exact tdiv_nat _ _
  have hq : (r + 5) / 10 < 4611686018427387904 := by omega
  generalize (r + 5) / 10 = q at hdiv hq
  have hp : (q : Int) * sg = q ∨ (q : Int) * sg = -q := by rcases hsg with rfl | rfl <;> omega
  have hlen : s.length - (s.drop j).length = j := by rw [List.length_drop]; omega
  unfold finishCoord
  dsimp only [int32Max, int32Min]
  simp only [hw, hdiv, bne_self_eq_false, Bool.or_false]
  by_cases hrange : (q : Int) * sg > 2147483647 ∨ (q : Int) * sg < -2147483648
  · have hm : (decide ((q : Int) * sg > 2147483647) || decide ((q : Int) * sg < -2147483648)) = true := by
      rcases hrange with h | h <;> simp [h]
    rw [if_pos hm]
    refine ⟨?_, ?_, ?_⟩
    · unfold string_to_location_coordinate.k_5
      simp only [hdiv, coordOut]
      split
      · rfl
      · cond_absurd
    · unfold string_to_location_coordinate.k_5_defined
      simp only [hdiv, cstrOk_cbuf s t full hfull]
      defined_split
      all_goals first
        | exact sdivOk_pos (by omega)
        | omega
        | (split <;> rfl)
    · intro out h; cases h
  · have hm : ¬ (decide ((q : Int) * sg > 2147483647) || decide ((q : Int) * sg < -2147483648)) = true := by
      intro h; apply hrange; simpa using h
    rw [if_neg hm]
    refine ⟨?_, ?_, ?_⟩
    · unfold string_to_location_coordinate.k_5
      simp only [hdiv, coordOut, hlen]
      split
      · cond_absurd
      · rw [wrapS32_id (by omega) (by omega)]
    · unfold string_to_location_coordinate.k_5_defined
      simp only [hdiv, cstrOk_cbuf s t full hfull]
      defined_split
      all_goals first
        | exact sdivOk_pos (by omega)
        | omega
        | (split <;> rfl)
    · intro out h; cases h; exact ⟨rfl, j, hj, rfl⟩

/-- rewrite a call of a translated loop / join point in the goal, whatever the syntactic form of its arguments, to
    the form a lemma is stated for: `call_form f a b c` leaves `f A B C = f a b c` closed by `congr` + `omega` -/
macro "args_eq" : tactic => `(tactic| (congr 1 <;> first | omega | (push_cast; omega) | rfl))

/-- model stage 4: the scaling by `scale = 8 - digits + exponent` and the end -/
def stage4 (sg : Int) (r2 : Nat) (scale : Int) (extra : List UInt8) (rest : List UInt8) : Except Err CoordOut :=
  if scale < 0 then finishCoord (divLoop scale.natAbs r2) false sg rest
  else
    match mulLoopNaive Variant.now scale.toNat r2 extra false with
    | none => .error .invalidLocation
    | some (r3, o) => finishCoord r3 o sg rest

/-- stage 4: the two scaling loops, then stage 5 -/
theorem src_tie_coord_k4 (s t : List UInt8) (i0 full j r2 e0 d fuel : Nat) (sg scale : Int) (hsg : sg = 1 ∨ sg = -1)
    (hr : r2 < 4611686018427387904) (hj : j ≤ s.length) (hfull : full ≤ s.length)
    (hext : e0 + d ≤ s.length) (hdig : ∀ x, e0 ≤ x → x < e0 + d → isDigit (peek (s.drop x)) = true) (hd : d < 2147483648)
    (hsc : scale.natAbs < fuel) (hsc2 : scale.natAbs < 4611686018427387904) :
    string_to_location_coordinate.k_4 fuel (s ++ 0 :: t) i0 j full r2 sg scale e0 d =
      coordOut s i0 (stage4 sg r2 scale ((s.drop e0).take d) (s.drop j)) ∧
    string_to_location_coordinate.k_4_defined fuel (s ++ 0 :: t) i0 j full r2 sg scale e0 d = true ∧
    GoodOut s (stage4 sg r2 scale ((s.drop e0).take d) (s.drop j)) := by
  by_cases hneg : scale < 0
  · -- the result is divided
    obtain ⟨k, rfl⟩ : ∃ k : Nat, scale = -(k : Int) := ⟨scale.natAbs, by omega⟩
    have hk : (-(k : Int)).natAbs = k := by omega
    rw [hk] at hsc hsc2
    obtain ⟨⟨sc', hv⟩, hdf⟩ := src_tie_coord_loop_5 (s ++ 0 :: t) k r2 fuel hsc (by omega) (by omega)
    have hle := divLoop_le k r2
    obtain ⟨h5, h5d, h5g⟩ := src_tie_coord_k5 s t i0 full j (divLoop k r2) sg hsg (by omega) hj hfull
    have hm : stage4 sg r2 (-(k : Int)) ((s.drop e0).take d) (s.drop j) = finishCoord (divLoop k r2) false sg (s.drop j) := by
      simp only [stage4, hneg, if_true, hk]
    rw [hm]
    refine ⟨?_, ?_, h5g⟩
    · unfold string_to_location_coordinate.k_4
      split
      · rw [hv]; simp only [Flow.bind, Flow.seq]; exact h5
      · cond_absurd
    · unfold string_to_location_coordinate.k_4_defined
      split
      · simp only [hv, hdf, Flow.bind, Flow.andThen, Bool.true_and, h5d]
      · cond_absurd
  · -- the result is multiplied
    obtain ⟨k, rfl⟩ : ∃ k : Nat, scale = (k : Int) := ⟨scale.toNat, by omega⟩
    have hk : ((k : Int)).natAbs = k := by omega
    rw [hk] at hsc hsc2
    obtain ⟨h6, h6d⟩ := src_tie_coord_loop_6 s t i0 full hfull k r2 e0 d fuel r2 k e0 d rfl rfl rfl rfl hext hdig hsc hsc2 hd hr
    have hm : stage4 sg r2 (k : Int) ((s.drop e0).take d) (s.drop j) =
        match mulLoopNaive Variant.now k r2 ((s.drop e0).take d) false with
        | none => .error .invalidLocation
        | some (r3, o) => finishCoord r3 o sg (s.drop j) := by
      simp only [stage4, hneg, if_false, Int.toNat_natCast]
    rw [hm]
    cases hmul : mulLoopNaive Variant.now k r2 ((s.drop e0).take d) false with
    | none =>
      rw [hmul] at h6
      simp only [MulRun] at h6
      refine ⟨?_, ?_, fun out h => by cases h⟩
      · unfold string_to_location_coordinate.k_4
        simp only [Int.reduceAdd, Int.reduceMul]
        split
        · cond_absurd
        · rw [h6]; rfl
      · unfold string_to_location_coordinate.k_4_defined
        simp only [Int.reduceAdd, Int.reduceMul]
        split
        · cond_absurd
        · simp only [h6, h6d, Flow.bind, Flow.andThen, Bool.true_and]
          try (defined_split <;> first | omega | rfl)
    | some v =>
      obtain ⟨r3, o⟩ := v
      rw [hmul] at h6
      obtain ⟨ho, q, hq, hq2, a, b, c, hfl⟩ := h6
      subst ho hq
      obtain ⟨h5, h5d, h5g⟩ := src_tie_coord_k5 s t i0 full j q sg hsg hq2 hj hfull
      refine ⟨?_, ?_, h5g⟩
      · unfold string_to_location_coordinate.k_4
        simp only [Int.reduceAdd, Int.reduceMul]
        split
        · cond_absurd
        · rw [hfl]; simp only [Flow.bind, Flow.seq]; exact h5
      · unfold string_to_location_coordinate.k_4_defined
        simp only [Int.reduceAdd, Int.reduceMul]
        split
        · cond_absurd
        · simp only [hfl, h6d, Flow.bind, Flow.andThen, Bool.true_and, h5d]
          try (defined_split <;> first | omega | rfl)

/-- model stage 3: the optional exponent, then stage 4 -/
def stage3 (sg : Int) (r2 sc : Nat) (extra : List UInt8) (s3 : List UInt8) : Except Err CoordOut :=
  match expPart s3 with
  | none => .error .invalidLocation
  | some (e, s4) => stage4 sg r2 ((sc : Int) + e) extra s4

theorem expPart_no_e (u : List UInt8) (h : (peek u).toNat ≠ 101 ∧ (peek u).toNat ≠ 69) : expPart u = some (0, u) := by
  unfold expPart
  simp [beq_char, h.1, h.2]

theorem expPart_e_cond (u : List UInt8) (h : (peek u).toNat = 101 ∨ (peek u).toNat = 69) :
    (peek u == ce || peek u == cE) = true := by
  rcases h with h | h <;> simp [beq_char, h]

/-- the exponent with its sign resolved (`u = 'e' :: …`), nothing behind it -/
theorem expPart_e_nil (u : List UInt8) (esign : Int) (h : (peek u).toNat = 101 ∨ (peek u).toNat = 69)
    (h2 : (if peek u.tail == cMinus then ((-1 : Int), u.tail.tail) else (1, u.tail)) = (esign, [])) :
    expPart u = none := by
  unfold expPart
  simp only [expPart_e_cond u h, if_true, h2]

/-- the exponent with its sign resolved (`u = 'e' :: …`), the character `c` behind it -/
theorem expPart_e_cons (u : List UInt8) (esign : Int) (c : UInt8) (s3 : List UInt8) (h : (peek u).toNat = 101 ∨ (peek u).toNat = 69)
    (h2 : (if peek u.tail == cMinus then ((-1 : Int), u.tail.tail) else (1, u.tail)) = (esign, c :: s3)) :
    expPart u = if isDigit c then
          (if (digitsLoop 5 (digitVal c) s3).2.1 == 0 then none
           else some (((digitsLoop 5 (digitVal c) s3).1 : Int) * esign, (digitsLoop 5 (digitVal c) s3).2.2)) else none := by
  unfold expPart
  simp only [expPart_e_cond u h, if_true, h2]

/-- `split` on the next generated `if` / `match`; the branches that contradict the model's case are closed -/
macro "split_ok" : tactic => `(tactic| (split <;> try cond_absurd))

/-- normal form of cursor indices -/
macro "idx_norm" : tactic => `(tactic| try simp only [idx_succ, Nat.add_assoc, Nat.reduceAdd])

theorem pow10_ge (m : Nat) (h : m ≠ 0) : 10 ≤ 10 ^ m := by
  obtain ⟨k, rfl⟩ : ∃ k, m = k + 1 := ⟨m - 1, by omega⟩
  rw [Nat.pow_succ]; have : 0 < 10 ^ k := Nat.pow_pos (by decide); omega

/-- stage 3: the exponent, then stage 4 -/
theorem src_tie_coord_k3_val (s t : List UInt8) (i0 full j r2 sc e0 d fuel : Nat) (sg mdI : Int) (hsg : sg = 1 ∨ sg = -1)
    (hr : r2 < 4611686018427387904) (hj : j ≤ s.length) (hfull : full ≤ s.length)
    (hext : e0 + d ≤ s.length) (hdig : ∀ x, e0 ≤ x → x < e0 + d → isDigit (peek (s.drop x)) = true) (hd : d < 2147483648)
    (hsc : sc ≤ 8) (hfuel : 100010 ≤ fuel) :
    string_to_location_coordinate.k_3 fuel (s ++ 0 :: t) i0 j full r2 sg sc mdI e0 d =
      coordOut s i0 (stage3 sg r2 sc ((s.drop e0).take d) (s.drop j)) ∧
    GoodOut s (stage3 sg r2 sc ((s.drop e0).take d) (s.drop j)) := by
  have hrd0 := rdS_cbuf s t j hj
  have hsc0 := sc_cases (peek (s.drop j))
  have hcs := cstrOk_cbuf s t full hfull
  by_cases he : (peek (s.drop j)).toNat = 101 ∨ (peek (s.drop j)).toNat = 69
  · -- there is an exponent
    have hjlt : j < s.length := lt_of_peek_ne_zero s j (by intro h; rw [h] at he; simp at he)
    have hrd1 := rdS_cbuf s t (j + 1) (by omega)
    have hsc1 := sc_cases (peek (s.drop (j + 1)))
    -- the sign
    obtain ⟨j2, esign, hj2, hsign, hj2a⟩ : ∃ (j2 : Nat) (esign : Int), j2 ≤ s.length ∧
        (if peek (s.drop j).tail == cMinus then ((-1 : Int), (s.drop j).tail.tail) else (1, (s.drop j).tail)) = (esign, s.drop j2) ∧
        ((peek (s.drop (j + 1))).toNat = 45 ∧ j2 = j + 2 ∧ esign = -1 ∨ (peek (s.drop (j + 1))).toNat ≠ 45 ∧ j2 = j + 1 ∧ esign = 1) := by
      rw [tail_drop, tail_drop]
      by_cases hm : (peek (s.drop (j + 1))).toNat = 45
      · have : j + 1 < s.length := lt_of_peek_ne_zero s (j + 1) (by intro h; rw [h] at hm; simp at hm)
        refine ⟨j + 2, -1, by omega, ?_, Or.inl ⟨hm, rfl, rfl⟩⟩
        simp [beq_char, hm]
      · refine ⟨j + 1, 1, by omega, ?_, Or.inr ⟨hm, rfl, rfl⟩⟩
        simp [beq_char, hm]
    have hrd2 := rdS_cbuf s t j2 hj2
    have hin0 := inB_cbuf s t j hj
    have hin1 := inB_cbuf s t (j + 1) (by omega)
    have hin2 := inB_cbuf s t j2 hj2
    have hp1 := ptrOk_cbuf s t (j + 1) (by omega)
    have hp2 := ptrOk_cbuf s t (j + 2)
    have hp3 := ptrOk_cbuf s t (j2 + 1)
    unfold stage3
    cases hd2 : s.drop j2 with
    | nil =>
      -- end of the string instead of a digit
      rw [hd2] at hsign
      rw [expPart_e_nil (s.drop j) esign he hsign]
      have hsc2 := sc_cases (0 : UInt8)
      simp only [zero_toNat] at hsc2
      rw [hd2, peek_nil] at hrd2
      refine ⟨?_, fun out h => by cases h⟩
      · rcases hj2a with ⟨h45, rfl, rfl⟩ | ⟨h45, rfl, rfl⟩ <;>
        · unfold string_to_location_coordinate.k_3
          simp only [hrd0]; idx_norm; simp only [hrd1]
          split_ok; split_ok
          idx_norm; simp only [hrd2]
          split_ok
          rfl
    | cons c2 u2 =>
      obtain ⟨hlt2, hu2⟩ := drop_cons s j2 c2 u2 hd2
      rw [hd2] at hsign
      rw [expPart_e_cons (s.drop j) esign c2 u2 he hsign]
      rw [hd2, peek_cons] at hrd2
      have hsc2 := sc_cases c2
      by_cases hdig2 : isDigit c2 = true
      · -- the digits of the exponent
        have hdv := digitVal_eq c2 hdig2
        have hdg := (isDigit_iff c2).mp hdig2
        obtain ⟨j4, er, m, hrun, hv, hdf⟩ := src_tie_coord_loop_4 s t 5 (j2 + 1) (digitVal c2) fuel (by omega) (by omega)
          (by unfold digitVal; omega) (by omega)
        have hv' : ∀ a b c : Int, a = ((j2 + 1 : Nat) : Int) → b = ((5 : Nat) : Int) → c = ((digitVal c2 : Nat) : Int) →
            string_to_location_coordinate.loop_4 fuel (s ++ 0 :: t) a b c = .next ((j4 : Int), (m : Int), (er : Int)) := by
          intro a b c h1 h2 h3; subst h1 h2 h3; exact hv
        have hdf' : ∀ a b c : Int, a = ((j2 + 1 : Nat) : Int) → b = ((5 : Nat) : Int) → c = ((digitVal c2 : Nat) : Int) →
            string_to_location_coordinate.loop_4_defined fuel (s ++ 0 :: t) a b c = true := by
          intro a b c h1 h2 h3; subst h1 h2 h3; exact hdf
        have hmod := hrun.model
        rw [hu2] at hmod
        simp only [hdig2, if_true, hmod]
        by_cases hm0 : m = 0
        · -- too many digits
          subst hm0
          simp only [beq_self_eq_true, if_true]
          refine ⟨?_, fun out h => by cases h⟩
          · rcases hj2a with ⟨h45, rfl, rfl⟩ | ⟨h45, rfl, rfl⟩ <;>
            · unfold string_to_location_coordinate.k_3
              simp only [hrd0]; idx_norm; simp only [hrd1]
              split_ok; split_ok
              idx_norm; simp only [hrd2]
              split_ok
              simp (disch := omega) only [hv']
              simp only [Flow.bind]
              split_ok
              rfl
        · -- the exponent
          have hmb : (m == 0) = false := by simpa using hm0
          simp only [hmb]
          have h10 := pow10_ge m hm0
          have hb := hrun.bound
          have her : er < 100000 := by
            have h1 : (er + 1) * 10 ≤ (er + 1) * 10 ^ m := Nat.mul_le_mul_left _ h10
            have h2 : (digitVal c2 + 1) * 10 ^ 5 ≤ 1000000 := by
              have : digitVal c2 + 1 ≤ 10 := by unfold digitVal; omega
              calc (digitVal c2 + 1) * 10 ^ 5 ≤ 10 * 10 ^ 5 := Nat.mul_le_mul_right _ this
                _ = 1000000 := by decide
            omega
          have hes : esign = 1 ∨ esign = -1 := by omega
          have hmul : (er : Int) * esign = er ∨ (er : Int) * esign = -er := by rcases hes with rfl | rfl <;> omega
          obtain ⟨h4, h4d, h4g⟩ := src_tie_coord_k4 s t i0 full j4 r2 e0 d fuel sg ((sc : Int) + (er : Int) * esign) hsg hr hrun.len hfull
            hext hdig hd (by omega) (by omega)
          refine ⟨?_, h4g⟩
          · rcases hj2a with ⟨h45, rfl, rfl⟩ | ⟨h45, rfl, rfl⟩ <;>
            · unfold string_to_location_coordinate.k_3
              simp only [hrd0]; idx_norm; simp only [hrd1]
              split_ok; split_ok
              idx_norm; simp only [hrd2]
              split_ok
              simp (disch := omega) only [hv']
              simp only [Flow.bind]
              split_ok
              simp only [Flow.seq]
              exact h4
      · -- no digit
        have hdg := (isDigit_false_iff c2).mp (by simpa using hdig2)
        simp only [hdig2]
        refine ⟨?_, fun out h => by cases h⟩
        · rcases hj2a with ⟨h45, rfl, rfl⟩ | ⟨h45, rfl, rfl⟩ <;>
          · unfold string_to_location_coordinate.k_3
            simp only [hrd0]; idx_norm; simp only [hrd1]
            split_ok; split_ok
            idx_norm; simp only [hrd2]
            split_ok
            rfl
  · -- no exponent: scale stays
    have hm : expPart (s.drop j) = some (0, s.drop j) := expPart_no_e _ (by omega)
    obtain ⟨h4, h4d, h4g⟩ := src_tie_coord_k4 s t i0 full j r2 e0 d fuel sg (sc : Int) hsg hr hj hfull hext hdig hd (by omega) (by omega)
    unfold stage3
    rw [hm]
    simp only [Int.add_zero]
    refine ⟨?_, h4g⟩
    · unfold string_to_location_coordinate.k_3
      simp only [hrd0]
      split_ok
      simp only [Flow.seq]; exact h4
/-- stage 3: the exponent, then stage 4 -/
theorem src_tie_coord_k3_def (s t : List UInt8) (i0 full j r2 sc e0 d fuel : Nat) (sg mdI : Int) (hsg : sg = 1 ∨ sg = -1)
    (hr : r2 < 4611686018427387904) (hj : j ≤ s.length) (hfull : full ≤ s.length)
    (hext : e0 + d ≤ s.length) (hdig : ∀ x, e0 ≤ x → x < e0 + d → isDigit (peek (s.drop x)) = true) (hd : d < 2147483648)
    (hsc : sc ≤ 8) (hfuel : 100010 ≤ fuel) :
    string_to_location_coordinate.k_3_defined fuel (s ++ 0 :: t) i0 j full r2 sg sc mdI e0 d = true := by
  have hrd0 := rdS_cbuf s t j hj
  have hsc0 := sc_cases (peek (s.drop j))
  have hcs := cstrOk_cbuf s t full hfull
  by_cases he : (peek (s.drop j)).toNat = 101 ∨ (peek (s.drop j)).toNat = 69
  · -- there is an exponent
    have hjlt : j < s.length := lt_of_peek_ne_zero s j (by intro h; rw [h] at he; simp at he)
    have hrd1 := rdS_cbuf s t (j + 1) (by omega)
    have hsc1 := sc_cases (peek (s.drop (j + 1)))
    -- the sign
    obtain ⟨j2, esign, hj2, hsign, hj2a⟩ : ∃ (j2 : Nat) (esign : Int), j2 ≤ s.length ∧
        (if peek (s.drop j).tail == cMinus then ((-1 : Int), (s.drop j).tail.tail) else (1, (s.drop j).tail)) = (esign, s.drop j2) ∧
        ((peek (s.drop (j + 1))).toNat = 45 ∧ j2 = j + 2 ∧ esign = -1 ∨ (peek (s.drop (j + 1))).toNat ≠ 45 ∧ j2 = j + 1 ∧ esign = 1) := by
      rw [tail_drop, tail_drop]
      by_cases hm : (peek (s.drop (j + 1))).toNat = 45
      · have : j + 1 < s.length := lt_of_peek_ne_zero s (j + 1) (by intro h; rw [h] at hm; simp at hm)
        refine ⟨j + 2, -1, by omega, ?_, Or.inl ⟨hm, rfl, rfl⟩⟩
        simp [beq_char, hm]
      · refine ⟨j + 1, 1, by omega, ?_, Or.inr ⟨hm, rfl, rfl⟩⟩
        simp [beq_char, hm]
    have hrd2 := rdS_cbuf s t j2 hj2
    have hin0 := inB_cbuf s t j hj
    have hin1 := inB_cbuf s t (j + 1) (by omega)
    have hin2 := inB_cbuf s t j2 hj2
    have hp1 := ptrOk_cbuf s t (j + 1) (by omega)
    have hp2 := ptrOk_cbuf s t (j + 2)
    have hp3 := ptrOk_cbuf s t (j2 + 1)
    cases hd2 : s.drop j2 with
    | nil =>
      -- end of the string instead of a digit
      rw [hd2] at hsign
      have hsc2 := sc_cases (0 : UInt8)
      simp only [zero_toNat] at hsc2
      rw [hd2, peek_nil] at hrd2
      rcases hj2a with ⟨h45, rfl, rfl⟩ | ⟨h45, rfl, rfl⟩ <;>
      · unfold string_to_location_coordinate.k_3_defined
        simp only [hrd0, hin0]; idx_norm; simp only [hrd1, hin1, hp1]
        split_ok; split_ok
        all_goals (idx_norm; simp only [hrd2, hin2, hp2 (by omega)])
        all_goals split_ok
        all_goals simp only [hcs, Flow.andThen, Bool.true_and, Bool.and_true, Bool.or_true, Bool.true_or, Bool.and_self, Bool.not_true, Bool.not_false]
    | cons c2 u2 =>
      obtain ⟨hlt2, hu2⟩ := drop_cons s j2 c2 u2 hd2
      rw [hd2] at hsign
      rw [hd2, peek_cons] at hrd2
      have hsc2 := sc_cases c2
      by_cases hdig2 : isDigit c2 = true
      · -- the digits of the exponent
        have hdv := digitVal_eq c2 hdig2
        have hdg := (isDigit_iff c2).mp hdig2
        obtain ⟨j4, er, m, hrun, hv, hdf⟩ := src_tie_coord_loop_4 s t 5 (j2 + 1) (digitVal c2) fuel (by omega) (by omega)
          (by unfold digitVal; omega) (by omega)
        have hv' : ∀ a b c : Int, a = ((j2 + 1 : Nat) : Int) → b = ((5 : Nat) : Int) → c = ((digitVal c2 : Nat) : Int) →
            string_to_location_coordinate.loop_4 fuel (s ++ 0 :: t) a b c = .next ((j4 : Int), (m : Int), (er : Int)) := by
          intro a b c h1 h2 h3; subst h1 h2 h3; exact hv
        have hdf' : ∀ a b c : Int, a = ((j2 + 1 : Nat) : Int) → b = ((5 : Nat) : Int) → c = ((digitVal c2 : Nat) : Int) →
            string_to_location_coordinate.loop_4_defined fuel (s ++ 0 :: t) a b c = true := by
          intro a b c h1 h2 h3; subst h1 h2 h3; exact hdf
        have hmod := hrun.model
        rw [hu2] at hmod
        by_cases hm0 : m = 0
        · -- too many digits
          subst hm0
          rcases hj2a with ⟨h45, rfl, rfl⟩ | ⟨h45, rfl, rfl⟩ <;>
          · unfold string_to_location_coordinate.k_3_defined
            simp only [hrd0, hin0]; idx_norm; simp only [hrd1, hin1, hp1]
            split_ok; split_ok
            all_goals (idx_norm; simp only [hrd2, hin2, hp2 (by omega)])
            all_goals split_ok
            all_goals (idx_norm; simp (disch := omega) only [hv', hdf', hp3 (by omega), hp2 (by omega)])
            all_goals simp only [Flow.bind, Flow.andThen]
            all_goals (try split_ok)
            all_goals simp only [hcs, Flow.andThen, Bool.true_and, Bool.and_true, Bool.or_true, Bool.true_or, Bool.and_self, Bool.not_true, Bool.not_false]
            all_goals (try (defined_split <;> omega))
        · -- the exponent
          have hmb : (m == 0) = false := by simpa using hm0
          have h10 := pow10_ge m hm0
          have hb := hrun.bound
          have her : er < 100000 := by
            have h1 : (er + 1) * 10 ≤ (er + 1) * 10 ^ m := Nat.mul_le_mul_left _ h10
            have h2 : (digitVal c2 + 1) * 10 ^ 5 ≤ 1000000 := by
              have : digitVal c2 + 1 ≤ 10 := by unfold digitVal; omega
              calc (digitVal c2 + 1) * 10 ^ 5 ≤ 10 * 10 ^ 5 := Nat.mul_le_mul_right _ this
                _ = 1000000 := by decide
            omega
          have hes : esign = 1 ∨ esign = -1 := by omega
          have hmul : (er : Int) * esign = er ∨ (er : Int) * esign = -er := by rcases hes with rfl | rfl <;> omega
          obtain ⟨h4, h4d, h4g⟩ := src_tie_coord_k4 s t i0 full j4 r2 e0 d fuel sg ((sc : Int) + (er : Int) * esign) hsg hr hrun.len hfull
            hext hdig hd (by omega) (by omega)
          rcases hj2a with ⟨h45, rfl, rfl⟩ | ⟨h45, rfl, rfl⟩ <;>
          · unfold string_to_location_coordinate.k_3_defined
            simp only [hrd0, hin0]; idx_norm; simp only [hrd1, hin1, hp1]
            split_ok; split_ok
            all_goals (idx_norm; simp only [hrd2, hin2, hp2 (by omega)])
            all_goals split_ok
            all_goals (idx_norm; simp (disch := omega) only [hv', hdf', hp3 (by omega), hp2 (by omega)])
            all_goals simp only [Flow.bind, Flow.andThen]
            all_goals (try split_ok)
            all_goals simp only [Flow.andThen]
            all_goals simp only [hcs, h4d, Bool.true_and, Bool.and_true, Bool.or_true, Bool.true_or, Bool.and_self, Bool.not_true, Bool.not_false]
            all_goals (try (defined_split <;> omega))
      · -- no digit
        have hdg := (isDigit_false_iff c2).mp (by simpa using hdig2)
        rcases hj2a with ⟨h45, rfl, rfl⟩ | ⟨h45, rfl, rfl⟩ <;>
        · unfold string_to_location_coordinate.k_3_defined
          simp only [hrd0, hin0]; idx_norm; simp only [hrd1, hin1, hp1]
          split_ok; split_ok
          all_goals (idx_norm; simp only [hrd2, hin2, hp2 (by omega)])
          all_goals split_ok
          all_goals simp only [hcs, Flow.andThen, Bool.true_and, Bool.and_true, Bool.or_true, Bool.true_or, Bool.and_self, Bool.not_true, Bool.not_false]
  · -- no exponent: scale stays
    have hm : expPart (s.drop j) = some (0, s.drop j) := expPart_no_e _ (by omega)
    obtain ⟨h4, h4d, h4g⟩ := src_tie_coord_k4 s t i0 full j r2 e0 d fuel sg (sc : Int) hsg hr hj hfull hext hdig hd (by omega) (by omega)
    unfold string_to_location_coordinate.k_3_defined
    simp only [hrd0, inB_cbuf s t j hj]
    split_ok
    simp only [Flow.andThen]
    simp only [h4d, Bool.true_and, Bool.and_true, Bool.or_true, Bool.true_or, Bool.and_self]

/-- stage 3: the exponent, then stage 4 -/
theorem src_tie_coord_k3 (s t : List UInt8) (i0 full j r2 sc e0 d fuel : Nat) (sg mdI : Int) (hsg : sg = 1 ∨ sg = -1)
    (hr : r2 < 4611686018427387904) (hj : j ≤ s.length) (hfull : full ≤ s.length)
    (hext : e0 + d ≤ s.length) (hdig : ∀ x, e0 ≤ x → x < e0 + d → isDigit (peek (s.drop x)) = true) (hd : d < 2147483648)
    (hsc : sc ≤ 8) (hfuel : 100010 ≤ fuel) :
        string_to_location_coordinate.k_3 fuel (s ++ 0 :: t) i0 j full r2 sg sc mdI e0 d =
      coordOut s i0 (stage3 sg r2 sc ((s.drop e0).take d) (s.drop j)) ∧
    string_to_location_coordinate.k_3_defined fuel (s ++ 0 :: t) i0 j full r2 sg sc mdI e0 d = true ∧
    GoodOut s (stage3 sg r2 sc ((s.drop e0).take d) (s.drop j)) := by
  have hv := src_tie_coord_k3_val s t i0 full j r2 sc e0 d fuel sg mdI hsg hr hj hfull hext hdig hd hsc hfuel
  exact ⟨hv.1, src_tie_coord_k3_def s t i0 full j r2 sc e0 d fuel sg mdI hsg hr hj hfull hext hdig hd hsc hfuel, hv.2⟩

end Osmium.SrcTie.Coord
