/-
The XML reader run piece by piece over the writer's markup: white space, `<tag>` / `<nd>` /
`<member>` children (helper lemmas for Props/C01Text.lean).
-/
import Osmium.Lemmas.XmlFmtObj

namespace Osmium.XmlFmt
open Osmium.Osm Osmium.TextFmt Osmium.Conv Osmium.Utf8

/-- the reader over a piece list (all entity types read) -/
def runPieces : List Piece → RSt → Except XErr RSt
  | [], st => .ok st
  | p :: ps, st =>
    match evOfPiece p with
    | none => .error .xml
    | some evs => bindE (runEvents {} evs st) (runPieces ps)

theorem runEvents_append (t : OplFmt.Types) (a b : List Ev) (st : RSt) :
    runEvents t (a ++ b) st = bindE (runEvents t a st) (runEvents t b) := by
  induction a generalizing st with
  | nil => rfl
  | cons e a ih =>
    simp only [List.cons_append, runEvents]
    cases stepEv t st e with
    | error x => rfl
    | ok st' => simp only [bindE_ok]; exact ih st'

/-- the piece-wise run is the run over the events of the whole list -/
theorem runEvents_eventsOf (ps : List Piece) (evs : List Ev) (h : eventsOf ps = some evs) (st : RSt) :
    runEvents {} evs st = runPieces ps st := by
  induction ps generalizing evs st with
  | nil => simp only [eventsOf] at h; cases h; rfl
  | cons p ps ih =>
    simp only [eventsOf] at h
    cases hp : evOfPiece p with
    | none => rw [hp] at h; simp at h
    | some a =>
      cases hq : eventsOf ps with
      | none => rw [hp, hq] at h; simp at h
      | some b =>
        rw [hp, hq] at h
        cases h
        rw [runEvents_append, runPieces, hp]
        simp only []
        generalize runEvents {} a st = r
        cases r with
        | error x => simp only [bindE_error]
        | ok st' => simp only [bindE_ok]; exact ih b hq st'

theorem runPieces_append (a b : List Piece) (st : RSt) :
    runPieces (a ++ b) st = bindE (runPieces a st) (runPieces b) := by
  induction a generalizing st with
  | nil => rfl
  | cons p a ih =>
    simp only [List.cons_append, runPieces]
    cases hp : evOfPiece p with
    | none => simp only [bindE_error]
    | some evs =>
      simp only []
      cases hr : runEvents {} evs st with
      | error x => simp only [bindE_error]
      | ok st' => simp only [bindE_ok]; exact ih st'

/-- character data is only looked at inside `<text>` -/
def NoText (st : RSt) : Prop := st.stack.head? ≠ some Ctx.text

theorem runPieces_ws (b : Bytes) (ps : List Piece) (st : RSt) (h : NoText st) :
    runPieces (.ws b :: ps) st = runPieces ps st := by
  have hc : ∀ t, characters {} st t = st := by
    intro t
    unfold characters
    have : (st.stack.head? == some Ctx.text) = false := by simpa [NoText] using h
    simp [this]
  simp only [runPieces, evOfPiece]
  split <;> simp [runEvents, stepEv, hc]

theorem runPieces_elem (n : String) (as as' : List (String × Bytes)) (sc : Bool) (ps : List Piece) (st : RSt)
    (h : decodeAttrs as = some as') :
    runPieces (.elem n as sc :: ps) st =
      bindE (startElement {} st n as') fun st1 =>
        if sc then bindE (endElement {} st1) (runPieces ps) else runPieces ps st1 := by
  simp only [runPieces, evOfPiece, h]
  cases sc
  · simp only [runEvents, stepEv, Bool.false_eq_true, if_false]
    cases startElement {} st n as' <;> rfl
  · simp only [runEvents, stepEv, if_true]
    cases startElement {} st n as' with
    | error x => rfl
    | ok st1 =>
      simp only [bindE_ok]
      cases endElement {} st1 <;> rfl

theorem runPieces_close (n : String) (ps : List Piece) (st : RSt) :
    runPieces (.close n :: ps) st = bindE (endElement {} st) (runPieces ps) := by
  simp only [runPieces, evOfPiece, runEvents, stepEv]
  cases endElement {} st <;> rfl

/-! ### `<tag>` children -/

/-- contexts whose objects take tags -/
def TagCtx (k : Ctx) : Prop := k = .node ∨ k = .way ∨ k = .relation ∨ k = .changeset

theorem tag_step (st : RSt) (k : Ctx) (hk : TagCtx k) (rest : List Ctx) (c : Cur) (hs : st.stack = k :: rest)
    (hc : st.cur = some c) (key val : Bytes) (hl1 : key.length ≤ 1024) (hl2 : val.length ≤ 1024) :
    bindE (startElement {} st "tag" [("k", key), ("v", val)]) (endElement {}) =
      .ok { st with cur := some (addTag c ⟨key, val⟩) } := by
  have hlen : ¬ (key.length > OplFmt.maxString ∨ val.length > OplFmt.maxString) := by
    simp [OplFmt.maxString]; omega
  rcases st with ⟨stack, header, version, headerOut, cur, out, ct⟩
  simp only at hs hc
  subst hs hc
  rcases hk with rfl | rfl | rfl | rfl <;>
    simp (config := { decide := true }) [startElement, push, withCur, getTag, lastAttr, hlen, endElement]

theorem tags_run (n : Nat) (ts : List Tag) (hts : ∀ t ∈ ts, xstrOK t.key = true ∧ xstrOK t.value = true)
    (ps : List Piece) (k : Ctx) (hk : TagCtx k) (rest : List Ctx) :
    ∀ (st : RSt) (c : Cur), st.stack = k :: rest → st.cur = some c →
      runPieces (tagPieces n ts ++ ps) st = runPieces ps { st with cur := some (ts.foldl addTag c) } := by
  have hnt : ∀ st : RSt, st.stack = k :: rest → NoText st := by
    intro st hs
    unfold NoText; rw [hs]
    rcases hk with rfl | rfl | rfl | rfl <;> simp
  induction ts with
  | nil =>
    intro st c hs hc
    have : ({ st with cur := some c } : RSt) = st := by cases st; simp_all
    simp [tagPieces, this]
  | cons t ts ih =>
    intro st c hs hc
    obtain ⟨h1, h2⟩ := hts t (by simp)
    obtain ⟨_, _, _, l1⟩ := xstrOK_spec h1
    obtain ⟨_, _, _, l2⟩ := xstrOK_spec h2
    have hdec : decodeAttrs [("k", Xml.escape t.key), ("v", Xml.escape t.value)] = some [("k", t.key), ("v", t.value)] := by
      simp [decodeAttrs, unescape_escape _ h1, unescape_escape _ h2]
    have hstep := tag_step st k hk rest c hs hc t.key t.value l1 l2
    have e : tagPieces n (t :: ts) ++ ps =
        sp (n + 2) :: .elem "tag" [("k", Xml.escape t.key), ("v", Xml.escape t.value)] true :: nl :: (tagPieces n ts ++ ps) := by
      simp [tagPieces]
    rw [e, sp, runPieces_ws _ _ _ (hnt st hs), runPieces_elem _ _ _ _ _ _ hdec]
    simp only [if_true]
    cases hst : startElement {} st "tag" [("k", t.key), ("v", t.value)] with
    | error x => rw [hst] at hstep; simp at hstep
    | ok st1 =>
      rw [hst] at hstep
      simp only [bindE_ok] at hstep ⊢
      rw [hstep]
      simp only [bindE_ok]
      rw [nl, runPieces_ws _ _ _ (hnt { st with cur := some (addTag c ⟨t.key, t.value⟩) } hs)]
      have := ih (fun t' ht' => hts t' (by simp [ht'])) { st with cur := some (addTag c t) } (addTag c t) hs rfl
      rw [this]
      rfl

/-! ### lists of children written with `mapE` -/

theorem children_run {α β : Type} (f : α → Except WErr (List Piece)) (add : Cur → β → Cur) (expect : α → β)
    (k : Ctx) (rest : List Ctx) (l : List α)
    (h : ∀ a ∈ l, ∃ x, f a = .ok x ∧ ∀ (st : RSt) (c : Cur) (ps : List Piece), st.stack = k :: rest → st.cur = some c →
      runPieces (x ++ ps) st = runPieces ps { st with cur := some (add c (expect a)) }) :
    ∃ xs, mapE f l = .ok xs ∧ ∀ (st : RSt) (c : Cur) (ps : List Piece), st.stack = k :: rest → st.cur = some c →
      runPieces (xs.flatten ++ ps) st = runPieces ps { st with cur := some ((l.map expect).foldl add c) } := by
  induction l with
  | nil =>
    refine ⟨[], rfl, ?_⟩
    intro st c ps hs hc
    have : ({ st with cur := some c } : RSt) = st := by cases st; simp_all
    simp [this]
  | cons a l ih =>
    obtain ⟨xs, hxs, hrun⟩ := ih (fun a' ha' => h a' (by simp [ha']))
    obtain ⟨x, hx, hx1⟩ := h a (by simp)
    refine ⟨x :: xs, by rw [mapE, hx, bindE_ok, hxs, bindE_ok], ?_⟩
    intro st c ps hs hc
    have e : (x :: xs).flatten ++ ps = x ++ (xs.flatten ++ ps) := by simp
    rw [e, hx1 st c _ hs hc, hrun { st with cur := some (add c (expect a)) } (add c (expect a)) ps hs rfl]
    rfl

/-! ### `<nd>` children -/

/-- node references of the XML domain: id in range, coordinates int32 -/
def XRefOK (n : NodeRef) : Prop :=
  int64Min < n.ref ∧ n.ref ≤ int64Max ∧ int32Min ≤ n.location.x ∧ n.location.x ≤ int32Max ∧
  int32Min ≤ n.location.y ∧ n.location.y ≤ int32Max

theorem nd_step (st : RSt) (rest : List Ctx) (c : Cur) (hs : st.stack = Ctx.way :: rest) (hc : st.cur = some c)
    (attrs : List (String × Bytes)) (nr : NodeRef) (h : ndAttrs attrs ⟨0, Location.undefined⟩ = .ok nr) :
    bindE (startElement {} st "nd" attrs) (endElement {}) = .ok { st with cur := some (addNode c nr) } := by
  rcases st with ⟨stack, header, version, headerOut, cur, out, ct⟩
  simp only at hs hc
  subst hs hc
  simp (config := { decide := true }) [startElement, push, withCur, h, endElement]

theorem nd_run (o : Opts) (p : Nat) (n : NodeRef) (hn : XRefOK n) (rest : List Ctx) :
    ∃ x, (bindE (intAttr "ref" n.ref) fun ar =>
        (Except.ok [sp (p + 2),
          Piece.elem "nd" (ar :: (if o.locationsOnWays && bothDefined n.location then latLon "lat" "lon" n.location else [])) true,
          nl] : Except WErr (List Piece))) = .ok x ∧
      ∀ (st : RSt) (c : Cur) (ps : List Piece), st.stack = Ctx.way :: rest → st.cur = some c →
        runPieces (x ++ ps) st = runPieces ps { st with cur := some (addNode c
          ({ n with location := if o.locationsOnWays then projectLoc n.location else Location.undefined } : NodeRef)) } := by
  obtain ⟨h0, h1, hx0, hx1, hy0, hy1⟩ := hn
  obtain ⟨rb, hrb, prb, rrb⟩ := wInt_rId n.ref h0 h1
  refine ⟨[sp (p + 2), Piece.elem "nd" (("ref", rb) ::
      (if o.locationsOnWays && bothDefined n.location then latLon "lat" "lon" n.location else [])) true, nl],
    by simp only [intAttr, hrb, bindE_ok], ?_⟩
  intro st c ps hs hc
  have hnt : ∀ st' : RSt, st'.stack = Ctx.way :: rest → NoText st' := by
    intro st' h; unfold NoText; rw [h]; simp
  cases hb : (o.locationsOnWays && bothDefined n.location)
  · -- reference only
    have hdec : decodeAttrs [("ref", rb)] = some [("ref", rb)] := decodeAttrs_one (unescape_plain _ prb)
    have hnd : ndAttrs [("ref", rb)] ⟨0, Location.undefined⟩ = .ok ⟨n.ref, Location.undefined⟩ := by
      simp (config := { decide := true }) [ndAttrs, rrb]
    have hloc : (if o.locationsOnWays then projectLoc n.location else Location.undefined) = Location.undefined := by
      cases hl : o.locationsOnWays
      · rfl
      · rw [hl] at hb; simp only [Bool.true_and] at hb; simp [projectLoc, hb]
    have hstep := nd_step st rest c hs hc _ _ hnd
    simp only [Bool.false_eq_true, if_false, List.cons_append, List.nil_append, sp, nl]
    rw [runPieces_ws _ _ _ (hnt st hs), runPieces_elem _ _ _ _ _ _ hdec]
    simp only [if_true]
    cases hst : startElement {} st "nd" [("ref", rb)] with
    | error x => rw [hst] at hstep; simp at hstep
    | ok st1 =>
      rw [hst] at hstep
      simp only [bindE_ok] at hstep ⊢
      rw [hstep]
      simp only [bindE_ok]
      rw [runPieces_ws _ _ _ (hnt { st with cur := some (addNode c ⟨n.ref, Location.undefined⟩) } hs), hloc]
  · -- with location
    have hl : o.locationsOnWays = true ∧ bothDefined n.location = true := by simpa using hb
    have hdec : decodeAttrs (("ref", rb) :: latLon "lat" "lon" n.location) = some (("ref", rb) :: latLon "lat" "lon" n.location) := by
      simp [decodeAttrs, latLon, unescape_plain _ prb, unescape_plain _ (formatCoord_plain _ hx0 hx1),
        unescape_plain _ (formatCoord_plain _ hy0 hy1)]
    have hnd : ndAttrs (("ref", rb) :: latLon "lat" "lon" n.location) ⟨0, Location.undefined⟩ = .ok ⟨n.ref, n.location⟩ := by
      simp (config := { decide := true }) [ndAttrs, latLon, rrb, rCoord_formatCoord _ hx0 hx1, rCoord_formatCoord _ hy0 hy1]
    have hloc : (if o.locationsOnWays then projectLoc n.location else Location.undefined) = n.location := by
      simp [hl.1, projectLoc, hl.2]
    have hstep := nd_step st rest c hs hc _ _ hnd
    simp only [if_true, List.cons_append, List.nil_append, sp, nl]
    rw [runPieces_ws _ _ _ (hnt st hs), runPieces_elem _ _ _ _ _ _ hdec]
    simp only [if_true]
    cases hst : startElement {} st "nd" (("ref", rb) :: latLon "lat" "lon" n.location) with
    | error x => rw [hst] at hstep; simp at hstep
    | ok st1 =>
      rw [hst] at hstep
      simp only [bindE_ok] at hstep ⊢
      rw [hstep]
      simp only [bindE_ok]
      rw [runPieces_ws _ _ _ (hnt { st with cur := some (addNode c ⟨n.ref, n.location⟩) } hs), hloc]

/-! ### `<member>` children -/

def XMemberOK (m : Member) : Prop :=
  (m.type = 1 ∨ m.type = 2 ∨ m.type = 3) ∧ int64Min < m.ref ∧ m.ref ≤ int64Max ∧ xstrOK m.role = true

theorem typeName_spec (t : Nat) (h : t = 1 ∨ t = 2 ∨ t = 3) :
    AllPlain (typeName t) ∧ charType (peek (typeName t)) = t := by
  rcases h with rfl | rfl | rfl <;> exact ⟨by intro b hb; revert b; decide, by decide⟩

theorem member_step (st : RSt) (rest : List Ctx) (c : Cur) (hs : st.stack = Ctx.relation :: rest) (hc : st.cur = some c)
    (attrs : List (String × Bytes)) (m : Member) (ht : m.type ≠ 0) (hl : m.role.length ≤ 1024)
    (h : memberAttrs attrs 0 0 false [] = .ok (m.type, m.ref, true, m.role)) :
    bindE (startElement {} st "member" attrs) (endElement {}) = .ok { st with cur := some (addMember c m) } := by
  rcases st with ⟨stack, header, version, headerOut, cur, out, ct⟩
  simp only at hs hc
  subst hs hc
  have hlen : ¬ (m.role.length > OplFmt.maxString) := by simp [OplFmt.maxString]; omega
  simp (config := { decide := true }) [startElement, push, withCur, h, endElement, ht, hlen]

theorem member_run (p : Nat) (m : Member) (hm : XMemberOK m) (rest : List Ctx) :
    ∃ x, (bindE (intAttr "ref" m.ref) fun ar =>
        (Except.ok [sp (p + 2), Piece.elem "member" [("type", typeName m.type), ar, ("role", Xml.escape m.role)] true, nl]
          : Except WErr (List Piece))) = .ok x ∧
      ∀ (st : RSt) (c : Cur) (ps : List Piece), st.stack = Ctx.relation :: rest → st.cur = some c →
        runPieces (x ++ ps) st = runPieces ps { st with cur := some (addMember c (id m)) } := by
  obtain ⟨ht, h0, h1, hr⟩ := hm
  obtain ⟨rb, hrb, prb, rrb⟩ := wInt_rId m.ref h0 h1
  obtain ⟨_, _, _, hlen⟩ := xstrOK_spec hr
  obtain ⟨tp, tc⟩ := typeName_spec m.type ht
  refine ⟨[sp (p + 2), Piece.elem "member" [("type", typeName m.type), ("ref", rb), ("role", Xml.escape m.role)] true, nl],
    by simp only [intAttr, hrb, bindE_ok], ?_⟩
  intro st c ps hs hc
  have hnt : ∀ st' : RSt, st'.stack = Ctx.relation :: rest → NoText st' := by
    intro st' h; unfold NoText; rw [h]; simp
  have hdec : decodeAttrs [("type", typeName m.type), ("ref", rb), ("role", Xml.escape m.role)]
      = some [("type", typeName m.type), ("ref", rb), ("role", m.role)] := by
    simp [decodeAttrs, unescape_plain _ tp, unescape_plain _ prb, unescape_escape _ hr]
  have hma : memberAttrs [("type", typeName m.type), ("ref", rb), ("role", m.role)] 0 0 false []
      = .ok (m.type, m.ref, true, m.role) := by
    simp (config := { decide := true }) [memberAttrs, rrb, tc]
  have hstep := member_step st rest c hs hc _ m (by rcases ht with h | h | h <;> omega) hlen hma
  simp only [List.cons_append, List.nil_append, sp, nl, id]
  rw [runPieces_ws _ _ _ (hnt st hs), runPieces_elem _ _ _ _ _ _ hdec]
  simp only [if_true]
  cases hst : startElement {} st "member" [("type", typeName m.type), ("ref", rb), ("role", m.role)] with
  | error x => rw [hst] at hstep; simp at hstep
  | ok st1 =>
    rw [hst] at hstep
    simp only [bindE_ok] at hstep ⊢
    rw [hstep]
    simp only [bindE_ok]
    rw [runPieces_ws _ _ _ (hnt { st with cur := some (addMember c m) } hs)]

/-! ### what the builders have collected -/

theorem foldl_addTag_open (ts : List Tag) : ∀ (c : Cur) (pre : List Sub) (t0 : List Tag),
    c.subs = pre ++ [.tags t0] → c.lastOpen = true →
    ts.foldl addTag c = { c with subs := pre ++ [.tags (t0 ++ ts)] } := by
  induction ts with
  | nil => intro c pre t0 h1 h2; cases c; simp_all
  | cons t ts ih =>
    intro c pre t0 h1 h2
    have hstep : addTag c t = { c with subs := pre ++ [.tags (t0 ++ [t])] } := by
      unfold addTag; rw [h2, h1]; simp
    rw [List.foldl_cons, hstep, ih { c with subs := pre ++ [.tags (t0 ++ [t])] } pre (t0 ++ [t]) rfl h2]
    simp

theorem foldl_addNode_open (ns : List NodeRef) : ∀ (c : Cur) (pre : List Sub) (n0 : List NodeRef),
    c.subs = pre ++ [.nodes n0] → c.lastOpen = true →
    ns.foldl addNode c = { c with subs := pre ++ [.nodes (n0 ++ ns)] } := by
  induction ns with
  | nil => intro c pre n0 h1 h2; cases c; simp_all
  | cons t ts ih =>
    intro c pre n0 h1 h2
    have hstep : addNode c t = { c with subs := pre ++ [.nodes (n0 ++ [t])] } := by
      unfold addNode; rw [h2, h1]; simp
    rw [List.foldl_cons, hstep, ih { c with subs := pre ++ [.nodes (n0 ++ [t])] } pre (n0 ++ [t]) rfl h2]
    simp

theorem foldl_addMember_open (ms : List Member) : ∀ (c : Cur) (pre : List Sub) (m0 : List Member),
    c.subs = pre ++ [.members m0] → c.lastOpen = true →
    ms.foldl addMember c = { c with subs := pre ++ [.members (m0 ++ ms)] } := by
  induction ms with
  | nil => intro c pre m0 h1 h2; cases c; simp_all
  | cons t ts ih =>
    intro c pre m0 h1 h2
    have hstep : addMember c t = { c with subs := pre ++ [.members (m0 ++ [t])] } := by
      unfold addMember; rw [h2, h1]; simp
    rw [List.foldl_cons, hstep, ih { c with subs := pre ++ [.members (m0 ++ [t])] } pre (m0 ++ [t]) rfl h2]
    simp

/-- tags added to a builder state whose last sub-item (if any) is not a tag list -/
theorem assemble_tags (obj : Object) (pre : List Sub) (lo : Bool) (ts : List Tag)
    (hpre : pre = [] ∨ (∃ ns, pre = [.nodes ns]) ∨ (∃ ms, pre = [.members ms])) :
    firstTags (ts.foldl addTag { obj := obj, subs := pre, lastOpen := lo }).subs = ts ∧
    firstNodes (ts.foldl addTag { obj := obj, subs := pre, lastOpen := lo }).subs = firstNodes pre ∧
    firstMembers (ts.foldl addTag { obj := obj, subs := pre, lastOpen := lo }).subs = firstMembers pre ∧
    (ts.foldl addTag { obj := obj, subs := pre, lastOpen := lo }).obj = obj := by
  cases ts with
  | nil => rcases hpre with rfl | ⟨ns, rfl⟩ | ⟨ms, rfl⟩ <;> simp [firstTags, firstNodes, firstMembers]
  | cons t ts =>
    have h1 : addTag { obj := obj, subs := pre, lastOpen := lo } t = { obj := obj, subs := pre ++ [.tags [t]], lastOpen := true } := by
      rcases hpre with rfl | ⟨ns, rfl⟩ | ⟨ms, rfl⟩ <;> cases lo <;> simp [addTag]
    rw [List.foldl_cons, h1, foldl_addTag_open ts _ pre [t] rfl rfl]
    rcases hpre with rfl | ⟨ns, rfl⟩ | ⟨ms, rfl⟩ <;> simp [firstTags, firstNodes, firstMembers]

theorem nodes_collected (obj : Object) (ns : List NodeRef) :
    ∃ pre lo, ns.foldl addNode { obj := obj } = { obj := obj, subs := pre, lastOpen := lo } ∧
      (pre = [] ∨ (∃ x, pre = [.nodes x]) ∨ (∃ x, pre = [.members x])) ∧ firstNodes pre = ns := by
  cases ns with
  | nil => exact ⟨[], false, rfl, Or.inl rfl, rfl⟩
  | cons n ns =>
    have h1 : addNode { obj := obj } n = { obj := obj, subs := [] ++ [.nodes [n]], lastOpen := true } := by simp [addNode]
    refine ⟨[.nodes (n :: ns)], true, ?_, Or.inr (Or.inl ⟨_, rfl⟩), rfl⟩
    rw [List.foldl_cons, h1, foldl_addNode_open ns _ [] [n] rfl rfl]
    simp

theorem members_collected (obj : Object) (ms : List Member) :
    ∃ pre lo, ms.foldl addMember { obj := obj } = { obj := obj, subs := pre, lastOpen := lo } ∧
      (pre = [] ∨ (∃ x, pre = [.nodes x]) ∨ (∃ x, pre = [.members x])) ∧ firstMembers pre = ms := by
  cases ms with
  | nil => exact ⟨[], false, rfl, Or.inl rfl, rfl⟩
  | cons n ns =>
    have h1 : addMember { obj := obj } n = { obj := obj, subs := [] ++ [.members [n]], lastOpen := true } := by simp [addMember]
    refine ⟨[.members (n :: ns)], true, ?_, Or.inr (Or.inr ⟨_, rfl⟩), rfl⟩
    rw [List.foldl_cons, h1, foldl_addMember_open ns _ [] [n] rfl rfl]
    simp

end Osmium.XmlFmt
