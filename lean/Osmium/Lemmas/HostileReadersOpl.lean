/-
C03 — every string the OPL line parser hands to a builder is at most `max_osm_string_length` bytes
long and contains no NUL byte, for EVERY line (Model/OplFmt.lean `parseLine`):
  * `opl_parse_string` only appends bytes that are not a stop character (NUL is one) and the UTF-8
    encodings of `%hex%` escapes, and `opl_parse_escaped` turns the value 0 into '%': no NUL byte;
  * lengths: `set_user` (repair bc6b907), `add_tag`, `add_member` throw `std::length_error`.
-/
import Osmium.Model.OplFmt
import Osmium.Model.HostileReaders
import Osmium.Lemmas.HostileGuards

namespace Osmium.HostileReaders

open Osmium.Osm Osmium.OplFmt Osmium.TextFmt Osmium.HostileLayout Osmium.HostilePbf

abbrev NZ (s : List UInt8) : Prop := ∀ b ∈ s, b ≠ 0

theorem noNul_of_NZ {s : List UInt8} (h : NZ s) : noNul s = true := by
  unfold noNul
  simp only [Bool.not_eq_true', List.contains_eq_mem, decide_eq_false_iff_not]
  intro hm
  exact h 0 hm rfl

theorem NZ_nil : NZ [] := fun _ h => by cases h

theorem NZ_append {a b : List UInt8} (ha : NZ a) (hb : NZ b) : NZ (a ++ b) := by
  intro x hx
  rcases List.mem_append.mp hx with h | h
  · exact ha x h
  · exact hb x h

/-! ### UTF-8 encodings of non-zero code points contain no NUL byte -/

theorem ofNat_ne_zero {n : Nat} (h : n % 256 ≠ 0) : UInt8.ofNat n ≠ 0 := by
  intro h0
  apply h
  have := congrArg UInt8.toNat h0
  simpa using this

theorem or_mod_ne_zero (x k : Nat) (hk : 0 < k) (hk2 : k < 256) : (x ||| k) % 256 ≠ 0 := by
  have h1 : (x ||| k) % 256 = (x % 256) ||| (k % 256) := by
    have := @Nat.or_mod_two_pow x k 8
    simpa using this
  rw [h1, Nat.mod_eq_of_lt hk2]
  have := @Nat.right_le_or (x % 256) k
  omega

theorem encode_NZ (v : Nat) (hv : v ≠ 0) : NZ (Utf8.encode v) := by
  unfold Utf8.encode
  intro b hb
  split at hb
  · rename_i h
    simp only [List.mem_singleton] at hb
    subst hb
    exact ofNat_ne_zero (by omega)
  · split at hb
    · simp only [List.mem_cons, List.not_mem_nil, or_false] at hb
      rcases hb with rfl | rfl <;> exact ofNat_ne_zero (or_mod_ne_zero _ _ (by decide) (by decide))
    · split at hb
      · simp only [List.mem_cons, List.not_mem_nil, or_false] at hb
        rcases hb with rfl | rfl | rfl <;> exact ofNat_ne_zero (or_mod_ne_zero _ _ (by decide) (by decide))
      · simp only [List.mem_cons, List.not_mem_nil, or_false] at hb
        rcases hb with rfl | rfl | rfl | rfl <;> exact ofNat_ne_zero (or_mod_ne_zero _ _ (by decide) (by decide))

/-! ### `opl_parse_escaped`, `opl_parse_string` -/

theorem parseEscaped_NZ : ∀ (n v : Nat) (s p r : List UInt8), Opl.parseEscaped n v s = .ok (p, r) → NZ p
  | 0, _, _, _, _, h => by simp [Opl.parseEscaped] at h
  | n + 1, v, [], _, _, h => by simp [Opl.parseEscaped] at h
  | n + 1, v, c :: s, p, r, h => by
    simp only [Opl.parseEscaped] at h
    split at h
    · cases h
    · split at h
      · injection h with h
        injection h with h1 _
        subst h1
        split
        · intro b hb; simp only [List.mem_singleton] at hb; subst hb; decide
        · rename_i hv; exact encode_NZ v hv
      · cases hv : Opl.hexVal c with
        | none => rw [hv] at h; cases h
        | some d => rw [hv] at h; exact parseEscaped_NZ n _ s p r h

theorem isStop_ne_zero {c : UInt8} (h : ¬ Opl.isStop c = true) : c ≠ 0 := by
  intro h0; subst h0; exact h (by decide)

theorem parseStringLoop_NZ : ∀ (f : Nat) (s v r : List UInt8), Opl.parseStringLoop f s = .ok (v, r) → NZ v
  | 0, _, _, _, h => by simp [Opl.parseStringLoop] at h
  | f + 1, [], v, r, h => by
    simp only [Opl.parseStringLoop] at h
    injection h with h; injection h with h1 _; subst h1; exact NZ_nil
  | f + 1, c :: s, v, r, h => by
    simp only [Opl.parseStringLoop] at h
    split at h
    · injection h with h; injection h with h1 _; subst h1; exact NZ_nil
    · rename_i hstop
      split at h
      · cases he : Opl.parseEscaped 8 0 s with
        | error e => rw [he] at h; cases h
        | ok pr =>
          obtain ⟨p, rest⟩ := pr
          rw [he] at h
          simp only at h
          cases hl : Opl.parseStringLoop f rest with
          | error e => rw [hl] at h; cases h
          | ok q =>
            obtain ⟨r2, rest'⟩ := q
            rw [hl] at h
            simp only at h
            injection h with h; injection h with h1 _; subst h1
            exact NZ_append (parseEscaped_NZ 8 0 s p rest he) (parseStringLoop_NZ f rest r2 rest' hl)
      · cases hl : Opl.parseStringLoop f s with
        | error e => rw [hl] at h; cases h
        | ok q =>
          obtain ⟨r2, rest'⟩ := q
          rw [hl] at h
          simp only at h
          injection h with h; injection h with h1 _; subst h1
          intro b hb
          rcases List.mem_cons.mp hb with rfl | hb
          · exact isStop_ne_zero hstop
          · exact parseStringLoop_NZ f s r2 rest' hl b hb

/-- `opl_parse_string`: the string it delivers contains no NUL byte, for any input -/
theorem pStr_NZ (s v r : List UInt8) (h : pStr s = .ok (v, r)) : NZ v := by
  unfold pStr Opl.parseString at h
  cases hl : Opl.parseStringLoop (s.length + 1) s with
  | error e => rw [hl] at h; cases h
  | ok q =>
    rw [hl] at h
    simp only at h
    injection h with h
    subst h
    exact parseStringLoop_NZ _ s _ _ hl

theorem bindE_ok_iff {ε α β : Type} (x : Except ε α) (f : α → Except ε β) (b : β) :
    bindE x f = .ok b ↔ ∃ a, x = .ok a ∧ f a = .ok b := by
  cases x with
  | ok a => simp [bindE]
  | error e => simp [bindE]

/-! ### tags, members -/

theorem maxString_eq : OplFmt.maxString = maxStr := rfl

theorem pTags_ok : ∀ (f : Nat) (s : List UInt8) (ts : List Tag), pTags f s = .ok ts →
    ∀ t ∈ ts, StrOk t.key ∧ StrOk t.value
  | 0, _, _, h => by simp [pTags] at h
  | f + 1, s, ts, h => by
    unfold pTags at h
    rw [bindE_ok_iff] at h; obtain ⟨⟨k, s1⟩, hk, h⟩ := h
    rw [bindE_ok_iff] at h; obtain ⟨s2, _, h⟩ := h
    rw [bindE_ok_iff] at h; obtain ⟨⟨v, s3⟩, hv, h⟩ := h
    simp only at h
    split at h
    · cases h
    · rename_i hlen
      simp only [Bool.or_eq_true, decide_eq_true_eq, not_or, Nat.not_lt] at hlen
      have hkv : StrOk k ∧ StrOk v :=
        ⟨⟨maxString_eq ▸ hlen.1, noNul_of_NZ (pStr_NZ _ _ _ hk)⟩, ⟨maxString_eq ▸ hlen.2, noNul_of_NZ (pStr_NZ _ _ _ hv)⟩⟩
      split at h
      · injection h with h; subst h
        intro t ht
        simp only [List.mem_singleton] at ht
        subst ht; exact hkv
      · rw [bindE_ok_iff] at h; obtain ⟨s4, _, h⟩ := h
        rw [bindE_ok_iff] at h; obtain ⟨ts', hts, h⟩ := h
        injection h with h; subst h
        intro t ht
        rcases List.mem_cons.mp ht with rfl | ht
        · exact hkv
        · exact pTags_ok f s4 ts' hts t ht

theorem finishTags_ok (tb : Option (List UInt8)) (ts : List Tag) (h : finishTags tb = .ok ts) :
    ∀ t ∈ ts, StrOk t.key ∧ StrOk t.value := by
  unfold finishTags at h
  split at h
  · injection h with h; subst h; intro t ht; cases ht
  · exact pTags_ok _ _ _ h

theorem pMember_ok (s : List UInt8) (m : Member) (r : List UInt8) (h : pMember s = .ok (m, r)) : StrOk m.role := by
  unfold pMember at h
  split at h
  · cases h
  · split at h
    · cases h
    · split at h
      · cases h
      · rw [bindE_ok_iff] at h; obtain ⟨⟨ref, s2⟩, _, h⟩ := h
        rw [bindE_ok_iff] at h; obtain ⟨s3, _, h⟩ := h
        simp only at h
        split at h
        · injection h with h; injection h with h1 _; subst h1; exact strOk_nil
        · rw [bindE_ok_iff] at h; obtain ⟨⟨role, s4⟩, hr, h⟩ := h
          simp only at h
          split at h
          · cases h
          · rename_i hlen
            injection h with h; injection h with h1 _; subst h1
            exact ⟨by simpa [OplFmt.maxString, maxStr] using hlen, noNul_of_NZ (pStr_NZ _ _ _ hr)⟩

theorem pSepList_ok {α : Type} (item : List UInt8 → Except PErr (α × List UInt8)) (P : α → Prop)
    (hitem : ∀ s a r, item s = .ok (a, r) → P a) :
    ∀ (f : Nat) (s : List UInt8) (as : List α), pSepList item f s = .ok as → ∀ a ∈ as, P a
  | 0, _, _, h => by simp [pSepList] at h
  | f + 1, s, as, h => by
    unfold pSepList at h
    split at h
    · injection h with h; subst h; intro a ha; cases ha
    · rw [bindE_ok_iff] at h; obtain ⟨⟨a, s3⟩, ha, h⟩ := h
      simp only at h
      split at h
      · injection h with h; subst h
        intro x hx
        simp only [List.mem_singleton] at hx
        subst hx; exact hitem _ _ _ ha
      · rw [bindE_ok_iff] at h; obtain ⟨s4, _, h⟩ := h
        rw [bindE_ok_iff] at h; obtain ⟨as', has, h⟩ := h
        injection h with h; subst h
        intro x hx
        rcases List.mem_cons.mp hx with rfl | hx
        · exact hitem _ _ _ ha
        · exact pSepList_ok item P hitem f s4 as' has x hx

/-! ### the attribute loop keeps "the user name seen so far is NUL-free" -/

theorem attrLoop_inv {σ : Type} (field : σ → UInt8 → List UInt8 → Except PErr (σ × List UInt8)) (P : σ → Prop)
    (hfield : ∀ st c s st' r, P st → field st c s = .ok (st', r) → P st') :
    ∀ (f : Nat) (st : σ) (s : List UInt8) (st' : σ), P st → attrLoop field f st s = .ok st' → P st'
  | 0, _, _, _, _, h => by simp [attrLoop] at h
  | f + 1, st, s, st', hp, h => by
    unfold attrLoop at h
    split at h
    · injection h with h; subst h; exact hp
    · rw [bindE_ok_iff] at h; obtain ⟨s1, _, h⟩ := h
      split at h
      · injection h with h; subst h; exact hp
      · rename_i c s2
        rw [bindE_ok_iff] at h; obtain ⟨⟨st1, s3⟩, hf, h⟩ := h
        exact attrLoop_inv field P hfield f st1 s3 st' (hfield _ _ _ _ _ hp hf) h

def UserNZ (u : Option (List UInt8)) : Prop := ∀ v, u = some v → NZ v

/-- a branch `if dup then error else bindE (p s) fun (v, r) => ok ({ st with … }, r)` that leaves `user` alone -/
macro "field_keep" h:ident hp:ident : tactic =>
  `(tactic| (split at $h:ident
             · cases $h:ident
             · rw [bindE_ok_iff] at $h:ident
               obtain ⟨⟨v, r'⟩, _, $h:ident⟩ := $h:ident
               injection $h:ident with $h:ident
               injection $h:ident with e _
               subst e
               exact $hp:ident))

/-- the `u` branch: the new user name comes from `opl_parse_string` -/
macro "field_user" h:ident : tactic =>
  `(tactic| (split at $h:ident
             · cases $h:ident
             · rw [bindE_ok_iff] at $h:ident
               obtain ⟨⟨v, r'⟩, hv, $h:ident⟩ := $h:ident
               injection $h:ident with $h:ident
               injection $h:ident with e _
               subst e
               intro u hu
               simp only [Option.some.injEq] at hu
               subst hu
               exact pStr_NZ _ _ _ hv))

/-- a coordinate branch: `if dup then error else if non-empty then bindE (pCoord s) … else ok …` -/
macro "field_coord" h:ident hp:ident : tactic =>
  `(tactic| (split at $h:ident
             · cases $h:ident
             · split at $h:ident
               · rw [bindE_ok_iff] at $h:ident
                 obtain ⟨⟨v, r'⟩, _, $h:ident⟩ := $h:ident
                 injection $h:ident with $h:ident
                 injection $h:ident with e _
                 subst e
                 exact $hp:ident
               · injection $h:ident with $h:ident
                 injection $h:ident with e _
                 subst e
                 exact $hp:ident))

theorem objField_user (k : Kind) (st : ObjSt) (c : UInt8) (s : List UInt8) (st' : ObjSt) (r : List UInt8)
    (hp : UserNZ st.user) (h : objField k st c s = .ok (st', r)) : UserNZ st'.user := by
  unfold objField at h
  by_cases h1 : c = 0x76
  · rw [if_pos h1] at h; field_keep h hp
  rw [if_neg h1] at h
  by_cases h2 : c = 0x64
  · rw [if_pos h2] at h; field_keep h hp
  rw [if_neg h2] at h
  by_cases h3 : c = 0x63
  · rw [if_pos h3] at h; field_keep h hp
  rw [if_neg h3] at h
  by_cases h4 : c = 0x74
  · rw [if_pos h4] at h; field_keep h hp
  rw [if_neg h4] at h
  by_cases h5 : c = 0x69
  · rw [if_pos h5] at h; field_keep h hp
  rw [if_neg h5] at h
  by_cases h6 : c = 0x75
  · rw [if_pos h6] at h
    field_user h
  rw [if_neg h6] at h
  by_cases h7 : c = 0x54
  · rw [if_pos h7] at h
    split at h
    · cases h
    · split at h <;> (injection h with h; injection h with e _; subst e; exact hp)
  rw [if_neg h7] at h
  by_cases h8 : (c = 0x78 && k == .node) = true
  · rw [if_pos h8] at h
    split at h
    · cases h
    · split at h
      · rw [bindE_ok_iff] at h; obtain ⟨⟨v, r'⟩, _, h⟩ := h
        injection h with h; injection h with e _; subst e; exact hp
      · injection h with h; injection h with e _; subst e; exact hp
  rw [if_neg h8] at h
  by_cases h9 : (c = 0x79 && k == .node) = true
  · rw [if_pos h9] at h
    split at h
    · cases h
    · split at h
      · rw [bindE_ok_iff] at h; obtain ⟨⟨v, r'⟩, _, h⟩ := h
        injection h with h; injection h with e _; subst e; exact hp
      · injection h with h; injection h with e _; subst e; exact hp
  rw [if_neg h9] at h
  split at h
  · split at h
    · cases h
    · injection h with h; injection h with e _; subst e; exact hp
  · cases h

theorem csField_user (st : CsSt) (c : UInt8) (s : List UInt8) (st' : CsSt) (r : List UInt8)
    (hp : UserNZ st.user) (h : csField st c s = .ok (st', r)) : UserNZ st'.user := by
  unfold csField at h
  by_cases h1 : c = 0x6b
  · rw [if_pos h1] at h; field_keep h hp
  rw [if_neg h1] at h
  by_cases h2 : c = 0x73
  · rw [if_pos h2] at h; field_keep h hp
  rw [if_neg h2] at h
  by_cases h3 : c = 0x65
  · rw [if_pos h3] at h; field_keep h hp
  rw [if_neg h3] at h
  by_cases h4 : c = 0x64
  · rw [if_pos h4] at h; field_keep h hp
  rw [if_neg h4] at h
  by_cases h5 : c = 0x69
  · rw [if_pos h5] at h; field_keep h hp
  rw [if_neg h5] at h
  by_cases h6 : c = 0x75
  · rw [if_pos h6] at h
    field_user h
  rw [if_neg h6] at h
  by_cases h7 : c = 0x78
  · rw [if_pos h7] at h; field_coord h hp
  rw [if_neg h7] at h
  by_cases h8 : c = 0x79
  · rw [if_pos h8] at h; field_coord h hp
  rw [if_neg h8] at h
  by_cases h9 : c = 0x58
  · rw [if_pos h9] at h; field_coord h hp
  rw [if_neg h9] at h
  by_cases h10 : c = 0x59
  · rw [if_pos h10] at h; field_coord h hp
  rw [if_neg h10] at h
  by_cases h11 : c = 0x54
  · rw [if_pos h11] at h
    split at h
    · cases h
    · split at h <;> (injection h with h; injection h with e _; subst e; exact hp)
  rw [if_neg h11] at h
  cases h

theorem userNZ_none : UserNZ none := fun _ h => by cases h

theorem getD_NZ (u : Option (List UInt8)) (h : UserNZ u) : NZ (u.getD []) := by
  cases u with
  | none => exact NZ_nil
  | some v => exact h v rfl

theorem setUserCheck_le (u : List UInt8) (h : setUserCheck u = .ok ()) : u.length ≤ maxStr := by
  unfold setUserCheck at h
  split at h
  · cases h
  · rename_i hn; simpa [OplFmt.maxString, maxStr] using hn

/-! ### objects -/

/-- all strings of the object are short and NUL-free -/
def ObjStrOk (o : Object) : Prop := ∀ s ∈ strsOf o, StrOk s

theorem strs_meta {user : List UInt8} {tags : List Tag} (hu : StrOk user)
    (ht : ∀ t ∈ tags, StrOk t.key ∧ StrOk t.value) : ∀ s ∈ user :: tagStrings tags, StrOk s := by
  intro s hs
  rcases List.mem_cons.mp hs with rfl | hs
  · exact hu
  · unfold tagStrings at hs
    obtain ⟨t, ht', hs⟩ := List.mem_flatMap.mp hs
    simp only [List.mem_cons, List.not_mem_nil, or_false] at hs
    rcases hs with rfl | rfl
    · exact (ht t ht').1
    · exact (ht t ht').2

theorem pObject_ok (k : Kind) (s : List UInt8) (o : Object) (h : pObject k s = .ok o) : ObjStrOk o := by
  unfold pObject at h
  rw [bindE_ok_iff] at h; obtain ⟨⟨id, s1⟩, _, h⟩ := h
  rw [bindE_ok_iff] at h; obtain ⟨st, hst, h⟩ := h
  rw [bindE_ok_iff] at h; obtain ⟨u, hu, h⟩ := h
  rw [bindE_ok_iff] at h; obtain ⟨tags, htags, h⟩ := h
  have hnz : UserNZ st.user :=
    attrLoop_inv (objField k) (fun st => UserNZ st.user) (fun st c s st' r hp hf => objField_user k st c s st' r hp hf)
      _ _ _ _ userNZ_none hst
  have huser : StrOk (st.user.getD []) := ⟨setUserCheck_le _ hu, noNul_of_NZ (getD_NZ _ hnz)⟩
  have htg := finishTags_ok _ _ htags
  cases k with
  | node =>
    simp only at h; injection h with h; subst h
    exact strs_meta huser htg
  | way =>
    simp only at h
    rw [bindE_ok_iff] at h; obtain ⟨ns, _, h⟩ := h
    injection h with h; subst h
    exact strs_meta huser htg
  | relation =>
    simp only at h
    rw [bindE_ok_iff] at h; obtain ⟨ms, hms, h⟩ := h
    injection h with h; subst h
    have hroles : ∀ m ∈ ms, StrOk m.role := by
      split at hms
      · injection hms with hms; subst hms; intro m hm; cases hm
      · exact pSepList_ok pMember (fun m => StrOk m.role) (fun s a r e => pMember_ok s a r e) _ _ _ hms
    intro x hx
    simp only [strsOf, metaOf] at hx
    rcases List.mem_cons.mp hx with rfl | hx
    · exact huser
    · rcases List.mem_append.mp hx with hx | hx
      · exact strs_meta huser htg x (List.mem_cons_of_mem _ hx)
      · obtain ⟨m, hm, rfl⟩ := List.mem_map.mp hx
        exact hroles m hm

theorem pChangeset_ok (s : List UInt8) (o : Object) (h : pChangeset s = .ok o) :
    ObjStrOk o ∧ ∃ a b c d e f g i j k, o = .changeset a b c d e f g i j k [] := by
  unfold pChangeset at h
  rw [bindE_ok_iff] at h; obtain ⟨⟨id, s1⟩, _, h⟩ := h
  rw [bindE_ok_iff] at h; obtain ⟨st, hst, h⟩ := h
  rw [bindE_ok_iff] at h; obtain ⟨u, hu, h⟩ := h
  rw [bindE_ok_iff] at h; obtain ⟨tags, htags, h⟩ := h
  have hnz : UserNZ st.user :=
    attrLoop_inv csField (fun st => UserNZ st.user) (fun st c s st' r hp hf => csField_user st c s st' r hp hf)
      _ _ _ _ userNZ_none hst
  have huser : StrOk (st.user.getD []) := ⟨setUserCheck_le _ hu, noNul_of_NZ (getD_NZ _ hnz)⟩
  have htg := finishTags_ok _ _ htags
  injection h with h; subst h
  refine ⟨?_, _, _, _, _, _, _, _, _, _, _, rfl⟩
  intro x hx
  simp only [strsOf, List.flatMap_nil, List.append_nil] at hx
  exact strs_meta huser htg x hx

/-- every object the OPL line parser delivers, for ANY line and entity filter: all its strings are
    at most 1024 bytes long and NUL-free; a changeset has no discussion -/
theorem parseLine_ok (types : Types) (line : List UInt8) (o : Object) (h : parseLine types line = .ok (some o)) :
    ObjStrOk o ∧ (∀ a b c d e f g i j k l, o = .changeset a b c d e f g i j k l → l = []) := by
  have hsome : ∀ (x : Except PErr Object), (bindE x fun o => .ok (some o)) = .ok (some o) → x = .ok o := by
    intro x hx
    rw [bindE_ok_iff] at hx
    obtain ⟨a, ha, hx⟩ := hx
    injection hx with hx; injection hx with hx; subst hx; exact ha
  have hobj : ∀ k s, pObject k s = .ok o → ObjStrOk o ∧
      (∀ a b c d e f g i j k l, o = .changeset a b c d e f g i j k l → l = []) := by
    intro k s hk
    refine ⟨pObject_ok k s o hk, ?_⟩
    intro a b c d e f g i j k' l ho
    subst ho
    unfold pObject at hk
    rw [bindE_ok_iff] at hk; obtain ⟨_, _, hk⟩ := hk
    rw [bindE_ok_iff] at hk; obtain ⟨_, _, hk⟩ := hk
    rw [bindE_ok_iff] at hk; obtain ⟨_, _, hk⟩ := hk
    rw [bindE_ok_iff] at hk; obtain ⟨_, _, hk⟩ := hk
    cases k with
    | node => simp only at hk; injection hk with hk; cases hk
    | way => simp only at hk; rw [bindE_ok_iff] at hk; obtain ⟨_, _, hk⟩ := hk; injection hk with hk; cases hk
    | relation => simp only at hk; rw [bindE_ok_iff] at hk; obtain ⟨_, _, hk⟩ := hk; injection hk with hk; cases hk
  have hcs : ∀ s, pChangeset s = .ok o → ObjStrOk o ∧
      (∀ a b c d e f g i j k l, o = .changeset a b c d e f g i j k l → l = []) := by
    intro s hk
    obtain ⟨h1, a, b, c, d, e, f, g, i, j, k, ho⟩ := pChangeset_ok s o hk
    refine ⟨h1, ?_⟩
    intro a' b' c' d' e' f' g' i' j' k' l ho'
    rw [ho] at ho'
    injection ho' with _ _ _ _ _ _ _ _ _ _ hl
    exact hl.symm
  unfold parseLine at h
  split at h
  · cases h
  · split at h
    · cases h
    · split at h
      · split at h
        · exact hobj _ _ (hsome _ h)
        · cases h
      · split at h
        · split at h
          · exact hobj _ _ (hsome _ h)
          · cases h
        · split at h
          · split at h
            · exact hobj _ _ (hsome _ h)
            · cases h
          · split at h
            · split at h
              · exact hcs _ (hsome _ h)
              · cases h
            · cases h

/-! ### the builder calls of the OPL reader satisfy `Guards` -/

theorem oplObjS_guards (fill : UInt8) (fixed : List UInt8) (o : Object) (hok : ObjStrOk o)
    (hf : fixed.length = (oplObjS fixed o).kind.sizeT - 8)
    (hs : objSize fill (oplObjS fixed o) < 2 ^ 32) : Guards fill (oplObjS fixed o) := by
  cases o with
  | node m l =>
    refine guards_of_subs fill _ hf (hok m.user (List.mem_cons_self ..)) ?_ hs
    exact tagsSub_strOk _ (tags_of_tagStrings _ fun s hs' => hok s (List.mem_cons_of_mem _ hs'))
  | way m ns =>
    refine guards_of_subs fill _ hf (hok m.user (List.mem_cons_self ..)) ?_ hs
    intro s hs'
    simp only [oplObjS, List.mem_append] at hs'
    rcases hs' with hs' | hs'
    · exact tagsSub_strOk _ (tags_of_tagStrings _ fun s hs'' => hok s (List.mem_cons_of_mem _ hs'')) s hs'
    · exact nodesSub_strOk ns s hs'
  | relation m ms =>
    refine guards_of_subs fill _ hf (hok m.user (List.mem_cons_self ..)) ?_ hs
    intro s hs'
    simp only [oplObjS, List.mem_append] at hs'
    rcases hs' with hs' | hs'
    · refine tagsSub_strOk _ (tags_of_tagStrings _ fun s hs'' => hok s ?_) s hs'
      simp only [strsOf, List.mem_cons, List.mem_append]
      exact Or.inl (Or.inr hs'')
    · refine membersSub_strOk ms (fun x hx => hok _ ?_) s hs'
      simp only [strsOf, List.mem_cons, List.mem_append, List.mem_map]
      exact Or.inr ⟨x, hx, rfl⟩
  | changeset a b c d e f user i j tags cs =>
    refine guards_of_subs fill _ hf (hok user (List.mem_cons_self ..)) ?_ hs
    refine tagsSub_strOk _ (tags_of_tagStrings _ fun s hs'' => hok s ?_)
    simp only [strsOf, List.mem_cons, List.mem_append]
    exact Or.inl (Or.inr hs'')

end Osmium.HostileReaders
