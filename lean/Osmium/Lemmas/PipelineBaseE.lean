/-
Pipeline base lemmas, part E: header promise fulfilled once; read thread joined by close().
-/
import Osmium.Lemmas.PipelineBaseA

namespace Osmium.Pipeline

open Osmium.Mon

set_option linter.unusedSimpArgs false

variable {α : Type}
variable [DecidableEq α]

/-! ## the header promise is fulfilled exactly once (C07) -/

theorem hdr_once (c : Cfg α) (s : State α) (h : (machine c).Reachable s) :
    s.hdrSets ≤ 1 ∧ (s.hdr = none ↔ s.hdrSets = 0) := by
  revert s
  apply Machine.invariant
  · simp [machine, init]
  · intro s e s' _ ih hst
    pl_cases e with hst q hq
    all_goals first
      | exact ih
      | (simp only [afterPop_hdr, afterPop_hdrSets, afterClose_hdr, afterClose_hdrSets]; exact ih)
      | (cases hh : s.hdr <;> simp_all)

theorem hdr_stable (c : Cfg α) (s s' : State α) (e : Ev α) (hst : (machine c).Step s e s') :
    s.hdr ≠ none → s'.hdr = s.hdr := by
  intro hne
  pl_cases e with hst q hq
  all_goals first
    | rfl
    | (simp only [afterPop_hdr, afterClose_hdr]; done)
    | (cases hh : s.hdr <;> simp_all)

/-! ## read thread: joined by close(), no read() afterwards -/

theorem reads_after_close_inv (c : Cfg α) (s : State α) (h : (machine c).Reachable s) :
    ∀ n, s.readsAtClose = some n → s.rpc = .done ∧ s.reads = n := by
  revert s
  apply Machine.invariant
  · simp [machine, init]
  · intro s e s' _ ih hst
    pl_cases e with hst q hq
    all_goals first
      | exact ih
      | (simp only [afterPop_readsAtClose, afterPop_rpc, afterPop_reads]; exact ih)
      | (intro n hn; have := ih n hn; simp_all; done)
      | (intro n; simp only [afterClose_readsAtClose, afterClose_rpc, afterClose_reads]
         cases hh : s.readsAtClose <;> simp_all)

theorem reads_after_close (c : Cfg α) (s : State α) (h : (machine c).Reachable s) :
    ∀ n, s.readsAtClose = some n → s.reads = n :=
  fun n hn => (reads_after_close_inv c s h n hn).2


/-- the read thread never leaves `done` -/
theorem rpc_done_stable (c : Cfg α) (s s' : State α) (e : Ev α) (hst : (machine c).Step s e s') :
    s.rpc = .done → s'.rpc = .done := by
  intro hd
  pl_cases e with hst q hq
  all_goals first
    | exact hd
    | (simp only [afterPop_rpc, afterClose_rpc]; exact hd)
    | simp_all

end Osmium.Pipeline
