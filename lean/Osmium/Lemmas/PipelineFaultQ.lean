/-
C05 under a blob-decode fault, part Q: the order theorems for EVERY configuration (any
`blobFault`, decoded in a worker or inline) and EVERY reachable state (also after shutdown()).

  `order_any`               delivered ++ in transit ++ upstream = `specAt c s.blob` (queue in use)
  `order_all_states`        the same with `unpopped` (queued, in flight or discarded) in every state
  `order_skipping`          delivered ++ in transit ++ upstream-without-the-lost-blob = `deliverSkipping c`
  `delivered_prefix_any`    delivered ++ back buffers is a prefix of `deliver c`
  `delivered_before`        … of `deliverBefore c` (the objects before the faulty blob)
-/
import Osmium.Lemmas.PipelineFaultC
import Osmium.Lemmas.PipelineOrderE

namespace Osmium.Pipeline.Fault

open Osmium.Mon Osmium.Pipeline Osmium.Pipeline.Order

variable {α : Type} [DecidableEq α]

set_option linter.unusedSimpArgs false
set_option linter.unusedVariables false

section spec
omit [DecidableEq α]

theorem faultyBlob_some {c : Cfg α} {b : Nat} (h : faultyBlob c = some b) :
    c.blobFault = some b ∧ c.pbf = true ∧ b < c.blobEnd.length := by
  unfold faultyBlob at h
  cases hb : c.blobFault with
  | none => simp [hb] at h
  | some b' =>
    simp only [hb] at h
    split at h
    · cases h; rename_i hh; exact ⟨rfl, hh⟩
    · cases h

theorem lostBlob_none_of_faultyBlob {c : Cfg α} (h : faultyBlob c = none) : lostBlob c = none := by
  cases hl : lostBlob c with
  | none => rfl
  | some b =>
    obtain ⟨h1, h2, _, h4⟩ := lostBlob_some hl
    simp [faultyBlob, h1, h2, h4] at h

theorem blobStart_mono {c : Cfg α} (hm : c.blobEnd.Pairwise (· ≤ ·)) {i j : Nat} (hij : i ≤ j)
    (hj : j ≤ c.blobEnd.length) : blobStart c i ≤ blobStart c j := by
  cases i with
  | zero => exact Nat.zero_le _
  | succ i =>
    cases j with
    | zero => omega
    | succ j =>
      simp only [blobStart, nth]
      have e1 : c.blobEnd.getD i 0 = c.blobEnd[i]'(by omega) := (List.getElem_eq_getD 0).symm
      have e2 : c.blobEnd.getD j 0 = c.blobEnd[j]'(by omega) := (List.getElem_eq_getD 0).symm
      rw [e1, e2]
      by_cases he : i = j
      · subst he; exact Nat.le_refl _
      · exact List.pairwise_iff_getElem.mp hm i j (by omega) (by omega) (by omega)

theorem blobStart_le_end {c : Cfg α} (hm : c.blobEnd.Pairwise (· ≤ ·)) {b : Nat} (hb : b < c.blobEnd.length) :
    blobStart c b ≤ nth c.blobEnd b :=
  blobStart_mono hm (Nat.le_succ b) hb

theorem take_seg (c : Cfg α) (a b : Nat) (h : a ≤ b) : c.file.take a ++ seg c a b = c.file.take b := by
  have := List.take_add (l := c.file) (i := a) (j := b - a)
  rw [show a + (b - a) = b by omega] at this
  rw [this]; rfl

end spec

/-! ## from the parser-side equation to the order theorems -/

/-- whatever the parser-side account `R` is: the consumer side, FIFO of the osmdata queue and "the
    consumer pops a prefix of the push() calls" turn it into the order equations and the prefix
    property -/
theorem assemble (c : Cfg α) (s : State α) (h : (machine c).Reachable s) (U R : List α)
    (hp : vals s s.outq.called ++ pend s ++ U = R) :
    s.delivered ++ (s.back.flatten ++ holding s ++ vals s (unpopped s) ++ pend s) ++ U = R ∧
    (s.outq.inUse = true → unpopped s = s.outq.items ++ QueueSM.inflight s.outq tP) ∧
    (s.outq.inUse = true → s.delivered ++ inTransit s ++ U = R) ∧
    (s.delivered ++ s.back.flatten) <+: R := by
  have hc := consumer_side c s h
  have hA := (invA c s h).called
  obtain ⟨rest, hrest⟩ := popped_prefix c (fun s hs x hx => ((invA c s hs).called x hx).1) s h
  have hun : unpopped s = rest := by
    unfold unpopped
    rw [← hrest]
    have : s.outq.popped.length = (s.outq.popped.map (fun p => p.2)).length := by simp
    rw [this, List.drop_left]
  have hq : s.outq.inUse = true → rest = s.outq.items ++ QueueSM.inflight s.outq tP := by
    intro hu
    have := q_prefix c.outqC s.outq (Q.reachable_outq c s h) hu tP (fun x hx => (hA x hx).1)
    rw [← hrest, List.append_assoc] at this
    exact (List.append_cancel_left this).symm
  have e1 : s.delivered ++ (s.back.flatten ++ holding s ++ vals s (unpopped s) ++ pend s) ++ U = R := by
    rw [← hp, ← hrest, vals_append, ← hc, hun]
    simp only [List.append_assoc]
  refine ⟨e1, fun hu => by rw [hun]; exact hq hu, fun hu => ?_, ?_⟩
  · rw [← e1, hun, hq hu, vals_append]
    simp only [inTransit, List.append_assoc]
  · exact ⟨holding s ++ vals s (unpopped s) ++ pend s ++ U, by rw [← e1]; simp only [List.append_assoc]⟩

/-- the order equation of every reachable state, for any configuration -/
theorem order_all_states (c : Cfg α) (s : State α) (h : (machine c).Reachable s) :
    s.delivered ++ (s.back.flatten ++ holding s ++ vals s (unpopped s) ++ pend s) ++ upstream c s = specAt c s.blob ∧
    (s.outq.inUse = true → unpopped s = s.outq.items ++ QueueSM.inflight s.outq tP) :=
  have := assemble c s h _ _ (parser_side_any c s h)
  ⟨this.1, this.2.1⟩

/-- `queue_of_futures_order` for any configuration (queue in use) -/
theorem order_any (c : Cfg α) (s : State α) (h : (machine c).Reachable s) (hu : s.outq.inUse = true) :
    s.delivered ++ inTransit s ++ upstream c s = specAt c s.blob :=
  (assemble c s h _ _ (parser_side_any c s h)).2.2.1 hu

/-- nothing is duplicated, reordered or invented — any configuration, any reachable state -/
theorem delivered_prefix_any (c : Cfg α) (s : State α) (h : (machine c).Reachable s) :
    (s.delivered ++ s.back.flatten) <+: deliver c := by
  by_cases hp : ∃ b, lostBlob c = some b ∧ b < s.blob
  · obtain ⟨b, hl, hb⟩ := hp
    have := delivered_before_lost c s h b hl hb
    rw [List.append_assoc] at this
    exact ((List.prefix_append _ _).trans (by rw [List.append_assoc]; exact this)).trans (proj_take_prefix_deliver c _)
  · have hp' := parser_side_any c s h
    rw [specAt_not_passed _ (fun b hl hb => hp ⟨b, hl, hb⟩)] at hp'
    exact (assemble c s h _ _ hp').2.2.2

/-- … and with a faulty blob (decoded in a worker or inline) only objects BEFORE that blob -/
theorem delivered_before (c : Cfg α) (hm : c.blobEnd.Pairwise (· ≤ ·)) (s : State α) (h : (machine c).Reachable s) :
    (s.delivered ++ s.back.flatten) <+: deliverBefore c := by
  unfold deliverBefore
  cases hf : faultyBlob c with
  | none => exact delivered_prefix_any c s h
  | some b =>
    show _ <+: proj c (c.file.take (blobStart c b))
    obtain ⟨hbf, hpbf, hlen⟩ := faultyBlob_some hf
    by_cases hpass : c.usePool = true ∧ b < s.blob
    · have hl := lostBlob_of hbf hpbf hpass.1 hlen
      exact (List.prefix_append _ _).trans (delivered_before_lost c s h b hl hpass.2)
    · have hble : s.blob ≤ b := by
        by_cases hu : c.usePool = true
        · have : ¬ b < s.blob := fun hh => hpass ⟨hu, hh⟩
          omega
        · exact (invNx c s h).inl (by simpa using hu) b hbf
      have hn : ∀ b', lostBlob c = some b' → ¬ b' < s.blob := by
        intro b' hl'
        have := (lostBlob_some hl').1
        rw [hbf] at this; cases this; omega
      have hh := handled_before_lost c s h hpbf hn
      have hpre := (assemble c s h [] (proj c (c.file.take s.next)) (by rw [List.append_nil]; exact hh)).2.2.2
      refine hpre.trans (proj_take_prefix c ?_)
      rw [(invNx c s h).next hpbf]
      exact blobStart_mono hm hble (by omega)

omit [DecidableEq α] in
theorem deliverBefore_prefix (c : Cfg α) : deliverBefore c <+: deliver c := by
  unfold deliverBefore
  cases faultyBlob c with
  | none => exact List.prefix_refl _
  | some b => exact proj_take_prefix_deliver c _

/-! ## the equation against `deliverSkipping c` -/

/-- parser side with the objects of the lost blob removed on BOTH sides: one equation for all states -/
theorem parser_side_skipping (c : Cfg α) (hm : c.blobEnd.Pairwise (· ≤ ·)) (s : State α)
    (h : (machine c).Reachable s) :
    vals s s.outq.called ++ pend s ++ upstreamSkipping c s = deliverSkipping c := by
  have hp := parser_side_any c s h
  cases hl : lostBlob c with
  | none =>
    rw [specAt_of_none hl] at hp
    simp only [upstreamSkipping, restSkipping, deliverSkipping, hl]
    exact hp
  | some b =>
    by_cases hb : b < s.blob
    · rw [specAt_passed _ hl hb] at hp
      have : ¬ s.blob ≤ b := by omega
      simp only [upstreamSkipping, restSkipping, deliverSkipping, hl, if_neg this]
      exact hp
    · obtain ⟨_, hpbf, _, hlen⟩ := lostBlob_some hl
      have hle : s.blob ≤ b := by omega
      have hh := handled_before_lost c s h hpbf (fun b' hb' => by rw [hl] at hb'; cases hb'; exact hb)
      obtain ⟨h1, h2⟩ := pbf_no_buffer c s h hpbf
      have hnext : s.next ≤ blobStart c b := by
        rw [(invNx c s h).next hpbf]; exact blobStart_mono hm hle (by omega)
      simp only [upstreamSkipping, restSkipping, deliverSkipping, hl, if_pos hle, h1, h2, List.flatten_nil,
        List.nil_append]
      rw [proj_append, ← List.append_assoc, hh, ← proj_append, take_seg c _ _ hnext]

/-- `queue_of_futures_order` against ONE state-independent right-hand side -/
theorem order_skipping (c : Cfg α) (hm : c.blobEnd.Pairwise (· ≤ ·)) (s : State α) (h : (machine c).Reachable s) :
    s.delivered ++ (s.back.flatten ++ holding s ++ vals s (unpopped s) ++ pend s) ++ upstreamSkipping c s
      = deliverSkipping c ∧
    (s.outq.inUse = true → s.delivered ++ inTransit s ++ upstreamSkipping c s = deliverSkipping c) :=
  have := assemble c s h _ _ (parser_side_skipping c hm s h)
  ⟨this.1, this.2.2.1⟩

/-! ## read() unpacking a buffer, in a reachable state -/

/-- When read() unpacks a ready future that holds a buffer, in ANY reachable state: there are no back
    buffers, every nested level of the buffer holds data, and the step is `afterPop`. -/
theorem cGet_buf_step (c : Cfg α) (s s' : State α) (lv : List (List α)) (h : (machine c).Reachable s)
    (hst : (machine c).Step s (.cGet (.buf lv)) s') :
    s' = afterPop s lv ∧ s.back = [] ∧ wfLevels lv = true := by
  have hA := invA c s h
  have hB := invB c s h
  simp only [Machine.Step, machine, step?] at hst
  split at hst
  · rename_i id hc
    split at hst
    · rename_i hf
      simp only [Option.some.injEq] at hst
      have hw := (hA.fut id _ (hA.got id hc).1 hf).1
      exact ⟨hst.symm, hB.back (.inr (.inr ⟨id, hc⟩)), hB.want id lv hw.symm⟩
    · cases hst
  · cases hst

end Osmium.Pipeline.Fault
