/-
The attribute loop of the OPL parser on what `write_meta`, `write_tags`, `write_location` and the
section writers emit (helper lemmas for Props/C01Text.lean).
-/
import Osmium.Lemmas.OplFmt

namespace Osmium.OplFmt
open Osmium.Osm Osmium.TextFmt Osmium.Conv Osmium.Utf8
open Osmium.Conv.IntLemmas (NoDigitHead)

/-- an optional field: present iff `b` -/
theorem loop_opt {σ : Type} (field : σ → UInt8 → Bytes → Except PErr (σ × Bytes)) (b : Bool) (c : UInt8)
    (hc : isSpTab c = false) (body rest : Bytes) (st st' : σ)
    (hf : b = true → field st c (body ++ rest) = .ok (st', rest)) (f : Nat) (r : σ)
    (h : attrLoop field f (if b then st' else st) rest = .ok r) :
    attrLoop field (f + 1) st ((if b then 0x20 :: c :: body else []) ++ rest) = .ok r := by
  cases b with
  | false => simpa using attrLoop_mono field f st rest r (by simpa using h)
  | true =>
    simp only [if_true, List.cons_append] at h ⊢
    exact attrLoop_step field f st st' c (body ++ rest) rest hc (hf rfl) r h

theorem loop_field {σ : Type} (field : σ → UInt8 → Bytes → Except PErr (σ × Bytes)) (c : UInt8)
    (hc : isSpTab c = false) (body rest : Bytes) (st st' : σ)
    (hf : field st c (body ++ rest) = .ok (st', rest)) (f : Nat) (r : σ)
    (h : attrLoop field f st' rest = .ok r) :
    attrLoop field (f + 1) st (0x20 :: c :: body ++ rest) = .ok r := by
  simp only [List.cons_append]
  exact attrLoop_step field f st st' c (body ++ rest) rest hc hf r h

/-! ### the cases of `objField` -/

theorem objField_v (k : Kind) (st : ObjSt) (hst : st.version = none) (v : Nat) (hv : v < 2147483648) (out rest : Bytes)
    (hp : pU32 (out ++ rest) = .ok (v, rest)) :
    objField k st 0x76 (out ++ rest) = .ok ({ st with version := some v }, rest) := by
  simp [objField, hst, hp, Nat.mod_eq_of_lt hv]

theorem objField_d (k : Kind) (st : ObjSt) (hst : st.visible = none) (vis : Bool) (rest : Bytes) :
    objField k st 0x64 ([if vis then 0x56 else 0x44] ++ rest) = .ok ({ st with visible := some vis }, rest) := by
  cases vis <;> simp [objField, hst, pVisible]

theorem objField_c (k : Kind) (st : ObjSt) (hst : st.changeset = none) (v : Nat) (out rest : Bytes)
    (hp : pU32 (out ++ rest) = .ok (v, rest)) :
    objField k st 0x63 (out ++ rest) = .ok ({ st with changeset := some v }, rest) := by
  simp [objField, hst, hp]

theorem objField_t (k : Kind) (st : ObjSt) (hst : st.timestamp = none) (v : Nat) (out rest : Bytes)
    (hp : pTs (out ++ rest) = .ok (v, rest)) :
    objField k st 0x74 (out ++ rest) = .ok ({ st with timestamp := some v }, rest) := by
  simp [objField, hst, hp]

theorem objField_i (k : Kind) (st : ObjSt) (hst : st.uid = none) (v : Nat) (out rest : Bytes)
    (hp : pU32 (out ++ rest) = .ok (v, rest)) :
    objField k st 0x69 (out ++ rest) = .ok ({ st with uid := some v }, rest) := by
  simp [objField, hst, hp]

theorem objField_u (k : Kind) (st : ObjSt) (hst : st.user = none) (v : Bytes) (out rest : Bytes)
    (hp : pStr (out ++ rest) = .ok (v, rest)) :
    objField k st 0x75 (out ++ rest) = .ok ({ st with user := some v }, rest) := by
  simp [objField, hst, hp]

theorem objField_T_empty (k : Kind) (st : ObjSt) (hst : st.hasTags = false) (rest : Bytes) (hr : Sep rest) :
    objField k st 0x54 rest = .ok ({ st with hasTags := true }, rest) := by
  simp [objField, hst, hr.notNonEmpty]

theorem objField_T (k : Kind) (st : ObjSt) (hst : st.hasTags = false) (sec rest : Bytes) (hne : sec ≠ []) (hs : AllNE sec)
    (hr : Sep rest) :
    objField k st 0x54 (sec ++ rest) = .ok ({ st with hasTags := true, tagsBegin := some (sec ++ rest) }, rest) := by
  simp [objField, hst, peek_append_ne hne hs, skipSection_append hs hr]

theorem objField_x_empty (st : ObjSt) (hst : st.hasLon = false) (rest : Bytes) (hr : Sep rest) :
    objField .node st 0x78 rest = .ok ({ st with hasLon := true }, rest) := by
  simp [objField, hst, hr.notNonEmpty]

theorem objField_y_empty (st : ObjSt) (hst : st.hasLat = false) (rest : Bytes) (hr : Sep rest) :
    objField .node st 0x79 rest = .ok ({ st with hasLat := true }, rest) := by
  simp [objField, hst, hr.notNonEmpty]

theorem objField_x (st : ObjSt) (hst : st.hasLon = false) (v : Int) (h1 : int32Min ≤ v) (h2 : v ≤ int32Max) (rest : Bytes)
    (hr : Sep rest) :
    objField .node st 0x78 (formatCoord v ++ rest) = .ok ({ st with hasLon := true, x := v }, rest) := by
  obtain ⟨hne, hn⟩ := formatCoord_shape v h1 h2
  simp [objField, hst, peek_append_ne hne (AllNE_of_num hn), formatCoord_pCoord v h1 h2 rest hr.terminates]

theorem objField_y (st : ObjSt) (hst : st.hasLat = false) (v : Int) (h1 : int32Min ≤ v) (h2 : v ≤ int32Max) (rest : Bytes)
    (hr : Sep rest) :
    objField .node st 0x79 (formatCoord v ++ rest) = .ok ({ st with hasLat := true, y := v }, rest) := by
  obtain ⟨hne, hn⟩ := formatCoord_shape v h1 h2
  simp [objField, hst, peek_append_ne hne (AllNE_of_num hn), formatCoord_pCoord v h1 h2 rest hr.terminates]

theorem objField_N (st : ObjSt) (hst : st.sec = none) (sec rest : Bytes) (hs : AllNE sec) (hr : Sep rest) :
    objField .way st 0x4e (sec ++ rest) = .ok ({ st with sec := some sec }, rest) := by
  simp [objField, hst, sectionOf_append hs hr, skipSection_append hs hr]

theorem objField_M (st : ObjSt) (hst : st.sec = none) (sec rest : Bytes) (hs : AllNE sec) (hr : Sep rest) :
    objField .relation st 0x4d (sec ++ rest) = .ok ({ st with sec := some sec }, rest) := by
  simp [objField, hst, sectionOf_append hs hr, skipSection_append hs hr]

/-! ### the metadata fields -/

/-- attributes common to nodes, ways and relations: the property's value domain -/
structure MetaOK (m : Meta) : Prop where
  id0 : int64Min < m.id
  id1 : m.id ≤ int64Max
  ver : m.version < 2147483648
  ts : m.timestamp < 4294967296
  cs : m.changeset ≤ 4294967295
  uid : m.uid < 2147483648
  user : strOK 0x110000 m.user = true
  tags : ∀ t ∈ m.tags, TagOK t

theorem wOptInt_ok (b : Bool) (c : UInt8) (v : Int) (out : Bytes) (h : wInt v = .ok out) :
    wOptInt b c v = .ok (if b then 0x20 :: c :: out else []) := by
  cases b <;> simp [wOptInt, h]

theorem Sep_opt (b : Bool) (c : UInt8) (body rest : Bytes) (h : Sep rest) :
    Sep ((if b then 0x20 :: c :: body else []) ++ rest) := by
  cases b
  · simpa using h
  · exact Or.inr ⟨_, rfl⟩

/-- the parser state after the metadata fields -/
def stMeta (o : Opts) (m : Meta) : ObjSt :=
  if o.md.any then
    { version := if o.md.version then some m.version else none,
      visible := some m.visible,
      changeset := if o.md.changeset then some m.changeset else none,
      timestamp := if o.md.timestamp then some m.timestamp else none,
      uid := if o.md.uid then some m.uid else none,
      user := if o.md.user then some m.user else none }
  else {}

theorem fields_loop (k : Kind) (o : Opts) (m : Meta) (hm : MetaOK m) :
    ∃ fb, wFields o m = .ok fb ∧ (∀ rest, Sep rest → Sep (fb ++ rest)) ∧ ∀ rest, Sep rest → ∀ (f : Nat) (r : ObjSt),
      attrLoop (objField k) f (stMeta o m) rest = .ok r → attrLoop (objField k) (f + 6) {} (fb ++ rest) = .ok r := by
  by_cases hany : o.md.any = true
  · obtain ⟨bv, hbv, _, _, pv⟩ := wInt_pU32 m.version (by have := hm.ver; omega)
    obtain ⟨bc, hbc, _, _, pc⟩ := wInt_pU32 m.changeset hm.cs
    obtain ⟨bi, hbi, _, _, pi⟩ := wInt_pU32 m.uid (by have := hm.uid; omega)
    obtain ⟨bu, hbu, _, pu⟩ := wStr_pStr m.user hm.user
    have hfu : (if o.md.user then bindE (wStr m.user) fun u => (Except.ok (0x20 :: 0x75 :: u) : Except WErr Bytes) else .ok [])
        = .ok (if o.md.user then 0x20 :: 0x75 :: bu else []) := by
      cases o.md.user <;> simp [hbu]
    refine ⟨(if o.md.version then 0x20 :: 0x76 :: bv else []) ++ ([0x20, 0x64, if m.visible then 0x56 else 0x44] ++
        ((if o.md.changeset then 0x20 :: 0x63 :: bc else []) ++ ((if o.md.timestamp then 0x20 :: 0x74 :: toIso m.timestamp else []) ++
        ((if o.md.uid then 0x20 :: 0x69 :: bi else []) ++ (if o.md.user then 0x20 :: 0x75 :: bu else []))))),
      by simp only [wFields, hany, if_true, wOptInt_ok _ _ _ _ hbv, wOptInt_ok _ _ _ _ hbc,
        wOptInt_ok _ _ _ _ hbi, hfu, bindE_ok], ?_, ?_⟩
    · intro rest _
      cases o.md.version
      · exact Or.inr ⟨_, rfl⟩
      · exact Or.inr ⟨_, rfl⟩
    intro rest hr f r h
    -- the states between the fields
    let s1 : ObjSt := { version := if o.md.version then some m.version else none }
    let s2 : ObjSt := { s1 with visible := some m.visible }
    let s3 : ObjSt := { s2 with changeset := if o.md.changeset then some m.changeset else none }
    let s4 : ObjSt := { s3 with timestamp := if o.md.timestamp then some m.timestamp else none }
    let s5 : ObjSt := { s4 with uid := if o.md.uid then some m.uid else none }
    have h6 : stMeta o m = { s5 with user := if o.md.user then some m.user else none } := by
      simp only [stMeta, hany, if_true, s1, s2, s3, s4, s5]
    rw [h6] at h
    have r5 : Sep ((if o.md.user then 0x20 :: 0x75 :: bu else []) ++ rest) := Sep_opt _ _ _ _ hr
    have r4 := Sep_opt o.md.uid 0x69 bi _ r5
    have r3 := Sep_opt o.md.timestamp 0x74 (toIso m.timestamp) _ r4
    have r2 := Sep_opt o.md.changeset 0x63 bc _ r3
    have r1 : Sep (([0x20, 0x64, if m.visible then 0x56 else 0x44] : Bytes) ++ ((if o.md.changeset then 0x20 :: 0x63 :: bc else []) ++
        ((if o.md.timestamp then 0x20 :: 0x74 :: toIso m.timestamp else []) ++ ((if o.md.uid then 0x20 :: 0x69 :: bi else []) ++
        ((if o.md.user then 0x20 :: 0x75 :: bu else []) ++ rest))))) := Or.inr ⟨_, rfl⟩
    have e5 : (if o.md.user then { s5 with user := some m.user } else s5)
        = { s5 with user := if o.md.user then some m.user else none } := by cases o.md.user <;> rfl
    have e4 : (if o.md.uid then { s4 with uid := some m.uid } else s4) = s5 := by
      simp only [s5]; cases o.md.uid <;> rfl
    have e3 : (if o.md.timestamp then { s3 with timestamp := some m.timestamp } else s3) = s4 := by
      simp only [s4]; cases o.md.timestamp <;> rfl
    have e2 : (if o.md.changeset then { s2 with changeset := some m.changeset } else s2) = s3 := by
      simp only [s3]; cases o.md.changeset <;> rfl
    have e0 : (if o.md.version then { ({} : ObjSt) with version := some m.version } else {}) = s1 := by
      simp only [s1]; cases o.md.version <;> rfl
    have h5 := loop_opt (objField k) o.md.user 0x75 (by decide) bu rest s5 { s5 with user := some m.user }
      (fun _ => objField_u k s5 rfl m.user bu rest (pu rest hr.atStop)) f r (by rw [e5]; exact h)
    have h4 := loop_opt (objField k) o.md.uid 0x69 (by decide) bi _ s4 { s4 with uid := some m.uid }
      (fun _ => objField_i k s4 rfl m.uid bi _ (pi _ r5.noDigit)) (f + 1) r (by rw [e4]; exact h5)
    have h3 := loop_opt (objField k) o.md.timestamp 0x74 (by decide) (toIso m.timestamp) _ s3 { s3 with timestamp := some m.timestamp }
      (fun _ => objField_t k s3 rfl m.timestamp (toIso m.timestamp) _ (toIso_pTs m.timestamp hm.ts _ r4)) (f + 1 + 1) r
      (by rw [e3]; exact h4)
    have h2 := loop_opt (objField k) o.md.changeset 0x63 (by decide) bc _ s2 { s2 with changeset := some m.changeset }
      (fun _ => objField_c k s2 rfl m.changeset bc _ (pc _ r3.noDigit)) (f + 1 + 1 + 1) r (by rw [e2]; exact h3)
    have h1 := loop_field (objField k) 0x64 (by decide) [if m.visible then 0x56 else 0x44] _ s1 s2
      (objField_d k s1 rfl m.visible _) (f + 1 + 1 + 1 + 1) r h2
    have h0 := loop_opt (objField k) o.md.version 0x76 (by decide) bv _ {} { ({} : ObjSt) with version := some m.version }
      (fun _ => objField_v k {} rfl m.version hm.ver bv _ (pv _ r1.noDigit)) (f + 1 + 1 + 1 + 1 + 1) r
      (by rw [e0]; exact h1)
    have hf : f + 6 = f + 1 + 1 + 1 + 1 + 1 + 1 := by omega
    rw [hf]
    simpa [List.append_assoc] using h0
  · have hany' : o.md.any = false := by simpa using hany
    refine ⟨[], by simp [wFields, hany'], fun rest hr => by simpa using hr, ?_⟩
    intro rest _ f r h
    simp only [stMeta, hany', Bool.false_eq_true, if_false] at h
    simpa using attrLoop_mono_add (objField k) f 6 {} rest r h

/-! ### tags -/

theorem tags_loop (k : Kind) (st : ObjSt) (hst : st.hasTags = false) (ts : List Tag) (hts : ∀ t ∈ ts, TagOK t) :
    ∃ tb, wTags ts = .ok tb ∧ (∀ rest, Sep (tb ++ rest)) ∧ ∀ rest, Sep rest → ∃ tbg, finishTags tbg = .ok ts ∧ ∀ (f : Nat) (r : ObjSt),
      attrLoop (objField k) f { st with hasTags := true, tagsBegin := if ts = [] then st.tagsBegin else tbg } rest = .ok r →
      attrLoop (objField k) (f + 1) st (tb ++ rest) = .ok r := by
  obtain ⟨xs, hxs, hne, hnn, hlen, hp⟩ := tags_spec ts hts
  refine ⟨0x20 :: 0x54 :: joinSep 0x2c xs, by simp [wTags, hxs], fun rest => Or.inr ⟨_, rfl⟩, ?_⟩
  intro rest hr
  by_cases hts0 : ts = []
  · subst hts0
    simp only [mapE] at hxs
    cases hxs
    refine ⟨none, rfl, ?_⟩
    intro f r h
    simp only [if_true] at h
    have := loop_field (objField k) 0x54 (by decide) [] rest st _ (objField_T_empty k st hst rest hr) f r
      (by simpa using h)
    simpa [joinSep] using this
  · refine ⟨some (joinSep 0x2c xs ++ rest), ?_, ?_⟩
    · simp only [finishTags]
      exact hp rest hr _ (by simp only [List.length_append]; omega) hts0
    · intro f r h
      simp only [hts0, if_false] at h
      exact loop_field (objField k) 0x54 (by decide) (joinSep 0x2c xs) rest st _
        (objField_T k st hst _ rest (hnn hts0) hne hr) f r h

/-! ### metadata as read back -/

theorem metaOf_stMeta (o : Opts) (m : Meta) (st : ObjSt)
    (h1 : st.version = (stMeta o m).version) (h2 : st.visible = (stMeta o m).visible)
    (h3 : st.changeset = (stMeta o m).changeset) (h4 : st.timestamp = (stMeta o m).timestamp)
    (h5 : st.uid = (stMeta o m).uid) (h6 : st.user = (stMeta o m).user) :
    metaOf m.id st m.tags = projectMeta o m := by
  simp only [metaOf, h1, h2, h3, h4, h5, h6, projectMeta, stMeta, MetaOpts.any]
  rcases o with ⟨⟨a, b, c, d, e⟩, _, _, _, _⟩
  cases m
  cases a <;> cases b <;> cases c <;> cases d <;> cases e <;> simp

/-- `set_user` accepts the user name of an in-domain object (≤ 1024 bytes) -/
theorem setUserCheck_stMeta (o : Opts) (m : Meta) (hm : MetaOK m) (st : ObjSt) (h : st.user = (stMeta o m).user) :
    setUserCheck (st.user.getD []) = .ok () := by
  have hl := strOK_len hm.user
  rw [h]
  unfold setUserCheck stMeta
  cases o.md.any <;> cases o.md.user <;> simp [maxString] <;> omega

theorem stMeta_defaults (o : Opts) (m : Meta) :
    (stMeta o m).hasTags = false ∧ (stMeta o m).tagsBegin = none ∧ (stMeta o m).hasLon = false ∧
    (stMeta o m).hasLat = false ∧ (stMeta o m).x = Location.undefinedCoordinate ∧
    (stMeta o m).y = Location.undefinedCoordinate ∧ (stMeta o m).sec = none := by
  unfold stMeta; cases o.md.any <;> simp

theorem finishTags_sel (ts : List Tag) (tb0 tbg : Option Bytes) (h0 : tb0 = none) (h : finishTags tbg = .ok ts) :
    finishTags (if ts = [] then tb0 else tbg) = .ok ts := by
  by_cases hts : ts = []
  · subst hts; subst h0; rfl
  · simp [hts, h]

/-- everything in front of the kind-specific part: id, metadata fields, tags -/
theorem prefix_loop (k : Kind) (o : Opts) (m : Meta) (hm : MetaOK m) :
    ∃ idb mb, wMeta o m = .ok (idb ++ mb) ∧
      ∀ rest, Sep rest →
        pId (idb ++ (mb ++ rest)) = .ok (m.id, mb ++ rest) ∧
        ∃ tbg, finishTags tbg = .ok m.tags ∧ ∀ (f : Nat) (r : ObjSt),
          attrLoop (objField k) f { stMeta o m with hasTags := true, tagsBegin := tbg } rest = .ok r →
          attrLoop (objField k) (f + 7) {} (mb ++ rest) = .ok r := by
  obtain ⟨idb, hid, _, _, hidp⟩ := wInt_pId m.id hm.id0 hm.id1
  obtain ⟨fb, hfb, hfs, hfl⟩ := fields_loop k o m hm
  obtain ⟨hd1, hd2, _⟩ := stMeta_defaults o m
  obtain ⟨tb, htb, hts, htl⟩ := tags_loop k (stMeta o m) hd1 m.tags hm.tags
  refine ⟨idb, fb ++ tb, by simp [wMeta, hid, hfb, htb], ?_⟩
  intro rest hr
  have e1 : (fb ++ tb) ++ rest = fb ++ (tb ++ rest) := by simp
  constructor
  · rw [e1]; exact hidp _ (hfs _ (hts rest)).noDigit
  · obtain ⟨tbg, hft, hl⟩ := htl rest hr
    refine ⟨if m.tags = [] then (stMeta o m).tagsBegin else tbg, finishTags_sel _ _ _ hd2 hft, ?_⟩
    intro f r h
    rw [e1]
    exact hfl _ (hts rest) (f + 1) r (hl f r h)

theorem loopFuel_ge {σ : Type} (field : σ → UInt8 → Bytes → Except PErr (σ × Bytes)) (n : Nat) (hn : n ≤ 16)
    (st : σ) (s : Bytes) (r : σ) (h : attrLoop field n st s = .ok r) : attrLoop field (loopFuel s) st s = .ok r := by
  have := attrLoop_mono_add field n (loopFuel s - n) st s r h
  have e : n + (loopFuel s - n) = loopFuel s := by unfold loopFuel; omega
  rwa [e] at this

theorem parseLine_node (s : Bytes) : parseLine {} (0x6e :: s) = bindE (pObject .node s) fun o => .ok (some o) := by
  simp [parseLine]
theorem parseLine_way (s : Bytes) : parseLine {} (0x77 :: s) = bindE (pObject .way s) fun o => .ok (some o) := by
  simp [parseLine]
theorem parseLine_relation (s : Bytes) : parseLine {} (0x72 :: s) = bindE (pObject .relation s) fun o => .ok (some o) := by
  simp [parseLine]

theorem node_roundtrip (o : Opts) (m : Meta) (l : Location) (hm : MetaOK m)
    (hl : l = Location.undefined ∨ valid l = true) :
    ∃ line, writeObject o (.node m l) = .ok (line ++ [0x0a]) ∧
      parseLine {} line = .ok (some (project o (.node m l))) := by
  obtain ⟨idb, mb, hw, hp⟩ := prefix_loop .node o m hm
  obtain ⟨_, _, hd3, hd4, hd5, hd6, _⟩ := stMeta_defaults o m
  refine ⟨0x6e :: (idb ++ (mb ++ wLocation l 0x78 0x79)), by simp [writeObject, hw], ?_⟩
  have hsep : Sep (wLocation l 0x78 0x79) := by unfold wLocation; split <;> exact Or.inr ⟨_, rfl⟩
  obtain ⟨hpid, tbg, hft, hloop⟩ := hp _ hsep
  rw [parseLine_node, pObject, hpid]
  simp only [bindE_ok]
  rcases hl with hu | hv
  · -- undefined location: " x y"
    have hiu : isUndefined l = true := by rw [hu]; decide
    let st0 : ObjSt := { stMeta o m with hasTags := true, tagsBegin := tbg }
    have hy := loop_field (objField .node) 0x79 (by decide) [] [] { st0 with hasLon := true } _
      (objField_y_empty { st0 with hasLon := true } hd4 [] (Or.inl rfl)) 1 _ (attrLoop_nil _ 0 _)
    have hx := loop_field (objField .node) 0x78 (by decide) [] [0x20, 0x79] st0 _
      (objField_x_empty st0 hd3 _ (Or.inr ⟨_, rfl⟩)) 2 _ (by simpa using hy)
    have hall := hloop 3 _ (by simpa [wLocation, hiu] using hx)
    rw [loopFuel_ge _ 10 (by decide) _ _ _ hall]
    have hft' : finishTags st0.tagsBegin = .ok m.tags := hft
    have hnv : valid ⟨st0.x, st0.y⟩ = false := by
      simp only [st0, hd5, hd6]; decide
    simp only [bindE_ok]
    rw [setUserCheck_stMeta o m hm _ rfl]
    simp only [bindE_ok, hft', hnv, Bool.false_eq_true, if_false, project, hu]
    refine congrArg (fun x => Except.ok (some (Object.node x _))) ?_
    apply metaOf_stMeta <;> rfl
  · -- valid location: " x<lon> y<lat>"
    obtain ⟨hx1, hx2, hy1, hy2, _, hnu⟩ := valid_range hv
    let st0 : ObjSt := { stMeta o m with hasTags := true, tagsBegin := tbg }
    have hy := loop_field (objField .node) 0x79 (by decide) (formatCoord l.y) [] { st0 with hasLon := true, x := l.x } _
      (objField_y { st0 with hasLon := true, x := l.x } hd4 l.y hy1 hy2 [] (Or.inl rfl)) 1 _ (attrLoop_nil _ 0 _)
    have hx := loop_field (objField .node) 0x78 (by decide) (formatCoord l.x) (0x20 :: 0x79 :: formatCoord l.y) st0 _
      (objField_x st0 hd3 l.x hx1 hx2 _ (Or.inr ⟨_, rfl⟩)) 2 _ (by simpa using hy)
    have hall := hloop 3 _ (by simpa [wLocation, hnu] using hx)
    rw [loopFuel_ge _ 10 (by decide) _ _ _ hall]
    have hft' : finishTags st0.tagsBegin = .ok m.tags := hft
    have hvv : valid ⟨l.x, l.y⟩ = true := hv
    simp only [bindE_ok]
    rw [setUserCheck_stMeta o m hm _ rfl]
    simp only [bindE_ok, hft', hvv, if_true, project]
    refine congrArg (fun x => Except.ok (some (Object.node x _))) ?_
    apply metaOf_stMeta <;> rfl

theorem way_roundtrip (o : Opts) (m : Meta) (ns : List NodeRef) (hm : MetaOK m) (hns : ∀ n ∈ ns, RefOK n) :
    ∃ line, writeObject o (.way m ns) = .ok (line ++ [0x0a]) ∧
      parseLine {} line = .ok (some (project o (.way m ns))) := by
  obtain ⟨idb, mb, hw, hp⟩ := prefix_loop .way o m hm
  obtain ⟨_, _, _, _, _, _, hd7⟩ := stMeta_defaults o m
  let expect : NodeRef → NodeRef := fun n => if o.locationsOnWays then n else { n with location := Location.undefined }
  obtain ⟨xs, hxs, hne, hlen, hsl⟩ := sepList_spec (if o.locationsOnWays then wFieldRef else wPlainRef) pWayNode expect ns
    (by
      intro n hn
      cases hlow : o.locationsOnWays
      · simpa [expect, hlow] using wPlainRef_spec n (hns n hn)
      · simpa [expect, hlow] using wFieldRef_spec n (hns n hn))
  refine ⟨0x77 :: (idb ++ (mb ++ 0x20 :: 0x4e :: joinSep 0x2c xs)), by simp [writeObject, hw, hxs], ?_⟩
  obtain ⟨hpid, tbg, hft, hloop⟩ := hp (0x20 :: 0x4e :: joinSep 0x2c xs) (Or.inr ⟨_, rfl⟩)
  rw [parseLine_way, pObject, hpid]
  simp only [bindE_ok]
  let st0 : ObjSt := { stMeta o m with hasTags := true, tagsBegin := tbg }
  have hN := loop_field (objField .way) 0x4e (by decide) (joinSep 0x2c xs) [] st0 _
    (objField_N st0 hd7 _ [] hne (Or.inl rfl)) 1 _ (attrLoop_nil _ 0 _)
  have hall := hloop 2 _ (by simpa using hN)
  rw [loopFuel_ge _ 9 (by decide) _ _ _ hall]
  have hft' : finishTags st0.tagsBegin = .ok m.tags := hft
  have hnodes : pWayNodes ((joinSep 0x2c xs).length + 1) (joinSep 0x2c xs) = .ok (ns.map expect) :=
    hsl _ (by omega)
  simp only [bindE_ok]
  rw [setUserCheck_stMeta o m hm _ rfl]
  simp only [bindE_ok, hft', hnodes, project]
  have hex : ns.map expect = (if o.locationsOnWays then ns else ns.map fun n => { n with location := Location.undefined }) := by
    cases hlow : o.locationsOnWays <;> simp [expect, hlow]
  rw [hex]
  refine congrArg (fun x => Except.ok (some (Object.way x _))) ?_
  apply metaOf_stMeta <;> rfl

theorem relation_roundtrip (o : Opts) (m : Meta) (ms : List Member) (hm : MetaOK m) (hms : ∀ x ∈ ms, MemberOK x) :
    ∃ line, writeObject o (.relation m ms) = .ok (line ++ [0x0a]) ∧
      parseLine {} line = .ok (some (project o (.relation m ms))) := by
  obtain ⟨idb, mb, hw, hp⟩ := prefix_loop .relation o m hm
  obtain ⟨_, _, _, _, _, _, hd7⟩ := stMeta_defaults o m
  obtain ⟨xs, hxs, hne, hlen, hsl⟩ := sepList_spec wMember pMember id ms (fun x hx => wMember_spec x (hms x hx))
  refine ⟨0x72 :: (idb ++ (mb ++ 0x20 :: 0x4d :: joinSep 0x2c xs)), by simp [writeObject, hw, hxs], ?_⟩
  obtain ⟨hpid, tbg, hft, hloop⟩ := hp (0x20 :: 0x4d :: joinSep 0x2c xs) (Or.inr ⟨_, rfl⟩)
  rw [parseLine_relation, pObject, hpid]
  simp only [bindE_ok]
  let st0 : ObjSt := { stMeta o m with hasTags := true, tagsBegin := tbg }
  have hM := loop_field (objField .relation) 0x4d (by decide) (joinSep 0x2c xs) [] st0 _
    (objField_M st0 hd7 _ [] hne (Or.inl rfl)) 1 _ (attrLoop_nil _ 0 _)
  have hall := hloop 2 _ (by simpa using hM)
  rw [loopFuel_ge _ 9 (by decide) _ _ _ hall]
  have hft' : finishTags st0.tagsBegin = .ok m.tags := hft
  have hmem : pMembers ((joinSep 0x2c xs).length + 1) (joinSep 0x2c xs) = .ok ms := by
    have := hsl ((joinSep 0x2c xs).length + 1) (by omega)
    simpa [pMembers] using this
  simp only [bindE_ok]
  rw [setUserCheck_stMeta o m hm _ rfl]
  simp only [bindE_ok, hft', hmem, project]
  refine congrArg (fun x => Except.ok (some (Object.relation x _))) ?_
  apply metaOf_stMeta <;> rfl

end Osmium.OplFmt
