/-
The writer state machine (`WState.write` / `switchTo` / `store`) against the object sequence: as long as no
`SerializeBlob` reported an error, the finished data blobs and the block under construction decode to the
projections of the objects written so far, in order.
-/
import Osmium.Lemmas.PbfFileBlock

namespace Osmium.Pbf

open Osmium.Wire Osmium.Osm Osmium.PbfMsg
open Osmium.StringTable (Table lookup)

/-- two lists related element-wise (core has no `All2`) -/
inductive All2 {α β : Type} (R : α → β → Prop) : List α → List β → Prop
  | nil : All2 R [] []
  | cons {a : α} {b : β} {l : List α} {m : List β} : R a b → All2 R l m → All2 R (a :: l) (b :: m)

/-- a framed data blob and what its PrimitiveBlock message decodes to -/
def BlobDec (f : Bytes) (d : List Object) : Prop :=
  ∃ msg, frameBlob PbfFraming.osmData msg = some f ∧ withFields msg (decodeBlock {}) = some d

/-- what the current block stands for -/
def CurInv (o : Opts) : Option Block → List Object → Prop
  | none, curd => curd = []
  | some b, curd => BlockInv o b curd

/-- finished blobs (oldest first) decode to `done`, the current block holds `curd` -/
def WInv (o : Opts) (s : WState) (dec : List Object) : Prop :=
  s.failed = false → ∃ (done : List (List Object)) (curd : List Object),
    dec = done.flatten ++ curd ∧ All2 BlobDec s.out.reverse done ∧ CurInv o s.cur curd

theorem winv_init (o : Opts) : WInv o {} [] := fun _ => ⟨[], [], rfl, All2.nil, rfl⟩

theorem forall₂_snoc {α β : Type} {R : α → β → Prop} {l : List α} {m : List β} {a : α} {b : β}
    (h : All2 R l m) (hab : R a b) : All2 R (l ++ [a]) (m ++ [b]) := by
  induction h with
  | nil => exact All2.cons hab All2.nil
  | cons h1 _ ih => exact All2.cons h1 ih

theorem store_failed (o : Opts) (s : WState) (h : (s.store o).failed = false) : s.failed = false := by
  unfold WState.store at h
  split at h
  · exact h
  · split at h
    · exact h
    · split at h
      · exact h
      · simp at h

/-- `store_primitive_block`: afterwards the current block is empty -/
theorem store_winv (o : Opts) (s : WState) (dec : List Object) (h : WInv o s dec) :
    (s.store o).failed = false → ∃ done : List (List Object),
      dec = done.flatten ∧ All2 BlobDec (s.store o).out.reverse done ∧
      (∀ b, (s.store o).cur = some b → b.count = 0) := by
  intro hf
  obtain ⟨done, curd, hdec, hout, hcur⟩ := h (store_failed o s hf)
  unfold WState.store at hf ⊢
  cases hc : s.cur with
  | none =>
    rw [hc] at hcur
    simp only [CurInv] at hcur
    subst hcur
    simp only [hc]
    exact ⟨done, by simpa using hdec, hout, fun b hb => by simp at hb⟩
  | some b =>
    rw [hc] at hcur
    simp only [CurInv] at hcur
    simp only [hc] at hf ⊢
    by_cases h0 : (b.count == 0) = true
    · simp only [h0, ↓reduceIte] at hf ⊢
      have hc0 : b.count = 0 := by simpa using h0
      have : curd = [] := List.eq_nil_of_length_eq_zero (by rw [← hcur.count, hc0])
      subst this
      exact ⟨done, by simpa using hdec, hout, fun b' hb' => by rw [hc] at hb'; cases hb'; exact hc0⟩
    · simp only [h0, Bool.false_eq_true, ↓reduceIte] at hf ⊢
      have hc0 : b.count ≠ 0 := by simpa using h0
      cases hfr : frameBlob PbfFraming.osmData (b.message o) with
      | none => simp [hfr] at hf
      | some f =>
        simp only
        have hd := blockInv_message_decode o b curd hcur hc0 (frameBlob_some _ _ _ hfr)
        refine ⟨done ++ [curd], by simp [hdec], ?_, fun b' hb' => by simp at hb'⟩
        simp only [List.reverse_cons]
        exact forall₂_snoc hout ⟨_, hfr, hd⟩

theorem canAdd_kind (o : Opts) (b : Block) (k : Nat) (h : b.canAdd o k = true) : b.kind = k := by
  unfold Block.canAdd at h
  split at h
  · simp at h
  · rename_i hk
    simp only [bne_iff_ne, ne_eq, Decidable.not_not] at hk
    exact hk.symm

/-- `switch_primitive_block_type`: a block of the requested kind that holds the tail `curd` of the projections -/
theorem switchTo_winv (o : Opts) (s : WState) (k : Nat) (hk : k = 1 ∨ k = 2 ∨ k = 3 ∨ k = 4) (dec : List Object)
    (h : WInv o s dec) :
    (s.switchTo o k).1.failed = false → ∃ (done : List (List Object)) (curd : List Object),
      dec = done.flatten ++ curd ∧ All2 BlobDec (s.switchTo o k).1.out.reverse done ∧
      BlockInv o (s.switchTo o k).2 curd ∧ (s.switchTo o k).2.kind = k := by
  intro hf
  unfold WState.switchTo at hf ⊢
  cases hc : s.cur with
  | none =>
    simp only [hc] at hf ⊢
    obtain ⟨done, curd, hdec, hout, hcur⟩ := h hf
    rw [hc] at hcur
    simp only [CurInv] at hcur
    subst hcur
    exact ⟨done, [], hdec, hout, blockInv_fresh o k hk, trivial⟩
  | some b =>
    simp only [hc] at hf ⊢
    by_cases hca : b.canAdd o k = true
    · simp only [hca, ↓reduceIte] at hf ⊢
      obtain ⟨done, curd, hdec, hout, hcur⟩ := h hf
      rw [hc] at hcur
      exact ⟨done, curd, hdec, hout, hcur, canAdd_kind o b k hca⟩
    · simp only [hca, Bool.false_eq_true, ↓reduceIte] at hf ⊢
      obtain ⟨done, hdec, hout, _⟩ := store_winv o s dec h hf
      exact ⟨done, [], by simpa using hdec, hout, blockInv_fresh o k hk, trivial⟩

theorem decKind_1 (p : Params) : decKind 1 p = decodeNode p {} := rfl
theorem decKind_3 (p : Params) : decKind 3 p = decodeWay p {} := rfl
theorem decKind_4 (p : Params) : decKind 4 p = decodeRelation p {} := rfl

theorem snoc_assoc {α : Type} (done : List (List α)) (curd : List α) (x : α) :
    done.flatten ++ curd ++ [x] = done.flatten ++ (curd ++ [x]) := List.append_assoc ..

/-- one `PBFOutputFormat::node / way / relation` call -/
theorem write_winv (o : Opts) (s : WState) (obj : Object) (dec : List Object) (h : WInv o s dec) (hd : ObjInDomain obj) :
    WInv o (s.write o obj) (dec ++ (project o obj).toList) := by
  cases obj with
  | changeset => simpa [WState.write, project] using h
  | node m l =>
    obtain ⟨hmd, hid, hl, hstr⟩ := hd
    simp only [WState.write]
    split
    · -- dense
      intro hf
      obtain ⟨done, curd, hdec, hout, hcur, hkind⟩ := switchTo_winv o s 2 (by simp) dec h hf
      refine ⟨done, curd ++ [projNode o m l], ?_, hout, ?_⟩
      · rw [hdec, project_node]; simp
      · exact blockInv_addDense o _ curd m l hcur hkind hmd hid hl hstr
    · intro hf
      obtain ⟨done, curd, hdec, hout, hcur, hkind⟩ := switchTo_winv o s 1 (by simp) dec h hf
      refine ⟨done, curd ++ [projNode o m l], ?_, hout, ?_⟩
      · rw [hdec, project_node]; simp
      · refine blockInv_addItem o _ curd _ _ _ hcur (by rw [hkind]; decide)
          (tabOk_encMeta o _ m hcur.tab hstr) (ext_encMeta o _ m) ?_
        intro T hT hsz hlen
        rw [hkind, decKind_1]
        exact (node_bytes_roundtrip o _ m l T hmd hid hl hT hsz hlen).trans (project_node o m l)
  | way m ns =>
    obtain ⟨hmd, hid, hn, hstr⟩ := hd
    simp only [WState.write]
    intro hf
    obtain ⟨done, curd, hdec, hout, hcur, hkind⟩ := switchTo_winv o s 3 (by simp) dec h hf
    refine ⟨done, curd ++ (project o (.way m ns)).toList, ?_, hout, ?_⟩
    · rw [hdec]; simp
    · refine blockInv_addItem o _ curd _ _ _ hcur (by rw [hkind]; decide)
        (tabOk_encMeta o _ m hcur.tab hstr) (ext_encMeta o _ m) ?_
      intro T hT hsz hlen
      rw [hkind, decKind_3]
      exact way_bytes_roundtrip o _ m ns T hmd hid hn hT hsz hlen
  | relation m ms =>
    obtain ⟨hmd, hid, hm, hstr, hroles⟩ := hd
    simp only [WState.write]
    intro hf
    obtain ⟨done, curd, hdec, hout, hcur, hkind⟩ := switchTo_winv o s 4 (by simp) dec h hf
    have e2 : ∀ t : Table, (encRelation o t m ms).2 = ((encMeta o t m).2.addAll (ms.map (·.role))).2 := fun _ => rfl
    refine ⟨done, curd ++ (project o (.relation m ms)).toList, ?_, hout, ?_⟩
    · rw [hdec]; simp
    · refine blockInv_addItem o _ curd _ _ _ hcur (by rw [hkind]; decide) ?_ ?_ ?_
      · rw [e2]
        exact tabOk_addAll _ _ (tabOk_encMeta o _ m hcur.tab hstr) (fun s hs => by
          obtain ⟨x, hx, rfl⟩ := List.mem_map.mp hs; exact hroles x hx)
      · rw [e2]
        exact (ext_encMeta o _ m).trans (ext_addAll _ _)
      · intro T hT hsz hlen
        rw [hkind, decKind_4]
        exact relation_bytes_roundtrip o _ m ms T hmd hid hm hT hsz hlen

theorem foldl_write_winv (o : Opts) : ∀ (objs : List Object) (s : WState) (dec : List Object), WInv o s dec →
    (∀ ob ∈ objs, ObjInDomain ob) → WInv o (objs.foldl (WState.write o) s) (dec ++ objs.filterMap (project o))
  | [], _, _, h, _ => by simpa using h
  | ob :: obs, s, dec, h, hd => by
    have h1 := write_winv o s ob dec h (hd ob (List.mem_cons_self ..))
    have h2 := foldl_write_winv o obs _ _ h1 (fun x hx => hd x (List.mem_cons_of_mem _ hx))
    simp only [List.foldl_cons]
    have e : dec ++ (ob :: obs).filterMap (project o) = dec ++ (project o ob).toList ++ obs.filterMap (project o) := by
      cases hp : project o ob <;> simp [hp]
    rw [e]
    exact h2

/-- all data blobs of a run of the writer that reported no error decode, in order, to the projected objects -/
theorem writer_blobs_decode (o : Opts) (objs : List Object) (hd : ∀ ob ∈ objs, ObjInDomain ob)
    (hf : ((objs.foldl (WState.write o) {}).store o).failed = false) :
    ∃ done : List (List Object), objs.filterMap (project o) = done.flatten ∧
      All2 BlobDec ((objs.foldl (WState.write o) {}).store o).out.reverse done := by
  have h := foldl_write_winv o objs {} [] (winv_init o) hd
  obtain ⟨done, hdec, hout, _⟩ := store_winv o _ _ h hf
  exact ⟨done, by simpa using hdec, hout⟩

end Osmium.Pbf
