/-
C10 stage D — the complex case: `add_new_ring_complex` and the two loops of
`create_rings_complex_case` that cut the segment list into partial rings
(basic_assembler.hpp 469-510, 905-936).

For every segment list in which every location has even degree and `m_split_locations` is the set
of locations of degree ≥ 4: both loops terminate without an assertion failure, every partial ring
is a chain that is either closed or runs from a split location to a split location, passes through
no split location in between, and the partial rings contain every segment exactly once.

The merging and the search that follow (`try_to_merge`, `join_connected_rings`, `find_candidates`,
`find_inner_outer_complex`) are NOT modelled.
-/
import Osmium.Lemmas.AreaRing3

namespace Osmium.Area

/-- every location has even degree, and `splits` lists exactly the locations of degree ≥ 4 -/
structure SplitsOk (segs : List Seg) (splits : List Vec) : Prop where
  even : ∀ v, deg segs v % 2 = 0
  split : ∀ v, v ∈ splits ↔ 4 ≤ deg segs v

theorem SplitsOk.deg_le_two {segs : List Seg} {splits : List Vec} (h : SplitsOk segs splits) (v : Vec)
    (hv : v ∉ splits) : deg segs v = 0 ∨ deg segs v = 2 := by
  have h1 := h.even v
  have h2 : ¬ 4 ≤ deg segs v := fun h4 => hv ((h.split v).mpr h4)
  omega

theorem isSplit_iff (splits : List Vec) (v : Vec) : isSplitLocation splits v = true ↔ v ∈ splits := by
  simp [isSplitLocation]

/-- between two partial rings: no location that is not a split location has exactly one end done -/
def ClosedNS (segs : List Seg) (splits : List Vec) (ds : List Nat) : Prop :=
  ∀ v, v ∉ splits → dc segs ds v ≠ 1

/-- every segment end at every split location is done -/
def Sat (segs : List Seg) (splits : List Vec) (ds : List Nat) : Prop :=
  ∀ v ∈ splits, dc segs ds v = deg segs v

/-- while a partial ring is being extended -/
def OpenNS (segs : List Seg) (splits : List Vec) (ds : List Nat) (first last : Vec) : Prop :=
  last ∉ splits ∧ first ≠ last ∧ dc segs ds last = 1 ∧ (first ∉ splits → dc segs ds first = 1) ∧
  ∀ v, v ∉ splits → v ≠ first → v ≠ last → dc segs ds v ≠ 1

/-- the loop has stopped in a good state -/
def StopOk (segs : List Seg) (splits : List Vec) (ds : List Nat) (first last : Vec) : Prop :=
  (first = last ∨ (last ∈ splits ∧ first ∈ splits)) ∧ ClosedNS segs splits ds

theorem dc_mono_cons (segs : List Seg) (ds : List Nat) (r : Nat) (v : Vec) :
    dc segs ds v ≤ dc segs (r :: ds) v := by
  apply List.countP_mono_left
  intro x _ h
  simp only [Bool.and_eq_true, List.contains_cons, Bool.or_eq_true] at h ⊢
  exact ⟨h.1, Or.inr h.2⟩

theorem sat_cons (segs : List Seg) (splits : List Vec) (ds : List Nat) (r : Nat)
    (h : Sat segs splits ds) : Sat segs splits (r :: ds) := by
  intro v hv
  have h1 := dc_mono_cons segs ds r v
  have h2 := dc_le_deg segs (r :: ds) v
  have h3 := h v hv
  omega

/-- how `dc` changes when a segment with ends `p ≠ q` is added -/
theorem dc_cons_ends (segs : List Seg) (ds : List Nat) (r : Nat) (hr : r ∉ ds) (hlt : r < segs.length)
    (p q : Vec) (hpq : p ≠ q)
    (he : ((segAt segs r).first = p ∧ (segAt segs r).second = q) ∨ ((segAt segs r).first = q ∧ (segAt segs r).second = p)) :
    dc segs (r :: ds) p = dc segs ds p + 1 ∧ dc segs (r :: ds) q = dc segs ds q + 1 ∧
    ∀ v, v ≠ p → v ≠ q → dc segs (r :: ds) v = dc segs ds v := by
  have hdcc := dc_cons segs ds r hr hlt
  refine ⟨?_, ?_, ?_⟩
  · rw [hdcc p]; rcases he with ⟨h1, h2⟩ | ⟨h1, h2⟩ <;> simp [h1, h2, Ne.symm hpq]
  · rw [hdcc q]; rcases he with ⟨h1, h2⟩ | ⟨h1, h2⟩ <;> simp [h1, h2, hpq]
  · intro v hv1 hv2
    rw [hdcc v]; rcases he with ⟨h1, h2⟩ | ⟨h1, h2⟩ <;> simp [h1, h2, Ne.symm hv1, Ne.symm hv2]

/-- one step of the loop of `add_new_ring_complex` -/
theorem openNS_step (segs : List Seg) (splits : List Vec) (hw : WfSegs segs) (hsp : SplitsOk segs splits)
    (ds : List Nat) (hd : DoneOk segs ds) (first last : Vec)
    (hsat : first ∈ splits ∨ Sat segs splits ds) (ho : OpenNS segs splits ds first last) :
    ∃ r, getNext segs (locationsList segs) ds last = some r ∧ r ∉ ds ∧ r < segs.length ∧
      let e : SLoc := ⟨r, (segAt segs r).first != last⟩
      e.loc segs = last ∧ DoneOk segs (r :: ds) ∧
      (StopOk segs splits (r :: ds) first (e.stop segs) ∨ OpenNS segs splits (r :: ds) first (e.stop segs)) := by
  obtain ⟨hls, hfl, hdl, hdf, hoth⟩ := ho
  have hdeg : deg segs last = 2 := by
    have := dc_le_deg segs ds last
    rcases hsp.deg_le_two last hls with h | h <;> omega
  obtain ⟨r, hget, hr, hlt, hend⟩ := getNext_spec segs hw ds last hdeg hdl
  refine ⟨r, hget, hr, hlt, ?_⟩
  have hne := segAt_wf segs hw r hlt
  have hdok : DoneOk segs (r :: ds) := by
    refine ⟨List.nodup_cons.mpr ⟨hr, hd.1⟩, ?_⟩
    intro i hi
    rcases List.mem_cons.mp hi with rfl | hi
    · exact hlt
    · exact hd.2 i hi
  have key : ∀ w, w ≠ last → ((segAt segs r).first = last ∧ (segAt segs r).second = w) ∨
      ((segAt segs r).first = w ∧ (segAt segs r).second = last) →
      (StopOk segs splits (r :: ds) first w ∨ OpenNS segs splits (r :: ds) first w) := by
    intro w hwl hw'
    obtain ⟨hcl, hcw, hco⟩ := dc_cons_ends segs ds r hr hlt last w (Ne.symm hwl) hw'
    have hbw := dc_le_deg segs (r :: ds) w
    by_cases hwf : w = first
    · left
      refine ⟨Or.inl hwf.symm, ?_⟩
      intro v hv
      by_cases hv1 : v = last
      · rw [hv1, hcl, hdl]; omega
      · by_cases hv2 : v = w
        · rw [hv2, hcw, hwf, hdf (by rw [← hwf, ← hv2]; exact hv)]; omega
        · rw [hco v hv1 hv2]; exact hoth v hv (by rw [← hwf]; exact hv2) hv1
    · by_cases hws : w ∈ splits
      · left
        have hfs : first ∈ splits := by
          rcases hsat with h | h
          · exact h
          · exfalso
            have := h w hws
            omega
        refine ⟨Or.inr ⟨hws, hfs⟩, ?_⟩
        intro v hv
        by_cases hv1 : v = last
        · rw [hv1, hcl, hdl]; omega
        · have hv2 : v ≠ w := fun e => hv (e ▸ hws)
          have hv3 : v ≠ first := fun e => hv (e ▸ hfs)
          rw [hco v hv1 hv2]; exact hoth v hv hv3 hv1
      · right
        have hw1 : dc segs ds w ≠ 1 := hoth w hws hwf hwl
        have hw0 : dc segs ds w = 0 := by
          rcases hsp.deg_le_two w hws with h | h <;> omega
        refine ⟨hws, fun e => hwf e.symm, by rw [hcw, hw0], ?_, ?_⟩
        · intro hfs
          rw [hco first hfl (fun e => hwf e.symm)]; exact hdf hfs
        · intro v hv hv1 hv2
          by_cases hv3 : v = last
          · rw [hv3, hcl, hdl]; omega
          · rw [hco v hv3 hv2]; exact hoth v hv hv1 hv3
  by_cases hf : (segAt segs r).first = last
  · have hb : ((segAt segs r).first != last) = false := by simpa using hf
    simp only [hb, SLoc.loc, SLoc.stop, Bool.false_eq_true, if_false]
    exact ⟨hf, hdok, key _ (by rw [← hf]; exact fun e => hne e.symm) (Or.inl ⟨hf, rfl⟩)⟩
  · have hb : ((segAt segs r).first != last) = true := by simpa using hf
    have hs : (segAt segs r).second = last := by
      rcases hend with h | h
      · exact absurd h hf
      · exact h
    simp only [hb, SLoc.loc, SLoc.stop, if_true]
    exact ⟨hs, hdok, key _ hf (Or.inr ⟨rfl, hs⟩)⟩

/-- THE LOOP OF `add_new_ring_complex` terminates without an assertion failure; the partial ring
    is a chain that ends where it started or in a split location, and every segment it appends
    starts in a location that is not a split location. -/
theorem ringLoopComplex_spec (segs : List Seg) (splits : List Vec) (hw : WfSegs segs)
    (hsp : SplitsOk segs splits) :
    ∀ (fuel : Nat) (first last : Vec) (ds : List Nat) (cur : List SLoc),
    DoneOk segs ds → segs.length ≤ fuel + ds.length → (first ∈ splits ∨ Sat segs splits ds) →
    (StopOk segs splits ds first last ∨ OpenNS segs splits ds first last) →
    IsPath segs first cur last →
    ∃ ds' ext last', ringLoopComplex segs (locationsList segs) splits fuel first last ds cur = some (ds', cur ++ ext) ∧
      DoneOk segs ds' ∧ ClosedNS segs splits ds' ∧ IsPath segs first (cur ++ ext) last' ∧
      (first = last' ∨ (last' ∈ splits ∧ first ∈ splits)) ∧ (∀ e ∈ ext, e.loc segs ∉ splits) ∧
      ds' = (ext.map SLoc.item).reverse ++ ds := by
  intro fuel
  induction fuel with
  | zero =>
    intro first last ds cur hd hf hsat hst hp
    rcases hst with ⟨he, hc⟩ | ho
    · have hcond : (first == last || isSplitLocation splits last) = true := by
        rcases he with e | ⟨e, _⟩
        · simp [e]
        · simp [(isSplit_iff splits last).mpr e]
      exact ⟨ds, [], last, by simp [ringLoopComplex, hcond], hd, hc, by simpa using hp, he, by simp, by simp⟩
    · exfalso
      obtain ⟨r, _, hr, hlt, _⟩ := openNS_step segs splits hw hsp ds hd first last hsat ho
      have := doneOk_length_lt segs ds hd r hr hlt
      omega
  | succ fuel ih =>
    intro first last ds cur hd hf hsat hst hp
    rcases hst with ⟨he, hc⟩ | ho
    · have hcond : (first == last || isSplitLocation splits last) = true := by
        rcases he with e | ⟨e, _⟩
        · simp [e]
        · simp [(isSplit_iff splits last).mpr e]
      exact ⟨ds, [], last, by simp [ringLoopComplex, hcond], hd, hc, by simpa using hp, he, by simp, by simp⟩
    · obtain ⟨r, hget, hr, hlt, hloc, hdok, hnext⟩ := openNS_step segs splits hw hsp ds hd first last hsat ho
      have hcond : (first == last || isSplitLocation splits last) = false := by
        have h1 : (first == last) = false := by simpa using ho.2.1
        have h2 : isSplitLocation splits last = false := by
          cases hc : isSplitLocation splits last with
          | false => rfl
          | true => exact absurd ((isSplit_iff splits last).mp hc) ho.1
        simp [h1, h2]
      have hp' : IsPath segs first (cur ++ [⟨r, (segAt segs r).first != last⟩])
          (SLoc.stop segs ⟨r, (segAt segs r).first != last⟩) := by
        rw [isPath_snoc]; exact ⟨by rw [hloc]; exact hp, rfl⟩
      have hsat' : first ∈ splits ∨ Sat segs splits (r :: ds) := by
        rcases hsat with h | h
        · exact Or.inl h
        · exact Or.inr (sat_cons segs splits ds r h)
      obtain ⟨ds', ext, last', hrun, hd', hc', hp'', hend, hint, hds'⟩ :=
        ih first _ (r :: ds) _ hdok (by simp only [List.length_cons]; omega) hsat' hnext hp'
      refine ⟨ds', ⟨r, (segAt segs r).first != last⟩ :: ext, last', ?_, hd', hc', ?_, hend, ?_, ?_⟩
      · simp only [ringLoopComplex, hcond, Bool.false_eq_true, if_false, hget]
        rw [hrun]; simp
      · simpa using hp''
      · intro e he
        rcases List.mem_cons.mp he with rfl | he
        · rw [hloc]; exact ho.1
        · exact hint e he
      · rw [hds']; simp

/-! ## partial rings -/

/-- what every partial ring satisfies -/
structure PieceOk (segs : List Seg) (splits : List Vec) (p : List SLoc) : Prop where
  nonempty : p ≠ []
  /-- a chain that is closed or connects two split locations -/
  path : ∃ a b, IsPath segs a p b ∧ (a = b ∨ (a ∈ splits ∧ b ∈ splits))
  /-- no split location in between -/
  interior : ∀ e ∈ p.tail, e.loc segs ∉ splits
  items : DoneOk segs (ringItems p)

theorem addNewRingComplex_spec (segs : List Seg) (splits : List Vec) (hw : WfSegs segs)
    (hsp : SplitsOk segs splits) (ds : List Nat) (node : SLoc) (hd : DoneOk segs ds)
    (hc : ClosedNS segs splits ds) (hn : node.item < segs.length) (hnd : node.item ∉ ds)
    (hsat : node.loc segs ∈ splits ∨ Sat segs splits ds) :
    ∃ ds' cur, addNewRingComplex segs (locationsList segs) splits ds node = some (ds', cur) ∧
      PieceOk segs splits cur ∧ DoneOk segs ds' ∧ ClosedNS segs splits ds' ∧
      ds'.Perm (ringItems cur ++ ds) ∧ node.item ∈ ringItems cur := by
  have hfl : node.loc segs ≠ node.stop segs := loc_ne_stop segs hw node hn
  have hdok : DoneOk segs (node.item :: ds) := by
    refine ⟨List.nodup_cons.mpr ⟨hnd, hd.1⟩, ?_⟩
    intro i hi
    rcases List.mem_cons.mp hi with rfl | hi
    · exact hn
    · exact hd.2 i hi
  obtain ⟨hcf, hcl, hco⟩ := dc_cons_ends segs ds node.item hnd hn (node.loc segs) (node.stop segs) hfl
    (loc_stop_ends segs node)
  have hsat1 : node.loc segs ∈ splits ∨ Sat segs splits (node.item :: ds) := by
    rcases hsat with h | h
    · exact Or.inl h
    · exact Or.inr (sat_cons segs splits ds _ h)
  have hstate : StopOk segs splits (node.item :: ds) (node.loc segs) (node.stop segs) ∨
      OpenNS segs splits (node.item :: ds) (node.loc segs) (node.stop segs) := by
    by_cases hls : node.stop segs ∈ splits
    · left
      have hfs : node.loc segs ∈ splits := by
        rcases hsat with h | h
        · exact h
        · exfalso
          have h1 := h _ hls
          have h2 := dc_le_deg segs (node.item :: ds) (node.stop segs)
          omega
      refine ⟨Or.inr ⟨hls, hfs⟩, ?_⟩
      intro v hv
      rw [hco v (fun e => hv (e ▸ hfs)) (fun e => hv (e ▸ hls))]
      exact hc v hv
    · right
      have hb := dc_le_deg segs (node.item :: ds) (node.stop segs)
      have h0 := hc _ hls
      refine ⟨hls, hfl, ?_, ?_, ?_⟩
      · rcases hsp.deg_le_two _ hls with h | h <;> omega
      · intro hfs
        have hb' := dc_le_deg segs (node.item :: ds) (node.loc segs)
        have h0' := hc _ hfs
        rcases hsp.deg_le_two _ hfs with h | h <;> omega
      · intro v hv hv1 hv2
        rw [hco v hv1 hv2]; exact hc v hv
  have hpath : IsPath segs (node.loc segs) [node] (node.stop segs) := by simp [IsPath]
  obtain ⟨ds', ext, last', hrun, hd', hc', hp', hend, hint, hds'⟩ :=
    ringLoopComplex_spec segs splits hw hsp (segs.length - (ds.length + 1)) (node.loc segs) (node.stop segs)
      (node.item :: ds) [node] hdok (by simp only [List.length_cons]; omega) hsat1 hstate hpath
  have hds2 : ds' = (ringItems ([node] ++ ext)).reverse ++ ds := by
    rw [hds']; simp [ringItems]
  have hperm : ds'.Perm (ringItems ([node] ++ ext) ++ ds) := by
    rw [hds2]; exact List.Perm.append_right _ (List.reverse_perm _)
  have hdall : DoneOk segs (ringItems ([node] ++ ext) ++ ds) := doneOk_perm segs _ _ hperm hd'
  refine ⟨ds', [node] ++ ext, by unfold addNewRingComplex; exact hrun, ?_, hd', hc', hperm, by simp [ringItems]⟩
  refine ⟨by simp, ⟨_, _, hp', ?_⟩, ?_, ?_⟩
  · rcases hend with h | ⟨h1, h2⟩
    · exact Or.inl h
    · exact Or.inr ⟨h2, h1⟩
  · simpa using hint
  · exact ⟨(List.nodup_append.mp hdall.1).1, fun i hi => hdall.2 i (List.mem_append_left _ hi)⟩

/-! ## the two loops of `create_rings_complex_case` -/

def allPieceItems (rings : List (List SLoc)) : List Nat := rings.flatMap ringItems

structure ComplexInv (segs : List Seg) (splits : List Vec) (rings : List (List SLoc)) (ds : List Nat)
    (cnt : Int) : Prop where
  done : DoneOk segs ds
  closed : ClosedNS segs splits ds
  count : cnt = (segs.length : Int) - ds.length
  items : (allPieceItems rings).Perm ds
  rings : ∀ p ∈ rings, PieceOk segs splits p

theorem sat_mono (segs : List Seg) (splits : List Vec) (ds ds' : List Nat) (hm : ∀ i ∈ ds, i ∈ ds')
    (h : Sat segs splits ds) : Sat segs splits ds' := by
  intro v hv
  have h1 : dc segs ds v ≤ dc segs ds' v := by
    apply List.countP_mono_left
    intro x _ hx
    simp only [Bool.and_eq_true, List.contains_iff_mem] at hx ⊢
    exact ⟨hx.1, hm _ hx.2⟩
  have h2 := dc_le_deg segs ds' v
  have h3 := h v hv
  omega

theorem complexFor_spec (segs : List Seg) (splits : List Vec) (hw : WfSegs segs) (hsp : SplitsOk segs splits) :
    ∀ (rest : List SLoc) (rings : List (List SLoc)) (ds : List Nat) (cnt : Int),
    (∀ x ∈ rest, x.item < segs.length) → ((∀ x ∈ rest, x.loc segs ∈ splits) ∨ Sat segs splits ds) →
    ComplexInv segs splits rings ds cnt →
    ∃ rings' ds' cnt' brk, complexFor segs (locationsList segs) splits rest rings ds cnt = some (rings', ds', cnt', brk) ∧
      ComplexInv segs splits rings' ds' cnt' ∧ (∀ i ∈ ds, i ∈ ds') ∧
      ((∀ x ∈ rest, x.item ∈ ds') ∨ ds'.length = segs.length) := by
  intro rest
  induction rest with
  | nil =>
    intro rings ds cnt _ _ hinv
    exact ⟨rings, ds, cnt, false, by simp [complexFor], hinv, fun i hi => hi, Or.inl (by simp)⟩
  | cons sl rest ih =>
    intro rings ds cnt hlt hsat hinv
    have hlt' : ∀ x ∈ rest, x.item < segs.length := fun x hx => hlt x (List.mem_cons_of_mem _ hx)
    by_cases hdone : ds.contains sl.item = true
    · have hmem : sl.item ∈ ds := by simpa using hdone
      have hsat' : (∀ x ∈ rest, x.loc segs ∈ splits) ∨ Sat segs splits ds := by
        rcases hsat with h | h
        · exact Or.inl fun x hx => h x (List.mem_cons_of_mem _ hx)
        · exact Or.inr h
      obtain ⟨rings', ds', cnt', brk, hrun, hinv', hmono, hall⟩ := ih rings ds cnt hlt' hsat' hinv
      refine ⟨rings', ds', cnt', brk, by simp only [complexFor, hdone, if_true]; exact hrun, hinv', hmono, ?_⟩
      rcases hall with hall | hall
      · left
        intro x hx
        rcases List.mem_cons.mp hx with rfl | hx
        · exact hmono _ hmem
        · exact hall x hx
      · exact Or.inr hall
    · have hnm : sl.item ∉ ds := by simpa using hdone
      have hsat0 : sl.loc segs ∈ splits ∨ Sat segs splits ds := by
        rcases hsat with h | h
        · exact Or.inl (h sl List.mem_cons_self)
        · exact Or.inr h
      obtain ⟨ds1, cur, hadd, hpok, hd1, hc1, hp1, hin⟩ := addNewRingComplex_spec segs splits hw hsp ds sl
        hinv.done hinv.closed (hlt sl List.mem_cons_self) hnm hsat0
      have hlen : (ds1.length : Int) = cur.length + ds.length := by
        have := hp1.length_eq
        simp only [List.length_append, ringItems, List.length_map] at this
        omega
      have hinv1 : ComplexInv segs splits (rings ++ [cur]) ds1 (cnt - cur.length) := by
        refine ⟨hd1, hc1, ?_, ?_, ?_⟩
        · rw [hinv.count]; omega
        · simp only [allPieceItems, List.flatMap_append, List.flatMap_cons, List.flatMap_nil, List.append_nil]
          exact ((List.Perm.append_right _ hinv.items).trans List.perm_append_comm).trans hp1.symm
        · intro r hr
          rcases List.mem_append.mp hr with hr | hr
          · exact hinv.rings r hr
          · simp only [List.mem_cons, List.not_mem_nil, or_false] at hr
            subst hr; exact hpok
      have hmono1 : ∀ i ∈ ds, i ∈ ds1 := fun i hi => hp1.mem_iff.mpr (List.mem_append_right _ hi)
      have hsl : sl.item ∈ ds1 := hp1.mem_iff.mpr (List.mem_append_left _ hin)
      by_cases hz : (cnt - (cur.length : Int) == 0) = true
      · refine ⟨rings ++ [cur], ds1, cnt - cur.length, true, ?_, hinv1, hmono1, Or.inr ?_⟩
        · simp only [complexFor, hdone, Bool.false_eq_true, if_false, hadd, hz, if_true]
        · have hz' : cnt - (cur.length : Int) = 0 := by simpa using hz
          have := hinv1.count
          omega
      · have hsat' : (∀ x ∈ rest, x.loc segs ∈ splits) ∨ Sat segs splits ds1 := by
          rcases hsat with h | h
          · exact Or.inl fun x hx => h x (List.mem_cons_of_mem _ hx)
          · exact Or.inr (sat_mono segs splits ds ds1 hmono1 h)
        obtain ⟨rings', ds', cnt', brk, hrun, hinv', hmono, hall⟩ :=
          ih (rings ++ [cur]) ds1 (cnt - cur.length) hlt' hsat' hinv1
        refine ⟨rings', ds', cnt', brk, ?_, hinv', fun i hi => hmono i (hmono1 i hi), ?_⟩
        · simp only [complexFor, hdone, Bool.false_eq_true, if_false, hadd, hz]
          exact hrun
        · rcases hall with hall | hall
          · left
            intro x hx
            rcases List.mem_cons.mp hx with rfl | hx
            · exact hmono _ hsl
            · exact hall x hx
          · exact Or.inr hall

/-- `std::equal_range` in the sorted `m_locations` : exactly the slocations at `v` -/
theorem equalRange_eq (segs : List Seg) (v : Vec) :
    equalRange segs (locationsList segs) v = (locationsList segs).filter fun x => x.loc segs == v := by
  unfold equalRange
  rw [dropWhile_sorted segs v _ (locations_sorted segs)]
  have hE : ∀ G : List SLoc, (∀ x ∈ G, v.lt (x.loc segs) = true) → ∀ E : List SLoc, (∀ x ∈ E, x.loc segs = v) →
      (E ++ G).takeWhile (fun x => !(v.lt (x.loc segs))) = E := by
    intro G hG E
    induction E with
    | nil =>
      intro _
      cases G with
      | nil => rfl
      | cons g G' => simp [hG g List.mem_cons_self]
    | cons e E ih =>
      intro hE
      have : v.lt (e.loc segs) = false := by rw [hE e List.mem_cons_self]; exact vec_lt_irrefl _
      simp only [List.cons_append, List.takeWhile_cons, this, Bool.not_false, if_true]
      rw [ih (fun x hx => hE x (List.mem_cons_of_mem _ hx))]
  apply hE
  · intro x hx; exact (List.mem_filter.mp hx).2
  · intro x hx; simpa using (List.mem_filter.mp hx).2

/-- all ends at `v` are done once every slocation at `v` has its segment done -/
theorem dc_eq_deg_of_all (segs : List Seg) (ds : List Nat) (v : Vec)
    (h : ∀ x ∈ locationsList segs, x.loc segs = v → x.item ∈ ds) : dc segs ds v = deg segs v := by
  rw [dc_eq_locs, deg_eq_locs, List.countP_eq_length_filter]
  congr 1
  rw [List.filter_eq_self]
  intro x hx
  have := List.mem_filter.mp hx
  simpa using h x this.1 (by simpa using this.2)

/-- first loop of `create_rings_complex_case` : afterwards every end at every split location that
    was visited is done -/
theorem complexSplitLoop_spec (segs : List Seg) (splits : List Vec) (hw : WfSegs segs) (hsp : SplitsOk segs splits) :
    ∀ (vs : List Vec) (rings : List (List SLoc)) (ds : List Nat) (cnt : Int),
    (∀ v ∈ vs, v ∈ splits) → ComplexInv segs splits rings ds cnt →
    ∃ rings' ds' cnt', complexSplitLoop segs (locationsList segs) splits vs rings ds cnt = some (rings', ds', cnt') ∧
      ComplexInv segs splits rings' ds' cnt' ∧ (∀ i ∈ ds, i ∈ ds') ∧
      (∀ v ∈ vs, dc segs ds' v = deg segs v) := by
  intro vs
  induction vs with
  | nil =>
    intro rings ds cnt _ hinv
    exact ⟨rings, ds, cnt, by simp [complexSplitLoop], hinv, fun i hi => hi, by simp⟩
  | cons v vs ih =>
    intro rings ds cnt hvs hinv
    have hv : v ∈ splits := hvs v List.mem_cons_self
    have hER := equalRange_eq segs v
    have hlt : ∀ x ∈ equalRange segs (locationsList segs) v, x.item < segs.length := by
      intro x hx; rw [hER] at hx
      exact locations_items_lt segs x (List.mem_filter.mp hx).1
    have hloc : ∀ x ∈ equalRange segs (locationsList segs) v, x.loc segs ∈ splits := by
      intro x hx; rw [hER] at hx
      have : x.loc segs = v := by simpa using (List.mem_filter.mp hx).2
      rw [this]; exact hv
    obtain ⟨r1, d1, c1, brk, hrun1, hinv1, hmono1, hall1⟩ :=
      complexFor_spec segs splits hw hsp _ rings ds cnt hlt (Or.inl hloc) hinv
    obtain ⟨r2, d2, c2, hrun2, hinv2, hmono2, hsat2⟩ :=
      ih r1 d1 c1 (fun u hu => hvs u (List.mem_cons_of_mem _ hu)) hinv1
    refine ⟨r2, d2, c2, ?_, hinv2, fun i hi => hmono2 i (hmono1 i hi), ?_⟩
    · simp only [complexSplitLoop, hrun1]; exact hrun2
    · intro u hu
      rcases List.mem_cons.mp hu with rfl | hu
      · apply dc_eq_deg_of_all
        intro x hx hxu
        apply hmono2
        rcases hall1 with h | h
        · apply h
          rw [hER]
          exact List.mem_filter.mpr ⟨hx, by simpa using hxu⟩
        · exact doneOk_full segs d1 hinv1.done h x.item (locations_items_lt segs x hx)
      · exact hsat2 u hu

/-- THE CUTTING INTO PARTIAL RINGS: both loops of `create_rings_complex_case` terminate without
    an assertion failure; every partial ring is a chain, closed or from split location to split
    location, through no split location; the partial rings contain every segment exactly once. -/
theorem createPieces_spec (segs : List Seg) (splits : List Vec) (hw : WfSegs segs) (hsp : SplitsOk segs splits) :
    ∃ pieces ds, createPieces segs splits = some (pieces, ds) ∧
      (∀ p ∈ pieces, PieceOk segs splits p) ∧ (allPieceItems pieces).Perm (List.range segs.length) := by
  have hinv0 : ComplexInv segs splits [] [] segs.length :=
    ⟨⟨List.nodup_nil, by simp⟩, fun v _ => by simp [dc_nil], by simp, by simp [allPieceItems], by simp⟩
  obtain ⟨r1, d1, c1, hrun1, hinv1, _, hsat1⟩ :=
    complexSplitLoop_spec segs splits hw hsp splits [] [] segs.length (fun v hv => hv) hinv0
  have hfinish : ∀ (rings : List (List SLoc)) (ds : List Nat) (cnt : Int), ComplexInv segs splits rings ds cnt →
      (∀ i, i < segs.length → i ∈ ds) →
      (∀ p ∈ rings, PieceOk segs splits p) ∧ (allPieceItems rings).Perm (List.range segs.length) := by
    intro rings ds cnt hinv hfull
    refine ⟨hinv.rings, hinv.items.trans ?_⟩
    rw [List.perm_ext_iff_of_nodup hinv.done.1 List.nodup_range]
    intro i
    rw [List.mem_range]
    exact ⟨hinv.done.2 i, hfull i⟩
  unfold createPieces
  simp only [hrun1]
  by_cases hc : c1 > 0
  · simp only [hc, if_true]
    obtain ⟨r2, d2, c2, brk, hrun2, hinv2, _, hall2⟩ :=
      complexFor_spec segs splits hw hsp (locationsList segs) r1 d1 c1 (locations_items_lt segs)
        (Or.inr hsat1) hinv1
    refine ⟨r2, d2, by simp [hrun2], ?_⟩
    apply hfinish r2 d2 c2 hinv2
    rcases hall2 with h | h
    · intro i hi
      exact h ⟨i, false⟩ ((mem_locationsList segs _).mpr hi)
    · exact doneOk_full segs d2 hinv2.done h
  · simp only [hc, if_false]
    refine ⟨r1, d1, rfl, ?_⟩
    apply hfinish r1 d1 c1 hinv1
    have hl : d1.length = segs.length := by
      have h1 := hinv1.count
      have h2 : d1.length ≤ segs.length := by
        have := List.Nodup.length_le_of_subset hinv1.done.1
          (fun i hi => List.mem_range.mpr (hinv1.done.2 i hi) : d1 ⊆ List.range segs.length)
        simpa using this
      omega
    exact doneOk_full segs d1 hinv1.done hl

end Osmium.Area
