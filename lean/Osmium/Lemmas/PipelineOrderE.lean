/-
Queue-of-futures order (C05), part E: invariant B (well-formed buffers, empty back buffers).
-/
import Osmium.Lemmas.PipelineOrderB

namespace Osmium.Pipeline.Order

open Osmium.Mon Osmium.Pipeline

variable {α : Type} [DecidableEq α]

structure InvB (s : State α) : Prop where
  want : ∀ id lv, s.want id = .buf lv → wfLevels lv = true
  ppush : ∀ lv k, s.ppc = .push (.buf lv) k → wfLevels lv = true
  rpush : ∀ lv k, s.rpc = .push (.buf lv) k → False
  nested : ∀ l ∈ s.nested, l ≠ []
  back : (s.cpc = .readPop ∨ s.cpc = .readWaitPop ∨ ∃ id, s.cpc = .readGot id) → s.back = []

set_option maxHeartbeats 1600000 in
theorem invB (c : Cfg α) : ∀ s, (machine c).Reachable s → InvB s := by
  apply Machine.invariant
  · constructor <;> simp [machine, init]
  · intro s e s' hr ih hst
    have hA := invA c s hr
    have hgot : ∀ id v, s.cpc = .readGot id → s.fut id = some v → v = s.want id :=
      fun id v h1 h2 => (hA.fut id v (hA.got id h1).1 h2).1
    clear hA
    obtain ⟨h1, h2, h3, h4, h5⟩ := ih
    po_cases e with hst q hq
    all_goals constructor
    all_goals first
      | assumption
      | (simp only [setPc_apply, pCont_push_buf, rCont_push_buf, afterPop_want, afterPop_ppc, afterPop_rpc, afterPop_nested,
           afterClose_want, afterClose_ppc, afterClose_rpc, afterClose_nested, afterClose_back, afterClose_cpc] at *; grind [wfLevels_snoc, wfLevels])
      | (intro h; rename_i hc _ _ hf
         exact afterPop_back_inv _ _ (h1 _ _ (hgot _ _ hc hf).symm) (h5 (.inr (.inr ⟨_, hc⟩))) h)
      | (intro id lv h; simp only [setPc_apply] at h; split at h
         · subst h; exact (h3 _ _ ‹_›).elim
         · exact h1 _ _ h)

end Osmium.Pipeline.Order
