/-
Progress (C07): no API call of the consumer can get stuck — in every reachable state in which a
call is in progress some internal step of the pipeline is enabled, also in the adversarial
condition-variable model without spurious wake-ups; and a ranking function for the internal
steps.
-/
import Osmium.Lemmas.PipelineQ
import Osmium.Props.C19

namespace Osmium.Pipeline

open Osmium.Mon

variable {α : Type} [DecidableEq α]

namespace Live

/-! ## tools -/

/-- Case split of one pipeline step over all events (queue events split into the thirteen QueueSM
    events).  In every goal `s'` is replaced by the successor state; for a queue event the new
    queue state is `q` and `hq : QueueSM.step? _ _ _ = some q`. -/
syntax "plv_cases " ident " with " ident ident ident : tactic
macro_rules
  | `(tactic| plv_cases $e:ident with $h:ident $q:ident $hq:ident) => `(tactic|
      ((try simp only [Machine.Step, machine] at $h:ident)
       cases $e:ident <;> (try (rename_i qe; cases qe)) <;>
         simp only [step?] at $h:ident <;> (repeat' split at $h:ident) <;>
         simp only [Option.map_eq_some_iff, Option.some.injEq, reduceCtorEq, false_and, exists_false] at $h:ident <;>
         first
           | (obtain ⟨$q:ident, $hq:ident, $h:ident⟩ := $h:ident; (repeat' split at $h:ident) <;> subst $h:ident)
           | subst $h:ident))

/-- unfold the queue step `hq` too -/
syntax "q_unfold " ident : tactic
macro_rules
  | `(tactic| q_unfold $hq:ident) => `(tactic|
      (simp only [QueueSM.step?] at $hq:ident <;> (repeat' split at $hq:ident) <;>
       simp only [Option.some.injEq, reduceCtorEq] at $hq:ident <;> subst $hq:ident))

section proj
variable (s : State α) (lv : List (List α)) (k : CK)
omit [DecidableEq α]

@[simp] theorem afterPop_rpc : (afterPop s lv).rpc = s.rpc := by
  unfold afterPop; split <;> (try split) <;> rfl
@[simp] theorem afterPop_ppc : (afterPop s lv).ppc = s.ppc := by
  unfold afterPop; split <;> (try split) <;> rfl
@[simp] theorem afterPop_fut : (afterPop s lv).fut = s.fut := by
  unfold afterPop; split <;> (try split) <;> rfl
@[simp] theorem afterPop_want : (afterPop s lv).want = s.want := by
  unfold afterPop; split <;> (try split) <;> rfl
@[simp] theorem afterPop_work : (afterPop s lv).work = s.work := by
  unfold afterPop; split <;> (try split) <;> rfl
@[simp] theorem afterPop_wpc : (afterPop s lv).wpc = s.wpc := by
  unfold afterPop; split <;> (try split) <;> rfl
@[simp] theorem afterPop_hdr : (afterPop s lv).hdr = s.hdr := by
  unfold afterPop; split <;> (try split) <;> rfl
@[simp] theorem afterPop_nIn : (afterPop s lv).nIn = s.nIn := by
  unfold afterPop; split <;> (try split) <;> rfl
@[simp] theorem afterPop_nOut : (afterPop s lv).nOut = s.nOut := by
  unfold afterPop; split <;> (try split) <;> rfl
@[simp] theorem afterPop_inputDone : (afterPop s lv).inputDone = s.inputDone := by
  unfold afterPop; split <;> (try split) <;> rfl
theorem afterPop_cpc : (afterPop s lv).cpc = .readPop ∨ ∃ r, (afterPop s lv).cpc = .ret r := by
  unfold afterPop; split <;> (try split) <;> simp

@[simp] theorem afterClose_rpc : (afterClose s k).rpc = s.rpc := by cases k <;> rfl
@[simp] theorem afterClose_ppc : (afterClose s k).ppc = s.ppc := by cases k <;> rfl
@[simp] theorem afterClose_fut : (afterClose s k).fut = s.fut := by cases k <;> rfl
@[simp] theorem afterClose_want : (afterClose s k).want = s.want := by cases k <;> rfl
@[simp] theorem afterClose_work : (afterClose s k).work = s.work := by cases k <;> rfl
@[simp] theorem afterClose_wpc : (afterClose s k).wpc = s.wpc := by cases k <;> rfl
@[simp] theorem afterClose_hdr : (afterClose s k).hdr = s.hdr := by cases k <;> rfl
@[simp] theorem afterClose_nIn : (afterClose s k).nIn = s.nIn := by cases k <;> rfl
@[simp] theorem afterClose_nOut : (afterClose s k).nOut = s.nOut := by cases k <;> rfl
@[simp] theorem afterClose_inputDone : (afterClose s k).inputDone = s.inputDone := by cases k <;> rfl
theorem afterClose_cpc : (afterClose s k).cpc = .dtorJoinP ∨ ∃ r, (afterClose s k).cpc = .ret r := by
  cases k <;> simp [afterClose]

end proj

/-! ## pc correspondence: where a thread is in the pipeline ↔ where it is in the queue machines -/

/-- thread is inside push(id) -/
def inPush (p : QueueSM.Pc Nat) (id : Nat) : Prop :=
  p = .pushEntered id ∨ p = .pushPolling id ∨ p = .pushMustWait id ∨ p = .pushReady id

/-- read thread ↔ its pc in the input queue -/
def rOk : RPc α → QueueSM.Pc Nat → Prop
  | .pushing id _ _, p => inPush p id
  | _, p => p = .idle

/-- parser thread ↔ its pc in the input queue -/
def pOkIn : PPc α → QueueSM.Pc Nat → Prop
  | .popWait, p => p = .idle ∨ p = .popWaiting
  | .sdInRun _, p => p = .sdEntered ∨ p = .sdFlagged
  | _, p => p = .idle

/-- parser thread ↔ its pc in the osmdata queue -/
def pOkOut : PPc α → QueueSM.Pc Nat → Prop
  | .pushing id _ _, p => inPush p id
  | _, p => p = .idle

/-- consumer ↔ its pc in the osmdata queue -/
def cOk : CPc α → QueueSM.Pc Nat → Prop
  | .readWaitPop, p => p = .idle ∨ p = .popWaiting
  | .eodSdRun, p | .closeSdRun _, p | .dtorSdRun, p => p = .sdEntered ∨ p = .sdFlagged
  | _, p => p = .idle

/-- The pc-correspondence invariant. -/
structure PcInv (s : State α) : Prop where
  rIn : rOk s.rpc (s.inq.pc tR)
  pIn : pOkIn s.ppc (s.inq.pc tP)
  pOut : pOkOut s.ppc (s.outq.pc tP)
  cOut : cOk s.cpc (s.outq.pc tC)
  othIn : ∀ t, t ≠ tR → t ≠ tP → s.inq.pc t = .idle
  othOut : ∀ t, t ≠ tP → t ≠ tC → s.outq.pc t = .idle


syntax "pc_close " ident ident : tactic
macro_rules
  | `(tactic| pc_close $s:ident $ih:ident) => `(tactic|
      first
        | exact $ih
        | (simp_all [rOk, pOkIn, pOkOut, cOk, inPush, setPc_apply, rCont, pCont, tR, tP, tC]; done)
        | (cases ‹RK› <;> simp_all [rOk, pOkIn, pOkOut, cOk, inPush, setPc_apply, rCont, pCont, tR, tP, tC]; done)
        | (cases ‹PK› <;> simp_all [rOk, pOkIn, pOkOut, cOk, inPush, setPc_apply, rCont, pCont, tR, tP, tC]; done)
        | (cases hh : State.rpc $s <;> simp_all [rOk, pOkIn, pOkOut, cOk, inPush, setPc_apply, rCont, pCont, tR, tP, tC]; done)
        | (cases hh : State.ppc $s <;> simp_all [rOk, pOkIn, pOkOut, cOk, inPush, setPc_apply, rCont, pCont, tR, tP, tC]; done)
        | (cases hh : State.cpc $s <;> simp_all [rOk, pOkIn, pOkOut, cOk, inPush, setPc_apply, rCont, pCont, tR, tP, tC]; done)
        | (rcases afterPop_cpc $s ‹List (List _)› with h | ⟨r, h⟩ <;> simp_all [cOk]; done)
        | (rcases afterClose_cpc $s ‹CK› with h | ⟨r, h⟩ <;> simp_all [cOk]; done))

set_option maxHeartbeats 1600000 in
theorem pc_rIn (c : Cfg α) : ∀ s, (machine c).Reachable s → rOk s.rpc (s.inq.pc tR) := by
  apply Machine.invariant
  · simp [machine, init, QueueSM.init, rOk]
  · intro s e s' _ ih hst
    plv_cases e with hst q hq
    all_goals (try q_unfold hq)
    all_goals pc_close s ih

set_option maxHeartbeats 1600000 in
theorem pc_pIn (c : Cfg α) : ∀ s, (machine c).Reachable s → pOkIn s.ppc (s.inq.pc tP) := by
  apply Machine.invariant
  · simp [machine, init, QueueSM.init, pOkIn]
  · intro s e s' _ ih hst
    plv_cases e with hst q hq
    all_goals (try q_unfold hq)
    all_goals pc_close s ih

set_option maxHeartbeats 1600000 in
theorem pc_pOut (c : Cfg α) : ∀ s, (machine c).Reachable s → pOkOut s.ppc (s.outq.pc tP) := by
  apply Machine.invariant
  · simp [machine, init, QueueSM.init, pOkOut]
  · intro s e s' _ ih hst
    plv_cases e with hst q hq
    all_goals (try q_unfold hq)
    all_goals pc_close s ih

set_option maxHeartbeats 1600000 in
theorem pc_cOut (c : Cfg α) : ∀ s, (machine c).Reachable s → cOk s.cpc (s.outq.pc tC) := by
  apply Machine.invariant
  · simp [machine, init, QueueSM.init, cOk]
  · intro s e s' _ ih hst
    plv_cases e with hst q hq
    all_goals (try q_unfold hq)
    all_goals pc_close s ih

set_option maxHeartbeats 1600000 in
theorem pc_othIn (c : Cfg α) : ∀ s, (machine c).Reachable s → ∀ t, t ≠ tR → t ≠ tP → s.inq.pc t = .idle := by
  apply Machine.invariant
  · simp [machine, init, QueueSM.init]
  · intro s e s' _ ih hst
    plv_cases e with hst q hq
    all_goals (try q_unfold hq)
    all_goals pc_close s ih

set_option maxHeartbeats 1600000 in
theorem pc_othOut (c : Cfg α) : ∀ s, (machine c).Reachable s → ∀ t, t ≠ tP → t ≠ tC → s.outq.pc t = .idle := by
  apply Machine.invariant
  · simp [machine, init, QueueSM.init]
  · intro s e s' _ ih hst
    plv_cases e with hst q hq
    all_goals (try q_unfold hq)
    all_goals pc_close s ih

theorem pcInv (c : Cfg α) (s : State α) (h : (machine c).Reachable s) : PcInv s :=
  ⟨pc_rIn c s h, pc_pIn c s h, pc_pOut c s h, pc_cOut c s h, pc_othIn c s h, pc_othOut c s h⟩

end Live

namespace Live

/-! ## enabledness helpers -/

theorem en (c : Cfg α) (s : State α) (ev : Ev α) (hc : ev.isCall = false)
    (h : (step? c s ev).isSome = true) : ∃ e s', e.isCall = false ∧ (machine c).Step s e s' := by
  obtain ⟨s', hs⟩ := Option.isSome_iff_exists.mp h
  exact ⟨ev, s', hc, hs⟩

/-- a thread inside push() has an enabled queue step of one of four kinds -/
theorem q_push_enabled (qc : QueueSM.Cfg) (q : QueueSM.State Nat) (t : Tid) (id : Nat)
    (h : inPush (q.pc t) id) :
    (QueueSM.step? qc q (.pushTest t q.inUse)).isSome = true ∨
    (QueueSM.step? qc q (.pushSize t q.items.length)).isSome = true ∨
    (QueueSM.step? qc q (.pushFullWaited t q.items.length)).isSome = true ∨
    (∃ w, (QueueSM.step? qc q (.pushLocked t (q.items.length + 1) w)).isSome = true) := by
  rcases h with h | h | h | h
  · left; simp only [QueueSM.step?, h]; cases q.inUse <;> simp <;> split <;> simp
  · right; left; simp only [QueueSM.step?, h]; simp; split <;> simp
  · right; right; left; simp [QueueSM.step?, h]
  · right; right; right
    rcases CondVar.all_or_unnotified q.waiters with hall | ⟨w, hw⟩
    · exact ⟨none, by simp [QueueSM.step?, h, CondVar.notifyOneOk, hall]⟩
    · exact ⟨some w, by simp [QueueSM.step?, h, CondVar.notifyOneOk, hw]⟩

/-- a thread inside shutdown() has an enabled queue step -/
theorem q_sd_enabled (qc : QueueSM.Cfg) (q : QueueSM.State Nat) (t : Tid)
    (h : q.pc t = .sdEntered ∨ q.pc t = .sdFlagged) :
    (QueueSM.step? qc q (.sdFlag t)).isSome = true ∨ (QueueSM.step? qc q (.sdLocked t)).isSome = true := by
  rcases h with h | h
  · left; simp [QueueSM.step?, h]
  · right; simp [QueueSM.step?, h]

end Live

/-- The read thread never blocks: while it has not returned, one of its own steps is enabled
    (its only wait is the POLLING wait of a bounded push). -/
theorem read_thread_enabled (c : Cfg α) (s : State α) (h : (machine c).Reachable s) (hr : s.rpc ≠ .done) :
    ∃ e s', e.isCall = false ∧ (machine c).Step s e s' := by
  have hpc := (Live.pcInv c s h).rIn
  cases hrpc : s.rpc with
  | done => exact absurd hrpc hr
  | loop => exact Live.en c s (.rTestDone s.stop) rfl (by simp [step?, hrpc])
  | reading =>
    by_cases h1 : c.readFault = some s.reads
    · exact Live.en c s (.rRead (.exc 1)) rfl (by simp [step?, hrpc, h1])
    · by_cases h2 : s.reads < c.chunkEnd.length
      · exact Live.en c s (.rRead (.chunk s.reads)) rfl (by simp [step?, hrpc, h1, h2])
      · exact Live.en c s (.rRead .eod) rfl (by simp [step?, hrpc, h1, h2])
  | closing =>
    refine Live.en c s (.rCloseDec (!c.closeFault)) rfl ?_
    simp only [step?, hrpc]; cases c.closeFault <;> simp
  | push v k =>
    rw [hrpc] at hpc
    simp only [Live.rOk] at hpc
    exact Live.en c s (.qi (.pushEnter tR (2 * s.nIn))) rfl (by simp [step?, hrpc, QueueSM.step?, hpc])
  | pushing id v k =>
    rw [hrpc] at hpc
    simp only [Live.rOk] at hpc
    rcases Live.q_push_enabled c.inqC s.inq tR id hpc with h1 | h1 | h1 | ⟨w, h1⟩
    · exact Live.en c s (.qi (.pushTest tR s.inq.inUse)) rfl (by simpa [step?, hrpc] using h1)
    · exact Live.en c s (.qi (.pushSize tR s.inq.items.length)) rfl (by simpa [step?, hrpc] using h1)
    · exact Live.en c s (.qi (.pushFullWaited tR s.inq.items.length)) rfl (by simpa [step?, hrpc] using h1)
    · exact Live.en c s (.qi (.pushLocked tR (s.inq.items.length + 1) w)) rfl (by simpa [step?, hrpc] using h1)
  | pushed id v k => exact Live.en c s .rSet rfl (by simp [step?, hrpc])

namespace Live

/-- a consumer blocked in wait() whose predicate holds can wake up, if it is the only consumer and
    nobody else is between the flag store and the notify_all of a shutdown() -/
theorem q_wake_enabled (qc : QueueSM.Cfg) (q : QueueSM.State Nat) (hq : (QueueSM.machine Nat qc).Reachable q)
    (t : Tid) (ht : q.pc t = .popWaiting) (hp : QueueSM.pred q = true)
    (hoth : ∀ u, u ≠ t → q.pc u ≠ .popWaiting ∧ q.pc u ≠ .sdFlagged) :
    (QueueSM.step? qc q (.popWake t q.items.length q.items.head?)).isSome = true := by
  rcases C19.blocked_consumer_can_progress qc q hq t ht hp with ⟨w, s', hst⟩ | ⟨u, s', hst⟩
  · by_cases hw : w = t
    · subst hw
      simp only [Machine.Step, QueueSM.machine] at hst
      simp [hst]
    · have : q.pc w = .popWaiting := by
        simp only [Machine.Step, QueueSM.machine, QueueSM.step?] at hst
        split at hst
        · rename_i hg; exact hg.1
        · simp at hst
      exact absurd this (hoth w hw).1
  · have hu : q.pc u = .sdFlagged := by
      simp only [Machine.Step, QueueSM.machine, QueueSM.step?] at hst
      split at hst
      · assumption
      · simp at hst
    by_cases hut : u = t
    · subst hut; rw [ht] at hu; cases hu
    · exact absurd hu (hoth u hut).2

/-! ## the parser thread -/

/-- Data invariant of Parser::run() (a hypothesis of the progress theorems of this file; PROVED for
    the reachable states of a well-formed configuration: `Live.run_data`, PipelineLiveData.lean): the
    parser has not consumed more than it has, what it has is inside the file, and for PBF the data it
    has ends at a blob boundary, i.e. while objects are left the next blob is complete (needs
    `Cfg.WF.chunk_blob`; see the final comment of this file). -/
def RunData (c : Cfg α) (s : State α) : Prop :=
  s.next ≤ s.avail ∧ s.avail ≤ c.file.length ∧
  (c.pbf = true → s.next < s.avail →
    s.blob < c.blobEnd.length ∧ nth c.blobEnd s.blob ≤ s.avail ∧ s.next ≤ nth c.blobEnd s.blob) ∧
  (c.nothing = true → s.cur = [])

/-- futures of the input queue never hold a buffer, futures of the osmdata queue never hold an
    input chunk (typing of the two queues; PROVED: `Live.typed`, PipelineLiveTyped.lean) -/
def Typed (s : State α) : Prop :=
  (∀ id l, s.ppc = .got id → s.fut id ≠ some (.buf l)) ∧
  (∀ id i, s.cpc = .readGot id → s.fut id ≠ some (.chunk i))

/-- the genuine wait states of the parser thread -/
def ParserWaiting (c : Cfg α) (s : State α) : Prop :=
  (s.ppc = .popWait ∧ s.inq.pc tP = .popWaiting) ∨
  (∃ id, s.ppc = .got id ∧ s.fut id = none) ∨
  (s.ppc = .run ∧ c.usePool = true ∧ c.wqMax ≠ 0 ∧ c.wqMax ≤ s.work.length)

omit [DecidableEq α] in
theorem wfLevels_single (l : List α) : wfLevels [l] = true := rfl

theorem parser_run_enabled (c : Cfg α) (s : State α) (hd : RunData c s) (hp : s.ppc = .run) :
    (∃ e s', Ev.isCall e = false ∧ (machine c).Step s e s') ∨ ParserWaiting c s := by
  obtain ⟨hna, hal, hblob, hnoth⟩ := hd
  by_cases hid : s.inputDone = false
  · exact .inl (en c s (.pInUse s.inq.inUse) rfl (by simp only [step?, hp, hid]; cases s.inq.inUse <;> simp))
  have hid : s.inputDone = true := by simpa using hid
  by_cases hh : s.hdr = none
  · exact .inl (en c s .pHeader rfl (by simp [step?, hp, hh]))
  by_cases hf : c.parseFault = some s.next
  · exact .inl (en c s .pThrow rfl (by simp [step?, hp, hf, hid]))
  by_cases hlt : s.next < s.avail
  · cases hpbf : c.pbf with
    | false =>
      have : s.next < c.file.length := by omega
      left
      refine en c s (.pObj false) rfl ?_
      simp only [step?, hp, hpbf, hlt, List.getElem?_eq_getElem this]
      simp [hh, hf]
      split <;> simp
    | true =>
      obtain ⟨hb1, hb2, hb3⟩ := hblob hpbf hlt
      by_cases hno : c.nothing = true
      · exact .inl (en c s .pRunEnd rfl (by simp [step?, hp, hh, hnoth hno, hno]))
      · have hno : c.nothing = false := by simpa using hno
        cases hup : c.usePool with
        | false =>
          left
          refine en c s (.pBlob [proj c (seg c s.next (nth c.blobEnd s.blob))]) rfl ?_
          simp only [step?, hp, hpbf, hno, hup]
          simp [hh, hb1, hb2, hb3, hf, wfLevels_single]
          split <;> simp
        | true =>
          by_cases hw : c.wqMax = 0 ∨ s.work.length < c.wqMax
          · left
            refine en c s (.pBlob [proj c (seg c s.next (nth c.blobEnd s.blob))]) rfl ?_
            simp only [step?, hp, hpbf, hno, hup]
            simp [hh, hb1, hb2, hb3, hf, wfLevels_single, hw]
          · right; right; right
            exact ⟨hp, hup, by omega, by omega⟩
  · have heq : s.next = s.avail := by omega
    by_cases hcur : s.cur = []
    · have hf' : ¬c.parseFault = some s.avail := heq ▸ hf
      exact .inl (en c s .pRunEnd rfl (by simp [step?, hp, hh, hcur, hid, heq, hf']))
    · exact .inl (en c s .pFlushFinal rfl (by simp [step?, hp, hid, heq, hcur]))

/-- `parser_enabled_or_waiting`: while the parser thread has not returned, one of its steps is
    enabled or it is in one of its three genuine wait states. -/
theorem parser_enabled_or_waiting (c : Cfg α) (s : State α) (h : (machine c).Reachable s)
    (hd : RunData c s) (hty : Typed s) (hp : s.ppc ≠ .done) :
    (∃ e s', Ev.isCall e = false ∧ (machine c).Step s e s') ∨ ParserWaiting c s := by
  have hpc := pcInv c s h
  have hin := hpc.pIn
  have hout := hpc.pOut
  cases hppc : s.ppc with
  | done => exact absurd hppc hp
  | run => exact parser_run_enabled c s hd hppc
  | popWait =>
    rw [hppc] at hin
    simp only [pOkIn] at hin
    rcases hin with hi | hi
    · left
      cases hpred : QueueSM.pred s.inq with
      | true => exact en c s (.qi (.popNow tP s.inq.items.length s.inq.items.head?)) rfl
                  (by simp [step?, hppc, QueueSM.step?, hi, hpred])
      | false => exact en c s (.qi (.popBlock tP)) rfl (by simp [step?, hppc, QueueSM.step?, hi, hpred])
    · exact .inr (.inl ⟨hppc, hi⟩)
  | got id =>
    cases hf : s.fut id with
    | none => exact .inr (.inr (.inl ⟨id, hppc, hf⟩))
    | some v =>
      left
      cases v with
      | buf l => exact absurd hf (hty.1 id l hppc)
      | chunk i => exact en c s (.pGet (.chunk i)) rfl (by simp [step?, hppc, hf])
      | eod => exact en c s (.pGet .eod) rfl (by simp [step?, hppc, hf])
      | exc code => exact en c s (.pGet (.exc code)) rfl (by simp [step?, hppc, hf])
  | sdIn k =>
    rw [hppc] at hin
    simp only [pOkIn] at hin
    exact .inl (en c s (.qi (.sdEnter tP)) rfl (by simp [step?, hppc, QueueSM.step?, hin]))
  | sdInRun k =>
    rw [hppc] at hin
    simp only [pOkIn] at hin
    left
    rcases q_sd_enabled c.inqC s.inq tP hin with h1 | h1
    · exact en c s (.qi (.sdFlag tP)) rfl (by simpa [step?, hppc] using h1)
    · exact en c s (.qi (.sdLocked tP)) rfl (by simpa [step?, hppc] using h1)
  | push v k =>
    rw [hppc] at hout
    simp only [pOkOut] at hout
    exact .inl (en c s (.qo (.pushEnter tP (2 * s.nOut + 1))) rfl (by simp [step?, hppc, QueueSM.step?, hout]))
  | pushFut id k =>
    rw [hppc] at hout
    simp only [pOkOut] at hout
    exact .inl (en c s (.qo (.pushEnter tP id)) rfl (by simp [step?, hppc, QueueSM.step?, hout]))
  | pushing id ov k =>
    rw [hppc] at hout
    simp only [pOkOut] at hout
    left
    rcases q_push_enabled c.outqC s.outq tP id hout with h1 | h1 | h1 | ⟨w, h1⟩
    · exact en c s (.qo (.pushTest tP s.outq.inUse)) rfl (by simpa [step?, hppc] using h1)
    · exact en c s (.qo (.pushSize tP s.outq.items.length)) rfl (by simpa [step?, hppc] using h1)
    · exact en c s (.qo (.pushFullWaited tP s.outq.items.length)) rfl (by simpa [step?, hppc] using h1)
    · exact en c s (.qo (.pushLocked tP (s.outq.items.length + 1) w)) rfl (by simpa [step?, hppc] using h1)
  | pushed id v k => exact .inl (en c s .pSet rfl (by simp [step?, hppc]))
  | caught code => exact .inl (en c s .pCatch rfl (by simp [step?, hppc]))

/-! ## the pool -/

/-- while jobs are queued and there is a worker, a worker step is enabled -/
theorem worker_enabled (c : Cfg α) (s : State α) (hw : s.work ≠ []) (hne : c.workers ≠ []) :
    ∃ e s', Ev.isCall e = false ∧ (machine c).Step s e s' := by
  obtain ⟨w, hwm⟩ := List.exists_mem_of_ne_nil _ hne
  cases hwp : s.wpc w with
  | some id => exact en c s (.wDone w) rfl (by simp [step?, hwp])
  | none =>
    cases hwk : s.work with
    | nil => exact absurd hwk hw
    | cons id rest => exact en c s (.wStart w) rfl (by simp [step?, hwp, hwm, hwk])

/-- a running job can finish -/
theorem running_enabled (c : Cfg α) (s : State α) (w : Tid) (id : Nat) (hwp : s.wpc w = some id) :
    ∃ e s', Ev.isCall e = false ∧ (machine c).Step s e s' :=
  en c s (.wDone w) rfl (by simp [step?, hwp])

end Live

namespace Live

/-! ## wait-for invariants of the deadlock-freedom argument -/

/-- parser pcs that are only reached after the header promise has been set -/
def postHdr : PPc α → Bool
  | .sdIn k | .sdInRun k | .push _ k | .pushFut _ k | .pushing _ _ k | .pushed _ _ k => k != .run
  | .done => true
  | _ => false

set_option maxHeartbeats 1600000 in
theorem inv_hdr (c : Cfg α) : ∀ s, (machine c).Reachable s → s.hdr = none → postHdr s.ppc = false := by
  apply Machine.invariant
  · simp [machine, init, postHdr]
  · intro s e s' _ ih hst
    plv_cases e with hst q hq
    all_goals first
      | exact ih
      | (simp_all [postHdr, pCont]; done)
      | (cases ‹PK› <;> simp_all [postHdr, pCont]; done)
      | (cases hh : s.ppc <;> simp_all [postHdr, pCont]; done)

/-- (I3, PROVED: `hdrSet`) the parser thread only returns after the header promise is set -/
def HdrSet (s : State α) : Prop := s.ppc = .done → s.hdr ≠ none

theorem hdrSet (c : Cfg α) (s : State α) (h : (machine c).Reachable s) : HdrSet s := by
  intro hp hn
  have := inv_hdr c s h hn
  simp [hp, postHdr] at this

/-- (I1, hypothesis here; PROVED: `inq_fut_ready`, PipelineShapeIn.lean) the read thread sets every promise before it pushes the next future / returns:
    once it has returned, a future the parser holds is ready -/
def InqFutReady (s : State α) : Prop := s.rpc = .done → ∀ id, s.ppc = .got id → s.fut id ≠ none

/-- (I2, hypothesis here; PROVED: `inq_marker`, PipelineShapeIn.lean) the read thread's last push is the end marker and the parser stops popping after
    it: if the read thread has returned and the parser is blocked inside wait_and_pop(), the wait
    predicate `!in_use || !empty` holds -/
def InqMarker (s : State α) : Prop :=
  s.rpc = .done → s.ppc = .popWait → s.inq.pc tP = .popWaiting → QueueSM.pred s.inq = true

/-- (I4, hypothesis here; PROVED: `Live.outq_marker`, PipelineLiveMarker.lean) same for the osmdata queue: the parser's last push is the end marker -/
def OutqMarker (s : State α) : Prop :=
  s.ppc = .done → s.cpc = .readWaitPop → s.outq.pc tC = .popWaiting → QueueSM.pred s.outq = true

/-- (I5, hypothesis here; PROVED: `Live.out_fut_ready`, PipelineLiveTyped.lean) a future of the osmdata queue that is not ready once the parser has returned
    belongs to a submitted blob: its job is still in the work queue or running -/
def OutFutReady (c : Cfg α) (s : State α) : Prop :=
  s.ppc = .done → ∀ id, s.cpc = .readGot id → s.fut id = none →
    (s.work ≠ [] ∧ c.usePool = true) ∨ ∃ w j, s.wpc w = some j

end Live

open Live in
/-- `_partial` version of C07 `no_stuck_state`: while an API call is in progress some internal step
    is enabled, PROVIDED the state satisfies the data/typing invariants `RunData`, `Typed` and the
    four wait-for invariants `InqFutReady`, `InqMarker`, `OutqMarker`, `OutFutReady` (stated above,
    not proved in this file; `HdrSet` and the pc correspondence `PcInv` are proved).  All six are
    proved as invariants in the other parts; the full theorem is `no_stuck_state` in PipelineLive.lean. -/
theorem no_stuck_state_partial (c : Cfg α) (wf : c.WF) (s : State α) (h : (machine c).Reachable s)
    (hd : RunData c s) (hty : Typed s) (i1 : InqFutReady s) (i2 : InqMarker s) (i4 : OutqMarker s)
    (i5 : OutFutReady c s)
    (h1 : s.cpc ≠ .idle) (h2 : s.cpc ≠ .dead) :
    ∃ e s', e.isCall = false ∧ (machine c).Step s e s' := by
  by_cases hr : s.rpc = .done
  case neg => exact read_thread_enabled c s h hr
  have hpc := pcInv c s h
  have hrin := hpc.rIn
  rw [hr] at hrin
  simp only [rOk] at hrin
  by_cases hp : s.ppc = .done
  case neg =>
    rcases parser_enabled_or_waiting c s h hd hty hp with hen | hw | ⟨id, hg, hf⟩ | ⟨_, hup, hq0, hql⟩
    · exact hen
    · -- (w1) blocked in wait_and_pop(m_input_queue)
      obtain ⟨hpw, hpq⟩ := hw
      have hpred := i2 hr hpw hpq
      have := q_wake_enabled c.inqC s.inq (Q.reachable_inq c s h) tP hpq hpred (by
        intro u hu
        by_cases hur : u = tR
        · subst hur; rw [hrin]; simp
        · rw [hpc.othIn u hur hu]; simp)
      exact en c s (.qi (.popWake tP s.inq.items.length s.inq.items.head?)) rfl
        (by simpa [step?, hpw] using this)
    · exact absurd hf (i1 hr id hg)
    · have hwk : s.work ≠ [] := by
        intro h0; rw [h0] at hql; simp at hql; exact hq0 hql
      exact worker_enabled c s hwk (wf.workers_ne hup)
  case pos =>
    have hpout := hpc.pOut
    rw [hp] at hpout
    simp only [pOkOut] at hpout
    have hco := hpc.cOut
    cases hc : s.cpc with
    | idle => exact absurd hc h1
    | dead => exact absurd hc h2
    | hdrWait =>
      have hh := hdrSet c s h hp
      cases hhd : s.hdr with
      | none => exact absurd hhd hh
      | some o => cases o <;> exact en c s .cHeaderGet rfl (by simp [step?, hc, hhd])
    | readPop =>
      refine en c s (.cInUse s.outq.inUse) rfl ?_
      simp only [step?, hc]; cases s.outq.inUse <;> simp
    | readWaitPop =>
      rw [hc] at hco
      simp only [cOk] at hco
      rcases hco with hi | hi
      · cases hpred : QueueSM.pred s.outq with
        | true => exact en c s (.qo (.popNow tC s.outq.items.length s.outq.items.head?)) rfl
                    (by simp [step?, hc, QueueSM.step?, hi, hpred])
        | false => exact en c s (.qo (.popBlock tC)) rfl (by simp [step?, hc, QueueSM.step?, hi, hpred])
      · have hpred := i4 hp hc hi
        have := q_wake_enabled c.outqC s.outq (Q.reachable_outq c s h) tC hi hpred (by
          intro u hu
          by_cases hup : u = tP
          · subst hup; rw [hpout]; simp
          · rw [hpc.othOut u hup hu]; simp)
        exact en c s (.qo (.popWake tC s.outq.items.length s.outq.items.head?)) rfl
          (by simpa [step?, hc] using this)
    | readGot id =>
      cases hf : s.fut id with
      | some v =>
        cases v with
        | chunk i => exact absurd hf (hty.2 id i hc)
        | buf l => exact en c s (.cGet (.buf l)) rfl (by simp [step?, hc, hf])
        | eod => exact en c s (.cGet .eod) rfl (by simp [step?, hc, hf])
        | exc code => exact en c s (.cGet (.exc code)) rfl (by simp [step?, hc, hf])
      | none =>
        rcases i5 hp id hc hf with ⟨hwk, hup⟩ | ⟨w, j, hw⟩
        · exact worker_enabled c s hwk (wf.workers_ne hup)
        · exact running_enabled c s w j hw
    | eodSd =>
      rw [hc] at hco; simp only [cOk] at hco
      exact en c s (.qo (.sdEnter tC)) rfl (by simp [step?, hc, QueueSM.step?, hco])
    | closeSd k =>
      rw [hc] at hco; simp only [cOk] at hco
      exact en c s (.qo (.sdEnter tC)) rfl (by simp [step?, hc, QueueSM.step?, hco])
    | dtorSd =>
      rw [hc] at hco; simp only [cOk] at hco
      exact en c s (.qo (.sdEnter tC)) rfl (by simp [step?, hc, QueueSM.step?, hco])
    | eodSdRun =>
      rw [hc] at hco; simp only [cOk] at hco
      rcases q_sd_enabled c.outqC s.outq tC hco with g | g
      · exact en c s (.qo (.sdFlag tC)) rfl (by simpa [step?, hc] using g)
      · exact en c s (.qo (.sdLocked tC)) rfl (by simpa [step?, hc] using g)
    | closeSdRun k =>
      rw [hc] at hco; simp only [cOk] at hco
      rcases q_sd_enabled c.outqC s.outq tC hco with g | g
      · exact en c s (.qo (.sdFlag tC)) rfl (by simpa [step?, hc] using g)
      · exact en c s (.qo (.sdLocked tC)) rfl (by simpa [step?, hc] using g)
    | dtorSdRun =>
      rw [hc] at hco; simp only [cOk] at hco
      rcases q_sd_enabled c.outqC s.outq tC hco with g | g
      · exact en c s (.qo (.sdFlag tC)) rfl (by simpa [step?, hc] using g)
      · exact en c s (.qo (.sdLocked tC)) rfl (by simpa [step?, hc] using g)
    | eofJoin => exact en c s .cJoinR rfl (by simp [step?, hc, hr])
    | closeJoin k => exact en c s .cJoinR rfl (by simp [step?, hc, hr])
    | dtorJoinP => exact en c s .cJoinP rfl (by simp [step?, hc, hp])
    | ret r => exact en c s (.cRet r) rfl (by simp [step?, hc])

/-
FINDING (model level, RESOLVED).  With the first version of `Cfg.WF`, which did not relate `chunkEnd`
and `blobEnd`, `no_stuck_state` was FALSE: the PBF branch of `step?` has no event for "input ended
inside a blob" (the real PBFParser throws pbf_error there).  Stuck run: pbf = true, file = [a, b],
chunkEnd = [1, 2], blobEnd = [2], usePool = false, nothing = false, no faults.  Read thread delivers
chunk 0; the client calls the destructor (stop := true); read thread: rTestDone true, rCloseDec true,
pushes the end marker, returns.  Parser: pops chunk 0 (avail = 1), pHeader, pops the end marker
(inputDone = true), shuts the input queue down, is back in `run` with next = 0 < avail = 1 but
nth blobEnd 0 = 2 > avail: pBlob, pObj (pbf), pThrow, pFlush*, pNewBuf, pRunEnd, pInUse are all
disabled.  The consumer reaches `dtorJoinP` and waits for `ppc = done` for ever.
`Cfg.WF.chunk_blob` (PBF: every chunk boundary is 0 or a blob boundary, i.e. `chunkEnd` counts only the
objects of complete blobs) now excludes that configuration (chunkEnd = [1, 2] has 1 ∉ blobEnd = [2]);
with it the third component of `RunData` is an invariant (`Live.run_data`, PipelineLiveData.lean) and
`no_stuck_state` holds (PipelineLive.lean).
-/

end Osmium.Pipeline
