/-
C18 — floating-point error analysis of the executable binary64 rounding function `rne53`
(Osmium/Model/Tile.lean):

  * `rne53_rel`: in the normal range (|q| ≥ 2^-1022) the relative rounding error is at most 2^-53;
  * `roundtrip_x_binary64`: with every operation rounded to binary64 and the library's constants
    (Osmium/Generated/C18Consts.lean),
      Location::double_to_fix(x_to_lon(lon_to_x(Location::fix_to_double(lon)))) == lon
    for every valid fixed-point longitude |lon| ≤ 1 800 000 000.  Six roundings, each adds at
    most 2^-52 to the accumulated relative error; (PI/180)·(180/PI) as doubles is within 2^-51
    of 1; so the value handed to std::round is within 1.8e9 · 14 · 2^-52 < 1/4 of `lon`.
-/
import Osmium.Model.Tile
import Osmium.Lemmas.TileRound
import Osmium.Lemmas.Tile
import Osmium.Generated.C18Consts
import Mathlib.Tactic.Linarith
import Mathlib.Tactic.Ring
import Mathlib.Tactic.FieldSimp
import Mathlib.Tactic.Positivity
import Mathlib.Tactic.NormNum
import Mathlib.Data.Rat.Floor
import Mathlib.Algebra.Order.Field.Power

namespace Osmium.Tile

/-! ### round half to even is within 1/2 -/

theorem rhe_abs (t : Rat) : |(rhe t : Rat) - t| ≤ 1 / 2 := by
  have h1 : ((⌊t⌋ : Int) : Rat) ≤ t := Int.floor_le t
  have h2 : t < (⌊t⌋ : Rat) + 1 := Int.lt_floor_add_one t
  have hf : t.floor = ⌊t⌋ := rfl
  unfold rhe
  dsimp only
  rw [hf]
  rw [abs_le]
  split_ifs with a b c
  · constructor <;> linarith
  · push_cast; constructor <;> linarith
  · have : t - (⌊t⌋ : Rat) = 1 / 2 := le_antisymm (not_lt.mp b) (not_lt.mp a)
    constructor <;> linarith
  · have : t - (⌊t⌋ : Rat) = 1 / 2 := le_antisymm (not_lt.mp b) (not_lt.mp a)
    push_cast; constructor <;> linarith

private theorem tw_ne : (2 : Rat) ≠ 0 := by norm_num

private theorem tw_pos (e : Int) : (0 : Rat) < (2 : Rat) ^ e := zpow_pos (by norm_num) e

/-- relative error of `rnePos` in the normal range -/
theorem rnePos_rel {q : Rat} (h : (2 : Rat) ^ (-1022 : Int) ≤ q) :
    |rnePos q - q| ≤ q * (2 : Rat) ^ (-53 : Int) := by
  have hq : 0 < q := lt_of_lt_of_le (tw_pos _) h
  obtain ⟨s1, s2⟩ := ilog2_spec hq
  have hl : -1022 ≤ ilog2 q := by
    have : (-1022 : Int) < ilog2 q + 1 :=
      (zpow_lt_zpow_iff_right₀ (by norm_num : (1 : Rat) < 2)).mp (lt_of_le_of_lt h s2)
    omega
  have he : max (ilog2 q) (-1022) = ilog2 q := max_eq_left hl
  have hdef : rnePos q = (rhe (q / (2 : Rat) ^ (ilog2 q - 52)) : Rat) * (2 : Rat) ^ (ilog2 q - 52) := by
    unfold rnePos; dsimp only; rw [he]
  rw [hdef]
  generalize ilog2 q = e at *
  have hu : (0 : Rat) < (2 : Rat) ^ (e - 52) := tw_pos _
  have hr := rhe_abs (q / (2 : Rat) ^ (e - 52))
  have e1 : (rhe (q / (2 : Rat) ^ (e - 52)) : Rat) * (2 : Rat) ^ (e - 52) - q
      = ((rhe (q / (2 : Rat) ^ (e - 52)) : Rat) - q / (2 : Rat) ^ (e - 52)) * (2 : Rat) ^ (e - 52) := by
    field_simp
  rw [e1, abs_mul, abs_of_pos hu]
  have e2 : (2 : Rat) ^ (e - 52) = 2 * ((2 : Rat) ^ e * (2 : Rat) ^ (-53 : Int)) := by
    rw [← zpow_add₀ tw_ne, ← zpow_one_add₀ tw_ne]; congr 1; ring
  have hp : (0 : Rat) < (2 : Rat) ^ (-53 : Int) := tw_pos _
  calc |(rhe (q / (2 : Rat) ^ (e - 52)) : Rat) - q / (2 : Rat) ^ (e - 52)| * (2 : Rat) ^ (e - 52)
      ≤ 1 / 2 * (2 : Rat) ^ (e - 52) := mul_le_mul_of_nonneg_right hr hu.le
    _ = (2 : Rat) ^ e * (2 : Rat) ^ (-53 : Int) := by rw [e2]; ring
    _ ≤ q * (2 : Rat) ^ (-53 : Int) := mul_le_mul_of_nonneg_right s1 hp.le

/-- Relative error of binary64 rounding in the normal range. -/
theorem rne53_rel (q : Rat) (h : (2 : Rat) ^ (-1022 : Int) ≤ |q|) :
    |rne53 q - q| ≤ |q| * (2 : Rat) ^ (-53 : Int) := by
  rcases lt_trichotomy q 0 with hq | hq | hq
  · rw [abs_of_neg hq] at h
    rw [rne53_of_neg hq, abs_of_neg hq]
    have := rnePos_rel h
    have e : -rnePos (-q) - q = -(rnePos (-q) - -q) := by ring
    rw [e, abs_neg]; exact this
  · subst hq
    have := tw_pos (-1022)
    rw [abs_zero] at h; linarith
  · rw [abs_of_pos hq] at h
    rw [rne53_pos hq, abs_of_pos hq]
    exact rnePos_rel h

/-! ### propagation of relative errors through rounded operations -/

/-- one rounded operation: a relative error `ε ≤ 1/2` of the exact operand grows by at most
    `2^-52` (values far above the subnormal range) -/
theorem rel_round {x' x ε : Rat} (h : |x' - x| ≤ ε * |x|) (h1 : ε ≤ 1 / 2)
    (hx : 1 / 2 ^ 60 ≤ |x|) : |rne53 x' - x| ≤ (ε + 1 / 2 ^ 52) * |x| := by
  have hA : 0 ≤ |x| := abs_nonneg x
  have hεA : ε * |x| ≤ 1 / 2 * |x| := mul_le_mul_of_nonneg_right h1 hA
  have up : |x'| ≤ |x| + |x' - x| := by
    have := abs_add_le x (x' - x)
    rwa [add_sub_cancel] at this
  have lo : |x| ≤ |x'| + |x' - x| := by
    have := abs_add_le x' (x - x')
    rwa [add_sub_cancel, abs_sub_comm x x'] at this
  have big : (2 : Rat) ^ (-1022 : Int) ≤ |x'| := by
    have a : (2 : Rat) ^ (-1022 : Int) ≤ (2 : Rat) ^ (-61 : Int) :=
      zpow_le_zpow_right₀ (by norm_num) (by norm_num)
    have b : (2 : Rat) ^ (-61 : Int) = 1 / 2 ^ 61 := by norm_num [zpow_neg]
    rw [b] at a
    have c : (1 : Rat) / 2 ^ 61 = 1 / 2 * (1 / 2 ^ 60) := by norm_num
    linarith
  have r := rne53_rel x' big
  have e53 : (2 : Rat) ^ (-53 : Int) = 1 / 2 ^ 53 := by norm_num [zpow_neg]
  rw [e53] at r
  have tri : |rne53 x' - x| ≤ |rne53 x' - x'| + |x' - x| := by
    have := abs_add_le (rne53 x' - x') (x' - x)
    rwa [sub_add_sub_cancel] at this
  have hB : |x'| ≤ 3 / 2 * |x| := by linarith
  have : |x'| * (1 / 2 ^ 53) ≤ 3 / 2 * |x| * (1 / 2 ^ 53) :=
    mul_le_mul_of_nonneg_right hB (by norm_num)
  have e : (ε + 1 / 2 ^ 52) * |x| = ε * |x| + 1 / 2 ^ 52 * |x| := by ring
  rw [e]
  have : 3 / 2 * |x| * (1 / 2 ^ 53) ≤ 1 / 2 ^ 52 * |x| := by
    have : (3 : Rat) / 2 * |x| * (1 / 2 ^ 53) = 3 / 4 * (1 / 2 ^ 52 * |x|) := by ring
    rw [this]
    have : 0 ≤ (1 : Rat) / 2 ^ 52 * |x| := by positivity
    linarith
  linarith

theorem rel_mul {a' a ε : Rat} (c : Rat) (h : |a' - a| ≤ ε * |a|) :
    |a' * c - a * c| ≤ ε * |a * c| := by
  rw [← sub_mul, abs_mul, abs_mul, ← mul_assoc]
  exact mul_le_mul_of_nonneg_right h (abs_nonneg c)

theorem rel_mul_left {a' a ε : Rat} (c : Rat) (h : |a' - a| ≤ ε * |a|) :
    |c * a' - c * a| ≤ ε * |c * a| := by
  rw [mul_comm c a', mul_comm c a]; exact rel_mul c h

theorem rel_div {a' a ε : Rat} (c : Rat) (h : |a' - a| ≤ ε * |a|) :
    |a' / c - a / c| ≤ ε * |a / c| := by
  rw [div_eq_mul_inv, div_eq_mul_inv]; exact rel_mul c⁻¹ h

theorem lb_mul {a c m k : Rat} (ha : m ≤ |a|) (hc : k ≤ |c|) (hk : 0 ≤ k) : m * k ≤ |a * c| := by
  rw [abs_mul]; exact mul_le_mul ha hc hk (abs_nonneg a)

/-! ### std::round of a value close to an integer -/

theorem roundHalfAway_near {v : Rat} {n : Int} (h : |v - (n : Rat)| ≤ 1 / 4) : roundHalfAway v = n := by
  have hf (q : Rat) : q.floor = ⌊q⌋ := rfl
  obtain ⟨l, r⟩ := abs_le.mp h
  unfold roundHalfAway
  split_ifs with hv
  · rw [hf, Int.floor_eq_iff]; constructor <;> linarith
  · have : ⌊-v + 1 / 2⌋ = -n := by
      rw [Int.floor_eq_iff]; push_cast; constructor <;> linarith
    rw [hf, this, neg_neg]

/-! ### the six roundings of the longitude round trip -/

theorem roundtrip_chain (L c1 c2 : Rat) (hL : 1 ≤ |L|) (hL2 : |L| ≤ 1800000000)
    (hc : |c1 * c2 - 1| ≤ 1 / 2 ^ 51) (hc1 : 1 / 2 ^ 6 ≤ c1 ∧ c1 ≤ 1 / 2 ^ 5) (hc2 : 32 ≤ c2 ∧ c2 ≤ 64) :
    |rne53 (rne53 (rne53 (rne53 (6378137 * rne53 (rne53 (L / 10000000) * c1)) * c2) / 6378137)
        * 10000000) - L| ≤ 1 / 4 := by
  have c1pos : 0 < c1 := lt_of_lt_of_le (by norm_num) hc1.1
  have c2pos : 0 < c2 := lt_of_lt_of_le (by norm_num) hc2.1
  have ac1 : (1 : Rat) / 2 ^ 6 ≤ |c1| := by rw [abs_of_pos c1pos]; exact hc1.1
  have ac2 : (1 : Rat) ≤ |c2| := by rw [abs_of_pos c2pos]; linarith [hc2.1]
  -- magnitudes of the exact intermediate values
  have b0 : (1 : Rat) / 2 ^ 24 ≤ |L / 10000000| := by
    rw [abs_div, abs_of_pos (by norm_num : (0 : Rat) < 10000000), le_div_iff₀ (by norm_num)]
    have : (1 : Rat) / 2 ^ 24 * 10000000 ≤ 1 := by norm_num
    linarith
  have b1 : (1 : Rat) / 2 ^ 24 * (1 / 2 ^ 6) ≤ |L / 10000000 * c1| := lb_mul b0 ac1 (by norm_num)
  have b2 : (1 : Rat) / 2 ^ 24 * (1 / 2 ^ 6) ≤ |6378137 * (L / 10000000 * c1)| := by
    rw [abs_mul]
    have : (1 : Rat) ≤ |(6378137 : Rat)| := by norm_num
    have h0 : (0 : Rat) ≤ |L / 10000000 * c1| := abs_nonneg _
    nlinarith
  have b3 : (1 : Rat) / 2 ^ 24 * (1 / 2 ^ 6) * 1 ≤ |6378137 * (L / 10000000 * c1) * c2| :=
    lb_mul b2 ac2 (by norm_num)
  have b4 : (1 : Rat) / 2 ^ 24 * (1 / 2 ^ 6) * 1 * (1 / 2 ^ 23)
      ≤ |6378137 * (L / 10000000 * c1) * c2 / 6378137| := by
    rw [div_eq_mul_inv]
    have hi : (1 : Rat) / 2 ^ 23 ≤ |(6378137 : Rat)⁻¹| := by
      rw [abs_of_pos (by norm_num : (0 : Rat) < (6378137 : Rat)⁻¹)]; norm_num
    exact lb_mul b3 hi (by norm_num)
  have b5 : (1 : Rat) / 2 ^ 24 * (1 / 2 ^ 6) * 1 * (1 / 2 ^ 23) * 1
      ≤ |6378137 * (L / 10000000 * c1) * c2 / 6378137 * 10000000| :=
    lb_mul b4 (by norm_num) (by norm_num)
  -- the six roundings
  have s0 : |rne53 (L / 10000000) - L / 10000000| ≤ (0 + 1 / 2 ^ 52) * |L / 10000000| :=
    rel_round (by simp) (by norm_num) (le_trans (by norm_num) b0)
  have s1 := rel_round (rel_mul c1 s0) (by norm_num) (le_trans (by norm_num) b1)
  have s2 := rel_round (rel_mul_left 6378137 s1) (by norm_num) (le_trans (by norm_num) b2)
  have s3 := rel_round (rel_mul c2 s2) (by norm_num) (le_trans (by norm_num) b3)
  have s4 := rel_round (rel_div 6378137 s3) (by norm_num) (le_trans (by norm_num) b4)
  have s5 := rel_round (rel_mul 10000000 s4) (by norm_num) (le_trans (by norm_num) b5)
  have ex : 6378137 * (L / 10000000 * c1) * c2 / 6378137 * 10000000 = L * (c1 * c2) := by
    field_simp
  rw [ex] at s5
  generalize rne53 (rne53 (rne53 (rne53 (6378137 * rne53 (rne53 (L / 10000000) * c1)) * c2) / 6378137)
        * 10000000) = v at s5 ⊢
  have hA : 0 ≤ |L| := abs_nonneg L
  have d1 : |L * (c1 * c2) - L| ≤ |L| * (1 / 2 ^ 51) := by
    have : L * (c1 * c2) - L = L * (c1 * c2 - 1) := by ring
    rw [this, abs_mul]
    exact mul_le_mul_of_nonneg_left hc hA
  have d2 : |L * (c1 * c2)| ≤ |L| * 2 := by
    rw [abs_mul]
    apply mul_le_mul_of_nonneg_left _ hA
    have := (abs_le.mp hc)
    rw [abs_le]; constructor <;> nlinarith [this.1, this.2]
  have tri : |v - L| ≤ |v - L * (c1 * c2)| + |L * (c1 * c2) - L| := by
    have := abs_add_le (v - L * (c1 * c2)) (L * (c1 * c2) - L)
    rwa [sub_add_sub_cancel] at this
  have d3 : (0 + 1 / 2 ^ 52 + 1 / 2 ^ 52 + 1 / 2 ^ 52 + 1 / 2 ^ 52 + 1 / 2 ^ 52 + 1 / 2 ^ 52 : Rat) * |L * (c1 * c2)|
      ≤ 6 / 2 ^ 52 * (|L| * 2) := by
    have : (0 + 1 / 2 ^ 52 + 1 / 2 ^ 52 + 1 / 2 ^ 52 + 1 / 2 ^ 52 + 1 / 2 ^ 52 + 1 / 2 ^ 52 : Rat) = 6 / 2 ^ 52 := by
      norm_num
    rw [this]
    exact mul_le_mul_of_nonneg_left d2 (by norm_num)
  have fin : 6 / 2 ^ 52 * (|L| * 2) + |L| * (1 / 2 ^ 51) ≤ 1 / 4 := by
    have : (6 : Rat) / 2 ^ 52 * (|L| * 2) + |L| * (1 / 2 ^ 51) = |L| * (14 / 2 ^ 52) := by ring
    rw [this]
    have : |L| * (14 / 2 ^ 52) ≤ 1800000000 * (14 / 2 ^ 52) :=
      mul_le_mul_of_nonneg_right hL2 (by norm_num)
    have : (1800000000 : Rat) * (14 / 2 ^ 52) ≤ 1 / 4 := by norm_num
    linarith
  linarith

/-- The round trip for every projection configuration that rounds to binary64 and whose
    constants satisfy the stated bounds. -/
theorem roundtrip_x_of (p : ProjCfg) (hr : p.rnd = rne53) (hR : p.R = 6378137) (hP : p.prec = 10000000)
    (hc : |p.degToRad * p.radToDeg - 1| ≤ (2 : Rat) ^ (-51 : Int))
    (hc1 : (2 : Rat) ^ (-6 : Int) ≤ p.degToRad ∧ p.degToRad ≤ (2 : Rat) ^ (-5 : Int))
    (hc2 : 32 ≤ p.radToDeg ∧ p.radToDeg ≤ 64)
    (lon : Int) (h1 : -1800000000 ≤ lon) (h2 : lon ≤ 1800000000) :
    doubleToFix p (xToLon p (lonToX p lon)) = .ok lon := by
  have hfit : int32Min ≤ lon ∧ lon ≤ int32Max := by unfold int32Min int32Max; omega
  unfold doubleToFix xToLon lonToX fixToDouble
  rw [hr, hR, hP]
  suffices h : roundHalfAway (rne53 (rne53 (rne53 (rne53 (6378137 * rne53 (rne53 ((lon : Rat) / 10000000)
      * p.degToRad)) * p.radToDeg) / 6378137) * 10000000)) = lon by
    rw [h]; exact toInt32_intCast hfit.1 hfit.2
  apply roundHalfAway_near
  by_cases h0 : lon = 0
  · subst h0
    simp [rne53_zero]
  · have e51 : (2 : Rat) ^ (-51 : Int) = 1 / 2 ^ 51 := by norm_num [zpow_neg]
    have e6 : (2 : Rat) ^ (-6 : Int) = 1 / 2 ^ 6 := by norm_num [zpow_neg]
    have e5 : (2 : Rat) ^ (-5 : Int) = 1 / 2 ^ 5 := by norm_num [zpow_neg]
    rw [e51] at hc
    rw [e6, e5] at hc1
    have hL : (1 : Rat) ≤ |(lon : Rat)| := by
      have : (1 : Int) ≤ |lon| := Int.one_le_abs h0
      exact_mod_cast this
    have hL2 : |(lon : Rat)| ≤ 1800000000 := by
      have : |lon| ≤ 1800000000 := abs_le.mpr ⟨h1, h2⟩
      exact_mod_cast this
    exact roundtrip_chain _ _ _ hL hL2 hc hc1 hc2

/-! ### the library's constants -/

/-- binary64 arithmetic with the constants of the library (bit patterns regenerated from the
    headers, Osmium/Generated/C18Consts.lean) -/
def libP : ProjCfg :=
  { rnd := rne53,
    R := (match EVal.ofBits Osmium.Generated.C18.rBits with | .fin q => q | _ => 0),
    degToRad := (match EVal.ofBits Osmium.Generated.C18.degToRadBits with | .fin q => q | _ => 0),
    radToDeg := (match EVal.ofBits Osmium.Generated.C18.radToDegBits with | .fin q => q | _ => 0),
    prec := (Osmium.Generated.C18.prec : Nat) }

theorem libP_R : libP.R = 6378137 := by decide +kernel

theorem libP_prec : libP.prec = 10000000 := by decide +kernel

theorem libP_degToRad : libP.degToRad = 5030569068109113 / 2 ^ 58 := by decide +kernel

theorem libP_radToDeg : libP.radToDeg = 1007958012753983 / 2 ^ 44 := by decide +kernel

theorem libP_prod : |libP.degToRad * libP.radToDeg - 1| ≤ (2 : Rat) ^ (-51 : Int) := by decide +kernel

theorem libP_degToRad_bounds :
    (2 : Rat) ^ (-6 : Int) ≤ libP.degToRad ∧ libP.degToRad ≤ (2 : Rat) ^ (-5 : Int) := by decide +kernel

theorem libP_radToDeg_bounds : 32 ≤ libP.radToDeg ∧ libP.radToDeg ≤ 64 := by decide +kernel

/-- `Location::double_to_fix(x_to_lon(lon_to_x(Location::fix_to_double(lon)))) == lon` for every
    valid fixed-point longitude, every one of the six operations rounded to binary64. -/
theorem roundtrip_x_binary64 (lon : Int) (h1 : -1800000000 ≤ lon) (h2 : lon ≤ 1800000000) :
    doubleToFix libP (xToLon libP (lonToX libP lon)) = .ok lon :=
  roundtrip_x_of libP rfl libP_R libP_prec libP_prod libP_degToRad_bounds libP_radToDeg_bounds lon h1 h2

end Osmium.Tile
