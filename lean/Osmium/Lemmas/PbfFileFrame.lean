/-
Blob framing: what `SerializeBlob` (uncompressed) wrote is what `PBFParser` cuts out again
(`nextBlob` = size field + BlobHeader + Blob; `decodeBlob` = the `raw` case), and the loop over all data blobs.

Note the two 32 MiB checks: the writer (since fix 9b8b2e0) refuses a PrimitiveBlock MESSAGE above
`max_uncompressed_blob_size`, the reader refuses a BLOB (message + 1 tag byte + up to 4 length bytes) above the
same constant.  Until fix 77d5451 the writer did not check the Blob: messages of 32 MiB − 4 … 32 MiB bytes were
written without error and refused by the reader (finding `pbf-blob-size-gap`).  The lemmas here need the reader's
bound, which `frameBlob = some _` now implies (`frameBlob_some_blob`).
-/
import Osmium.Lemmas.PbfFileW
import Osmium.Lemmas.PbfSize

namespace Osmium.Pbf

open Osmium.Wire Osmium.Osm Osmium.PbfMsg

theorem osmData_len : PbfFraming.osmData.length = 7 := by decide +kernel
theorem osmHeader_len : PbfFraming.osmHeader.length = 9 := by decide +kernel

theorem strncmpEq_refl : ∀ (e : List UInt8), PbfFraming.strncmpEq e e = true
  | [] => rfl
  | a :: e => by simp [PbfFraming.strncmpEq, strncmpEq_refl e]

/-- the Blob message around an uncompressed payload -/
def blobOf (msg : Bytes) : Bytes := encodeFields [fBytes 1 msg]

/-- the BlobHeader `SerializeBlob` writes -/
def hdrOf (type : Bytes) (msg : Bytes) : Bytes :=
  encodeFields [fBytes 1 type, fVarint 3 (u64 (toInt32 (blobOf msg).length))]

theorem frameBlob_eq (type msg f : Bytes) (h : frameBlob type msg = some f) :
    f = be32 ((hdrOf type msg).length % 2 ^ 32) ++ hdrOf type msg ++ blobOf msg := by
  unfold frameBlob at h
  split at h
  · simp at h
  · split at h
    · simp at h
    · simp only [Option.some.injEq] at h
      exact h.symm

theorem blobOf_len (msg : Bytes) : msg.length < (blobOf msg).length ∧ (blobOf msg).length ≤ msg.length + 12 := by
  have h := encodeField_bytes_len 1 msg (by decide)
  have h1 := encodeVarint_ne_nil (1 * 8 + WireType.lengthDelimited.code)
  have e : (blobOf msg).length = (encodeField (fBytes 1 msg)).length := by simp [blobOf, encodeFields]
  refine ⟨?_, by omega⟩
  rw [e]
  unfold encodeField
  simp only [fBytes, List.length_append]
  have : 1 ≤ (encodeVarint (1 * 8 + WireType.lengthDelimited.code)).length := by
    cases hh : encodeVarint (1 * 8 + WireType.lengthDelimited.code) with
    | nil => exact absurd hh h1
    | cons _ _ => simp
  omega

/-- a message of at most 32 MiB − 5 bytes gives a Blob of at most 32 MiB -/
theorem blob_len_le (msg : Bytes) (h : msg.length + 5 ≤ PbfFraming.maxUncompressedBlobSize) :
    (blobOf msg).length ≤ PbfFraming.maxUncompressedBlobSize := by
  have hm : PbfFraming.maxUncompressedBlobSize = 33554432 := by decide
  have e : (blobOf msg).length = (encodeField (fBytes 1 msg)).length := by simp [blobOf, encodeFields]
  rw [e]
  unfold encodeField
  simp only [fBytes, List.length_append]
  have k1 : (encodeVarint (1 * 8 + WireType.lengthDelimited.code)).length ≤ 1 :=
    encodeVarint_len _ 1 (by decide) (by decide) (by decide)
  have k2 : (encodeVarint msg.length).length ≤ 4 :=
    encodeVarint_len _ 4 (by decide) (by simp only [Nat.reducePow]; omega) (by simp only [Nat.reducePow]; omega)
  omega

theorem hdrOf_len (type msg : Bytes) : 0 < (hdrOf type msg).length ∧ (hdrOf type msg).length ≤ type.length + 40 := by
  have h1 := encodeField_bytes_len 1 type (by decide)
  have h0 := encodeFields_length_ge [fBytes 1 type, fVarint 3 (u64 (toInt32 (blobOf msg).length))]
  have e : (hdrOf type msg).length = (encodeField (fBytes 1 type)).length +
      (encodeField (fVarint 3 (u64 (toInt32 (blobOf msg).length)))).length := by
    simp [hdrOf, encodeFields]
  have h3 : (encodeField (fVarint 3 (u64 (toInt32 (blobOf msg).length)))).length ≤ 22 := by
    unfold encodeField
    simp only [fVarint, List.length_append]
    have a := encodeVarint_len_le11 (3 * 8 + WireType.varint.code)
    have b := encodeVarint_len_le11 (u64 (toInt32 (blobOf msg).length))
    omega
  refine ⟨?_, by omega⟩
  simp only [List.length_cons, List.length_nil] at h0
  unfold hdrOf
  omega

/-- `decode_blob_header` on the BlobHeader of the writer -/
theorem blobSize_hdrOf (first : Bool) (type msg : Bytes) (ht : type = if first then PbfFraming.osmHeader else PbfFraming.osmData)
    (hb : (blobOf msg).length < 2 ^ 31) :
    PbfFraming.blobSize first (hdrOf type msg) = some (blobOf msg).length := by
  have htl : type.length < 2 ^ 32 := by
    subst ht; cases first <;> simp [osmData_len, osmHeader_len]
  have hwf : ∀ f ∈ [fBytes 1 type, fVarint 3 (u64 (toInt32 (blobOf msg).length))], f.WF := by
    intro f hf
    simp only [List.mem_cons, List.not_mem_nil, or_false] at hf
    rcases hf with rfl | rfl
    · exact wf_bytes 1 _ (by decide) (by decide) htl
    · exact wf_varint 3 _ (by decide) (by decide) (u64_lt _)
  have hpos := (blobOf_len msg).1
  have hds : toInt32 (u64 (toInt32 (blobOf msg).length)) = ((blobOf msg).length : Int) := int32_field _ hb
  unfold PbfFraming.blobSize PbfFraming.decodeBlobHeader hdrOf
  rw [readFields_encodeFields _ hwf, ← ht]
  simp only [List.foldl_cons, List.foldl_nil, fBytes, fVarint, hds]
  have hne : ((((blobOf msg).length : Int)) == 0) = false := by
    rw [beq_eq_false_iff_ne]; omega
  have hnn : ¬ (((blobOf msg).length : Int)) < 0 := by omega
  simp [hne, hnn, strncmpEq_refl]

/-- `check_type_and_get_blob_size` + `read_from_input_queue_with_check` on a framed blob followed by anything -/
theorem nextBlob_framed (first : Bool) (hdr blob rest : Bytes)
    (h0 : 0 < hdr.length) (h1 : hdr.length ≤ 65536)
    (hb : PbfFraming.blobSize first hdr = some blob.length)
    (h2 : blob.length ≤ PbfFraming.maxUncompressedBlobSize) :
    nextBlob first (be32 hdr.length ++ hdr ++ blob ++ rest) = some (some (blob, rest)) := by
  have hlen : (be32 hdr.length).length = 4 := rfl
  have hrd : rdBe32 (be32 hdr.length ++ (hdr ++ blob ++ rest)) = hdr.length :=
    rdBe32_be32 _ (by simp only [Nat.reducePow]; omega) _
  have hdrop : (be32 hdr.length ++ (hdr ++ blob ++ rest)).drop 4 = hdr ++ blob ++ rest := by
    rw [List.drop_left' hlen]
  have e : be32 hdr.length ++ hdr ++ blob ++ rest = be32 hdr.length ++ (hdr ++ blob ++ rest) := by
    simp [List.append_assoc]
  rw [e]
  unfold nextBlob
  have hl4 : ¬ (be32 hdr.length ++ (hdr ++ blob ++ rest)).length < 4 := by
    simp only [List.length_append, hlen]; omega
  have hmax : ¬ hdr.length > PbfFraming.maxBlobHeaderSize := by
    have : PbfFraming.maxBlobHeaderSize = 65536 := by decide
    omega
  have hz : (hdr.length == 0) = false := by rw [beq_eq_false_iff_ne]; omega
  have hshort : ¬ (hdr ++ blob ++ rest).length < hdr.length := by simp only [List.length_append]; omega
  have htake : (hdr ++ blob ++ rest).take hdr.length = hdr := by
    rw [List.append_assoc, List.take_left' rfl]
  have hdrop2 : (hdr ++ blob ++ rest).drop hdr.length = blob ++ rest := by
    rw [List.append_assoc, List.drop_left' rfl]
  have h2' : ¬ blob.length > PbfFraming.maxUncompressedBlobSize := by omega
  have hshort2 : ¬ (blob ++ rest).length < blob.length := by simp only [List.length_append]; omega
  have hne : (be32 hdr.length ++ (hdr ++ blob ++ rest)).isEmpty = false := by
    cases hc : be32 hdr.length ++ (hdr ++ blob ++ rest) with
    | nil => rw [hc] at hl4; simp at hl4
    | cons a as => rfl
  simp only [hne, hl4, ↓reduceIte, hrd, hdrop, hmax, hz, Bool.false_eq_true, hshort, htake, hb, hdrop2, h2', hshort2,
    List.take_left' rfl, List.drop_left' rfl]

/-- the parser cuts the Blob the writer framed out of the input again -/
theorem nextBlob_frameBlob (first : Bool) (type msg f rest : Bytes)
    (ht : type = if first then PbfFraming.osmHeader else PbfFraming.osmData)
    (hf : frameBlob type msg = some f) (hb : (blobOf msg).length ≤ PbfFraming.maxUncompressedBlobSize) :
    nextBlob first (f ++ rest) = some (some (blobOf msg, rest)) := by
  have hm : PbfFraming.maxUncompressedBlobSize = 33554432 := by decide
  have htl : type.length ≤ 9 := by
    subst ht; cases first <;> simp [osmData_len, osmHeader_len]
  obtain ⟨hp, hl⟩ := hdrOf_len type msg
  rw [frameBlob_eq type msg f hf, Nat.mod_eq_of_lt (by simp only [Nat.reducePow]; omega)]
  exact nextBlob_framed first _ _ rest hp (by omega)
    (blobSize_hdrOf first type msg ht (by simp only [Nat.reducePow]; omega)) hb

theorem frameBlob_blobOf_le (type msg f : Bytes) (hf : frameBlob type msg = some f) :
    (blobOf msg).length ≤ PbfFraming.maxUncompressedBlobSize := frameBlob_some_blob type msg f hf

/-- the parser cuts the Blob the writer framed out of the input again (no side condition since fix 77d5451) -/
theorem nextBlob_frameBlob' (first : Bool) (type msg f rest : Bytes)
    (ht : type = if first then PbfFraming.osmHeader else PbfFraming.osmData) (hf : frameBlob type msg = some f) :
    nextBlob first (f ++ rest) = some (some (blobOf msg, rest)) :=
  nextBlob_frameBlob first type msg f rest ht hf (frameBlob_blobOf_le type msg f hf)

theorem frameBlob_length (type msg f : Bytes) (hf : frameBlob type msg = some f) : 4 ≤ f.length := by
  rw [frameBlob_eq type msg f hf]
  simp only [List.length_append]
  have : (be32 ((hdrOf type msg).length % 2 ^ 32)).length = 4 := rfl
  omega

/-- `decode_blob`, `raw` case -/
theorem decodeBlob_blobOf (inflate : Nat → Bytes → Nat → Option Bytes) (msg : Bytes)
    (h : msg.length ≤ PbfFraming.maxUncompressedBlobSize) : decodeBlob inflate (blobOf msg) = some msg := by
  have hm : PbfFraming.maxUncompressedBlobSize = 33554432 := by decide
  have hwf : ∀ f ∈ [fBytes 1 msg], f.WF := by
    intro f hf
    simp only [List.mem_cons, List.not_mem_nil, or_false] at hf
    subst hf
    exact wf_bytes 1 _ (by decide) (by decide) (by simp only [Nat.reducePow]; omega)
  have hn : ¬ msg.length > PbfFraming.maxUncompressedBlobSize := by omega
  unfold decodeBlob withFields blobOf
  rw [readFields_encodeFields _ hwf]
  simp [decodeMsg, blobStep, fBytes, hn]

/-! ### the loop over the data blobs -/

theorem nextBlob_nil (first : Bool) : nextBlob first [] = some none := by
  simp [nextBlob]

/-- `parse_data_blobs` over the concatenation of framed blobs: `frs` = (frame, Blob) pairs -/
theorem dataBlobs_frames : ∀ (frs : List (Bytes × Bytes)) (fuel : Nat) (acc : List Bytes),
    (∀ fb ∈ frs, ∀ rest, nextBlob false (fb.1 ++ rest) = some (some (fb.2, rest))) → frs.length < fuel →
    dataBlobs fuel (frs.map (·.1)).flatten acc = some (acc.reverse ++ frs.map (·.2))
  | [], fuel + 1, acc, _, _ => by simp [dataBlobs, nextBlob_nil]
  | fb :: frs, fuel + 1, acc, h, hfuel => by
    have h1 := h fb (List.mem_cons_self ..) (frs.map (·.1)).flatten
    have ih := dataBlobs_frames frs fuel (fb.2 :: acc) (fun x hx => h x (List.mem_cons_of_mem _ hx))
      (by simp only [List.length_cons] at hfuel; omega)
    simp only [List.map_cons, List.flatten_cons, dataBlobs, h1, ih]
    simp

end Osmium.Pbf
