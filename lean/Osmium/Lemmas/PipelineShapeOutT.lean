/-
Transport of the facts established when read() unpacks the end marker (`Complete.at_eod`) to every
later state: `Complete.invT1` (no fault, parser past its last push, input used up) and
`Complete.invT2` (everything delivered).
-/
import Osmium.Lemmas.PipelineShapeOutE
import Osmium.Lemmas.PipelineShapeOutO

set_option linter.unusedSimpArgs false
set_option linter.unusedVariables false

namespace Osmium.Pipeline
open Osmium.Mon
variable {α : Type} [DecidableEq α]
namespace Complete

/-- read() has unpacked the end marker -/
def gotEod (s : State α) : Prop := s.cpc = .eodSd ∨ s.cpc = .eodSdRun ∨ s.sawEod = true

def InvT1 (s : State α) : Prop := gotEod s → s.faulted = false ∧ pFin s.ppc ∧ s.inputDone = true
def InvT2 (c : Cfg α) (s : State α) : Prop := gotEod s → s.delivered = deliver c

omit [DecidableEq α] in
@[simp] theorem apCpc_eodSd (lv : List (List α)) : (apCpc lv : CPc α) = .eodSd ↔ False := by
  unfold apCpc; split <;> simp
omit [DecidableEq α] in
@[simp] theorem apCpc_eodSdRun (lv : List (List α)) : (apCpc lv : CPc α) = .eodSdRun ↔ False := by
  unfold apCpc; split <;> simp
omit [DecidableEq α] in
@[simp] theorem acCpc_eodSd (k : CK) : (acCpc k : CPc α) = .eodSd ↔ False := by
  cases k <;> simp [acCpc]
omit [DecidableEq α] in
@[simp] theorem acCpc_eodSdRun (k : CK) : (acCpc k : CPc α) = .eodSdRun ↔ False := by
  cases k <;> simp [acCpc]

set_option maxHeartbeats 1600000 in
theorem invT1 (c : Cfg α) (wf : c.WF) : ∀ s, (machine c).Reachable s → InvT1 s := by
  apply Machine.invariant
  · simp [InvT1, gotEod, machine, init]
  · intro s e s' hr ih hst
    have hX : s'.inputDone = true → ¬ InExc s' := in_done_clean c s' (.step hr hst)
    have hO := invO c s hr
    have hE : ∀ id, s.cpc = .readGot id → s.fut id = some .eod →
        s.faulted = false ∧ pFin s.ppc ∧ s.inputDone = true := fun id hc hf =>
      ⟨no_fault_at_eod c wf s hr hO id hc hf, (at_eod c wf s hr hO id hc hf).2.1,
        (at_eod c wf s hr hO id hc hf).2.2.2.1⟩
    clear hO
    unfold InvT1 gotEod at ih ⊢
    pc_cases e with hst
    all_goals first
      | exact ih
      | (clear hX; intro hp; simp_all; done)
      | (intro hp; simp_all [InExc, rHeld, isExc]; done)

set_option maxHeartbeats 1600000 in
theorem invT2 (c : Cfg α) (wf : c.WF) (hb : c.blobFault = none) : ∀ s, (machine c).Reachable s → InvT2 c s := by
  apply Machine.invariant
  · simp [InvT2, gotEod, machine, init]
  · intro s e s' hr ih hst
    have hO := invO c s hr
    have hE : ∀ id, s.cpc = .readGot id → s.fut id = some .eod → s.delivered = deliver c :=
      fun id hc hf => delivered_at_eod c wf hb s hr hO id hc hf
    have hB1 := (invB c s hr).b_R
    have hB2 := (invB c s hr).b_saw
    clear hO
    unfold InvT2 gotEod at ih ⊢
    pc_cases e with hst
    all_goals first
      | exact ih
      | (intro hp; simp_all [inR]; done)

end Complete
end Osmium.Pipeline
