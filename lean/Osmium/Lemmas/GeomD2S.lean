/-
C17 helper lemmas: double2string after the fix (util/double.hpp, commit 5a3ae5e) never fails and
its trailing-zero trimming is undone by `restore` (the printed text is the same decimal number).
Core only.
-/
import Osmium.Model.Geom

namespace Osmium.Geom

theorem double2string_fixed_ok (full : List Char) : ∃ r, double2string .fixed full = .ok r := by
  simp only [double2string, double2stringFixed]
  repeat' split
  all_goals exact ⟨_, rfl⟩

/-- drop leading zeros (the trimming loop seen on the reversed fraction) -/
def dz : List Char → List Char
  | [] => []
  | c :: l => if c = '0' then dz l else c :: l

theorem dropZerosRev_append (r q : List Char) :
    dropZerosRev (r ++ '.' :: q) = some (if dz r = [] then '.' :: q else dz r ++ '.' :: q) := by
  induction r with
  | nil =>
    have : ¬ ('.' = '0') := by decide
    simp [dropZerosRev, dz, this]
  | cons c r ih =>
    by_cases hc : c = '0'
    · simp [dropZerosRev, dz, hc, ih]
    · simp [dropZerosRev, dz, hc]

theorem dz_length_le (r : List Char) : (dz r).length ≤ r.length := by
  induction r with
  | nil => simp [dz]
  | cons c r ih =>
    by_cases hc : c = '0' <;> simp [dz, hc] <;> omega

theorem dz_mem (r : List Char) (c : Char) (h : c ∈ dz r) : c ∈ r := by
  induction r with
  | nil => simp [dz] at h
  | cons a r ih =>
    by_cases ha : a = '0'
    · simp only [dz, ha, if_true] at h
      exact List.mem_cons_of_mem _ (ih h)
    · simp only [dz, ha, if_false] at h
      exact h

theorem dz_decomp (r : List Char) : r = List.replicate (r.length - (dz r).length) '0' ++ dz r := by
  induction r with
  | nil => simp [dz]
  | cons c r ih =>
    by_cases hc : c = '0'
    · have hle := dz_length_le r
      have : (c :: r).length - (dz (c :: r)).length = (r.length - (dz r).length) + 1 := by
        simp [dz, hc]; omega
      rw [this, List.replicate_succ]
      simp only [dz, hc, if_true, List.cons_append]
      rw [← ih]
    · simp [dz, hc]

theorem splitDot_nodot (l : List Char) (h : ∀ c ∈ l, c ≠ '.') : splitDot l = (l, []) := by
  induction l with
  | nil => rfl
  | cons a l ih =>
    have ha : a ≠ '.' := h a (by simp)
    simp [splitDot, ha, ih (fun c hc => h c (by simp [hc]))]

theorem splitDot_append (pre rest : List Char) (h : ∀ c ∈ pre, c ≠ '.') :
    splitDot (pre ++ '.' :: rest) = (pre, '.' :: rest) := by
  induction pre with
  | nil => simp [splitDot]
  | cons a l ih =>
    have ha : a ≠ '.' := h a (by simp)
    simp [splitDot, ha, ih (fun c hc => h c (by simp [hc]))]

theorem digit_ne_dot (c : Char) (h : isDigit c = true) : c ≠ '.' := by
  intro e
  subst e
  revert h
  decide

theorem double2string_fixed_restore (s : Shape) (hwf : s.wf)
    (hlen : s.full.length < maxDoubleLengthFixed) :
    ∃ r, double2string .fixed s.full = .ok r ∧ restore s.precision r = s.full := by
  obtain ⟨_, hint, hfrac, _⟩ := hwf
  have hbuf : ¬ s.full.length ≥ maxDoubleLengthFixed := by omega
  simp only [double2string, double2stringFixed, hbuf, if_false]
  -- the part before the decimal point
  have hpre : ∀ c ∈ (if s.neg then ['-'] else []) ++ s.intDigits, c ≠ '.' := by
    intro c hc
    rcases List.mem_append.mp hc with h | h
    · cases hn : s.neg <;> simp [hn] at h
      subst h; decide
    · exact digit_ne_dot c (hint c h)
  by_cases hf : s.frac = []
  · -- precision 0: no decimal point, nothing is trimmed
    have hfull : s.full = (if s.neg then ['-'] else []) ++ s.intDigits := by simp [Shape.full, hf]
    have hno : s.full.contains '.' = false := by
      rw [hfull]
      simp only [List.contains_eq_mem, decide_eq_false_iff_not]
      intro hm
      exact hpre '.' hm rfl
    simp only [hno]
    exact ⟨_, rfl, by simp [restore, Shape.precision, hf]⟩
  · have hfull : s.full = ((if s.neg then ['-'] else []) ++ s.intDigits) ++ '.' :: s.frac := by
      simp [Shape.full, hf]
    generalize hp : (if s.neg then ['-'] else []) ++ s.intDigits = pre at hpre hfull
    have hyes : s.full.contains '.' = true := by
      rw [hfull]; simp
    have hrev : s.full.reverse = s.frac.reverse ++ '.' :: pre.reverse := by
      rw [hfull]; simp
    simp only [hyes, if_true, hrev, dropZerosRev_append]
    have hdec := dz_decomp s.frac.reverse
    have hp0 : ¬ s.frac.length = 0 := by
      simp [hf]
    by_cases hz : dz s.frac.reverse = []
    · refine ⟨_, rfl, ?_⟩
      simp only [hz, if_true, dropDotRev, List.reverse_reverse]
      have hfr : s.frac = List.replicate s.frac.length '0' := by
        have := congrArg List.reverse hdec
        simpa [hz] using this
      simp only [restore, Shape.precision, hp0, if_false, splitDot_nodot pre hpre, List.drop_nil,
        List.length_nil, List.nil_append, Nat.zero_sub, Nat.sub_zero]
      rw [hfull, ← hfr]
    · refine ⟨_, rfl, ?_⟩
      simp only [hz, if_false]
      obtain ⟨d, ds, hd⟩ : ∃ d ds, dz s.frac.reverse = d :: ds := by
        cases h : dz s.frac.reverse with
        | nil => exact absurd h hz
        | cons d ds => exact ⟨d, ds, rfl⟩
      have hdne : d ≠ '.' := by
        have : d ∈ s.frac.reverse := dz_mem _ d (by rw [hd]; simp)
        exact digit_ne_dot d (hfrac d (by simpa using this))
      have hdrop : dropDotRev (dz s.frac.reverse ++ '.' :: pre.reverse) = dz s.frac.reverse ++ '.' :: pre.reverse := by
        rw [hd]; simp [dropDotRev, hdne]
      rw [hdrop]
      have hrev2 : (dz s.frac.reverse ++ '.' :: pre.reverse).reverse = pre ++ '.' :: (dz s.frac.reverse).reverse := by
        simp
      rw [hrev2]
      have hfr : s.frac = (dz s.frac.reverse).reverse
          ++ List.replicate (s.frac.length - (dz s.frac.reverse).length) '0' := by
        have := congrArg List.reverse hdec
        simpa using this
      simp only [restore, Shape.precision, hp0, if_false, splitDot_append pre _ hpre, List.drop_succ_cons,
        List.drop_zero, List.length_cons, List.length_reverse, Nat.add_sub_cancel]
      rw [hfull, ← hfr]

end Osmium.Geom
