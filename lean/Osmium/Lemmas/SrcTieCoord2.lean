/-
`src_tie_*` lemmas for `osmium::detail::string_to_location_coordinate`, part 2 (see Lemmas/SrcTieCoord.lean):
the stages before the exponent (fraction `k_2`, integer part `k_1`, sign) and the whole function.
-/
import Osmium.Lemmas.SrcTieCoord

set_option Elab.async false
set_option linter.unusedSimpArgs false

namespace Osmium.SrcTie.Coord

open Osmium.Generated Osmium.CxxSem Osmium.Conv Osmium.Cursor
open Src.Location

/-- model stage 2: the optional fraction, then stage 3 -/
def stage2 (sg : Int) (r1 : Nat) (s2 : List UInt8) : Except Err CoordOut :=
  match fracPart r1 s2 with
  | none => .error .invalidLocation
  | some (r2, sc, extra, s3) => stage3 sg r2 sc extra s3

theorem fracPart_no_dot (r1 : Nat) (u : List UInt8) (h : (peek u).toNat ≠ 46) : fracPart r1 u = some (r1, 8, [], u) := by
  unfold fracPart
  simp [beq_char, h]

theorem fracPart_dot (r1 : Nat) (u : List UInt8) (h : (peek u).toNat = 46) (r2 sc md : Nat) (s2 s3 : List UInt8)
    (h1 : digitsLoop 8 r1 u.tail = (r2, sc, s2)) (h2 : skipDigits 20 s2 = (md, s3)) :
    fracPart r1 u = if md == 0 then none else some (r2, sc, s2.take (20 - md), s3) := by
  unfold fracPart
  simp [beq_char, h, h1, h2]

theorem pow10_18 : (10 : Nat) ^ 8 = 100000000 := by decide

/-- stage 2: the fraction (significant digits, skipped digits), then stage 3 -/
theorem src_tie_coord_k2 (s t : List UInt8) (i0 full j r1 fuel : Nat) (sg mdI : Int) (hsg : sg = 1 ∨ sg = -1)
    (hr : r1 < 10000000000) (hj : j ≤ s.length) (hfull : full ≤ s.length) (hfuel : 100010 ≤ fuel) :
    string_to_location_coordinate.k_2 fuel (s ++ 0 :: t) i0 j full r1 sg 8 mdI = coordOut s i0 (stage2 sg r1 (s.drop j)) ∧
    string_to_location_coordinate.k_2_defined fuel (s ++ 0 :: t) i0 j full r1 sg 8 mdI = true ∧
    GoodOut s (stage2 sg r1 (s.drop j)) := by
  have hrd0 := rdS_cbuf s t j hj
  have hsc0 := sc_cases (peek (s.drop j))
  have hin0 := inB_cbuf s t j hj
  have hcs := cstrOk_cbuf s t full hfull
  unfold stage2
  by_cases hdot : (peek (s.drop j)).toNat = 46
  · -- a fraction
    have hjlt : j < s.length := lt_of_peek_ne_zero s j (by intro h; rw [h] at hdot; simp at hdot)
    have hp1 := ptrOk_cbuf s t (j + 1) (by omega)
    obtain ⟨j2, r2, m2, hrun2, hv2, hdf2⟩ := src_tie_coord_loop_2 s t 8 (j + 1) r1 fuel (by omega) (by omega)
      (by rw [pow10_18]; omega) (by omega)
    have hv2' : ∀ a b c : Int, a = ((j + 1 : Nat) : Int) → b = (r1 : Int) → c = ((8 : Nat) : Int) →
        string_to_location_coordinate.loop_2 fuel (s ++ 0 :: t) a b c = .next ((j2 : Int), (r2 : Int), (m2 : Int)) := by
      intro a b c h1 h2 h3; subst h1 h2 h3; exact hv2
    have hdf2' : ∀ a b c : Int, a = ((j + 1 : Nat) : Int) → b = (r1 : Int) → c = ((8 : Nat) : Int) →
        string_to_location_coordinate.loop_2_defined fuel (s ++ 0 :: t) a b c = true := by
      intro a b c h1 h2 h3; subst h1 h2 h3; exact hdf2
    obtain ⟨j3, m3, hrun3, hv3, hdf3⟩ := src_tie_coord_loop_3 s t 20 j2 fuel hrun2.len (by omega) (by omega)
    have hv3' : ∀ a b : Int, a = (j2 : Int) → b = ((20 : Nat) : Int) →
        string_to_location_coordinate.loop_3 fuel (s ++ 0 :: t) a b = .next ((j3 : Int), (m3 : Int)) := by
      intro a b h1 h2; subst h1 h2; exact hv3
    have hdf3' : ∀ a b : Int, a = (j2 : Int) → b = ((20 : Nat) : Int) →
        string_to_location_coordinate.loop_3_defined fuel (s ++ 0 :: t) a b = true := by
      intro a b h1 h2; subst h1 h2; exact hdf3
    have hmod2 := hrun2.model
    rw [← tail_drop] at hmod2
    rw [fracPart_dot r1 (s.drop j) hdot r2 m2 m3 (s.drop j2) (s.drop j3) hmod2 hrun3.model]
    have hc2 := hrun2.cnt
    have hl2 := hrun2.le
    have hc3 := hrun3.cnt
    have hl3 := hrun3.le
    have hr2 : r2 < 4611686018427387904 := by
      have hb := hrun2.bound
      have : 0 < 10 ^ m2 := Nat.pow_pos (by decide)
      have h1 : (r2 + 1) * 1 ≤ (r2 + 1) * 10 ^ m2 := Nat.mul_le_mul_left _ this
      rw [pow10_18] at hb
      omega
    by_cases hm0 : m3 = 0
    · -- too many digits
      subst hm0
      simp only [beq_self_eq_true, if_true]
      refine ⟨?_, ?_, fun out h => by cases h⟩
      · unfold string_to_location_coordinate.k_2
        simp only [hrd0]
        split_ok
        idx_norm; simp (disch := omega) only [hv2']
        simp only [Flow.bind_next, Flow.bind_exit]
        simp (disch := omega) only [hv3']
        simp only [Flow.bind_next, Flow.bind_exit]
        split_ok
        rfl
      · unfold string_to_location_coordinate.k_2_defined
        simp only [hrd0, hin0]
        split_ok
        all_goals (idx_norm; simp (disch := omega) only [hv2', hdf2', hp1])
        all_goals simp only [Flow.bind_next, Flow.bind_exit, Flow.andThen_next, Flow.andThen_exit]
        all_goals simp (disch := omega) only [hv3', hdf3']
        all_goals simp only [Flow.bind_next, Flow.bind_exit, Flow.andThen_next, Flow.andThen_exit]
        all_goals (try split_ok)
        all_goals simp only [hcs, Flow.andThen_next, Flow.andThen_exit, Bool.true_and, Bool.and_true, Bool.or_true, Bool.true_or, Bool.and_self, Bool.not_true, Bool.not_false]
    · -- stage 3 with the skipped digits as `extra`
      have hmb : (m3 == 0) = false := by simpa using hm0
      simp only [hmb, Bool.false_eq_true, if_false]
      have hlen3 := hrun3.len
      have h3all := fun mdI => src_tie_coord_k3 s t i0 full j3 r2 m2 j2 (20 - m3) fuel sg mdI hsg hr2 hrun3.len hfull
        (by omega) (fun x h1 h2 => hrun3.digits x h1 (by omega)) (by omega) (by omega) hfuel
      have h3g := (h3all 0).2.2
      have h3 : ∀ a b c mdI e f : Int, a = (j3 : Int) → b = (r2 : Int) → c = (m2 : Int) → e = (j2 : Int) → f = ((20 - m3 : Nat) : Int) →
          string_to_location_coordinate.k_3 fuel (s ++ 0 :: t) i0 a full b sg c mdI e f =
            coordOut s i0 (stage3 sg r2 m2 ((s.drop j2).take (20 - m3)) (s.drop j3)) := by
        intro a b c mdI e f h1 h2 h3 h4 h5; subst h1 h2 h3 h4 h5; exact (h3all mdI).1
      have h3d : ∀ a b c mdI e f : Int, a = (j3 : Int) → b = (r2 : Int) → c = (m2 : Int) → e = (j2 : Int) → f = ((20 - m3 : Nat) : Int) →
          string_to_location_coordinate.k_3_defined fuel (s ++ 0 :: t) i0 a full b sg c mdI e f = true := by
        intro a b c mdI e f h1 h2 h3 h4 h5; subst h1 h2 h3 h4 h5; exact (h3all mdI).2.1
      refine ⟨?_, ?_, h3g⟩
      · unfold string_to_location_coordinate.k_2
        simp only [hrd0]
        split_ok
        idx_norm; simp (disch := omega) only [hv2']
        simp only [Flow.bind_next, Flow.bind_exit]
        simp (disch := omega) only [hv3']
        simp only [Flow.bind_next, Flow.bind_exit]
        split_ok
        simp only [Flow.seq_next, Flow.seq_exit]
        simp (disch := omega) only [h3]
      · unfold string_to_location_coordinate.k_2_defined
        simp only [hrd0, hin0]
        split_ok
        all_goals (idx_norm; simp (disch := omega) only [hv2', hdf2', hp1])
        all_goals simp only [Flow.bind_next, Flow.bind_exit, Flow.andThen_next, Flow.andThen_exit]
        all_goals simp (disch := omega) only [hv3', hdf3']
        all_goals simp only [Flow.bind_next, Flow.bind_exit, Flow.andThen_next, Flow.andThen_exit]
        all_goals (try split_ok)
        all_goals simp only [Flow.andThen_next, Flow.andThen_exit]
        all_goals simp (disch := omega) only [h3d, Bool.and_true]
        all_goals (try (defined_split <;> omega))
  · -- no fraction
    rw [fracPart_no_dot r1 (s.drop j) hdot]
    obtain ⟨h3, h3d, h3g⟩ := src_tie_coord_k3 s t i0 full j r1 8 j 0 fuel sg mdI hsg (by omega) hj hfull
      (by omega) (fun x h1 h2 => by omega) (by omega) (by omega) hfuel
    simp only [List.take_zero] at h3 h3g
    have h3' : ∀ f : Int, f = ((0 : Nat) : Int) →
        string_to_location_coordinate.k_3 fuel (s ++ 0 :: t) i0 j full r1 sg ((8 : Nat) : Int) mdI j f =
          coordOut s i0 (stage3 sg r1 8 [] (s.drop j)) := by
      intro f h1; subst h1; exact h3
    have h3d' : ∀ f : Int, f = ((0 : Nat) : Int) →
        string_to_location_coordinate.k_3_defined fuel (s ++ 0 :: t) i0 j full r1 sg ((8 : Nat) : Int) mdI j f = true := by
      intro f h1; subst h1; exact h3d
    refine ⟨?_, ?_, h3g⟩
    · unfold string_to_location_coordinate.k_2
      simp only [hrd0]
      split_ok
      simp only [Flow.seq_next, Flow.seq_exit]
      exact h3' _ (by omega)
    · unfold string_to_location_coordinate.k_2_defined
      simp only [hrd0, hin0]
      split_ok
      simp only [Flow.andThen_next, Flow.andThen_exit]
      try simp only [Bool.and_true, Bool.true_and]
      exact h3d' _ (by omega)

/-- model stage 1: the digits before the decimal point, then stage 2 -/
def stage1 (sg : Int) (s1 : List UInt8) : Except Err CoordOut :=
  match intPart s1 with
  | none => .error .invalidLocation
  | some (r1, s2) => stage2 sg r1 s2

/-- the model as the composition of its stages (with `mulLoop` = `mulLoopNaive`, the loop as written in C++) -/
theorem parseCoord_stages (s0 : List UInt8) :
    parseCoord Variant.now s0 =
      stage1 (if peek s0 == cMinus then -1 else 1) (if peek s0 == cMinus then s0.tail else s0) := by
  have h4 : ∀ sg r2 (sc : Nat) e extra s4,
      (if (sc : Int) + e < 0 then finishCoord (divLoop ((sc : Int) + e).natAbs r2) false sg s4
       else match mulLoop Variant.now ((sc : Int) + e).toNat r2 (if Variant.now.fixDigits then extra else []) false with
         | none => Except.error Err.invalidLocation
         | some (r3, o) => finishCoord r3 o sg s4) = stage4 sg r2 ((sc : Int) + e) extra s4 := by
    intro sg r2 sc e extra s4
    unfold stage4
    simp only [mulLoop_eq_naive, Variant.now, Variant.fixed, if_true]
    split
    · rfl
    · cases mulLoopNaive { fixOvf := true, fixDigits := true } ((sc : Int) + e).toNat r2 extra false <;> rfl
  unfold parseCoord stage1 stage2 stage3
  by_cases hm : (peek s0 == cMinus) = true
  · simp only [hm, if_true]
    cases intPart s0.tail with
    | none => rfl
    | some p =>
      obtain ⟨r1, s2⟩ := p
      simp only []
      cases fracPart r1 s2 with
      | none => rfl
      | some q =>
        obtain ⟨r2, sc, extra, s3⟩ := q
        simp only []
        cases expPart s3 with
        | none => rfl
        | some w =>
          obtain ⟨e, s4⟩ := w
          simp only []
          exact h4 _ _ _ _ _ _
  · simp only [hm, if_false, Bool.false_eq_true]
    cases intPart s0 with
    | none => rfl
    | some p =>
      obtain ⟨r1, s2⟩ := p
      simp only []
      cases fracPart r1 s2 with
      | none => rfl
      | some q =>
        obtain ⟨r2, sc, extra, s3⟩ := q
        simp only []
        cases expPart s3 with
        | none => rfl
        | some w =>
          obtain ⟨e, s4⟩ := w
          simp only []
          exact h4 _ _ _ _ _ _

theorem intPart_nil : intPart [] = none := by
  unfold intPart; simp [peek, cDot]

theorem intPart_dot (c : UInt8) (u : List UInt8) (h : c.toNat = 46) :
    intPart (c :: u) = if isDigit (peek u) then some (0, c :: u) else none := by
  unfold intPart
  have : (peek (c :: u) != cDot) = false := by simp [peek_cons, bne_char, h]
  rw [this]; rfl

theorem intPart_nodot (c : UInt8) (u : List UInt8) (h : c.toNat ≠ 46) :
    intPart (c :: u) = if isDigit c then
      (if (digitsLoop 10 (digitVal c) u).2.1 == 0 then none
       else some ((digitsLoop 10 (digitVal c) u).1, (digitsLoop 10 (digitVal c) u).2.2)) else none := by
  unfold intPart
  simp [peek_cons, bne_char, h]

theorem pow10_10 : (10 : Nat) ^ 10 = 10000000000 := by decide

/-- stage 1: the digits before the decimal point (or the check that a digit follows a leading '.'), then stage 2 -/
theorem src_tie_coord_k1 (s t : List UInt8) (i0 full j fuel : Nat) (sg : Int) (hsg : sg = 1 ∨ sg = -1)
    (hj : j ≤ s.length) (hfull : full ≤ s.length) (hfuel : 100010 ≤ fuel) :
    string_to_location_coordinate.k_1 fuel (s ++ 0 :: t) i0 j full 0 sg 8 10 = coordOut s i0 (stage1 sg (s.drop j)) ∧
    string_to_location_coordinate.k_1_defined fuel (s ++ 0 :: t) i0 j full 0 sg 8 10 = true ∧
    GoodOut s (stage1 sg (s.drop j)) := by
  have hrd0 := rdS_cbuf s t j hj
  have hin0 := inB_cbuf s t j hj
  have hcs := cstrOk_cbuf s t full hfull
  unfold stage1
  cases hd : s.drop j with
  | nil =>
    rw [intPart_nil]
    rw [hd, peek_nil] at hrd0
    have hsc0 := sc_cases (0 : UInt8)
    simp only [zero_toNat] at hsc0
    refine ⟨?_, ?_, fun out h => by cases h⟩
    · unfold string_to_location_coordinate.k_1
      simp only [hrd0]
      split_ok; split_ok
      rfl
    · unfold string_to_location_coordinate.k_1_defined
      simp only [hrd0, hin0]
      split_ok
      all_goals split_ok
      all_goals simp only [hcs, Flow.andThen_next, Flow.andThen_exit, Bool.true_and, Bool.and_true, Bool.or_true, Bool.true_or, Bool.and_self, Bool.not_true, Bool.not_false]
  | cons c u =>
    obtain ⟨hjlt, hu⟩ := drop_cons s j c u hd
    rw [hd, peek_cons] at hrd0
    have hsc0 := sc_cases c
    have hrd1 := rdS_cbuf s t (j + 1) (by omega)
    have hin1 := inB_cbuf s t (j + 1) (by omega)
    have hp1 := ptrOk_cbuf s t (j + 1) (by omega)
    have hsc1 := sc_cases (peek (s.drop (j + 1)))
    by_cases hdot : c.toNat = 46
    · -- a leading '.': a digit has to follow
      rw [intPart_dot c u hdot, ← hd]
      rw [hu] at hrd1 hsc1
      by_cases hdig : isDigit (peek u) = true
      · have hdg := (isDigit_iff _).mp hdig
        simp only [hdig, if_true]
        obtain ⟨h2, h2d, h2g⟩ := src_tie_coord_k2 s t i0 full j 0 fuel sg 10 hsg (by omega) hj hfull hfuel
        refine ⟨?_, ?_, h2g⟩
        · unfold string_to_location_coordinate.k_1
          simp only [hrd0]; idx_norm; simp only [hrd1]
          split_ok; split_ok
          simp only [Flow.seq_next]
          exact h2
        · unfold string_to_location_coordinate.k_1_defined
          simp only [hrd0, hin0]; idx_norm; simp only [hrd1, hin1, hp1]
          split_ok
          all_goals split_ok
          all_goals simp only [hcs, Flow.andThen_next, Flow.andThen_exit, Bool.true_and, Bool.and_true, Bool.or_true, Bool.true_or, Bool.and_self, Bool.not_true, Bool.not_false]
          all_goals (try exact h2d)
      · have hdg := (isDigit_false_iff _).mp (by simpa using hdig)
        simp only [hdig]
        refine ⟨?_, ?_, fun out h => by cases h⟩
        · unfold string_to_location_coordinate.k_1
          simp only [hrd0]; idx_norm; simp only [hrd1]
          split_ok; split_ok
          rfl
        · unfold string_to_location_coordinate.k_1_defined
          simp only [hrd0, hin0]; idx_norm; simp only [hrd1, hin1, hp1]
          split_ok
          all_goals split_ok
          all_goals simp only [hcs, Flow.andThen_next, Flow.andThen_exit, Bool.true_and, Bool.and_true, Bool.or_true, Bool.true_or, Bool.and_self, Bool.not_true, Bool.not_false]
    · rw [intPart_nodot c u hdot]
      by_cases hdig : isDigit c = true
      · -- the digits
        have hdv := digitVal_eq c hdig
        have hdg := (isDigit_iff c).mp hdig
        obtain ⟨j2, r1, m, hrun, hv, hdf⟩ := src_tie_coord_loop_1 s t 10 (j + 1) (digitVal c) fuel (by omega) (by omega)
          (by rw [pow10_10]; unfold digitVal; omega) (by omega)
        have hv' : ∀ a b c' : Int, a = ((j + 1 : Nat) : Int) → b = ((digitVal c : Nat) : Int) → c' = ((10 : Nat) : Int) →
            string_to_location_coordinate.loop_1 fuel (s ++ 0 :: t) a b c' = .next ((j2 : Int), (r1 : Int), (m : Int)) := by
          intro a b c' h1 h2 h3; subst h1 h2 h3; exact hv
        have hdf' : ∀ a b c' : Int, a = ((j + 1 : Nat) : Int) → b = ((digitVal c : Nat) : Int) → c' = ((10 : Nat) : Int) →
            string_to_location_coordinate.loop_1_defined fuel (s ++ 0 :: t) a b c' = true := by
          intro a b c' h1 h2 h3; subst h1 h2 h3; exact hdf
        have hmod := hrun.model
        rw [hu] at hmod
        simp only [hdig, if_true, hmod]
        by_cases hm0 : m = 0
        · subst hm0
          simp only [beq_self_eq_true, if_true]
          refine ⟨?_, ?_, fun out h => by cases h⟩
          · unfold string_to_location_coordinate.k_1
            simp only [hrd0]
            split_ok; split_ok
            idx_norm; simp (disch := omega) only [hv']
            simp only [Flow.bind_next]
            split_ok
            rfl
          · unfold string_to_location_coordinate.k_1_defined
            simp only [hrd0, hin0]
            split_ok
            all_goals split_ok
            all_goals (idx_norm; simp (disch := omega) only [hv', hdf', hp1])
            all_goals simp only [Flow.bind_next, Flow.bind_exit, Flow.andThen_next, Flow.andThen_exit]
            all_goals (try split_ok)
            all_goals simp only [hcs, Flow.andThen_next, Flow.andThen_exit, Bool.true_and, Bool.and_true, Bool.or_true, Bool.true_or, Bool.and_self, Bool.not_true, Bool.not_false]
            all_goals (try (defined_split <;> omega))
        · have hmb : (m == 0) = false := by simpa using hm0
          simp only [hmb, Bool.false_eq_true, if_false]
          have h10 := pow10_ge m hm0
          have hb := hrun.bound
          have hr1 : r1 < 10000000000 := by
            have h1 : (r1 + 1) * 10 ≤ (r1 + 1) * 10 ^ m := Nat.mul_le_mul_left _ h10
            have h2 : (digitVal c + 1) * 10 ^ 10 ≤ 100000000000 := by
              have : digitVal c + 1 ≤ 10 := by unfold digitVal; omega
              calc (digitVal c + 1) * 10 ^ 10 ≤ 10 * 10 ^ 10 := Nat.mul_le_mul_right _ this
                _ = 100000000000 := by decide
            omega
          have h2all := fun mdI => src_tie_coord_k2 s t i0 full j2 r1 fuel sg mdI hsg hr1 hrun.len hfull hfuel
          have h2g := (h2all 0).2.2
          have h2 : ∀ a b mdI : Int, a = (j2 : Int) → b = (r1 : Int) →
              string_to_location_coordinate.k_2 fuel (s ++ 0 :: t) i0 a full b sg 8 mdI = coordOut s i0 (stage2 sg r1 (s.drop j2)) := by
            intro a b mdI h1 h2; subst h1 h2; exact (h2all mdI).1
          have h2d : ∀ a b mdI : Int, a = (j2 : Int) → b = (r1 : Int) →
              string_to_location_coordinate.k_2_defined fuel (s ++ 0 :: t) i0 a full b sg 8 mdI = true := by
            intro a b mdI h1 h2; subst h1 h2; exact (h2all mdI).2.1
          refine ⟨?_, ?_, h2g⟩
          · unfold string_to_location_coordinate.k_1
            simp only [hrd0]
            split_ok; split_ok
            idx_norm; simp (disch := omega) only [hv']
            simp only [Flow.bind_next]
            split_ok
            simp only [Flow.seq_next]
            simp (disch := omega) only [h2]
          · unfold string_to_location_coordinate.k_1_defined
            simp only [hrd0, hin0]
            split_ok
            all_goals split_ok
            all_goals (idx_norm; simp (disch := omega) only [hv', hdf', hp1])
            all_goals simp only [Flow.bind_next, Flow.bind_exit, Flow.andThen_next, Flow.andThen_exit]
            all_goals (try split_ok)
            all_goals simp only [Flow.andThen_next, Flow.andThen_exit]
            all_goals simp (disch := omega) only [hcs, h2d, Bool.true_and, Bool.and_true, Bool.or_true, Bool.true_or, Bool.and_self, Bool.not_true, Bool.not_false]
            all_goals (try (defined_split <;> omega))
      · have hdg := (isDigit_false_iff c).mp (by simpa using hdig)
        simp only [hdig]
        refine ⟨?_, ?_, fun out h => by cases h⟩
        · unfold string_to_location_coordinate.k_1
          simp only [hrd0]
          split_ok; split_ok
          rfl
        · unfold string_to_location_coordinate.k_1_defined
          simp only [hrd0, hin0]
          split_ok
          all_goals split_ok
          all_goals simp only [hcs, Flow.andThen_next, Flow.andThen_exit, Bool.true_and, Bool.and_true, Bool.or_true, Bool.true_or, Bool.and_self, Bool.not_true, Bool.not_false]

/-- the whole function: the optional minus sign, then stage 1.  For EVERY byte string `s` (NUL-terminated in the array
    `s ++ 0 :: t`), every start position `i ≤ s.length` and any fuel ≥ 100010 (the longest loop runs
    8 + 99999 times): the translated function returns what the model returns — same value, same end position, same
    exception class with the cursor cell left alone —, its execution has no undefined behaviour (no read outside
    the array, no pointer outside it, no signed overflow), and the model recorded no overflow either. -/
theorem src_tie_coord_main (s t : List UInt8) (i fuel : Nat) (hi : i ≤ s.length) (hfuel : 100010 ≤ fuel) :
    string_to_location_coordinate fuel (s ++ 0 :: t) i = coordOut s i (parseCoord Variant.now (s.drop i)) ∧
    string_to_location_coordinate_defined fuel (s ++ 0 :: t) i = true ∧
    GoodOut s (parseCoord Variant.now (s.drop i)) := by
  have hrd0 := rdS_cbuf s t i hi
  have hin0 := inB_cbuf s t i hi
  have hsc0 := sc_cases (peek (s.drop i))
  rw [parseCoord_stages]
  by_cases hm : (peek (s.drop i)).toNat = 45
  · have hilt : i < s.length := lt_of_peek_ne_zero s i (by intro h; rw [h] at hm; simp at hm)
    have hp1 := ptrOk_cbuf s t (i + 1) (by omega)
    have hb : (peek (s.drop i) == cMinus) = true := by simp [beq_char, hm]
    simp only [hb, if_true, tail_drop]
    obtain ⟨h1, h1d, h1g⟩ := src_tie_coord_k1 s t i i (i + 1) fuel (-1) (Or.inr rfl) (by omega) hi hfuel
    refine ⟨?_, ?_, h1g⟩
    · unfold string_to_location_coordinate
      simp only [hrd0]
      split_ok
      idx_norm
      exact h1
    · unfold string_to_location_coordinate_defined
      simp only [hrd0, hin0]
      split_ok
      all_goals (try split_ok)
      all_goals (idx_norm; simp only [hp1, Bool.true_and, Bool.and_true])
      all_goals exact h1d
  · have hb : (peek (s.drop i) == cMinus) = false := by simp [beq_char, hm]
    simp only [hb, Bool.false_eq_true, if_false]
    obtain ⟨h1, h1d, h1g⟩ := src_tie_coord_k1 s t i i i fuel 1 (Or.inl rfl) hi hi hfuel
    refine ⟨?_, ?_, h1g⟩
    · unfold string_to_location_coordinate
      simp only [hrd0]
      split_ok
      exact h1
    · unfold string_to_location_coordinate_defined
      simp only [hrd0, hin0]
      split_ok
      all_goals (try split_ok)
      all_goals simp only [Bool.true_and, Bool.and_true]
      all_goals exact h1d

end Osmium.SrcTie.Coord
