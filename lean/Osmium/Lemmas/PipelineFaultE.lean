/-
C05 under a blob-decode fault, part E: `exactly_once_in_order` without the hypothesis
`blobFault = none`.  A complete read (read() returned the end marker it popped from the queue) means
no exception future was handed to push() before the marker; a lost blob would have left one; so the
full equation holds at that moment and everything was delivered.
-/
import Osmium.Lemmas.PipelineFaultQ

set_option linter.unusedSimpArgs false
set_option linter.unusedVariables false

namespace Osmium.Pipeline.Fault

open Osmium.Mon Osmium.Pipeline Osmium.Pipeline.Order

variable {α : Type} [DecidableEq α]

/-- when read() unpacks the end marker no blob has been lost in a worker -/
theorem not_lost_at_eod (c : Cfg α) (wf : c.WF) (s : State α) (h : (machine c).Reachable s)
    (hO : Complete.InvO c s) (id : Nat) (hc : s.cpc = .readGot id) (hf : s.fut id = some .eod) :
    ∀ b, lostBlob c = some b → ¬ b < s.blob := by
  intro b hl hb
  obtain ⟨_, hfin, hnx, _⟩ := Complete.at_eod c wf s h hO id hc hf
  obtain ⟨k, hk, hw, _⟩ := cut_inv c s h b hl hb
  have hids := ids_inv c s h
  have hpi : pendItems s = [] := by
    unfold pendItems
    split
    · rename_i hp; rw [hp] at hfin; exact hfin.elim
    · rfl
  rw [hpi, List.append_nil] at hids
  apply hnx
  refine ⟨(tP, 2 * k + 1), ?_, by rw [hw]; trivial⟩
  rw [hids]
  simp only [idsUpTo, List.mem_map, List.mem_range]
  exact ⟨k, hk, rfl⟩

/-- when read() unpacks the end marker everything has been delivered (any configuration) -/
theorem delivered_at_eod_any (c : Cfg α) (wf : c.WF) (s : State α) (h : (machine c).Reachable s)
    (hO : Complete.InvO c s) (id : Nat) (hc : s.cpc = .readGot id) (hf : s.fut id = some .eod) :
    s.delivered = deliver c := by
  obtain ⟨hcp, hfin, _, _, hup, hbk, hhold⟩ := Complete.at_eod c wf s h hO id hc hf
  have h1 := parser_side_any c s h
  rw [specAt_not_passed _ (not_lost_at_eod c wf s h hO id hc hf)] at h1
  have h2 := consumer_side c s h
  rw [hcp, Complete.pend_of_pFin s hfin, hup, ← h2, hbk, hhold] at h1
  simpa using h1

open Complete in
set_option maxHeartbeats 1600000 in
theorem invT2_any (c : Cfg α) (wf : c.WF) : ∀ s, (machine c).Reachable s → InvT2 c s := by
  apply Machine.invariant
  · simp [InvT2, gotEod, machine, init]
  · intro s e s' hr ih hst
    have hO := invO c s hr
    have hE : ∀ id, s.cpc = .readGot id → s.fut id = some .eod → s.delivered = deliver c :=
      fun id hc hf => delivered_at_eod_any c wf s hr hO id hc hf
    have hB1 := (Complete.invB c s hr).b_R
    have hB2 := (Complete.invB c s hr).b_saw
    clear hO
    unfold InvT2 gotEod at ih ⊢
    pc_cases e with hst
    all_goals first
      | exact ih
      | (intro hp; simp_all [inR]; done)

/-- C05 `exactly_once_in_order` for ANY configuration: a complete read has delivered exactly
    `deliver c` and no back buffers are left. -/
theorem complete_read_any (c : Cfg α) (wf : c.WF) (s : State α) (h : (machine c).Reachable s)
    (hd : s.sawEod = true) : s.delivered = deliver c ∧ s.back = [] :=
  ⟨invT2_any c wf s h (.inr (.inr hd)), (after_eod c wf s h hd).2⟩

end Osmium.Pipeline.Fault
