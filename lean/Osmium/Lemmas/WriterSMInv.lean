/-
Lemmas for C08, part 3: invariants of the Writer machine (all interleavings).  Core-only.
-/
import Osmium.Lemmas.WriterSM
import Osmium.Lemmas.WriterSMSteps

namespace Osmium.WriterSM

open Osmium.Mon

variable {κ : Type} {cfg : Cfg κ} {enc : List Bytes → Bytes}

theorem step_cases {s s' : St κ} {e : Ev} (h : step? cfg s e = some s') :
    ProdStep cfg s s' ∨ WtStep cfg s s' ∨ WorkerStep s s' := by
  cases e with
  | prod => exact .inl (stepProd_cases h)
  | wt => exact .inr (.inl (stepWt_cases h))
  | worker i => exact .inr (.inr (stepWorker_cases h))

/-! ## The write thread's side -/

/-- what the write thread's program counter says about the compressor, the OS, the promise,
    the notification flag and the queue -/
structure WtInv (S : CompSpec cfg.comp enc) (s : St κ) : Prop where
  loop : (s.wpc = .pop ∨ (∃ it, s.wpc = .got it) ∨ s.wpc = .closing) →
    s.promise = none ∧ s.notification = false ∧ (S.Inv s.comp s.os s.written ∨ S.Latched s.comp)
  failing : ∀ e, (s.wpc = .fail1 e ∨ s.wpc = .fail2 e) → s.promise = none
  late : (s.wpc = .fail3 ∨ s.wpc = .dtor ∨ s.wpc = .done) → s.promise.isSome = true
  okv : ∀ n, s.promise = some (.ok n) →
    s.os.faults = 0 ∧ s.os.file = enc s.written ∧ n = s.os.file.length ∧ S.Closed s.comp ∧
    (s.wpc = .dtor ∨ s.wpc = .done) ∧ s.notification = false
  shut : (s.wpc = .closing ∨ s.wpc = .dtor ∨ s.wpc = .done) → s.inUse = false
  qempty : s.inUse = false → s.q = []

theorem wtInv_prod (S : CompSpec cfg.comp enc) {s s' : St κ} (h : WtInv S s) (hs : ProdStep cfg s s') :
    WtInv S s' := by
  obtain ⟨h1, h2, h3, h4, h5, h6⟩ := h
  cases hs <;> (refine ⟨?_, ?_, ?_, ?_, ?_, ?_⟩ <;> dsimp only [finish, raiseInTry] <;>
    first | assumption | (intro hx; simp_all))

theorem wtInv_worker (S : CompSpec cfg.comp enc) {s s' : St κ} (h : WtInv S s) (hs : WorkerStep s s') :
    WtInv S s' := by
  obtain ⟨h1, h2, h3, h4, h5, h6⟩ := h
  cases hs with
  | held it hw hr =>
    refine ⟨?_, ?_, ?_, ?_, ?_, ?_⟩ <;> dsimp only
    · intro _; exact h1 (.inr (.inl ⟨it, hw⟩))
    · intro e he; simp at he
    · intro he; simp at he
    · intro n hn; have := h4 n hn; simp_all
    · intro he; simp at he
    · exact h6
  | queued i it hq hr =>
    refine ⟨h1, h2, h3, h4, h5, ?_⟩
    dsimp only
    intro hu; simp [h6 hu] at hq

theorem wtInv_wt (S : CompSpec cfg.comp enc) {s s' : St κ} (h : WtInv S s) (hs : WtStep cfg s s') :
    WtInv S s' := by
  obtain ⟨h1, h2, h3, h4, h5, h6⟩ := h
  cases hs with
  | popShutdown hw hu =>
    obtain ⟨a, b, c⟩ := h1 (.inl hw)
    refine ⟨fun _ => ⟨a, b, c⟩, ?_, ?_, ?_, fun _ => hu, h6⟩ <;> dsimp only
    · intro e he; simp at he
    · intro he; simp at he
    · intro n hn; rw [a] at hn; cases hn
  | take it rest hw hu hq =>
    obtain ⟨a, b, c⟩ := h1 (.inl hw)
    refine ⟨fun _ => ⟨a, b, c⟩, ?_, ?_, ?_, ?_, ?_⟩ <;> dsimp only
    · intro e he; simp at he
    · intro he; simp at he
    · intro n hn; rw [a] at hn; cases hn
    · intro he; simp at he
    · intro hx; rw [hu] at hx; cases hx
  | getExc it e hw hr hres =>
    obtain ⟨a, b, c⟩ := h1 (.inr (.inl ⟨it, hw⟩))
    refine ⟨?_, ?_, ?_, ?_, ?_, h6⟩ <;> dsimp only
    · intro he; simp at he
    · intro _ _; exact a
    · intro he; simp at he
    · intro n hn; rw [a] at hn; cases hn
    · intro he; simp at he
  | getEnd it hw hr hres =>
    obtain ⟨a, b, c⟩ := h1 (.inr (.inl ⟨it, hw⟩))
    refine ⟨fun _ => ⟨a, b, c⟩, ?_, ?_, ?_, ?_, ?_⟩ <;> dsimp only [shutdownQ]
    · intro e he; simp at he
    · intro he; simp at he
    · intro n hn; rw [a] at hn; cases hn
    · intro _; trivial
    · intro _; trivial
  | writeOk it b bs k' os' hw hr hres hcw =>
    obtain ⟨a, b', c⟩ := h1 (.inr (.inl ⟨it, hw⟩))
    refine ⟨fun _ => ⟨a, b', ?_⟩, ?_, ?_, ?_, ?_, h6⟩ <;> dsimp only
    · rcases c with c | c
      · exact S.write_ok c (by simp) hcw
      · exact .inr (S.write_latched c (by simp) hcw)
    · intro e he; simp at he
    · intro he; simp at he
    · intro n hn; rw [a] at hn; cases hn
    · intro he; simp at he
  | writeFail it b bs e k' os' hw hr hres hcw =>
    obtain ⟨a, b', c⟩ := h1 (.inr (.inl ⟨it, hw⟩))
    refine ⟨?_, ?_, ?_, ?_, ?_, h6⟩ <;> dsimp only
    · intro he; simp at he
    · intro _ _; exact a
    · intro he; simp at he
    · intro n hn; rw [a] at hn; cases hn
    · intro he; simp at he
  | closeOk k' os' hw hcc =>
    obtain ⟨a, b, c⟩ := h1 (.inr (.inr hw))
    have hu := h5 (.inl hw)
    refine ⟨?_, ?_, ?_, ?_, fun _ => hu, h6⟩ <;> dsimp only
    · intro he; simp at he
    · intro e he; simp at he
    · intro _; rfl
    · intro n hn
      simp at hn; subst hn
      rcases c with c | c
      · obtain ⟨x1, x2, x3, x4⟩ := S.close_ok c hcc
        exact ⟨x1, x2, x3, x4, .inl rfl, b⟩
      · exact absurd rfl (S.close_latched c hcc)
  | closeFail e k' os' hw hcc =>
    obtain ⟨a, b, c⟩ := h1 (.inr (.inr hw))
    have hu := h5 (.inl hw)
    refine ⟨?_, ?_, ?_, ?_, ?_, h6⟩ <;> dsimp only
    · intro he; simp at he
    · intro _ _; exact a
    · intro he; simp at he
    · intro n hn; rw [a] at hn; cases hn
    · intro he; simp at he
  | fail1 e hw =>
    have a := h2 e (.inl hw)
    refine ⟨?_, ?_, ?_, ?_, ?_, h6⟩ <;> dsimp only
    · intro he; simp at he
    · intro _ _; exact a
    · intro he; simp at he
    · intro n hn; rw [a] at hn; cases hn
    · intro he; simp at he
  | fail2 e hw =>
    refine ⟨?_, ?_, ?_, ?_, ?_, h6⟩ <;> dsimp only
    · intro he; simp at he
    · intro e he; simp at he
    · intro _; rfl
    · intro n hn; simp at hn
    · intro he; simp at he
  | fail3 hw =>
    have a := h3 (.inl hw)
    refine ⟨?_, ?_, ?_, ?_, ?_, ?_⟩ <;> dsimp only [shutdownQ]
    · intro he; simp at he
    · intro e he; simp at he
    · intro _; exact a
    · intro n hn; have := h4 n hn; simp_all
    · intro _; trivial
    · intro _; trivial
  | dtor hw =>
    have a := h3 (.inr (.inl hw))
    refine ⟨?_, ?_, ?_, ?_, ?_, ?_⟩ <;> dsimp only [shutdownQ]
    · intro he; simp at he
    · intro e he; simp at he
    · intro _; exact a
    · intro n hn
      obtain ⟨x1, x2, x3, x4, x5, x6⟩ := h4 n hn
      have hno := S.closed_noop (os := s.os) x4
      simp only [Comp.destroy, hno]
      exact ⟨x1, x2, x3, x4, by simp, x6⟩
    · intro _; trivial
    · intro _; trivial

theorem wtInv_step (S : CompSpec cfg.comp enc) {s s' : St κ} {e : Ev} (h : WtInv S s)
    (hs : step? cfg s e = some s') : WtInv S s' := by
  rcases step_cases hs with h1 | h1 | h1
  · exact wtInv_prod S h h1
  · exact wtInv_wt S h h1
  · exact wtInv_worker S h h1

theorem wtInv_init (S : CompSpec cfg.comp enc) {k0 : κ} {os0 : OS} (script : List Api)
    (h0 : S.Inv k0 os0 []) : WtInv S (initSt k0 os0 script) := by
  refine ⟨fun _ => ⟨rfl, rfl, .inl h0⟩, fun _ _ => rfl, ?_, ?_, ?_, ?_⟩ <;> simp [initSt]

/-! ## The producer's side: shape of the remaining code, and who consumed the future -/

def isPush : Instr → Bool
  | .push _ => true
  | _ => false

/-- the remaining code is the tail of a catch block: pushes, then `throw;` (or the join of
    the destructor, which swallows) -/
def catchTail : List Instr → Bool
  | [] => false
  | [.rethrow _] => true
  | [.join] => true
  | [_] => false
  | i :: rest => isPush i && catchTail rest

def isClose : Option Api → Bool
  | some (.close _ _) => true
  | _ => false

def isDtor : Option Api → Bool
  | some (.dtor _ _) => true
  | _ => false

/-- a finished call that neither raised nor was close()/the destructor -/
def quiet : Api × Outcome → Bool
  | (.put _ _, .ok _) => true
  | (.item _, .ok _) => true
  | (.flush _, .ok _) => true
  | _ => false

theorem mem_encInstrs {i : Instr} {e : Enc} (h : i ∈ encInstrs e) :
    (∃ it, i = .push it) ∨ (∃ x, i = .throw x) := by
  unfold encInstrs at h
  rcases List.mem_append.mp h with h | h
  · obtain ⟨it, _, rfl⟩ := List.mem_map.mp h; exact .inl ⟨it, rfl⟩
  · cases hth : e.throws <;> rw [hth] at h <;> simp at h
    exact .inr ⟨_, h⟩

theorem mem_optEnc {i : Instr} {e : Option Enc} (h : i ∈ optEnc e) :
    (∃ it, i = .push it) ∨ (∃ x, i = .throw x) := by
  cases e with
  | none => simp [optEnc] at h
  | some e => exact mem_encInstrs h

set_option hygiene false in
local macro "leaves" : tactic =>
  `(tactic| (simp only [callCode, List.mem_append, List.mem_cons, List.mem_nil_iff] at h
             repeat' (rcases h with h | h)
             all_goals first
               | cases h
               | (rcases mem_optEnc h with ⟨_, h'⟩ | ⟨_, h'⟩ <;> cases h')
               | (rcases mem_encInstrs h with ⟨_, h'⟩ | ⟨_, h'⟩ <;> cases h')
               | rfl))

/-- which final instruction belongs to which call -/
def okFor (cur : Option Api) : Instr → Bool
  | .futGet => isClose cur
  | .ret => !isClose cur && !isDtor cur
  | .chk => !isClose cur && !isDtor cur
  | .rethrow _ => !isDtor cur
  | .join => isDtor cur
  | _ => true

set_option hygiene false in
local macro "leaves2" : tactic =>
  `(tactic| (simp only [callCode, List.mem_append, List.mem_cons, List.mem_nil_iff] at h
             repeat' (rcases h with h | h)
             all_goals first
               | rfl
               | (subst h; rfl)
               | cases h
               | (rcases mem_optEnc h with ⟨_, h'⟩ | ⟨_, h'⟩ <;> subst h' <;> rfl)
               | (rcases mem_encInstrs h with ⟨_, h'⟩ | ⟨_, h'⟩ <;> subst h' <;> rfl)))

theorem okFor_callCode {a : Api} {i : Instr} (h : i ∈ callCode a) : okFor (some a) i = true := by
  cases a with
  | put ib e => leaves2
  | item f =>
    cases f with
    | none => leaves2
    | some e => leaves2
  | flush ib => leaves2
  | close ib e => leaves2
  | dtor ib e => leaves2

theorem rethrow_not_mem_callCode {a : Api} {e : Err} : Instr.rethrow e ∉ callCode a := by
  intro h
  cases a with
  | put ib e' => leaves
  | item f =>
    cases f with
    | none => leaves
    | some e' => leaves
  | flush ib => leaves
  | close ib e' => leaves
  | dtor ib e' => leaves

theorem catchTail_cons {i : Instr} {rest : List Instr} (h : catchTail (i :: rest) = true)
    (hne : rest ≠ []) : isPush i = true ∧ catchTail rest = true := by
  cases rest with
  | nil => exact absurd rfl hne
  | cons j r =>
    cases i <;> simp_all [catchTail, isPush]

theorem catchTail_catchCode (a : Api) (e : Err) : catchTail (catchCode a e) = true := by
  cases a <;> simp [catchCode, catchTail, isPush]

/-- shape of the producer's remaining code + bookkeeping of the future -/
structure ProdInv (s : St κ) : Prop where
  idle : s.cur = none → s.code = []
  finals : ∀ i ∈ s.code, okFor s.cur i = true
  rethrowTail : (∃ e, Instr.rethrow e ∈ s.code) → catchTail s.code = true
  consumed : s.futureValid = false →
    (∃ x ∈ s.results, quiet x = false) ∨ (∃ e, Instr.rethrow e ∈ s.code) ∨ isDtor s.cur = true

theorem head_push_of_rethrow {code rest : List Instr} {i : Instr} (hcode : code = i :: rest)
    (h2 : (∃ e, Instr.rethrow e ∈ code) → catchTail code = true)
    (hx : ∃ e, Instr.rethrow e ∈ code) (hi : ∀ e, i ≠ .rethrow e) : isPush i = true := by
  subst hcode
  obtain ⟨e, he⟩ := hx
  have hr : Instr.rethrow e ∈ rest := by
    rcases List.mem_cons.mp he with h | h
    · exact absurd h.symm (hi e)
    · exact h
  have hne : rest ≠ [] := by intro h0; subst h0; simp at hr
  exact (catchTail_cons (h2 ⟨e, he⟩) hne).1

/-- popping a non-push head never leaves a `rethrow` behind -/
theorem no_rethrow_after {i : Instr} {rest : List Instr}
    (h : (∃ e, Instr.rethrow e ∈ i :: rest) → catchTail (i :: rest) = true)
    (hi : isPush i = false) : ¬ ∃ e, Instr.rethrow e ∈ rest := by
  intro ⟨e, he⟩
  have hne : rest ≠ [] := by intro h0; subst h0; simp at he
  have := (catchTail_cons (h ⟨e, List.mem_cons_of_mem _ he⟩) hne).1
  rw [hi] at this; cases this

theorem quiet_dtor (ib : Option Enc) (e : Enc) (o : Outcome) : quiet (.dtor ib e, o) = false := by
  cases o <;> rfl

theorem prodInv_prod {s s' : St κ} (h : ProdInv s)
    (hnotif : ∀ n, s.promise = some (.ok n) → s.notification = false)
    (hs : ProdStep cfg s s') : ProdInv s' := by
  obtain ⟨h0, h1, h2, h3⟩ := h
  -- "the head (neither a push nor a rethrow) is popped, nothing else relevant changes"
  have pop : ∀ (i : Instr) (rest : List Instr) (a : Api), s.cur = some a → s.code = i :: rest →
      isPush i = false → (∀ e, i ≠ .rethrow e) →
      ∀ (s1 : St κ), s1.code = rest → s1.cur = s.cur → s1.results = s.results →
      (s1.futureValid = false → s.futureValid = false) → ProdInv s1 := by
    intro i rest a hc hcode hi hir s1 e1 e2 e3 e4
    have hnr := no_rethrow_after (hcode ▸ h2) hi
    refine ⟨?_, ?_, ?_, ?_⟩
    · intro hn; rw [e2, hc] at hn; cases hn
    · intro j hm; rw [e2]; exact h1 j (by rw [hcode]; exact List.mem_cons_of_mem _ (e1 ▸ hm))
    · intro hm; rw [e1] at hm; exact absurd hm hnr
    · intro hv
      rcases h3 (e4 hv) with hx | hx | hx
      · exact .inl (e3 ▸ hx)
      · obtain ⟨e, he⟩ := hx
        rw [hcode] at he
        rcases List.mem_cons.mp he with he | he
        · exact absurd he.symm (hir e)
        · exact absurd ⟨e, he⟩ hnr
      · exact .inr (.inr (e2 ▸ hx))
  -- a call finishes
  have fin : ∀ (a : Api) (o : Outcome) (s0 : St κ), s.cur = some a → s0.results = s.results →
      (s0.futureValid = false → (quiet (a, o) = false ∨ s.futureValid = false)) →
      ((∃ e, Instr.rethrow e ∈ s.code) → quiet (a, o) = false) →
      ProdInv (finish s0 a o) := by
    intro a o s0 hc e3 e4 e5
    refine ⟨?_, ?_, ?_, ?_⟩ <;> dsimp only [finish]
    · intro _; trivial
    · intro j hm; simp at hm
    · intro ⟨e, hm⟩; simp at hm
    · intro hv
      rcases e4 hv with hq | hv'
      · exact .inl ⟨(a, o), by simp, hq⟩
      · rcases h3 hv' with ⟨x, hx, hq⟩ | hx | hx
        · exact .inl ⟨x, by rw [e3]; simp [hx], hq⟩
        · exact .inl ⟨(a, o), by simp, e5 hx⟩
        · rw [hc] at hx
          have hq : quiet (a, o) = false := by
            cases a <;> simp [isDtor] at hx
            exact quiet_dtor _ _ o
          exact .inl ⟨(a, o), by simp, hq⟩
  have raise : ∀ (a : Api) (e : Err) (s0 : St κ), s.cur = some a → s0.cur = s.cur →
      s0.results = s.results → ProdInv (raiseInTry s0 a e) := by
    intro a e s0 hc e2 e3
    refine ⟨?_, ?_, ?_, ?_⟩ <;> dsimp only [raiseInTry]
    · intro hn; rw [e2, hc] at hn; cases hn
    · intro j hm
      rw [e2, hc]
      cases a <;> simp [catchCode] at hm <;> rcases hm with rfl | rfl | rfl <;> rfl
    · intro _; exact catchTail_catchCode a e
    · intro _
      cases a with
      | dtor ib e' => right; right; rw [e2, hc]; rfl
      | _ => right; left; exact ⟨e, by simp [catchCode]⟩
  -- a push is popped
  have pushed : ∀ (it : Item) (rest : List Instr) (a : Api), s.cur = some a → s.code = .push it :: rest →
      ∀ (s1 : St κ), s1.code = rest → s1.cur = s.cur → s1.results = s.results →
      s1.futureValid = s.futureValid → ProdInv s1 := by
    intro it rest a hc hcode s1 e1 e2 e3 e4
    refine ⟨?_, ?_, ?_, ?_⟩
    · intro hn; rw [e2, hc] at hn; cases hn
    · intro j hm; rw [e2]; exact h1 j (by rw [hcode]; exact List.mem_cons_of_mem _ (e1 ▸ hm))
    · intro ⟨e, hm⟩
      rw [e1] at hm ⊢
      have hne : rest ≠ [] := by intro h0; subst h0; simp at hm
      have hct := h2 ⟨e, by rw [hcode]; exact List.mem_cons_of_mem _ hm⟩
      rw [hcode] at hct
      exact (catchTail_cons hct hne).2
    · intro hv
      rw [e4] at hv
      rcases h3 hv with hx | hx | hx
      · exact .inl (e3 ▸ hx)
      · obtain ⟨e, he⟩ := hx
        rw [hcode] at he
        rcases List.mem_cons.mp he with he | he
        · cases he
        · exact .inr (.inl ⟨e, e1 ▸ he⟩)
      · exact .inr (.inr (e2 ▸ hx))
  have nopush : ∀ {i : Instr} {rest : List Instr}, s.code = i :: rest → (∀ e, i ≠ .rethrow e) →
      isPush i = false → ¬ ∃ e, Instr.rethrow e ∈ s.code := by
    intro i rest hcode hir hi hx
    have := head_push_of_rethrow hcode h2 hx hir
    rw [hi] at this; cases this
  cases hs with
  | call a rest hc hsc =>
    have hcode := h0 hc
    refine ⟨?_, ?_, ?_, ?_⟩ <;> dsimp only
    · intro hn; cases hn
    · intro j hj; exact okFor_callCode hj
    · intro ⟨e, he⟩; exact absurd he rethrow_not_mem_callCode
    · intro hv
      rcases h3 hv with hx | hx | hx
      · exact .inl hx
      · obtain ⟨e, he⟩ := hx; rw [hcode] at he; simp at he
      · rw [hc] at hx; simp [isDtor] at hx
  | chkFail a rest hc hcode hst =>
    exact fin a _ s hc rfl (fun hv => .inr hv)
      (fun hx => absurd hx (nopush hcode (by intro e h; cases h) rfl))
  | chkOk a rest hc hcode hst =>
    exact pop _ rest a hc hcode rfl (by intro e h; cases h) _ rfl rfl rfl id
  | closeChkOk a rest hc hcode hst =>
    exact pop _ rest a hc hcode rfl (by intro e h; cases h) _ rfl rfl rfl id
  | closeChkSkip a rest hc hcode hst =>
    have hnr := nopush hcode (by intro e h; cases h) rfl
    refine ⟨?_, ?_, ?_, ?_⟩ <;> dsimp only
    · intro hn; rw [hc] at hn; cases hn
    · intro j hm; rw [hc]; simp at hm; subst hm; cases a <;> rfl
    · intro ⟨e, hm⟩; cases a <;> simp [finalInstr] at hm
    · intro hv
      rcases h3 hv with hx | hx | hx
      · exact .inl hx
      · exact absurd hx hnr
      · exact .inr (.inr hx)
  | hdrSkip a rest hc hcode hh =>
    exact pop _ rest a hc hcode rfl (by intro e h; cases h) _ rfl rfl rfl id
  | hdrDo a rest hc hcode hh =>
    have hnr := nopush hcode (by intro e h; cases h) rfl
    have hin : ∀ i, i ∈ encInstrs cfg.hdrEnc ++ [Instr.setHdr] ++ rest → i ∈ rest ∨
        (∃ it, i = .push it) ∨ (∃ x, i = .throw x) ∨ i = .setHdr := by
      intro i hi
      simp only [List.mem_append, List.mem_cons, List.mem_nil_iff, or_false] at hi
      rcases hi with (hi | hi) | hi
      · rcases mem_encInstrs hi with h | h
        · exact .inr (.inl h)
        · exact .inr (.inr (.inl h))
      · exact .inr (.inr (.inr hi))
      · exact .inl hi
    refine ⟨?_, ?_, ?_, ?_⟩ <;> dsimp only
    · intro hn; rw [hc] at hn; cases hn
    · intro j hm
      rcases hin _ hm with h | ⟨_, h⟩ | ⟨_, h⟩ | h
      · exact h1 j (by rw [hcode]; exact List.mem_cons_of_mem _ h)
      all_goals (subst h; rfl)
    · intro ⟨e, hm⟩
      rcases hin _ hm with h | ⟨_, h⟩ | ⟨_, h⟩ | h
      · exact absurd ⟨e, by rw [hcode]; exact List.mem_cons_of_mem _ h⟩ hnr
      all_goals cases h
    · intro hv
      rcases h3 hv with hx | hx | hx
      · exact .inl hx
      · exact absurd hx hnr
      · exact .inr (.inr hx)
  | setHdr a rest hc hcode =>
    exact pop _ rest a hc hcode rfl (by intro e h; cases h) _ rfl rfl rfl id
  | pollRaise a rest e hc hcode hn hv hp => exact raise a e _ hc rfl rfl
  | pollValue a rest n hc hcode hn hv hp =>
    have := hnotif n hp
    rw [hn] at this; cases this
  | pollNothing a rest hc hcode hn =>
    exact pop _ rest a hc hcode rfl (by intro e h; cases h) _ rfl rfl rfl id
  | pushDropped a rest it hc hcode hu => exact pushed it rest a hc hcode _ rfl rfl rfl rfl
  | pushDone a rest it hc hcode hu hroom => exact pushed it rest a hc hcode _ rfl rfl rfl rfl
  | throw a rest e hc hcode => exact raise a e _ hc rfl rfl
  | setClosed a rest hc hcode =>
    exact pop _ rest a hc hcode rfl (by intro e h; cases h) _ rfl rfl rfl id
  | rethrow a rest e hc hcode =>
    exact fin a _ s hc rfl (fun _ => .inl (by cases a <;> rfl)) (fun _ => by cases a <;> rfl)
  | ret a rest hc hcode =>
    exact fin a _ s hc rfl (fun hv => .inr hv)
      (fun hx => absurd hx (nopush hcode (by intro e h; cases h) rfl))
  | futGetValid a rest o hc hcode hv hp =>
    have hcl := h1 .futGet (by rw [hcode]; simp)
    rw [hc] at hcl
    have hq : quiet (a, o) = false := by
      cases a <;> simp [okFor, isClose] at hcl
      cases o <;> rfl
    exact fin a _ _ hc rfl (fun _ => .inl hq) (fun _ => hq)
  | futGetInvalid a rest hc hcode hv =>
    have hcl := h1 .futGet (by rw [hcode]; simp)
    rw [hc] at hcl
    have hq : quiet (a, Outcome.ok 0) = false := by
      cases a <;> simp [okFor, isClose] at hcl
      rfl
    exact fin a _ s hc rfl (fun _ => .inl hq) (fun _ => hq)
  | join a rest hc hcode hw =>
    have := fin a (.ok 0) s hc rfl (fun hv => .inr hv)
      (fun hx => absurd hx (nopush hcode (by intro e h; cases h) rfl))
    exact ⟨this.1, this.2, this.3, this.4⟩

theorem prodInv_wt {s s' : St κ} (h : ProdInv s) (hs : WtStep cfg s s') : ProdInv s' := by
  obtain ⟨h0, h1, h2, h3⟩ := h
  cases hs <;> exact ⟨h0, h1, h2, h3⟩

theorem prodInv_worker {s s' : St κ} (h : ProdInv s) (hs : WorkerStep s s') : ProdInv s' := by
  obtain ⟨h0, h1, h2, h3⟩ := h
  cases hs <;> exact ⟨h0, h1, h2, h3⟩

/-! ## close() returned normally as the first "loud" event ⇒ it returned the promise's value -/

/-- the first finished call that raised, or was close(), or the destructor -/
def firstLoud (rs : List (Api × Outcome)) : Option (Api × Outcome) := rs.find? (fun x => !quiet x)

theorem firstLoud_append (rs : List (Api × Outcome)) (x : Api × Outcome) :
    firstLoud (rs ++ [x]) = (firstLoud rs).or (if quiet x then none else some x) := by
  unfold firstLoud
  rw [List.find?_append]
  cases hq : quiet x <;> simp [hq]

theorem firstLoud_none {rs : List (Api × Outcome)} (h : firstLoud rs = none) :
    ¬ ∃ x ∈ rs, quiet x = false := by
  intro ⟨x, hx, hq⟩
  unfold firstLoud at h
  rw [List.find?_eq_none] at h
  have := h x hx
  simp [hq] at this

def CloseRet (s : St κ) : Prop :=
  ∀ a n, firstLoud s.results = some (a, .ok n) → isClose (some a) = true → s.promise = some (.ok n)

theorem closeRet_prod {s s' : St κ} (hp : ProdInv s) (h : CloseRet s) (hs : ProdStep cfg s s') :
    CloseRet s' := by
  -- a call finishes with outcome o
  have fin : ∀ (a : Api) (o : Outcome) (s0 : St κ), s0.results = s.results → s0.promise = s.promise →
      (firstLoud s.results = none → ∀ n, o = .ok n → isClose (some a) = true → s.promise = some (.ok n)) →
      CloseRet (finish s0 a o) := by
    intro a o s0 e1 e2 e3 b n hb hcl
    dsimp only [finish] at hb ⊢
    rw [e1, firstLoud_append] at hb
    rw [e2]
    rcases hfl : firstLoud s.results with _ | y
    · rw [hfl] at hb
      simp only [Option.none_or] at hb
      split at hb
      · cases hb
      · simp at hb
        obtain ⟨rfl, rfl⟩ := hb
        exact e3 hfl n rfl hcl
    · rw [hfl] at hb
      simp only [Option.some_or] at hb
      exact h b n (by rw [hfl, hb]) hcl
  have quietRet : ∀ (a : Api), s.cur = some a → (∀ i ∈ s.code, okFor s.cur i = true) →
      Instr.ret ∈ s.code → isClose (some a) = false := by
    intro a hc hf hm
    have := hf _ hm
    rw [hc] at this
    cases a <;> simp [okFor, isClose, isDtor] at this ⊢
  cases hs with
  | call a rest hc hsc => exact h
  | chkFail a rest hc hcode hst => exact fin a _ s rfl rfl (fun _ n hn => by cases hn)
  | chkOk a rest hc hcode hst => exact h
  | closeChkOk a rest hc hcode hst => exact h
  | closeChkSkip a rest hc hcode hst => exact h
  | hdrSkip a rest hc hcode hh => exact h
  | hdrDo a rest hc hcode hh => exact h
  | setHdr a rest hc hcode => exact h
  | pollRaise a rest e hc hcode hn hv hp => exact h
  | pollValue a rest n hc hcode hn hv hp => exact h
  | pollNothing a rest hc hcode hn => exact h
  | pushDropped a rest it hc hcode hu => exact h
  | pushDone a rest it hc hcode hu hroom => exact h
  | throw a rest e hc hcode => exact h
  | setClosed a rest hc hcode => exact h
  | rethrow a rest e hc hcode => exact fin a _ s rfl rfl (fun _ n hn => by cases hn)
  | ret a rest hc hcode =>
    refine fin a _ s rfl rfl (fun _ n _ hcl => ?_)
    have := quietRet a hc hp.finals (by rw [hcode]; simp)
    rw [this] at hcl; cases hcl
  | futGetValid a rest o hc hcode hv hp' =>
    refine fin a _ _ rfl rfl (fun _ n hn _ => ?_)
    rw [hp', hn]
  | futGetInvalid a rest hc hcode hv =>
    refine fin a _ s rfl rfl (fun hfl n _ hcl => ?_)
    exfalso
    rcases hp.consumed hv with hx | hx | hx
    · exact firstLoud_none hfl hx
    · have := head_push_of_rethrow hcode hp.rethrowTail hx (by intro e h; cases h)
      simp [isPush] at this
    · rw [hc] at hx
      cases a <;> simp [isDtor, isClose] at hx hcl
  | join a rest hc hcode hw =>
    intro b n hb hcl
    have hd := hp.finals .join (by rw [hcode]; simp)
    rw [hc] at hd
    have := fin a (.ok 0) s rfl rfl (fun _ n _ hcl => by
      cases a <;> simp [okFor, isDtor, isClose] at hd hcl) b n hb hcl
    exact this

theorem closeRet_wt (S : CompSpec cfg.comp enc) {s s' : St κ} (hw : WtInv S s) (h : CloseRet s)
    (hs : WtStep cfg s s') : CloseRet s' := by
  intro a n hfl hcl
  have key : s'.results = s.results := by cases hs <;> rfl
  rw [key] at hfl
  have hp := h a n hfl hcl
  obtain ⟨_, _, _, _, hpc, _⟩ := hw.okv n hp
  cases hs with
  | popShutdown hw' _ => exact hp
  | take it rest hw' _ _ => exact hp
  | getExc it e hw' _ _ => exact hp
  | getEnd it hw' _ _ => exact hp
  | writeOk it b bs k' os' hw' _ _ _ => exact hp
  | writeFail it b bs e k' os' hw' _ _ _ => exact hp
  | closeOk k' os' hw' _ => rcases hpc with h | h <;> rw [hw'] at h <;> cases h
  | closeFail e k' os' hw' _ => exact hp
  | fail1 e hw' => exact hp
  | fail2 e hw' => rcases hpc with h | h <;> rw [hw'] at h <;> cases h
  | fail3 hw' => exact hp
  | dtor hw' => exact hp

theorem closeRet_worker {s s' : St κ} (h : CloseRet s) (hs : WorkerStep s s') : CloseRet s' := by
  cases hs <;> exact h

/-- the combined invariant of parts 3 -/
structure Inv1 (S : CompSpec cfg.comp enc) (s : St κ) : Prop where
  wt : WtInv S s
  prod : ProdInv s
  closeRet : CloseRet s

theorem inv1_step (S : CompSpec cfg.comp enc) {s s' : St κ} {e : Ev} (h : Inv1 S s)
    (hs : step? cfg s e = some s') : Inv1 S s' := by
  rcases step_cases hs with h1 | h1 | h1
  · exact ⟨wtInv_prod S h.wt h1, prodInv_prod h.prod (fun n hn => (h.wt.okv n hn).2.2.2.2.2) h1,
      closeRet_prod h.prod h.closeRet h1⟩
  · exact ⟨wtInv_wt S h.wt h1, prodInv_wt h.prod h1, closeRet_wt S h.wt h.closeRet h1⟩
  · exact ⟨wtInv_worker S h.wt h1, prodInv_worker h.prod h1, closeRet_worker h.closeRet h1⟩

theorem inv1_init (S : CompSpec cfg.comp enc) {k0 : κ} {os0 : OS} (script : List Api)
    (h0 : S.Inv k0 os0 []) : Inv1 S (initSt k0 os0 script) := by
  refine ⟨wtInv_init S script h0, ⟨fun _ => rfl, ?_, ?_, ?_⟩, ?_⟩
  · intro i hi; simp [initSt] at hi
  · intro ⟨e, he⟩; simp [initSt] at he
  · intro hv; simp [initSt] at hv
  · intro a n hfl; simp [initSt, firstLoud] at hfl

theorem inv1_reachable (S : CompSpec cfg.comp enc) {k0 : κ} {os0 : OS} {script : List Api}
    (h0 : S.Inv k0 os0 []) {s : St κ} (hr : (machine cfg k0 os0 script).Reachable s) : Inv1 S s :=
  Machine.invariant (machine cfg k0 os0 script) (Inv1 S) (inv1_init S script h0)
    (fun _ _ _ _ hi hs => inv1_step S hi hs) s hr

end Osmium.WriterSM
