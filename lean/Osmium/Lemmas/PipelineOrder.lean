/-
The central invariant of C05 (queue-of-futures order) over ALL scheduler steps of the pipeline
machine, and its local parts.
-/
import Osmium.Lemmas.PipelineOrderC
import Osmium.Lemmas.PipelineOrderD
import Osmium.Lemmas.PipelineOrderF

namespace Osmium.Pipeline

open Osmium.Mon

variable {α : Type} [DecidableEq α]

/- NOTE on `hb : c.blobFault = none`: a blob whose decoding throws in a pool worker delivers an
   exception instead of its objects, so the objects of that block drop out of the equation (the
   parser has advanced past them); every other fault (decompressor read/close, parser exception,
   inline blob decode) leaves the equation intact because the failing stage stops advancing. -/

/-- Parser side (holds in EVERY reachable state, also after faults and shutdown): everything the
    parser thread ever handed to push() on the osmdata queue (`outq.called`, in call order, each
    future counted with the value it is going to have), then what it is about to push, its own
    buffer and the not yet parsed rest of the file are the projected file. -/
theorem parser_side (c : Cfg α) (hb : c.blobFault = none) (s : State α) (h : (machine c).Reachable s) :
    vals s s.outq.called ++ pend s ++ upstream c s = deliver c :=
  Order.parser_side' c hb s h

/-- Consumer side: what the caller got, the back buffers and the future read() holds are what
    the futures popped from the osmdata queue deliver. -/
theorem consumer_side (c : Cfg α) (s : State α) (h : (machine c).Reachable s) :
    s.delivered ++ s.back.flatten ++ holding s = vals s (s.outq.popped.map (fun p => p.2)) :=
  Order.consumer_side' c s h

/-- THE central invariant (C05 `queue_of_futures_order`): while the osmdata queue is in use,
    delivered ++ in transit (back buffers oldest first, held future, queue front first with
    pending futures counted by their block, future being pushed, value about to be pushed)
    ++ parser buffer ++ projected rest of the file = deliver file. -/
theorem queue_of_futures_order (c : Cfg α) (hb : c.blobFault = none) (s : State α) (h : (machine c).Reachable s)
    (hu : s.outq.inUse = true) :
    s.delivered ++ inTransit s ++ upstream c s = deliver c := by
  have hp := parser_side c hb s h
  have hc := consumer_side c s h
  have hA := (Order.invA c s h).called
  have hq := Order.q_prefix c.outqC s.outq (Q.reachable_outq c s h) hu tP (fun x hx => (hA x hx).1)
  rw [← hq, Order.vals_append, Order.vals_append, ← hc] at hp
  rw [← hp]
  simp only [inTransit, List.append_assoc]

/-- In every reachable state (also after close(), errors, shutdown) what was delivered plus the
    back buffers is a PREFIX of the specification: nothing is duplicated, reordered or invented. -/
theorem delivered_prefix (c : Cfg α) (hb : c.blobFault = none) (s : State α) (h : (machine c).Reachable s) :
    (s.delivered ++ s.back.flatten) <+: deliver c := by
  have hp := parser_side c hb s h
  have hc := consumer_side c s h
  obtain ⟨rest, hrest⟩ := Order.popped_prefix c (fun s hs x hx => ((Order.invA c s hs).called x hx).1) s h
  rw [← hrest, Order.vals_append, ← hc] at hp
  exact ⟨holding s ++ vals s rest ++ pend s ++ upstream c s, by rw [← hp]; simp only [List.append_assoc]⟩

end Osmium.Pipeline
