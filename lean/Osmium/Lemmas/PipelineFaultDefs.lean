/-
C05 under a blob-decode fault (`c.blobFault = some b`): definitions.  No proofs here.

A PBF blob whose decoding throws takes two different routes through the pipeline:
  * decoded INLINE by the parser thread (`usePool = false`): the parser thread itself catches the
    exception, stops before the blob and pushes the exception; nothing after the blob is ever
    produced — the order equation against `deliver c` stays intact;
  * decoded IN A POOL WORKER (`usePool = true`): the future of that blob gets the exception instead
    of a buffer while the parser thread goes on submitting the following blobs; the objects of the
    faulty blob are in nobody's hands any more ("lost"), the objects of the later blobs are queued
    BEHIND the exception.  read() rethrows the exception when it reaches that future and never pops
    again, so what the caller gets is a prefix of the objects BEFORE the faulty blob.
-/
import Osmium.Lemmas.PipelineDefs

namespace Osmium.Pipeline

variable {α : Type}

/-- index (in `c.file`) of the first object of blob `k`: 0 for the first blob, else the end of blob k-1 -/
def blobStart (c : Cfg α) : Nat → Nat
  | 0 => 0
  | k + 1 => nth c.blobEnd k

/-- the blob whose decoding throws (in a worker or inline), provided the file has such a blob -/
def faultyBlob (c : Cfg α) : Option Nat :=
  match c.blobFault with
  | some b => if c.pbf = true ∧ b < c.blobEnd.length then some b else none
  | none => none

/-- the blob whose decoding throws IN A POOL WORKER: its objects drop out of the pipeline while the
    parser goes on with the following blobs -/
def lostBlob (c : Cfg α) : Option Nat :=
  match c.blobFault with
  | some b => if c.pbf = true ∧ c.usePool = true ∧ b < c.blobEnd.length then some b else none
  | none => none

/-- Spec with a faulty blob: the objects of the blobs BEFORE the faulty blob, projected
    (`deliver c` truncated where the faulty blob starts); `deliver c` if no blob is faulty. -/
def deliverBefore (c : Cfg α) : List α :=
  match faultyBlob c with
  | some b => proj c (c.file.take (blobStart c b))
  | none => deliver c

/-- The projected file minus the objects of the blob that is lost in a pool worker;
    `deliver c` if there is no such blob (no blob fault, or blobs decoded inline). -/
def deliverSkipping (c : Cfg α) : List α :=
  match lostBlob c with
  | some b => proj c (c.file.take (blobStart c b)) ++ proj c (c.file.drop (nth c.blobEnd b))
  | none => deliver c

/-- has the parser thread submitted the lost blob already (`blob` = number of blobs it has handled) -/
def lostPassed (c : Cfg α) (blob : Nat) : Bool :=
  match lostBlob c with
  | some b => decide (b < blob)
  | none => false

/-- what the pipeline still accounts for when the parser has handled `blob` blobs: the whole
    projected file until the lost blob has been submitted, the projected file minus that blob
    afterwards -/
def specAt (c : Cfg α) (blob : Nat) : List α :=
  if lostPassed c blob = true then deliverSkipping c else deliver c

/-- the part of the file the parser has not handled yet, WITHOUT the objects of the lost blob if
    that blob is still ahead -/
def restSkipping (c : Cfg α) (s : State α) : List α :=
  match lostBlob c with
  | some b =>
    if s.blob ≤ b then seg c s.next (blobStart c b) ++ c.file.drop (nth c.blobEnd b)
    else c.file.drop s.next
  | none => c.file.drop s.next

/-- `upstream` without the objects of the lost blob -/
def upstreamSkipping (c : Cfg α) (s : State α) : List α :=
  s.nested.flatten ++ s.cur ++ proj c (restSkipping c s)

/-- what the parser thread handed to push() of the osmdata queue and the consumer has not popped:
    still queued, in flight inside push(), or discarded (drained by shutdown() / refused by a push()
    that found the queue shut down) -/
def unpopped (s : State α) : List (QueueSM.Item Nat) := s.outq.called.drop s.outq.popped.length

/-- the future the parser thread has created for a submitted blob and not yet handed to push() -/
def pendItems (s : State α) : List (QueueSM.Item Nat) :=
  match s.ppc with
  | .pushFut id _ => [(tP, id)]
  | _ => []

/-- the futures of the osmdata queue in creation order: the k-th has id 2k+1, producer = parser thread -/
def idsUpTo (n : Nat) : List (QueueSM.Item Nat) := (List.range n).map fun k => (tP, 2 * k + 1)

end Osmium.Pipeline
