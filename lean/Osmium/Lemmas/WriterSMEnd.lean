/-
Lemmas for C08, part 6: for a writer whose encoders never yield the empty string (the
repaired writer, fix fb588a3) the only end-of-data markers ever pushed are the one of
do_close (last push ever) and the one of the catch block (after an exception item).  Core-only.
-/
import Osmium.Lemmas.WriterSMLive

namespace Osmium.WriterSM

open Osmium.Mon

variable {κ : Type} {cfg : Cfg κ}

/-! ## lists of results -/

def clean (l : List Res) : Prop := Res.data [] ∉ l

/-- every end-of-data marker comes after an exception item -/
def endAfterExc (l : List Res) : Prop :=
  ∀ pre post, l = pre ++ Res.data [] :: post → ∃ e, Res.exc e ∈ pre

theorem snoc_split {α : Type} {l pre post : List α} {x y : α} (h : l ++ [x] = pre ++ y :: post) :
    (post = [] ∧ l = pre ∧ x = y) ∨ (∃ post', post = post' ++ [x] ∧ l = pre ++ y :: post') := by
  rcases List.eq_nil_or_concat post with rfl | ⟨p, b, rfl⟩
  · left
    have := List.append_inj' (s₁ := l) (t₁ := [x]) (s₂ := pre) (t₂ := [y]) h rfl
    exact ⟨rfl, this.1, by simpa using this.2⟩
  · right
    rw [List.concat_eq_append] at h ⊢
    have h' : l ++ [x] = (pre ++ y :: p) ++ [b] := by simpa using h
    have := List.append_inj' h' rfl
    obtain ⟨h1, h2⟩ := this
    simp at h2
    exact ⟨p, by rw [h2], h1⟩

theorem clean_endAfterExc {l : List Res} (h : clean l) : endAfterExc l := by
  intro pre post hl
  exact absurd (by rw [hl]; simp) h

theorem clean_snoc {l : List Res} {x : Res} (h : clean l) (hx : x ≠ Res.data []) : clean (l ++ [x]) := by
  intro hm
  rcases List.mem_append.mp hm with hm | hm
  · exact h hm
  · simp at hm; exact hx hm.symm

theorem endAfterExc_snoc_good {l : List Res} {x : Res} (h : endAfterExc l) (hx : x ≠ Res.data []) :
    endAfterExc (l ++ [x]) := by
  intro pre post hl
  rcases snoc_split hl with ⟨_, _, hxy⟩ | ⟨p, _, hl'⟩
  · exact absurd hxy hx
  · exact h pre p hl'

theorem endAfterExc_snoc_end {l : List Res} (h : endAfterExc l) (he : ∃ e, Res.exc e ∈ l) :
    endAfterExc (l ++ [Res.data []]) := by
  intro pre post hl
  rcases snoc_split hl with ⟨_, hpre, _⟩ | ⟨p, _, hl'⟩
  · rw [← hpre]; exact he
  · exact h pre p hl'

/-- two ways of cutting a list at its FIRST end marker agree -/
theorem first_end_unique : ∀ (pre w : List Res) (tail : List Res), clean pre → clean w →
    pre ++ [Res.data []] = w ++ Res.data [] :: tail → pre = w ∧ tail = [] := by
  intro pre
  induction pre with
  | nil =>
    intro w tail _ hw h
    cases w with
    | nil => simp at h; exact ⟨rfl, h⟩
    | cons y ys => simp at h
  | cons x xs ih =>
    intro w tail hp hw h
    cases w with
    | nil =>
      simp at h
      exact absurd (by rw [h.1]; simp) hp
    | cons y ys =>
      simp at h
      obtain ⟨rfl, h⟩ := h
      have := ih ys tail (fun hm => hp (List.mem_cons_of_mem _ hm)) (fun hm => hw (List.mem_cons_of_mem _ hm))
        (by simpa using h)
      exact ⟨by rw [this.1], this.2⟩

/-! ## shape of the code w.r.t. end markers -/

def goodUntilClosed : List Instr → Bool
  | [] => true
  | .setClosed :: _ => true
  | .push it :: rest => it.good && goodUntilClosed rest
  | _ :: rest => goodUntilClosed rest

/-- after `m_status = closed` comes exactly the push of the end marker and the final wait -/
def closeTail : List Instr → Bool
  | [] => true
  | .setClosed :: rest => rest == [.push endItem, .futGet] || rest == [.push endItem, .join]
  | _ :: rest => closeTail rest

/-- nothing is pushed any more by this code when m_status is not okay -/
def quietCode : List Instr → Bool
  | [] => true
  | .chk :: _ => true
  | .closeChk :: _ => true
  | .futGet :: _ => true
  | .join :: _ => true
  | .ret :: _ => true
  | .rethrow _ :: _ => true
  | _ => false

def finLike : Instr → Bool
  | .futGet => true
  | .join => true
  | .rethrow _ => true
  | _ => false

def goodList (l : List Instr) : Prop :=
  ∀ i ∈ l, (∃ it, i = .push it ∧ it.good = true) ∨ (∃ x, i = .throw x)

theorem goodList_encInstrs {e : Enc} (h : e.good = true) : goodList (encInstrs e) := by
  intro i hi
  unfold encInstrs at hi
  rcases List.mem_append.mp hi with hi | hi
  · obtain ⟨it, hit, rfl⟩ := List.mem_map.mp hi
    exact .inl ⟨it, rfl, by simpa [Enc.good] using (List.all_eq_true.mp h) it hit⟩
  · cases hth : e.throws <;> rw [hth] at hi <;> simp at hi
    exact .inr ⟨_, hi⟩

theorem goodList_optEnc {e : Option Enc} (h : optGood e = true) : goodList (optEnc e) := by
  cases e with
  | none => intro i hi; simp [optEnc] at hi
  | some e => exact goodList_encInstrs h

theorem goodUntilClosed_append {l r : List Instr} (h : goodList l) :
    goodUntilClosed (l ++ r) = goodUntilClosed r := by
  induction l with
  | nil => rfl
  | cons i l ih =>
    have hi := h i (by simp)
    have hl : goodList l := fun j hj => h j (List.mem_cons_of_mem _ hj)
    rcases hi with ⟨it, rfl, hg⟩ | ⟨x, rfl⟩ <;> simp [goodUntilClosed, ih hl, *]

theorem closeTail_append {l r : List Instr} (h : encLike l) : closeTail (l ++ r) = closeTail r := by
  induction l with
  | nil => rfl
  | cons i l ih =>
    obtain ⟨hi, hl⟩ := encLike_cons h
    rcases hi with ⟨it, rfl⟩ | ⟨x, rfl⟩ <;> simp [closeTail, ih hl]

theorem goodUntilClosed_callCode {a : Api} (h : a.good = true) : goodUntilClosed (callCode a) = true := by
  cases a with
  | put ib e =>
    simp only [Api.good, Bool.and_eq_true] at h
    simp only [callCode, List.cons_append, List.nil_append, List.append_assoc, goodUntilClosed]
    rw [goodUntilClosed_append (goodList_optEnc h.1)]
    simp only [List.cons_append, goodUntilClosed]
    rw [goodUntilClosed_append (goodList_encInstrs h.2)]
    rfl
  | item f =>
    cases f with
    | none => rfl
    | some e =>
      simp only [Api.good, optGood] at h
      simp only [callCode, List.cons_append, List.nil_append, List.append_assoc, goodUntilClosed]
      rw [goodUntilClosed_append (goodList_encInstrs h)]
      rfl
  | flush ib =>
    simp only [Api.good] at h
    simp only [callCode, List.cons_append, List.nil_append, List.append_assoc, goodUntilClosed]
    rw [goodUntilClosed_append (goodList_optEnc h)]
    rfl
  | close ib e =>
    simp only [Api.good, Bool.and_eq_true] at h
    simp only [callCode, List.cons_append, List.nil_append, List.append_assoc, goodUntilClosed]
    rw [goodUntilClosed_append (goodList_optEnc h.1), goodUntilClosed_append (goodList_encInstrs h.2)]
    rfl
  | dtor ib e =>
    simp only [Api.good, Bool.and_eq_true] at h
    simp only [callCode, List.cons_append, List.nil_append, List.append_assoc, goodUntilClosed]
    rw [goodUntilClosed_append (goodList_optEnc h.1), goodUntilClosed_append (goodList_encInstrs h.2)]
    rfl

theorem closeTail_callCode (a : Api) : closeTail (callCode a) = true := by
  cases a with
  | put ib e =>
    simp only [callCode, List.cons_append, List.nil_append, List.append_assoc, closeTail]
    rw [closeTail_append (encLike_optEnc ib)]
    simp only [List.cons_append, closeTail]
    rw [closeTail_append (encLike_encInstrs e)]
    rfl
  | item f =>
    cases f with
    | none => rfl
    | some e =>
      simp only [callCode, List.cons_append, List.nil_append, List.append_assoc, closeTail]
      rw [closeTail_append (encLike_encInstrs e)]
      rfl
  | flush ib =>
    simp only [callCode, List.cons_append, List.nil_append, List.append_assoc, closeTail]
    rw [closeTail_append (encLike_optEnc ib)]
    rfl
  | close ib e =>
    simp only [callCode, List.cons_append, List.nil_append, List.append_assoc, closeTail]
    rw [closeTail_append (encLike_optEnc ib), closeTail_append (encLike_encInstrs e)]
    decide
  | dtor ib e =>
    simp only [callCode, List.cons_append, List.nil_append, List.append_assoc, closeTail]
    rw [closeTail_append (encLike_optEnc ib), closeTail_append (encLike_encInstrs e)]
    decide

theorem quietCode_callCode (a : Api) : quietCode (callCode a) = true := by
  cases a with
  | item f => cases f <;> rfl
  | _ => rfl

/-! ## the invariant -/

/-- the three phases of m_status and what they say about end markers pushed so far and about
    the pushes still to come -/
structure EndInv (s : St κ) : Prop where
  scriptGood : ∀ a ∈ s.script, a.good = true
  tail : closeTail s.code = true
  okay : s.status = .okay → clean s.pushed ∧ goodUntilClosed s.code = true
  closed : s.status = .closed →
    (clean s.pushed ∧ ∃ f, finLike f = true ∧ s.code = [.push endItem, f]) ∨
    ((∃ pre, s.pushed = pre ++ [Res.data []] ∧ clean pre) ∧ quietCode s.code = true)
  error : s.status = .error → endAfterExc s.pushed ∧
    ((∃ e f, finLike f = true ∧ s.code = [.push (excItem e), .push endItem, f]) ∨
     ((∃ e, Res.exc e ∈ s.pushed) ∧ ∃ f, finLike f = true ∧ s.code = [.push endItem, f]) ∨
     quietCode s.code = true)

theorem quiet_of_fin {f : Instr} (h : finLike f = true) : quietCode [f] = true := by
  cases f <;> simp [finLike] at h <;> rfl

theorem good_res {it : Item} (h : it.good = true) : it.res ≠ Res.data [] := by
  intro h0; simp [Item.good, h0] at h

theorem endInv_prod (hg : cfg.hdrEnc.good = true) {s s' : St κ} (hp : ProdInv s) (h : EndInv s)
    (hs : ProdStep cfg s s') : EndInv s' := by
  obtain ⟨e0, e1, e2, e3, e4⟩ := h
  -- a head that is neither a push nor "quiet" can only run while m_status is okay
  have okayOnly : ∀ (i : Instr) (rest : List Instr), s.code = i :: rest → isPush i = false →
      quietCode (i :: rest) = false → s.status = .okay := by
    intro i rest hcode hi hq
    rcases hst : s.status with _ | _ | _
    · rfl
    · obtain ⟨_, h⟩ := e4 hst
      rcases h with ⟨e, f, _, hc⟩ | ⟨_, f, _, hc⟩ | hc
      · rw [hcode] at hc; simp at hc; rw [hc.1] at hi; cases hi
      · rw [hcode] at hc; simp at hc; rw [hc.1] at hi; cases hi
      · rw [hcode, hq] at hc; cases hc
    · rcases e3 hst with ⟨_, f, _, hc⟩ | ⟨_, hc⟩
      · rw [hcode] at hc; simp at hc; rw [hc.1] at hi; cases hi
      · rw [hcode, hq] at hc; cases hc
  -- pop a plain head in status okay (nothing pushed)
  have popOkay : ∀ (i : Instr) (rest : List Instr), s.code = i :: rest → isPush i = false →
      quietCode (i :: rest) = false → goodUntilClosed (i :: rest) = goodUntilClosed rest →
      closeTail (i :: rest) = closeTail rest →
      ∀ (s1 : St κ), s1.code = rest → s1.status = s.status → s1.pushed = s.pushed →
      s1.script = s.script → EndInv s1 := by
    intro i rest hcode hi hq f1 f2 s1 c1 c2 c3 c4
    have hst := okayOnly i rest hcode hi hq
    refine ⟨by rw [c4]; exact e0, by rw [c1, ← f2, ← hcode]; exact e1, ?_, ?_, ?_⟩
    · intro _
      obtain ⟨a, b⟩ := e2 hst
      exact ⟨by rw [c3]; exact a, by rw [c1, ← f1, ← hcode]; exact b⟩
    · intro h; rw [c2, hst] at h; cases h
    · intro h; rw [c2, hst] at h; cases h
  -- the code becomes `code'` (quiet), nothing pushed, status unchanged
  have toQuiet : ∀ (i : Instr) (rest : List Instr) (code' : List Instr), s.code = i :: rest →
      isPush i = false → quietCode code' = true → closeTail code' = true →
      (s.status = .okay → goodUntilClosed code' = true) →
      ∀ (s1 : St κ), s1.code = code' → s1.status = s.status → s1.pushed = s.pushed →
      (∀ a ∈ s1.script, a.good = true) → EndInv s1 := by
    intro i rest code' hcode hi hq hct hgu s1 c1 c2 c3 c4
    refine ⟨c4, by rw [c1]; exact hct, ?_, ?_, ?_⟩
    · intro hst
      rw [c2] at hst
      exact ⟨by rw [c3]; exact (e2 hst).1, by rw [c1]; exact hgu hst⟩
    · intro hst
      rw [c2] at hst
      rcases e3 hst with ⟨_, f, _, hc⟩ | ⟨hpre, _⟩
      · rw [hcode] at hc; simp at hc; rw [hc.1] at hi; cases hi
      · exact .inr ⟨by rw [c3]; exact hpre, by rw [c1]; exact hq⟩
    · intro hst
      rw [c2] at hst
      obtain ⟨hea, h⟩ := e4 hst
      refine ⟨by rw [c3]; exact hea, ?_⟩
      rcases h with ⟨e, f, _, hc⟩ | ⟨_, f, _, hc⟩ | _
      · rw [hcode] at hc; simp at hc; rw [hc.1] at hi; cases hi
      · rw [hcode] at hc; simp at hc; rw [hc.1] at hi; cases hi
      · exact .inr (.inr (by rw [c1]; exact hq))
  -- a push
  have pushed : ∀ (it : Item) (rest : List Instr), s.code = .push it :: rest →
      ∀ (s1 : St κ), s1.code = rest → s1.status = s.status → s1.pushed = s.pushed ++ [it.res] →
      s1.script = s.script → EndInv s1 := by
    intro it rest hcode s1 c1 c2 c3 c4
    have hct : closeTail rest = true := by
      have := e1; rw [hcode] at this; simpa [closeTail] using this
    refine ⟨by rw [c4]; exact e0, by rw [c1]; exact hct, ?_, ?_, ?_⟩
    · intro hst
      rw [c2] at hst
      obtain ⟨a, b⟩ := e2 hst
      rw [hcode] at b
      simp only [goodUntilClosed, Bool.and_eq_true] at b
      exact ⟨by rw [c3]; exact clean_snoc a (good_res b.1), by rw [c1]; exact b.2⟩
    · intro hst
      rw [c2] at hst
      rcases e3 hst with ⟨hcl, f, hf, hc⟩ | ⟨_, hq⟩
      · rw [hcode] at hc
        simp at hc
        obtain ⟨rfl, rfl⟩ := hc
        exact .inr ⟨⟨s.pushed, by rw [c3]; rfl, hcl⟩, by rw [c1]; exact quiet_of_fin hf⟩
      · rw [hcode] at hq; cases hq
    · intro hst
      rw [c2] at hst
      obtain ⟨hea, h⟩ := e4 hst
      rcases h with ⟨e, f, hf, hc⟩ | ⟨hex, f, hf, hc⟩ | hq
      · rw [hcode] at hc
        simp at hc
        obtain ⟨rfl, rfl⟩ := hc
        refine ⟨by rw [c3]; exact endAfterExc_snoc_good hea (by simp [excItem]), ?_⟩
        exact .inr (.inl ⟨⟨e, by rw [c3]; simp [excItem]⟩, f, hf, c1⟩)
      · rw [hcode] at hc
        simp at hc
        obtain ⟨rfl, rfl⟩ := hc
        refine ⟨by rw [c3]; exact endAfterExc_snoc_end hea hex, ?_⟩
        exact .inr (.inr (by rw [c1]; exact quiet_of_fin hf))
      · rw [hcode] at hq; cases hq
  -- an exception is caught: catch code, status error
  have raise : ∀ (a : Api) (e : Err) (i : Instr) (rest : List Instr) (s0 : St κ), s.code = i :: rest →
      isPush i = false → quietCode (i :: rest) = false → s0.pushed = s.pushed → s0.script = s.script →
      EndInv (raiseInTry s0 a e) := by
    intro a e i rest s0 hcode hi hq c3 c4
    have hst := okayOnly i rest hcode hi hq
    refine ⟨by simpa [raiseInTry, c4] using e0, ?_, ?_, ?_, ?_⟩ <;> dsimp only [raiseInTry]
    · cases a <;> rfl
    · intro h; cases h
    · intro h; cases h
    · intro _
      refine ⟨by rw [c3]; exact clean_endAfterExc (e2 hst).1, .inl ?_⟩
      cases a with
      | dtor ib e' => exact ⟨e, .join, rfl, rfl⟩
      | _ => exact ⟨e, .rethrow e, rfl, rfl⟩
  cases hs with
  | call a rest hc hsc =>
    have hcode := hp.idle hc
    have ha : a.good = true := e0 a (by rw [hsc]; simp)
    refine ⟨fun b hb => e0 b (by rw [hsc]; exact List.mem_cons_of_mem _ hb), closeTail_callCode a, ?_, ?_, ?_⟩ <;>
      dsimp only
    · intro hst; exact ⟨(e2 hst).1, goodUntilClosed_callCode ha⟩
    · intro hst
      rcases e3 hst with ⟨_, f, _, hcd⟩ | ⟨hpre, _⟩
      · rw [hcode] at hcd; cases hcd
      · exact .inr ⟨hpre, quietCode_callCode a⟩
    · intro hst
      obtain ⟨hea, h⟩ := e4 hst
      refine ⟨hea, .inr (.inr (quietCode_callCode a))⟩
  | chkFail a rest hc hcode hst =>
    exact toQuiet _ rest [] hcode rfl rfl rfl (fun _ => rfl) _ rfl rfl rfl e0
  | chkOk a rest hc hcode hst =>
    have hct : closeTail rest = true := by have := e1; rw [hcode] at this; simpa [closeTail] using this
    refine ⟨e0, hct, ?_, ?_, ?_⟩ <;> dsimp only
    · intro _
      obtain ⟨x, y⟩ := e2 hst
      rw [hcode] at y
      exact ⟨x, by simpa [goodUntilClosed] using y⟩
    · intro h; rw [hst] at h; cases h
    · intro h; rw [hst] at h; cases h
  | closeChkOk a rest hc hcode hst =>
    have hct : closeTail rest = true := by have := e1; rw [hcode] at this; simpa [closeTail] using this
    refine ⟨e0, hct, ?_, ?_, ?_⟩ <;> dsimp only
    · intro _
      obtain ⟨x, y⟩ := e2 hst
      rw [hcode] at y
      exact ⟨x, by simpa [goodUntilClosed] using y⟩
    · intro h; rw [hst] at h; cases h
    · intro h; rw [hst] at h; cases h
  | closeChkSkip a rest hc hcode hst =>
    exact toQuiet _ rest [finalInstr a] hcode rfl (by cases a <;> rfl) (by cases a <;> rfl)
      (fun h => absurd h hst) _ rfl rfl rfl e0
  | hdrSkip a rest hc hcode hh =>
    exact popOkay _ rest hcode rfl rfl rfl rfl _ rfl rfl rfl rfl
  | hdrDo a rest hc hcode hh =>
    have hst := okayOnly .hdr rest hcode rfl rfl
    have hass : encInstrs cfg.hdrEnc ++ [Instr.setHdr] ++ rest = encInstrs cfg.hdrEnc ++ (.setHdr :: rest) := by
      simp
    refine ⟨e0, ?_, ?_, ?_, ?_⟩ <;> dsimp only
    · rw [hass, closeTail_append (encLike_encInstrs _)]
      have := e1; rw [hcode] at this; simpa [closeTail] using this
    · intro _
      obtain ⟨x, y⟩ := e2 hst
      refine ⟨x, ?_⟩
      rw [hass, goodUntilClosed_append (goodList_encInstrs hg)]
      rw [hcode] at y; simpa [goodUntilClosed] using y
    · intro h; rw [hst] at h; cases h
    · intro h; rw [hst] at h; cases h
  | setHdr a rest hc hcode =>
    exact popOkay _ rest hcode rfl rfl rfl rfl _ rfl rfl rfl rfl
  | pollRaise a rest e hc hcode hn hv hp' => exact raise a e _ rest _ hcode rfl rfl rfl rfl
  | pollValue a rest n hc hcode hn hv hp' =>
    exact popOkay _ rest hcode rfl rfl rfl rfl _ rfl rfl rfl rfl
  | pollNothing a rest hc hcode hn =>
    exact popOkay _ rest hcode rfl rfl rfl rfl _ rfl rfl rfl rfl
  | pushDropped a rest it hc hcode hu => exact pushed it rest hcode _ rfl rfl rfl rfl
  | pushDone a rest it hc hcode hu hroom => exact pushed it rest hcode _ rfl rfl rfl rfl
  | throw a rest e hc hcode => exact raise a e _ rest _ hcode rfl rfl rfl rfl
  | setClosed a rest hc hcode =>
    have hst := okayOnly .setClosed rest hcode rfl rfl
    have hct := e1
    rw [hcode] at hct
    simp only [closeTail, Bool.or_eq_true, beq_iff_eq] at hct
    refine ⟨e0, ?_, ?_, ?_, ?_⟩ <;> dsimp only
    · rcases hct with h | h <;> rw [h] <;> rfl
    · intro h; cases h
    · intro _
      left
      refine ⟨(e2 hst).1, ?_⟩
      rcases hct with h | h
      · exact ⟨.futGet, rfl, h⟩
      · exact ⟨.join, rfl, h⟩
    · intro h; cases h
  | rethrow a rest e hc hcode =>
    exact toQuiet _ rest [] hcode rfl rfl rfl (fun _ => rfl) _ rfl rfl rfl e0
  | ret a rest hc hcode =>
    exact toQuiet _ rest [] hcode rfl rfl rfl (fun _ => rfl) _ rfl rfl rfl e0
  | futGetValid a rest o hc hcode hv hp' =>
    exact toQuiet _ rest [] hcode rfl rfl rfl (fun _ => rfl) _ rfl rfl rfl e0
  | futGetInvalid a rest hc hcode hv =>
    exact toQuiet _ rest [] hcode rfl rfl rfl (fun _ => rfl) _ rfl rfl rfl e0
  | join a rest hc hcode hw =>
    exact toQuiet _ rest [] hcode rfl rfl rfl (fun _ => rfl) _ rfl rfl rfl e0

theorem endInv_wt {s s' : St κ} (h : EndInv s) (hs : WtStep cfg s s') : EndInv s' := by
  obtain ⟨e0, e1, e2, e3, e4⟩ := h
  cases hs <;> exact ⟨e0, e1, e2, e3, e4⟩

theorem endInv_worker {s s' : St κ} (h : EndInv s) (hs : WorkerStep s s') : EndInv s' := by
  obtain ⟨e0, e1, e2, e3, e4⟩ := h
  cases hs <;> exact ⟨e0, e1, e2, e3, e4⟩

theorem endInv_init {k0 : κ} {os0 : OS} {script : List Api} (hg : ∀ a ∈ script, a.good = true) :
    EndInv (initSt k0 os0 script) := by
  refine ⟨hg, rfl, fun _ => ⟨by simp [initSt, clean], rfl⟩, ?_, ?_⟩
  · intro h; cases h
  · intro h; cases h

/-! ## the repaired writer satisfies the hypothesis -/

theorem good_repair_enc (e : Enc) : e.repair.good = true := by
  simp [Enc.repair, Enc.good, List.all_filter]

theorem good_repair_opt (e : Option Enc) : optGood (e.map Enc.repair) = true := by
  cases e with
  | none => rfl
  | some e => exact good_repair_enc e

theorem good_repair_api (a : Api) : a.repair.good = true := by
  cases a <;> simp [Api.repair, Api.good, good_repair_enc, good_repair_opt]

theorem dtor_mem_repair {script : List Api} (h : ∃ ib e, Api.dtor ib e ∈ script) :
    ∃ ib e, Api.dtor ib e ∈ script.map Api.repair := by
  obtain ⟨ib, e, hm⟩ := h
  exact ⟨ib.map Enc.repair, e.repair, List.mem_map.mpr ⟨_, hm, rfl⟩⟩

/-! ## guards: with both paths guarded the Writer is the repaired writer -/

theorem repairIf_true : Enc.repairIf true = Enc.repair := by funext e; rfl

theorem guard_tt (a : Api) : Api.guard ⟨true, true⟩ a = a.repair := by
  cases a <;> simp [Api.guard, Api.repair, repairIf_true]

theorem guardedMachine_tt {κ : Type} (cfg : Cfg κ) (k0 : κ) (os0 : OS) (script : List Api) :
    guardedMachine ⟨true, true⟩ cfg k0 os0 script = repairedMachine cfg k0 os0 script := by
  have : script.map (Api.guard ⟨true, true⟩) = script.map Api.repair :=
    List.map_congr_left fun a _ => guard_tt a
  simp [guardedMachine, repairedMachine, this]

theorem dtor_mem_guard {g : Guards} {script : List Api} (h : ∃ ib e, Api.dtor ib e ∈ script) :
    ∃ ib e, Api.dtor ib e ∈ script.map (Api.guard g) := by
  obtain ⟨ib, e, hm⟩ := h
  exact ⟨ib.map (Enc.repairIf g.doWrite), e.repair, List.mem_map.mpr ⟨_, hm, rfl⟩⟩

end Osmium.WriterSM
