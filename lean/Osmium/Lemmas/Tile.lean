/-
Helper lemmas for C18 (tile arithmetic, lean/Osmium/Model/Tile.lean).

The tile number is characterised as `tileSpec N r = max 0 (min ⌊r⌋ (N-1))` of the scaled
coordinate r (N = 2^zoom tiles); range / monotonicity / nesting are proved for `tileSpec`, and
both code variants (cast-then-clamp with its UB side condition, clamp-then-cast) are shown to
compute it.
-/
import Osmium.Model.Tile
import Mathlib.Data.Rat.Floor
import Mathlib.Algebra.Order.Field.Power
import Mathlib.Tactic.Linarith
import Mathlib.Tactic.Ring
import Mathlib.Tactic.FieldSimp
import Mathlib.Tactic.Positivity
import Mathlib.Tactic.NormNum

namespace Osmium.Tile

theorem rfloor_eq (q : Rat) : q.floor = ⌊q⌋ := rfl

/-! ### `id` is a rounding function -/

theorem id_roundSpec : RoundSpec (fun q => q) :=
  ⟨fun _ _ h => h, fun _ => rfl, fun _ _ => rfl, fun _ _ => rfl⟩

/-! ### tileSpec -/

/-- the tile number as a function of the scaled coordinate; N tiles -/
def tileSpec (N : Int) (r : Rat) : Int := max 0 (min ⌊r⌋ (N - 1))

theorem tileSpec_range {N : Int} (hN : 1 ≤ N) (r : Rat) : 0 ≤ tileSpec N r ∧ tileSpec N r < N := by
  unfold tileSpec; omega

theorem tileSpec_mono (N : Int) {a b : Rat} (h : a ≤ b) : tileSpec N a ≤ tileSpec N b := by
  have := Int.floor_mono h
  unfold tileSpec; omega

theorem floor_two_mul_div (r : Rat) : ⌊2 * r⌋ / 2 = ⌊r⌋ := by
  have h1 : ((⌊r⌋ : Int) : Rat) ≤ r := Int.floor_le r
  have h2 : r < (⌊r⌋ : Rat) + 1 := Int.lt_floor_add_one r
  have h3 : 2 * ⌊r⌋ ≤ ⌊2 * r⌋ := by
    apply Int.le_floor.2; push_cast; linarith
  have h4 : ⌊2 * r⌋ < 2 * ⌊r⌋ + 2 := by
    apply Int.floor_lt.2; push_cast; linarith
  omega

theorem tileSpec_nest {N : Int} (hN : 1 ≤ N) (r : Rat) : tileSpec (2 * N) (2 * r) / 2 = tileSpec N r := by
  have := floor_two_mul_div r
  unfold tileSpec; omega

theorem tileSpec_of_neg {N : Int} (_hN : 1 ≤ N) {r : Rat} (h : r < 0) : tileSpec N r = 0 := by
  have : ⌊r⌋ < 0 := Int.floor_lt.2 (by simpa using h)
  unfold tileSpec; omega

theorem tileSpec_of_ge {N : Int} (hN : 1 ≤ N) {r : Rat} (h : ((N - 1 : Int) : Rat) ≤ r) : tileSpec N r = N - 1 := by
  have : N - 1 ≤ ⌊r⌋ := Int.le_floor.2 h
  unfold tileSpec; omega

theorem tileSpec_small {N : Int} (_hN : 1 ≤ N) {r : Rat} (_h1 : -1 < r) (h2 : r < 1) : tileSpec N r = 0 := by
  have a : ⌊r⌋ < 1 := Int.floor_lt.2 (by simpa using h2)
  unfold tileSpec; omega

/-! ### trunc -/

theorem trunc_of_nonneg {q : Rat} (h : 0 ≤ q) : trunc q = ⌊q⌋ := by
  simp [trunc, h, rfloor_eq]

theorem trunc_of_neg {q : Rat} (h : q < 0) : trunc q = -⌊-q⌋ := by
  simp [trunc, not_le.2 h, rfloor_eq]

theorem trunc_nonneg {q : Rat} (h : 0 ≤ q) : 0 ≤ trunc q := by
  rw [trunc_of_nonneg h]; exact Int.floor_nonneg.2 h

theorem trunc_nonpos {q : Rat} (h : q < 0) : trunc q ≤ 0 := by
  rw [trunc_of_neg h]
  have : 0 ≤ ⌊-q⌋ := Int.floor_nonneg.2 (by linarith)
  omega

theorem floor_le_trunc (q : Rat) : ⌊q⌋ ≤ trunc q := by
  by_cases h : 0 ≤ q
  · rw [trunc_of_nonneg h]
  · have h' : q < 0 := not_le.1 h
    rw [trunc_of_neg h']
    have : -q < (⌊-q⌋ : Rat) + 1 := Int.lt_floor_add_one _
    have h2 : ((⌊-q⌋ : Int) : Rat) ≤ -q := Int.floor_le _
    have : ⌊q⌋ ≤ -⌊-q⌋ := by
      apply Int.floor_le_iff.2; push_cast; linarith
    exact this

theorem trunc_mono {a b : Rat} (h : a ≤ b) : trunc a ≤ trunc b := by
  by_cases ha : 0 ≤ a
  · have hb : 0 ≤ b := le_trans ha h
    rw [trunc_of_nonneg ha, trunc_of_nonneg hb]; exact Int.floor_mono h
  · have ha' : a < 0 := not_le.1 ha
    by_cases hb : 0 ≤ b
    · exact le_trans (trunc_nonpos ha') (trunc_nonneg hb)
    · have hb' : b < 0 := not_le.1 hb
      rw [trunc_of_neg ha', trunc_of_neg hb']
      have : ⌊-b⌋ ≤ ⌊-a⌋ := Int.floor_mono (by linarith)
      omega

theorem trunc_intCast (n : Int) : trunc (n : Rat) = n := by
  by_cases h : 0 ≤ n
  · rw [trunc_of_nonneg (by exact_mod_cast h)]; exact Int.floor_intCast n
  · have h' : ((n : Int) : Rat) < 0 := by exact_mod_cast not_le.1 h
    rw [trunc_of_neg h']
    have : ⌊-(n : Rat)⌋ = -n := by
      have : (-(n : Rat)) = ((-n : Int) : Rat) := by push_cast; ring
      rw [this]; exact Int.floor_intCast _
    omega

/-- clamping the truncated value = the spec -/
theorem clamp_trunc {N : Int} (hN : 1 ≤ N) (q : Rat) : clamp (trunc q) 0 (N - 1) = tileSpec N q := by
  by_cases h : 0 ≤ q
  · rw [trunc_of_nonneg h]; unfold clamp tileSpec
    have := Int.floor_nonneg.2 h
    split_ifs <;> omega
  · have h' : q < 0 := not_le.1 h
    have := trunc_nonpos h'
    rw [tileSpec_of_neg hN h']
    unfold clamp
    split_ifs <;> omega

/-! ### EVal order -/

theorem EVal.le_iff (v w : EVal) : v ≤ w ↔ EVal.le v w := Iff.rfl

@[simp] theorem EVal.fin_le_fin (a b : Rat) : (EVal.fin a ≤ EVal.fin b) ↔ a ≤ b := by
  rw [EVal.le_iff]; simp [EVal.le]

theorem dblOverflow_pos : (0 : Rat) < dblOverflow := pow_pos (by norm_num) _

theorem one_le_dblOverflow : (1 : Rat) ≤ dblOverflow :=
  one_le_pow₀ (M₀ := Rat) (a := 2) (n := 1024) (by norm_num)

theorem dblOverflow_eq : dblOverflow = 2 * (2 : Rat) ^ (1023 : Nat) := pow_succ' 2 1023

-- from here on the threshold is opaque (nothing may try to evaluate 2^1024)
attribute [local irreducible] dblOverflow

theorem flr_ne_nan (rnd : Rat → Rat) (q : Rat) : flr rnd q ≠ .nan := by
  unfold flr; simp only; split_ifs <;> simp

theorem flr_mono {rnd : Rat → Rat} (hs : RoundSpec rnd) {a b : Rat} (h : a ≤ b) : flr rnd a ≤ flr rnd b := by
  have hr := hs.mono a b h
  have hp := dblOverflow_pos
  unfold flr; simp only
  split_ifs <;> simp_all [EVal.le_iff, EVal.le] <;> linarith

theorem EVal.le_pinf {v : EVal} (h : v ≠ .nan) : v ≤ .pinf := by
  cases v <;> simp_all [EVal.le_iff, EVal.le]

theorem EVal.ninf_le {v : EVal} (h : v ≠ .nan) : EVal.ninf ≤ v := by
  cases v <;> simp_all [EVal.le_iff, EVal.le]

theorem addC_mono {rnd : Rat → Rat} (hs : RoundSpec rnd) (c : Rat) {v w : EVal} (h : v ≤ w) :
    addC rnd v c ≤ addC rnd w c := by
  cases v <;> cases w <;> simp_all [EVal.le_iff, EVal.le, addC]
  · exact (EVal.le_iff _ _).1 (flr_mono hs (by linarith))
  · exact (EVal.le_iff _ _).1 (EVal.le_pinf (flr_ne_nan _ _))
  · exact (EVal.le_iff _ _).1 (EVal.ninf_le (flr_ne_nan _ _))

theorem subC_anti {rnd : Rat → Rat} (hs : RoundSpec rnd) (c : Rat) {v w : EVal} (h : v ≤ w) :
    subC rnd c w ≤ subC rnd c v := by
  cases v <;> cases w <;> simp_all [EVal.le_iff, EVal.le, subC]
  · exact (EVal.le_iff _ _).1 (flr_mono hs (by linarith))
  · exact (EVal.le_iff _ _).1 (EVal.ninf_le (flr_ne_nan _ _))
  · exact (EVal.le_iff _ _).1 (EVal.le_pinf (flr_ne_nan _ _))

theorem divC_mono {rnd : Rat → Rat} (hs : RoundSpec rnd) {e : Rat} (he : 0 < e) {v w : EVal} (h : v ≤ w) :
    divC rnd v e ≤ divC rnd w e := by
  cases v <;> cases w <;> simp_all [EVal.le_iff, EVal.le, divC]
  · exact (EVal.le_iff _ _).1 (flr_mono hs (div_le_div_of_nonneg_right h he.le))
  · exact (EVal.le_iff _ _).1 (EVal.le_pinf (flr_ne_nan _ _))
  · exact (EVal.le_iff _ _).1 (EVal.ninf_le (flr_ne_nan _ _))

/-! ### toInt32 and the two variants of the tail -/

theorem toInt32_ok_iff (v : EVal) (i : Int) :
    toInt32 v = .ok i ↔ ∃ q, v = .fin q ∧ int32Min ≤ trunc q ∧ trunc q ≤ int32Max ∧ i = trunc q := by
  cases v with
  | fin q =>
    simp only [toInt32, EVal.fin.injEq, exists_eq_left']
    split_ifs with h
    · simp only [Except.ok.injEq]; constructor
      · intro e; exact ⟨h.1, h.2, e.symm⟩
      · intro e; exact e.2.2.symm
    · constructor
      · intro e; cases e
      · intro e; exact absurd ⟨e.1, e.2.1⟩ h
  | pinf => simp [toInt32]
  | ninf => simp [toInt32]
  | nan => simp [toInt32]

theorem toInt32_error {v : EVal} {e : Err} (h : toInt32 v = .error e) : e = .ub := by
  cases v <;> simp only [toInt32] at h
  · split_ifs at h; cases h; rfl
  all_goals (cases h; rfl)

/-- the only error the tile functions can produce is UB -/
theorem tfs_error_ub {fx : Bool} {z : Nat} {v : EVal} {e : Err} (h : tileFromScaled fx z v = .error e) : e = .ub := by
  cases fx <;> simp only [tileFromScaled, Bool.false_eq_true, if_false, if_true] at h
  · cases hc : toInt32 v with
    | error e' => rw [hc] at h; cases h; exact toInt32_error hc
    | ok i => rw [hc] at h; cases h
  · exact toInt32_error h

theorem numTiles_cast (z : Nat) : ((numTilesInZoom z : Nat) : Int) = 2 ^ z := by
  simp [numTilesInZoom]

theorem one_le_two_pow (z : Nat) : (1 : Int) ≤ 2 ^ z := by
  have : (0 : Int) < 2 ^ z := by positivity
  omega

/-- the code as it is: defined exactly when the scaled coordinate is finite and its truncation
    fits int32; then it is the spec -/
theorem tfs_unfixed_iff (z : Nat) (v : EVal) (t : Int) :
    tileFromScaled false z v = .ok t ↔
      ∃ q, v = .fin q ∧ int32Min ≤ trunc q ∧ trunc q ≤ int32Max ∧ t = tileSpec (2 ^ z) q := by
  simp only [tileFromScaled, Bool.false_eq_true, if_false, numTiles_cast]
  constructor
  · intro h
    cases hc : toInt32 v with
    | error e => rw [hc] at h; cases h
    | ok i =>
      rw [hc] at h
      obtain ⟨q, rfl, h1, h2, rfl⟩ := (toInt32_ok_iff v i).1 hc
      refine ⟨q, rfl, h1, h2, ?_⟩
      have : clamp (trunc q) 0 (2 ^ z - 1) = t := by
        simpa [bind, Except.bind, pure, Except.pure] using h
      rw [← this, clamp_trunc (one_le_two_pow z)]
  · rintro ⟨q, rfl, h1, h2, rfl⟩
    have : toInt32 (.fin q) = .ok (trunc q) := (toInt32_ok_iff _ _).2 ⟨q, rfl, h1, h2, rfl⟩
    rw [this]
    simp [bind, Except.bind, pure, Except.pure, clamp_trunc (one_le_two_pow z)]

/-- what the repaired code computes, for every double -/
def clampSpec (N : Int) : EVal → Int
  | .nan => 0
  | .ninf => 0
  | .pinf => N - 1
  | .fin q => tileSpec N q

theorem two_pow_le_int32 {z : Nat} (hz : z ≤ 31) : (2 : Int) ^ z - 1 ≤ int32Max := by
  have : (2 : Int) ^ z ≤ 2 ^ 31 := pow_le_pow_right₀ (by norm_num) hz
  unfold int32Max; omega

theorem toInt32_intCast {n : Int} (h1 : int32Min ≤ n) (h2 : n ≤ int32Max) : toInt32 (.fin (n : Rat)) = .ok n := by
  apply (toInt32_ok_iff _ _).2
  exact ⟨_, rfl, by rw [trunc_intCast]; exact h1, by rw [trunc_intCast]; exact h2, (trunc_intCast n).symm⟩

/-- the repaired code: total (no UB for any double, zoom ≤ 31) and equal to the spec -/
theorem tfs_fixed {z : Nat} (hz : z ≤ 31) (v : EVal) :
    tileFromScaled true z v = .ok (clampSpec (2 ^ z) v) := by
  have hN := one_le_two_pow z
  have hmax := two_pow_le_int32 hz
  have hmin : int32Min ≤ 0 := by unfold int32Min; omega
  simp only [tileFromScaled, if_true, numTiles_cast]
  cases v with
  | nan =>
    simp only [clampD, clampSpec]
    have := toInt32_intCast (n := 0) hmin (by omega)
    simpa using this
  | ninf =>
    simp only [clampD, clampSpec]
    have := toInt32_intCast (n := 0) hmin (by omega)
    simpa using this
  | pinf =>
    simp only [clampD, clampSpec]
    exact toInt32_intCast (by omega) hmax
  | fin q =>
    simp only [clampD, clampSpec]
    split_ifs with h1 h2
    · have h1' : q < 0 := by simpa using h1
      rw [tileSpec_of_neg hN h1']
      have := toInt32_intCast (n := 0) hmin (by omega)
      simpa using this
    · rw [tileSpec_of_ge hN (le_of_lt h2)]
      exact toInt32_intCast (by omega) hmax
    · have h1' : 0 ≤ q := by simpa using h1
      have h2' : q ≤ ((2 ^ z - 1 : Int) : Rat) := not_lt.1 h2
      have hf0 : 0 ≤ ⌊q⌋ := Int.floor_nonneg.2 h1'
      have hf1 : ⌊q⌋ ≤ 2 ^ z - 1 := by
        have : ((⌊q⌋ : Int) : Rat) ≤ ((2 ^ z - 1 : Int) : Rat) := le_trans (Int.floor_le q) h2'
        exact_mod_cast this
      have ht : trunc q = ⌊q⌋ := trunc_of_nonneg h1'
      have hs : tileSpec (2 ^ z) q = ⌊q⌋ := by unfold tileSpec; omega
      apply (toInt32_ok_iff _ _).2
      exact ⟨q, rfl, by rw [ht]; omega, by rw [ht]; omega, by rw [ht, hs]⟩

theorem clampSpec_range {N : Int} (hN : 1 ≤ N) (v : EVal) : 0 ≤ clampSpec N v ∧ clampSpec N v < N := by
  cases v <;> simp only [clampSpec] <;> first | exact tileSpec_range hN _ | omega

theorem clampSpec_mono {N : Int} (hN : 1 ≤ N) {v w : EVal} (h : v ≤ w) : clampSpec N v ≤ clampSpec N w := by
  cases v <;> cases w <;> simp_all [EVal.le_iff, EVal.le, clampSpec]
  · exact tileSpec_mono N h
  · have := tileSpec_range hN ‹Rat›; omega
  · exact (tileSpec_range hN _).1

/-- monotonicity of the tail, both variants, under "both conversions are defined" -/
theorem tfs_mono (fx : Bool) (z : Nat) (hz : z ≤ 31) {v w : EVal} (h : v ≤ w) {t1 t2 : Int}
    (h1 : tileFromScaled fx z v = .ok t1) (h2 : tileFromScaled fx z w = .ok t2) : t1 ≤ t2 := by
  cases fx with
  | false =>
    obtain ⟨a, rfl, _, _, rfl⟩ := (tfs_unfixed_iff z v t1).1 h1
    obtain ⟨b, rfl, _, _, rfl⟩ := (tfs_unfixed_iff z w t2).1 h2
    exact tileSpec_mono _ (by simpa using h)
  | true =>
    rw [tfs_fixed hz] at h1 h2
    cases h1; cases h2
    exact clampSpec_mono (one_le_two_pow z) h

theorem tfs_range (fx : Bool) (z : Nat) (hz : z ≤ 31) {v : EVal} {t : Int}
    (h : tileFromScaled fx z v = .ok t) : 0 ≤ t ∧ t < 2 ^ z := by
  cases fx with
  | false =>
    obtain ⟨a, rfl, _, _, rfl⟩ := (tfs_unfixed_iff z v t).1 h
    exact tileSpec_range (one_le_two_pow z) _
  | true =>
    rw [tfs_fixed hz] at h
    cases h
    exact clampSpec_range (one_le_two_pow z) _

/-! ### rounding facts used by nesting -/

theorem pow2_m1022_le_quarter : (2 : Rat) ^ (-1022 : Int) ≤ 1 / 4 := by
  have h : (2 : Rat) ^ (-1022 : Int) ≤ (2 : Rat) ^ (-2 : Int) :=
    zpow_le_zpow_right₀ (by norm_num) (by norm_num)
  have e : (2 : Rat) ^ (-2 : Int) = 1 / 4 := by norm_num [zpow_neg]
  rw [e] at h; exact h

theorem rnd_half {rnd : Rat → Rat} (hs : RoundSpec rnd) : rnd (1 / 2) = 1 / 2 := by
  have := hs.pow2 (-1) (by norm_num)
  have e : (2 : Rat) ^ (-1 : Int) = 1 / 2 := by norm_num [zpow_neg]
  rwa [e] at this

theorem rnd_small {rnd : Rat → Rat} (hs : RoundSpec rnd) {u : Rat} (h1 : -(1 / 2) ≤ u) (h2 : u ≤ 1 / 2) :
    -(1 / 2) ≤ rnd u ∧ rnd u ≤ 1 / 2 := by
  constructor
  · have := hs.mono _ _ h1
    rw [hs.neg, rnd_half hs] at this; exact this
  · have := hs.mono _ _ h2
    rw [rnd_half hs] at this; exact this

theorem rnd_two_neg {rnd : Rat → Rat} (hs : RoundSpec rnd) {u : Rat} (h : u ≤ -(2 : Rat) ^ (-1022 : Int)) :
    rnd (2 * u) = 2 * rnd u := by
  have h' := hs.two (-u) (by linarith)
  have e : 2 * -u = -(2 * u) := by ring
  rw [e, hs.neg, hs.neg] at h'
  linarith

theorem rnd_pos_of_ge {rnd : Rat → Rat} (hs : RoundSpec rnd) {u : Rat} (h : (2 : Rat) ^ (-1022 : Int) ≤ u) :
    0 < rnd u := by
  have := hs.mono _ _ h
  rw [hs.pow2 _ (le_refl _)] at this
  have : (0 : Rat) < (2 : Rat) ^ (-1022 : Int) := by positivity
  linarith

theorem flr_fin_of_small {rnd : Rat → Rat} {u : Rat} (h1 : -(1 / 2) ≤ rnd u) (h2 : rnd u ≤ 1 / 2) :
    flr rnd u = .fin (rnd u) := by
  have hp := one_le_dblOverflow
  unfold flr; simp only
  rw [if_neg (by linarith), if_neg (by linarith)]

theorem two_pow_1023_ge (z : Nat) (hz : z ≤ 31) : ((2 ^ z - 1 : Int) : Rat) ≤ (2 : Rat) ^ (1023 : Nat) := by
  have h1 : (2 : Rat) ^ z ≤ (2 : Rat) ^ (1023 : Nat) :=
    pow_le_pow_right₀ (by norm_num : (1 : Rat) ≤ 2) (by omega : z ≤ 1023)
  have h2 : ((2 ^ z - 1 : Int) : Rat) = (2 : Rat) ^ z - 1 := by push_cast; ring
  rw [h2]
  generalize (2 : Rat) ^ (1023 : Nat) = B at *
  linarith

/-- Core of nesting: doubling the exact value before rounding doubles the tile's resolution.
    `t'` is the tile at zoom z+1 of the rounded `2u`, the tile at zoom z of the rounded `u` is
    `t'/2`.  Unfixed variant: if the finer conversion is defined so is the coarser. -/
theorem nest_flr {rnd : Rat → Rat} (hs : RoundSpec rnd) (fx : Bool) (z : Nat) (hz : z + 1 ≤ 31) (u : Rat)
    {t' : Int} (h : tileFromScaled fx (z + 1) (flr rnd (2 * u)) = .ok t') :
    tileFromScaled fx z (flr rnd u) = .ok (t' / 2) := by
  have hN := one_le_two_pow z
  have hN' : (2 : Int) ^ (z + 1) = 2 * 2 ^ z := by rw [pow_succ]; ring
  have hlo := pow2_m1022_le_quarter
  have hi32 : int32Min ≤ 0 ∧ (0 : Int) ≤ int32Max := by unfold int32Min int32Max; omega
  -- the three magnitude classes of u
  rcases lt_or_ge u ((2 : Rat) ^ (-1022 : Int)) with hsm | hbig
  · rcases lt_or_ge (-(2 : Rat) ^ (-1022 : Int)) u with hsm2 | hneg
    · -- tiny: both roundings are at most 1/2 in magnitude, both tiles are 0
      have r1 := rnd_small hs (u := u) (by linarith) (by linarith)
      have r2 := rnd_small hs (u := 2 * u) (by linarith) (by linarith)
      rw [flr_fin_of_small r2.1 r2.2] at h
      rw [flr_fin_of_small r1.1 r1.2]
      have z1 : tileSpec (2 ^ (z + 1)) (rnd (2 * u)) = 0 :=
        tileSpec_small (one_le_two_pow _) (by linarith) (by linarith)
      have z2 : tileSpec (2 ^ z) (rnd u) = 0 := tileSpec_small hN (by linarith) (by linarith)
      cases fx with
      | false =>
        obtain ⟨q, e, _, _, rfl⟩ := (tfs_unfixed_iff _ _ _).1 h
        cases e
        rw [z1]
        apply (tfs_unfixed_iff _ _ _).2
        have t0 : trunc (rnd u) = 0 := by
          by_cases hq : 0 ≤ rnd u
          · rw [trunc_of_nonneg hq]; exact Int.floor_eq_iff.2 ⟨by simpa using hq, by norm_num; linarith⟩
          · have hq' : rnd u < 0 := not_le.1 hq
            rw [trunc_of_neg hq']
            have : ⌊-rnd u⌋ = 0 := Int.floor_eq_iff.2 ⟨by norm_num; linarith, by norm_num; linarith⟩
            omega
        exact ⟨_, rfl, by rw [t0]; exact hi32.1, by rw [t0]; exact hi32.2, by rw [z2]; rfl⟩
      | true =>
        rw [tfs_fixed hz] at h
        rw [tfs_fixed (by omega)]
        cases h
        simp only [clampSpec, z1, z2]; rfl
    · -- u ≤ -2^-1022: rnd (2u) = 2 rnd u < 0
      have e2 := rnd_two_neg hs hneg
      have rneg : rnd u < 0 := by
        have := rnd_pos_of_ge hs (u := -u) (by linarith)
        rw [hs.neg] at this; linarith
      cases fx with
      | false =>
        obtain ⟨q, e, q1, q2, rfl⟩ := (tfs_unfixed_iff _ _ _).1 h
        -- flr (2u) is finite, so is flr u
        have hfin2 : flr rnd (2 * u) = .fin (rnd (2 * u)) := by
          unfold flr at e ⊢; simp only at e ⊢
          split_ifs at e ⊢; simp_all
        rw [hfin2] at e; cases e
        have hp := dblOverflow_pos
        have hfin : flr rnd u = .fin (rnd u) := by
          have hno : ¬ (rnd (2 * u) ≤ -dblOverflow) := by
            intro hc
            unfold flr at hfin2; simp only at hfin2
            rw [if_neg (by linarith), if_pos hc] at hfin2; cases hfin2
          unfold flr; simp only
          rw [if_neg (by linarith), if_neg (by rw [e2] at hno; intro hc; apply hno; linarith)]
        rw [hfin]
        apply (tfs_unfixed_iff _ _ _).2
        have m1 : trunc (rnd (2 * u)) ≤ trunc (rnd u) := trunc_mono (by rw [e2]; linarith)
        have m2 := trunc_nonpos rneg
        refine ⟨_, rfl, by omega, by omega, ?_⟩
        rw [tileSpec_of_neg hN rneg, tileSpec_of_neg (one_le_two_pow _) (by rw [e2]; linarith)]; rfl
      | true =>
        rw [tfs_fixed hz] at h
        rw [tfs_fixed (by omega)]
        cases h
        have c1 : clampSpec (2 ^ (z + 1)) (flr rnd (2 * u)) = 0 := by
          unfold flr; simp only
          split_ifs
          · exfalso; have := dblOverflow_pos; rw [e2] at *; linarith
          · rfl
          · exact tileSpec_of_neg (one_le_two_pow _) (by rw [e2]; linarith)
        have c2 : clampSpec (2 ^ z) (flr rnd u) = 0 := by
          unfold flr; simp only
          split_ifs
          · exfalso; have := dblOverflow_pos; linarith
          · rfl
          · exact tileSpec_of_neg hN rneg
        rw [c1, c2]; rfl
  · -- u ≥ 2^-1022: rnd (2u) = 2 rnd u > 0
    have e2 := hs.two u hbig
    have rpos := rnd_pos_of_ge hs hbig
    have hp := dblOverflow_pos
    cases fx with
    | false =>
      obtain ⟨q, e, q1, q2, rfl⟩ := (tfs_unfixed_iff _ _ _).1 h
      have hfin2 : flr rnd (2 * u) = .fin (rnd (2 * u)) := by
        unfold flr at e ⊢; simp only at e ⊢
        split_ifs at e ⊢; simp_all
      rw [hfin2] at e; cases e
      have hfin : flr rnd u = .fin (rnd u) := by
        have hno : ¬ (dblOverflow ≤ rnd (2 * u)) := by
          intro hc
          unfold flr at hfin2; simp only at hfin2
          rw [if_pos hc] at hfin2; cases hfin2
        unfold flr; simp only
        rw [if_neg (by rw [e2] at hno; intro hc; apply hno; linarith), if_neg (by linarith)]
      rw [hfin]
      apply (tfs_unfixed_iff _ _ _).2
      have m1 : trunc (rnd u) ≤ trunc (rnd (2 * u)) := trunc_mono (by rw [e2]; linarith)
      have m2 := trunc_nonneg rpos.le
      refine ⟨_, rfl, by unfold int32Min at *; omega, by omega, ?_⟩
      rw [e2, hN', tileSpec_nest hN]
    | true =>
      rw [tfs_fixed hz] at h
      rw [tfs_fixed (by omega)]
      cases h
      congr 1
      unfold flr; simp only
      rw [e2]
      by_cases o2 : dblOverflow ≤ 2 * rnd u
      · rw [if_pos o2]
        have big : ((2 ^ z - 1 : Int) : Rat) ≤ rnd u := by
          have := two_pow_1023_ge z (by omega)
          have e := dblOverflow_eq
          rw [e] at o2
          generalize (2 : Rat) ^ (1023 : Nat) = B at *
          linarith
        by_cases o1 : dblOverflow ≤ rnd u
        · rw [if_pos o1]; simp only [clampSpec]; omega
        · rw [if_neg o1, if_neg (by linarith)]
          simp only [clampSpec]
          rw [tileSpec_of_ge hN big]; omega
      · rw [if_neg o2, if_neg (by linarith), if_neg (by linarith), if_neg (by linarith)]
        simp only [clampSpec]
        rw [hN', tileSpec_nest hN]

/-- nesting of the tail for every double `v`: halving the divisor doubles the scaled value -/
theorem nest_divC {rnd : Rat → Rat} (hs : RoundSpec rnd) (fx : Bool) (z : Nat) (hz : z + 1 ≤ 31)
    (v : EVal) (e : Rat) {t' : Int} (h : tileFromScaled fx (z + 1) (divC rnd v (e / 2)) = .ok t') :
    tileFromScaled fx z (divC rnd v e) = .ok (t' / 2) := by
  have hN := one_le_two_pow z
  have hN' : (2 : Int) ^ (z + 1) = 2 * 2 ^ z := by rw [pow_succ]; ring
  cases v with
  | fin q =>
    simp only [divC] at h ⊢
    have e1 : q / (e / 2) = 2 * (q / e) := by
      by_cases he : e = 0
      · simp [he]
      · field_simp
    rw [e1] at h
    exact nest_flr hs fx z hz _ h
  | pinf =>
    simp only [divC] at h ⊢
    cases fx with
    | false => obtain ⟨q, e, _⟩ := (tfs_unfixed_iff _ _ _).1 h; cases e
    | true =>
      rw [tfs_fixed hz] at h; rw [tfs_fixed (by omega)]; cases h
      simp only [clampSpec]; congr 1; omega
  | ninf =>
    simp only [divC] at h ⊢
    cases fx with
    | false => obtain ⟨q, e, _⟩ := (tfs_unfixed_iff _ _ _).1 h; cases e
    | true =>
      rw [tfs_fixed hz] at h; rw [tfs_fixed (by omega)]; cases h
      simp only [clampSpec]; rfl
  | nan =>
    simp only [divC] at h ⊢
    cases fx with
    | false => obtain ⟨q, e, _⟩ := (tfs_unfixed_iff _ _ _).1 h; cases e
    | true =>
      rw [tfs_fixed hz] at h; rw [tfs_fixed (by omega)]; cases h
      simp only [clampSpec]; rfl

/-- on finite values, absent overflow, `xToLonE` is `xToLon` -/
theorem xToLonE_fin (p : ProjCfg) (x : Rat)
    (h1 : -dblOverflow < p.rnd (x * p.radToDeg) ∧ p.rnd (x * p.radToDeg) < dblOverflow)
    (h2 : -dblOverflow < xToLon p x ∧ xToLon p x < dblOverflow) :
    xToLonE p (.fin x) = .fin (xToLon p x) := by
  unfold xToLon at h2
  unfold xToLonE xToLon mulC flr
  simp only
  rw [if_neg (by linarith [h1.2]), if_neg (by linarith [h1.1])]
  simp only [divC, flr]
  rw [if_neg (by linarith [h2.2]), if_neg (by linarith [h2.1])]

theorem tileExtent_succ (cfg : Cfg) (z : Nat) : tileExtentInZoom cfg (z + 1) = tileExtentInZoom cfg z / 2 := by
  unfold tileExtentInZoom numTilesInZoom
  push_cast
  rw [pow_succ]
  field_simp

theorem tileExtent_pos {cfg : Cfg} (hM : 0 < cfg.M) (z : Nat) : 0 < tileExtentInZoom cfg z := by
  unfold tileExtentInZoom numTilesInZoom
  push_cast
  positivity

/-! ### constructors, scaled coordinates, std::round -/

theorem ofCoords_ok_iff (cfg : Cfg) (z : Nat) (x y : EVal) (t : Tile) :
    Tile.ofCoords cfg z x y = .ok t ↔
      ∃ tx ty, mercxToTilex cfg z x = .ok tx ∧ mercyToTiley cfg z y = .ok ty ∧ t = ⟨tx, ty, z⟩ := by
  unfold Tile.ofCoords
  cases hx : mercxToTilex cfg z x with
  | error e => simp [bind, Except.bind]
  | ok tx =>
    cases hy : mercyToTiley cfg z y with
    | error e => simp [bind, Except.bind]
    | ok ty =>
      simp only [bind, Except.bind, pure, Except.pure, Except.ok.injEq]
      constructor
      · intro h; exact ⟨tx, ty, rfl, rfl, h.symm⟩
      · rintro ⟨a, b, rfl, rfl, rfl⟩; rfl

theorem ofLoc_ok_iff (cfg : Cfg) (f g : Int → EVal) (z : Nat) (lon lat : Int) (t : Tile) :
    Tile.ofLoc cfg f g z lon lat = .ok t ↔
      locValid lon lat = true ∧
      ∃ tx ty, mercxToTilex cfg z (f lon) = .ok tx ∧ mercyToTiley cfg z (g lat) = .ok ty ∧ t = ⟨tx, ty, z⟩ := by
  unfold Tile.ofLoc
  by_cases hv : locValid lon lat = true
  · rw [if_pos hv, ofCoords_ok_iff]; simp [hv]
  · rw [if_neg hv]; simp [hv]

theorem scaledX_mono {cfg : Cfg} (hs : RoundSpec cfg.rnd) (hM : 0 < cfg.M) (z : Nat) {x1 x2 : EVal} (h : x1 ≤ x2) :
    scaledX cfg z x1 ≤ scaledX cfg z x2 :=
  divC_mono hs (tileExtent_pos hM z) (addC_mono hs _ h)

theorem scaledY_anti {cfg : Cfg} (hs : RoundSpec cfg.rnd) (hM : 0 < cfg.M) (z : Nat) {y1 y2 : EVal} (h : y1 ≤ y2) :
    scaledY cfg z y2 ≤ scaledY cfg z y1 :=
  divC_mono hs (tileExtent_pos hM z) (subC_anti hs _ h)

theorem roundHalfAway_intCast (n : Int) : roundHalfAway (n : Rat) = n := by
  unfold roundHalfAway
  by_cases h : (0 : Rat) ≤ n
  · rw [if_pos h, rfloor_eq]
    apply Int.floor_eq_iff.2; constructor <;> linarith
  · rw [if_neg h, rfloor_eq]
    have : ⌊-(n : Rat) + 1 / 2⌋ = -n := by
      apply Int.floor_eq_iff.2; constructor <;> push_cast <;> linarith
    omega


end Osmium.Tile
