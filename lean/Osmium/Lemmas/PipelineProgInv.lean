/-
Progress (C07), "a busy wait is never forced": invariants used by PipelineProg.lean.

* `Prog.q_polling_max`   — a thread inside the polling loop of push() ⇒ the queue is bounded;
* `Prog.hdr_none`        — header promise not set ⇒ the parser has produced nothing yet;
* `Prog.out_fresh`       — the future the parser is pushing is neither queued nor in the consumer's hands;
* `Prog.in_fresh`        — same for the read thread / the parser on the input queue;
* `Prog.outq_drained`, `Prog.inq_drained` — after a completed shutdown() a producer that is still in
                           the polling loop sees an EMPTY queue;
* `Prog.out_closed`      — consumer past the shutdown of the osmdata queue ⇒ the queue is not in use.
-/
import Osmium.Lemmas.PipelineBase
import Osmium.Lemmas.PipelineLive

set_option linter.unusedSimpArgs false
set_option linter.unusedVariables false
set_option linter.unusedTactic false
set_option linter.unreachableTactic false

namespace Osmium.Pipeline

open Osmium.Mon

variable {α : Type} [DecidableEq α]

namespace Prog

/-! ## queue machine: the polling loop only exists for a bounded queue -/

theorem q_polling_max (qc : QueueSM.Cfg) : ∀ q : QueueSM.State Nat, (QueueSM.machine Nat qc).Reachable q →
    ∀ t x, q.pc t = .pushPolling x ∨ q.pc t = .pushMustWait x → qc.max ≠ 0 := by
  apply Machine.invariant
  · simp [QueueSM.machine, QueueSM.init]
  · intro s e s' _ ih hst
    qsm_cases e with hst tid t <;> intro u x hu <;> simp only [setPc_apply, QueueSM.take_pc] at hu
    all_goals first
      | exact ih u x hu
      | (split at hu
         · first
           | (simp at hu; done)
           | assumption
           | (rename_i hm; intro h0; simp_all; done)
           | (exact ih _ _ (by first | exact .inl ‹_› | exact .inr ‹_›))
         · exact ih u x hu)

/-! ## nothing is produced before the header -/

/-- parser pcs that are possible while the header promise is not set -/
def preHdr : PPc α → Bool
  | .run | .popWait | .got _ | .caught _ => true
  | .sdIn k | .sdInRun k => k == .run
  | _ => false

set_option maxHeartbeats 1600000 in
theorem hdr_none (c : Cfg α) : ∀ s, (machine c).Reachable s → s.hdr = none →
    preHdr s.ppc = true ∧ s.nested = [] ∧ s.cur = [] := by
  apply Machine.invariant
  · simp [machine, init, preHdr]
  · intro s e s' _ ih hst
    plv_cases e with hst q hq
    all_goals first
      | exact ih
      | (simp_all [preHdr, pCont]; done)
      | (cases ‹PK› <;> simp_all [preHdr, pCont]; done)
      | (cases hh : s.ppc <;> simp_all [preHdr, pCont]; done)

/-! ## the future a producer is pushing is nowhere else -/

/-- `id` is neither in the osmdata queue nor in the consumer's hands -/
def FreshOut (s : State α) (id : Nat) : Prop := (∀ y ∈ s.outq.items, y.2 ≠ id) ∧ s.cpc ≠ .readGot id

/-- ids not yet handed to push() on the osmdata queue are fresh (consequence of the id bounds) -/
theorem out_fresh_new (c : Cfg α) (s : State α) (h : (machine c).Reachable s) (id : Nat)
    (hid : 2 * s.nOut ≤ id) : FreshOut s id := by
  refine ⟨fun y hy he => ?_, fun hc => ?_⟩
  · have := (Live.outq_items_odd c s h y hy).2; omega
  · have := (Live.readGot_odd c s h id hc).2; omega

/-- the id the parser is about to hand / is handing to push() on the osmdata queue -/
def pushId : PPc α → Option Nat
  | .pushFut id _ => some id
  | .pushing id _ _ => some id
  | .run => none
  | .popWait => none
  | .got _ => none
  | .sdIn _ => none
  | .sdInRun _ => none
  | .push _ _ => none
  | .pushed _ _ _ => none
  | .caught _ => none
  | .done => none

attribute [simp] pushId.eq_1 pushId.eq_2 pushId.eq_3 pushId.eq_4 pushId.eq_5 pushId.eq_6 pushId.eq_7 pushId.eq_8
  pushId.eq_9 pushId.eq_10 pushId.eq_11

omit [DecidableEq α] in
@[simp] theorem pushId_pCont (k : PK) : pushId (pCont k : PPc α) = none := by cases k <;> rfl

omit [DecidableEq α] in
theorem freshOut_tail {s : State α} {id : Nat} {it : QueueSM.Item Nat} {l : List (QueueSM.Item Nat)}
    (h : ∀ y ∈ l, y.2 ≠ id) (hh : some it = l.head?) : (∀ y ∈ l.tail, y.2 ≠ id) ∧ it.2 ≠ id :=
  ⟨fun y hy => h y (List.mem_of_mem_tail hy), h it (Live.mem_of_head_eq hh)⟩

set_option maxHeartbeats 1600000 in
theorem out_fresh (c : Cfg α) : ∀ s, (machine c).Reachable s →
    ∀ id, pushId s.ppc = some id → FreshOut s id := by
  apply Machine.invariant
  · simp [machine, init]
  · intro s e s' hr ih hst
    have hnew := out_fresh_new c s hr
    plv_cases e with hst q hq
    all_goals (try q_unfold hq)
    all_goals first
      | exact ih
      | (intro id hid; simp at hid; done)
      | (intro id hid; simp at hid; subst hid
         first
           | exact hnew _ (by omega)
           | (exact ih _ (by simp_all)))
      | (intro id hid
         try simp only [afterPop_ppc, afterClose_ppc] at hid
         have h1 := ih id hid
         simp only [FreshOut, QueueSM.take_items] at h1 ⊢
         first
           | (refine ⟨fun y hy => h1.1 y (List.mem_of_mem_tail hy), ?_⟩; simp; done)
           | (rename_i hg
              have hh := freshOut_tail (s := s) h1.1 hg.2.2.2
              refine ⟨hh.1, ?_⟩; simp [hh.2]; done)
           | (rename_i hg
              have hh := freshOut_tail (s := s) h1.1 hg.2.2.2.2
              refine ⟨hh.1, ?_⟩; simp [hh.2]; done)
           | (refine ⟨h1.1, ?_⟩; simp; done)
           | (refine ⟨by simp, ?_⟩; simp; done)
           | (refine ⟨by simpa using h1.1, ?_⟩; simp only [afterPop_cpc, afterClose_cpc]; split <;> simp; done)
           | (split <;> simp_all [FreshOut]; done)
           | (simp_all [FreshOut]; done))

/-! ### the same on the input queue -/

set_option maxHeartbeats 1600000 in
theorem inq_pc_lt (c : Cfg α) : ∀ s, (machine c).Reachable s → ∀ t x, Live.inPush (s.inq.pc t) x → x < 2 * s.nIn := by
  apply Machine.invariant
  · simp [machine, init, QueueSM.init, Live.inPush]
  · intro s e s' hr ih hst
    plv_cases e with hst q hq
    all_goals (try q_unfold hq)
    all_goals first
      | exact ih
      | (ap_norm; exact ih)
      | (intro u x hx; have := ih u x; simp only [setPc_apply, QueueSM.take_pc, Live.inPush] at *; grind)

set_option maxHeartbeats 1600000 in
theorem inq_items_lt (c : Cfg α) : ∀ s, (machine c).Reachable s → ∀ y ∈ s.inq.items, y.2 < 2 * s.nIn := by
  apply Machine.invariant
  · simp [machine, init, QueueSM.init]
  · intro s e s' hr ih hst
    have hA := inq_pc_lt c s hr
    plv_cases e with hst q hq
    all_goals (try q_unfold hq)
    all_goals first
      | exact ih
      | (ap_norm; exact ih)
      | (simp; done)
      | (intro y hy; simp only [QueueSM.take_items] at hy; exact ih y (List.mem_of_mem_tail hy))
      | (intro y hy; have := ih y hy; simp only at *; omega)
      | (intro y hy; simp only [List.mem_append, List.mem_singleton] at hy
         rcases hy with hy | hy
         · exact ih y hy
         · subst hy; exact hA _ _ (Or.inr (Or.inr (Or.inr (by assumption)))))

set_option maxHeartbeats 1600000 in
theorem got_lt (c : Cfg α) : ∀ s, (machine c).Reachable s → ∀ a, s.ppc = .got a → a < 2 * s.nIn := by
  apply Machine.invariant
  · simp [machine, init]
  · intro s e s' hr ih hst
    have hB := inq_items_lt c s hr
    plv_cases e with hst q hq
    all_goals (try q_unfold hq)
    all_goals first
      | exact ih
      | (ap_norm; exact ih)
      | (simp_all [pCont]; done)
      | (cases ‹PK› <;> simp_all [pCont]; done)
      | (intro a ha; simp only [PPc.got.injEq] at ha; subst ha; exact hB _ (Live.mem_of_head_eq (by simp_all)))
      | (intro a ha; have := ih a ha; simp only at *; omega)

/-- `id` is neither in the input queue nor in the parser's hands -/
def FreshIn (s : State α) (id : Nat) : Prop := (∀ y ∈ s.inq.items, y.2 ≠ id) ∧ s.ppc ≠ .got id

theorem in_fresh_new (c : Cfg α) (s : State α) (h : (machine c).Reachable s) (id : Nat)
    (hid : 2 * s.nIn ≤ id) : FreshIn s id := by
  refine ⟨fun y hy he => ?_, fun hc => ?_⟩
  · have := inq_items_lt c s h y hy; omega
  · have := got_lt c s h id hc; omega

/-- the id the read thread is handing to push() on the input queue -/
def rPushId : RPc α → Option Nat
  | .pushing id _ _ => some id
  | .loop => none
  | .reading => none
  | .closing => none
  | .push _ _ => none
  | .pushed _ _ _ => none
  | .done => none

attribute [simp] rPushId.eq_1 rPushId.eq_2 rPushId.eq_3 rPushId.eq_4 rPushId.eq_5 rPushId.eq_6 rPushId.eq_7

omit [DecidableEq α] in
@[simp] theorem rPushId_rCont (k : RK) : rPushId (rCont k : RPc α) = none := by cases k <;> rfl

set_option maxHeartbeats 1600000 in
theorem in_fresh (c : Cfg α) : ∀ s, (machine c).Reachable s →
    ∀ id, rPushId s.rpc = some id → FreshIn s id := by
  apply Machine.invariant
  · simp [machine, init]
  · intro s e s' hr ih hst
    have hnew := in_fresh_new c s hr
    plv_cases e with hst q hq
    all_goals (try q_unfold hq)
    all_goals first
      | exact ih
      | (intro id hid; simp at hid; done)
      | (intro id hid; simp at hid; subst hid
         first
           | exact hnew _ (by omega)
           | (exact ih _ (by simp_all)))
      | (intro id hid
         try simp only [afterPop_rpc, afterClose_rpc] at hid
         have h1 := ih id hid
         simp only [FreshIn, QueueSM.take_items] at h1 ⊢
         first
           | (refine ⟨fun y hy => h1.1 y (List.mem_of_mem_tail hy), ?_⟩; simp; done)
           | (rename_i hg
              have hh := freshOut_tail (s := s) h1.1 hg.2.2.2
              refine ⟨hh.1, ?_⟩; simp [hh.2]; done)
           | (rename_i hg
              have hh := freshOut_tail (s := s) h1.1 hg.2.2.2.2
              refine ⟨hh.1, ?_⟩; simp [hh.2]; done)
           | (refine ⟨h1.1, ?_⟩; simp; done)
           | (refine ⟨by simp, ?_⟩; simp; done)
           | (refine ⟨by simpa using h1.1, ?_⟩; simpa using h1.2)
           | (split <;> simp_all [FreshIn]; done)
           | (simp_all [FreshIn]; done))

/-! ## after a completed shutdown() a producer in the polling loop sees an empty queue -/

/-- inside the polling loop of push() or past it (the unlocked `m_in_use` test is behind) -/
def polling : QueueSM.Pc Nat → Bool
  | .pushPolling _ | .pushMustWait _ | .pushReady _ => true
  | _ => false

set_option maxHeartbeats 1600000 in
/-- osmdata queue (producer: parser thread, shutdown() is only called by the consumer) -/
theorem outq_drained (c : Cfg α) : ∀ s, (machine c).Reachable s →
    s.outq.inUse = false → s.outq.pc tC ≠ .sdFlagged → polling (s.outq.pc tP) = true → s.outq.items = [] := by
  apply Machine.invariant
  · simp [machine, init, QueueSM.init, polling]
  · intro s e s' hr ih hst
    plv_cases e with hst q hq
    all_goals (try q_unfold hq)
    all_goals first
      | exact ih
      | (ap_norm; exact ih)
      | (simp_all [setPc_apply, polling, tC, tP, tR]; done)
      | (intro h1 h2 h3; simp only [setPc_apply, QueueSM.take_items, QueueSM.take_pc, QueueSM.take_inUse, tC, tP, tR] at *
         simp_all [polling])

set_option maxHeartbeats 1600000 in
/-- input queue (producer: read thread, shutdown() is only called by the parser thread) -/
theorem inq_drained (c : Cfg α) : ∀ s, (machine c).Reachable s →
    s.inq.inUse = false → s.inq.pc tP ≠ .sdFlagged → polling (s.inq.pc tR) = true → s.inq.items = [] := by
  apply Machine.invariant
  · simp [machine, init, QueueSM.init, polling]
  · intro s e s' hr ih hst
    plv_cases e with hst q hq
    all_goals (try q_unfold hq)
    all_goals first
      | exact ih
      | (ap_norm; exact ih)
      | (simp_all [setPc_apply, polling, tC, tP, tR]; done)
      | (intro h1 h2 h3; simp only [setPc_apply, QueueSM.take_items, QueueSM.take_pc, QueueSM.take_inUse, tC, tP, tR] at *
         simp_all [polling])

/-- consumer pcs that wait for a thread to return, past the shutdown of the osmdata queue -/
def joining : CPc α → Bool
  | .eofJoin | .closeJoin _ | .dtorJoinP => true
  | _ => false

set_option maxHeartbeats 1600000 in
theorem dtorJoinP_closed (c : Cfg α) : ∀ s, (machine c).Reachable s → s.cpc = .dtorJoinP → s.outq.inUse = false := by
  apply Machine.invariant
  · simp [machine, init]
  · intro s e s' hr ih hst
    have hnj := Live.inv_notJoined c s hr
    plv_cases e with hst q hq
    all_goals (try q_unfold hq)
    all_goals first
      | exact ih
      | (simp_all; done)
      | (rcases Live.afterPop_cpc s ‹List (List _)› with h | ⟨r, h⟩ <;> simp_all; done)
      | (intro hc; cases hu : s.outq.inUse
         · simp
         · have := (hnj hu).2 ‹CK›; simp_all)

/-- `out_closed`: a consumer that waits for a thread to return has shut the osmdata queue down -/
theorem out_closed (c : Cfg α) (s : State α) (h : (machine c).Reachable s) (hj : joining s.cpc = true) :
    s.outq.inUse = false ∧ s.outq.pc tC = .idle := by
  have hco := (Live.pcInv c s h).cOut
  have hnj := Live.inv_notJoined c s h
  cases hc : s.cpc <;> rw [hc] at hj hco <;> simp only [joining, Bool.false_eq_true] at hj <;>
    simp only [Live.cOk] at hco <;> refine ⟨?_, hco⟩
  · cases hu : s.outq.inUse
    · rfl
    · exact absurd hc (hnj hu).1
  · cases hu : s.outq.inUse
    · rfl
    · exact absurd hc ((hnj hu).2 _)
  · exact dtorJoinP_closed c s h hc

end Prog

end Osmium.Pipeline
