/-
Reader half of `xml_decode_spec` (C02), part 2: the event runner on the events of one element
(`elEvs`: white space is skipped outside `<text>`), the leaf elements `<tag>` / `<nd>` / `<member>` /
`<bounds>` with permuted attributes, and `init_object` on the permuted metadata attributes of the
specification renderer.
-/
import Osmium.Lemmas.XmlSpecRead

namespace Osmium.XmlFmt.XmlSpec
open Osmium.Osm Osmium.TextFmt Osmium.Conv Osmium.XmlFmt

/-! ### the runner -/

def AllChars (l : List Ev) : Prop := ∀ e ∈ l, ∃ t, e = Ev.chars t

theorem allChars_ws {wsE : Nat → List Ev} (hws : WsOnly wsE) (n : Nat) : AllChars (wsE n) := hws n

theorem allChars_if {wsE : Nat → List Ev} (hws : WsOnly wsE) (b : Bool) (n : Nat) :
    AllChars (if b then [] else wsE n) := by
  cases b
  · exact hws n
  · intro e he; cases he

/-- character data outside `<text>` is ignored -/
theorem run_chars (l tl : List Ev) (st : RSt) (h : AllChars l) (hn : NoText st) :
    runEvents {} (l ++ tl) st = runEvents {} tl st := by
  induction l with
  | nil => rfl
  | cons e l ih =>
    obtain ⟨t, rfl⟩ := h e (by simp)
    have hc : characters {} st t = st := by
      unfold characters
      have : (st.stack.head? == some Ctx.text) = false := by simpa [NoText] using hn
      simp [this]
    simp only [List.cons_append, runEvents, stepEv, hc, bindE_ok]
    exact ih (fun e he => h e (by simp [he]))

theorem run_start (n : String) (as : List Attr) (tl : List Ev) (st : RSt) :
    runEvents {} (Ev.start n as :: tl) st = bindE (startElement {} st n as) (runEvents {} tl) := rfl

theorem run_stop (n : String) (tl : List Ev) (st : RSt) :
    runEvents {} (Ev.stop n :: tl) st = bindE (endElement {} st) (runEvents {} tl) := rfl

/-- an element without children -/
theorem run_leaf (ch : Choices) (wsE : Nat → List Ev) (hws : WsOnly wsE) (lvl : Nat) (name : String) (as : List Attr)
    (tl : List Ev) (st st' : RSt) (hn : NoText st)
    (h : bindE (startElement {} st name (OplFmt.OplSpec.pick ch.attrOrder as)) (endElement {}) = .ok st') :
    runEvents {} (elEvs ch wsE lvl name as [] ++ tl) st = runEvents {} tl st' := by
  unfold elEvs
  simp only [List.isEmpty_nil, if_true, List.nil_append, List.append_assoc, List.cons_append]
  rw [run_chars _ _ _ (hws lvl) hn, run_start]
  cases hst : startElement {} st name (OplFmt.OplSpec.pick ch.attrOrder as) with
  | error x => rw [hst] at h; simp at h
  | ok st1 =>
    rw [hst] at h
    simp only [bindE_ok] at h ⊢
    rw [run_stop, h]
    rfl

/-- the start tag of an element with children -/
theorem run_open (ch : Choices) (wsE : Nat → List Ev) (hws : WsOnly wsE) (lvl : Nat) (name : String) (as : List Attr)
    (children : List (List Ev)) (tl : List Ev) (st st1 : RSt) (hn : NoText st)
    (h : startElement {} st name (OplFmt.OplSpec.pick ch.attrOrder as) = .ok st1) :
    runEvents {} (elEvs ch wsE lvl name as children ++ tl) st =
      runEvents {} (children.flatten ++ ((if children.isEmpty then [] else wsE lvl) ++ Ev.stop name :: tl)) st1 := by
  unfold elEvs
  simp only [List.append_assoc, List.cons_append]
  rw [run_chars _ _ _ (hws lvl) hn, run_start, h]
  simp only [bindE_ok]
  cases children with
  | nil => simp
  | cons c cs => simp

/-! ### numbers as the specification renderer writes them -/

theorem num_of_wInt {v : Int} {out : Bytes} (h : wInt v = .ok out) : num v = out := by
  unfold wInt at h
  unfold num
  cases ho : outputInt v with
  | none => rw [ho] at h; cases h
  | some b => rw [ho] at h; cases h; rfl

theorem rId_num (v : Int) (h0 : int64Min < v) (h1 : v ≤ int64Max) : rId (num v) = .ok v := by
  obtain ⟨out, hw, _, hr⟩ := wInt_rId v h0 h1
  rw [num_of_wInt hw, hr]

theorem rUlong_num (n : Nat) (h : n < 4294967295) : rUlong (num (n : Int)) = .ok n := by
  obtain ⟨out, hw, _, hr⟩ := wInt_rUlong n h
  rw [num_of_wInt hw, hr]

/-! ### `<tag>` -/

theorem tag_step' (st : RSt) (k : Ctx) (hk : TagCtx k) (rest : List Ctx) (c c' : Cur) (hs : st.stack = k :: rest)
    (hc : st.cur = some c) (attrs : List Attr) (h : getTag c attrs = .ok c') :
    bindE (startElement {} st "tag" attrs) (endElement {}) = .ok { st with cur := some c' } := by
  rcases st with ⟨stack, header, version, headerOut, cur, out, ct⟩
  simp only at hs hc
  subst hs hc
  rcases hk with rfl | rfl | rfl | rfl <;>
    simp (config := { decide := true }) [startElement, push, withCur, h, endElement]

theorem noText_tagCtx (st : RSt) (k : Ctx) (hk : TagCtx k) (rest : List Ctx) (hs : st.stack = k :: rest) : NoText st := by
  unfold NoText; rw [hs]
  rcases hk with rfl | rfl | rfl | rfl <;> simp

theorem tags_run_ev (ch : Choices) (wsE : Nat → List Ev) (hws : WsOnly wsE) (lvl : Nat) (ts : List Tag)
    (hts : ∀ t ∈ ts, xstrOK t.key = true ∧ xstrOK t.value = true) (tl : List Ev) (k : Ctx) (hk : TagCtx k) (rest : List Ctx) :
    ∀ (st : RSt) (c : Cur), st.stack = k :: rest → st.cur = some c →
      runEvents {} ((tagEvs ch wsE lvl ts).flatten ++ tl) st = runEvents {} tl { st with cur := some (ts.foldl addTag c) } := by
  induction ts with
  | nil =>
    intro st c hs hc
    have : ({ st with cur := some c } : RSt) = st := by cases st; simp_all
    simp [tagEvs, this]
  | cons t ts ih =>
    intro st c hs hc
    obtain ⟨h1, h2⟩ := hts t (by simp)
    obtain ⟨_, _, _, l1⟩ := xstrOK_spec h1
    obtain ⟨_, _, _, l2⟩ := xstrOK_spec h2
    have hlen : ¬ (t.key.length > OplFmt.maxString ∨ t.value.length > OplFmt.maxString) := by
      simp [OplFmt.maxString]; omega
    have hget : getTag c (OplFmt.OplSpec.pick ch.attrOrder [("k", t.key), ("v", t.value)]) = .ok (addTag c t) := by
      rw [getTag_pick _ _ _ (by simp (config := { decide := true }))]
      simp (config := { decide := true }) [getTag, lastAttr, hlen]
    have hstep := tag_step' st k hk rest c _ hs hc _ hget
    have e : (tagEvs ch wsE lvl (t :: ts)).flatten ++ tl =
        elEvs ch wsE lvl "tag" [("k", t.key), ("v", t.value)] [] ++ ((tagEvs ch wsE lvl ts).flatten ++ tl) := by
      simp [tagEvs]
    rw [e, run_leaf ch wsE hws lvl _ _ _ st _ (noText_tagCtx st k hk rest hs) hstep]
    exact ih (fun t' ht' => hts t' (by simp [ht'])) { st with cur := some (addTag c t) } (addTag c t) hs rfl

/-! ### `<nd>` -/

theorem nd_attrs_spec (ch : Choices) (n : NodeRef) (hn : XRefOK n) :
    ndAttrs (OplFmt.OplSpec.pick ch.attrOrder
        (("ref", num n.ref) :: (if bothDefined n.location then latLon "lat" "lon" n.location else [])))
      ⟨0, Location.undefined⟩ = .ok ⟨n.ref, projectLoc n.location⟩ := by
  obtain ⟨h0, h1, hx0, hx1, hy0, hy1⟩ := hn
  have hr := rId_num n.ref h0 h1
  have hx := rCoord_formatCoord _ hx0 hx1
  have hy := rCoord_formatCoord _ hy0 hy1
  cases hb : bothDefined n.location
  · simp only [Bool.false_eq_true, if_false]
    rw [ndAttrs_pick _ _ (by simp (config := { decide := true })) (by
      intro a ha
      simp only [List.mem_cons, List.not_mem_nil, or_false] at ha
      subst ha
      simp (config := { decide := true }) [ndGood, hr])]
    simp (config := { decide := true }) [ndAttrs, hr, projectLoc, hb]
  · simp only [if_true, latLon]
    rw [ndAttrs_pick _ _ (by simp (config := { decide := true })) (by
      intro a ha
      simp only [List.mem_cons, List.not_mem_nil, or_false] at ha
      rcases ha with rfl | rfl | rfl <;> simp (config := { decide := true }) [ndGood, hr, hx, hy])]
    simp (config := { decide := true }) [ndAttrs, hr, hx, hy, projectLoc, hb]

theorem nds_run_ev (ch : Choices) (wsE : Nat → List Ev) (hws : WsOnly wsE) (lvl : Nat) (ns : List NodeRef)
    (hns : ∀ n ∈ ns, XRefOK n) (tl : List Ev) (rest : List Ctx) :
    ∀ (st : RSt) (c : Cur), st.stack = Ctx.way :: rest → st.cur = some c →
      runEvents {} ((ns.map fun n => elEvs ch wsE lvl "nd"
          (("ref", num n.ref) :: (if bothDefined n.location then latLon "lat" "lon" n.location else [])) []).flatten ++ tl) st =
        runEvents {} tl { st with cur := some ((ns.map fun n => ({ n with location := projectLoc n.location } : NodeRef)).foldl addNode c) } := by
  induction ns with
  | nil =>
    intro st c hs hc
    have : ({ st with cur := some c } : RSt) = st := by cases st; simp_all
    simp [this]
  | cons n ns ih =>
    intro st c hs hc
    have hstep := nd_step st rest c hs hc _ _ (nd_attrs_spec ch n (hns n (by simp)))
    have hnt : NoText st := by unfold NoText; rw [hs]; simp
    simp only [List.map_cons, List.flatten_cons, List.append_assoc, List.foldl_cons]
    rw [run_leaf ch wsE hws lvl _ _ _ st _ hnt hstep]
    exact ih (fun n' hn' => hns n' (by simp [hn'])) _ _ hs rfl

/-! ### `<member>` -/

theorem member_attrs_spec (ch : Choices) (m : Member) (hm : XMemberOK m) :
    memberAttrs (OplFmt.OplSpec.pick ch.attrOrder [("type", typeName m.type), ("ref", num m.ref), ("role", m.role)])
      0 0 false [] = .ok (m.type, m.ref, true, m.role) := by
  obtain ⟨ht, h0, h1, _⟩ := hm
  have hr := rId_num m.ref h0 h1
  obtain ⟨_, tc⟩ := typeName_spec m.type ht
  rw [memberAttrs_pick _ _ (by simp (config := { decide := true })) (by
    intro a ha
    simp only [List.mem_cons, List.not_mem_nil, or_false] at ha
    rcases ha with rfl | rfl | rfl <;> simp (config := { decide := true }) [memGood, hr])]
  simp (config := { decide := true }) [memberAttrs, hr, tc]

theorem members_run_ev (ch : Choices) (wsE : Nat → List Ev) (hws : WsOnly wsE) (lvl : Nat) (ms : List Member)
    (hms : ∀ x ∈ ms, XMemberOK x) (tl : List Ev) (rest : List Ctx) :
    ∀ (st : RSt) (c : Cur), st.stack = Ctx.relation :: rest → st.cur = some c →
      runEvents {} ((ms.map fun x => elEvs ch wsE lvl "member"
          [("type", typeName x.type), ("ref", num x.ref), ("role", x.role)] []).flatten ++ tl) st =
        runEvents {} tl { st with cur := some (ms.foldl addMember c) } := by
  induction ms with
  | nil =>
    intro st c hs hc
    have : ({ st with cur := some c } : RSt) = st := by cases st; simp_all
    simp [this]
  | cons m ms ih =>
    intro st c hs hc
    have hm := hms m (by simp)
    obtain ⟨_, _, _, hlen⟩ := xstrOK_spec hm.2.2.2
    have hstep := member_step st rest c hs hc _ m (by rcases hm.1 with h | h | h <;> omega) hlen (member_attrs_spec ch m hm)
    have hnt : NoText st := by unfold NoText; rw [hs]; simp
    simp only [List.map_cons, List.flatten_cons, List.append_assoc, List.foldl_cons]
    rw [run_leaf ch wsE hws lvl _ _ _ st _ hnt hstep]
    exact ih (fun n' hn' => hms n' (by simp [hn'])) _ _ hs rfl

/-! ### `<bounds>` -/

theorem bounds_attrs_spec (ch : Choices) (bl tr : Location) (h1 : XLocOK bl) (h2 : XLocOK tr) :
    boundsAttrs (OplFmt.OplSpec.pick ch.attrOrder (latLon "minlat" "minlon" bl ++ latLon "maxlat" "maxlon" tr))
      Location.undefined Location.undefined = .ok (bl, tr) := by
  have e := boundsAttrs_latLon bl tr h1 h2
  obtain ⟨a1, a2, a3, a4⟩ := h1
  obtain ⟨c1, c2, c3, c4⟩ := h2
  rw [boundsAttrs_pick _ _ (by simp (config := { decide := true }) [latLon]) (by
    intro a ha
    simp only [latLon, List.cons_append, List.nil_append, List.mem_cons, List.not_mem_nil, or_false] at ha
    rcases ha with rfl | rfl | rfl | rfl <;>
      simp (config := { decide := true }) [bndGood, rCoord_formatCoord _ a1 a2, rCoord_formatCoord _ a3 a4,
        rCoord_formatCoord _ c1 c2, rCoord_formatCoord _ c3 c4])]
  exact e

theorem bounds_run_ev (ch : Choices) (wsE : Nat → List Ev) (hws : WsOnly wsE) (boxes : List (Location × Location))
    (hb : ∀ b ∈ boxes, XBoxOK b) (root : Ctx) (hr : root = .osm ∨ root = .osmChange) (tl : List Ev) :
    ∀ st : RSt, st.stack = [root] →
      runEvents {} ((boxes.map fun (x : Location × Location) =>
          elEvs ch wsE 1 "bounds" (latLon "minlat" "minlon" x.1 ++ latLon "maxlat" "maxlon" x.2) []).flatten ++ tl) st =
        runEvents {} tl { st with header := { st.header with boxes := st.header.boxes ++ boxes.map normBox } } := by
  induction boxes with
  | nil =>
    intro st _
    have : ({ st with header := { st.header with boxes := st.header.boxes ++ [] } } : RSt) = st := by
      cases st; simp
    simpa using congrArg (runEvents {} tl) this.symm
  | cons b boxes ih =>
    intro st hs
    obtain ⟨bl, tr⟩ := b
    obtain ⟨h1, h2⟩ := hb (bl, tr) (by simp)
    have hnt : NoText st := by unfold NoText; rw [hs]; rcases hr with rfl | rfl <;> simp
    have hstep := bounds_step st root hr hs _ bl tr (bounds_attrs_spec ch bl tr h1 h2)
    simp only [List.map_cons, List.flatten_cons, List.append_assoc]
    rw [run_leaf ch wsE hws 1 _ _ _ st _ hnt hstep]
    rw [ih (fun b hb' => hb b (by simp [hb']))
      { st with header := { st.header with boxes := st.header.boxes ++ [normBox (bl, tr)] } } hs]
    simp

end Osmium.XmlFmt.XmlSpec
