/-
FROZEN SKELETON (statements with `sorry`) of the input-side shape theorems that are being proved
in PipelineShapeIn*.lean; import this while developing, it is swapped for the real module
`Osmium.Lemmas.PipelineShapeIn` at integration.  NOT imported by any Props file.
-/
import Osmium.Lemmas.PipelineShapeInDefs

namespace Osmium.Pipeline

open Osmium.Mon

variable {α : Type} [DecidableEq α]

/-- once the parser has seen the end of its input, no exception of the read thread is or was on its
    way (an exception future precedes the end marker and the parser stops at it) -/
theorem in_done_clean (c : Cfg α) (s : State α) (h : (machine c).Reachable s) :
    s.inputDone = true → ¬ InExc s := by
  sorry

/-- once the parser has seen the end of its input, it has received ALL chunks — unless the consumer
    asked the read thread to stop -/
theorem in_complete (c : Cfg α) (wf : c.WF) (s : State α) (h : (machine c).Reachable s) :
    s.inputDone = true → s.stop = true ∨ s.avail = c.file.length := by
  sorry

/-- the parser never has more than the file -/
theorem avail_le (c : Cfg α) (wf : c.WF) (s : State α) (h : (machine c).Reachable s) :
    s.avail ≤ c.file.length := by
  sorry

/-- wait-for fact of the progress proof: if the read thread has returned and the parser is blocked in
    wait_and_pop on the input queue, its wait predicate holds -/
theorem inq_marker (c : Cfg α) (s : State α) (h : (machine c).Reachable s) :
    s.rpc = .done → s.ppc = .popWait → s.inq.pc tP = .popWaiting → QueueSM.pred s.inq = true := by
  sorry

/-- wait-for fact: once the read thread has returned, a future the parser holds is ready -/
theorem inq_fut_ready (c : Cfg α) (s : State α) (h : (machine c).Reachable s) :
    s.rpc = .done → ∀ id, s.ppc = .got id → s.fut id ≠ none := by
  sorry

end Osmium.Pipeline
