/-
Helper lemmas for C13 (coordinates): the phases of `string_to_location_coordinate` on strings
of the grammar  -? ( D+ ( . D* )? | . D+ ) ( [eE] -? D+ )?  followed by anything that cannot
continue the number.
-/
import Osmium.Lemmas.ConvInt
import Mathlib.Tactic.Ring

namespace Osmium.Conv

open IntLemmas (digitsStr valMS valFrom AllDigits NoDigitHead digitsStr_nil digitsStr_cons
  allDigits_cons valFrom_nil valFrom_cons)

/-! ### the digit loops -/

theorem digitsLoop_spec (ds : List Nat) : ∀ (n acc : Nat) (rest : List UInt8),
    AllDigits ds → NoDigitHead rest →
    digitsLoop n acc (digitsStr ds ++ rest)
      = (valFrom acc (ds.take n), n - ds.length, digitsStr (ds.drop n) ++ rest) := by
  induction ds with
  | nil =>
    intro n acc rest _ hr
    cases n with
    | zero => simp [digitsLoop]
    | succ n =>
      cases rest with
      | nil => simp [digitsLoop]
      | cons c s =>
        have : isDigit c = false := hr
        simp [digitsLoop, this]
  | cons d ds ih =>
    intro n acc rest hd hr
    obtain ⟨hd0, hds⟩ := allDigits_cons hd
    cases n with
    | zero => simp [digitsLoop]
    | succ n =>
      simp only [digitsStr_cons, List.cons_append, digitsLoop, IntLemmas.isDigit_digitChar hd0,
        IntLemmas.digitVal_digitChar hd0, if_true, ih n _ rest hds hr, List.take_succ_cons,
        valFrom_cons, List.length_cons, List.drop_succ_cons]
      congr 2
      omega

theorem skipDigits_spec (ds : List Nat) : ∀ (n : Nat) (rest : List UInt8),
    AllDigits ds → NoDigitHead rest →
    skipDigits n (digitsStr ds ++ rest) = (n - ds.length, digitsStr (ds.drop n) ++ rest) := by
  induction ds with
  | nil =>
    intro n rest _ hr
    cases n with
    | zero => simp [skipDigits]
    | succ n =>
      cases rest with
      | nil => simp [skipDigits]
      | cons c s =>
        have : isDigit c = false := hr
        simp [skipDigits, this]
  | cons d ds ih =>
    intro n rest hd hr
    obtain ⟨hd0, hds⟩ := allDigits_cons hd
    cases n with
    | zero => simp [skipDigits]
    | succ n =>
      simp only [digitsStr_cons, List.cons_append, skipDigits, IntLemmas.isDigit_digitChar hd0,
        if_true, ih n rest hds hr, List.length_cons, List.drop_succ_cons]
      congr 1
      omega

/-! ### values of digit lists -/

theorem valFrom_eq (ds : List Nat) : ∀ acc, valFrom acc ds = acc * 10 ^ ds.length + valMS ds := by
  induction ds with
  | nil => intro acc; simp [valMS]
  | cons d ds ih =>
    intro acc
    have h1 := ih (acc * 10 + d)
    have h2 : valMS (d :: ds) = valFrom (0 * 10 + d) ds := rfl
    rw [valFrom_cons, h1, h2, ih, List.length_cons, Nat.pow_succ]
    ring

theorem valMS_append (a b : List Nat) : valMS (a ++ b) = valMS a * 10 ^ b.length + valMS b := by
  have : valMS (a ++ b) = valFrom (valMS a) b := by
    simp [valMS, valFrom, List.foldl_append]
  rw [this, valFrom_eq]

theorem valMS_lt (ds : List Nat) (hd : AllDigits ds) : valMS ds < 10 ^ ds.length := by
  induction ds with
  | nil => simp [valMS]
  | cons d ds ih =>
    have hds : AllDigits ds := (allDigits_cons hd).2
    have hd0 : d < 10 := (allDigits_cons hd).1
    have := ih hds
    have h2 : valMS (d :: ds) = valFrom (0 * 10 + d) ds := rfl
    rw [h2, valFrom_eq, List.length_cons, Nat.pow_succ]
    simp only [Nat.zero_mul, Nat.zero_add]
    have : d * 10 ^ ds.length ≤ 9 * 10 ^ ds.length := Nat.mul_le_mul_right _ (by omega)
    omega

/-- dropping the last `k` digits divides by `10^k` -/
theorem valMS_take (a f : List Nat) (hf : AllDigits f) (n : Nat) :
    valMS (a ++ f.take n) = valMS (a ++ f) / 10 ^ (f.length - n) := by
  have hlt := valMS_lt (f.drop n) (fun x hx => hf x (List.mem_of_mem_drop hx))
  have hsplit : valMS (a ++ f) = valMS (a ++ f.take n) * 10 ^ (f.length - n) + valMS (f.drop n) := by
    conv_lhs => rw [← List.take_append_drop n f, ← List.append_assoc, valMS_append, List.length_drop]
  rw [List.length_drop] at hlt
  rw [hsplit, Nat.add_comm, Nat.add_mul_div_right _ _ (Nat.pow_pos (by decide)), Nat.div_eq_of_lt hlt]
  simp

/-! ### characters -/

theorem digitChar_ne_lo {d : Nat} (hd : d < 10) {c : UInt8} (hc : c.toNat < 48) : digitChar d ≠ c := by
  intro h; have := IntLemmas.toNat_digitChar hd; rw [h] at this; omega

theorem digitChar_ne_hi {d : Nat} (hd : d < 10) {c : UInt8} (hc : 57 < c.toNat) : digitChar d ≠ c := by
  intro h; have := IntLemmas.toNat_digitChar hd; rw [h] at this; omega

theorem isDigit_false_lo {c : UInt8} (hc : c.toNat < 48) : isDigit c = false := by
  simp only [isDigit, Bool.and_eq_false_iff, decide_eq_false_iff_not]; omega

theorem isDigit_false_hi {c : UInt8} (hc : 57 < c.toNat) : isDigit c = false := by
  simp only [isDigit, Bool.and_eq_false_iff, decide_eq_false_iff_not]; omega

/-! ### the grammar -/

/-- a string of the coordinate grammar, given by its digit lists -/
structure CoordStr where
  neg : Bool                               -- leading '-'
  ip : List Nat                            -- digits before the decimal point
  fp : Option (List Nat)                   -- '.' and the digits after it
  ex : Option (Bool × Bool × List Nat)     -- exponent: (capital 'E', '-', digits)

def fracStr : Option (List Nat) → List UInt8
  | none => []
  | some f => cDot :: digitsStr f

def expStr : Option (Bool × Bool × List Nat) → List UInt8
  | none => []
  | some (up, n, e) => (if up then cE else ce) :: ((if n then [cMinus] else []) ++ digitsStr e)

def CoordStr.render (g : CoordStr) : List UInt8 :=
  (if g.neg then [cMinus] else []) ++ (digitsStr g.ip ++ (fracStr g.fp ++ expStr g.ex))

/-- all lists are digits; there is a digit before or after the dot; the exponent has a digit -/
structure CoordStr.WellFormed (g : CoordStr) : Prop where
  ip : AllDigits g.ip
  fp : ∀ f, g.fp = some f → AllDigits f
  ex : ∀ up n e, g.ex = some (up, n, e) → AllDigits e ∧ e ≠ []
  some_digit : g.ip ≠ [] ∨ ∃ f, g.fp = some f ∧ f ≠ []

/-- what follows the number cannot be taken for a continuation of it -/
structure CoordStr.Follow (g : CoordStr) (rest : List UInt8) : Prop where
  no_digit : NoDigitHead rest
  no_e : g.ex = none → peek rest ≠ ce ∧ peek rest ≠ cE
  no_dot : g.ex = none → g.fp = none → peek rest ≠ cDot

def fracLen (g : CoordStr) : Nat := match g.fp with | none => 0 | some f => f.length
def fracDigits (g : CoordStr) : List Nat := match g.fp with | none => [] | some f => f
def expLen (g : CoordStr) : Nat := match g.ex with | none => 0 | some (_, _, e) => e.length
/-- the exponent as an integer -/
def expVal (g : CoordStr) : Int :=
  match g.ex with | none => 0 | some (_, n, e) => if n then -(valMS e : Int) else (valMS e : Int)

theorem noDigitHead_expStr (ex : Option (Bool × Bool × List Nat)) (rest : List UInt8)
    (hr : NoDigitHead rest) : NoDigitHead (expStr ex ++ rest) := by
  match ex with
  | none => simpa [expStr] using hr
  | some (up, n, e) =>
    cases up
    · exact isDigit_false_hi (c := ce) (by decide)
    · exact isDigit_false_hi (c := cE) (by decide)

theorem noDigitHead_fracStr (fp : Option (List Nat)) (tail : List UInt8)
    (hr : NoDigitHead tail) : NoDigitHead (fracStr fp ++ tail) := by
  match fp with
  | none => simpa [fracStr] using hr
  | some f => exact isDigit_false_lo (c := cDot) (by decide)

/-! ### the phases -/

theorem intPart_spec (ip : List Nat) (hip : AllDigits ip) (tail : List UInt8) (ht : NoDigitHead tail)
    (h0 : ip = [] → ∃ d, d < 10 ∧ ∃ t, tail = cDot :: digitChar d :: t) :
    intPart (digitsStr ip ++ tail) = if ip.length ≤ 10 then some (valMS ip, tail) else none := by
  cases ip with
  | nil =>
    obtain ⟨d, hd, t, rfl⟩ := h0 rfl
    simp [intPart, peek, IntLemmas.isDigit_digitChar hd, valMS]
  | cons d ds =>
    obtain ⟨hd, hds⟩ := allDigits_cons hip
    have hne : digitChar d ≠ cDot := digitChar_ne_lo hd (by decide)
    have hv : valFrom (digitVal (digitChar d)) ds = valMS (d :: ds) := by
      rw [IntLemmas.digitVal_digitChar hd]; simp [valMS, valFrom]
    simp only [intPart, digitsStr_cons, List.cons_append, peek, bne_iff_ne, ne_eq, hne,
      not_false_eq_true, if_true, IntLemmas.isDigit_digitChar hd, digitsLoop_spec ds 10 _ tail hds ht,
      List.length_cons]
    by_cases hl : ds.length + 1 ≤ 10
    · have h1 : ¬ (10 - ds.length = 0) := by omega
      have h2 : ds.take 10 = ds := List.take_of_length_le (by omega)
      have h3 : ds.drop 10 = [] := List.drop_of_length_le (by omega)
      simp [hl, h1, h2, h3, hv]
    · have h1 : 10 - ds.length = 0 := by omega
      simp [hl, h1]

theorem fracPart_spec (r : Nat) (fp : Option (List Nat)) (hfp : ∀ f, fp = some f → AllDigits f)
    (tail : List UInt8) (ht : NoDigitHead tail) (hdot : fp = none → peek tail ≠ cDot) :
    fracPart r (fracStr fp ++ tail) =
      match fp with
      | none => some (r, 8, [], tail)
      | some f => if f.length ≤ 27 then some (valFrom r (f.take 8), 8 - f.length, digitsStr (f.drop 8), tail) else none := by
  match fp with
  | none =>
    have := hdot rfl
    simp [fracPart, fracStr, this]
  | some f =>
    have hf := hfp f rfl
    have hfd : AllDigits (f.drop 8) := fun x hx => hf x (List.mem_of_mem_drop hx)
    simp only [fracPart, fracStr, List.cons_append, peek, beq_self_eq_true, if_true, List.tail_cons,
      digitsLoop_spec f 8 r tail hf ht, skipDigits_spec (f.drop 8) 20 tail hfd ht, List.length_drop]
    by_cases hl : f.length ≤ 27
    · have h1 : ¬ (20 - (f.length - 8) = 0) := by omega
      have h3 : (f.drop 8).drop 20 = [] := List.drop_of_length_le (by simp; omega)
      have h4 : 20 - (20 - (f.length - 8)) = (digitsStr (f.drop 8)).length := by
        simp [digitsStr]; omega
      simp only [beq_iff_eq, h1, if_false, hl, if_true, h3, digitsStr_nil, List.nil_append, h4,
        List.take_left']
    · have h1 : 20 - (f.length - 8) = 0 := by omega
      simp [hl, h1]

theorem expPart_spec (ex : Option (Bool × Bool × List Nat))
    (hex : ∀ up n e, ex = some (up, n, e) → AllDigits e ∧ e ≠ [])
    (rest : List UInt8) (hr : NoDigitHead rest) (he : ex = none → peek rest ≠ ce ∧ peek rest ≠ cE) :
    expPart (expStr ex ++ rest) =
      match ex with
      | none => some (0, rest)
      | some (_, n, e) => if e.length ≤ 5 then some ((valMS e : Int) * (if n then -1 else 1), rest) else none := by
  match ex with
  | none =>
    obtain ⟨h1, h2⟩ := he rfl
    simp [expPart, expStr, h1, h2]
  | some (up, n, e) =>
    obtain ⟨hd, hne⟩ := hex up n e rfl
    cases e with
    | nil => exact absurd rfl hne
    | cons d ds =>
      obtain ⟨hd0, hds⟩ := allDigits_cons hd
      have hup : (peek (expStr (some (up, n, d :: ds)) ++ rest) == ce || peek (expStr (some (up, n, d :: ds)) ++ rest) == cE) = true := by
        cases up <;> simp [expStr, peek]
      have hm : digitChar d ≠ cMinus := digitChar_ne_lo hd0 (by decide)
      have hv : valFrom (digitVal (digitChar d)) ds = valMS (d :: ds) := by
        rw [IntLemmas.digitVal_digitChar hd0]; simp [valMS, valFrom]
      have hs2 : (if peek ((if n then [cMinus] else []) ++ digitsStr (d :: ds) ++ rest) == cMinus
            then ((-1 : Int), ((if n then [cMinus] else []) ++ digitsStr (d :: ds) ++ rest).tail)
            else ((1 : Int), (if n then [cMinus] else []) ++ digitsStr (d :: ds) ++ rest))
          = ((if n then (-1 : Int) else 1), digitChar d :: (digitsStr ds ++ rest)) := by
        cases n <;> simp [peek, hm]
      unfold expPart
      rw [if_pos hup]
      have htail : (expStr (some (up, n, d :: ds)) ++ rest).tail
          = (if n then [cMinus] else []) ++ digitsStr (d :: ds) ++ rest := by
        simp [expStr]
      simp only [htail, hs2, IntLemmas.isDigit_digitChar hd0, if_true,
        digitsLoop_spec ds 5 _ rest hds hr, List.length_cons]
      by_cases hl : ds.length + 1 ≤ 5
      · have h1 : ¬ (5 - ds.length = 0) := by omega
        have h2 : ds.take 5 = ds := List.take_of_length_le (by omega)
        have h3 : ds.drop 5 = [] := List.drop_of_length_le (by omega)
        simp [hl, h1, h2, h3, hv]
      · have h1 : 5 - ds.length = 0 := by omega
        simp [hl, h1]

/-! ### the whole parser on a grammar string -/

/-- the arithmetic the parser runs after tokenising: scale, round, range check -/
def coordCore (v : Variant) (neg : Bool) (m8 sc : Nat) (extra : List UInt8) (e : Int)
    (rest : List UInt8) : Except Err CoordOut :=
  let scale : Int := (sc : Int) + e
  if scale < 0 then finishCoord (divLoop scale.natAbs m8) false (if neg then -1 else 1) rest
  else
    match mulLoop v scale.toNat m8 (if v.fixDigits then extra else []) false with
    | none => .error .invalidLocation
    | some (r3, o) => finishCoord r3 o (if neg then -1 else 1) rest

theorem parseCoord_grammar (v : Variant) (g : CoordStr) (hw : g.WellFormed) (rest : List UInt8)
    (hf : g.Follow rest) :
    parseCoord v (g.render ++ rest) =
      if g.ip.length ≤ 10 ∧ fracLen g ≤ 27 ∧ expLen g ≤ 5 then
        coordCore v g.neg (valMS (g.ip ++ (fracDigits g).take 8)) (8 - fracLen g)
          (digitsStr ((fracDigits g).drop 8)) (expVal g) rest
      else .error .invalidLocation := by
  obtain ⟨neg, ip, fp, ex⟩ := g
  obtain ⟨hip, hfp, hex, hsome⟩ := hw
  obtain ⟨hr, hne, hnd⟩ := hf
  simp only at hip hfp hex hsome hr hne hnd
  -- the tails
  have ht2 : NoDigitHead (expStr ex ++ rest) := noDigitHead_expStr ex rest hr
  have ht1 : NoDigitHead (fracStr fp ++ (expStr ex ++ rest)) := noDigitHead_fracStr fp _ ht2
  have hdot : fp = none → peek (expStr ex ++ rest) ≠ cDot := by
    intro hfp0
    match ex, hne, hnd with
    | none, _, hnd => simpa [expStr] using hnd rfl hfp0
    | some (up, n, e), _, _ => cases up <;> simp [expStr, peek] <;> decide
  have h0 : ip = [] → ∃ d, d < 10 ∧ ∃ t, fracStr fp ++ (expStr ex ++ rest) = cDot :: digitChar d :: t := by
    intro hip0
    rcases hsome with h | ⟨f, hf1, hf2⟩
    · exact absurd hip0 h
    · subst hf1
      cases f with
      | nil => exact absurd rfl hf2
      | cons d ds => exact ⟨d, (allDigits_cons (hfp _ rfl)).1, digitsStr ds ++ (expStr ex ++ rest), by simp [fracStr]⟩
  -- the sign
  have hX : peek (digitsStr ip ++ (fracStr fp ++ (expStr ex ++ rest))) ≠ cMinus := by
    cases ip with
    | nil =>
      obtain ⟨d, _, t, ht⟩ := h0 rfl
      rw [ht]; simp [peek]; decide
    | cons d ds => exact digitChar_ne_lo (allDigits_cons hip).1 (by decide)
  have hrender : CoordStr.render ⟨neg, ip, fp, ex⟩ ++ rest
      = (if neg then [cMinus] else []) ++ (digitsStr ip ++ (fracStr fp ++ (expStr ex ++ rest))) := by
    simp [CoordStr.render, List.append_assoc]
  have hsign : (if peek (CoordStr.render ⟨neg, ip, fp, ex⟩ ++ rest) == cMinus
        then ((-1 : Int), (CoordStr.render ⟨neg, ip, fp, ex⟩ ++ rest).tail)
        else ((1 : Int), CoordStr.render ⟨neg, ip, fp, ex⟩ ++ rest))
      = ((if neg then (-1 : Int) else 1), digitsStr ip ++ (fracStr fp ++ (expStr ex ++ rest))) := by
    rw [hrender]
    cases neg
    · simp [hX]
    · simp [peek]
  unfold parseCoord
  simp only [hsign, intPart_spec ip hip _ ht1 h0]
  by_cases hl1 : ip.length ≤ 10
  · simp only [hl1, if_true, true_and, fracPart_spec _ fp hfp _ ht2 hdot]
    match fp, hfp with
    | none, _ =>
      simp only [fracLen, fracDigits, Nat.zero_le, true_and, expPart_spec ex hex rest hr hne]
      match ex, hex with
      | none, _ => simp [expLen, expVal, coordCore] <;> rfl
      | some (up, n, e), _ =>
        by_cases hl3 : e.length ≤ 5
        · cases n <;> simp [expLen, expVal, coordCore, hl3] <;> rfl
        · simp [expLen, hl3]
    | some f, hfp =>
      by_cases hl2 : f.length ≤ 27
      · simp only [fracLen, fracDigits, hl2, if_true, true_and, expPart_spec ex hex rest hr hne]
        have hm : valFrom (valMS ip) (f.take 8) = valMS (ip ++ f.take 8) := by
          simp [valMS, valFrom, List.foldl_append]
        match ex, hex with
        | none, _ => simp [expLen, expVal, coordCore, hm] <;> rfl
        | some (up, n, e), _ =>
          by_cases hl3 : e.length ≤ 5
          · cases n <;> simp [expLen, expVal, coordCore, hl3, hm] <;> rfl
          · simp [expLen, hl3]
      · simp [fracLen, hl2]
  · simp [hl1]

end Osmium.Conv
