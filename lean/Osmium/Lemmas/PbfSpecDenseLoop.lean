/-
C02, PBF: the `while (!ids.empty())` loop of `decode_dense_nodes` over the arrays of the specification encoder
(exact integer deltas, any granularity / offsets / date granularity, version -1, arrays omitted when all-default).
-/
import Osmium.Lemmas.PbfSpecDenseDefs
import Osmium.Lemmas.PbfDense3

namespace Osmium.Pbf

open Osmium.Wire Osmium.Osm Osmium.PbfMsg
open Osmium.PbfSpec (Choices)
open Osmium.StringTable (Table lookup)

/-! ### the cursor after some nodes were consumed -/

/-- which arrays the encoder left out (fixed for the whole group) -/
structure SpecOmit where
  tags : Bool
  versions : Bool
  timestamps : Bool
  changesets : Bool
  uids : Bool
  userSids : Bool
  visibles : Bool

def specOmitOf (ch : Choices) (hist : Bool) (ns : List (Meta × Location)) : SpecOmit :=
  let ms := ns.map (·.1)
  let od := ch.omitDefaults
  { tags := od && ms.all (·.tags.isEmpty),
    versions := od && ms.all (·.version == 0),
    timestamps := od && ms.all (·.timestamp == 0),
    changesets := od && ms.all (·.changeset == 0),
    uids := od && ms.all (·.uid == 0),
    userSids := od && ms.all (·.user.isEmpty),
    visibles := (od || !hist) && ms.all (·.visible) }

/-- the loop cursor for the nodes still to come -/
def specCurOf (ch : Choices) (table : List Bytes) (om : SpecOmit) (pv : Prev) (ns : List (Meta × Location)) : DenseCur :=
  let ms := ns.map (·.1)
  { ids := (PbfSpec.delta pv.id (ms.map (·.id))).map zigzag64,
    lats := (PbfSpec.delta pv.lat (ns.map fun n => PbfSpec.coord ch.granularity ch.latOffset n.2.y)).map zigzag64,
    lons := (PbfSpec.delta pv.lon (ns.map fun n => PbfSpec.coord ch.granularity ch.lonOffset n.2.x)).map zigzag64,
    tags := if om.tags then [] else
      ms.flatMap fun m => (m.tags.flatMap fun t => [PbfSpec.idx table t.key, PbfSpec.idx table t.value]) ++ [0],
    versions := if om.versions then [] else
      ms.map fun m => PbfSpec.u64 (if m.version == 0 && ch.versionMinusOne then -1 else m.version),
    timestamps := if om.timestamps then [] else
      (PbfSpec.delta pv.ts (ms.map fun m => PbfSpec.stamp ch.dateGranularity m.timestamp)).map zigzag64,
    changesets := if om.changesets then [] else
      (PbfSpec.delta pv.cs (ms.map fun m => (m.changeset : Int))).map zigzag64,
    uids := if om.uids then [] else
      (PbfSpec.delta pv.uid (ms.map fun m => (m.uid : Int))).map PbfSpec.zigzag32,
    userSids := if om.userSids then [] else
      (PbfSpec.delta pv.sid (ms.map fun m => (PbfSpec.idx table m.user : Int))).map PbfSpec.zigzag32,
    visibles := if om.visibles then [] else ms.map fun m => if m.visible then 1 else 0,
    dId := pv.id, dLat := pv.lat, dLon := pv.lon, dUid := pv.uid, dUserSid := pv.sid, dChangeset := pv.cs,
    dTimestamp := pv.ts }

theorem specDenseCur_eq (ch : Choices) (table : List Bytes) (hist : Bool) (ns : List (Meta × Location)) :
    specDenseCur ch table hist ns = specCurOf ch table (specOmitOf ch hist ns) {} ns := rfl

def specNext (ch : Choices) (table : List Bytes) (om : SpecOmit) (pv : Prev) (n : Meta × Location) : Prev :=
  { id := n.1.id,
    lat := PbfSpec.coord ch.granularity ch.latOffset n.2.y,
    lon := PbfSpec.coord ch.granularity ch.lonOffset n.2.x,
    ts := if om.timestamps then pv.ts else PbfSpec.stamp ch.dateGranularity n.1.timestamp,
    cs := if om.changesets then pv.cs else (n.1.changeset : Int),
    uid := if om.uids then pv.uid else (n.1.uid : Int),
    sid := if om.userSids then pv.sid else (PbfSpec.idx table n.1.user : Int) }

/-- what the 32-bit delta arrays need of the previous values -/
def SpecPrevOk (pv : Prev) : Prop :=
  (0 ≤ pv.uid ∧ pv.uid < (2:Int)^31) ∧ (0 ≤ pv.sid ∧ pv.sid < (2:Int)^31)

/-- an omitted array means that the node has the default value -/
def SpecDefault (om : SpecOmit) (m : Meta) : Prop :=
  (om.tags = true → m.tags = []) ∧ (om.versions = true → m.version = 0) ∧ (om.timestamps = true → m.timestamp = 0) ∧
  (om.changesets = true → m.changeset = 0) ∧ (om.uids = true → m.uid = 0) ∧ (om.userSids = true → m.user = []) ∧
  (om.visibles = true → m.visible = true)

/-! ### the per-array parts of one iteration -/

theorem spec_wrap64_delta (pv x : Int) (h : IdOk x) : wrap64 (pv + unzigzag64 (zigzag64 (x - pv))) = x := by
  rw [unzigzag_zigzag]
  have : pv + (x - pv) = x := by omega
  rw [this]
  exact Delta.swrap64_id x h.1 h.2

theorem spec_ds_version (o vm : Bool) (v : Nat) (rest : List Nat) (hv : v < 2 ^ 31) (h0 : o = true → v = 0) :
    dsVersion (if o then [] else u64 (if (v == 0 && vm) = true then -1 else (v : Int)) :: rest) =
      some (v, if o then [] else rest) := by
  cases o
  · simp only [Bool.false_eq_true, ↓reduceIte, dsVersion]
    by_cases h : (v == 0 && vm) = true
    · have e : toInt32 (u64 (-1)) = -1 := by decide
      simp only [h, ↓reduceIte, e]
      simp only [Bool.and_eq_true, beq_iff_eq] at h
      simp [versionOf, h.1]
    · simp only [h, Bool.false_eq_true, ↓reduceIte]
      rw [u64_nat v (by simp only [Nat.reducePow] at *; omega), toInt32_small v hv, versionOf_nat]
      rfl
  · simp [dsVersion, h0 rfl]

theorem spec_ds_changeset (o : Bool) (pv : Int) (cs : Nat) (rest : List Nat) (hc : cs < 2 ^ 32) (h0 : o = true → cs = 0) :
    dsChangeset pv (if o then [] else zigzag64 ((cs : Int) - pv) :: rest) =
      some (cs, if o then [] else rest, if o then pv else (cs : Int)) := by
  cases o
  · have hid : IdOk (cs : Int) := by unfold IdOk; simp only [Int.reducePow, Nat.reducePow] at *; omega
    simp [dsChangeset, spec_wrap64_delta pv cs hid, changesetOf_nat cs hc]
  · simp [dsChangeset, h0 rfl]

theorem spec_ds_timestamp (o : Bool) (dg pv : Int) (ts : Nat) (rest : List Nat) (hdg : 0 < dg ∧ dg < (2:Int) ^ 31)
    (hc : ts < 2 ^ 32) (hr : dg ∣ 1000 * (ts : Int)) (h0 : o = true → ts = 0) :
    dsTimestamp dg pv (if o then [] else zigzag64 (PbfSpec.stamp dg ts - pv) :: rest) =
      (ts, if o then [] else rest, if o then pv else PbfSpec.stamp dg ts) := by
  cases o
  · have hb := spec_stamp_bound dg ts hdg.1 hc
    have hid : IdOk (PbfSpec.stamp dg ts) := by unfold IdOk; simp only [Int.reducePow, Nat.reducePow] at *; omega
    simp [dsTimestamp, spec_wrap64_delta pv _ hid, spec_convTimestamp_stamp dg ts hdg hc hr]
  · simp [dsTimestamp, h0 rfl]

theorem spec_wrap64_delta32 (pv x : Int) (hp1 : 0 ≤ pv) (hp2 : pv < (2:Int)^31) (hx1 : 0 ≤ x) (hx2 : x < (2:Int)^31) :
    wrap64 (pv + unzigzag32 (zigzag32 (x - pv))) = x := by
  rw [unzigzag32_zigzag32 _ (by simp only [Int.reducePow] at *; omega) (by simp only [Int.reducePow] at *; omega)]
  have : pv + (x - pv) = x := by omega
  rw [this]
  exact Delta.swrap64_id x (by simp only [Int.reducePow] at *; omega) (by simp only [Int.reducePow] at *; omega)

theorem spec_ds_uid (o : Bool) (pv : Int) (uid : Nat) (rest : List Nat) (hp1 : 0 ≤ pv) (hp2 : pv < (2:Int)^31)
    (hc : uid < 2 ^ 31) (h0 : o = true → uid = 0) :
    dsUid pv (if o then [] else zigzag32 ((uid : Int) - pv) :: rest) =
      (uid, if o then [] else rest, if o then pv else (uid : Int)) := by
  cases o
  · have e : toInt32 (u64 (uid : Int)) = (uid : Int) := by
      rw [u64_nat uid (by simp only [Nat.reducePow] at *; omega), toInt32_small uid hc]
    have w := spec_wrap64_delta32 pv uid hp1 hp2 (by omega) (by simp only [Int.reducePow, Nat.reducePow] at *; omega)
    simp [dsUid, w, e, uidOf_nat]
  · simp [dsUid, h0 rfl]

theorem spec_ds_visible (o vis : Bool) (rest : List Nat) (h0 : o = true → vis = true) :
    dsVisible (if o then [] else (if vis then 1 else 0) :: rest) = (vis, if o then [] else rest) := by
  cases o
  · cases vis <;> simp [dsVisible] <;> decide
  · simp [dsVisible, h0 rfl]

theorem spec_ds_user (o : Bool) (T : List Bytes) (pv : Int) (sid : Nat) (user : Bytes) (rest : List Nat)
    (hp1 : 0 ≤ pv) (hp2 : pv < (2:Int)^31) (hc : sid < 2 ^ 31) (hu : T[sid]? = some user) (h0 : o = true → user = []) :
    dsUser T pv (if o then [] else zigzag32 ((sid : Int) - pv) :: rest) =
      some (user, if o then [] else rest, if o then pv else (sid : Int)) := by
  cases o
  · have w := spec_wrap64_delta32 pv sid hp1 hp2 (by omega) (by simp only [Int.reducePow, Nat.reducePow] at *; omega)
    simp [dsUser, w, lookup_nat, hu]
  · simp [dsUser, h0 rfl]

/-! ### tags -/

theorem spec_denseTags_params (p q : Params) (h : p.strings = q.strings) :
    ∀ (fuel : Nat) (ts : List Nat), denseTags p fuel ts = denseTags q fuel ts
  | 0, ts => by simp [denseTags]
  | f + 1, [] => by simp [denseTags]
  | f + 1, [k] => by simp [denseTags, h]
  | f + 1, k :: v :: ts => by simp [denseTags, h, spec_denseTags_params p q h f ts]

theorem spec_tags_lookup (table : List Bytes) : ∀ (tags : List Tag),
    (∀ s ∈ tags.flatMap (fun t => [t.key, t.value]), TableOk table s) →
    (tags.flatMap fun t => [PbfSpec.idx table t.key, PbfSpec.idx table t.value]).map (fun i => table[i]?) =
        (tags.flatMap fun tg => [tg.key, tg.value]).map some ∧
      ∀ i ∈ (tags.flatMap fun t => [PbfSpec.idx table t.key, PbfSpec.idx table t.value]), 0 < i ∧ i < 2 ^ 31
  | [], _ => by simp
  | t :: tags, h => by
    have hk := h t.key (by simp)
    have hv := h t.value (by simp)
    have ih := spec_tags_lookup table tags (fun s hs => h s (by
      simp only [List.flatMap_cons, List.mem_append]; exact Or.inr hs))
    constructor
    · simp only [List.flatMap_cons, List.map_append, List.map_cons, List.map_nil, hk.2.2, hv.2.2, ih.1]
    · intro i hi
      simp only [List.flatMap_cons, List.mem_append, List.mem_cons, List.not_mem_nil, or_false] at hi
      rcases hi with (rfl | rfl) | hi
      · exact ⟨hk.1, hk.2.1⟩
      · exact ⟨hv.1, hv.2.1⟩
      · exact ih.2 i hi

theorem spec_ds_tags (o : Bool) (p : Params) (tags : List Tag) (rest : List Nat)
    (ht : ∀ s ∈ tags.flatMap (fun t => [t.key, t.value]), TableOk p.strings s) (h0 : o = true → tags = []) :
    dsTags p (if o then [] else
      ((tags.flatMap fun t => [PbfSpec.idx p.strings t.key, PbfSpec.idx p.strings t.value]) ++ [0]) ++ rest) =
      some (tags, if o then [] else rest) := by
  cases o
  · obtain ⟨hres, hkb⟩ := spec_tags_lookup p.strings tags ht
    simp only [Bool.false_eq_true, ↓reduceIte]
    generalize (tags.flatMap fun (t : Tag) => [PbfSpec.idx p.strings t.key, PbfSpec.idx p.strings t.value]) = kv at hres hkb ⊢
    unfold dsTags
    have hne : ((kv ++ [0]) ++ rest).isEmpty = false := by simp
    rw [hne]
    simp only [Bool.false_eq_true, ↓reduceIte]
    rw [spec_denseTags_params p { strings := p.strings } rfl]
    have hmap : (kv ++ [0]).map (fun i => u64 (toInt32 i)) = kv ++ [0] := by
      conv => rhs; rw [← List.map_id (kv ++ [0])]
      apply List.map_congr_left
      intro i hi
      have hi31 : i < 2 ^ 31 := by
        rcases List.mem_append.mp hi with hi | hi
        · exact (hkb i hi).2
        · simp at hi; subst hi; decide
      rw [toInt32_small i hi31, u64_nat i (by simp only [Nat.reducePow] at *; omega)]
      rfl
    have hl2 : kv.length = 2 * tags.length := by
      have h1 := congrArg List.length hres
      simp only [List.length_map] at h1
      rw [h1, flatMap_pair_length]
    have hlen : tags.length + 1 ≤ ((kv ++ [0]) ++ rest).length := by
      simp only [List.length_append, List.length_cons, List.length_nil]
      omega
    generalize ((kv ++ [0]) ++ rest).length = fuel at hlen
    rw [← hmap]
    exact denseTags_group p.strings tags _ rest fuel hres hkb hlen
  · simp [dsTags, h0 rfl]

/-! ### one iteration -/

theorem spec_denseIter_node (ch : Choices) (hch : ChoicesOk ch) (table : List Bytes) (om : SpecOmit) (pv : Prev)
    (m : Meta) (l : Location) (rest : List (Meta × Location))
    (hn : ObjRep ch (.node m l)) (htab : ∀ s ∈ PbfSpec.stringsOf (.node m l), TableOk table s)
    (hdef : SpecDefault om m) (hpv : SpecPrevOk pv) :
    denseIter (specParams ch table) (specCurOf ch table om pv ((m, l) :: rest)) =
      some (specCurOf ch table om (specNext ch table om pv (m, l)) rest, .node m l) := by
  obtain ⟨⟨hd, hid, hst, hstr⟩, hl, hvis⟩ := hn
  obtain ⟨hv, hui, hts, hcs⟩ := hd
  obtain ⟨d1, d2, d3, d4, d5, d6, d7⟩ := hdef
  obtain ⟨hpuid, hpsid⟩ := hpv
  have tu : TableOk table m.user := htab m.user (by simp [PbfSpec.stringsOf])
  have tt : ∀ s ∈ m.tags.flatMap (fun t => [t.key, t.value]), TableOk table s := fun s hs =>
    htab s (by simp only [PbfSpec.stringsOf, List.mem_cons]; exact Or.inr hs)
  simp only [denseIter, specCurOf, List.map_cons, PbfSpec.delta, List.flatMap_cons, specParams, spec_u64, spec_zigzag32]
  have e1 := spec_ds_version om.versions ch.versionMinusOne m.version
    (List.map (fun (m : Meta) => u64 (if (m.version == 0 && ch.versionMinusOne) = true then -1 else (m.version : Int)))
      (List.map (fun x => x.fst) rest)) hv d2
  have e2 := spec_ds_changeset om.changesets pv.cs m.changeset
    (List.map zigzag64 (PbfSpec.delta (m.changeset : Int) (List.map (fun (m : Meta) => (m.changeset : Int)) (List.map (fun x => x.fst) rest))))
    hcs d4
  have e3 := spec_ds_timestamp om.timestamps ch.dateGranularity pv.ts m.timestamp
    (List.map zigzag64 (PbfSpec.delta (PbfSpec.stamp ch.dateGranularity m.timestamp)
      (List.map (fun (m : Meta) => PbfSpec.stamp ch.dateGranularity m.timestamp) (List.map (fun x => x.fst) rest))))
    hch.dgran hts hst d3
  have e4 := spec_ds_uid om.uids pv.uid m.uid
    (List.map zigzag32 (PbfSpec.delta (m.uid : Int) (List.map (fun (m : Meta) => (m.uid : Int)) (List.map (fun x => x.fst) rest))))
    hpuid.1 hpuid.2 hui d5
  have e5 := spec_ds_visible om.visibles m.visible
    (List.map (fun (m : Meta) => if m.visible = true then 1 else 0) (List.map (fun x => x.fst) rest)) d7
  have e6 := spec_ds_user om.userSids table pv.sid (PbfSpec.idx table m.user) m.user
    (List.map zigzag32 (PbfSpec.delta (PbfSpec.idx table m.user : Int)
      (List.map (fun (m : Meta) => (PbfSpec.idx table m.user : Int)) (List.map (fun x => x.fst) rest))))
    hpsid.1 hpsid.2 tu.2.1 tu.2.2 d6
  have e7 := spec_ds_tags om.tags (specParams ch table) m.tags
    (List.flatMap (fun (m : Meta) => List.flatMap (fun (t : Tag) => [PbfSpec.idx table t.key, PbfSpec.idx table t.value]) m.tags ++ [0])
      (List.map (fun x => x.fst) rest)) tt d1
  simp only [specParams] at e7
  rw [e1, e2, e3, e4, e5, e6, e7]
  have ilat : IdOk (PbfSpec.coord ch.granularity ch.latOffset l.y) := by
    have := spec_coord_bound ch.granularity ch.latOffset l.y hch.gran.1 hch.latOff hl.2
    unfold IdOk; simp only [Int.reducePow] at *; omega
  have ilon : IdOk (PbfSpec.coord ch.granularity ch.lonOffset l.x) := by
    have := spec_coord_bound ch.granularity ch.lonOffset l.x hch.gran.1 hch.lonOff hl.1
    unfold IdOk; simp only [Int.reducePow] at *; omega
  have w1 := spec_wrap64_delta pv.id m.id hid
  have w2 := spec_wrap64_delta pv.lat _ ilat
  have w3 := spec_wrap64_delta pv.lon _ ilon
  have hloc : (if m.visible = true then
      Location.mk (convCoord ch.granularity ch.lonOffset (PbfSpec.coord ch.granularity ch.lonOffset l.x))
        (convCoord ch.granularity ch.latOffset (PbfSpec.coord ch.granularity ch.latOffset l.y))
      else Location.undefined) = l := by
    cases hvv : m.visible
    · simp only [hvv, Bool.false_eq_true, ↓reduceIte] at hvis ⊢
      exact hvis.symm
    · simp only [hvv, ↓reduceIte] at hvis ⊢
      obtain ⟨_, hx, hy⟩ := hvis
      rw [spec_convCoord_coord _ _ _ hch.gran.1 hch.lonOff hl.1 hx, spec_convCoord_coord _ _ _ hch.gran.1 hch.latOff hl.2 hy]
  simp only [Option.bind_some, w1, w2, w3, hloc, specNext]
  obtain ⟨o1, o2, o3, o4, o5, o6, o7⟩ := om
  cases o3 <;> cases o4 <;> cases o5 <;> cases o6 <;> rfl

theorem spec_prevOk_next (ch : Choices) (table : List Bytes) (om : SpecOmit) (pv : Prev) (m : Meta) (l : Location)
    (hd : MetaInDomain m) (htu : TableOk table m.user) (hpv : SpecPrevOk pv) :
    SpecPrevOk (specNext ch table om pv (m, l)) := by
  obtain ⟨hv, hui, hts, hcs⟩ := hd
  obtain ⟨h1, h2⟩ := hpv
  have := htu.2.1
  constructor
  · simp only [specNext]; split
    · exact h1
    · simp only [Int.reducePow, Nat.reducePow] at *; omega
  · simp only [specNext]; split
    · exact h2
    · simp only [Int.reducePow, Nat.reducePow] at *; omega

/-! ### the whole loop -/

theorem spec_denseLoop_rows (ch : Choices) (hch : ChoicesOk ch) (table : List Bytes) (om : SpecOmit) (h : Bool)
    (hh : h = true ∨ (om.versions = true ∧ om.timestamps = true ∧ om.changesets = true ∧ om.uids = true ∧
      om.userSids = true ∧ om.visibles = true)) :
    ∀ (ns : List (Meta × Location)) (pv : Prev) (acc : List Object) (fuel : Nat),
    (∀ n ∈ ns, ObjRep ch (.node n.1 n.2)) →
    (∀ n ∈ ns, ∀ s ∈ PbfSpec.stringsOf (.node n.1 n.2), TableOk table s) →
    (∀ n ∈ ns, SpecDefault om n.1) → SpecPrevOk pv → ns.length ≤ fuel →
    denseLoop (specParams ch table) h fuel (specCurOf ch table om pv ns) acc =
      some (acc.reverse ++ ns.map fun n => Object.node n.1 n.2)
  | [], pv, acc, fuel, _, _, _, _, _ => by
    cases fuel with
    | zero =>
      have : ∀ c, denseLoop (specParams ch table) h 0 c acc = some acc.reverse := fun _ => rfl
      simp [this]
    | succ f => rw [denseLoop_succ]; simp [specCurOf, PbfSpec.delta]
  | (m, l) :: ns, pv, acc, fuel, hrep, htab, hdef, hpv, hf => by
    obtain ⟨f, rfl⟩ : ∃ f, fuel = f + 1 := ⟨fuel - 1, by simp at hf; omega⟩
    have hn := hrep (m, l) List.mem_cons_self
    have ht := htab (m, l) List.mem_cons_self
    have hiter := spec_denseIter_node ch hch table om pv m l ns hn ht (hdef (m, l) List.mem_cons_self) hpv
    have hpv' := spec_prevOk_next ch table om pv m l hn.1.1 (ht m.user (by simp [PbfSpec.stringsOf])) hpv
    have hids : ∃ idv ids', (specCurOf ch table om pv ((m, l) :: ns)).ids = idv :: ids' := ⟨_, _, rfl⟩
    obtain ⟨idv, ids', hids⟩ := hids
    have ih := fun acc' => spec_denseLoop_rows ch hch table om h hh ns (specNext ch table om pv (m, l)) acc' f
      (fun n hn => hrep n (List.mem_cons_of_mem _ hn)) (fun n hn => htab n (List.mem_cons_of_mem _ hn))
      (fun n hn => hdef n (List.mem_cons_of_mem _ hn)) hpv' (by simp at hf; omega)
    cases h with
    | true =>
      rw [denseLoop_iter _ _ _ _ idv ids' hids, hiter, Option.bind_some]
      simp only [ih]
      simp
    | false =>
      rcases hh with hh | ⟨h1, h2, h3, h4, h5, h6⟩
      · exact absurd hh (by decide)
      · rw [denseLoop_iter_noinfo _ _ _ _ idv ids' hids (by simp [specCurOf, h1]) (by simp [specCurOf, h2])
          (by simp [specCurOf, h3]) (by simp [specCurOf, h4]) (by simp [specCurOf, h5]) (by simp [specCurOf, h6]),
          hiter, Option.bind_some]
        simp only [ih]
        simp

theorem spec_default_omitOf (ch : Choices) (hist : Bool) (ns : List (Meta × Location)) :
    ∀ n ∈ ns, SpecDefault (specOmitOf ch hist ns) n.1 := by
  intro n hn
  have hm : n.1 ∈ ns.map (·.1) := List.mem_map.mpr ⟨n, hn, rfl⟩
  refine ⟨?_, ?_, ?_, ?_, ?_, ?_, ?_⟩ <;> intro ho <;>
    simp only [specOmitOf, Bool.and_eq_true, List.all_eq_true] at ho <;>
    have := ho.2 n.1 hm <;> simpa using this

theorem spec_info_omit (ch : Choices) (table : List Bytes) (hist : Bool) (ns : List (Meta × Location)) :
    (!(specDenseInfo ch table hist ns).isEmpty) = true ∨
      ((specOmitOf ch hist ns).versions = true ∧ (specOmitOf ch hist ns).timestamps = true ∧
       (specOmitOf ch hist ns).changesets = true ∧ (specOmitOf ch hist ns).uids = true ∧
       (specOmitOf ch hist ns).userSids = true ∧ (specOmitOf ch hist ns).visibles = true) := by
  simp only [specDenseInfo, specOmitOf]
  generalize (ch.omitDefaults && (ns.map (·.1)).all (·.version == 0)) = b1
  generalize (ch.omitDefaults && (ns.map (·.1)).all (·.timestamp == 0)) = b2
  generalize (ch.omitDefaults && (ns.map (·.1)).all (·.changeset == 0)) = b3
  generalize (ch.omitDefaults && (ns.map (·.1)).all (·.uid == 0)) = b4
  generalize (ch.omitDefaults && (ns.map (·.1)).all (·.user.isEmpty)) = b5
  generalize ((ch.omitDefaults || !hist) && (ns.map (·.1)).all (·.visible)) = b6
  cases b1 <;> cases b2 <;> cases b3 <;> cases b4 <;> cases b5 <;> cases b6 <;> simp

/-! ### every array entry is a uint64 -/

theorem spec_delta_rep : ∀ (xs : List Int) (p : Int), DeltaRep p xs → ∀ d ∈ PbfSpec.delta p xs, IdOk d
  | [], _, _ => by simp [PbfSpec.delta]
  | x :: xs, p, h => by
    intro d hd
    simp only [PbfSpec.delta, List.mem_cons] at hd
    rcases hd with rfl | hd
    · exact h.1
    · exact spec_delta_rep xs x h.2 d hd

theorem spec_delta_bound (B : Int) : ∀ (xs : List Int) (p : Int), (-B < p ∧ p < B) → (∀ x ∈ xs, -B < x ∧ x < B) →
    ∀ d ∈ PbfSpec.delta p xs, -(2 * B) < d ∧ d < 2 * B
  | [], _, _, _ => by simp [PbfSpec.delta]
  | x :: xs, p, hp, hx => by
    intro d hd
    simp only [PbfSpec.delta, List.mem_cons] at hd
    have hx0 := hx x List.mem_cons_self
    rcases hd with rfl | hd
    · omega
    · exact spec_delta_bound B xs x hx0 (fun y hy => hx y (List.mem_cons_of_mem _ hy)) d hd

theorem spec_zz64_lt (ds : List Int) (h : ∀ d ∈ ds, IdOk d) : ∀ v ∈ ds.map zigzag64, v < 2 ^ 64 := by
  intro v hv
  obtain ⟨d, hd, rfl⟩ := List.mem_map.mp hv
  exact zigzag_lt d (h d hd).1 (h d hd).2

theorem spec_zz32_lt (ds : List Int) : ∀ v ∈ ds.map PbfSpec.zigzag32, v < 2 ^ 64 := by
  intro v hv
  obtain ⟨d, _, rfl⟩ := List.mem_map.mp hv
  unfold PbfSpec.zigzag32
  have : zigzag64 d % 2 ^ 32 < 2 ^ 32 := Nat.mod_lt _ (by decide)
  simp only [Nat.reducePow] at *; omega

theorem spec_lt64_ite (b : Bool) (L : List Nat) (h : ∀ v ∈ L, v < 2 ^ 64) : ∀ v ∈ (if b then [] else L), v < 2 ^ 64 := by
  cases b
  · simpa using h
  · simp

theorem spec_zz64_delta_lt (B : Int) (hB : 2 * B ≤ (2:Int) ^ 63) (xs : List Int) (hB0 : 0 < B)
    (hx : ∀ x ∈ xs, -B < x ∧ x < B) : ∀ v ∈ (PbfSpec.delta 0 xs).map zigzag64, v < 2 ^ 64 := by
  apply spec_zz64_lt
  intro d hd
  have := spec_delta_bound B xs 0 (by omega) hx d hd
  unfold IdOk
  omega

theorem spec_denseCur_lt64 (ch : Choices) (hch : ChoicesOk ch) (table : List Bytes) (hist : Bool) (ns : List (Meta × Location))
    (hrep : DenseRep ch ns) (htab : ∀ n ∈ ns, ∀ s ∈ PbfSpec.stringsOf (.node n.1 n.2), TableOk table s) :
    CurLt64 (specDenseCur ch table hist ns) := by
  obtain ⟨hobj, hdelta⟩ := hrep
  refine ⟨?_, ?_, ?_, ?_, ?_, ?_, ?_, ?_, ?_, ?_⟩
  · -- ids
    apply spec_zz64_lt
    apply spec_delta_rep
    rw [List.map_map]
    exact hdelta
  · -- lats
    apply spec_zz64_delta_lt ((2:Int) ^ 62) (by decide) _ (by decide)
    intro x hx
    obtain ⟨n, hn, rfl⟩ := List.mem_map.mp hx
    exact spec_coord_bound _ _ _ hch.gran.1 hch.latOff (hobj n hn).2.1.2
  · -- lons
    apply spec_zz64_delta_lt ((2:Int) ^ 62) (by decide) _ (by decide)
    intro x hx
    obtain ⟨n, hn, rfl⟩ := List.mem_map.mp hx
    exact spec_coord_bound _ _ _ hch.gran.1 hch.lonOff (hobj n hn).2.1.1
  · -- tags
    apply spec_lt64_ite
    intro v hv
    obtain ⟨m, hm, hv⟩ := List.mem_flatMap.mp hv
    obtain ⟨n, hn, rfl⟩ := List.mem_map.mp hm
    rcases List.mem_append.mp hv with hv | hv
    · have ht := spec_tags_lookup table n.1.tags (fun s hs => htab n hn s (by
        simp only [PbfSpec.stringsOf, List.mem_cons]; exact Or.inr hs))
      have := (ht.2 v hv).2
      simp only [Nat.reducePow] at *; omega
    · simp at hv; subst hv; decide
  · -- versions
    apply spec_lt64_ite
    intro v hv
    obtain ⟨m, _, rfl⟩ := List.mem_map.mp hv
    exact u64_lt _
  · -- timestamps
    apply spec_lt64_ite
    apply spec_zz64_delta_lt ((2:Int) ^ 42) (by decide) _ (by decide)
    intro x hx
    obtain ⟨m, hm, rfl⟩ := List.mem_map.mp hx
    obtain ⟨n, hn, rfl⟩ := List.mem_map.mp hm
    have := spec_stamp_bound ch.dateGranularity n.1.timestamp hch.dgran.1 (hobj n hn).1.1.2.2.1
    simp only [Int.reducePow] at *; omega
  · -- changesets
    apply spec_lt64_ite
    apply spec_zz64_delta_lt ((2:Int) ^ 32) (by decide) _ (by decide)
    intro x hx
    obtain ⟨m, hm, rfl⟩ := List.mem_map.mp hx
    obtain ⟨n, hn, rfl⟩ := List.mem_map.mp hm
    have := (hobj n hn).1.1.2.2.2
    simp only [Int.reducePow, Nat.reducePow] at *; omega
  · exact spec_lt64_ite _ _ (spec_zz32_lt _)
  · exact spec_lt64_ite _ _ (spec_zz32_lt _)
  · -- visibles
    apply spec_lt64_ite
    intro v hv
    obtain ⟨m, _, rfl⟩ := List.mem_map.mp hv
    split <;> decide

theorem spec_denseLoop (ch : Choices) (hch : ChoicesOk ch) (table : List Bytes) (hist : Bool) (ns : List (Meta × Location))
    (hrep : DenseRep ch ns) (htab : ∀ n ∈ ns, ∀ s ∈ PbfSpec.stringsOf (.node n.1 n.2), TableOk table s)
    (fuel : Nat) (hf : ns.length ≤ fuel) :
    denseLoop (specParams ch table) (!(specDenseInfo ch table hist ns).isEmpty) fuel (specDenseCur ch table hist ns) [] =
      some (ns.map fun n => Object.node n.1 n.2) := by
  rw [specDenseCur_eq]
  have hpv : SpecPrevOk {} := by
    constructor <;> (constructor <;> decide)
  have := spec_denseLoop_rows ch hch table (specOmitOf ch hist ns) _ (spec_info_omit ch table hist ns) ns {} [] fuel
    hrep.1 htab (spec_default_omitOf ch hist ns) hpv hf
  simpa using this

end Osmium.Pbf
