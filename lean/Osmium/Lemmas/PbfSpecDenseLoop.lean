/-
C02, PBF: the `while (!ids.empty())` loop of `decode_dense_nodes` over the arrays of the specification encoder
(exact integer deltas, any granularity / offsets / date granularity, version -1, arrays omitted when all-default).
-/
import Osmium.Lemmas.PbfSpecDenseDefs

namespace Osmium.Pbf

open Osmium.Wire Osmium.Osm Osmium.PbfMsg
open Osmium.PbfSpec (Choices)

theorem spec_denseCur_lt64 (ch : Choices) (hch : ChoicesOk ch) (table : List Bytes) (hist : Bool) (ns : List (Meta × Location))
    (hrep : DenseRep ch ns) (htab : ∀ n ∈ ns, ∀ s ∈ PbfSpec.stringsOf (.node n.1 n.2), TableOk table s) :
    CurLt64 (specDenseCur ch table hist ns) := by
  sorry

theorem spec_denseLoop (ch : Choices) (hch : ChoicesOk ch) (table : List Bytes) (hist : Bool) (ns : List (Meta × Location))
    (hrep : DenseRep ch ns) (htab : ∀ n ∈ ns, ∀ s ∈ PbfSpec.stringsOf (.node n.1 n.2), TableOk table s)
    (fuel : Nat) (hf : ns.length ≤ fuel) :
    denseLoop (specParams ch table) (!(specDenseInfo ch table hist ns).isEmpty) fuel (specDenseCur ch table hist ns) [] =
      some (ns.map fun n => Object.node n.1 n.2) := by
  sorry

end Osmium.Pbf
