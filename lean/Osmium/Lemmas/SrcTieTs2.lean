/-
`src_tie_*` lemmas for the timestamp parser, part 2 (see Lemmas/SrcTieTs.lean): the 37 leading conjuncts of the big
condition of `detail::parse_timestamp` (target `cond=0, and_left=1` of tools/cxx2lean.py:
`Src.Timestamp.parse_timestamp_cond_pattern`) against the model's 19-character test `tsPattern`
(= the pattern + `isDigit …` chain of `Conv.parseTimestamp`, see `parseTimestamp_of_not_pattern`).
The condition is one left-nested `&&` chain, so this proof — unlike the other ties — normalises it as a whole; the
19 cases "the string ends k characters behind the cursor" show that nothing behind the NUL is read.
-/
import Osmium.Lemmas.SrcTieTs
set_option Elab.async false
set_option linter.unusedSimpArgs false
namespace Osmium.SrcTie.Ts
open Osmium.Generated Osmium.CxxSem Osmium.Conv Osmium.Cursor Osmium.SrcTie.Coord
open Src.Timestamp

theorem sc_zero : sc 0 = 0 := by decide

/-- the 19-character test of `parse_timestamp` on the model's side -/
def tsPattern : List UInt8 → Bool
  | y0 :: y1 :: y2 :: y3 :: c4 :: m0 :: m1 :: c7 :: d0 :: d1 :: c10 :: h0 :: h1 :: c13 :: i0 :: i1 :: c16 :: s0 :: s1 :: _ =>
    isDigit y0 && isDigit y1 && isDigit y2 && isDigit y3 && c4 == cMinus &&
    isDigit m0 && isDigit m1 && c7 == cMinus && isDigit d0 && isDigit d1 && c10 == cT &&
    isDigit h0 && isDigit h1 && c13 == cColon && isDigit i0 && isDigit i1 && c16 == cColon &&
    isDigit s0 && isDigit s1
  | _ => false

/-- a string that ends `k ≤ 18` characters behind the cursor: the chain fails at the NUL, and nothing behind it is read -/
theorem src_tie_parse_timestamp_pattern_short (s t : List UInt8) (i k : Nat) (hk : s.length = i + k) (h18 : k ≤ 18) :
    parse_timestamp_cond_pattern (s ++ 0 :: t) i = false ∧ parse_timestamp_cond_pattern_defined (s ++ 0 :: t) i = true := by
  have hz : peek (s.drop (i + k)) = 0 := by rw [← hk]; simp [peek]
  rcases (by omega : k = 0 ∨ k = 1 ∨ k = 2 ∨ k = 3 ∨ k = 4 ∨ k = 5 ∨ k = 6 ∨ k = 7 ∨ k = 8 ∨ k = 9 ∨ k = 10 ∨ k = 11 ∨ k = 12 ∨ k = 13 ∨ k = 14 ∨ k = 15 ∨ k = 16 ∨ k = 17 ∨ k = 18) with rfl | rfl | rfl | rfl | rfl | rfl | rfl | rfl | rfl | rfl | rfl | rfl | rfl | rfl | rfl | rfl | rfl | rfl | rfl
  all_goals
    try simp only [Nat.add_zero] at hz
    constructor
    · unfold parse_timestamp_cond_pattern
      simp (disch := omega) only [rdS_off s t i, Int.reduceToNat]
      simp [hz, sc_zero, CxxSem.ge, CxxSem.le, CxxSem.eq]
    · unfold parse_timestamp_cond_pattern_defined
      simp (disch := omega) only [rdS_off s t i, inB_off s t i, Int.reduceToNat]
      simp [hz, sc_zero, CxxSem.ge, CxxSem.le, CxxSem.eq]

theorem cT_toNat : cT.toNat = 84 := rfl
theorem cColon_toNat : cColon.toNat = 58 := rfl

theorem list19 (u : List UInt8) (h : 19 ≤ u.length) :
    ∃ a0 a1 a2 a3 a4 a5 a6 a7 a8 a9 a10 a11 a12 a13 a14 a15 a16 a17 a18 rest,
      u = a0 :: a1 :: a2 :: a3 :: a4 :: a5 :: a6 :: a7 :: a8 :: a9 :: a10 :: a11 :: a12 :: a13 :: a14 :: a15 :: a16 :: a17 :: a18 :: rest := by
  rcases u with _ | ⟨a0, u⟩
  · simp at h
  rcases u with _ | ⟨a1, u⟩
  · simp at h
  rcases u with _ | ⟨a2, u⟩
  · simp at h
  rcases u with _ | ⟨a3, u⟩
  · simp at h
  rcases u with _ | ⟨a4, u⟩
  · simp at h
  rcases u with _ | ⟨a5, u⟩
  · simp at h
  rcases u with _ | ⟨a6, u⟩
  · simp at h
  rcases u with _ | ⟨a7, u⟩
  · simp at h
  rcases u with _ | ⟨a8, u⟩
  · simp at h
  rcases u with _ | ⟨a9, u⟩
  · simp at h
  rcases u with _ | ⟨a10, u⟩
  · simp at h
  rcases u with _ | ⟨a11, u⟩
  · simp at h
  rcases u with _ | ⟨a12, u⟩
  · simp at h
  rcases u with _ | ⟨a13, u⟩
  · simp at h
  rcases u with _ | ⟨a14, u⟩
  · simp at h
  rcases u with _ | ⟨a15, u⟩
  · simp at h
  rcases u with _ | ⟨a16, u⟩
  · simp at h
  rcases u with _ | ⟨a17, u⟩
  · simp at h
  rcases u with _ | ⟨a18, u⟩
  · simp at h
  exact ⟨a0, a1, a2, a3, a4, a5, a6, a7, a8, a9, a10, a11, a12, a13, a14, a15, a16, a17, a18, u, rfl⟩

/-- at least 19 characters in front of the NUL: every read is in bounds and the chain is the model's test -/
theorem src_tie_parse_timestamp_pattern_long (s t : List UInt8) (i : Nat) (hlen : i + 19 ≤ s.length) :
    parse_timestamp_cond_pattern (s ++ 0 :: t) i = tsPattern (s.drop i) ∧ parse_timestamp_cond_pattern_defined (s ++ 0 :: t) i = true := by
  constructor
  · obtain ⟨a0, a1, a2, a3, a4, a5, a6, a7, a8, a9, a10, a11, a12, a13, a14, a15, a16, a17, a18, rest, hdrop⟩ :=
      list19 (s.drop i) (by rw [List.length_drop]; omega)
    have hc : ∀ k, chr s i k = peek ((s.drop i).drop k) := by
      intro k; unfold chr; rw [List.drop_drop]
    have hc0 : chr s i 0 = a0 := by rw [hc 0, hdrop]; rfl
    have hc1 : chr s i 1 = a1 := by rw [hc 1, hdrop]; rfl
    have hc2 : chr s i 2 = a2 := by rw [hc 2, hdrop]; rfl
    have hc3 : chr s i 3 = a3 := by rw [hc 3, hdrop]; rfl
    have hc4 : chr s i 4 = a4 := by rw [hc 4, hdrop]; rfl
    have hc5 : chr s i 5 = a5 := by rw [hc 5, hdrop]; rfl
    have hc6 : chr s i 6 = a6 := by rw [hc 6, hdrop]; rfl
    have hc7 : chr s i 7 = a7 := by rw [hc 7, hdrop]; rfl
    have hc8 : chr s i 8 = a8 := by rw [hc 8, hdrop]; rfl
    have hc9 : chr s i 9 = a9 := by rw [hc 9, hdrop]; rfl
    have hc10 : chr s i 10 = a10 := by rw [hc 10, hdrop]; rfl
    have hc11 : chr s i 11 = a11 := by rw [hc 11, hdrop]; rfl
    have hc12 : chr s i 12 = a12 := by rw [hc 12, hdrop]; rfl
    have hc13 : chr s i 13 = a13 := by rw [hc 13, hdrop]; rfl
    have hc14 : chr s i 14 = a14 := by rw [hc 14, hdrop]; rfl
    have hc15 : chr s i 15 = a15 := by rw [hc 15, hdrop]; rfl
    have hc16 : chr s i 16 = a16 := by rw [hc 16, hdrop]; rfl
    have hc17 : chr s i 17 = a17 := by rw [hc 17, hdrop]; rfl
    have hc18 : chr s i 18 = a18 := by rw [hc 18, hdrop]; rfl
    unfold parse_timestamp_cond_pattern
    simp (disch := omega) only [rdS_off s t i, Int.reduceToNat]
    simp only [chr_def, hc0, hc1, hc2, hc3, hc4, hc5, hc6, hc7, hc8, hc9, hc10, hc11, hc12, hc13, hc14, hc15, hc16, hc17, hc18]
    rw [hdrop]
    simp only [tsPattern]
    rw [Bool.eq_iff_iff]
    simp only [Bool.and_eq_true, ge_iff, le_iff, eq_iff, isDigit_iff, beq_iff_eq, eq_char_iff, cMinus_toNat, cT_toNat, cColon_toNat]
    constructor <;> intro h <;> and_intros <;> first | (have := sc_cases a0; omega) | (have := sc_cases a1; omega) | (have := sc_cases a2; omega) | (have := sc_cases a3; omega) | (have := sc_cases a4; omega) | (have := sc_cases a5; omega) | (have := sc_cases a6; omega) | (have := sc_cases a7; omega) | (have := sc_cases a8; omega) | (have := sc_cases a9; omega) | (have := sc_cases a10; omega) | (have := sc_cases a11; omega) | (have := sc_cases a12; omega) | (have := sc_cases a13; omega) | (have := sc_cases a14; omega) | (have := sc_cases a15; omega) | (have := sc_cases a16; omega) | (have := sc_cases a17; omega) | (have := sc_cases a18; omega)
  · unfold parse_timestamp_cond_pattern_defined
    simp (disch := omega) only [rdS_off s t i, inB_off s t i, Int.reduceToNat]
    simp

theorem tsPattern_short (u : List UInt8) (h : u.length < 19) : tsPattern u = false := by
  rcases u with _ | ⟨a0, u⟩
  · rfl
  rcases u with _ | ⟨a1, u⟩
  · rfl
  rcases u with _ | ⟨a2, u⟩
  · rfl
  rcases u with _ | ⟨a3, u⟩
  · rfl
  rcases u with _ | ⟨a4, u⟩
  · rfl
  rcases u with _ | ⟨a5, u⟩
  · rfl
  rcases u with _ | ⟨a6, u⟩
  · rfl
  rcases u with _ | ⟨a7, u⟩
  · rfl
  rcases u with _ | ⟨a8, u⟩
  · rfl
  rcases u with _ | ⟨a9, u⟩
  · rfl
  rcases u with _ | ⟨a10, u⟩
  · rfl
  rcases u with _ | ⟨a11, u⟩
  · rfl
  rcases u with _ | ⟨a12, u⟩
  · rfl
  rcases u with _ | ⟨a13, u⟩
  · rfl
  rcases u with _ | ⟨a14, u⟩
  · rfl
  rcases u with _ | ⟨a15, u⟩
  · rfl
  rcases u with _ | ⟨a16, u⟩
  · rfl
  rcases u with _ | ⟨a17, u⟩
  · rfl
  rcases u with _ | ⟨a18, u⟩
  · rfl
  simp only [List.length_cons] at h; omega

/-- the model's `parseTimestamp` rejects what fails the 19-character test -/
theorem parseTimestamp_of_not_pattern (u : List UInt8) (h : tsPattern u = false) : parseTimestamp u = .error .invalidArgument := by
  unfold parseTimestamp
  split
  · simp only [tsPattern] at h
    simp only [h, Bool.false_eq_true, if_false]
  · rfl

/-- The first 37 conjuncts of the big condition of `parse_timestamp` (everything before `str[19] == 'Z' ||
    fractional_seconds(s)`), for EVERY NUL-terminated byte string and start position: the value is the model's
    19-character test, and — the `&&` chain being evaluated left to right — no character behind the NUL is read
    (a string shorter than 19 characters fails at its NUL). -/
theorem src_tie_parse_timestamp_pattern_main (s t : List UInt8) (i : Nat) (hi : i ≤ s.length) :
    parse_timestamp_cond_pattern (s ++ 0 :: t) i = tsPattern (s.drop i) ∧ parse_timestamp_cond_pattern_defined (s ++ 0 :: t) i = true := by
  by_cases hlen : i + 19 ≤ s.length
  · exact src_tie_parse_timestamp_pattern_long s t i hlen
  · have h := src_tie_parse_timestamp_pattern_short s t i (s.length - i) (by omega) (by omega)
    rw [tsPattern_short (s.drop i) (by rw [List.length_drop]; omega)]
    exact h

end Osmium.SrcTie.Ts
