/-
C04 built_content, part 1: with auto-grow (`mode ≠ no`) and the current builder code
(`fixF4 = true`) a builder call is a pure function of the uncommitted bytes and of the
(offset, kind, saved offset) triples of the open builders — capacity, epochs and nested buffers
do not matter.  `pMicros` / `pStep` / `pRun` is that function; `step_pure` / `run_pure` say that
`step` / `run` compute it.
-/
import Osmium.Lemmas.BufAlign4

namespace Osmium.Buf

open Osmium.Layout

/-- offset, kind, saved offset (`m_comment_offset` / member pointer) -/
abbrev AFrame := Nat × Kind × Option Nat

def absStack (st : List Frame) : List AFrame := st.map fun f => (f.off, f.kind, f.ptr.map (·.2))

def aSetTop (st : List AFrame) (p : Option Nat) : List AFrame :=
  match st with
  | [] => []
  | (o, k, _) :: r => (o, k, p) :: r

def aSig (st : List AFrame) : List (Nat × Kind) := st.map fun f => (f.1, f.2.1)

abbrev PSt := Pend × List AFrame

/-- primitive steps; `none` = dereference of a null pointer -/
def pBase (fill : UInt8) : PSt → Micro → Option PSt
  | (p, st), .alloc n save g =>
    some (g p.length (p ++ List.replicate (n p) fill), if save then aSetTop st (some p.length) else st)
  | (p, st), .upd g => some (g p, st)
  | (p, st), .deref keep g =>
    match st with
    | (o, k, some off) :: r => some (g off p, if keep then st else (o, k, none) :: r)
    | _ => none
  | x, .finish _ => some x

def pList (ex : PSt → Micro → Option PSt) (x : PSt) : List Micro → Option PSt
  | [] => some x
  | m :: ms =>
    match ex x m with
    | none => none
    | some x' => pList ex x' ms

def aPending (st : List AFrame) : Bool :=
  match st with
  | (_, _, some _) :: _ => true
  | _ => false

def pMicro (fill : UInt8) (x : PSt) : Micro → Option PSt
  | .finish offs => if aPending x.2 then pList (pBase fill) x (mCommentText offs []) else some x
  | .alloc n save g => pBase fill x (.alloc n save g)
  | .upd g => pBase fill x (.upd g)
  | .deref keep g => pBase fill x (.deref keep g)

def pMicros (fill : UInt8) (x : PSt) (ms : List Micro) : Option PSt := pList (pMicro fill) x ms

def aAfter (a : After) (st : List AFrame) : Option (List AFrame) :=
  match a with
  | .nothing => some st
  | .push off k => some ((off, k, none) :: st)
  | .pop => some st.tail
  | .commit => none        -- push_back commits: not part of the pure builder fragment

/-- one builder operation (`aux`/`av`: committed bytes / validity of the auxiliary buffer) -/
def pStep (fill : UInt8) (aux : Bytes) (av : Bool) (x : PSt) (op : Op) : Option PSt :=
  match plan (aSig x.2) x.1.length aux av [] op with
  | .micros ms a =>
    match pMicros fill x ms with
    | none => none
    | some (p', st') => (aAfter a st').map fun st'' => (p', st'')
  | _ => none

def pRun (fill : UInt8) (aux : Bytes) (av : Bool) (x : PSt) : List Op → Option PSt
  | [] => some x
  | op :: ops =>
    match pStep fill aux av x op with
    | none => none
    | some x' => pRun fill aux av x' ops

/-! ### refinement -/

/-- everything a builder call leaves alone -/
structure Keep (s s' : St) : Prop where
  done : s'.b0.done = s.b0.done
  fill : s'.b0.fill = s.b0.fill
  mode : s'.b0.mode = s.b0.mode
  valid : s'.b0.valid = s.b0.valid
  b1 : s'.b1 = s.b1
  dead : s'.dead = s.dead
  fix : s'.fixF4 = s.fixF4

theorem keep_refl (s : St) : Keep s s := ⟨rfl, rfl, rfl, rfl, rfl, rfl, rfl⟩

theorem keep_trans {a b c : St} (h1 : Keep a b) (h2 : Keep b c) : Keep a c :=
  ⟨h2.done.trans h1.done, h2.fill.trans h1.fill, h2.mode.trans h1.mode, h2.valid.trans h1.valid,
   h2.b1.trans h1.b1, h2.dead.trans h1.dead, h2.fix.trans h1.fix⟩

/-- the conditions under which the pure function is what happens -/
structure Ref (s : St) : Prop where
  mode : s.b0.mode ≠ .no
  fix : s.fixF4 = true
  bounds : s.Bounds

/-- `s'` continues `s` with uncommitted bytes / builder stack `x` -/
structure Reach (s s' : St) (x : PSt) : Prop where
  pend : s'.b0.pend = x.1
  stack : absStack s'.stack = x.2
  keep : Keep s s'
  ref : Ref s'

theorem absStack_setTopPtr (st : List Frame) (ep o : Nat) :
    absStack (setTopPtr st (some (ep, o))) = aSetTop (absStack st) (some o) := by
  cases st <;> simp [setTopPtr, absStack, aSetTop]

theorem absStack_setTopPtr_none (st : List Frame) :
    absStack (setTopPtr st none) = aSetTop (absStack st) none := by
  cases st <;> simp [setTopPtr, absStack, aSetTop]

theorem execBase_pure (s : St) (m : Micro) (hlp : m.LP) (hr : Ref s) (x' : PSt)
    (h : pBase s.b0.fill (s.b0.pend, absStack s.stack) m = some x') :
    ∃ s', execBase s m = .ok s' ∧ Reach s s' x' := by
  cases m with
  | alloc n save g =>
    simp only [pBase, Option.some.injEq] at h
    obtain ⟨b', hb'⟩ := reserve_ok_of_mode (n s.b0.pend) s.b0 hr.mode
    have ab := alloc_abs _ _ _ (g s.b0.pend.length) (hlp _) hr.bounds.1 hb'
    have hex : ∃ s1, execBase s (.alloc n save g) = Except.ok s1 ∧ s1.b0 = b'.onPend (g s.b0.pend.length) ∧
        s1.b1 = s.b1 ∧ s1.dead = s.dead ∧ s1.fixF4 = s.fixF4 ∧
        absStack s1.stack = if save then aSetTop (absStack s.stack) (some s.b0.pend.length) else absStack s.stack := by
      refine ⟨⟨b'.onPend (g s.b0.pend.length), s.b1,
        if save then setTopPtr s.stack (some ((b'.onPend (g s.b0.pend.length)).epoch, s.b0.pend.length)) else s.stack,
        s.fixF4, s.dead⟩, by simp only [execBase, hb'], rfl, rfl, rfl, rfl, ?_⟩
      cases save
      · rfl
      · exact absStack_setTopPtr _ _ _
    obtain ⟨s1, hex, h0, h1, h2, h3, h4⟩ := hex
    have hbd := execBase_bounds s _ (.alloc n save g) hlp hr.bounds hex
    refine ⟨s1, hex, ?_⟩
    subst h
    refine ⟨by rw [h0]; exact ab.1, h4, ⟨by rw [h0]; exact ab.2.1, by rw [h0]; exact ab.2.2.1,
      by rw [h0]; exact ab.2.2.2.2, by rw [h0]; exact ab.2.2.2.1, h1, h2, h3⟩, ⟨?_, by rw [h3]; exact hr.fix, hbd⟩⟩
    rw [h0, ab.2.2.2.2]; exact hr.mode
  | upd g =>
    simp only [pBase, Option.some.injEq] at h
    subst h
    have hbd := execBase_bounds s _ (.upd g) hlp hr.bounds rfl
    refine ⟨_, rfl, onPend_pend _ _ hr.bounds.1.1, rfl,
      ⟨onPend_done _ _ hr.bounds.1.1, rfl, rfl, rfl, rfl, rfl, rfl⟩, ⟨hr.mode, hr.fix, hbd⟩⟩
  | deref keep g =>
    simp only [pBase] at h
    cases hst : s.stack with
    | nil => rw [hst] at h; simp [absStack] at h
    | cons f rest =>
      rw [hst] at h
      simp only [absStack, List.map_cons] at h
      cases hp : f.ptr with
      | none => rw [hp] at h; simp at h
      | some eo =>
        obtain ⟨e, o⟩ := eo
        rw [hp] at h
        simp only [Option.map_some, Option.some.injEq] at h
        have hex : ∃ s1, execBase s (.deref keep g) = Except.ok s1 ∧ s1.b0 = s.b0.onPend (g o) ∧
            s1.b1 = s.b1 ∧ s1.dead = s.dead ∧ s1.fixF4 = s.fixF4 ∧
            absStack s1.stack = if keep then absStack s.stack else aSetTop (absStack s.stack) none := by
          refine ⟨⟨s.b0.onPend (g o), s.b1, if keep then s.stack else setTopPtr s.stack none, s.fixF4, s.dead⟩,
            by simp only [execBase, hst, hp, hr.fix, or_true, ↓reduceIte], rfl, rfl, rfl, rfl, ?_⟩
          cases keep
          · simp only [Bool.false_eq_true, ↓reduceIte]; exact absStack_setTopPtr_none _
          · simp only [↓reduceIte]
        obtain ⟨s1, hex, h0, h1, h2, h3, h4⟩ := hex
        have hbd := execBase_bounds s _ (.deref keep g) hlp hr.bounds hex
        refine ⟨s1, hex, ?_⟩
        subst h
        refine ⟨by rw [h0]; exact onPend_pend _ _ hr.bounds.1.1, ?_,
          ⟨by rw [h0]; exact onPend_done _ _ hr.bounds.1.1, by rw [h0]; rfl, by rw [h0]; rfl, by rw [h0]; rfl, h1, h2, h3⟩,
          ⟨by rw [h0]; exact hr.mode, by rw [h3]; exact hr.fix, hbd⟩⟩
        rw [h4, hst]
        cases keep <;> simp [absStack, aSetTop, hp]
  | finish offs =>
    simp only [pBase, Option.some.injEq] at h
    subst h
    exact ⟨s, rfl, rfl, rfl, keep_refl s, hr⟩

theorem reach_trans {s s1 s2 : St} {x1 x2 : PSt} (h1 : Reach s s1 x1) (h2 : Reach s1 s2 x2) : Reach s s2 x2 :=
  ⟨h2.pend, h2.stack, keep_trans h1.keep h2.keep, h2.ref⟩

/-- list version, generic in the pair (state step, pure step) -/
theorem execList_pure (ex : St → Micro → Except Err St) (px : UInt8 → PSt → Micro → Option PSt)
    (hstep : ∀ (s : St) (m : Micro), m.LP → Ref s → ∀ x', px s.b0.fill (s.b0.pend, absStack s.stack) m = some x' →
      ∃ s', ex s m = .ok s' ∧ Reach s s' x')
    (ms : List Micro) (hlp : AllLP ms) (s : St) (hr : Ref s) (x' : PSt)
    (h : pList (px s.b0.fill) (s.b0.pend, absStack s.stack) ms = some x') :
    ∃ s', execList ex s ms = (s', none) ∧ Reach s s' x' := by
  induction ms generalizing s with
  | nil =>
    simp only [pList, Option.some.injEq] at h
    subst h
    exact ⟨s, rfl, rfl, rfl, keep_refl s, hr⟩
  | cons m ms ih =>
    simp only [pList] at h
    cases hx : px s.b0.fill (s.b0.pend, absStack s.stack) m with
    | none => rw [hx] at h; cases h
    | some x1 =>
      rw [hx] at h
      obtain ⟨s1, hs1, hr1⟩ := hstep s m (hlp m List.mem_cons_self) hr x1 hx
      have h' : pList (px s1.b0.fill) (s1.b0.pend, absStack s1.stack) ms = some x' := by
        rw [hr1.keep.fill, hr1.pend, hr1.stack]; exact h
      obtain ⟨s2, hs2, hr2⟩ := ih (fun m hm => hlp m (List.mem_cons_of_mem _ hm)) s1 hr1.ref h'
      refine ⟨s2, ?_, reach_trans hr1 hr2⟩
      simp only [execList, hs1]; exact hs2

theorem aPending_abs (s : St) : aPending (absStack s.stack) = pendingTop s := by
  unfold aPending pendingTop absStack
  cases s.stack with
  | nil => rfl
  | cons f r => cases hp : f.ptr <;> simp [hp]

theorem execMicro_pure (s : St) (m : Micro) (hlp : m.LP) (hr : Ref s) (x' : PSt)
    (h : pMicro s.b0.fill (s.b0.pend, absStack s.stack) m = some x') :
    ∃ s', execMicro s m = .ok s' ∧ Reach s s' x' := by
  cases m with
  | finish offs =>
    simp only [pMicro, aPending_abs] at h
    simp only [execMicro, hr.fix, Bool.true_and]
    cases hp : pendingTop s with
    | false =>
      simp only [hp, Bool.false_eq_true, ↓reduceIte, Option.some.injEq] at h ⊢
      subst h
      exact ⟨s, rfl, rfl, rfl, keep_refl s, hr⟩
    | true =>
      simp only [hp, ↓reduceIte] at h ⊢
      obtain ⟨s', hs', hr'⟩ := execList_pure execBase pBase execBase_pure _ (allLP_mCommentText offs []) s hr x' h
      rw [hs']
      exact ⟨s', rfl, hr'⟩
  | alloc n save g => simp only [pMicro] at h; simp only [execMicro]; exact execBase_pure s _ hlp hr x' h
  | upd g => simp only [pMicro] at h; simp only [execMicro]; exact execBase_pure s _ hlp hr x' h
  | deref keep g => simp only [pMicro] at h; simp only [execMicro]; exact execBase_pure s _ hlp hr x' h

theorem execMicros_pure (ms : List Micro) (hlp : AllLP ms) (s : St) (hr : Ref s) (x' : PSt)
    (h : pMicros s.b0.fill (s.b0.pend, absStack s.stack) ms = some x') :
    ∃ s', execMicros s ms = (s', none) ∧ Reach s s' x' :=
  execList_pure execMicro pMicro execMicro_pure ms hlp s hr x' h

theorem aSig_abs (st : List Frame) : aSig (absStack st) = frameSig st := by
  simp [aSig, absStack, frameSig]

theorem plan_micros_irrel (fs : List (Nat × Kind)) (pl : Nat) (aux : Bytes) (av : Bool) (c c' : Bytes) (op : Op)
    (ms : List Micro) (a : After) (h : plan fs pl aux av c op = .micros ms a) :
    plan fs pl aux av c' op = .micros ms a := by
  cases op <;> first | exact h | (simp only [plan] at h; split at h <;> cases h)

/-- `step` computes the pure function (auto-grow, current code, run alive, buffer valid) -/
theorem step_pure (s : St) (hr : Ref s) (hd : s.dead = none) (hv : s.b0.valid = true) (op : Op) (x' : PSt)
    (h : pStep s.b0.fill s.b1.comm s.b1.valid (s.b0.pend, absStack s.stack) op = some x') :
    ∃ s', step s op = (s', .ok, []) ∧ Reach s s' x' := by
  simp only [pStep, aSig_abs] at h
  cases hp : plan (frameSig s.stack) s.b0.pend.length s.b1.comm s.b1.valid [] op with
  | bad => rw [hp] at h; cases h
  | die e => rw [hp] at h; cases h
  | bufop o => rw [hp] at h; cases h
  | micros ms a =>
    rw [hp] at h
    simp only [] at h
    have hp' := plan_micros_irrel _ _ _ _ [] s.b0.comm op ms a hp
    cases hm : pMicros s.b0.fill (s.b0.pend, absStack s.stack) ms with
    | none => rw [hm] at h; cases h
    | some x1 =>
      rw [hm] at h
      obtain ⟨p1, st1⟩ := x1
      simp only [Option.map_eq_some_iff] at h
      obtain ⟨st2, ha, rfl⟩ := h
      obtain ⟨s1, hs1, hr1⟩ := execMicros_pure ms (plan_LP _ _ _ _ _ _ _ _ hp) s hr (p1, st1) hm
      refine ⟨applyAfter a s1, ?_, ?_⟩
      · simp only [step, hd, hv, Bool.not_true, Bool.false_eq_true, ↓reduceIte, hp', runMicros, hs1]
      · have hbd := applyAfter_bounds a s1 hr1.ref.bounds
        cases a with
        | nothing =>
          simp only [aAfter, Option.some.injEq] at ha; subst ha
          exact hr1
        | push off k =>
          simp only [aAfter, Option.some.injEq] at ha; subst ha
          refine ⟨hr1.pend, ?_, ⟨hr1.keep.done, hr1.keep.fill, hr1.keep.mode, hr1.keep.valid, hr1.keep.b1, hr1.keep.dead, hr1.keep.fix⟩,
            ⟨hr1.ref.mode, hr1.ref.fix, hbd⟩⟩
          simp only [applyAfter, absStack, List.map_cons, Option.map_none]
          have := hr1.stack
          simp only [absStack] at this
          rw [this]
        | pop =>
          simp only [aAfter, Option.some.injEq] at ha; subst ha
          refine ⟨hr1.pend, ?_, ⟨hr1.keep.done, hr1.keep.fill, hr1.keep.mode, hr1.keep.valid, hr1.keep.b1, hr1.keep.dead, hr1.keep.fix⟩,
            ⟨hr1.ref.mode, hr1.ref.fix, hbd⟩⟩
          simp only [applyAfter, absStack, List.map_tail]
          have := hr1.stack
          simp only [absStack] at this
          rw [this]
        | commit => simp [aAfter] at ha

theorem run_pure (ops : List Op) (s : St) (hr : Ref s) (hd : s.dead = none) (hv : s.b0.valid = true) (x' : PSt)
    (h : pRun s.b0.fill s.b1.comm s.b1.valid (s.b0.pend, absStack s.stack) ops = some x') :
    Reach s (run s ops) x' := by
  induction ops generalizing s with
  | nil =>
    simp only [pRun, Option.some.injEq] at h
    subst h
    exact ⟨rfl, rfl, keep_refl s, hr⟩
  | cons op ops ih =>
    simp only [pRun] at h
    cases hx : pStep s.b0.fill s.b1.comm s.b1.valid (s.b0.pend, absStack s.stack) op with
    | none => rw [hx] at h; cases h
    | some x1 =>
      rw [hx] at h
      obtain ⟨s1, hs1, hr1⟩ := step_pure s hr hd hv op x1 hx
      have h' : pRun s1.b0.fill s1.b1.comm s1.b1.valid (s1.b0.pend, absStack s1.stack) ops = some x' := by
        rw [hr1.keep.fill, hr1.keep.b1, hr1.pend, hr1.stack]; exact h
      have := ih s1 hr1.ref (by rw [hr1.keep.dead]; exact hd) (by rw [hr1.keep.valid]; exact hv) h'
      simp only [run, hs1]
      exact reach_trans hr1 this

end Osmium.Buf
