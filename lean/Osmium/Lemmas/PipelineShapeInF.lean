/-
Input side of the shape invariants, part F: parser discipline (`invP`): while the parser is inside
run() and has not seen the end of its input, the futures it has popped — except the one it holds —
were chunk 0 … chunk (j-1) and `avail` is the boundary of chunk j-1; `avail` is 0 or a chunk boundary.
-/
import Osmium.Lemmas.PipelineShapeInD
import Osmium.Lemmas.PipelineShapeInE

set_option linter.unusedSimpArgs false
set_option linter.unusedVariables false

namespace Osmium.Pipeline.ShapeIn

open Osmium.Mon Osmium.Pipeline

variable {α : Type} [DecidableEq α]

/-- the value of the future the parser holds -/
def gotW (w : Nat → Val α) : PPc α → List (Val α)
  | .got id => [w id]
  | _ => []

omit [DecidableEq α] in
@[simp] theorem gotW_pCont (w : Nat → Val α) (k : PK) : gotW w (pCont k) = [] := by cases k <;> rfl

/-- values of the futures handed out to the parser, in pop order -/
def PW (s : State α) : List (Val α) := wmap s.want (s.inq.popped.map (fun p => p.2))

omit [DecidableEq α] in
theorem nth_mem (l : List Nat) (i : Nat) (h : i < l.length) : nth l i ∈ l := by
  simp [nth, List.getD_eq_getElem?_getD, List.getElem?_eq_getElem h]

omit [DecidableEq α] in
theorem availOf_succ (c : Cfg α) (j : Nat) : availOf c (j + 1) = nth c.chunkEnd j := by simp [availOf]

omit [DecidableEq α] in
theorem pget_id (s : State α) (hPre : InvPre s) (hN : InvN s) (id : Nat) (hp : s.ppc = .got id) :
    (∃ y ∈ s.inq.called, y.2 = id) ∧ ∀ v, s.fut id = some v → v = s.want id := by
  obtain ⟨x, hx, hid⟩ := hPre.got id hp
  have hm : x.2 ∈ s.inq.called := hPre.pre.subset (List.mem_map.mpr ⟨x, hx, rfl⟩)
  refine ⟨⟨x.2, hm, hid⟩, fun v hv => ?_⟩
  have := (hN.n_ic _ hm).1
  rw [hid] at this
  exact (hN.n_fut id v hv this).1

omit [DecidableEq α] in
theorem pget_chunk (c : Cfg α) (s : State α) (hR : InvR c s) (hPre : InvPre s) (hN : InvN s) (id i : Nat)
    (hp : s.ppc = .got id) (hf : s.fut id = some (.chunk i)) (j : Nat) (hPW : PW s = chunks j ++ [s.want id]) :
    i = j ∧ j < c.chunkEnd.length := by
  have hw := (pget_id s hPre hN id hp).2 _ hf
  obtain ⟨k, tail, hW, hk, hS⟩ := hR
  have hpre : PW s <+: inW s := wmap_prefix _ _ _ hPre.pre
  rw [hPW, hW, ← hw] at hpre
  have hnc := RS_noChunk hS
  rcases chunks_prefix j k _ tail hnc hpre with ⟨h1, h2⟩ | ⟨h1, h2⟩
  · simp only [Val.chunk.injEq] at h2
    exact ⟨h2, by omega⟩
  · exfalso
    cases tail with
    | nil => simp at h2
    | cons a l =>
      simp only [List.head?_cons, Option.some.injEq] at h2
      exact hnc a (by simp) i h2

structure InvP (c : Cfg α) (s : State α) : Prop where
  p_run : running s.ppc = true → s.inputDone = false →
    ∃ j, s.avail = availOf c j ∧ PW s = chunks j ++ gotW s.want s.ppc
  p_av : s.avail = 0 ∨ s.avail ∈ c.chunkEnd

set_option maxHeartbeats 3200000 in
theorem invP (c : Cfg α) : ∀ s, (machine c).Reachable s → InvP c s := by
  apply Machine.invariant
  · constructor
    · intro _ _; exact ⟨0, by simp [machine, init, availOf], by simp [machine, init, QueueSM.init, PW, gotW]⟩
    · left; rfl
  · intro s e s' hr ih hst
    have hN := invN c s hr
    have hPre := invPre c s hr
    have hR := invR c s hr
    have hK := invK c s hr
    obtain ⟨h1, h2⟩ := ih
    have hpc : ∀ y ∈ s.inq.popped.map (fun p => p.2), y ∈ s.inq.called := fun y hy => hPre.pre.subset hy
    have hfo : ∀ n v, wmap (setPc s.want (2 * n + 1) v) (s.inq.popped.map (fun p => p.2))
        = wmap s.want (s.inq.popped.map (fun p => p.2)) := fun n v =>
      wmap_setPc _ _ _ _ (fun y hy => fresh_odd s hN.n_ic n y (hpc y hy))
    have hfe : ∀ v, wmap (setPc s.want (2 * s.nIn) v) (s.inq.popped.map (fun p => p.2))
        = wmap s.want (s.inq.popped.map (fun p => p.2)) := fun v =>
      wmap_setPc _ _ _ _ (fun y hy => fresh_even s hN.n_ic y (hpc y hy))
    have hgo : ∀ n v, gotW (setPc s.want (2 * n + 1) v) s.ppc = gotW s.want s.ppc := by
      intro n v
      cases hp : s.ppc <;> simp only [gotW]
      obtain ⟨⟨y, hy, hid⟩, _⟩ := pget_id s hPre hN _ hp
      rw [setPc_other]; rw [← hid]; exact fresh_odd s hN.n_ic n y hy
    have hge : ∀ v, gotW (setPc s.want (2 * s.nIn) v) s.ppc = gotW s.want s.ppc := by
      intro v
      cases hp : s.ppc <;> simp only [gotW]
      obtain ⟨⟨y, hy, hid⟩, _⟩ := pget_id s hPre hN _ hp
      rw [setPc_other]; rw [← hid]; exact fresh_even s hN.n_ic y hy
    si_cases e with hst
    all_goals (refine ⟨?_, ?_⟩ <;> first
      | assumption
      | (intro _ hd'
         obtain ⟨j, ha, hp⟩ := h1 (by simp_all [running]) hd'
         have hw := (pget_id s hPre hN _ ‹s.ppc = _›).2 _ ‹s.fut _ = _›
         obtain ⟨e1, e2⟩ := pget_chunk c s hR hPre hN _ _ ‹s.ppc = _› ‹s.fut _ = _› j (by simpa [gotW, ‹s.ppc = _›] using hp)
         subst e1
         refine ⟨_, (availOf_succ c _).symm, ?_⟩
         simp only [‹s.ppc = _›, gotW, ← hw] at hp
         simpa [PW, gotW, chunks_succ] using hp)
      | (obtain ⟨j, ha, hp⟩ := h1 (by simp_all [running]) (hK.k_m (.inr ⟨_, ‹s.ppc = _›⟩)).2
         obtain ⟨e1, e2⟩ := pget_chunk c s hR hPre hN _ _ ‹s.ppc = _› ‹s.fut _ = _› j (by simpa [gotW, ‹s.ppc = _›] using hp)
         subst e1; right; exact nth_mem _ _ e2)
      | (subst_vars
         (try simp only [running_pCont, gotW_pCont])
         simp_all [PW, gotW, running, QueueSM.take_popped, availOf_succ, hfo, hfe, hgo, hge] <;> grind)
      | (intro _ hd'
         have hh2 : s.ppc = PPc.popWait := by grind
         obtain ⟨j, ha, hp⟩ := h1 (by rw [hh2]; rfl) hd'
         refine ⟨j, ha, ?_⟩
         simp only [PW, gotW, hh2, QueueSM.take_popped] at hp ⊢
         cases hi : s.inq.items.head? <;> simp_all [wmap])
      | skip)

end Osmium.Pipeline.ShapeIn
