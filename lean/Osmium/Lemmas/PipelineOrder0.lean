/-
FROZEN SKELETON of the four main theorems of PipelineOrder*.lean (statements only, `sorry`) so
that files depending on them can be developed while those files are being repaired/split.
NOT imported by any Props file; deleted at integration.
-/
import Osmium.Lemmas.PipelineQ

namespace Osmium.Pipeline

open Osmium.Mon

variable {α : Type} [DecidableEq α]

theorem parser_side (c : Cfg α) (hb : c.blobFault = none) (s : State α) (h : (machine c).Reachable s) :
    vals s s.outq.called ++ pend s ++ upstream c s = deliver c := by
  sorry

theorem consumer_side (c : Cfg α) (s : State α) (h : (machine c).Reachable s) :
    s.delivered ++ s.back.flatten ++ holding s = vals s (s.outq.popped.map (fun p => p.2)) := by
  sorry

theorem queue_of_futures_order (c : Cfg α) (hb : c.blobFault = none) (s : State α) (h : (machine c).Reachable s)
    (hu : s.outq.inUse = true) :
    s.delivered ++ inTransit s ++ upstream c s = deliver c := by
  sorry

theorem delivered_prefix (c : Cfg α) (hb : c.blobFault = none) (s : State α) (h : (machine c).Reachable s) :
    (s.delivered ++ s.back.flatten) <+: deliver c := by
  sorry

end Osmium.Pipeline
