/-
Helper lemmas for QueueSM (C19): projections of `take`, the case-split tactic over the
thirteen events, and the structural invariants the property theorems are built from.
-/
import Osmium.Model.QueueSM
import Osmium.Lemmas.Mon

namespace Osmium.QueueSM

open Osmium.Mon

variable {α : Type}

/-! ## `take` field by field -/

@[simp] theorem take_items (s : State α) (t : Tid) : (take s t).items = s.items.tail := by
  unfold take; split <;> simp_all
@[simp] theorem take_removed (s : State α) (t : Tid) :
    (take s t).removed = s.removed ++ s.items.head?.toList := by
  unfold take; split <;> simp_all
@[simp] theorem take_popped (s : State α) (t : Tid) :
    (take s t).popped = s.popped ++ s.items.head?.toList.map (fun x => (t, x)) := by
  unfold take; split <;> simp_all
@[simp] theorem take_inUse (s : State α) (t : Tid) : (take s t).inUse = s.inUse := by
  unfold take; split <;> rfl
@[simp] theorem take_pc (s : State α) (t : Tid) : (take s t).pc = s.pc := by
  unfold take; split <;> rfl
@[simp] theorem take_waiters (s : State α) (t : Tid) : (take s t).waiters = s.waiters := by
  unfold take; split <;> rfl
@[simp] theorem take_called (s : State α) (t : Tid) : (take s t).called = s.called := by
  unfold take; split <;> rfl
@[simp] theorem take_dropped (s : State α) (t : Tid) : (take s t).dropped = s.dropped := by
  unfold take; split <;> rfl
@[simp] theorem take_pushed (s : State α) (t : Tid) : (take s t).pushed = s.pushed := by
  unfold take; split <;> rfl
@[simp] theorem take_ready (s : State α) (t : Tid) : (take s t).ready = s.ready := by
  unfold take; split <;> rfl
@[simp] theorem take_producers (s : State α) (t : Tid) : (take s t).producers = s.producers := by
  unfold take; split <;> rfl
@[simp] theorem take_sawSize (s : State α) (t : Tid) : (take s t).sawSize = s.sawSize := by
  unfold take; split <;> rfl
@[simp] theorem take_sdDone (s : State α) (t : Tid) : (take s t).sdDone = s.sdDone := by
  unfold take; split <;> rfl

theorem head?_toList_append_tail {β : Type} (l : List β) : l.head?.toList ++ l.tail = l := by
  cases l <;> simp

theorem length_tail_le {β : Type} (l : List β) : l.tail.length ≤ l.length := by
  cases l <;> simp

/-- Case split of one step over the thirteen events; every goal gets the guard of the event as
    a hypothesis, `s'` replaced by the successor state and the moving thread named `t`. -/
syntax "qsm_cases " ident " with " ident " tid " ident : tactic
macro_rules
  | `(tactic| qsm_cases $e:ident with $h:ident tid $t:ident) => `(tactic|
      (simp only [Machine.Step, machine] at $h:ident
       have htid0 : ∃ t0, t0 = Ev.tid $e := ⟨_, rfl⟩
       cases htid0 with | intro $t ht0 => ?_
       cases $e:ident <;> simp only [Ev.tid] at ht0 <;> subst ht0 <;>
         simp only [step?] at $h:ident <;> (repeat' split at $h:ident) <;>
         simp only [Option.some.injEq, reduceCtorEq] at $h:ident <;> subst $h:ident))

variable [DecidableEq α]

/-! ## structural invariants -/

theorem inv_cons (c : Cfg) : ∀ s, (machine α c).Reachable s → s.pushed = s.removed ++ s.items := by
  apply Machine.invariant
  · simp [machine, init]
  · intro s e s' _ ih hst
    qsm_cases e with hst tid t <;> simp [ih, head?_toList_append_tail]

theorem inv_sdFlagged (c : Cfg) : ∀ s, (machine α c).Reachable s → ∀ t, s.pc t = .sdFlagged → s.inUse = false := by
  apply Machine.invariant
  · simp [machine, init]
  · intro s e s' _ ih hst
    qsm_cases e with hst tid t <;> intro u hu <;> simp only [setPc_apply, take_pc, take_inUse] at hu ⊢ <;> grind

theorem map_snd_map_pair {β : Type} (t : Tid) (l : List β) :
    (l.map (fun x => (t, x))).map (fun p => p.2) = l := by
  induction l <;> simp_all

theorem inv_popped (c : Cfg) : ∀ s, (machine α c).Reachable s →
    s.inUse = true → s.removed = s.popped.map (fun p => p.2) := by
  apply Machine.invariant
  · simp [machine, init]
  · intro s e s' hr ih hst
    have hfl := inv_sdFlagged c s hr
    qsm_cases e with hst tid t <;> simp only [take_inUse, take_removed, take_popped, List.map_append, map_snd_map_pair] <;> grind

theorem inv_ready (c : Cfg) : ∀ s, (machine α c).Reachable s →
    (∀ t, t ∈ s.ready ↔ ∃ x, s.pc t = .pushReady x) ∧ s.ready.Nodup := by
  apply Machine.invariant
  · simp [machine, init]
  · intro s e s' _ ih hst
    obtain ⟨ih1, ih2⟩ := ih
    qsm_cases e with hst tid t <;> refine ⟨fun u => ?_, ?_⟩ <;>
      simp only [setPc_apply, take_pc, take_ready, List.mem_cons, List.nodup_cons] <;>
      (try (by_cases hut : u = t)) <;> (try subst hut) <;>
      simp_all [List.Nodup.erase, List.Nodup.mem_erase_iff]

theorem inv_sawSize (c : Cfg) : ∀ s, (machine α c).Reachable s → 0 < c.max →
    ∀ t x, (s.pc t = .pushReady x → ∃ n, s.sawSize t = some n ∧ n < c.max) ∧
           (s.pc t = .pushMustWait x → ∃ n, s.sawSize t = some n ∧ c.max ≤ n) := by
  intro s hr hmax
  induction hr with
  | init => simp [machine, init]
  | step hr hst ih =>
    rename_i s s' e
    qsm_cases e with hst tid t <;> intro u y <;>
      simp only [setPc_apply, take_pc, take_sawSize] <;>
      by_cases hut : u = t <;> (try subst hut) <;> simp_all <;> omega

theorem inv_waiters (c : Cfg) : ∀ s, (machine α c).Reachable s →
    (∀ t, t ∈ s.waiters.keys ↔ s.pc t = .popWaiting) ∧ s.waiters.keys.Nodup := by
  apply Machine.invariant
  · simp [machine, init, CondVar.keys]
  · intro s e s' _ ih hst
    obtain ⟨ih1, ih2⟩ := ih
    qsm_cases e with hst tid t <;> refine ⟨fun u => ?_, ?_⟩ <;>
      simp only [setPc_apply, take_pc, take_waiters, CondVar.keys_wait, CondVar.keys_notifyAll,
        CondVar.keys_notifyOne, CondVar.mem_keys_remove, List.mem_append, List.mem_singleton] <;>
      (try (by_cases hut : u = t)) <;> (try subst hut) <;>
      simp_all [CondVar.nodup_keys_remove, List.nodup_append, CondVar.mem_keys_remove] <;>
      (try (intro a ha hat; subst hat; simp_all))

omit [DecidableEq α] in
theorem pred_false {s : State α} (h : pred s = false) : s.inUse = true ∧ s.items = [] := by
  simp [pred] at h; exact h

/-- no lost wake-up, counting form -/
theorem inv_wakeup (c : Cfg) : ∀ s, (machine α c).Reachable s →
    s.items.length ≤ s.waiters.numNotified ∨ s.waiters.numUnnotified = 0 := by
  apply Machine.invariant
  · simp [machine, init, CondVar.numNotified]
  · intro s e s' hr ih hst
    have hw := (inv_waiters c s hr).2
    qsm_cases e with hst tid t <;> simp only [take_items, take_waiters]
    all_goals rename_i hg
    all_goals first
      | exact ih
      | (left; simp; done)
      | (have hp := pred_false (s := s) (by first | exact hg.2.2 | exact hg.2); left; rw [hp.2]; simp; done)
      | (rcases ih with ih | ih
         · left; simp only [List.length_tail]; omega
         · right; exact ih)
      | (have h1 := CondVar.numNotified_remove_ge s.waiters t hw
         have h2 := CondVar.numUnnotified_remove_le s.waiters t
         rcases ih with ih | ih
         · left; simp only [List.length_tail]; omega
         · right; omega)
      | (rename_i woke _ _ _
         cases woke with
         | none =>
           right
           simp only [CondVar.notifyOneOk] at hg
           simp only [CondVar.notifyOne]
           rw [CondVar.numUnnotified_eq_zero_iff]
           simpa using hg.2
         | some w =>
           simp only [CondVar.notifyOneOk, List.contains_iff_mem] at hg
           have h1 := CondVar.numNotified_mark_ge s.waiters w hg.2
           have h2 := CondVar.numUnnotified_mark_le s.waiters w
           simp only [CondVar.notifyOne, List.length_append, List.length_singleton]
           rcases ih with ih | ih
           · left; omega
           · right; omega)

theorem inv_shutdown (c : Cfg) : ∀ s, (machine α c).Reachable s →
    (s.inUse = false → (∃ t, s.pc t = .sdFlagged) ∨ s.waiters.numUnnotified = 0) := by
  apply Machine.invariant
  · simp [machine, init]
  · intro s e s' hr ih hst
    qsm_cases e with hst tid t <;> simp only [take_inUse, take_waiters, take_pc] <;> rename_i hg <;> intro hin
    all_goals first
      | exact ih hin
      | (refine .inl ⟨t, ?_⟩; simp; done)
      | (refine .inr ?_; simp; done)
      | (have hp : pred s = false := by first | exact hg.2.2 | exact hg.2
         have hp := pred_false hp; simp [hp.1] at hin; done)
      | (rcases ih hin with ⟨u, hu⟩ | h0
         · refine .inl ⟨u, ?_⟩
           have : u ≠ t := by intro h; subst h; simp_all
           simp [setPc_apply, this, hu]
         · right
           first
             | exact h0
             | (have := CondVar.numUnnotified_remove_le s.waiters t; omega)
             | (have := CondVar.numUnnotified_notifyOne_le s.waiters ‹Option Tid›; omega))

theorem inv_sdDone (c : Cfg) : ∀ s, (machine α c).Reachable s →
    (s.sdDone = true → s.inUse = false ∧ s.waiters.numUnnotified = 0) := by
  apply Machine.invariant
  · simp [machine, init]
  · intro s e s' hr ih hst
    have hfl := inv_sdFlagged c s hr
    qsm_cases e with hst tid t <;> simp only [take_inUse, take_waiters, take_sdDone] <;> rename_i hg <;> intro hin
    all_goals first
      | exact ih hin
      | (exact ⟨hfl t hg, by simp⟩)
      | (have hp : pred s = false := by first | exact hg.2.2 | exact hg.2
         have hp := pred_false hp; have := (ih hin).1; simp [hp.1] at this; done)
      | (refine ⟨by simp [(ih hin).1], ?_⟩
         have h0 := (ih hin).2
         first
             | exact h0
             | (have := CondVar.numUnnotified_remove_le s.waiters t; omega)
             | (have := CondVar.numUnnotified_notifyOne_le s.waiters ‹Option Tid›; omega))

/-- threads at pushReady are producers; producers are distinct -/
theorem inv_producers (c : Cfg) : ∀ s, (machine α c).Reachable s →
    s.producers.Nodup ∧ (∀ t x, s.pc t = .pushEntered x ∨ s.pc t = .pushPolling x ∨ s.pc t = .pushMustWait x
        ∨ s.pc t = .pushReady x → t ∈ s.producers) := by
  apply Machine.invariant
  · simp [machine, init]
  · intro s e s' _ ih hst
    obtain ⟨ih1, ih2⟩ := ih
    qsm_cases e with hst tid t <;> refine ⟨?_, fun u y => ?_⟩ <;>
      simp only [setPc_apply, take_pc, take_producers, List.nodup_cons] <;>
      (try (by_cases hut : u = t)) <;> (try subst hut) <;> first | grind | (simp_all <;> grind)

theorem inv_softBound (c : Cfg) (hmax : 0 < c.max) : ∀ s, (machine α c).Reachable s →
    s.items.length + s.ready.length + 1 ≤ c.max + s.producers.length := by
  apply Machine.invariant
  · simp [machine, init]; omega
  · intro s e s' hr ih hst
    have hrd := inv_ready c s hr
    have hpr := inv_producers c s hr
    have hsub : s.ready.length ≤ s.producers.length :=
      List.Nodup.length_le_of_subset hrd.2 (fun u hu => by
        obtain ⟨x, hx⟩ := (hrd.1 u).mp hu
        exact hpr.2 u x (.inr (.inr (.inr hx))))
    qsm_cases e with hst tid t <;> simp only [take_items, take_ready, take_producers, List.length_tail] <;>
      rename_i hg
    all_goals first
      | exact ih
      | omega
      | (simp only [List.length_cons]; omega)
      | (simp only [List.length_nil]; omega)
      | (have hmem : t ∈ s.ready := (hrd.1 t).mpr ⟨_, ‹s.pc t = Pc.pushReady _›⟩
         simp only [List.length_append, List.length_singleton, List.length_erase_of_mem hmem]
         have : 0 < s.ready.length := List.length_pos_of_mem hmem
         omega)
      | (have hnot : t ∉ s.ready := by
           intro hm; obtain ⟨x, hx⟩ := (hrd.1 t).mp hm; simp_all
         have hlen : (t :: s.ready).length ≤ s.producers.length :=
           List.Nodup.length_le_of_subset (List.nodup_cons.mpr ⟨hnot, hrd.2⟩) (fun u hu => by
             rcases List.mem_cons.mp hu with h | h
             · subst h; exact hpr.2 _ _ (.inr (.inl ‹_›))
             · obtain ⟨x, hx⟩ := (hrd.1 u).mp h
               exact hpr.2 u x (.inr (.inr (.inr hx))))
         simp only [List.length_cons] at hlen ⊢
         omega)

/-- elements of producer `p` in a sequence -/
def byProd (p : Tid) (l : List (Item α)) : List (Item α) := l.filter (fun x => x.1 == p)

omit [DecidableEq α] in
@[simp] theorem byProd_append (p : Tid) (l₁ l₂ : List (Item α)) : byProd p (l₁ ++ l₂) = byProd p l₁ ++ byProd p l₂ := by
  simp [byProd]
omit [DecidableEq α] in
@[simp] theorem byProd_single (p t : Tid) (x : α) : byProd p [(t, x)] = if t = p then [(t, x)] else [] := by
  simp [byProd, List.filter_cons]

theorem inv_popped_sublist (c : Cfg) : ∀ s, (machine α c).Reachable s →
    (s.popped.map (fun p => p.2)).Sublist s.removed := by
  apply Machine.invariant
  · simp [machine, init]
  · intro s e s' hr ih hst
    qsm_cases e with hst tid t <;> simp only [take_removed, take_popped, List.map_append, map_snd_map_pair]
    all_goals first
      | exact ih
      | exact List.Sublist.append ih (List.Sublist.refl _)
      | exact List.Sublist.trans ih (List.sublist_append_left _ _)

theorem inv_called (c : Cfg) : ∀ s, (machine α c).Reachable s → s.inUse = true →
    s.dropped = [] ∧ ∀ p, byProd p s.called = byProd p s.pushed ++ inflight s p := by
  apply Machine.invariant
  · simp [machine, init, byProd, inflight, carry]
  · intro s e s' hr ih hst
    qsm_cases e with hst tid t <;> simp only [take_inUse, take_called, take_pushed, take_dropped] <;>
      rename_i hg <;> intro hin
    all_goals first
      | exact ih hin
      | (simp at hin; done)
      | (obtain ⟨ih1, ih2⟩ := ih hin
         refine ⟨by first | exact ih1 | (simp_all; done), fun p => ?_⟩
         have ih2 := ih2 p
         simp only [inflight, setPc_apply, byProd_append, byProd_single] at ih2 ⊢
         by_cases hpt : p = t
         · subst hpt; simp_all [carry]
         · have : ¬ t = p := fun h => hpt h.symm
           simp_all [carry])

omit [DecidableEq α] in
theorem mem_carry {t : Tid} {x : Item α} {q : Pc α} (h : x ∈ carry t q) : x.1 = t := by
  unfold carry at h
  split at h <;> simp_all

/-- if all push() calls carry distinct (producer, element) pairs, nothing is enqueued twice -/
theorem inv_nodup (c : Cfg) : ∀ s, (machine α c).Reachable s → s.called.Nodup →
    s.pushed.Nodup ∧ (∀ x ∈ s.pushed, x ∈ s.called) ∧
    (∀ t x, x ∈ inflight s t → x ∈ s.called ∧ x ∉ s.pushed) := by
  apply Machine.invariant
  · simp [machine, init, inflight, carry]
  · intro s e s' hr ih hst
    qsm_cases e with hst tid t <;> simp only [take_called, take_pushed] <;>
      rename_i hg <;> intro hnd
    all_goals first
      | exact ih hnd
      | skip
    all_goals (
      have hnd0 : s.called.Nodup := by first | exact hnd | exact (List.nodup_append.mp hnd).1
      obtain ⟨h1, h2, h3⟩ := ih hnd0
      have h3t := h3 t
      simp only [inflight] at h3t
      refine ⟨?_, ?_, fun u y hy => ?_⟩)
    all_goals (try simp only [inflight, setPc_apply, take_pc] at hy ⊢)
    all_goals (try (have h3u := h3 u y; simp only [inflight] at h3u))
    all_goals first
      | exact h1
      | exact h2
      | (by_cases hut : u = t
         · subst hut; simp_all [carry]; done
         · simp_all [carry]; done)
      | (intro x hx; exact List.mem_append_left _ (h2 x hx))
      | (revert hy; intro hy
         have hdis := (List.nodup_append.mp hnd).2.2
         by_cases hut : u = t
         · subst hut
           simp only [if_true, carry, List.mem_singleton] at hy
           subst hy
           exact ⟨List.mem_append_right _ (List.mem_singleton.mpr rfl),
             fun hm => hdis _ (h2 _ hm) _ (List.mem_singleton.mpr rfl) rfl⟩
         · simp only [hut, if_false] at hy
           have := h3u hy
           exact ⟨List.mem_append_left _ this.1, this.2⟩)
      | (rw [‹s.pc t = _›] at h3t
         simp only [carry, List.mem_singleton, forall_eq] at h3t
         first
           | (rw [List.nodup_append]
              refine ⟨h1, (by simp), fun a ha b hb hab => ?_⟩
              simp only [List.mem_singleton] at hb
              subst hb; subst hab
              exact h3t.2 ha)
           | (intro x hx
              rcases List.mem_append.mp hx with hx | hx
              · exact h2 x hx
              · simp only [List.mem_singleton] at hx; subst hx; exact h3t.1)
           | (revert hy; intro hy
              by_cases hut : u = t
              · subst hut; simp [carry] at hy
              · simp only [hut, if_false] at hy
                have := h3u hy
                have hu := mem_carry hy
                refine ⟨this.1, ?_⟩
                simp only [List.mem_append, List.mem_singleton, not_or]
                refine ⟨this.2, fun h => hut ?_⟩
                rw [h] at hu; exact hu.symm)
)

end Osmium.QueueSM
