/-
C05 — the entity mask (`osm_entity_bits`, `m_read_types`) inside the PBF block decoder
(`PBFPrimitiveBlockDecoder::decode_primitive_block_data`, pbf_decoder.hpp:207-251; model
`Pbf.groupStep` / `blockDataStep` / `decodeBlock` / `decodeDataBlob` / `decodeFile`).

The C++ decides PER FIELD OF A PrimitiveGroup: `if (m_read_types & <type>) { decode…; commit(); }
else { pbf_primitive_group.skip(); }` — and goes on with the next field, the next group, the next
block.  Proved here, for ALL field lists / byte strings (no well-formedness hypothesis, any number of
groups per block, any order of group types, dense and plain nodes mixed):

  if the read with the wider mask `r` succeeds with objects `os`, the read with a mask `r'` that
  selects a subset of the types (same read_meta) succeeds with exactly `os.filter (selected r')`.

What the code does NOT do is validate a skipped group: the read with the narrower mask can succeed
where the wider one throws (`groupField_skipped`; Props/C05.lean `pbf_skipped_group_not_validated`), never the
other way round.  Core-only.
-/
import Osmium.Lemmas.HostilePbfObj

namespace Osmium.Pbf

open Osmium.Wire Osmium.PbfMsg Osmium.Osm
open Osmium.HostilePbf (stVersion stChangeset stTimestamp stUid stVisible stUser denseTail tailK Reach2
  stVersion_reach stChangeset_reach stTimestamp_reach stUid_reach stVisible_reach)

/-- the entity bit of an object (`osm_entity_bits::from_item_type(type) & read_types`) -/
def selected (r : ROpts) : Object → Bool
  | .node .. => r.nodes
  | .way .. => r.ways
  | .relation .. => r.relations
  | .changeset .. => false

/-- `r'` selects a subset of the entity types of `r`; same `read_meta` -/
structure Restricts (r' r : ROpts) : Prop where
  readMeta : r'.readMeta = r.readMeta
  nodes : r'.nodes = true → r.nodes = true
  ways : r'.ways = true → r.ways = true
  relations : r'.relations = true → r.relations = true

/-- all three entity types, `read_meta` as given -/
def allTypes (readMeta : Bool) : ROpts := { nodes := true, ways := true, relations := true, readMeta := readMeta }

theorem restricts_allTypes (r : ROpts) : Restricts r (allTypes r.readMeta) :=
  ⟨rfl, fun _ => rfl, fun _ => rfl, fun _ => rfl⟩

theorem restricts_refl (r : ROpts) : Restricts r r := ⟨rfl, id, id, id⟩

def isNode : Object → Bool
  | .node .. => true
  | _ => false

/-! ### the object decoders look at `read_meta` only -/

theorem nodeStep_meta {r' r : ROpts} (p : Params) (h : r'.readMeta = r.readMeta) : nodeStep p r' = nodeStep p r := by
  funext s f; simp only [nodeStep, metaStep, h]

theorem wayStep_meta {r' r : ROpts} (p : Params) (h : r'.readMeta = r.readMeta) : wayStep p r' = wayStep p r := by
  funext s f; simp only [wayStep, metaStep, h]

theorem relationStep_meta {r' r : ROpts} (p : Params) (h : r'.readMeta = r.readMeta) :
    relationStep p r' = relationStep p r := by
  funext s f; simp only [relationStep, metaStep, h]

theorem denseStep_meta {r' r : ROpts} (h : r'.readMeta = r.readMeta) : denseStep r' = denseStep r := by
  funext s f; simp only [denseStep, h]

theorem decodeNode_meta {r' r : ROpts} (p : Params) (h : r'.readMeta = r.readMeta) : decodeNode p r' = decodeNode p r := by
  funext fs; simp only [decodeNode, nodeStep_meta p h]

theorem decodeWay_meta {r' r : ROpts} (p : Params) (h : r'.readMeta = r.readMeta) : decodeWay p r' = decodeWay p r := by
  funext fs; simp only [decodeWay, wayStep_meta p h]

theorem decodeRelation_meta {r' r : ROpts} (p : Params) (h : r'.readMeta = r.readMeta) :
    decodeRelation p r' = decodeRelation p r := by
  funext fs; simp only [decodeRelation, relationStep_meta p h]

theorem decodeDense_meta {r' r : ROpts} (p : Params) (h : r'.readMeta = r.readMeta) : decodeDense p r' = decodeDense p r := by
  funext fs; simp only [decodeDense, denseStep_meta h]

/-! ### the type of what each decoder returns -/

theorem decodeNode_node (p : Params) (r : ROpts) (fs : List Field) (o : Object) (h : decodeNode p r fs = some o) :
    ∃ m l, o = .node m l := by
  simp only [decodeNode, Option.bind_eq_bind, Option.bind_eq_some_iff, Option.pure_def] at h
  obtain ⟨s, _, h⟩ := h
  split at h
  · split at h
    · simp at h
    · simp only [Option.bind_some, Option.bind_eq_some_iff, Option.some.injEq] at h
      obtain ⟨tags, _, rfl⟩ := h
      exact ⟨_, _, rfl⟩
  · simp only [Option.bind_some, Option.bind_eq_some_iff, Option.some.injEq] at h
    obtain ⟨tags, _, rfl⟩ := h
    exact ⟨_, _, rfl⟩

theorem decodeWay_way (p : Params) (r : ROpts) (fs : List Field) (o : Object) (h : decodeWay p r fs = some o) :
    ∃ m ns, o = .way m ns := by
  simp only [decodeWay, Option.bind_eq_bind, Option.bind_eq_some_iff, Option.pure_def, Option.some.injEq] at h
  obtain ⟨_, _, _, _, _, _, _, _, _, _, h⟩ := h
  exact ⟨_, _, h.symm⟩

theorem decodeRelation_relation (p : Params) (r : ROpts) (fs : List Field) (o : Object)
    (h : decodeRelation p r fs = some o) : ∃ m ms, o = .relation m ms := by
  simp only [decodeRelation, Option.bind_eq_bind, Option.bind_eq_some_iff, Option.pure_def, Option.some.injEq] at h
  obtain ⟨_, _, _, _, _, _, _, _, _, _, _, _, h⟩ := h
  exact ⟨_, _, h.symm⟩

theorem stUser_reach' (p : Params) (K : HostilePbf.K3) (user : Bytes) (c : DenseCur) (info : InfoAcc) (r : List Object)
    (h : stUser p K user c info = some r) : ∃ c' info' u, K c' info' u = some r := by
  unfold stUser at h
  split at h
  · simp only [Option.bind_eq_some_iff] at h
    obtain ⟨u, _, h⟩ := h
    exact ⟨_, _, u, h⟩
  · exact ⟨_, _, user, h⟩

theorem denseTail_reach' (p : Params) (k : DenseCur → List Object → Option (List Object)) (id : Int)
    (acc : List Object) (c : DenseCur) (info : InfoAcc) (user : Bytes) (r : List Object)
    (h : denseTail p k id acc c info user = some r) : ∃ c' o, isNode o = true ∧ k c' (o :: acc) = some r := by
  unfold denseTail at h
  split at h
  · split at h
    · simp only [Option.bind_some, tailK] at h
      exact ⟨_, _, rfl, h⟩
    · simp only [Option.bind_eq_some_iff, tailK] at h
      obtain ⟨x, _, h⟩ := h
      exact ⟨_, _, rfl, h⟩
  · cases h

theorem denseLoop_step' (p : Params) (hasInfo : Bool) (fuel : Nat) (c : DenseCur)
    (acc r : List Object) (h : denseLoop p hasInfo (fuel + 1) c acc = some r) :
    r = acc.reverse ∨ ∃ c' o, isNode o = true ∧ denseLoop p hasInfo fuel c' (o :: acc) = some r := by
  rw [HostilePbf.denseLoop_succ] at h
  split at h
  · injection h with h; exact Or.inl h.symm
  · right
    split at h
    · cases h
    · split at h
      · obtain ⟨_, _, h⟩ := stVersion_reach _ _ _ _ h
        obtain ⟨_, _, h⟩ := stChangeset_reach _ _ _ _ h
        obtain ⟨_, _, h⟩ := stTimestamp_reach _ _ _ _ _ h
        obtain ⟨_, _, h⟩ := stUid_reach _ _ _ _ h
        obtain ⟨_, _, h⟩ := stVisible_reach _ _ _ _ h
        obtain ⟨_, _, u, h⟩ := stUser_reach' p _ _ _ _ _ h
        exact denseTail_reach' p _ _ _ _ _ _ _ h
      · exact denseTail_reach' p _ _ _ _ _ _ _ h

theorem denseLoop_nodes (p : Params) (hasInfo : Bool) : ∀ (fuel : Nat) (c : DenseCur)
    (acc r : List Object), (∀ o ∈ acc, isNode o = true) → denseLoop p hasInfo fuel c acc = some r →
    ∀ o ∈ r, isNode o = true := by
  intro fuel
  induction fuel with
  | zero =>
    intro c acc r ha h
    rw [HostilePbf.denseLoop_zero] at h
    injection h with h; subst h
    intro o ho; exact ha o (List.mem_reverse.mp ho)
  | succ fuel ih =>
    intro c acc r ha h
    rcases denseLoop_step' p hasInfo fuel c acc r h with rfl | ⟨c', o, ho, h'⟩
    · intro o ho; exact ha o (List.mem_reverse.mp ho)
    · refine ih c' (o :: acc) r ?_ h'
      intro x hx
      rcases List.mem_cons.mp hx with rfl | hx
      · exact ho
      · exact ha x hx

/-- `decode_dense_nodes` / `decode_dense_nodes_without_metadata` build nodes only -/
theorem decodeDense_nodes (p : Params) (r : ROpts) (fs : List Field) (os : List Object)
    (h : decodeDense p r fs = some os) : ∀ o ∈ os, isNode o = true := by
  simp only [decodeDense, Option.bind_eq_bind, Option.bind_eq_some_iff] at h
  obtain ⟨s, _, ids, _, _, _, _, _, _, _, _, _, _, _, _, _, _, _, _, _, _, _, h⟩ := h
  exact denseLoop_nodes p _ _ _ _ _ (by intro o ho; cases ho) h

theorem selected_of_isNode (r : ROpts) (o : Object) (h : isNode o = true) : selected r o = r.nodes := by
  cases o <;> simp_all [isNode, selected]

theorem filter_nodes_of_selected (r : ROpts) (hn : r.nodes = true) :
    ∀ (os : List Object), (∀ o ∈ os, isNode o = true) → os.filter (selected r) = os := by
  intro os h
  rw [List.filter_eq_self]
  intro o ho
  rw [selected_of_isNode r o (h o ho), hn]

theorem filter_nodes_of_not_selected (r : ROpts) (hn : r.nodes = false) :
    ∀ (os : List Object), (∀ o ∈ os, isNode o = true) → os.filter (selected r) = [] := by
  intro os h
  rw [List.filter_eq_nil_iff]
  intro o ho
  rw [selected_of_isNode r o (h o ho), hn]
  decide

/-! ### one field of a PrimitiveGroup -/

/-- what one field of a PrimitiveGroup contributes (`none`: an exception) — the `switch` of
    `decode_primitive_block_data` without the accumulator -/
def groupField (p : Params) (r : ROpts) (f : Field) : Option (List Object) :=
  match f.tag, f.wt with
  | 1, .lengthDelimited => if r.nodes then (withFields f.payload (decodeNode p r)).map fun o => [o] else some []
  | 2, .lengthDelimited => if r.nodes then withFields f.payload (decodeDense p r) else some []
  | 3, .lengthDelimited => if r.ways then (withFields f.payload (decodeWay p r)).map fun o => [o] else some []
  | 4, .lengthDelimited => if r.relations then (withFields f.payload (decodeRelation p r)).map fun o => [o] else some []
  | _, _ => some []

theorem groupStep_eq (p : Params) (r : ROpts) (acc : List Object) (f : Field) :
    groupStep p r acc f = (groupField p r f).map fun new => acc ++ new := by
  obtain ⟨tag, wt, val, payload⟩ := f
  unfold groupStep groupField
  dsimp only
  split
  · split <;> simp [Option.map_map, Function.comp_def]
  · split <;> simp
  · split <;> simp [Option.map_map, Function.comp_def]
  · split <;> simp [Option.map_map, Function.comp_def]
  · simp

theorem withFields_some {α : Type} (payload : Bytes) (k : List Field → Option α) (a : α)
    (h : withFields payload k = some a) : ∃ fs, readFields payload = .ok fs ∧ k fs = some a := by
  unfold withFields at h
  split at h
  · cases h
  · exact ⟨_, by assumption, h⟩

theorem withFields_node (p : Params) (r : ROpts) (payload : Bytes) (o : Object)
    (h : withFields payload (decodeNode p r) = some o) : isNode o = true := by
  obtain ⟨fs, _, h⟩ := withFields_some _ _ _ h
  obtain ⟨m, l, rfl⟩ := decodeNode_node p r fs o h
  rfl

/-- the heart of the matter: per field, the narrower mask yields the filtered contribution -/
theorem groupField_mask (p : Params) {r' r : ROpts} (hR : Restricts r' r) (f : Field) (new : List Object)
    (h : groupField p r f = some new) : groupField p r' f = some (new.filter (selected r')) := by
  obtain ⟨tag, wt, val, payload⟩ := f
  unfold groupField at h ⊢
  dsimp only at h ⊢
  split
  · -- Node
    simp only [] at h
    rw [decodeNode_meta p hR.readMeta]
    cases hn' : r'.nodes with
    | false =>
      simp only [Bool.false_eq_true, if_false]
      cases hn : r.nodes with
      | false => simp only [hn, Bool.false_eq_true, if_false, Option.some.injEq] at h; subst h; rfl
      | true =>
        simp only [hn, if_true, Option.map_eq_some_iff] at h
        obtain ⟨o, ho, rfl⟩ := h
        have := withFields_node p r _ o ho
        rw [filter_nodes_of_not_selected r' hn' [o] (by simpa using this)]
    | true =>
      have hn := hR.nodes hn'
      simp only [hn, if_true, Option.map_eq_some_iff] at h ⊢
      obtain ⟨o, ho, rfl⟩ := h
      have := withFields_node p r _ o ho
      exact ⟨o, ho, (filter_nodes_of_selected r' hn' [o] (by simpa using this)).symm⟩
  · -- DenseNodes
    simp only [] at h
    rw [decodeDense_meta p hR.readMeta]
    cases hn' : r'.nodes with
    | false =>
      simp only [Bool.false_eq_true, if_false]
      cases hn : r.nodes with
      | false => simp only [hn, Bool.false_eq_true, if_false, Option.some.injEq] at h; subst h; rfl
      | true =>
        simp only [hn, if_true] at h
        obtain ⟨fs, _, hd⟩ := withFields_some _ _ _ h
        rw [filter_nodes_of_not_selected r' hn' new (decodeDense_nodes p r fs new hd)]
    | true =>
      have hn := hR.nodes hn'
      simp only [hn, if_true] at h ⊢
      obtain ⟨fs, _, hd⟩ := withFields_some _ _ _ h
      rw [h, filter_nodes_of_selected r' hn' new (decodeDense_nodes p r fs new hd)]
  · -- Way
    simp only [] at h
    rw [decodeWay_meta p hR.readMeta]
    cases hn' : r'.ways with
    | false =>
      simp only [Bool.false_eq_true, if_false]
      cases hn : r.ways with
      | false => simp only [hn, Bool.false_eq_true, if_false, Option.some.injEq] at h; subst h; rfl
      | true =>
        simp only [hn, if_true, Option.map_eq_some_iff] at h
        obtain ⟨o, ho, rfl⟩ := h
        obtain ⟨fs, _, hd⟩ := withFields_some _ _ _ ho
        obtain ⟨m, ns, rfl⟩ := decodeWay_way p r fs o hd
        simp [selected, hn']
    | true =>
      have hn := hR.ways hn'
      simp only [hn, if_true, Option.map_eq_some_iff] at h ⊢
      obtain ⟨o, ho, rfl⟩ := h
      obtain ⟨fs, _, hd⟩ := withFields_some _ _ _ ho
      obtain ⟨m, ns, rfl⟩ := decodeWay_way p r fs o hd
      exact ⟨_, ho, by simp [selected, hn']⟩
  · -- Relation
    simp only [] at h
    rw [decodeRelation_meta p hR.readMeta]
    cases hn' : r'.relations with
    | false =>
      simp only [Bool.false_eq_true, if_false]
      cases hn : r.relations with
      | false => simp only [hn, Bool.false_eq_true, if_false, Option.some.injEq] at h; subst h; rfl
      | true =>
        simp only [hn, if_true, Option.map_eq_some_iff] at h
        obtain ⟨o, ho, rfl⟩ := h
        obtain ⟨fs, _, hd⟩ := withFields_some _ _ _ ho
        obtain ⟨m, ms, rfl⟩ := decodeRelation_relation p r fs o hd
        simp [selected, hn']
    | true =>
      have hn := hR.relations hn'
      simp only [hn, if_true, Option.map_eq_some_iff] at h ⊢
      obtain ⟨o, ho, rfl⟩ := h
      obtain ⟨fs, _, hd⟩ := withFields_some _ _ _ ho
      obtain ⟨m, ms, rfl⟩ := decodeRelation_relation p r fs o hd
      exact ⟨_, ho, by simp [selected, hn']⟩
  · -- default: skip
    rename_i h1 h2 h3 h4
    split at h
    · exact (h1 rfl rfl).elim
    · exact (h2 rfl rfl).elim
    · exact (h3 rfl rfl).elim
    · exact (h4 rfl rfl).elim
    · simp only [Option.some.injEq] at h; subst h; rfl

/-- a field whose type is not selected is skipped WITHOUT being looked at: whatever its payload, it
    contributes nothing and raises nothing -/
theorem groupField_skipped (p : Params) (r : ROpts) (f : Field)
    (h : (f.tag = 1 ∨ f.tag = 2) ∧ r.nodes = false ∨ f.tag = 3 ∧ r.ways = false ∨ f.tag = 4 ∧ r.relations = false) :
    groupField p r f = some [] := by
  unfold groupField
  rcases h with ⟨h | h, hn⟩ | ⟨h, hn⟩ | ⟨h, hn⟩ <;> rw [h] <;> cases f.wt <;> simp [hn]

/-! ### append-only folds -/

/-- a step that only appends: the result is the accumulator plus something that does not depend on it -/
def Appends {α : Type} (step : List Object → α → Option (List Object)) (contrib : α → Option (List Object)) : Prop :=
  ∀ acc a, step acc a = (contrib a).map fun new => acc ++ new

theorem foldlM_appends_gen {α : Type} {step : List Object → α → Option (List Object)} {contrib : α → Option (List Object)}
    (hs : Appends step contrib) : ∀ (as : List α) (acc n0 : List Object),
    as.foldlM step (acc ++ n0) =
      (as.foldlM (fun n a => (contrib a).map fun new => n ++ new) n0).map fun new => acc ++ new := by
  intro as
  induction as with
  | nil => intro acc n0; simp
  | cons a as ih =>
    intro acc n0
    simp only [List.foldlM_cons, Option.bind_eq_bind]
    rw [hs]
    cases contrib a with
    | none => simp
    | some new =>
      simp only [Option.map_some, Option.bind_some]
      rw [List.append_assoc]
      exact ih acc (n0 ++ new)

theorem foldlM_appends {α : Type} {step : List Object → α → Option (List Object)} {contrib : α → Option (List Object)}
    (hs : Appends step contrib) (as : List α) (acc : List Object) :
    as.foldlM step acc = (as.foldlM (fun n a => (contrib a).map fun new => n ++ new) []).map fun new => acc ++ new := by
  have := foldlM_appends_gen hs as acc []
  rwa [List.append_nil] at this

/-- if every element's contribution under the narrow mask is the filtered contribution under the
    wide mask, so is the contribution of the whole list -/
theorem foldlM_contrib_mask {α : Type} (sel : Object → Bool) (c c' : α → Option (List Object))
    (h : ∀ a new, c a = some new → c' a = some (new.filter sel)) : ∀ (as : List α) (n0 out : List Object),
    as.foldlM (fun n a => (c a).map fun new => n ++ new) n0 = some out →
    as.foldlM (fun n a => (c' a).map fun new => n ++ new) (n0.filter sel) = some (out.filter sel) := by
  intro as
  induction as with
  | nil => intro n0 out hh; simp at hh ⊢; rw [hh]
  | cons a as ih =>
    intro n0 out hh
    simp only [List.foldlM_cons, Option.bind_eq_bind] at hh ⊢
    cases hc : c a with
    | none => simp [hc] at hh
    | some new =>
      simp only [hc, Option.map_some, Option.bind_some] at hh
      rw [h a new hc]
      simp only [Option.map_some, Option.bind_some]
      have := ih _ _ hh
      rwa [List.filter_append] at this

/-- the contribution of a whole PrimitiveGroup (its field list) -/
def groupContrib (p : Params) (r : ROpts) (gs : List Field) : Option (List Object) :=
  gs.foldlM (fun n f => (groupField p r f).map fun new => n ++ new) []

theorem decodeMsg_groupStep (p : Params) (r : ROpts) (gs : List Field) (acc : List Object) :
    decodeMsg (groupStep p r) acc gs = (groupContrib p r gs).map fun new => acc ++ new :=
  foldlM_appends (groupStep_eq p r) gs acc

theorem groupContrib_mask (p : Params) {r' r : ROpts} (hR : Restricts r' r) (gs : List Field) (new : List Object)
    (h : groupContrib p r gs = some new) : groupContrib p r' gs = some (new.filter (selected r')) :=
  foldlM_contrib_mask (selected r') _ _ (groupField_mask p hR) gs [] new h

/-- contribution of one field of the PrimitiveBlock (`next(2, length_delimited)`: a PrimitiveGroup) -/
def blockField (p : Params) (r : ROpts) (f : Field) : Option (List Object) :=
  match f.tag, f.wt with
  | 2, .lengthDelimited => withFields f.payload (groupContrib p r)
  | _, _ => some []

theorem blockDataStep_eq (p : Params) (r : ROpts) (acc : List Object) (f : Field) :
    blockDataStep p r acc f = (blockField p r f).map fun new => acc ++ new := by
  obtain ⟨tag, wt, val, payload⟩ := f
  unfold blockDataStep blockField
  dsimp only
  split
  · unfold withFields
    split
    · rfl
    · exact decodeMsg_groupStep p r _ acc
  · simp

theorem blockField_mask (p : Params) {r' r : ROpts} (hR : Restricts r' r) (f : Field) (new : List Object)
    (h : blockField p r f = some new) : blockField p r' f = some (new.filter (selected r')) := by
  obtain ⟨tag, wt, val, payload⟩ := f
  unfold blockField at h ⊢
  dsimp only at h ⊢
  split at h
  · obtain ⟨gs, hg, h⟩ := withFields_some _ _ _ h
    unfold withFields
    rw [hg]
    exact groupContrib_mask p hR gs new h
  · simp only [Option.some.injEq] at h; subst h
    rfl

/-! ### block, blob, file -/

/-- **PrimitiveBlock.**  Whatever the field list (any number of groups, any order of types): if the
    block decodes under `r`, it decodes under every restriction `r'` of `r`, to the filtered list. -/
theorem decodeBlock_mask {r' r : ROpts} (hR : Restricts r' r) (fs : List Field) (os : List Object)
    (h : decodeBlock r fs = some os) : decodeBlock r' fs = some (os.filter (selected r')) := by
  simp only [decodeBlock, Option.bind_eq_bind, Option.bind_eq_some_iff] at h ⊢
  obtain ⟨p, hp, h⟩ := h
  refine ⟨p, hp, ?_⟩
  have e := foldlM_appends (blockDataStep_eq p r) fs []
  have e' := foldlM_appends (blockDataStep_eq p r') fs []
  simp only [decodeMsg] at h ⊢
  rw [e] at h
  rw [e']
  simp only [List.nil_append, Option.map_id'] at h ⊢
  exact foldlM_contrib_mask (selected r') _ _ (blockField_mask p hR) fs [] os h

/-- everything a block read delivers is of a selected type -/
theorem decodeBlock_selected (r : ROpts) (fs : List Field) (os : List Object) (h : decodeBlock r fs = some os) :
    ∀ o ∈ os, selected r o = true := by
  have := decodeBlock_mask (restricts_refl r) fs os h
  rw [h] at this
  injection this with this
  exact (List.filter_eq_self.mp this.symm)

theorem decodeDataBlob_mask (inflate : Nat → Bytes → Nat → Option Bytes) {r' r : ROpts} (hR : Restricts r' r)
    (blob : Bytes) (os : List Object) (h : decodeDataBlob inflate r blob = some os) :
    decodeDataBlob inflate r' blob = some (os.filter (selected r')) := by
  simp only [decodeDataBlob, Option.bind_eq_bind, Option.bind_eq_some_iff] at h ⊢
  obtain ⟨d, hd, h⟩ := h
  refine ⟨d, hd, ?_⟩
  obtain ⟨fs, hf, h⟩ := withFields_some _ _ _ h
  unfold withFields
  rw [hf]
  exact decodeBlock_mask hR fs os h

theorem selected_none (r : ROpts) (h : (r.nodes || r.ways || r.relations) = false) (o : Object) : selected r o = false := by
  simp only [Bool.or_eq_false_iff] at h
  cases o <;> simp [selected, h.1.1, h.1.2, h.2]

/-- **File.**  `PBFParser::run` + the block decoder: the read with a restricted mask delivers the
    same header and exactly the selected objects, in file order — also for the empty mask (the data
    blobs are then not even read). -/
theorem decodeFile_mask (inflate : Nat → Bytes → Nat → Option Bytes) {r' r : ROpts} (hR : Restricts r' r)
    (bs : Bytes) (hdr : Header) (os : List Object) (h : decodeFile inflate r bs = some (hdr, os)) :
    decodeFile inflate r' bs = some (hdr, os.filter (selected r')) := by
  simp only [decodeFile, Option.bind_eq_bind, Option.bind_eq_some_iff] at h ⊢
  obtain ⟨first, hfirst, hd, hhd, h⟩ := h
  refine ⟨first, hfirst, hd, hhd, ?_⟩
  cases hn' : (r'.nodes || r'.ways || r'.relations) with
  | false =>
    have hnil : os.filter (selected r') = [] := by
      rw [List.filter_eq_nil_iff]; intro o _; rw [selected_none r' hn' o]; decide
    rw [hnil]
    simp only [Bool.not_false, if_true, Option.pure_def, Option.some.injEq, Prod.mk.injEq, and_true]
    split at h
    · simp only [Option.pure_def, Option.some.injEq, Prod.mk.injEq] at h; exact h.1
    · simp only [Option.bind_eq_some_iff, Option.pure_def, Option.some.injEq, Prod.mk.injEq] at h
      obtain ⟨_, _, _, _, h, _⟩ := h; exact h
  | true =>
    have hn : (r.nodes || r.ways || r.relations) = true := by
      simp only [Bool.or_eq_true] at hn' ⊢
      rcases hn' with (h1 | h1) | h1
      · exact Or.inl (Or.inl (hR.nodes h1))
      · exact Or.inl (Or.inr (hR.ways h1))
      · exact Or.inr (hR.relations h1)
    simp only [hn, Bool.not_true, Bool.false_eq_true, if_false, Option.bind_eq_some_iff, Option.pure_def,
      Option.some.injEq, Prod.mk.injEq] at h ⊢
    obtain ⟨blobs, hb, objs, ho, rfl, rfl⟩ := h
    refine ⟨blobs, hb, objs.filter (selected r'), ?_, rfl, rfl⟩
    have e := foldlM_appends (step := fun acc b => (decodeDataBlob inflate r b).map (acc ++ ·))
      (contrib := decodeDataBlob inflate r) (fun _ _ => rfl) blobs []
    have e' := foldlM_appends (step := fun acc b => (decodeDataBlob inflate r' b).map (acc ++ ·))
      (contrib := decodeDataBlob inflate r') (fun _ _ => rfl) blobs []
    rw [e] at ho
    rw [e']
    simp only [List.nil_append, Option.map_id'] at ho ⊢
    exact foldlM_contrib_mask (selected r') _ _ (fun b new hb => decodeDataBlob_mask inflate hR b new hb) blobs [] objs ho

end Osmium.Pbf
