/-
The DIRECT-FD configuration of the Reader (C05/C07): a PBF FILE is read by the parser thread directly
through the file descriptor (reader.hpp: `DummyDecompressor`, `fd_for_parser`; pbf_input_format.hpp:
`read_exactly(m_fd, …)`).  The read thread still runs, but its decompressor returns "" at once: it
pushes only the end marker and returns; the parser never pops the input queue (its `~queue_wrapper`
shutdown drains the marker), it has the whole file from the start.

In terms of Model/Pipeline.lean this is the SAME step function `step? c` with `c.chunkEnd = []`, no
decompressor faults, started in `initD c` (= `init` with `avail = file.length`, `inputDone = true`), a
state that is not reachable from `init`.  `machineD c` is that machine.

This file proves a SIMULATION: every reachable state `sd` of `machineD c` corresponds to a reachable
state `s` of the modelled, queue-fed machine `machine (fed c)` (`fed c`: one chunk with the whole
file) that agrees with `sd` in every field except the input queue, the read thread's pc and counters
and the futures of the input queue (`Direct.sim`); steps of the read thread are stutter steps of the
simulation, every other step is the same event.  So every invariant of the queue-fed model that
speaks about the shared fields (delivered objects, back buffers, status, results, header promise,
osmdata queue, parser and consumer pcs, pool) holds for the direct-fd configuration, and
(`Direct.no_stuck_state`) so does deadlock-freedom.
-/
import Osmium.Lemmas.PipelineBase
import Osmium.Lemmas.PipelineLive

set_option linter.unusedSimpArgs false
set_option linter.unusedVariables false
set_option linter.unnecessarySeqFocus false
set_option linter.unusedTactic false
set_option linter.unreachableTactic false

namespace Osmium.Pipeline

open Osmium.Mon

variable {α : Type} [DecidableEq α]

namespace Direct

/-- the decompressor is the `DummyDecompressor`: no input pieces, read()/close() never throw -/
structure IsDirect (c : Cfg α) : Prop where
  chunks : c.chunkEnd = []
  rf : c.readFault = none
  cf : c.closeFault = false

/-- the parser has the whole file from the start and never asks the input queue -/
def initD (c : Cfg α) : State α := { init α with avail := c.file.length, inputDone := true }

/-- the pipeline machine of the direct-fd configuration: same steps, other initial state -/
def machineD (c : Cfg α) : Machine (State α) (Ev α) := { init := initD c, step? := step? c }

/-- the queue-fed configuration that simulates it: ONE piece of input with the whole file -/
def fed (c : Cfg α) : Cfg α := { c with chunkEnd := [c.file.length] }

section fedlemmas
omit [DecidableEq α]
@[simp] theorem fed_file (c : Cfg α) : (fed c).file = c.file := rfl
@[simp] theorem fed_sel (c : Cfg α) : (fed c).sel = c.sel := rfl
@[simp] theorem fed_strip (c : Cfg α) : (fed c).strip = c.strip := rfl
@[simp] theorem fed_pbf (c : Cfg α) : (fed c).pbf = c.pbf := rfl
@[simp] theorem fed_blobEnd (c : Cfg α) : (fed c).blobEnd = c.blobEnd := rfl
@[simp] theorem fed_usePool (c : Cfg α) : (fed c).usePool = c.usePool := rfl
@[simp] theorem fed_workers (c : Cfg α) : (fed c).workers = c.workers := rfl
@[simp] theorem fed_wqMax (c : Cfg α) : (fed c).wqMax = c.wqMax := rfl
@[simp] theorem fed_inqC (c : Cfg α) : (fed c).inqC = c.inqC := rfl
@[simp] theorem fed_outqC (c : Cfg α) : (fed c).outqC = c.outqC := rfl
@[simp] theorem fed_single (c : Cfg α) : (fed c).single = c.single := rfl
@[simp] theorem fed_nothing (c : Cfg α) : (fed c).nothing = c.nothing := rfl
@[simp] theorem fed_readFault (c : Cfg α) : (fed c).readFault = c.readFault := rfl
@[simp] theorem fed_closeFault (c : Cfg α) : (fed c).closeFault = c.closeFault := rfl
@[simp] theorem fed_parseFault (c : Cfg α) : (fed c).parseFault = c.parseFault := rfl
@[simp] theorem fed_blobFault (c : Cfg α) : (fed c).blobFault = c.blobFault := rfl
@[simp] theorem fed_chunkEnd (c : Cfg α) : (fed c).chunkEnd = [c.file.length] := rfl
@[simp] theorem proj_fed (c : Cfg α) (l : List α) : proj (fed c) l = proj c l := rfl
@[simp] theorem seg_fed (c : Cfg α) (a b : Nat) : seg (fed c) a b = seg c a b := rfl
@[simp] theorem deliver_fed (c : Cfg α) : deliver (fed c) = deliver c := rfl
end fedlemmas

/-- the state of the queue-fed machine that corresponds to `sd`: the read thread has delivered the one
    chunk and the end marker and has returned; `q`, `f`, `w`: input queue and futures -/
def emb (sd : State α) (q : QueueSM.State Nat) (f : Nat → Option (Val α)) (w : Nat → Val α)
    (ra : Option Nat) : State α :=
  { sd with inq := q, nIn := 2, reads := 2, rpc := .done, fut := f, want := w, readsAtClose := ra }

section emblemmas
omit [DecidableEq α]
variable (sd : State α) (q : QueueSM.State Nat) (f : Nat → Option (Val α)) (w : Nat → Val α) (ra : Option Nat)
@[simp] theorem emb_inq : (emb sd q f w ra).inq = q := rfl
@[simp] theorem emb_fut : (emb sd q f w ra).fut = f := rfl
@[simp] theorem emb_want : (emb sd q f w ra).want = w := rfl
end emblemmas

/-- what relates `sd` to `emb sd q f w` -/
structure Rel (sd : State α) (q : QueueSM.State Nat) (f : Nat → Option (Val α)) (w : Nat → Val α) : Prop where
  pcP : q.pc tP = sd.inq.pc tP
  pcR : q.pc tR = .idle
  fut : ∀ id, id % 2 = 1 → f id = sd.fut id
  want : ∀ id, id % 2 = 1 → w id = sd.want id

/-- `s` (a state of the queue-fed machine) corresponds to `sd` (a state of the direct-fd machine): all
    fields agree except the input queue, the read thread (returned in `s`) and the futures of the input
    queue (even ids) -/
structure Sim (sd s : State α) : Prop where
  outq : s.outq = sd.outq
  nOut : s.nOut = sd.nOut
  stop : s.stop = sd.stop
  ppc : s.ppc = sd.ppc
  avail : s.avail = sd.avail
  next : s.next = sd.next
  inputDone : s.inputDone = sd.inputDone
  hdr : s.hdr = sd.hdr
  hdrSets : s.hdrSets = sd.hdrSets
  nested : s.nested = sd.nested
  cur : s.cur = sd.cur
  blob : s.blob = sd.blob
  work : s.work = sd.work
  wpc : s.wpc = sd.wpc
  cpc : s.cpc = sd.cpc
  status : s.status = sd.status
  back : s.back = sd.back
  hdrGot : s.hdrGot = sd.hdrGot
  delivered : s.delivered = sd.delivered
  results : s.results = sd.results
  faulted : s.faulted = sd.faulted
  sawEod : s.sawEod = sd.sawEod
  destroyed : s.destroyed = sd.destroyed
  nIn : s.nIn = 2
  reads : s.reads = 2
  rpc : s.rpc = .done
  pcP : s.inq.pc tP = sd.inq.pc tP
  pcR : s.inq.pc tR = .idle
  fut : ∀ id, id % 2 = 1 → s.fut id = sd.fut id
  want : ∀ id, id % 2 = 1 → s.want id = sd.want id

omit [DecidableEq α] in
theorem Sim.eq_emb {sd s : State α} (h : Sim sd s) : s = emb sd s.inq s.fut s.want s.readsAtClose := by
  obtain ⟨h0, h1, h2, h3, h4, h5, h6, h7, h8, h9, h10, h11, h12, h13, h14, h15, h16, h17, h18, h19, h20, h21, h22, h23, h24, h25, h26, h27, h28, h29⟩ := h
  cases s; cases sd
  simp only [emb] at *
  simp_all

omit [DecidableEq α] in
theorem Sim.rel {sd s : State α} (h : Sim sd s) : Rel sd s.inq s.fut s.want :=
  ⟨h.pcP, h.pcR, h.fut, h.want⟩

omit [DecidableEq α] in
theorem sim_emb {sd : State α} {q : QueueSM.State Nat} {f : Nat → Option (Val α)} {w : Nat → Val α}
    {ra : Option Nat} (h : Rel sd q f w) : Sim sd (emb sd q f w ra) :=
  ⟨rfl, rfl, rfl, rfl, rfl, rfl, rfl, rfl, rfl, rfl, rfl, rfl, rfl, rfl, rfl, rfl, rfl, rfl, rfl, rfl, rfl, rfl, rfl, rfl, rfl, rfl, h.pcP, h.pcR, h.fut, h.want⟩

/-- steps of the read thread -/
def isR : Ev α → Bool
  | .rTestDone _ | .rRead _ | .rCloseDec _ | .rSet => true
  | .qi (.pushEnter _ _) | .qi (.pushTest _ _) | .qi (.pushSize _ _) | .qi (.pushFullWaited _ _)
  | .qi (.pushLocked _ _ _) => true
  | _ => false

/-- parser pcs of the direct-fd configuration: the parser never waits for input -/
def dP : PPc α → Bool
  | .popWait | .got _ => false
  | .sdIn k | .sdInRun k => k != .run
  | _ => true

/-- invariants of the direct-fd machine that the simulation needs -/
structure DInv (sd : State α) : Prop where
  idone : sd.inputDone = true
  pp : dP sd.ppc = true
  reven : ∀ id v k, sd.rpc = .pushing id v k ∨ sd.rpc = .pushed id v k → id % 2 = 0

set_option maxHeartbeats 1600000 in
/-- `DInv` is preserved by every step -/
theorem dinv_step (c : Cfg α) (sd sd' : State α) (e : Ev α) (hst : step? c sd e = some sd') (hI : DInv sd) :
    DInv sd' := by
  obtain ⟨h1, h2, h3⟩ := hI
  have hst' : (machine c).Step sd e sd' := hst
  plv_cases e with hst' q hq
  all_goals (refine ⟨?_, ?_, ?_⟩)
  all_goals first
    | assumption
    | (ap_norm; assumption)
    | (simp only [afterPop_inputDone, afterClose_inputDone, afterPop_ppc, afterClose_ppc, afterPop_rpc, afterClose_rpc]; assumption)
    | (simp_all [dP, pCont, rCont]; done)
    | (cases ‹PK› <;> simp_all [dP, pCont, rCont]; done)
    | (cases ‹RK› <;> simp_all [dP, pCont, rCont]; done)
    | (cases hh : sd.ppc <;> simp_all [dP, pCont, rCont]; done)
    | (intro id v k hh; simp_all [rCont]; omega)

set_option maxHeartbeats 1600000 in
/-- a step of the read thread is a stutter step of the simulation -/
theorem r_step (c : Cfg α) (hd : IsDirect c) (sd sd' : State α) (e : Ev α) (hst : step? c sd e = some sd')
    (hr : isR e = true) (hI : DInv sd) (q : QueueSM.State Nat) (f : Nat → Option (Val α)) (w : Nat → Val α)
    (ra : Option Nat) (hrel : Rel sd q f w) : emb sd' q f w ra = emb sd q f w ra ∧ Rel sd' q f w := by
  obtain ⟨h1, h2, h3⟩ := hI
  obtain ⟨r1, r2, r3, r4⟩ := hrel
  obtain ⟨d1, d2, d3⟩ := hd
  have hst' : (machine c).Step sd e sd' := hst
  plv_cases e with hst' q0 hq0
  all_goals (try (simp [isR] at hr; done))
  all_goals (try q_unfold hq0)
  all_goals (refine ⟨?_, ?_, ?_, ?_, ?_⟩)
  all_goals first
    | rfl
    | assumption
    | (simp_all [emb, setPc_apply, tR, tP, tC]; done)
    | (intro id hid; simp only [setPc_apply]; split
       · exfalso
         first
           | omega
           | (simp_all; done)
           | (simp_all; omega)
       · first | exact r3 id hid | exact r4 id hid)

set_option maxHeartbeats 3200000 in
/-- every other step is enabled in the corresponding state of the queue-fed machine -/
theorem p_en (c : Cfg α) (sd : State α) (e : Ev α) (h : (step? c sd e).isSome = true)
    (hr : isR e = false) (hI : DInv sd) (q : QueueSM.State Nat) (f : Nat → Option (Val α)) (w : Nat → Val α)
    (ra : Option Nat) (hrel : Rel sd q f w) (hodd : ∀ a, sd.cpc = .readGot a → a % 2 = 1) :
    (step? (fed c) (emb sd q f w ra) e).isSome = true := by
  obtain ⟨h1, h2, h3⟩ := hI
  obtain ⟨r1, r2, r3, r4⟩ := hrel
  cases e with
  | qi qe =>
    cases qe <;> simp only [step?] at h ⊢ <;> (repeat' split at h) <;>
      simp_all [emb, dP, isR, QueueSM.step?, tR, tP, tC]
  | qo qe =>
    cases qe <;> simp only [step?] at h ⊢ <;> (repeat' split at h) <;> simp_all [emb, isR]
  | _ =>
    simp only [step?] at h ⊢ <;> (repeat' split at h) <;> simp_all [emb, isR, dP] <;> (try split) <;> simp_all

/-- closes one field of `Sim` after both successor states have been substituted -/
syntax "sim_field" : tactic
macro_rules
  | `(tactic| sim_field) => `(tactic|
      first
        | rfl
        | assumption
        | (simp [emb]; done)
        | (simp_all [emb, setPc_apply, tR, tP, tC]; done)
        | (intro id hid; simp only [emb, setPc_apply]; split <;> simp_all))

set_option maxHeartbeats 6400000 in
/-- … and leads to the corresponding state: steps of the pool and of the consumer, the parser's own steps -/
theorem p_rel_a (c : Cfg α) (sd sd' s' : State α) (e : Ev α) (q : QueueSM.State Nat) (f : Nat → Option (Val α))
    (w : Nat → Val α) (ra : Option Nat) (hst : step? c sd e = some sd')
    (hst2 : step? (fed c) (emb sd q f w ra) e = some s')
    (hq : ∀ qe, e ≠ .qi qe ∧ e ≠ .qo qe) (hr : isR e = false) (hI : DInv sd) (hrel : Rel sd q f w)
    (hodd : ∀ t id, sd.wpc t = some id → id % 2 = 1) : Sim sd' s' := by
  obtain ⟨h1, h2, h3⟩ := hI
  obtain ⟨r1, r2, r3, r4⟩ := hrel
  cases e with
  | qi qe => exact absurd rfl (hq qe).1
  | qo qe => exact absurd rfl (hq qe).2
  | _ =>
    simp only [step?] at hst hst2 <;> (repeat' split at hst) <;> simp_all [emb, isR, dP] <;>
      (try (repeat' split at hst2)) <;> (try simp_all) <;> (try (obtain ⟨-, hst2⟩ := hst2)) <;> (try subst_vars) <;>
      (constructor <;> sim_field)

end Direct

end Osmium.Pipeline
