/-
C10 — interface lemmas between the ring-building theorems (AreaRing*.lean) and the statements in
Props/C10.lean: hypotheses in terms of `count` on the end point list, decidable checkers for the
non-vacuity examples, the point sequence of a ring, and the even-odd corollary.
-/
import Osmium.Lemmas.AreaRing4
import Osmium.Lemmas.AreaRing5

namespace Osmium.Area

/-! ## hypotheses -/

theorem deg2_iff (segs : List Seg) :
    Deg2 segs ↔ ∀ v, (endpoints segs).count v = 0 ∨ (endpoints segs).count v = 2 := by
  unfold Deg2
  constructor <;> intro h v <;> have := h v <;> rw [deg_eq_count] at * <;> exact this

/-- decidable form of "every node has degree 2" -/
def deg2Check (segs : List Seg) : Bool := (endpoints segs).all fun v => (endpoints segs).count v == 2

theorem deg2_of_check (segs : List Seg) (h : deg2Check segs = true) : Deg2 segs := by
  rw [deg2_iff]
  intro v
  by_cases hv : v ∈ endpoints segs
  · right
    unfold deg2Check at h
    rw [List.all_eq_true] at h
    simpa using h v hv
  · left; exact List.count_eq_zero_of_not_mem hv

/-- decidable form of "every node has even degree and `splits` are the nodes of degree ≥ 4" -/
def splitsCheck (segs : List Seg) (splits : List Vec) : Bool :=
  ((endpoints segs).all fun v => (endpoints segs).count v % 2 == 0 &&
    (splits.contains v == decide (4 ≤ (endpoints segs).count v))) &&
  splits.all fun v => (endpoints segs).contains v

theorem splitsOk_of_check (segs : List Seg) (splits : List Vec) (h : splitsCheck segs splits = true) :
    SplitsOk segs splits := by
  unfold splitsCheck at h
  rw [Bool.and_eq_true, List.all_eq_true, List.all_eq_true] at h
  constructor
  · intro v
    rw [deg_eq_count]
    by_cases hv : v ∈ endpoints segs
    · have := h.1 v hv
      simp only [Bool.and_eq_true, beq_iff_eq] at this
      exact this.1
    · rw [List.count_eq_zero_of_not_mem hv]
  · intro v
    rw [deg_eq_count]
    by_cases hv : v ∈ endpoints segs
    · have := h.1 v hv
      simp only [Bool.and_eq_true, beq_iff_eq] at this
      have h2 := this.2
      constructor
      · intro hs
        have : splits.contains v = true := by simpa using hs
        rw [this] at h2
        simpa using h2.symm
      · intro h4
        have : decide (4 ≤ List.count v (endpoints segs)) = true := by simpa using h4
        rw [this] at h2
        simpa using h2
    · rw [List.count_eq_zero_of_not_mem hv]
      constructor
      · intro hs
        have := h.2 v hs
        exact absurd (by simpa using this) hv
      · intro h4; omega

theorem wfSegs_of_erase (l : List Seg) (hwf : ∀ s ∈ l, s.wf = true) :
    WfSegs (eraseDuplicates (sortSegs l)) := fun x hx =>
  hwf x ((sortSegs_perm l).mem_iff.1 ((eraseDuplicates_sublist _).subset hx))

/-! ## the point sequence of a ring -/

theorem dseg_start (segs : List Seg) (x : SLoc) :
    (⟨segAt segs x.item, x.reverse⟩ : DSeg).start = x.loc segs := by
  simp [DSeg.start, SLoc.loc]

theorem dseg_stop (segs : List Seg) (x : SLoc) :
    (⟨segAt segs x.item, x.reverse⟩ : DSeg).stop = x.stop segs := by
  simp [DSeg.stop, SLoc.stop]

theorem points_length (segs : List Seg) (r : List SLoc) (h : r ≠ []) :
    ((ringOf segs r).points).length = r.length + 1 := by
  cases r with
  | nil => exact absurd rfl h
  | cons x r => simp [ringOf, Ring.points]

theorem isPath_last (segs : List Seg) (r : List SLoc) : ∀ (x : SLoc) (a b : Vec),
    IsPath segs a (x :: r) b → ((x :: r).map (SLoc.stop segs)).getLast? = some b := by
  induction r with
  | nil =>
    intro x a b h
    simp only [IsPath] at h
    simp [h.2]
  | cons y r ih =>
    intro x a b h
    simp only [IsPath] at h
    have := ih y _ b ⟨h.2.1, h.2.2⟩
    rw [List.map_cons, List.map_cons, List.getLast?_cons_cons]
    rw [List.map_cons] at this
    exact this

/-- the node sequence `build_ring_from_proto_ring` writes for a closed chain is closed: the first
    and the last point are equal -/
theorem points_closed (segs : List Seg) (r : List SLoc) (a : Vec) (h : IsPath segs a r a) (hne : r ≠ []) :
    ringClosed ((ringOf segs r).points) = true := by
  cases r with
  | nil => exact absurd rfl hne
  | cons x r =>
    have hl := isPath_last segs r x a a h
    simp only [IsPath] at h
    simp only [ringOf, List.map_cons, Ring.points, ringClosed, List.head?_cons]
    have hmap : (List.map DSeg.stop (List.map (fun x => (⟨segAt segs x.item, x.reverse⟩ : DSeg)) r)) =
        r.map (SLoc.stop segs) := by
      rw [List.map_map]; apply List.map_congr_left; intro y _; exact dseg_stop segs y
    rw [List.getLast?_cons_cons, hmap, dseg_start, dseg_stop, h.1]
    rw [List.map_cons] at hl
    rw [hl]
    simp

/-! ## every segment exactly once = the even-odd rule -/

/-- all segments of all rings -/
def allRingSegs (segs : List Seg) (rings : List PRing) : List Seg :=
  rings.flatMap fun r => ringSegs segs r.segs

theorem map_segAt_range (segs : List Seg) : (List.range segs.length).map (segAt segs) = segs := by
  apply List.ext_getElem
  · simp
  · intro i h1 h2
    simp only [List.getElem_map, List.getElem_range]
    exact segAt_eq segs i h2

theorem allRingSegs_perm (segs : List Seg) (rings : List PRing)
    (h : (allItems rings).Perm (List.range segs.length)) : (allRingSegs segs rings).Perm segs := by
  have h1 : allRingSegs segs rings = (allItems rings).map (segAt segs) := by
    simp [allRingSegs, allItems, ringSegs, ringItems, List.map_flatMap, List.map_map, Function.comp_def]
  rw [h1]
  have := List.Perm.map (segAt segs) h
  rw [map_segAt_range] at this
  exact this


/-! ## segment ends are valid locations, never the undefined location -/

theorem ofEnds_ends (a b : Vec) :
    ((Seg.ofEnds a b).first = a ∧ (Seg.ofEnds a b).second = b) ∨
    ((Seg.ofEnds a b).first = b ∧ (Seg.ofEnds a b).second = a) := by
  unfold Seg.ofEnds
  split
  · exact Or.inl ⟨rfl, rfl⟩
  · exact Or.inr ⟨rfl, rfl⟩

theorem extractFrom_valid (prev : Option Node) (w : List Node) (hp : ∀ p, prev = some p → p.loc.valid = true) :
    ∀ s ∈ extractFrom prev w, s.first.valid = true ∧ s.second.valid = true := by
  induction w generalizing prev with
  | nil => simp [extractFrom]
  | cons nr rest ih =>
    intro s hs
    unfold extractFrom at hs
    split at hs
    · exact ih prev hp s hs
    · rename_i hv
      have hnv : nr.loc.valid = true := by simpa using hv
      have hp' : ∀ p, some nr = some p → p.loc.valid = true := by
        intro p h; cases h; exact hnv
      split at hs
      · rename_i p
        have hpv := hp p rfl
        split at hs
        · rcases List.mem_cons.mp hs with rfl | hs
          · rcases ofEnds_ends p.loc nr.loc with ⟨h1, h2⟩ | ⟨h1, h2⟩ <;> rw [h1, h2]
            · exact ⟨hpv, hnv⟩
            · exact ⟨hnv, hpv⟩
          · exact ih _ hp' s hs
        · exact ih _ hp' s hs
      · exact ih _ hp' s hs

/-- every end point of every segment extracted from ways is a valid location — in particular not
    the default-constructed location `find_split_locations` starts with -/
theorem undefined_not_endpoint (ws : List (List Node)) :
    undefinedLoc ∉ endpoints (eraseDuplicates (sortSegs (allSegments ws))) := by
  intro hm
  simp only [endpoints, List.mem_flatMap] at hm
  obtain ⟨s, hs, hv⟩ := hm
  have hs1 : s ∈ allSegments ws :=
    (sortSegs_perm _).mem_iff.1 ((eraseDuplicates_sublist _).subset hs)
  simp only [allSegments, List.mem_flatMap] at hs1
  obtain ⟨w, _, hsw⟩ := hs1
  have hval := extractFrom_valid none w (by simp) s hsw
  have hu : undefinedLoc.valid = false := by decide
  simp only [List.mem_cons, List.not_mem_nil, or_false] at hv
  rcases hv with h | h
  · rw [h] at hu; rw [hu] at hval; exact absurd hval.1 (by decide)
  · rw [h] at hu; rw [hu] at hval; exact absurd hval.2 (by decide)

end Osmium.Area
