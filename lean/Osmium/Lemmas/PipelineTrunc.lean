/-
Truncated input (C07): a parse fault that is pending at the END of the input (`c.parseFault = some
c.file.length`: the parser throws when it reaches the end of the data it was given, e.g. a file cut
in the middle of an object) makes a clean end-of-data impossible for the caller.

  `invF`                    strengthening of `Complete.invO2`: the end marker of the parser is preceded by
                            an exception, or `Parser::run()` returned through the guard of `pRunEnd`
                            INCLUDING its conjunct `c.parseFault ≠ some s.next`
  `at_eod_parse_fault`      at the moment read() unpacks the end marker no parse fault is pending at the end
  `no_clean_eod`            with such a fault read() never unpacks the end marker
  `eof_only_after_eod`      read() returns "end of data" only after it popped the end marker (or with an
                            empty entity mask)
  `truncated_never_eof`     with such a fault (and a non-empty entity mask) read() never returns "end of data"
  `direct_truncated_never_eof`  the same for the direct-fd machine, through the simulation `Direct.sim`
-/
import Osmium.Lemmas.PipelineComplete
import Osmium.Lemmas.PipelineDirect4

set_option linter.unusedSimpArgs false
set_option linter.unusedVariables false
set_option linter.unusedTactic false
set_option linter.unreachableTactic false

namespace Osmium.Pipeline
open Osmium.Mon
variable {α : Type} [DecidableEq α]
namespace Trunc

open Complete

/-- `Parser::run()` returned normally, through the guard of `pRunEnd` (reader.hpp / input_format.hpp:
    all input used and no parse fault pending there, or nothing wanted, or the osmdata queue shut down) -/
def CleanEndF (c : Cfg α) (s : State α) : Prop :=
  c.nothing = true ∨ s.outq.inUse = false ∨
    (s.inputDone = true ∧ s.next = s.avail ∧ c.parseFault ≠ some s.next)

structure InvF (c : Cfg α) (s : State α) : Prop where
  f_clean : Complete.OutEod s → Complete.OutExc s ∨ CleanEndF c s
  f_push : ∀ k, s.ppc = .push .eod k → Complete.OutExc s ∨ CleanEndF c s

omit [DecidableEq α] in
theorem cleanEndF_fwd (c : Cfg α) (s s' : State α) (h3 : s'.next = s.next)
    (h4 : s'.avail = s.avail) (h5 : s'.inputDone = s.inputDone)
    (h6 : s'.outq.inUse = s.outq.inUse ∨ s'.outq.inUse = false) (h : CleanEndF c s) : CleanEndF c s' := by
  unfold CleanEndF at *
  rw [h3, h4, h5]
  rcases h6 with h6 | h6 <;> rw [h6] <;> simp_all

omit [DecidableEq α] in
/-- L1: the parser does not move / moves inside its final phase -/
theorem L1F (c : Cfg α) (s s' : State α) (hc : s'.outq.called = s.outq.called)
    (hw : ∀ y ∈ s.outq.called, s'.want y.2 = s.want y.2) (hp : s'.ppc = s.ppc ∨ (pFin s.ppc ∧ pFin s'.ppc))
    (h3 : s'.next = s.next) (h4 : s'.avail = s.avail) (h5 : s'.inputDone = s.inputDone)
    (h6 : s'.outq.inUse = s.outq.inUse ∨ s'.outq.inUse = false) (ih : InvF c s) : InvF c s' := by
  have hX : OutExc s ∨ CleanEndF c s → OutExc s' ∨ CleanEndF c s' := fun h => h.elim
    (fun h => .inl (outExc_fwd s s' (by rw [hc]; exact fun _ h => h) hw h))
    (fun h => .inr (cleanEndF_fwd c s s' h3 h4 h5 h6 h))
  refine ⟨fun h => hX (ih.f_clean (outEod_back s s' hc hw h)), fun k hk => ?_⟩
  rcases hp with hp | hp
  · exact hX (ih.f_push k (by rw [← hp]; exact hk))
  · have := hp.2; rw [hk] at this; simp [pFin] at this

omit [DecidableEq α] in
/-- L2: the parser moves before its end marker is handed to push() -/
theorem L2F (c : Cfg α) (s s' : State α) (hc : s'.outq.called = s.outq.called)
    (hw : ∀ y ∈ s.outq.called, s'.want y.2 = s.want y.2) (hnf : ¬ pFin s.ppc) (hfin : OutEod s → pFin s.ppc)
    (hp' : ∀ k, s'.ppc = .push .eod k → OutExc s' ∨ CleanEndF c s') : InvF c s' :=
  ⟨fun h => absurd (hfin (outEod_back s s' hc hw h)) hnf, hp'⟩

omit [DecidableEq α] in
/-- L5: push() is called -/
theorem L5F (c : Cfg α) (s s' : State α) (z : QueueSM.Item Nat) (hc : s'.outq.called = s.outq.called ++ [z])
    (hw : ∀ y ∈ s.outq.called, s'.want y.2 = s.want y.2) (hnf : ¬ pFin s.ppc) (hfin : OutEod s → pFin s.ppc)
    (hz : s'.want z.2 = .eod → OutExc s ∨ CleanEndF c s')
    (hp' : ∀ k, s'.ppc ≠ .push .eod k) : InvF c s' := by
  have hno : ∀ y ∈ s.outq.called, s.want y.2 ≠ .eod := fun y hy he => hnf (hfin ⟨y, hy, he⟩)
  have hE : OutEod s' → s'.want z.2 = .eod := by
    rintro ⟨y, hy, he⟩
    rw [hc, List.mem_append, List.mem_singleton] at hy
    rcases hy with hy | hy
    · rw [hw y hy] at he; exact absurd he (hno y hy)
    · rw [← hy]; exact he
  refine ⟨fun h => ?_, fun k hk => absurd hk (hp' k)⟩
  rcases hz (hE h) with h1 | h1
  · exact .inl (outExc_fwd s s' (by rw [hc]; exact fun _ h => List.mem_append_left _ h) hw h1)
  · exact .inr h1

set_option maxHeartbeats 1600000 in
theorem stepF_qi (c : Cfg α) (s s' : State α) (qe : QueueSM.Ev Nat) (hr : (machine c).Reachable s) (ih : InvF c s)
    (hst : (machine c).Step s (.qi qe) s') : InvF c s' := by
    have hN := invN c s hr
    have hfin := (invO2 c s hr).o_fin
    obtain ⟨g1, g2, g3⟩ := invO1 c s hr
    have n1 := hN.n_oc
    have fr1 : ∀ v, ∀ y ∈ s.outq.called, setPc s.want (2 * s.nIn) v y.2 = s.want y.2 := by
      intro v y hy; have := n1 y hy
      by_cases h : y.2 = 2 * s.nIn
      · omega
      · simp [setPc_apply, h]
    clear n1
    pq_cases qe with hst
    all_goals (try subst_vars)
    all_goals first
      | exact L1F c s _ rfl (fun _ _ => rfl) (.inl rfl) rfl rfl rfl (.inl rfl) ih
      | exact L1F c s _ rfl (fr1 _) (.inl rfl) rfl rfl rfl (.inl rfl) ih
      | (refine L2F c s _ rfl (fun _ _ => rfl) ?_ hfin ?_ <;> (simp_all; done))
      | (rcases g3 _ (.inl (by assumption)) with rfl | rfl
         · refine L2F c s _ rfl (fun _ _ => rfl) ?_ hfin ?_ <;> (simp_all [pCont]; done)
         · refine L1F c s _ rfl (fun _ _ => rfl) (.inr ⟨?_, ?_⟩) rfl rfl rfl (.inl rfl) ih <;> (simp_all [pCont]; done))
      | (rcases g3 _ (.inr (by assumption)) with rfl | rfl
         · refine L2F c s _ rfl (fun _ _ => rfl) ?_ hfin ?_ <;> (simp_all [pCont]; done)
         · refine L1F c s _ rfl (fun _ _ => rfl) (.inr ⟨?_, ?_⟩) rfl rfl rfl (.inl rfl) ih <;> (simp_all [pCont]; done))

set_option maxHeartbeats 1600000 in
theorem stepF_qo (c : Cfg α) (s s' : State α) (qe : QueueSM.Ev Nat) (hr : (machine c).Reachable s) (ih : InvF c s)
    (hst : (machine c).Step s (.qo qe) s') : InvF c s' := by
    have hN := invN c s hr
    have hfin := (invO2 c s hr).o_fin
    obtain ⟨g1, g2, g3⟩ := invO1 c s hr
    have n1 := hN.n_oc
    have fr2 : ∀ v, ∀ y ∈ s.outq.called, setPc s.want (2 * s.nOut + 1) v y.2 = s.want y.2 := by
      intro v y hy; have := n1 y hy
      by_cases h : y.2 = 2 * s.nOut + 1
      · omega
      · simp [setPc_apply, h]
    clear n1
    pq_cases qe with hst
    all_goals (try subst_vars)
    all_goals first
      | exact L1F c s _ rfl (fun _ _ => rfl) (.inl rfl) rfl rfl rfl (.inl rfl) ih
      | exact L1F c s _ rfl (fun _ _ => rfl) (.inl rfl) rfl rfl rfl (.inr rfl) ih
      | exact L1F c s _ (QueueSM.take_called _ _) (fun _ _ => rfl) (.inl rfl) rfl rfl rfl (.inl (QueueSM.take_inUse _ _)) ih
      | (refine L5F c s _ _ rfl (fr2 _) ?_ hfin ?_ ?_
         · simp_all
         · intro hv; simp only [setPc_same] at hv; subst hv
           exact ih.f_push _ (by assumption)
         · intro k; simp)
      | (refine L5F c s _ _ rfl (fun _ _ => rfl) ?_ hfin ?_ ?_
         · simp_all
         · intro hv; exact absurd hv (g2 _ _ (.inl (by assumption))).1
         · intro k; simp)
      | (by_cases hf : pFin s.ppc
         · refine L1F c s _ rfl (fun _ _ => rfl) (.inr ⟨hf, ?_⟩) rfl rfl rfl (.inl rfl) ih
           simp_all [pCont]; done
         · refine L2F c s _ rfl (fun _ _ => rfl) hf hfin ?_
           simp_all [pCont]; done)

set_option maxHeartbeats 1600000 in
theorem stepF_rest (c : Cfg α) (s s' : State α) (e : Ev α) (hqi : ∀ qe, e ≠ .qi qe) (hqo : ∀ qe, e ≠ .qo qe)
    (hr : (machine c).Reachable s) (ih : InvF c s) (hst : (machine c).Step s e s') : InvF c s' := by
    have hN := invN c s hr
    have hfin := (invO2 c s hr).o_fin
    obtain ⟨g1, g2, g3⟩ := invO1 c s hr
    have n1 := hN.n_oc
    have fr2 : ∀ v, ∀ y ∈ s.outq.called, setPc s.want (2 * s.nOut + 1) v y.2 = s.want y.2 := by
      intro v y hy; have := n1 y hy
      by_cases h : y.2 = 2 * s.nOut + 1
      · omega
      · simp [setPc_apply, h]
    clear n1
    simp only [Machine.Step, machine] at hst
    cases e with
    | qi qe => exact absurd rfl (hqi qe)
    | qo qe => exact absurd rfl (hqo qe)
    | _ =>
      pr_tail hst
      all_goals first
        | exact L1F c s _ rfl (fun _ _ => rfl) (.inl rfl) rfl rfl rfl (.inl rfl) ih
        | (refine L2F c s _ rfl (fun _ _ => rfl) ?_ hfin ?_ <;> (simp_all; done))
        | (refine L2F c s _ rfl (fr2 _) ?_ hfin ?_ <;> (simp_all; done))
        | (refine L2F c s _ rfl (fun _ _ => rfl) ?_ hfin ?_
           · simp_all
           · intro k _; right
             rcases ‹_ ∧ _ ∧ _ ∧ (_ ∨ _ ∨ _)› with ⟨-, -, -, h | h | h⟩
             · exact .inr (.inr h)
             · exact .inl h
             · exact .inr (.inl h.2))
        | (by_cases hf : pFin s.ppc
           · refine L1F c s _ rfl (fun _ _ => rfl) (.inr ⟨hf, ?_⟩) rfl rfl rfl (.inl rfl) ih
             simp_all; done
           · refine L2F c s _ rfl (fun _ _ => rfl) hf hfin ?_
             intro k' hk
             exact .inl (outExc_of_pushed s hN g1 _ _ _ (by assumption) (pCont_push _ _ hk)))

/-- the end marker of the parser is preceded by an exception, or `Parser::run()` returned through the
    guard of `pRunEnd` — including `c.parseFault ≠ some s.next` -/
theorem invF (c : Cfg α) : ∀ s, (machine c).Reachable s → InvF c s := by
  apply Machine.invariant
  · constructor <;> simp [machine, init, QueueSM.init, OutEod]
  · intro s e s' hr ih hst
    by_cases h1 : ∃ qe, e = .qi qe
    · obtain ⟨qe, rfl⟩ := h1
      exact stepF_qi c s s' qe hr ih hst
    · by_cases h2 : ∃ qe, e = .qo qe
      · obtain ⟨qe, rfl⟩ := h2
        exact stepF_qo c s s' qe hr ih hst
      · exact stepF_rest c s s' e (fun qe h => h1 ⟨qe, h⟩) (fun qe h => h2 ⟨qe, h⟩) hr ih hst

/-- at the moment read() unpacks the (ready) end marker no parse fault is pending at the end of the input -/
theorem at_eod_parse_fault (c : Cfg α) (wf : c.WF) (s : State α) (h : (machine c).Reachable s)
    (id : Nat) (hc : s.cpc = .readGot id) (hf : s.fut id = some .eod) :
    c.parseFault ≠ some c.file.length := by
  have hB := (invB c s h).b_R (by rw [hc]; trivial)
  have hN := invN c s h
  have hJ := invJ c s h
  have hD := invD c s h
  obtain ⟨hcp, _, hnx, _, _, _, _⟩ := at_eod c wf s h (invO c s h) id hc hf
  have hw : s.want id = .eod := ((hN.n_fut id _ hf).1).symm
  have hu : s.outq.inUse = true := by
    cases hu : s.outq.inUse with
    | true => rfl
    | false =>
      rcases hJ.j_use hu with h1 | h1
      · exact absurd hB.2.1 h1
      · rw [hc] at h1; cases h1
  obtain ⟨l, p, hp, hpid⟩ := hD.d_got id hc
  have hpm : p ∈ s.outq.popped := by rw [hp]; simp
  have hmem : p.2 ∈ s.outq.called := by rw [hcp]; exact List.mem_map.mpr ⟨p, hpm, rfl⟩
  have hE : OutEod s := ⟨p.2, hmem, by rw [hpid]; exact hw⟩
  rcases ((invF c s h).f_clean hE).resolve_left hnx with h3 | h3 | ⟨h3, h4, h5⟩
  · rw [hB.2.2] at h3; cases h3
  · rw [hu] at h3; cases h3
  · have hav : s.avail = c.file.length := by
      rcases in_complete c wf s h h3 with h6 | h6
      · exact absurd hB.2.1 (hJ.j_stop h6)
      · exact h6
    rw [h4, hav] at h5
    exact h5

/-- with a parse fault pending at the end of the input read() never unpacks the end marker -/
theorem no_clean_eod (c : Cfg α) (wf : c.WF) (hpf : c.parseFault = some c.file.length) (s : State α)
    (h : (machine c).Reachable s) : ¬ Complete.gotEod s := by
  suffices hs : ∀ s, (machine c).Reachable s → (Complete.gotEod s → c.parseFault ≠ some c.file.length) from
    fun hg => hs s h hg hpf
  clear h s
  apply Machine.invariant
  · simp [gotEod, machine, init]
  · intro s e s' hr ih hst
    have hE : ∀ id, s.cpc = .readGot id → s.fut id = some .eod → c.parseFault ≠ some c.file.length :=
      fun id hc hf => at_eod_parse_fault c wf s hr id hc hf
    generalize (c.parseFault ≠ some c.file.length) = G at ih hE ⊢
    unfold gotEod at ih ⊢
    pc_cases e with hst
    all_goals first
      | exact ih
      | (intro hp; simp_all; done)

theorem no_clean_eod' (c : Cfg α) (wf : c.WF) (hpf : c.parseFault = some c.file.length) (s : State α)
    (h : (machine c).Reachable s) : s.sawEod = false ∧ s.cpc ≠ .eodSd ∧ s.cpc ≠ .eodSdRun := by
  have := no_clean_eod c wf hpf s h
  unfold gotEod at this
  refine ⟨?_, fun h1 => this (.inl h1), fun h1 => this (.inr (.inl h1))⟩
  cases hs : s.sawEod with
  | false => rfl
  | true => exact absurd (.inr (.inr hs)) this

/-! ### read() returns "end of data" only after it popped the end marker -/

/-- read() is about to return / has returned "end of data" (an invalid buffer) -/
def EofSeen (s : State α) : Prop := s.cpc = .eofJoin ∨ s.cpc = .ret .eof ∨ Res.eof ∈ s.results

omit [DecidableEq α] in
@[simp] theorem apCpc_eofJoin (lv : List (List α)) : (apCpc lv : CPc α) = .eofJoin ↔ False := by
  unfold apCpc; split <;> simp
omit [DecidableEq α] in
@[simp] theorem apCpc_ret_eof (lv : List (List α)) : (apCpc lv : CPc α) = .ret .eof ↔ False := by
  unfold apCpc; split <;> simp
omit [DecidableEq α] in
@[simp] theorem acCpc_eofJoin (k : CK) : (acCpc k : CPc α) = .eofJoin ↔ False := by
  cases k <;> simp [acCpc]
omit [DecidableEq α] in
@[simp] theorem acCpc_ret_eof (k : CK) : (acCpc k : CPc α) = .ret .eof ↔ False := by
  cases k <;> simp [acCpc]

/-- wait_and_pop hands out nothing only if the queue is not in use (QueueSM.pred / take) -/
theorem pop_none (q : QueueSM.State Nat) (h1 : QueueSM.pred q = true) (h2 : none = q.items.head?) :
    q.inUse = false := by
  have : q.items = [] := List.head?_eq_none_iff.mp h2.symm
  simpa [QueueSM.pred, this] using h1

/-- inside read(), before the pop, the osmdata queue is in use (only the consumer shuts it down) -/
theorem inUse_in_read (c : Cfg α) (s : State α) (h : (machine c).Reachable s)
    (hc : s.cpc = .readPop ∨ s.cpc = .readWaitPop) : s.outq.inUse = true := by
  have hB := (invB c s h).b_R (by rcases hc with hc | hc <;> rw [hc] <;> trivial)
  cases hu : s.outq.inUse with
  | true => rfl
  | false =>
    rcases (invJ c s h).j_use hu with h1 | h1
    · exact absurd hB.2.1 h1
    · rcases hc with hc | hc <;> rw [hc] at h1 <;> cases h1

set_option maxHeartbeats 1600000 in
theorem eof_only_after_eod (c : Cfg α) (wf : c.WF) (s : State α) (h : (machine c).Reachable s) :
    EofSeen s → s.sawEod = true ∨ c.nothing = true := by
  revert s
  apply Machine.invariant
  · simp [EofSeen, machine, init]
  · intro s e s' hr ih hst
    have hU := inUse_in_read c s hr
    have hPN := pop_none s.outq
    unfold EofSeen at ih ⊢
    pc_cases e with hst
    all_goals first
      | exact ih
      | (intro hp; simp_all; done)
      | (intro hp; simp_all; exact ih (hp.symm.imp Eq.symm id))

/-- with a parse fault pending at the end of the input (and a non-empty entity mask) read() never returns
    "end of data": not now, and not in any earlier call -/
theorem truncated_never_eof (c : Cfg α) (wf : c.WF) (hn : c.nothing = false)
    (hpf : c.parseFault = some c.file.length) (s : State α) (h : (machine c).Reachable s) :
    s.sawEod = false ∧ Res.eof ∉ s.results ∧ s.cpc ≠ .ret .eof ∧ s.cpc ≠ .eofJoin := by
  have h1 := (no_clean_eod' c wf hpf s h).1
  have h2 : ¬ EofSeen s := fun he => by
    rcases eof_only_after_eod c wf s h he with h3 | h3
    · rw [h1] at h3; cases h3
    · rw [hn] at h3; cases h3
  exact ⟨h1, fun h3 => h2 (.inr (.inr h3)), fun h3 => h2 (.inr (.inl h3)), fun h3 => h2 (.inl h3)⟩

/-! ### the direct-fd machine -/

/-- `truncated_never_eof` for the direct-fd configuration, through the simulation `Direct.sim`
    (`Direct.Sim` has the fields `sawEod`, `results`, `cpc`) -/
theorem direct_truncated_never_eof (c : Cfg α) (hd : Direct.IsDirect c) (wf : (Direct.fed c).WF)
    (hn : c.nothing = false) (hpf : c.parseFault = some c.file.length) (sd : State α)
    (h : (Direct.machineD c).Reachable sd) : sd.sawEod = false ∧ Res.eof ∉ sd.results := by
  obtain ⟨-, s, hr, hs⟩ := Direct.sim c hd sd h
  have := truncated_never_eof (Direct.fed c) wf (by simpa using hn) (by simpa using hpf) s hr
  rw [hs.sawEod, hs.results] at this
  exact ⟨this.1, this.2.1⟩

/-- … and read() is not about to return "end of data" either -/
theorem direct_truncated_never_eof' (c : Cfg α) (hd : Direct.IsDirect c) (wf : (Direct.fed c).WF)
    (hn : c.nothing = false) (hpf : c.parseFault = some c.file.length) (sd : State α)
    (h : (Direct.machineD c).Reachable sd) :
    sd.cpc ≠ .ret .eof ∧ sd.cpc ≠ .eofJoin ∧ sd.cpc ≠ .eodSd ∧ sd.cpc ≠ .eodSdRun := by
  obtain ⟨-, s, hr, hs⟩ := Direct.sim c hd sd h
  have h1 := truncated_never_eof (Direct.fed c) wf (by simpa using hn) (by simpa using hpf) s hr
  have h2 := no_clean_eod' (Direct.fed c) wf (by simpa using hpf) s hr
  rw [hs.cpc] at h1 h2
  exact ⟨h1.2.2.1, h1.2.2.2, h2.2.1, h2.2.2⟩

/-! ### non-vacuity: truncated inputs, evaluated by the kernel -/

/-- one object, one input piece; the parser throws at the END of the input; unbounded queues -/
def truncated : Cfg Nat :=
  { file := [7], sel := fun _ => true, strip := id, chunkEnd := [1], pbf := false, blobEnd := [],
    usePool := false, workers := [], wqMax := 0, inqC := ⟨0, false⟩, outqC := ⟨0, false⟩, single := false,
    nothing := false, readFault := none, closeFault := false, parseFault := some 1, blobFault := none }

theorem truncated_wf : truncated.WF := by
  constructor <;> simp [truncated, tC, tR, tP]

/-- the read thread delivers the piece and the end marker; the parser decodes the object, sees the end of
    its input and throws; the exception goes through the osmdata queue; read() rethrows it -/
def truncatedRun : List (Ev Nat) :=
  [.rTestDone false, .rRead (.chunk 0), .qi (.pushEnter 1 0), .qi (.pushTest 1 true), .qi (.pushLocked 1 1 none), .rSet,
   .rTestDone false, .rRead .eod, .rCloseDec true,
   .qi (.pushEnter 1 2), .qi (.pushTest 1 true), .qi (.pushLocked 1 2 none), .rSet,
   .pHeader, .pInUse true, .qi (.popNow 2 2 (some (1, 0))), .pGet (.chunk 0), .pObj false,
   .pInUse true, .qi (.popNow 2 1 (some (1, 2))), .pGet .eod, .qi (.sdEnter 2), .qi (.sdFlag 2), .qi (.sdLocked 2),
   .pThrow, .pCatch,
   .qo (.pushEnter 2 1), .qo (.pushTest 2 true), .qo (.pushLocked 2 1 none), .pSet,
   .qo (.pushEnter 2 3), .qo (.pushTest 2 true), .qo (.pushLocked 2 2 none), .pSet,
   .qi (.sdEnter 2), .qi (.sdFlag 2), .qi (.sdLocked 2),
   .cRead, .cInUse true, .qo (.popNow 0 2 (some (2, 1))), .cGet (.exc 3),
   .qo (.sdEnter 0), .qo (.sdFlag 0), .qo (.sdLocked 0), .cJoinR, .cRet (.exc 3)]

theorem foldlM_reachable (c : Cfg Nat) (tr : List (Ev Nat)) (s0 s : State Nat) (h0 : (machine c).Reachable s0)
    (h : tr.foldlM (step? c) s0 = some s) : (machine c).Reachable s := by
  induction tr generalizing s0 with
  | nil => simp at h; exact h ▸ h0
  | cons e rest ih =>
    simp only [List.foldlM_cons, Option.bind_eq_bind, Option.bind_eq_some_iff] at h
    obtain ⟨s1, h1, h2⟩ := h
    exact ih s1 (.step h0 h1) h2

/-- the hypotheses of `truncated_never_eof` are satisfiable, and in a concrete run read() returns the
    parser's exception (code 3) to the caller: no end of data, nothing delivered, status = error -/
example : truncated.parseFault = some truncated.file.length ∧ truncated.WF ∧ truncated.nothing = false ∧
    ∃ s, (machine truncated).Reachable s ∧
      (decide (s.results = [.exc 3]) && !s.sawEod && s.faulted && decide (s.delivered = [])
        && decide (s.status = .error) && decide (s.cpc = .idle) && decide (s.ppc = .done)) = true := by
  refine ⟨rfl, truncated_wf, rfl, ?_⟩
  have h : ((truncatedRun.foldlM (step? truncated) (init Nat)).map fun s : State Nat =>
      (decide (s.results = [.exc 3]) && !s.sawEod && s.faulted && decide (s.delivered = [])
        && decide (s.status = .error) && decide (s.cpc = .idle) && decide (s.ppc = .done))) = some true := by
    decide
  simp only [Option.map_eq_some_iff] at h
  obtain ⟨s, hs, hp⟩ := h
  exact ⟨s, foldlM_reachable truncated truncatedRun _ s .init hs, hp⟩

/-- direct-fd: a PBF file with one blob that holds one object, truncated after it -/
def truncatedD : Cfg Nat :=
  { file := [7], sel := fun _ => true, strip := id, chunkEnd := [], pbf := true, blobEnd := [1],
    usePool := false, workers := [], wqMax := 0, inqC := ⟨0, false⟩, outqC := ⟨0, false⟩, single := false,
    nothing := false, readFault := none, closeFault := false, parseFault := some 1, blobFault := none }

theorem truncatedD_wf : (Direct.fed truncatedD).WF := by
  constructor <;> simp [Direct.fed, truncatedD, tC, tR, tP]

/-- the read thread pushes its end marker and returns; the parser decodes the blob, then throws at the
    end of the file; the first read() returns the object, the second one rethrows -/
def truncatedDRun : List (Ev Nat) :=
  [.rTestDone false, .rRead .eod, .rCloseDec true, .qi (.pushEnter 1 0), .qi (.pushTest 1 true),
   .qi (.pushLocked 1 1 none), .rSet,
   .pHeader, .pBlob [[7]], .qo (.pushEnter 2 1), .qo (.pushTest 2 true), .qo (.pushLocked 2 1 none), .pSet,
   .pThrow, .pCatch,
   .qo (.pushEnter 2 3), .qo (.pushTest 2 true), .qo (.pushLocked 2 2 none), .pSet,
   .qo (.pushEnter 2 5), .qo (.pushTest 2 true), .qo (.pushLocked 2 3 none), .pSet,
   .qi (.sdEnter 2), .qi (.sdFlag 2), .qi (.sdLocked 2),
   .cRead, .cInUse true, .qo (.popNow 0 3 (some (2, 1))), .cGet (.buf [[7]]), .cRet (.data [7]),
   .cRead, .cInUse true, .qo (.popNow 0 2 (some (2, 3))), .cGet (.exc 3),
   .qo (.sdEnter 0), .qo (.sdFlag 0), .qo (.sdLocked 0), .cJoinR, .cRet (.exc 3)]

theorem direct_foldlM_reachable (c : Cfg Nat) (tr : List (Ev Nat)) (s0 s : State Nat)
    (h0 : (Direct.machineD c).Reachable s0) (h : tr.foldlM (step? c) s0 = some s) :
    (Direct.machineD c).Reachable s := by
  induction tr generalizing s0 with
  | nil => simp at h; exact h ▸ h0
  | cons e rest ih =>
    simp only [List.foldlM_cons, Option.bind_eq_bind, Option.bind_eq_some_iff] at h
    obtain ⟨s1, h1, h2⟩ := h
    exact ih s1 (.step h0 h1) h2

/-- the hypotheses of `direct_truncated_never_eof` are satisfiable, and in a concrete run of the direct-fd
    machine the second read() returns the parser's exception to the caller -/
example : Direct.IsDirect truncatedD ∧ (Direct.fed truncatedD).WF ∧ truncatedD.nothing = false ∧
    truncatedD.parseFault = some truncatedD.file.length ∧
    ∃ s, (Direct.machineD truncatedD).Reachable s ∧
      (decide (s.results = [.data [7], .exc 3]) && !s.sawEod && s.faulted && decide (s.delivered = [7])
        && decide (s.status = .error) && decide (s.cpc = .idle) && decide (s.ppc = .done)) = true := by
  refine ⟨⟨rfl, rfl, rfl⟩, truncatedD_wf, rfl, rfl, ?_⟩
  have h : ((truncatedDRun.foldlM (step? truncatedD) (Direct.initD truncatedD)).map fun s : State Nat =>
      (decide (s.results = [.data [7], .exc 3]) && !s.sawEod && s.faulted && decide (s.delivered = [7])
        && decide (s.status = .error) && decide (s.cpc = .idle) && decide (s.ppc = .done))) = some true := by
    decide
  simp only [Option.map_eq_some_iff] at h
  obtain ⟨s, hs, hp⟩ := h
  exact ⟨s, direct_foldlM_reachable truncatedD truncatedDRun _ s .init hs, hp⟩

end Trunc
end Osmium.Pipeline
