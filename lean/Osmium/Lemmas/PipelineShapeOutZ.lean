/-
Invariant Z: every fault is on its way to the consumer as an exception value
(`faulted = true → InExc ∨ EvP`).  `fault_step`: the five steps that set `faulted` produce the
witness; all other steps keep `faulted`, and `InExc`/`EvP` are monotone (PipelineShapeOutZ1.lean).
-/
import Osmium.Lemmas.PipelineShapeOutZ1

set_option linter.unusedSimpArgs false
set_option linter.unusedVariables false

namespace Osmium.Pipeline
open Osmium.Mon
variable {α : Type} [DecidableEq α]
namespace Complete

set_option maxHeartbeats 1600000 in
theorem fault_step (c : Cfg α) (s : State α) (e : Ev α) (s' : State α)
    (hst : (machine c).Step s e s') : s'.faulted = true → s.faulted = true ∨ InExc s' ∨ EvP s' := by
  pc_cases e with hst
  all_goals try exact fun h => Or.inl h
  all_goals try exact fun _ => Or.inr (Or.inl (Or.inl ⟨_, rfl, trivial⟩))
  all_goals try exact fun _ => Or.inr (Or.inr (Or.inl ⟨_, rfl⟩))
  · exact fun _ => Or.inr (Or.inr (Or.inr (Or.inr (Or.inl ⟨_, _, rfl, by simp [isExc]⟩))))
  · rename_i h; intro hf; left; simpa [h] using hf

theorem invZ (c : Cfg α) : ∀ s, (machine c).Reachable s → InvZ s := by
  apply Machine.invariant
  · exact ⟨by simp [machine, init]⟩
  · intro s e s' hr ih hst
    refine ⟨fun hf => ?_⟩
    rcases fault_step c s e s' hst hf with h | h
    · rcases ih.z h with h | h
      · exact Or.inl (inExc_mono c s e s' hr hst h)
      · exact Or.inr (evP_mono c s e s' hr hst h)
    · exact h

end Complete
end Osmium.Pipeline
