/-
Shape of what the parser hands to push() of the osmdata queue: `Complete.invO` (the end marker is the
LAST future handed to push(); it is preceded by an exception or `Parser::run()` returned normally).
-/
import Osmium.Lemmas.PipelineShapeOutO3

namespace Osmium.Pipeline
open Osmium.Mon
variable {α : Type} [DecidableEq α]
namespace Complete

theorem invO (c : Cfg α) : ∀ s, (machine c).Reachable s → InvO c s := fun s h =>
  have h1 := invO1 c s h
  have h2 := invO2 c s h
  { o_last := h2.o_last, o_fin := h2.o_fin, o_clean := h2.o_clean, o_push := h2.o_push,
    o_next := h1.o_next, o_futv := h1.o_futv }

end Complete
end Osmium.Pipeline
