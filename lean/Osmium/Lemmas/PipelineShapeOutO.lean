import Osmium.Lemmas.PipelineCompleteA
import Osmium.Lemmas.PipelineCompleteN

set_option linter.unusedSimpArgs false
set_option linter.unusedVariables false

namespace Osmium.Pipeline
open Osmium.Mon
variable {α : Type} [DecidableEq α]
namespace Complete

theorem invO (c : Cfg α) : ∀ s, (machine c).Reachable s → InvO c s := by
  sorry

end Complete
end Osmium.Pipeline
