/-
C04: laws of the field setters of the object builders (`object().set_xxx(v)`): exactly the bytes of
the field change, in every grow mode and at every capacity (no memory is reserved).
-/
import Osmium.Lemmas.BufBytes

namespace Osmium.Buf

open Osmium.Layout

/-- a single `upd` program on a live, valid state -/
theorem step_upd (s : St) (op : Op) (g : Pend → Pend) (hd : s.dead = none) (hv : s.b0.valid = true)
    (hb : s.b0.committed ≤ s.b0.written)
    (hp : plan (frameSig s.stack) s.b0.pend.length s.b1.comm s.b1.valid s.b0.comm op = .micros [.upd g] .nothing) :
    (step s op).2.1 = .ok ∧ (step s op).1.b0.pend = g s.b0.pend ∧ (step s op).1.b0.done = s.b0.done ∧
    (step s op).1.stack = s.stack ∧ (step s op).1.dead = none ∧ (step s op).1.b1 = s.b1 := by
  simp only [step, hd, hv, Bool.not_true, Bool.false_eq_true, ↓reduceIte, hp, runMicros, execMicros, execList, execMicro,
    execBase, applyAfter]
  exact ⟨trivial, onPend_pend _ _ hb, onPend_done _ _ hb, trivial, trivial, trivial⟩

/-- `set_id`, `set_uid`, `set_timestamp`, `set_changeset`, `set_location`, …: the `w` bytes at the
    field's offset inside the object receive the two's-complement encoding of `v`; every other byte of
    the buffer, the committed data and the builder stack are untouched; no exception in any mode -/
theorem setField_law (s : St) (f : Frame) (rest : List Frame) (fo w : Nat) (v : Int) (hd : s.dead = none)
    (hv : s.b0.valid = true) (hb : s.b0.committed ≤ s.b0.written) (hst : s.stack = f :: rest) (hk : f.kind.isObj = true) :
    let s' := (step s (.setField fo w v)).1
    (step s (.setField fo w v)).2.1 = .ok ∧ s'.b0.pend = writeAt s.b0.pend (f.off + fo) (leBytesInt v w) ∧
    s'.b0.done = s.b0.done ∧ s'.stack = s.stack ∧ s'.dead = none ∧ s'.b1 = s.b1 := by
  intro s'
  exact step_upd s (.setField fo w v) (fun p => writeAt p (f.off + fo) (leBytesInt v w)) hd hv hb
    (by simp [plan, hst, frameSig, topIs, hk])

/-- the field reads back as written (the value modulo the field width), and reads that do not overlap
    the field are unchanged -/
theorem field_read_back (p : Pend) (o w : Nat) (v : Int) (h : o + w ≤ p.length) :
    leAt (writeAt p o (leBytesInt v w)) o w = (v % (256 ^ w : Nat)).toNat % 256 ^ w := by
  have := leAt_writeAt_same p o (leBytesInt v w) (by rw [leBytesInt_len]; exact h)
  rw [leBytesInt_len] at this
  rw [this]
  unfold leBytesInt
  exact leAt_leBytes0 _ _

theorem field_read_other (p : Pend) (o w : Nat) (v : Int) (o' n : Nat) (h : o' + n ≤ o ∨ o + w ≤ o') :
    leAt (writeAt p o (leBytesInt v w)) o' n = leAt p o' n :=
  leAt_writeAt_out p o _ o' n (by rw [leBytesInt_len]; exact h)

/-- `set_version` / `set_deleted` share one 32-bit word (version : 31, deleted : 1): each keeps the other -/
theorem setVersion_law (s : St) (f : Frame) (rest : List Frame) (ver : Nat) (hd : s.dead = none)
    (hv : s.b0.valid = true) (hb : s.b0.committed ≤ s.b0.written) (hst : s.stack = f :: rest)
    (hk : (f.kind.isObj && f.kind != .changeset) = true) :
    let s' := (step s (.setVersion ver)).1
    (step s (.setVersion ver)).2.1 = .ok ∧
    s'.b0.pend = setLE s.b0.pend (f.off + 16) (u32At s.b0.pend (f.off + 16) % 2 + 2 * ver) 4 ∧
    s'.b0.done = s.b0.done ∧ s'.stack = s.stack ∧ s'.dead = none ∧ s'.b1 = s.b1 := by
  intro s'
  exact step_upd s (.setVersion ver) (fun p => setLE p (f.off + 16) (u32At p (f.off + 16) % 2 + 2 * ver) 4) hd hv hb
    (by simp [plan, hst, frameSig, topIs, hk])

theorem version_word (p : Pend) (o ver : Nat) (h : o + 4 ≤ p.length) (hver : ver < 2 ^ 31) :
    u32At (setLE p o (u32At p o % 2 + 2 * ver) 4) o / 2 = ver ∧
    u32At (setLE p o (u32At p o % 2 + 2 * ver) 4) o % 2 = u32At p o % 2 := by
  rw [u32At_setLE_same p o _ h]
  have : u32At p o % 2 + 2 * ver < 4294967296 := by omega
  rw [Nat.mod_eq_of_lt this]
  omega

theorem setDeleted_law (s : St) (f : Frame) (rest : List Frame) (d : Bool) (hd : s.dead = none)
    (hv : s.b0.valid = true) (hb : s.b0.committed ≤ s.b0.written) (hst : s.stack = f :: rest)
    (hk : (f.kind.isObj && f.kind != .changeset) = true) :
    let s' := (step s (.setDeleted d)).1
    (step s (.setDeleted d)).2.1 = .ok ∧
    s'.b0.pend = setLE s.b0.pend (f.off + 16) (u32At s.b0.pend (f.off + 16) / 2 * 2 + (if d then 1 else 0)) 4 ∧
    s'.b0.done = s.b0.done ∧ s'.stack = s.stack ∧ s'.dead = none ∧ s'.b1 = s.b1 := by
  intro s'
  exact step_upd s (.setDeleted d)
    (fun p => setLE p (f.off + 16) (u32At p (f.off + 16) / 2 * 2 + (if d then 1 else 0)) 4) hd hv hb
    (by simp [plan, hst, frameSig, topIs, hk])

theorem deleted_word (p : Pend) (o : Nat) (d : Bool) (h : o + 4 ≤ p.length) (hlt : u32At p o < 4294967296) :
    u32At (setLE p o (u32At p o / 2 * 2 + (if d then 1 else 0)) 4) o / 2 = u32At p o / 2 ∧
    u32At (setLE p o (u32At p o / 2 * 2 + (if d then 1 else 0)) 4) o % 2 = (if d then 1 else 0) := by
  rw [u32At_setLE_same p o _ h]
  have : u32At p o / 2 * 2 + (if d then 1 else 0) < 4294967296 := by split <;> omega
  rw [Nat.mod_eq_of_lt this]
  split <;> omega

end Osmium.Buf
