/-
Lemmas about the semantics of the translated C++ integer fragment (Osmium/Model/CxxSem.lean), used by
the `src_tie_*` theorems in Osmium/Props/*.lean (generated definition = hand-written model).
Core-only.
-/
import Osmium.Model.CxxSem

set_option Elab.async false

namespace Osmium.CxxSem

@[simp] theorem lt_iff {a b : Int} : lt a b = true ↔ a < b := by simp [lt]
@[simp] theorem le_iff {a b : Int} : le a b = true ↔ a ≤ b := by simp [le]
@[simp] theorem gt_iff {a b : Int} : gt a b = true ↔ b < a := by simp [gt]
@[simp] theorem ge_iff {a b : Int} : ge a b = true ↔ b ≤ a := by simp [ge]
@[simp] theorem eq_iff {a b : Int} : eq a b = true ↔ a = b := by simp [eq]
@[simp] theorem ne_iff {a b : Int} : ne a b = true ↔ a ≠ b := by simp [ne]
@[simp] theorem lt_false {a b : Int} : lt a b = false ↔ b ≤ a := by simp [lt]
@[simp] theorem le_false {a b : Int} : le a b = false ↔ b < a := by simp [le]
@[simp] theorem gt_false {a b : Int} : gt a b = false ↔ a ≤ b := by simp [gt]
@[simp] theorem ge_false {a b : Int} : ge a b = false ↔ a < b := by simp [ge]
@[simp] theorem eq_false' {a b : Int} : eq a b = false ↔ a ≠ b := by simp [eq]
@[simp] theorem ne_false {a b : Int} : ne a b = false ↔ a = b := by simp [ne]

theorem inU_iff {w : Nat} {x : Int} : inU w x = true ↔ 0 ≤ x ∧ x < (2 : Int) ^ w := by
  simp [inU]

theorem inS_iff {w : Nat} {x : Int} : inS w x = true ↔ -((2 : Int) ^ (w - 1)) ≤ x ∧ x < (2 : Int) ^ (w - 1) := by
  simp [inS]

theorem inS64_iff {x : Int} : inS 64 x = true ↔ -9223372036854775808 ≤ x ∧ x < 9223372036854775808 := by
  simp [inS]

theorem inS32_iff {x : Int} : inS 32 x = true ↔ -2147483648 ≤ x ∧ x < 2147483648 := by
  simp [inS]

/-- division by a positive divisor is always defined -/
theorem sdivOk_pos {w : Nat} {a b : Int} (h : 0 < b) : sdivOk w a b = true := by
  have h1 : b ≠ 0 := by omega
  have h2 : ¬ b = -1 := by omega
  simp [sdivOk, h1, h2]

theorem exactD_iff {x : Int} : exactD x = true ↔ -9007199254740992 ≤ x ∧ x ≤ 9007199254740992 := by
  simp [exactD]

theorem shiftOk_iff {w : Nat} {n : Int} : shiftOk w n = true ↔ 0 ≤ n ∧ n < (w : Int) := by
  simp [shiftOk]

/-- conversion to an unsigned type is the identity on its values -/
theorem wrapU_eq {w : Nat} {x : Int} (h0 : 0 ≤ x) (h1 : x < (2 : Int) ^ w) : wrapU w x = x := by
  unfold wrapU; exact Int.emod_eq_of_lt h0 h1

theorem wrapU_nat {w n : Nat} (h : n < 2 ^ w) : wrapU w (n : Int) = (n : Int) := by
  apply wrapU_eq (Int.natCast_nonneg n)
  exact_mod_cast h

theorem band_nat (a b : Nat) : band (a : Int) (b : Int) = ((a &&& b : Nat) : Int) := by
  simp [band]

/-- `x & y` where both operands are shown (by `omega`, whatever their syntactic shape) to be naturals -/
theorem band_congr_nat {x y : Int} (a b : Nat) (hx : x = (a : Int)) (hy : y = (b : Int)) :
    band x y = ((a &&& b : Nat) : Int) := by
  subst hx hy; exact band_nat a b

theorem bor_nat (a b : Nat) : bor (a : Int) (b : Int) = ((a ||| b : Nat) : Int) := by
  simp [bor]

theorem bxor_nat (a b : Nat) : bxor (a : Int) (b : Int) = ((a ^^^ b : Nat) : Int) := by
  simp [bxor]

theorem shr_nat (a n : Nat) : shr (a : Int) (n : Int) = ((a >>> n : Nat) : Int) := by
  simp [shr]

theorem shl_nat (w a n : Nat) : shl w (a : Int) (n : Int) = (((a <<< n) % 2 ^ w : Nat) : Int) := by
  simp [shl]

/-- C++ `%` / `/` on non-negative operands are the natural-number operations -/
theorem tmod_nat (a b : Nat) : Int.tmod (a : Int) (b : Int) = ((a % b : Nat) : Int) := by
  rw [Int.tmod_eq_emod_of_nonneg (Int.natCast_nonneg a)]; simp

theorem tdiv_nat (a b : Nat) : Int.tdiv (a : Int) (b : Int) = ((a / b : Nat) : Int) := by
  rw [Int.tdiv_eq_ediv_of_nonneg (Int.natCast_nonneg a)]; simp

/-- `m & (2^w - 2^k)` clears the low `k` bits of a `w`-bit value -/
theorem and_himask (m k w : Nat) (h : m < 2 ^ w) (hk : k ≤ w) :
    m &&& ((2 ^ (w - k) - 1) * 2 ^ k) = m / 2 ^ k * 2 ^ k := by
  apply Nat.eq_of_testBit_eq
  intro i
  rw [Nat.testBit_and, Nat.mul_comm _ (2 ^ k), Nat.mul_comm _ (2 ^ k), Nat.testBit_two_pow_mul,
      Nat.testBit_two_pow_mul, Nat.testBit_two_pow_sub_one, Nat.testBit_div_two_pow]
  by_cases hi : k ≤ i
  · have e : i - k + k = i := by omega
    simp only [hi, decide_true, Bool.true_and, e]
    by_cases h2 : i - k < w - k
    · simp [h2]
    · have : m < 2 ^ i := Nat.lt_of_lt_of_le h (Nat.pow_le_pow_right (by decide) (by omega))
      simp [h2, Nat.testBit_lt_two_pow this]
  · simp [hi]

/-- the alignment mask of `padded_length`: `x & ~7` on a 64-bit value -/
theorem and_not7 (m : Nat) (h : m < 2 ^ 64) : m &&& 18446744073709551608 = m / 8 * 8 := by
  have := and_himask m 3 64 h (by decide)
  simpa using this

@[simp] theorem minmax_first (a b : Int) : (minmax a b).first = min a b := by
  unfold minmax; split <;> simp <;> omega

@[simp] theorem minmax_second (a b : Int) : (minmax a b).second = max a b := by
  unfold minmax; split <;> simp <;> omega

/-! ### `Flow` (join-style translation of functions with character cursors) -/

theorem Flow.bind_next {σ α β ρ : Type} (a : α) (k : α → Flow σ β ρ) : (Flow.next a : Flow σ α ρ).bind k = k a := rfl
theorem Flow.bind_exit {σ α β ρ : Type} (o : Outcome σ ρ) (k : α → Flow σ β ρ) : (Flow.exit o : Flow σ α ρ).bind k = .exit o := rfl
theorem Flow.seq_next {σ α ρ : Type} (a : α) (k : α → Outcome σ ρ) : (Flow.next a : Flow σ α ρ).seq k = k a := rfl
theorem Flow.seq_exit {σ α ρ : Type} (o : Outcome σ ρ) (k : α → Outcome σ ρ) : (Flow.exit o : Flow σ α ρ).seq k = o := rfl
theorem Flow.andThen_next {σ α ρ : Type} (a : α) (k : α → Bool) : (Flow.next a : Flow σ α ρ).andThen k = k a := rfl
theorem Flow.andThen_exit {σ α ρ : Type} (o : Outcome σ ρ) (k : α → Bool) : (Flow.exit o : Flow σ α ρ).andThen k = true := rfl

/-! ### output strings and calls "via" (phase 4) -/

theorem Outcome.bindVia_normal {τ σ α β : Type} (t : τ) (r : α) (put : τ → σ) (k : τ → α → Outcome σ β) :
    (Outcome.normal t r : Outcome τ α).bindVia put k = k t r := rfl
theorem Outcome.bindVia_thrown {τ σ α β : Type} (e : String) (t : τ) (put : τ → σ) (k : τ → α → Outcome σ β) :
    (Outcome.thrown e t : Outcome τ α).bindVia put k = .thrown e (put t) := rfl
theorem Flow.callVia_normal {τ σ α β ρ : Type} (t : τ) (r : α) (put : τ → σ) (k : τ → α → Flow σ β ρ) :
    Flow.callVia (Outcome.normal t r : Outcome τ α) put k = k t r := rfl
theorem Flow.callVia_thrown {τ σ α β ρ : Type} (e : String) (t : τ) (put : τ → σ) (k : τ → α → Flow σ β ρ) :
    Flow.callVia (Outcome.thrown e t : Outcome τ α) put k = .exit (.thrown e (put t)) := rfl
theorem Outcome.okAnd_normal {τ σ α : Type} (t : τ) (r : α) (put : τ → σ) (k : σ → α → Bool) :
    (Outcome.normal t r : Outcome τ α).okAnd put k = k (put t) r := rfl
theorem Outcome.okAnd_thrown {τ σ α : Type} (e : String) (t : τ) (put : τ → σ) (k : σ → α → Bool) :
    (Outcome.thrown e t : Outcome τ α).okAnd put k = true := rfl

theorem ofNat_mod256 (n : Nat) : UInt8.ofNat (n % 256) = UInt8.ofNat n := by
  apply UInt8.toNat_inj.mp
  simp [UInt8.toNat_ofNat']

/-- the byte a non-negative value is stored as -/
theorem byteOf_nat (n : Nat) : byteOf (n : Int) = UInt8.ofNat n := by
  unfold byteOf
  have : ((n : Int) % 256).toNat = n % 256 := by omega
  rw [this, ofNat_mod256]

/-- `static_cast<char>(x)` stores the low byte of `x` -/
theorem byteOf_wrapS8 (x : Int) : byteOf (wrapS 8 x) = byteOf x := by
  unfold byteOf wrapS
  have : ((x + (2:Int) ^ (8 - 1)) % (2:Int) ^ 8 - (2:Int) ^ (8 - 1)) % 256 = x % 256 := by
    have e1 : (2:Int) ^ (8 - 1) = 128 := by decide
    have e2 : (2:Int) ^ 8 = 256 := by decide
    rw [e1, e2]; omega
  rw [this]

/-- appending `static_cast<char>(x)` where `x` is (shown to be) the natural number `n` -/
theorem push_wrapS8_nat (out : Buf) (x : Int) (n : Nat) (h : x = (n : Int)) : push out (wrapS 8 x) = out ++ [UInt8.ofNat n] := by
  subst h; unfold push; rw [byteOf_wrapS8, byteOf_nat]

theorem push_nat (out : Buf) (x : Int) (n : Nat) (h : x = (n : Int)) : push out x = out ++ [UInt8.ofNat n] := by
  subst h; unfold push; rw [byteOf_nat]

/-- closes `Outcome.normal s r = Outcome.normal s' r'` (after the translated definition was unfolded) when the
    components are equal up to linear arithmetic — so that a tie does not depend on the order of operands in the
    source expression -/
macro "outcome_eq" : tactic =>
  `(tactic| first | rfl | (congr 1 <;> first | rfl | omega | (congr 1 <;> first | rfl | omega)))

end Osmium.CxxSem
