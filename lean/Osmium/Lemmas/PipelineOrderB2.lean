/-
Queue-of-futures order (C05), part B2: step case of invariant A for the events of the threads.
-/
import Osmium.Lemmas.PipelineOrderA
import Osmium.Lemmas.PipelineOrderA2

namespace Osmium.Pipeline.Order

open Osmium.Mon Osmium.Pipeline

variable {α : Type} [DecidableEq α]

set_option linter.unusedSimpArgs false

set_option maxHeartbeats 1600000 in
/-- step case of `invA`: events of the read / parser / pool / consumer threads (constructor index ≥ 2) -/
theorem invA_step_hi (c : Cfg α) (s : State α) (e : Ev α) (s' : State α) (hr : (machine c).Reachable s)
    (ih : InvA s) (hst : (machine c).Step s e s') : ¬ e.ctorIdx < 2 → InvA s' := by
  have hic := q_items_called _ _ (Q.reachable_outq c s hr)
  obtain ⟨h1, h2, h3, h4, h5, h6, h7, h8, h9⟩ := ih
  po_cases e with hst q hq
  all_goals first | exact fun he => absurd (of_decide_eq_true rfl) he | (intro he; clear he)
  all_goals (try (have hqc := q_called hq; have hqh := q_pop_mem hq; simp only [evCalled, evPopped] at hqc hqh))
  all_goals constructor
  all_goals first
    | assumption
    | (simp only [Fresh, setPc_apply, pCont_pushFut, pCont_pushing, pCont_pushed, rCont_pushing, rCont_pushed,
         afterPop_fut, afterPop_want, afterPop_nOut, afterPop_rpc, afterPop_ppc, afterPop_work, afterPop_wpc, afterPop_cpc,
         Q.afterPop_outq, afterClose_fut, afterClose_want, afterClose_nOut, afterClose_rpc, afterClose_ppc, afterClose_work,
         afterClose_wpc, afterClose_cpc, Q.afterClose_outq] at *; grind)
    | (split <;> simp only [Fresh, setPc_apply] at * <;> grind)
    | (intro id hid
       simp only [CPc.readGot.injEq] at hid
       subst hid
       simp only [Option.toList_some, List.map_cons, List.map_nil, List.mem_singleton, forall_eq] at hqh
       exact (h1 _ (hic _ hqh)).2)

end Osmium.Pipeline.Order
