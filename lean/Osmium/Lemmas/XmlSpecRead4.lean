/-
Reader half of `xml_decode_spec` (C02), part 4: nodes, ways and relations of the specification
renderer at event level (any attribute order, tags before or after the nd / member children,
any white space).
-/
import Osmium.Lemmas.XmlSpecRead3

namespace Osmium.XmlFmt.XmlSpec
open Osmium.Osm Osmium.TextFmt Osmium.Conv Osmium.XmlFmt

/-- contexts of the four object kinds -/
def ObjCtx (k : Ctx) : Prop := k = .node ∨ k = .way ∨ k = .relation ∨ k = .changeset

theorem end_obj (st : RSt) (k p : Ctx) (hk : ObjCtx k) (rest : List Ctx)
    (hs : st.stack = k :: p :: rest) (c : Cur) (hc : st.cur = some c) :
    endElement {} st = .ok { st with stack := p :: rest, cur := none, out := assemble c :: st.out } := by
  rcases st with ⟨stack, header, version, headerOut, cur, out, ct⟩
  simp only at hs hc
  subst hs hc
  rcases hk with rfl | rfl | rfl | rfl <;> simp [endElement, commit]

/-- one object element: start tag, children, end tag -/
theorem obj_frame (ch : Choices) (wsE : Nat → List Ev) (hws : WsOnly wsE) (lvl : Nat) (name : String) (k : Ctx)
    (hk : ObjCtx k) (as : List Attr) (children : List (List Ev)) (tl : List Ev) (st : RSt) (p : Ctx) (rest : List Ctx)
    (hnt : NoText st) (hs : st.stack = p :: rest) (hc : st.cur = none) (ob0 : Object) (cF : Cur)
    (hstart : startElement {} st name (OplFmt.OplSpec.pick ch.attrOrder as) =
      .ok { markDone (push st k) with cur := some { obj := ob0 } })
    (hchildren : ∀ (st1 : RSt) (tl' : List Ev), st1.stack = k :: p :: rest → st1.cur = some { obj := ob0 } →
      (st1.commentText = st.commentText ∧ st1.commentPending = st.commentPending) →
      ∃ st2, runEvents {} (children.flatten ++ tl') st1 = runEvents {} tl' st2 ∧ st2 = { st1 with cur := some cF }) :
    runEvents {} (elEvs ch wsE lvl name as children ++ tl) st =
      runEvents {} tl { markDone st with out := assemble cF :: st.out } := by
  let st1 : RSt := { markDone (push st k) with cur := some { obj := ob0 } }
  have hs1 : st1.stack = k :: p :: rest := by
    simp only [st1]
    cases hh : st.headerOut <;> simp [markDone, push, hh, hs]
  have hct1 : st1.commentText = st.commentText ∧ st1.commentPending = st.commentPending := by
    simp only [st1]
    cases hh : st.headerOut <;> simp [markDone, push, hh]
  rw [run_open ch wsE hws lvl name as children tl st st1 hnt hstart]
  obtain ⟨st2, hrun, rfl⟩ := hchildren st1 _ hs1 rfl hct1
  rw [hrun]
  have hnt2 : NoText ({ st1 with cur := some cF } : RSt) := by
    unfold NoText
    show st1.stack.head? ≠ _
    rw [hs1]
    rcases hk with rfl | rfl | rfl | rfl <;> simp
  rw [run_chars _ _ _ (allChars_if hws _ _) hnt2, run_stop,
    end_obj ({ st1 with cur := some cF } : RSt) k p hk rest hs1 cF rfl]
  simp only [bindE_ok]
  exact congrArg (runEvents {} tl) (object_done st ({ st1 with cur := some cF } : RSt) k _ rest hs hc cF (assemble cF) (by rfl))

/-! ### builders: nd / member children after the tags -/

/-- the tags as collected by the tag builder when they come first -/
theorem tags_first_collected (obj : Object) (ts : List Tag) :
    ∃ pre lo, ts.foldl addTag { obj := obj } = { obj := obj, subs := pre, lastOpen := lo } ∧
      (pre = [] ∨ ∃ x, pre = [.tags x]) ∧ firstTags pre = ts := by
  cases ts with
  | nil => exact ⟨[], false, rfl, Or.inl rfl, rfl⟩
  | cons t ts =>
    have h1 : addTag { obj := obj } t = { obj := obj, subs := [] ++ [.tags [t]], lastOpen := true } := by simp [addTag]
    refine ⟨[.tags (t :: ts)], true, ?_, Or.inr ⟨_, rfl⟩, rfl⟩
    rw [List.foldl_cons, h1, foldl_addTag_open ts _ [] [t] rfl rfl]
    simp

theorem nodes_after_tags (obj : Object) (pre : List Sub) (lo : Bool) (ns : List NodeRef)
    (hpre : pre = [] ∨ ∃ ts, pre = [.tags ts]) :
    firstNodes (ns.foldl addNode { obj := obj, subs := pre, lastOpen := lo }).subs = ns ∧
    firstTags (ns.foldl addNode { obj := obj, subs := pre, lastOpen := lo }).subs = firstTags pre ∧
    (ns.foldl addNode { obj := obj, subs := pre, lastOpen := lo }).obj = obj := by
  cases ns with
  | nil => rcases hpre with rfl | ⟨ts, rfl⟩ <;> simp [firstTags, firstNodes]
  | cons t ts =>
    have h1 : addNode { obj := obj, subs := pre, lastOpen := lo } t = { obj := obj, subs := pre ++ [.nodes [t]], lastOpen := true } := by
      rcases hpre with rfl | ⟨ns, rfl⟩ <;> cases lo <;> simp [addNode]
    rw [List.foldl_cons, h1, foldl_addNode_open ts _ pre [t] rfl rfl]
    rcases hpre with rfl | ⟨ns, rfl⟩ <;> simp [firstTags, firstNodes]

theorem members_after_tags (obj : Object) (pre : List Sub) (lo : Bool) (ms : List Member)
    (hpre : pre = [] ∨ ∃ ts, pre = [.tags ts]) :
    firstMembers (ms.foldl addMember { obj := obj, subs := pre, lastOpen := lo }).subs = ms ∧
    firstTags (ms.foldl addMember { obj := obj, subs := pre, lastOpen := lo }).subs = firstTags pre ∧
    (ms.foldl addMember { obj := obj, subs := pre, lastOpen := lo }).obj = obj := by
  cases ms with
  | nil => rcases hpre with rfl | ⟨ts, rfl⟩ <;> simp [firstTags, firstMembers]
  | cons t ts =>
    have h1 : addMember { obj := obj, subs := pre, lastOpen := lo } t = { obj := obj, subs := pre ++ [.members [t]], lastOpen := true } := by
      rcases hpre with rfl | ⟨ns, rfl⟩ <;> cases lo <;> simp [addMember]
    rw [List.foldl_cons, h1, foldl_addMember_open ts _ pre [t] rfl rfl]
    rcases hpre with rfl | ⟨ns, rfl⟩ <;> simp [firstTags, firstMembers]

/-! ### the start tags -/

/-- the user name the renderer emits is short enough for `set_user` -/
theorem specUser_len (ch : Choices) (m : Meta) (hm : XMetaOK m) :
    (if (!(ch.omitDefaults && m.user.isEmpty)) then m.user else []).length ≤ 1024 := by
  obtain ⟨_, _, _, hl⟩ := xstrOK_spec hm.user
  split
  · exact hl
  · simp

theorem spec_start_way (ch : Choices) (m : Meta) (hm : XMetaOK m) (st : RSt) (rest : List Ctx)
    (hs : st.stack = parentCtx (specOpts ch) m :: rest) :
    startElement {} st "way" (OplFmt.OplSpec.pick ch.attrOrder (metaAttrs ch m)) =
      .ok { markDone (push st .way) with cur := some { obj := .way { projectMeta (specOpts ch) m with tags := [] } [] } } := by
  rw [(start_object st _ (parentCtx_data _ m) rest hs _).2.1]
  have hinit := spec_init ch (fun x => Object.way x []) (isMk_way []) m hm false ⟨0, 0⟩ ⟨by decide, by decide, by decide, by decide⟩
  simp only [Bool.false_eq_true, if_false, List.append_nil] at hinit
  rw [initObject_of _ _ _ _ _ _ hinit (specUser_len ch m hm)]
  simp only [mapMeta, bindE_ok, spec_meta_result ch m hm]

theorem spec_start_relation (ch : Choices) (m : Meta) (hm : XMetaOK m) (st : RSt) (rest : List Ctx)
    (hs : st.stack = parentCtx (specOpts ch) m :: rest) :
    startElement {} st "relation" (OplFmt.OplSpec.pick ch.attrOrder (metaAttrs ch m)) =
      .ok { markDone (push st .relation) with cur := some { obj := .relation { projectMeta (specOpts ch) m with tags := [] } [] } } := by
  rw [(start_object st _ (parentCtx_data _ m) rest hs _).2.2]
  have hinit := spec_init ch (fun x => Object.relation x []) (isMk_relation []) m hm false ⟨0, 0⟩ ⟨by decide, by decide, by decide, by decide⟩
  simp only [Bool.false_eq_true, if_false, List.append_nil] at hinit
  rw [initObject_of _ _ _ _ _ _ hinit (specUser_len ch m hm)]
  simp only [mapMeta, bindE_ok, spec_meta_result ch m hm]

theorem spec_start_node (ch : Choices) (m : Meta) (hm : XMetaOK m) (l : Location) (hl : XLocOK l) (st : RSt) (rest : List Ctx)
    (hs : st.stack = parentCtx (specOpts ch) m :: rest) :
    startElement {} st "node" (OplFmt.OplSpec.pick ch.attrOrder
        (metaAttrs ch m ++ (if bothDefined l then latLon "lat" "lon" l else []))) =
      .ok { markDone (push st .node) with cur := some { obj := .node { projectMeta (specOpts ch) m with tags := [] } (projectLoc l) } } := by
  rw [(start_object st _ (parentCtx_data _ m) rest hs _).1]
  have hinit := spec_init ch (fun x => Object.node x Location.undefined) (isMk_node _) m hm (bothDefined l) l hl
  rw [initObject_of _ _ _ _ _ _ hinit (specUser_len ch m hm)]
  have hbd : (if bothDefined (if bothDefined l then l else Location.undefined) then (if bothDefined l then l else Location.undefined)
      else Location.undefined) = projectLoc l := by
    unfold projectLoc
    cases hb : bothDefined l <;> simp [hb]
  simp only [mapMeta, bindE_ok, spec_meta_result ch m hm, hbd]

/-! ### whole objects -/

theorem node_run_ev (ch : Choices) (wsE : Nat → List Ev) (hws : WsOnly wsE) (lvl : Nat) (m : Meta) (l : Location)
    (hm : XMetaOK m) (hl : XLocOK l) (st : RSt) (rest : List Ctx) (hs : st.stack = parentCtx (specOpts ch) m :: rest)
    (hc : st.cur = none) (tl : List Ev) :
    runEvents {} (objectEvs ch wsE lvl (.node m l) ++ tl) st =
      runEvents {} tl { markDone st with out := project (specOpts ch) (.node m l) :: st.out } := by
  have hnt := noText_data st _ (parentCtx_data _ m) rest hs
  simp only [objectEvs]
  rw [obj_frame ch wsE hws lvl "node" .node (Or.inl rfl) _ _ tl st _ rest hnt hs hc
    (.node { projectMeta (specOpts ch) m with tags := [] } (projectLoc l))
    (m.tags.foldl addTag { obj := .node { projectMeta (specOpts ch) m with tags := [] } (projectLoc l) })
    (spec_start_node ch m hm l hl st rest hs)
    (fun st1 tl' hs1 hc1 _ => ⟨_, tags_run_ev ch wsE hws (lvl + 1) m.tags hm.tags tl' .node (Or.inl rfl) _ st1 _ hs1 hc1, rfl⟩)]
  obtain ⟨at1, _, _, at4⟩ := assemble_tags (.node { projectMeta (specOpts ch) m with tags := [] } (projectLoc l)) [] false m.tags (Or.inl rfl)
  rw [assemble_node _ _ _ _ at4 at1, projectMeta_tags]
  rfl

theorem way_run_ev (ch : Choices) (wsE : Nat → List Ev) (hws : WsOnly wsE) (lvl : Nat) (m : Meta) (ns : List NodeRef)
    (hm : XMetaOK m) (hns : ∀ n ∈ ns, XRefOK n) (st : RSt) (rest : List Ctx)
    (hs : st.stack = parentCtx (specOpts ch) m :: rest) (hc : st.cur = none) (tl : List Ev) :
    runEvents {} (objectEvs ch wsE lvl (.way m ns) ++ tl) st =
      runEvents {} tl { markDone st with out := project (specOpts ch) (.way m ns) :: st.out } := by
  have hnt := noText_data st _ (parentCtx_data _ m) rest hs
  have hproj : project (specOpts ch) (.way m ns) = .way (projectMeta (specOpts ch) m)
      (ns.map fun n => ({ n with location := projectLoc n.location } : NodeRef)) := rfl
  simp only [objectEvs]
  cases htf : ch.tagsFirst
  · -- nd children, then tags
    simp only [Bool.false_eq_true, if_false]
    rw [obj_frame ch wsE hws lvl "way" .way (Or.inr (Or.inl rfl)) _ _ tl st _ rest hnt hs hc
      (.way { projectMeta (specOpts ch) m with tags := [] } [])
      (m.tags.foldl addTag ((ns.map fun n => ({ n with location := projectLoc n.location } : NodeRef)).foldl addNode
        { obj := .way { projectMeta (specOpts ch) m with tags := [] } [] }))
      (spec_start_way ch m hm st rest hs)
      (fun st1 tl' hs1 hc1 _ => ⟨_, by
        rw [List.flatten_append, List.append_assoc, nds_run_ev ch wsE hws (lvl + 1) ns hns _ _ st1 _ hs1 hc1]
        exact tags_run_ev ch wsE hws (lvl + 1) m.tags hm.tags tl' .way (Or.inr (Or.inl rfl)) _ _ _ hs1 rfl, rfl⟩)]
    obtain ⟨pre, lo, hcol, hpre, hfn⟩ := nodes_collected (.way { projectMeta (specOpts ch) m with tags := [] } [])
      (ns.map fun n => ({ n with location := projectLoc n.location } : NodeRef))
    obtain ⟨at1, at2, _, at4⟩ := assemble_tags (.way { projectMeta (specOpts ch) m with tags := [] } []) pre lo m.tags hpre
    rw [hcol, assemble_way _ _ _ _ at4 at1 (at2.trans hfn), projectMeta_tags, hproj]
  · -- tags first
    simp only [if_true]
    rw [obj_frame ch wsE hws lvl "way" .way (Or.inr (Or.inl rfl)) _ _ tl st _ rest hnt hs hc
      (.way { projectMeta (specOpts ch) m with tags := [] } [])
      ((ns.map fun n => ({ n with location := projectLoc n.location } : NodeRef)).foldl addNode
        (m.tags.foldl addTag { obj := .way { projectMeta (specOpts ch) m with tags := [] } [] }))
      (spec_start_way ch m hm st rest hs)
      (fun st1 tl' hs1 hc1 _ => ⟨_, by
        rw [List.flatten_append, List.append_assoc,
          tags_run_ev ch wsE hws (lvl + 1) m.tags hm.tags _ .way (Or.inr (Or.inl rfl)) _ st1 _ hs1 hc1]
        exact nds_run_ev ch wsE hws (lvl + 1) ns hns tl' _ _ _ hs1 rfl, rfl⟩)]
    obtain ⟨pre, lo, hcol, hpre, hft⟩ := tags_first_collected (.way { projectMeta (specOpts ch) m with tags := [] } []) m.tags
    have hpre' := hpre
    obtain ⟨a1, a2, a3⟩ := nodes_after_tags (.way { projectMeta (specOpts ch) m with tags := [] } []) pre lo
      (ns.map fun n => ({ n with location := projectLoc n.location } : NodeRef)) hpre'
    rw [hcol, assemble_way _ _ _ _ a3 (a2.trans hft) a1, projectMeta_tags, hproj]

theorem relation_run_ev (ch : Choices) (wsE : Nat → List Ev) (hws : WsOnly wsE) (lvl : Nat) (m : Meta) (ms : List Member)
    (hm : XMetaOK m) (hms : ∀ x ∈ ms, XMemberOK x) (st : RSt) (rest : List Ctx)
    (hs : st.stack = parentCtx (specOpts ch) m :: rest) (hc : st.cur = none) (tl : List Ev) :
    runEvents {} (objectEvs ch wsE lvl (.relation m ms) ++ tl) st =
      runEvents {} tl { markDone st with out := project (specOpts ch) (.relation m ms) :: st.out } := by
  have hnt := noText_data st _ (parentCtx_data _ m) rest hs
  have hproj : project (specOpts ch) (.relation m ms) = .relation (projectMeta (specOpts ch) m) ms := rfl
  simp only [objectEvs]
  cases htf : ch.tagsFirst
  · simp only [Bool.false_eq_true, if_false]
    rw [obj_frame ch wsE hws lvl "relation" .relation (Or.inr (Or.inr (Or.inl rfl))) _ _ tl st _ rest hnt hs hc
      (.relation { projectMeta (specOpts ch) m with tags := [] } [])
      (m.tags.foldl addTag (ms.foldl addMember { obj := .relation { projectMeta (specOpts ch) m with tags := [] } [] }))
      (spec_start_relation ch m hm st rest hs)
      (fun st1 tl' hs1 hc1 _ => ⟨_, by
        rw [List.flatten_append, List.append_assoc, members_run_ev ch wsE hws (lvl + 1) ms hms _ _ st1 _ hs1 hc1]
        exact tags_run_ev ch wsE hws (lvl + 1) m.tags hm.tags tl' .relation (Or.inr (Or.inr (Or.inl rfl))) _ _ _ hs1 rfl, rfl⟩)]
    obtain ⟨pre, lo, hcol, hpre, hfn⟩ := members_collected (.relation { projectMeta (specOpts ch) m with tags := [] } []) ms
    obtain ⟨at1, _, at3, at4⟩ := assemble_tags (.relation { projectMeta (specOpts ch) m with tags := [] } []) pre lo m.tags hpre
    rw [hcol, assemble_relation _ _ _ _ at4 at1 (at3.trans hfn), projectMeta_tags, hproj]
  · simp only [if_true]
    rw [obj_frame ch wsE hws lvl "relation" .relation (Or.inr (Or.inr (Or.inl rfl))) _ _ tl st _ rest hnt hs hc
      (.relation { projectMeta (specOpts ch) m with tags := [] } [])
      (ms.foldl addMember (m.tags.foldl addTag { obj := .relation { projectMeta (specOpts ch) m with tags := [] } [] }))
      (spec_start_relation ch m hm st rest hs)
      (fun st1 tl' hs1 hc1 _ => ⟨_, by
        rw [List.flatten_append, List.append_assoc,
          tags_run_ev ch wsE hws (lvl + 1) m.tags hm.tags _ .relation (Or.inr (Or.inr (Or.inl rfl))) _ st1 _ hs1 hc1]
        exact members_run_ev ch wsE hws (lvl + 1) ms hms tl' _ _ _ hs1 rfl, rfl⟩)]
    obtain ⟨pre, lo, hcol, hpre, hft⟩ := tags_first_collected (.relation { projectMeta (specOpts ch) m with tags := [] } []) m.tags
    have hpre' := hpre
    obtain ⟨a1, a2, a3⟩ := members_after_tags (.relation { projectMeta (specOpts ch) m with tags := [] } []) pre lo ms hpre'
    rw [hcol, assemble_relation _ _ _ _ a3 (a2.trans hft) a1, projectMeta_tags, hproj]

end Osmium.XmlFmt.XmlSpec
