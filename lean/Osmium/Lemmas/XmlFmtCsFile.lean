/-
File level of the XML round trip with changesets and with SEVERAL buffers: every buffer handed to
the Writer is one `XMLOutputBlock` (its change sections are opened and closed inside the block),
the reader sees the concatenation (helper lemmas for Props/C01Text.lean: `xml_file_roundtrip`,
`xml_file_roundtrip_multi_buffer`).
Changesets are in the domain only outside change files (`xml_change_format`): inside `<create>` /
`<modify>` / `<delete>` the reader rejects `<changeset>` and the writer would put a changeset into
whatever section happens to be open.
-/
import Osmium.Lemmas.XmlFmtCs4

namespace Osmium.XmlFmt
open Osmium.Osm Osmium.TextFmt Osmium.Conv Osmium.Utf8

theorem object_rt2 (o : Opts) (hco : o.changeOps = false) (obj : Object) (h : XObjOK2 obj) (st : RSt)
    (hs : st.stack = [Ctx.osm]) (hc : st.cur = none) (hct : st.commentText = []) (hcp : st.commentPending = false) :
    ∃ ps, objectPieces o obj = .ok ps ∧ runPieces ps st = .ok { markDone st with out := project o obj :: st.out } := by
  have hp : ∀ m, parentCtx o m = Ctx.osm := by intro m; simp [parentCtx, hco]
  cases obj with
  | node m l => exact object_rt o _ (show XObjOK (Object.node m l) from h) st [] (by rw [hs]; simp [objMeta, hp]) hc
  | way m ns => exact object_rt o _ (show XObjOK (Object.way m ns) from h) st [] (by rw [hs]; simp [objMeta, hp]) hc
  | relation m ms => exact object_rt o _ (show XObjOK (Object.relation m ms) from h) st [] (by rw [hs]; simp [objMeta, hp]) hc
  | changeset id ca cl nc ncm uid user bl tr tags cs =>
    exact changeset_rt o id ca cl nc ncm uid user bl tr tags cs h st .osm (Or.inl rfl) [] hs hc hct hcp

/-- a block of a plain (non-change) file, changesets allowed -/
theorem block_run2 (o : Opts) (hco : o.changeOps = false) : ∀ (objs : List Object) (_ : ∀ obj ∈ objs, XObjOK2 obj)
    (st : RSt) (_ : st.stack = [Ctx.osm]) (_ : st.cur = none) (_ : st.commentText = []) (_ : st.commentPending = false)
    (tail : List Piece),
    ∃ ps, blockPieces o 0 objs = .ok ps ∧ runPieces (ps ++ tail) st = runPieces tail (blockResult o objs st) := by
  intro objs
  induction objs with
  | nil =>
    intro _ st hs hc hct hcp tail
    refine ⟨[], by simp [blockPieces, hco], ?_⟩
    have : blockResult o [] st = st := by
      rcases st with ⟨stack, header, version, headerOut, cur, out, ct⟩
      simp only at hs; subst hs
      simp [blockResult, rootCtx, hco]
    rw [this]; rfl
  | cons obj objs ih =>
    intro hall st hs hc hct hcp tail
    obtain ⟨ps, hps, hrun⟩ := object_rt2 o hco obj (hall obj (by simp)) st hs hc hct hcp
    have hs2 : ({ markDone st with out := project o obj :: st.out } : RSt).stack = [Ctx.osm] := by
      rw [← hs]; cases hh : st.headerOut <;> simp [markDone, hh]
    have hc2 : ({ markDone st with out := project o obj :: st.out } : RSt).cur = none := by
      rw [← hc]; cases hh : st.headerOut <;> simp [markDone, hh]
    have hct2 : ({ markDone st with out := project o obj :: st.out } : RSt).commentText = [] := by
      rw [← hct]; cases hh : st.headerOut <;> simp [markDone, hh]
    have hcp2 : ({ markDone st with out := project o obj :: st.out } : RSt).commentPending = false := by
      rw [← hcp]; cases hh : st.headerOut <;> simp [markDone, hh]
    obtain ⟨qs, hqs, hrun2⟩ := ih (fun x hx => hall x (by simp [hx])) { markDone st with out := project o obj :: st.out }
      hs2 hc2 hct2 hcp2 tail
    refine ⟨ps ++ qs, by simp [blockPieces, hco, hps, hqs], ?_⟩
    rw [List.append_assoc, runPieces_append, hrun]
    simp only [bindE_ok]
    rw [hrun2, blockResult_step o st st ⟨rfl, rfl, rfl, rfl, rfl, rfl, Or.inl rfl⟩]

/-- the objects a file may carry: everything of the XML domain, changesets only outside change files -/
def FileObjsOK (o : Opts) (objs : List Object) : Prop :=
  (∀ obj ∈ objs, XObjOK2 obj) ∧ (o.changeOps = true → ∀ obj ∈ objs, isChangeset obj = false)

theorem XObjOK_of (obj : Object) (h : XObjOK2 obj) (hn : isChangeset obj = false) : XObjOK obj := by
  cases obj with
  | changeset => simp [isChangeset] at hn
  | node m l => exact h
  | way m ns => exact h
  | relation m ms => exact h

/-- one block of any file -/
theorem block_run3 (o : Opts) (objs : List Object) (hall : FileObjsOK o objs) (st : RSt) (hs : st.stack = [rootCtx o])
    (hc : st.cur = none) (hct : st.commentText = []) (hcp : st.commentPending = false) (tail : List Piece) :
    ∃ ps, blockPieces o 0 objs = .ok ps ∧ runPieces (ps ++ tail) st = runPieces tail (blockResult o objs st) := by
  cases hco : o.changeOps
  · exact block_run2 o hco objs hall.1 st (by rw [hs]; simp [rootCtx, hco]) hc hct hcp tail
  · exact block_run o objs (fun obj ho => XObjOK_of obj (hall.1 obj ho) (hall.2 hco obj ho)) 0 (by omega) (fun _ => rfl) st
      (by rw [hs]; simp [stackOf]) hc tail

/-! ### several blocks -/

/-- the reader state after some blocks carrying `objs` altogether -/
def After (o : Opts) (st : RSt) (objs : List Object) (r : RSt) : Prop :=
  r.stack = [rootCtx o] ∧ r.header = st.header ∧ r.version = st.version ∧ r.cur = st.cur ∧
  r.commentText = st.commentText ∧ r.commentPending = st.commentPending ∧ r.out = (objs.map (project o)).reverse ++ st.out ∧
  (r.headerOut = st.headerOut ∨ (objs ≠ [] ∧ r.headerOut = (markDone st).headerOut))

theorem After.refl (o : Opts) (st : RSt) (hs : st.stack = [rootCtx o]) : After o st [] st :=
  ⟨hs, rfl, rfl, rfl, rfl, rfl, by simp, Or.inl rfl⟩

theorem after_block (o : Opts) (st : RSt) (objs : List Object) (hs : st.stack = [rootCtx o]) :
    After o st objs (blockResult o objs st) := by
  rcases st with ⟨stack, header, version, headerOut, cur, out, ct⟩
  by_cases hn : objs = []
  · subst hn; simp only at hs; subst hs; simp [After, blockResult]
  · cases headerOut <;> simp [After, blockResult, hn, markDone]

theorem After.trans {o : Opts} {st r r' : RSt} {a b : List Object} (h1 : After o st a r) (h2 : After o r b r') :
    After o st (a ++ b) r' := by
  obtain ⟨a1, a2, a3, a4, a5, a5', a6, a7⟩ := h1
  obtain ⟨b1, b2, b3, b4, b5, b5', b6, b7⟩ := h2
  refine ⟨b1, b2.trans a2, b3.trans a3, b4.trans a4, b5.trans a5, b5'.trans a5', ?_, ?_⟩
  · rw [b6, a6]; simp
  · rcases st with ⟨stack, header, version, headerOut, cur, out, ct⟩
    rcases r with ⟨stack1, header1, version1, headerOut1, cur1, out1, ct1⟩
    rcases r' with ⟨stack2, header2, version2, headerOut2, cur2, out2, ct2⟩
    simp only at a2 a7 b7 ⊢
    subst a2
    rcases a7 with a7 | ⟨an, a7⟩ <;> rcases b7 with b7 | ⟨bn, b7⟩
    · left; rw [b7, a7]
    · right; refine ⟨by simp [bn], ?_⟩; rw [b7]; cases headerOut <;> simp_all [markDone]
    · right; refine ⟨by simp [an], ?_⟩; rw [b7, a7]
    · right; refine ⟨by simp [an], ?_⟩; rw [b7]; cases headerOut <;> simp_all [markDone]

theorem blocks_run (o : Opts) : ∀ (blocks : List (List Object)) (_ : ∀ b ∈ blocks, FileObjsOK o b) (st : RSt)
    (_ : st.stack = [rootCtx o]) (_ : st.cur = none) (_ : st.commentText = []) (_ : st.commentPending = false)
    (tail : List Piece),
    ∃ bs r, mapE (blockPieces o 0) blocks = .ok bs ∧ After o st blocks.flatten r ∧
      runPieces (bs.flatten ++ tail) st = runPieces tail r := by
  intro blocks
  induction blocks with
  | nil =>
    intro _ st hs _ _ _ tail
    exact ⟨[], st, rfl, by simpa using After.refl o st hs, rfl⟩
  | cons b blocks ih =>
    intro hall st hs hc hct hcp tail
    have haft := after_block o st b hs
    obtain ⟨cs, r, hcs, har, hrun2⟩ := ih (fun x hx => hall x (by simp [hx])) (blockResult o b st) haft.1
      (haft.2.2.2.1.trans hc) (haft.2.2.2.2.1.trans hct) (haft.2.2.2.2.2.1.trans hcp) tail
    obtain ⟨ps, hps, hrun⟩ := block_run3 o b (hall b (by simp)) st hs hc hct hcp (cs.flatten ++ tail)
    refine ⟨ps :: cs, r, by rw [mapE, hps, bindE_ok, hcs, bindE_ok], ?_, ?_⟩
    · simpa using After.trans haft har
    · rw [List.flatten_cons, List.append_assoc, hrun, hrun2]

/-- the whole file, any number of buffers -/
theorem file_run_blocks (o : Opts) (h : Header) (blocks : List (List Object)) (hh : XHeaderOK h)
    (hall : ∀ b ∈ blocks, FileObjsOK o b) :
    ∃ ps, filePieces o h blocks = .ok ps ∧
      ∃ r : RSt, runPieces ps {} = .ok r ∧ (markDone r).headerOut.getD (markDone r).header = projectHeader o h ∧
        (markDone r).out.reverse = blocks.flatten.map (project o) := by
  have hs0 : (stHeader o h).stack = [rootCtx o] := by simp [stHeader, stRoot]
  obtain ⟨bs, r0, hbs, haft, hrun⟩ := blocks_run o blocks hall (stHeader o h) hs0 rfl rfl rfl (endPieces o)
  obtain ⟨a1, a2, a3, a4, a5, a5', a6, a7⟩ := haft
  have hroot : rootCtx o = .osm ∨ rootCtx o = .osmChange := by unfold rootCtx; cases o.changeOps <;> simp
  have hend : endElement {} r0 = .ok { markDone r0 with stack := [] } := by
    generalize r0 = r at a1
    rcases r with ⟨stack, header, version, headerOut, cur, out, ct⟩
    simp only at a1; subst a1
    rcases hroot with h' | h' <;> rw [h'] <;> cases headerOut <;> simp [endElement, markDone]
  refine ⟨headerPieces o h ++ bs.flatten ++ endPieces o, by simp [filePieces, hbs], { markDone r0 with stack := [] }, ?_, ?_, ?_⟩
  · rw [List.append_assoc, header_run o h hh, hrun]
    have hnt : NoText ({ markDone r0 with stack := [] } : RSt) := by unfold NoText; simp
    have e : endPieces o = [Piece.close (rootName o), nl] := by unfold endPieces rootName; cases o.changeOps <;> rfl
    rw [e, runPieces_close, hend]
    simp only [bindE_ok, nl]
    rw [runPieces_ws _ _ _ hnt, runPieces]
  · rw [projectHeader_eq]
    rcases r0 with ⟨stack, header, version, headerOut, cur, out, ct⟩
    simp only at a2 a7
    subst a2
    rcases a7 with a7 | ⟨_, a7⟩ <;> subst a7 <;> simp [markDone, stHeader, stRoot]
  · rcases r0 with ⟨stack, header, version, headerOut, cur, out, ct⟩
    simp only at a6
    subst a6
    cases headerOut <;> simp [markDone, stHeader, stRoot]

end Osmium.XmlFmt
