/-
Pipeline base lemmas, part B: every pipeline step is a step of the embedded queue machines.
-/
import Osmium.Lemmas.PipelineBaseA

namespace Osmium.Pipeline

open Osmium.Mon

set_option linter.unusedSimpArgs false

variable {α : Type}
variable [DecidableEq α]

/-- every pipeline step leaves the input queue alone or is a step of the queue machine -/
theorem step_inq (c : Cfg α) (s s' : State α) (e : Ev α) (h : step? c s e = some s') :
    s'.inq = s.inq ∨ ∃ qe, QueueSM.step? c.inqC s.inq qe = some s'.inq := by
  pl_cases e with h q hq
  all_goals first
    | (left; simp; done)
    | (right; exact ⟨_, hq⟩)

theorem step_outq (c : Cfg α) (s s' : State α) (e : Ev α) (h : step? c s e = some s') :
    s'.outq = s.outq ∨ ∃ qe, QueueSM.step? c.outqC s.outq qe = some s'.outq := by
  pl_cases e with h q hq
  all_goals first
    | (left; simp; done)
    | (right; exact ⟨_, hq⟩)

/-- The input queue of ANY pipeline run is a run of the queue machine of C19. -/
theorem reachable_inq (c : Cfg α) (s : State α) (h : (machine c).Reachable s) :
    (QueueSM.machine Nat c.inqC).Reachable s.inq := by
  induction h with
  | init => exact .init
  | step hr hst ih =>
    rcases step_inq c _ _ _ hst with h | ⟨qe, h⟩
    · rw [h]; exact ih
    · exact .step ih h

/-- The osmdata queue of ANY pipeline run is a run of the queue machine of C19. -/
theorem reachable_outq (c : Cfg α) (s : State α) (h : (machine c).Reachable s) :
    (QueueSM.machine Nat c.outqC).Reachable s.outq := by
  induction h with
  | init => exact .init
  | step hr hst ih =>
    rcases step_outq c _ _ _ hst with h | ⟨qe, h⟩
    · rw [h]; exact ih
    · exact .step ih h

end Osmium.Pipeline
