/-
Ranking function of the Reader pipeline, part 2: the proof tactics, and the events of the two queues
(input queue `qi`, osmdata queue `qo`): strict decrease for the non-stutter events, equality for
the busy-wait iterations.
-/
import Osmium.Lemmas.PipelineRankDefs

set_option linter.unusedSimpArgs false
set_option linter.unusedVariables false

namespace Osmium.Pipeline

open Osmium.Mon

variable {α : Type} [DecidableEq α]

namespace Rank

/-- split one queue event of the pipeline: afterwards `s'` is replaced by the successor state and
    the step of the queue machine is unfolded too -/
syntax "rk_qcases " ident " with " ident : tactic
macro_rules
  | `(tactic| rk_qcases $e:ident with $h:ident) => `(tactic|
      (cases $e:ident <;>
         simp only [step?] at $h:ident <;> (repeat' split at $h:ident) <;>
         simp only [Option.map_eq_some_iff, Option.some.injEq, reduceCtorEq, false_and, exists_false] at $h:ident <;>
         (try (obtain ⟨q, hq, $h:ident⟩ := $h:ident
               simp only [QueueSM.step?] at hq
               (repeat' split at hq) <;> simp only [Option.some.injEq, reduceCtorEq] at hq <;> subst hq <;>
               (repeat' split at $h:ident) <;> subst $h:ident))))

syntax "rk_simp" : tactic
macro_rules
  | `(tactic| rk_simp) => `(tactic|
      ((try simp only [isStutter, decide_eq_false_iff_not, decide_eq_true_eq, reduceCtorEq, Bool.true_eq_false,
          Bool.false_eq_true] at *) <;>
       (simp_all [rank, setPc_apply, tR, tP, tC]) <;>
       omega))

syntax "rk_close " ident : tactic
macro_rules
  | `(tactic| rk_close $s:ident) => `(tactic|
      first
        | (rk_simp; done)
        | (cases hi : QueueSM.State.items (State.inq $s) <;> rk_simp; done)
        | (cases hi : QueueSM.State.items (State.outq $s) <;> rk_simp; done)
        | (cases ‹PK› <;> rk_simp; done)
        | (cases ‹RK› <;> rk_simp; done))

set_option maxHeartbeats 1600000 in
theorem dec_qi (c : Cfg α) (s s' : State α) (e : QueueSM.Ev Nat) (hst : step? c s (.qi e) = some s')
    (hs : isStutter c s (.qi e) = false) : rank c s' < rank c s := by
  rk_qcases e with hst
  all_goals (subst_vars; rk_close s)

set_option maxHeartbeats 1600000 in
theorem stut_qi (c : Cfg α) (s s' : State α) (e : QueueSM.Ev Nat) (hst : step? c s (.qi e) = some s')
    (hs : isStutter c s (.qi e) = true) : rank c s' = rank c s := by
  rk_qcases e with hst
  all_goals (subst_vars; rk_close s)

set_option maxHeartbeats 1600000 in
theorem dec_qo (c : Cfg α) (s s' : State α) (e : QueueSM.Ev Nat) (hst : step? c s (.qo e) = some s')
    (hs : isStutter c s (.qo e) = false) : rank c s' < rank c s := by
  rk_qcases e with hst
  all_goals (subst_vars; rk_close s)

set_option maxHeartbeats 1600000 in
theorem stut_qo (c : Cfg α) (s s' : State α) (e : QueueSM.Ev Nat) (hst : step? c s (.qo e) = some s')
    (hs : isStutter c s (.qo e) = true) : rank c s' = rank c s := by
  rk_qcases e with hst
  all_goals (subst_vars; rk_close s)

end Rank

end Osmium.Pipeline
