/-
C03 — lemmas (basics): `At b off x` (x sits in b at offset off), little-endian read-back of
`leBytes`, C-string read.  Helper file of Osmium/Lemmas/HostileLayout.lean.
-/
import Osmium.Model.HostileLayout
import Osmium.Lemmas.Buf

namespace Osmium.HostileLayout

open Osmium.Layout

/-- `x` sits in `b` at offset `off` -/
def At (b : Bytes) (off : Nat) (x : Bytes) : Prop := x <+: b.drop off

theorem at_append {b : Bytes} {off : Nat} {x y : Bytes} :
    At b off (x ++ y) ↔ At b off x ∧ At b (off + x.length) y := by
  unfold At
  constructor
  · rintro ⟨t, h⟩
    refine ⟨⟨y ++ t, by simpa using h⟩, ⟨t, ?_⟩⟩
    rw [← List.drop_drop, ← h]; simp
  · rintro ⟨⟨t, h⟩, ⟨t', h'⟩⟩
    refine ⟨t', ?_⟩
    rw [← List.drop_drop, ← h] at h'
    simp at h'
    rw [← h, ← h']; simp

theorem at_nil {b : Bytes} {off : Nat} : At b off [] := List.nil_prefix

theorem at_len {b : Bytes} {off : Nat} {x : Bytes} (h : At b off x) : x.length ≤ b.length - off := by
  have := h.length_le
  simpa using this

theorem at_getElem? {b : Bytes} {off : Nat} {x : Bytes} (h : At b off x) (i : Nat) (hi : i < x.length) :
    b[off + i]? = x[i]? := by
  obtain ⟨t, h⟩ := h
  have : (b.drop off)[i]? = x[i]? := by
    rw [← h, List.getElem?_append_left hi]
  rw [← this, List.getElem?_drop]

theorem byteAt_at {b : Bytes} {off : Nat} {x : Bytes} (h : At b off x) (i : Nat) (hi : i < x.length) :
    byteAt b (off + i) = byteAt x i := by
  unfold byteAt
  simp only [List.getD_eq_getElem?_getD]
  rw [at_getElem? h i hi]

theorem leAt_at_aux {b : Bytes} {off : Nat} {x : Bytes} (h : At b off x) :
    ∀ (n i : Nat), i + n ≤ x.length → leAt b (off + i) n = leAt x i n := by
  intro n
  induction n with
  | zero => intros; rfl
  | succ n ih =>
    intro i hi
    simp only [leAt]
    rw [byteAt_at h i (by omega), Nat.add_assoc, ih (i + 1) (by omega)]

theorem leAt_at {b : Bytes} {off : Nat} {x : Bytes} (h : At b off x) (n : Nat) (hn : n ≤ x.length) :
    leAt b off n = leAt x 0 n := by
  have := leAt_at_aux h n 0 (by omega)
  simpa using this

theorem leBytes_length (v n : Nat) : (leBytes v n).length = n := by
  induction n generalizing v with
  | zero => rfl
  | succ n ih => simp [leBytes, ih]

theorem leBytesInt_length (v : Int) (n : Nat) : (leBytesInt v n).length = n := by
  unfold leBytesInt; exact leBytes_length _ _

theorem leAt_cons_succ (a : UInt8) (l : Bytes) (i n : Nat) : leAt (a :: l) (i + 1) n = leAt l i n := by
  induction n generalizing i with
  | zero => rfl
  | succ n ih => simp only [leAt]; rw [ih]; simp [byteAt]

theorem leAt_leBytes (v n : Nat) : leAt (leBytes v n) 0 n = v % 256 ^ n := by
  induction n generalizing v with
  | zero => simp [leAt, Nat.mod_one]
  | succ n ih =>
    simp only [leAt, leBytes]
    rw [leAt_cons_succ, ih]
    have e : 256 ^ (n + 1) = 256 * 256 ^ n := by rw [Nat.pow_succ, Nat.mul_comm]
    rw [e, Nat.mod_mul]
    simp only [byteAt, List.getD_cons_zero, UInt8.toNat_ofNat']
    omega

theorem leAt_at_leBytes {b : Bytes} {off : Nat} {v n : Nat} (h : At b off (leBytes v n)) :
    leAt b off n = v % 256 ^ n := by
  rw [leAt_at h n (by rw [leBytes_length]; exact Nat.le_refl _), leAt_leBytes]

theorem u32At_at {b : Bytes} {off : Nat} {v : Nat} (h : At b off (leBytes v 4)) (hv : v < 2 ^ 32) :
    u32At b off = v := by
  unfold u32At; rw [leAt_at_leBytes h]; omega

theorem u16At_at {b : Bytes} {off : Nat} {v : Nat} (h : At b off (leBytes v 2)) (hv : v < 2 ^ 16) :
    u16At b off = v := by
  unfold u16At; rw [leAt_at_leBytes h]; omega

/-! cstr -/

theorem noNul_iff {s : Bytes} : noNul s = true ↔ (0 : UInt8) ∉ s := by
  unfold noNul; simp

theorem noNul_cons {a : UInt8} {s : Bytes} : noNul (a :: s) = true ↔ a ≠ 0 ∧ noNul s = true := by
  rw [noNul_iff, noNul_iff, List.mem_cons, not_or]
  constructor
  · rintro ⟨h1, h2⟩; exact ⟨fun e => h1 e.symm, h2⟩
  · rintro ⟨h1, h2⟩; exact ⟨fun e => h1 e.symm, h2⟩

theorem takeWhile_take_noNul (s r : Bytes) (h : noNul s = true) (n : Nat) (hn : s.length < n) :
    ((s ++ 0 :: r).take n).takeWhile (· ≠ 0) = s := by
  induction s generalizing n with
  | nil =>
    obtain ⟨m, rfl⟩ : ∃ m, n = m + 1 := ⟨n - 1, by simp at hn; omega⟩
    simp
  | cons a s ih =>
    obtain ⟨m, rfl⟩ : ∃ m, n = m + 1 := ⟨n - 1, by omega⟩
    rw [noNul_cons] at h
    simp only [List.cons_append, List.take_succ_cons]
    rw [List.takeWhile_cons_of_pos (by simpa using h.1), ih h.2 m (by simp at hn; omega)]

theorem cstr_at {b : Bytes} {pos lim : Nat} {s : Bytes} (h : At b pos (s ++ [0])) (hs : noNul s = true)
    (h1 : pos + s.length < lim) (h2 : lim ≤ b.length) :
    cstr b pos lim = some (s, pos + s.length + 1) := by
  obtain ⟨t, ht⟩ := h
  unfold cstr
  rw [← ht]
  simp only [List.append_assoc, List.singleton_append]
  rw [takeWhile_take_noNul s t hs (lim - pos) (by omega)]
  simp [h1, h2]

end Osmium.HostileLayout
