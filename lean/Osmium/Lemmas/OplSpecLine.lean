/-
Line level of `opl_decode_spec` (C02), part 1: the generic machinery.

* `Sep'`: what may follow an attribute on a line of the specification renderer (`OplSpec`): the end
  of the line, a space or a TAB (the writer-side lemmas in OplFmt.lean only know the space);
  the leaf conversions of OplFmt.lean re-packaged for `Sep'` and for the value syntaxes of the
  specification (`OplSpec.int`, `toIso`);
* `OplSpec.pick` is a permutation and commutes with `map`;
* `Sys` / `FSpec` / `Sys.Good`: an attribute loop whose state is a record of independent *slots*;
  `Sys.run`: the loop over ANY permutation (`pick`), ANY separators (`withSeps`) and with or without
  the default-valued attributes (`omitDefaults`) of a list of attributes with pairwise different
  slots ends in a state in which every slot satisfies the attribute's postcondition, or — attribute
  omitted because it has its default value — still has its initial content.  No commutation argument is
  needed: the final state is characterised slot by slot.
-/
import Osmium.Lemmas.OplSpecStr

namespace Osmium.OplFmt
open Osmium.Osm Osmium.TextFmt Osmium.Conv Osmium.Utf8
open Osmium.Conv.IntLemmas (NoDigitHead)

/-! ### what may follow a field -/

/-- the rest of the line after a field: nothing, or the space / tab in front of the next field -/
def Sep' (r : Bytes) : Prop := r = [] ∨ ∃ c t, r = c :: t ∧ isSpTab c = true

theorem isSpTab_cases {c : UInt8} (h : isSpTab c = true) : c = 0x20 ∨ c = 0x09 := by
  simpa [isSpTab] using h

theorem Sep'.cases {r : Bytes} (h : Sep' r) : r = [] ∨ (∃ t, r = 0x20 :: t) ∨ ∃ t, r = 0x09 :: t := by
  rcases h with rfl | ⟨c, t, rfl, hc⟩
  · exact Or.inl rfl
  · rcases isSpTab_cases hc with rfl | rfl
    · exact Or.inr (Or.inl ⟨_, rfl⟩)
    · exact Or.inr (Or.inr ⟨_, rfl⟩)

theorem Sep'.noDigit {r : Bytes} (h : Sep' r) : NoDigitHead r := by
  rcases h.cases with rfl | ⟨t, rfl⟩ | ⟨t, rfl⟩ <;> simp [NoDigitHead, peek, isDigit]

theorem Sep'.terminates {r : Bytes} (h : Sep' r) : C13.Terminates r := by
  rcases h.cases with rfl | ⟨t, rfl⟩ | ⟨t, rfl⟩ <;>
    exact ⟨by simp [NoDigitHead, peek, isDigit], by simp [peek, cDot], by simp [peek, ce], by simp [peek, cE]⟩

theorem Sep'.atStop {r : Bytes} (h : Sep' r) : Opl.AtStop r := by
  rcases h.cases with rfl | ⟨t, rfl⟩ | ⟨t, rfl⟩
  · exact Or.inl rfl
  · exact Or.inr ⟨_, _, rfl, by decide⟩
  · exact Or.inr ⟨_, _, rfl, by decide⟩

theorem Sep'.notNonEmpty {r : Bytes} (h : Sep' r) : nonEmptyB (peek r) = false := by
  rcases h.cases with rfl | ⟨t, rfl⟩ | ⟨t, rfl⟩ <;> simp [peek, nonEmptyB]

theorem Sep'.tsStop {r : Bytes} (h : Sep' r) : (peek r == 0 || peek r == 32 || peek r == 9) = true := by
  rcases h.cases with rfl | ⟨t, rfl⟩ | ⟨t, rfl⟩ <;> simp [peek]

theorem Sep'.spOrEnd {r : Bytes} (h : Sep' r) : (isSpTab (peek r) || peek r == 0) = true := by
  rcases h.cases with rfl | ⟨t, rfl⟩ | ⟨t, rfl⟩ <;> simp [peek, isSpTab]

theorem Sep'.nil : Sep' [] := Or.inl rfl

theorem skipSection_append' {s r : Bytes} (hs : AllNE s) (hr : Sep' r) : skipSection (s ++ r) = r := by
  unfold skipSection
  induction s with
  | nil => rcases hr.cases with rfl | ⟨t, rfl⟩ | ⟨t, rfl⟩ <;> simp [nonEmptyB]
  | cons c s ih =>
    have hc : nonEmptyB c = true := hs c (by simp)
    simp only [List.cons_append, List.dropWhile_cons, hc, if_true]
    exact ih (fun b hb => hs b (by simp [hb]))

theorem sectionOf_append' {s r : Bytes} (hs : AllNE s) (hr : Sep' r) : sectionOf (s ++ r) = s := by
  unfold sectionOf
  induction s with
  | nil => rcases hr.cases with rfl | ⟨t, rfl⟩ | ⟨t, rfl⟩ <;> simp [nonEmptyB]
  | cons c s ih =>
    have hc : nonEmptyB c = true := hs c (by simp)
    simp only [List.cons_append, List.takeWhile_cons, hc, if_true]
    rw [ih (fun b hb => hs b (by simp [hb]))]

/-! ### clean bytes: what a line may consist of without being cut by the reader -/

/-- no LF, no CR, no NUL -/
abbrev CleanB (b : UInt8) : Prop := b ≠ 0x0a ∧ b ≠ 0x0d ∧ b ≠ 0

theorem NumByte.clean {b : UInt8} (h : NumByte b) : CleanB b := by
  rcases h with rfl | rfl | ⟨h1, h2⟩
  · decide
  · decide
  · have ne : ∀ c : UInt8, (c.toNat < 48 ∨ 57 < c.toNat) → b ≠ c := by
      intro c hc hbc; subst hbc; omega
    exact ⟨ne _ (by decide), ne _ (by decide), ne _ (by decide)⟩

theorem clean_of_noStructural {e : Bytes} (h : ∀ b ∈ e, b.toNat ∉ Opl.structural) : ∀ b ∈ e, CleanB b := by
  intro b hb
  have := h b hb
  simp only [Opl.structural, List.mem_cons, List.not_mem_nil, or_false, not_or] at this
  exact ⟨fun hh => this.2.2.1 (by rw [hh]; rfl), fun hh => this.2.2.2.1 (by rw [hh]; rfl),
    fun hh => this.1 (by rw [hh]; rfl)⟩

theorem clean_of_AllNE_num {e : Bytes} (h : ∀ b ∈ e, NumByte b) : ∀ b ∈ e, CleanB b :=
  fun b hb => (h b hb).clean

/-! ### leaf conversions in the specification's syntax -/

theorem int_pId (v : Int) (h0 : int64Min < v) (h1 : v ≤ int64Max) :
    OplSpec.int v ≠ [] ∧ (∀ b ∈ OplSpec.int v, NumByte b) ∧
      ∀ rest, NoDigitHead rest → pId (OplSpec.int v ++ rest) = .ok (v, rest) := by
  obtain ⟨out, ho, hne, hnum, hp⟩ := wInt_pId v h0 h1
  have e : OplSpec.int v = out := by
    unfold wInt at ho
    unfold OplSpec.int
    split at ho
    · rename_i b hb; cases ho; simp [hb]
    · cases ho
  rw [e]; exact ⟨hne, hnum, hp⟩

theorem int_pU32 (v : Nat) (h1 : v ≤ 4294967295) :
    OplSpec.int (v : Int) ≠ [] ∧ (∀ b ∈ OplSpec.int (v : Int), NumByte b) ∧
      ∀ rest, NoDigitHead rest → pU32 (OplSpec.int (v : Int) ++ rest) = .ok (v, rest) := by
  obtain ⟨out, ho, hne, hnum, hp⟩ := wInt_pU32 v h1
  have e : OplSpec.int (v : Int) = out := by
    unfold wInt at ho
    unfold OplSpec.int
    split at ho
    · rename_i b hb; cases ho; simp [hb]
    · cases ho
  rw [e]; exact ⟨hne, hnum, hp⟩

/-- timestamps: `to_iso` then `opl_parse_timestamp`, in front of a space, a tab or the end -/
theorem toIso_pTs' (t : Nat) (ht : t < 4294967296) (rest : Bytes) (hr : Sep' rest) :
    pTs (toIso t ++ rest) = .ok (t, rest) := by
  by_cases h0 : t = 0
  · subst h0
    have : toIso 0 = [] := by decide
    simp [this, pTs, oplParseTimestampV, hr.tsStop]
  · have hb : (t != 0) = true := by simpa using h0
    obtain ⟨d, r, hd⟩ := toIsoAll_head t
    have hpk : peek (toIsoAll t ++ rest) = digitChar d := by rw [hd]; rfl
    have hn := (digitChar_num d).facts
    have hstop : (peek (toIsoAll t ++ rest) == 0 || peek (toIsoAll t ++ rest) == 32 || peek (toIsoAll t ++ rest) == 9) = false := by
      rw [hpk]
      have := hn.1
      simp only [nonEmptyB, Bool.and_eq_true, bne_iff_ne, ne_eq] at this
      simp [this.1.1, this.1.2, this.2]
    have hdrop : (toIsoAll t ++ rest).drop 20 = rest := by
      rw [List.drop_append_of_le_length (by rw [toIsoAll_length])]
      simp [List.drop_of_length_le (Nat.le_of_eq (toIsoAll_length t))]
    simp [toIso, hb, pTs, oplParseTimestampV, hstop, (ts_roundtrip_fixed true true t ht rest).2, hdrop]

/-- the bytes of a timestamp: digits, '-', ':', 'T', 'Z' -/
theorem toIso_clean (t : Nat) : ∀ b ∈ toIso t, CleanB b := by
  intro b hb
  unfold toIso at hb
  split at hb
  · rw [toIsoAll_eq] at hb
    simp only [fmt2, fmt4, List.mem_cons, List.mem_append, List.not_mem_nil, or_false, or_assoc] at hb
    have hd : ∀ d, CleanB (digitChar d) := fun d => (digitChar_num d).clean
    rcases hb with h | h | h | h | h | h | h | h | h | h | h | h | h | h | h | h | h | h | h | h <;>
      first | (rw [h]; exact hd _) | (rw [h]; decide)
  · cases hb

/-! ### `pick` is a permutation -/

theorem getElem_cons_eraseIdx_perm {α : Type} : ∀ (l : List α) (i : Nat) (h : i < l.length),
    (l[i] :: l.eraseIdx i).Perm l
  | [], i, h => by simp at h
  | x :: l, 0, _ => by simp
  | x :: l, i + 1, h => by
    have ih := getElem_cons_eraseIdx_perm l i (by simpa using h)
    simp only [List.getElem_cons_succ, List.eraseIdx_cons_succ]
    exact (List.Perm.swap _ _ _).trans (List.Perm.cons x ih)

theorem pickGo_perm {α : Type} : ∀ (f : Nat) (ks : List Nat) (xs : List α), (OplSpec.pickGo f ks xs).Perm xs := by
  intro f
  induction f with
  | zero => intro ks xs; simp [OplSpec.pickGo]
  | succ f ih =>
    intro ks xs
    cases xs with
    | nil => simp [OplSpec.pickGo]
    | cons x xs =>
      cases ks with
      | nil => simp [OplSpec.pickGo]
      | cons k ks =>
        have hi : k % (x :: xs).length < (x :: xs).length := Nat.mod_lt _ (by simp)
        simp only [OplSpec.pickGo, List.getElem?_eq_getElem hi]
        exact (List.Perm.cons _ (ih ks _)).trans (getElem_cons_eraseIdx_perm _ _ hi)

theorem pick_perm {α : Type} (ks : List Nat) (xs : List α) : (OplSpec.pick ks xs).Perm xs :=
  pickGo_perm _ _ _

theorem eraseIdx_map' {α β : Type} (g : α → β) : ∀ (l : List α) (i : Nat), (l.map g).eraseIdx i = (l.eraseIdx i).map g
  | [], _ => by simp
  | _ :: _, 0 => by simp
  | x :: l, i + 1 => by simp [eraseIdx_map' g l i]

theorem pickGo_map {α β : Type} (g : α → β) : ∀ (f : Nat) (ks : List Nat) (xs : List α),
    OplSpec.pickGo f ks (xs.map g) = (OplSpec.pickGo f ks xs).map g := by
  intro f
  induction f with
  | zero => intro ks xs; simp [OplSpec.pickGo]
  | succ f ih =>
    intro ks xs
    cases xs with
    | nil => simp [OplSpec.pickGo]
    | cons x xs =>
      cases ks with
      | nil => simp [OplSpec.pickGo]
      | cons k ks =>
        have hi : k % (x :: xs).length < (x :: xs).length := Nat.mod_lt _ (by simp)
        have hl : (g x :: xs.map g).length = (x :: xs).length := by simp
        simp only [List.map_cons, OplSpec.pickGo]
        rw [hl, ← List.map_cons, List.getElem?_map, List.getElem?_eq_getElem hi]
        simp
        rw [← List.map_cons, eraseIdx_map', ih]

theorem pick_map {α β : Type} (g : α → β) (ks : List Nat) (xs : List α) :
    OplSpec.pick ks (xs.map g) = (OplSpec.pick ks xs).map g := by
  unfold OplSpec.pick
  rw [List.length_map]
  exact pickGo_map g _ _ _

/-! ### separators -/

theorem sepBytes_cases (k : Nat) :
    OplSpec.sepBytes k = [0x20] ∨ OplSpec.sepBytes k = [0x09] ∨ OplSpec.sepBytes k = [0x20, 0x20] ∨
    OplSpec.sepBytes k = [0x20, 0x09] := by
  unfold OplSpec.sepBytes
  split <;> simp

/-- the first attribute of `withSeps` with its separator -/
theorem withSeps_cons (ks : List Nat) (f : Bytes) (fs : List Bytes) :
    ∃ sp ks', sp ≠ [] ∧ (∀ b ∈ sp, isSpTab b = true) ∧
      OplSpec.withSeps ks (f :: fs) = sp ++ (f ++ OplSpec.withSeps ks' fs) := by
  cases ks with
  | nil => exact ⟨[0x20], [], by simp, by simp [isSpTab], by simp [OplSpec.withSeps]⟩
  | cons k ks =>
    refine ⟨OplSpec.sepBytes k, ks, ?_, ?_, by simp [OplSpec.withSeps]⟩
    · rcases sepBytes_cases k with h | h | h | h <;> rw [h] <;> simp
    · rcases sepBytes_cases k with h | h | h | h <;> rw [h] <;> simp [isSpTab]

theorem withSeps_sep (ks : List Nat) (fs : List Bytes) : Sep' (OplSpec.withSeps ks fs) := by
  cases fs with
  | nil => cases ks <;> exact Or.inl (by simp [OplSpec.withSeps])
  | cons f fs =>
    obtain ⟨sp, ks', hne, hsp, e⟩ := withSeps_cons ks f fs
    rw [e]
    cases sp with
    | nil => exact absurd rfl hne
    | cons c sp => exact Or.inr ⟨c, _, rfl, hsp c (by simp)⟩

theorem withSeps_mem : ∀ (fs : List Bytes) (ks : List Nat) (b : UInt8), b ∈ OplSpec.withSeps ks fs →
    isSpTab b = true ∨ ∃ f ∈ fs, b ∈ f := by
  intro fs
  induction fs with
  | nil => intro ks b hb; cases ks <;> simp [OplSpec.withSeps] at hb
  | cons f fs ih =>
    intro ks b hb
    obtain ⟨sp, ks', _, hsp, e⟩ := withSeps_cons ks f fs
    rw [e] at hb
    rcases List.mem_append.1 hb with h | h
    · exact Or.inl (hsp b h)
    · rcases List.mem_append.1 h with h | h
      · exact Or.inr ⟨f, by simp, h⟩
      · rcases ih ks' b h with h | ⟨g, hg, hb⟩
        · exact Or.inl h
        · exact Or.inr ⟨g, by simp [hg], hb⟩

theorem dropWhile_sp (sp : Bytes) (hsp : ∀ b ∈ sp, isSpTab b = true) (c : UInt8) (hc : isSpTab c = false) (s : Bytes) :
    (sp ++ c :: s).dropWhile isSpTab = c :: s := by
  induction sp with
  | nil => simp [hc]
  | cons d sp ih =>
    simp only [List.cons_append, List.dropWhile_cons, hsp d (by simp), if_true]
    exact ih (fun b hb => hsp b (by simp [hb]))

/-- one iteration: separator, attribute letter, value -/
theorem attrLoop_step' {σ : Type} (field : σ → UInt8 → Bytes → Except PErr (σ × Bytes)) (f : Nat) (st st' : σ)
    (sp : Bytes) (hne : sp ≠ []) (hsp : ∀ b ∈ sp, isSpTab b = true)
    (c : UInt8) (s rest : Bytes) (hc : isSpTab c = false) (hf : field st c s = .ok (st', rest)) (r : σ)
    (h : attrLoop field f st' rest = .ok r) :
    attrLoop field (f + 1) st (sp ++ c :: s) = .ok r := by
  rw [attrLoop]
  have hp : pSpace (sp ++ c :: s) = .ok (c :: s) := by
    cases sp with
    | nil => exact absurd rfl hne
    | cons d sp =>
      have hd := hsp d (by simp)
      have := dropWhile_sp (d :: sp) hsp c hc s
      simp only [pSpace, List.cons_append, peek, hd, if_true] at this ⊢
      rw [this]
  have he : (sp ++ c :: s).isEmpty = false := by cases sp <;> rfl
  simp only [he, Bool.false_eq_true, if_false, hp, bindE_ok, hf]
  exact h

/-! ### attribute loops over independent slots -/

/-- an attribute as the specification writes it and what reading it establishes -/
structure FSpec (σ ι : Type) where
  /-- the local variable(s) of the parser the attribute sets -/
  slot : ι
  letter : UInt8
  body : Bytes
  /-- what holds for the content of the slot afterwards -/
  post : σ → Prop

def FSpec.bytes {σ ι : Type} (F : FSpec σ ι) : Bytes := F.letter :: F.body

/-- a parser: the `switch`, the projection of the state onto a slot (all other components reset),
    the initial state -/
structure Sys (σ ι : Type) where
  field : σ → UInt8 → Bytes → Except PErr (σ × Bytes)
  content : ι → σ → σ
  init : σ

def Sys.Unset {σ ι : Type} (S : Sys σ ι) (s : ι) (st : σ) : Prop := S.content s st = S.content s S.init

/-- reading the attribute in a state in which its slot is still unset, in front of a separator or
    the end of the line: succeeds, consumes exactly the attribute, changes only its slot, and the
    slot satisfies `post` -/
structure Sys.Good {σ ι : Type} (S : Sys σ ι) (F : FSpec σ ι) : Prop where
  letter : isSpTab F.letter = false
  parse : ∀ st rest, S.Unset F.slot st → Sep' rest → ∃ st', S.field st F.letter (F.body ++ rest) = .ok (st', rest) ∧
    (∀ s, s ≠ F.slot → S.content s st' = S.content s st) ∧ F.post (S.content F.slot st')
  clean : ∀ b ∈ F.bytes, CleanB b

/-- `Good` from a state transformer (which may depend on the rest of the line: `tags_begin`) -/
theorem Sys.Good.of_eff {σ ι : Type} (S : Sys σ ι) (F : FSpec σ ι) (eff : Bytes → σ → σ)
    (hl : isSpTab F.letter = false)
    (hp : ∀ st rest, S.Unset F.slot st → Sep' rest →
      S.field st F.letter (F.body ++ rest) = .ok (eff rest st, rest) ∧ F.post (S.content F.slot (eff rest st)))
    (hf : ∀ rest s st, s ≠ F.slot → S.content s (eff rest st) = S.content s st)
    (hc : ∀ b ∈ F.bytes, CleanB b) : S.Good F :=
  ⟨hl, fun st rest hu hr => ⟨eff rest st, (hp st rest hu hr).1, fun s hs => hf rest s st hs, (hp st rest hu hr).2⟩, hc⟩

/-- the attribute loop over a list of attributes with pairwise different slots -/
theorem Sys.loop {σ ι : Type} (S : Sys σ ι) (fs : List (FSpec σ ι)) (hg : ∀ F ∈ fs, S.Good F)
    (hnd : (fs.map (·.slot)).Nodup) :
    ∀ (seps : List Nat) (st : σ), (∀ F ∈ fs, S.Unset F.slot st) →
      ∃ fin, attrLoop S.field (fs.length + 1) st (OplSpec.withSeps seps (fs.map FSpec.bytes)) = .ok fin ∧
        (∀ F ∈ fs, F.post (S.content F.slot fin)) ∧
        (∀ s, (∀ F ∈ fs, s ≠ F.slot) → S.content s fin = S.content s st) := by
  induction fs with
  | nil =>
    intro seps st _
    exact ⟨st, (by cases seps <;> simp [OplSpec.withSeps, attrLoop]), (fun F hF => by cases hF), fun _ _ => rfl⟩
  | cons F fs ih =>
    intro seps st hu
    simp only [List.map_cons, List.nodup_cons, List.mem_map, not_exists, not_and] at hnd
    obtain ⟨sp, ks', hne, hsp, e⟩ := withSeps_cons seps F.bytes (fs.map FSpec.bytes)
    have hF := hg F (by simp)
    obtain ⟨st', hparse, hframe, hpost⟩ := hF.parse st _ (hu F (by simp)) (withSeps_sep ks' (fs.map FSpec.bytes))
    obtain ⟨fin, hloop, hposts, hfr⟩ := ih (fun G hG => hg G (by simp [hG])) hnd.2 ks' st' (by
      intro G hG
      have hs : G.slot ≠ F.slot := fun h => hnd.1 G hG h
      have := hu G (by simp [hG])
      unfold Sys.Unset at this ⊢
      rw [hframe G.slot hs, this])
    refine ⟨fin, ?_, ?_, ?_⟩
    · rw [List.map_cons, e]
      have e2 : sp ++ (F.bytes ++ OplSpec.withSeps ks' (fs.map FSpec.bytes))
          = sp ++ F.letter :: (F.body ++ OplSpec.withSeps ks' (fs.map FSpec.bytes)) := by simp [FSpec.bytes]
      rw [e2]
      exact attrLoop_step' S.field _ st st' sp hne hsp F.letter _ _ hF.letter hparse _ hloop
    · intro G hG
      rcases List.mem_cons.1 hG with rfl | hG'
      · rw [hfr G.slot (fun H hH h => hnd.1 H hH h.symm)]
        exact hpost
      · exact hposts G hG'
    · intro s hs
      rw [hfr s (fun G hG => hs G (by simp [hG]))]
      exact hframe s (hs F (by simp))

theorem inj_of_nodup_map {α β : Type} (g : α → β) : ∀ (l : List α), (l.map g).Nodup →
    ∀ x ∈ l, ∀ y ∈ l, g x = g y → x = y := by
  intro l
  induction l with
  | nil => intro _ x hx; cases hx
  | cons a l ih =>
    intro hnd x hx y hy hxy
    simp only [List.map_cons, List.nodup_cons, List.mem_map, not_exists, not_and] at hnd
    rcases List.mem_cons.1 hx with rfl | hx' <;> rcases List.mem_cons.1 hy with rfl | hy'
    · rfl
    · exact absurd hxy.symm (hnd.1 y hy')
    · exact absurd hxy (hnd.1 x hx')
    · exact ih hnd.2 x hx' y hy' hxy

/-- the attributes that are written: all, or those that do not have their default value -/
def kept {σ ι : Type} (om : Bool) (cf : List (Bool × FSpec σ ι)) : List (FSpec σ ι) :=
  (if om then cf.filter (fun p => !p.1) else cf).map (·.2)

/-- the list `renderLine` hands to `withSeps` -/
theorem kept_bytes {σ ι : Type} (om : Bool) (cf : List (Bool × FSpec σ ι)) (order : List Nat) :
    OplSpec.pick order
      ((if om then (cf.map fun p => (p.1, p.2.bytes)).filter (fun f => !f.1) else (cf.map fun p => (p.1, p.2.bytes))).map (·.2))
      = (OplSpec.pick order (kept om cf)).map FSpec.bytes := by
  rw [← pick_map]
  congr 1
  cases om <;> simp [kept, List.filter_map, Function.comp_def]

/-- **the generic line lemma.**  `cf`: the attributes of an object in the canonical order with their
    "has the default value" flags.  For every permutation, every separator choice, with or without the
    default-valued attributes: the loop succeeds, every slot satisfies the attribute's postcondition or
    (attribute omitted) still has its initial content, and the text contains no LF, CR, NUL. -/
theorem Sys.run {σ ι : Type} (S : Sys σ ι) (cf : List (Bool × FSpec σ ι)) (hg : ∀ p ∈ cf, S.Good p.2)
    (hnd : (cf.map (·.2.slot)).Nodup) (om : Bool) (order seps : List Nat) :
    ∃ fin, attrLoop S.field (cf.length + 1) S.init
        (OplSpec.withSeps seps ((OplSpec.pick order (kept om cf)).map FSpec.bytes)) = .ok fin ∧
      (∀ p ∈ cf, p.2.post (S.content p.2.slot fin) ∨ (p.1 = true ∧ S.content p.2.slot fin = S.content p.2.slot S.init)) ∧
      ∀ b ∈ OplSpec.withSeps seps ((OplSpec.pick order (kept om cf)).map FSpec.bytes), CleanB b := by
  have hperm := pick_perm order (kept om cf)
  -- the kept attributes form a sublist of all
  have hsub : ((if om then cf.filter (fun p => !p.1) else cf)).Sublist cf := by
    cases om
    · exact List.Sublist.refl _
    · exact List.filter_sublist
  have hkmem : ∀ F ∈ kept om cf, ∃ p ∈ cf, p.2 = F := by
    intro F hF
    simp only [kept, List.mem_map] at hF
    obtain ⟨p, hp, rfl⟩ := hF
    exact ⟨p, hsub.subset hp, rfl⟩
  have hknd : ((kept om cf).map (·.slot)).Nodup := by
    have : ((kept om cf).map (·.slot)) = (if om then cf.filter (fun p => !p.1) else cf).map (·.2.slot) := by
      simp [kept, List.map_map, Function.comp_def]
    rw [this]
    exact (hsub.map _).nodup hnd
  have hgood : ∀ F ∈ OplSpec.pick order (kept om cf), S.Good F := by
    intro F hF
    obtain ⟨p, hp, rfl⟩ := hkmem F (hperm.mem_iff.1 hF)
    exact hg p hp
  have hnd' : ((OplSpec.pick order (kept om cf)).map (·.slot)).Nodup :=
    ((hperm.map _).nodup_iff).2 hknd
  have hlen : (OplSpec.pick order (kept om cf)).length ≤ cf.length := by
    rw [hperm.length_eq]
    simp only [kept, List.length_map]
    exact hsub.length_le
  obtain ⟨fin, hloop, hposts, hfr⟩ := S.loop _ hgood hnd' seps S.init (fun _ _ => rfl)
  refine ⟨fin, ?_, ?_, ?_⟩
  · have := attrLoop_mono_add S.field _ (cf.length - (OplSpec.pick order (kept om cf)).length) _ _ _ hloop
    have e : (OplSpec.pick order (kept om cf)).length + 1 + (cf.length - (OplSpec.pick order (kept om cf)).length)
        = cf.length + 1 := by omega
    rwa [e] at this
  · intro p hp
    by_cases hk : p.2 ∈ kept om cf
    · left
      exact hposts p.2 (hperm.mem_iff.2 hk)
    · right
      have hd : p.1 = true := by
        cases om
        · exact absurd (by simp only [kept]; exact List.mem_map.2 ⟨p, hp, rfl⟩) hk
        · cases h1 : p.1
          · exact absurd (by
              simp only [kept, if_true]
              exact List.mem_map.2 ⟨p, List.mem_filter.2 ⟨hp, by simp [h1]⟩, rfl⟩) hk
          · rfl
      refine ⟨hd, hfr p.2.slot ?_⟩
      intro F hF heq
      obtain ⟨q, hq, rfl⟩ := hkmem F (hperm.mem_iff.1 hF)
      have := inj_of_nodup_map (fun p : Bool × FSpec σ ι => p.2.slot) cf hnd p hp q hq heq
      subst this
      exact hk (hperm.mem_iff.1 hF)
  · intro b hb
    rcases withSeps_mem _ _ b hb with h | ⟨f, hf, hbf⟩
    · rcases isSpTab_cases h with rfl | rfl <;> decide
    · obtain ⟨F, hF, rfl⟩ := List.mem_map.1 hf
      exact (hgood F hF).clean b hbf

end Osmium.OplFmt
