/-
Reader half of `xml_decode_spec` (C02), part 6: sequences of objects, the sections of a change file,
the root element, and the whole document: `renderEvs_read`.
-/
import Osmium.Lemmas.XmlSpecRead5

namespace Osmium.XmlFmt.XmlSpec
open Osmium.Osm Osmium.TextFmt Osmium.Conv Osmium.XmlFmt

/-! ### one object of any kind -/

/-- the parent context an object of a spec-rendered document stands in -/
def ParentOK (ch : Choices) (p : Ctx) : Object → Prop
  | .node m _ => p = parentCtx (specOpts ch) m
  | .way m _ => p = parentCtx (specOpts ch) m
  | .relation m _ => p = parentCtx (specOpts ch) m
  | .changeset .. => TopParent p

theorem object_run_ev (ch : Choices) (wsE : Nat → List Ev) (hws : WsOnly wsE) (lvl : Nat) (obj : Object) (hobj : XObjOK2 obj)
    (p : Ctx) (rest : List Ctx) (hp : ParentOK ch p obj) (st : RSt) (hs : st.stack = p :: rest) (hc : st.cur = none)
    (hct : st.commentText = []) (hcp : st.commentPending = false) (tl : List Ev) :
    runEvents {} (objectEvs ch wsE lvl obj ++ tl) st =
      runEvents {} tl { markDone st with out := project (specOpts ch) obj :: st.out } := by
  cases obj with
  | node m l =>
    have h : XMetaOK m ∧ XLocOK l := hobj
    have hp' : p = parentCtx (specOpts ch) m := hp
    exact node_run_ev ch wsE hws lvl m l h.1 h.2 st rest (hp' ▸ hs) hc tl
  | way m ns =>
    have h : XMetaOK m ∧ ∀ n ∈ ns, XRefOK n := hobj
    have hp' : p = parentCtx (specOpts ch) m := hp
    exact way_run_ev ch wsE hws lvl m ns h.1 h.2 st rest (hp' ▸ hs) hc tl
  | relation m ms =>
    have h : XMetaOK m ∧ ∀ x ∈ ms, XMemberOK x := hobj
    have hp' : p = parentCtx (specOpts ch) m := hp
    exact relation_run_ev ch wsE hws lvl m ms h.1 h.2 st rest (hp' ▸ hs) hc tl
  | changeset id ca cl nc ncm uid user bl tr tags cs =>
    have h : XCsOK id ca cl nc ncm uid user bl tr tags cs := hobj
    have hp' : TopParent p := hp
    exact changeset_run_ev ch wsE hws lvl id ca cl nc ncm uid user bl tr tags cs h st p hp' rest hs hc hct hcp tl

/-! ### sequences -/

/-- the state after a sequence of objects -/
def seqResult (o : Opts) (objs : List Object) (st : RSt) : RSt :=
  { (if objs.isEmpty then st else markDone st) with out := (objs.map (project o)).reverse ++ st.out }

theorem seqResult_nil (o : Opts) (st : RSt) : seqResult o [] st = st := by
  cases st; simp [seqResult]

theorem seqResult_cons (o : Opts) (st : RSt) (obj : Object) (objs : List Object) :
    seqResult o objs { markDone st with out := project o obj :: st.out } = seqResult o (obj :: objs) st := by
  rcases st with ⟨stack, header, version, headerOut, cur, out, ct⟩
  cases objs <;> cases headerOut <;> simp [seqResult, markDone]

theorem seqResult_append (o : Opts) (st : RSt) (a b : List Object) :
    seqResult o b (seqResult o a st) = seqResult o (a ++ b) st := by
  rcases st with ⟨stack, header, version, headerOut, cur, out, ct⟩
  cases a <;> cases b <;> cases headerOut <;> simp [seqResult, markDone]

theorem seqResult_fields (o : Opts) (objs : List Object) (st : RSt) :
    (seqResult o objs st).stack = st.stack ∧ (seqResult o objs st).cur = st.cur ∧
    (seqResult o objs st).commentText = st.commentText ∧
    (seqResult o objs st).commentPending = st.commentPending := by
  rcases st with ⟨stack, header, version, headerOut, cur, out, ct⟩
  cases objs <;> cases headerOut <;> simp [seqResult, markDone]

theorem markDone_fields (st : RSt) :
    (markDone st).stack = st.stack ∧ (markDone st).cur = st.cur ∧ (markDone st).commentText = st.commentText ∧
    (markDone st).out = st.out ∧ (markDone st).commentPending = st.commentPending := by
  rcases st with ⟨stack, header, version, headerOut, cur, out, ct⟩
  cases headerOut <;> simp [markDone]

theorem objs_run_ev (ch : Choices) (wsE : Nat → List Ev) (hws : WsOnly wsE) (lvl : Nat) (p : Ctx) (rest : List Ctx)
    (tl : List Ev) : ∀ (objs : List Object) (_ : ∀ o ∈ objs, XObjOK2 o) (_ : ∀ o ∈ objs, ParentOK ch p o) (st : RSt),
      st.stack = p :: rest → st.cur = none → st.commentText = [] → st.commentPending = false →
      runEvents {} ((objs.map (objectEvs ch wsE lvl)).flatten ++ tl) st = runEvents {} tl (seqResult (specOpts ch) objs st) := by
  intro objs
  induction objs with
  | nil => intro _ _ st _ _ _ _; rw [seqResult_nil]; rfl
  | cons obj objs ih =>
    intro hall hpar st hs hc hct hcp
    simp only [List.map_cons, List.flatten_cons, List.append_assoc]
    rw [object_run_ev ch wsE hws lvl obj (hall obj (by simp)) p rest (hpar obj (by simp)) st hs hc hct hcp]
    obtain ⟨m1, m2, m3, _, m5⟩ := markDone_fields st
    rw [ih (fun o ho => hall o (by simp [ho])) (fun o ho => hpar o (by simp [ho]))
      { markDone st with out := project (specOpts ch) obj :: st.out } (m1.trans hs) (m2.trans hc) (m3.trans hct)
      (m5.trans hcp),
      seqResult_cons]

/-! ### sections of a change file -/

def SecOK (S : List (Nat × List Object)) : Prop :=
  ∀ sg ∈ S, (sg.1 = 1 ∨ sg.1 = 2 ∨ sg.1 = 3) ∧ sg.2 ≠ [] ∧ ∀ o ∈ sg.2, XObjOK o ∧ opOfObj o = sg.1

theorem xobjOK_of (obj : Object) (h : XObjOK2 obj) (hc : isChangeset obj = false) : XObjOK obj := by
  cases obj <;> first | exact h | (simp [isChangeset] at hc)

theorem opOfObj_range (obj : Object) (h : XObjOK obj) : opOfObj obj = 1 ∨ opOfObj obj = 2 ∨ opOfObj obj = 3 := by
  cases obj <;> first | exact opOf_range _ | exact absurd h (by simp [XObjOK])

theorem sections_ok : ∀ (objs : List Object) (_ : ∀ o ∈ objs, XObjOK o),
    SecOK (sections objs) ∧ (sections objs).flatMap Prod.snd = objs := by
  intro objs
  induction objs with
  | nil => intro _; exact ⟨fun sg h => by simp [sections] at h, rfl⟩
  | cons o os ih =>
    intro hall
    obtain ⟨ih1, ih2⟩ := ih (fun x hx => hall x (by simp [hx]))
    have ho := hall o (by simp)
    have hr := opOfObj_range o ho
    unfold sections
    cases hS : sections os with
    | nil =>
      rw [hS] at ih2
      simp only [List.flatMap_nil] at ih2
      subst ih2
      refine ⟨?_, by simp⟩
      intro sg hsg
      simp only [List.mem_singleton] at hsg
      subst hsg
      exact ⟨hr, by simp, fun x hx => by simp only [List.mem_singleton] at hx; subst hx; exact ⟨ho, rfl⟩⟩
    | cons sg rest =>
      obtain ⟨op, grp⟩ := sg
      rw [hS] at ih1 ih2
      simp only []
      by_cases hop : op = opOfObj o
      · simp only [hop, if_true]
        refine ⟨?_, by rw [← ih2]; simp [hop]⟩
        intro sg hsg
        rcases List.mem_cons.1 hsg with rfl | hsg
        · obtain ⟨_, _, h3⟩ := ih1 (op, grp) (by simp)
          refine ⟨hr, by simp, ?_⟩
          intro x hx
          rcases List.mem_cons.1 hx with rfl | hx
          · exact ⟨ho, rfl⟩
          · exact ⟨(h3 x hx).1, (h3 x hx).2.trans hop⟩
        · exact ih1 sg (by simp [hsg])
      · simp only [hop, if_false]
        refine ⟨?_, by rw [← ih2]; simp⟩
        intro sg hsg
        rcases List.mem_cons.1 hsg with rfl | hsg
        · exact ⟨hr, by simp, fun x hx => by simp only [List.mem_singleton] at hx; subst hx; exact ⟨ho, rfl⟩⟩
        · exact ih1 sg hsg

theorem parentOK_section (ch : Choices) (hosc : ch.osc = true) (op : Nat) (o : Object) (h : XObjOK o) (hop : opOfObj o = op) :
    ParentOK ch (sectionCtx op) o := by
  cases o <;> first
    | (simp only [ParentOK, parentCtx, specOpts, hosc, if_true]; rw [← hop]; rfl)
    | exact absurd h (by simp [XObjOK])

theorem section_run_ev (ch : Choices) (wsE : Nat → List Ev) (hws : WsOnly wsE) (hosc : ch.osc = true) (op : Nat)
    (hop : op = 1 ∨ op = 2 ∨ op = 3) (grp : List Object) (hne : grp ≠ []) (hgrp : ∀ o ∈ grp, XObjOK o ∧ opOfObj o = op)
    (tl : List Ev) (st : RSt) (hs : st.stack = [Ctx.osmChange]) (hc : st.cur = none) (hct : st.commentText = [])
    (hcp : st.commentPending = false) :
    runEvents {} (elEvs ch wsE 1 (opName op) [] (grp.map (objectEvs ch wsE 2)) ++ tl) st =
      runEvents {} tl (seqResult (specOpts ch) grp st) := by
  have hnt : NoText st := by unfold NoText; rw [hs]; simp
  have hopen : startElement {} st (opName op) (OplFmt.OplSpec.pick ch.attrOrder []) = .ok (markDone (push st (sectionCtx op))) := by
    rw [xpick_nil]
    rcases hop with rfl | rfl | rfl <;>
      simp (config := { decide := true }) [startElement, hs, dataLevel, sectionCtx]
  obtain ⟨m1, m2, m3, _, m5⟩ := markDone_fields (push st (sectionCtx op))
  have hs1 : (markDone (push st (sectionCtx op))).stack = sectionCtx op :: [Ctx.osmChange] := by
    rw [m1]; simp [push, hs]
  rw [run_open ch wsE hws 1 _ _ _ tl st _ hnt hopen]
  rw [objs_run_ev ch wsE hws 2 (sectionCtx op) [Ctx.osmChange] _ grp
    (fun o ho => by
      have := (hgrp o ho).1
      cases o <;> first | exact this | exact absurd this (by simp [XObjOK]))
    (fun o ho => parentOK_section ch hosc op o (hgrp o ho).1 (hgrp o ho).2) _ hs1 (m2.trans hc) (m3.trans hct) (m5.trans hcp)]
  obtain ⟨f1, f2, f3, f4⟩ := seqResult_fields (specOpts ch) grp (markDone (push st (sectionCtx op)))
  have hnt2 : NoText (seqResult (specOpts ch) grp (markDone (push st (sectionCtx op)))) := by
    unfold NoText; rw [f1, hs1]; unfold sectionCtx; rcases hop with rfl | rfl | rfl <;> simp
  rw [run_chars _ _ _ (allChars_if hws _ _) hnt2, run_stop]
  have hclose : endElement {} (seqResult (specOpts ch) grp (markDone (push st (sectionCtx op)))) =
      .ok (seqResult (specOpts ch) grp st) := by
    rcases st with ⟨stack, header, version, headerOut, cur, out, ct⟩
    simp only at hs
    subst hs
    cases grp with
    | nil => exact absurd rfl hne
    | cons g gs =>
      unfold sectionCtx
      rcases hop with rfl | rfl | rfl <;> cases headerOut <;> simp [endElement, seqResult, markDone, push]
  rw [hclose]
  rfl

theorem sections_run_ev (ch : Choices) (wsE : Nat → List Ev) (hws : WsOnly wsE) (hosc : ch.osc = true) (tl : List Ev) :
    ∀ (S : List (Nat × List Object)) (_ : SecOK S) (st : RSt), st.stack = [Ctx.osmChange] → st.cur = none →
      st.commentText = [] → st.commentPending = false →
      runEvents {} ((S.map fun (x : Nat × List Object) => elEvs ch wsE 1 (opName x.1) [] (x.2.map (objectEvs ch wsE 2))).flatten ++ tl) st =
        runEvents {} tl (seqResult (specOpts ch) (S.flatMap Prod.snd) st) := by
  intro S
  induction S with
  | nil => intro _ st _ _ _ _; rw [List.flatMap_nil, seqResult_nil]; rfl
  | cons sg S ih =>
    intro hS st hs hc hct hcp
    obtain ⟨h1, h2, h3⟩ := hS sg (by simp)
    simp only [List.map_cons, List.flatten_cons, List.append_assoc, List.flatMap_cons]
    rw [section_run_ev ch wsE hws hosc sg.1 h1 sg.2 h2 h3 _ st hs hc hct hcp]
    obtain ⟨f1, f2, f3, f4⟩ := seqResult_fields (specOpts ch) sg.2 st
    rw [ih (fun x hx => hS x (by simp [hx])) _ (f1.trans hs) (f2.trans hc) (f3.trans hct) (f4.trans hcp), seqResult_append]

/-! ### the root element and the whole document -/

theorem root_start_spec (ch : Choices) (g : Bytes) :
    startElement {} {} (rootName (specOpts ch))
      (OplFmt.OplSpec.pick ch.attrOrder [("version", bVersion), ("generator", g)]) = .ok (stRoot (specOpts ch) g) := by
  have hp : ∀ st1, topAttrs (OplFmt.OplSpec.pick ch.attrOrder [("version", bVersion), ("generator", g)]) st1 =
      topAttrs [("version", bVersion), ("generator", g)] st1 := fun st1 =>
    topAttrs_pick _ _ (by simp (config := { decide := true })) (by
      intro a ha
      simp only [List.mem_cons, List.not_mem_nil, or_false] at ha
      rcases ha with rfl | rfl <;> simp (config := { decide := true }) [topGood]) st1
  have hco : (specOpts ch).changeOps = ch.osc := rfl
  cases hc : ch.osc <;>
    simp (config := { decide := true }) [startElement, rootName, rootCtx, stRoot, hco, hc, push, hp, topAttrs]

theorem flatten_if {α : Type} (l : List (List α)) (w : List α) :
    (if l.isEmpty then [] else l.flatten ++ w) = l.flatten ++ (if l.isEmpty then [] else w) := by
  cases l <;> simp

theorem parentOK_plain (ch : Choices) (hosc : ch.osc = false) (o : Object) : ParentOK ch Ctx.osm o := by
  cases o <;> simp [ParentOK, parentCtx, specOpts, hosc, TopParent]

/-- **Reader half of `xml_decode_spec`**: the reader on the event stream of ANY spec-rendered document
    (any attribute order, metadata defaults written or omitted, `visible` attributes or not, tags before
    or after the nd / member children, plain file or change file with sections, any white space
    between the elements) returns the header and the objects as far as the format carries them. -/
theorem renderEvs_read (ch : Choices) (wsE : Nat → List Ev) (hws : WsOnly wsE) (h : Header) (objs : List Object)
    (hh : XHeaderOK h) (hall : ∀ obj ∈ objs, XObjOK2 obj)
    (hosc : ch.osc = true → ∀ obj ∈ objs, isChangeset obj = false) :
    XmlFmt.read {} (renderEvs ch wsE h objs) =
      .ok (projectHeader (specOpts ch) h, objs.map (XmlFmt.project (specOpts ch))) := by
  let o := specOpts ch
  have hroot : rootCtx o = .osm ∨ rootCtx o = .osmChange := by unfold rootCtx; cases o.changeOps <;> simp
  -- the state after the header
  let stB : RSt := { stRoot o h.generator with
    header := { (stRoot o h.generator).header with boxes := (stRoot o h.generator).header.boxes ++ h.boxes.map normBox } }
  have hsB : stB.stack = [rootCtx o] := rfl
  -- the body
  have hbody : ∀ tl, runEvents {} ((if ch.osc then (sections objs).map fun (op, grp) =>
          elEvs ch wsE 1 (opName op) [] (grp.map (objectEvs ch wsE 2)) else objs.map (objectEvs ch wsE 1)).flatten ++ tl) stB =
      runEvents {} tl (seqResult o objs stB) := by
    intro tl
    cases hc : ch.osc
    · simp only [Bool.false_eq_true, if_false]
      have hs : stB.stack = Ctx.osm :: [] := by rw [hsB]; simp [rootCtx, o, specOpts, hc]
      exact objs_run_ev ch wsE hws 1 Ctx.osm [] tl objs hall (fun ob _ => parentOK_plain ch hc ob) stB hs rfl rfl rfl
    · simp only [if_true]
      have hs : stB.stack = [Ctx.osmChange] := by rw [hsB]; simp [rootCtx, o, specOpts, hc]
      obtain ⟨s1, s2⟩ := sections_ok objs (fun ob hob => xobjOK_of ob (hall ob hob) (hosc hc ob hob))
      have := sections_run_ev ch wsE hws hc tl (sections objs) s1 stB hs rfl rfl rfl
      rw [s2] at this
      exact this
  -- the end tag
  let r0 := seqResult o objs stB
  have hst0 : r0.stack = [rootCtx o] := (seqResult_fields o objs stB).1.trans hsB
  have hend : endElement {} r0 = .ok { markDone r0 with stack := [] } := by
    generalize r0 = r at hst0
    rcases r with ⟨stack, header, version, headerOut, cur, out, ct⟩
    simp only at hst0; subst hst0
    rcases hroot with h' | h' <;> rw [h'] <;> cases headerOut <;> simp [endElement, markDone]
  have hnt0 : NoText r0 := by unfold NoText; rw [hst0]; rcases hroot with h' | h' <;> rw [h'] <;> simp
  have hrun : runEvents {} (renderEvs ch wsE h objs) {} = .ok { markDone r0 with stack := [] } := by
    unfold renderEvs
    simp only []
    rw [flatten_if, run_start]
    have e1 : (if ch.osc then "osmChange" else "osm") = rootName o := by
      simp [rootName, o, specOpts]
    rw [e1, root_start_spec ch h.generator]
    simp only [bindE_ok, List.flatten_append, List.append_assoc]
    have hb := bounds_run_ev ch wsE hws h.boxes hh.2 (rootCtx o) hroot
    have e2 : (h.boxes.map fun (x : Location × Location) =>
        match x with
        | (bl, tr) => elEvs ch wsE 1 "bounds" (latLon "minlat" "minlon" bl ++ latLon "maxlat" "maxlon" tr) []) =
        h.boxes.map fun (x : Location × Location) =>
          elEvs ch wsE 1 "bounds" (latLon "minlat" "minlon" x.1 ++ latLon "maxlat" "maxlon" x.2) [] := by
      apply List.map_congr_left
      intro x _
      obtain ⟨bl, tr⟩ := x
      rfl
    rw [e2, hb _ (stRoot o h.generator) rfl, hbody, run_chars _ _ _ (allChars_if hws _ _) hnt0, run_stop, hend]
    rfl
  unfold XmlFmt.read
  rw [hrun]
  simp only [bindE_ok]
  have hres : (markDone ({ markDone r0 with stack := [] } : RSt)).headerOut.getD (markDone ({ markDone r0 with stack := [] } : RSt)).header
        = projectHeader o h ∧
      (markDone ({ markDone r0 with stack := [] } : RSt)).out.reverse = objs.map (project o) := by
    rw [projectHeader_eq]
    cases objs <;> simp [r0, stB, seqResult, markDone, stRoot]
  rw [hres.1, hres.2]

end Osmium.XmlFmt.XmlSpec
