/-
Lemmas for C08, part 5: FIFO conservation of the output queue — what the write thread wrote
is exactly what was handed over before the first terminator.  Core-only.
-/
import Osmium.Lemmas.WriterSMSteps

namespace Osmium.WriterSM

variable {κ : Type} {cfg : Cfg κ}

theorem map_res_set_ready {q : List Item} {i : Nat} {it : Item} (h : q[i]? = some it) :
    (q.set i (setReady it)).map Item.res = q.map Item.res := by
  induction q generalizing i with
  | nil => simp at h
  | cons x xs ih =>
    cases i with
    | zero => simp at h; subst h; simp [List.set, setReady]
    | succ j => simp at h; simp [List.set, ih h]

/-- `pushed` = every push attempt (ghost), `taken` = futures the write thread took out,
    `written` = blocks the compressor accepted -/
structure QInv (s : St κ) : Prop where
  /-- while the queue is in use nothing is lost: FIFO -/
  fifo : s.inUse = true → s.pushed = s.taken ++ s.q.map Item.res
  /-- after shutdown the attempts still start with what was taken -/
  prefix_ : s.taken <+: s.pushed
  /-- the write thread only runs its loop on a queue in use -/
  loopInUse : (s.wpc = .pop ∨ ∃ it, s.wpc = .got it) → s.inUse = true
  atPop : s.wpc = .pop → s.taken = s.written.map Res.data
  atGot : ∀ it, s.wpc = .got it → s.taken = s.written.map Res.data ++ [it.res]
  /-- a fulfilled promise means: everything taken was data, then one end-of-data marker -/
  atOk : ∀ n, s.promise = some (.ok n) → s.taken = s.written.map Res.data ++ [Res.data []]
  atClosing : s.wpc = .closing → s.taken = s.written.map Res.data ++ [Res.data []]
  /-- the promise is still empty while the loop runs or the compressor is being closed -/
  noPromise : (s.wpc = .pop ∨ (∃ it, s.wpc = .got it) ∨ s.wpc = .closing) → s.promise = none
  /-- only non-empty blocks are handed to the compressor -/
  writtenNe : ∀ b ∈ s.written, b ≠ []

theorem qInv_prod {s s' : St κ} (h : QInv s) (hs : ProdStep cfg s s') : QInv s' := by
  obtain ⟨h1, h2, h3, h4, h5, h6, h7, h8, h9⟩ := h
  cases hs with
  | pushDropped a rest it hc hcode hu =>
    refine ⟨?_, ?_, h3, h4, h5, h6, h7, h8, h9⟩ <;> dsimp only
    · intro hu'; rw [hu] at hu'; cases hu'
    · obtain ⟨t, ht⟩ := h2; exact ⟨t ++ [it.res], by rw [← List.append_assoc, ht]⟩
  | pushDone a rest it hc hcode hu hroom =>
    refine ⟨?_, ?_, h3, h4, h5, h6, h7, h8, h9⟩ <;> dsimp only
    · intro _; rw [h1 hu]; simp
    · obtain ⟨t, ht⟩ := h2; exact ⟨t ++ [it.res], by rw [← List.append_assoc, ht]⟩
  | _ => exact ⟨h1, h2, h3, h4, h5, h6, h7, h8, h9⟩

theorem qInv_worker {s s' : St κ} (h : QInv s) (hs : WorkerStep s s') : QInv s' := by
  obtain ⟨h1, h2, h3, h4, h5, h6, h7, h8, h9⟩ := h
  cases hs with
  | held it hw hr =>
    refine ⟨h1, h2, ?_, ?_, ?_, h6, ?_, ?_, h9⟩ <;> dsimp only
    · intro _; exact h3 (.inr ⟨it, hw⟩)
    · intro hx; cases hx
    · intro it' hx; simp at hx; subst hx; exact h5 it hw
    · intro hx; cases hx
    · intro _; exact h8 (.inr (.inl ⟨it, hw⟩))
  | queued i it hq hr =>
    refine ⟨?_, h2, h3, h4, h5, h6, h7, h8, h9⟩
    dsimp only
    intro hu; rw [map_res_set_ready hq]; exact h1 hu

theorem qInv_wt {s s' : St κ} (h : QInv s) (hs : WtStep cfg s s') : QInv s' := by
  obtain ⟨h1, h2, h3, h4, h5, h6, h7, h8, h9⟩ := h
  cases hs with
  | popShutdown hw hu =>
    have := h3 (.inl hw); rw [hu] at this; cases this
  | take it rest hw hu hq =>
    have hp := h8 (.inl hw)
    refine ⟨?_, ?_, ?_, ?_, ?_, ?_, ?_, ?_, h9⟩ <;> dsimp only
    · intro _; rw [h1 hu, hq]; simp
    · rw [h1 hu, hq]; exact ⟨rest.map Item.res, by simp⟩
    · intro _; exact hu
    · intro hx; cases hx
    · intro it' hx; simp at hx; subst hx; rw [h4 hw]
    · intro n hn; rw [hp] at hn; cases hn
    · intro hx; cases hx
    · intro _; exact hp
  | getExc it e hw hr hres =>
    have hp := h8 (.inr (.inl ⟨it, hw⟩))
    refine ⟨h1, h2, ?_, ?_, ?_, ?_, ?_, ?_, h9⟩ <;> dsimp only
    · intro hx; rcases hx with hx | ⟨_, hx⟩ <;> cases hx
    · intro hx; cases hx
    · intro _ hx; cases hx
    · intro n hn; rw [hp] at hn; cases hn
    · intro hx; cases hx
    · intro hx; rcases hx with hx | ⟨_, hx⟩ | hx <;> cases hx
  | getEnd it hw hr hres =>
    have hp := h8 (.inr (.inl ⟨it, hw⟩))
    refine ⟨?_, h2, ?_, ?_, ?_, ?_, ?_, ?_, h9⟩ <;> dsimp only [shutdownQ]
    · intro hx; cases hx
    · intro hx; rcases hx with hx | ⟨_, hx⟩ <;> cases hx
    · intro hx; cases hx
    · intro _ hx; cases hx
    · intro n hn; rw [hp] at hn; cases hn
    · intro _; rw [h5 it hw, hres]
    · intro _; exact hp
  | writeOk it b bs k' os' hw hr hres hcw =>
    have hp := h8 (.inr (.inl ⟨it, hw⟩))
    refine ⟨h1, h2, ?_, ?_, ?_, ?_, ?_, ?_, ?_⟩ <;> dsimp only
    · intro _; exact h3 (.inr ⟨it, hw⟩)
    · intro _; rw [h5 it hw, hres]; simp
    · intro _ hx; cases hx
    · intro n hn; rw [hp] at hn; cases hn
    · intro hx; cases hx
    · intro _; exact hp
    · intro x hx
      rcases List.mem_append.mp hx with hx | hx
      · exact h9 x hx
      · simp at hx; subst hx; simp
  | writeFail it b bs e k' os' hw hr hres hcw =>
    have hp := h8 (.inr (.inl ⟨it, hw⟩))
    refine ⟨h1, h2, ?_, ?_, ?_, ?_, ?_, ?_, h9⟩ <;> dsimp only
    · intro hx; rcases hx with hx | ⟨_, hx⟩ <;> cases hx
    · intro hx; cases hx
    · intro _ hx; cases hx
    · intro n hn; rw [hp] at hn; cases hn
    · intro hx; cases hx
    · intro hx; rcases hx with hx | ⟨_, hx⟩ | hx <;> cases hx
  | closeOk k' os' hw hcc =>
    refine ⟨h1, h2, ?_, ?_, ?_, ?_, ?_, ?_, h9⟩ <;> dsimp only
    · intro hx; rcases hx with hx | ⟨_, hx⟩ <;> cases hx
    · intro hx; cases hx
    · intro _ hx; cases hx
    · intro n _; exact h7 hw
    · intro hx; cases hx
    · intro hx; rcases hx with hx | ⟨_, hx⟩ | hx <;> cases hx
  | closeFail e k' os' hw hcc =>
    have hp := h8 (.inr (.inr hw))
    refine ⟨h1, h2, ?_, ?_, ?_, ?_, ?_, ?_, h9⟩ <;> dsimp only
    · intro hx; rcases hx with hx | ⟨_, hx⟩ <;> cases hx
    · intro hx; cases hx
    · intro _ hx; cases hx
    · intro n hn; rw [hp] at hn; cases hn
    · intro hx; cases hx
    · intro hx; rcases hx with hx | ⟨_, hx⟩ | hx <;> cases hx
  | fail1 e hw =>
    refine ⟨h1, h2, ?_, ?_, ?_, h6, ?_, ?_, h9⟩ <;> dsimp only
    · intro hx; rcases hx with hx | ⟨_, hx⟩ <;> cases hx
    · intro hx; cases hx
    · intro _ hx; cases hx
    · intro hx; cases hx
    · intro hx; rcases hx with hx | ⟨_, hx⟩ | hx <;> cases hx
  | fail2 e hw =>
    refine ⟨h1, h2, ?_, ?_, ?_, ?_, ?_, ?_, h9⟩ <;> dsimp only
    · intro hx; rcases hx with hx | ⟨_, hx⟩ <;> cases hx
    · intro hx; cases hx
    · intro _ hx; cases hx
    · intro n hn; simp at hn
    · intro hx; cases hx
    · intro hx; rcases hx with hx | ⟨_, hx⟩ | hx <;> cases hx
  | fail3 hw =>
    refine ⟨?_, h2, ?_, ?_, ?_, h6, ?_, ?_, h9⟩ <;> dsimp only [shutdownQ]
    · intro hx; cases hx
    · intro hx; rcases hx with hx | ⟨_, hx⟩ <;> cases hx
    · intro hx; cases hx
    · intro _ hx; cases hx
    · intro hx; cases hx
    · intro hx; rcases hx with hx | ⟨_, hx⟩ | hx <;> cases hx
  | dtor hw =>
    refine ⟨?_, h2, ?_, ?_, ?_, h6, ?_, ?_, h9⟩ <;> dsimp only [shutdownQ]
    · intro hx; cases hx
    · intro hx; rcases hx with hx | ⟨_, hx⟩ <;> cases hx
    · intro hx; cases hx
    · intro _ hx; cases hx
    · intro hx; cases hx
    · intro hx; rcases hx with hx | ⟨_, hx⟩ | hx <;> cases hx

theorem qInv_init {k0 : κ} {os0 : OS} (script : List Api) : QInv (initSt k0 os0 script) := by
  refine ⟨fun _ => rfl, ⟨[], rfl⟩, fun _ => rfl, fun _ => rfl, ?_, ?_, ?_, fun _ => rfl, ?_⟩
  · intro it h; cases h
  · intro n h; cases h
  · intro h; cases h
  · intro b hb; simp [initSt] at hb

end Osmium.WriterSM

namespace Osmium.WriterSM

open Osmium.Mon

theorem pickEv_step {κ : Type} {cfg : Cfg κ} {b : Bool} {s s' : St κ} {e : Ev}
    (h : pickEv cfg b s = some (e, s')) : step? cfg s e = some s' := by
  unfold pickEv at h
  obtain ⟨e0, _, he⟩ := List.exists_of_findSome?_eq_some h
  cases hs : step? cfg s e0 with
  | none => rw [hs] at he; cases he
  | some s1 =>
    rw [hs] at he
    simp at he
    obtain ⟨rfl, rfl⟩ := he
    exact hs

theorem runSched_reachable {κ : Type} {cfg : Cfg κ} {k0 : κ} {os0 : OS} {script : List Api} (b : Bool) :
    ∀ (n : Nat) (s : St κ), (machine cfg k0 os0 script).Reachable s →
      (machine cfg k0 os0 script).Reachable (runSched cfg b n s).2 := by
  intro n
  induction n with
  | zero => intro s hs; exact hs
  | succ k ih =>
    intro s hs
    unfold runSched
    cases hp : pickEv cfg b s with
    | none => exact hs
    | some r =>
      obtain ⟨e, s'⟩ := r
      simp only []
      exact ih s' (.step hs (pickEv_step hp))

theorem qInv_reachable {κ : Type} {cfg : Cfg κ} {k0 : κ} {os0 : OS} {script : List Api} {s : St κ}
    (hr : (machine cfg k0 os0 script).Reachable s) : QInv s :=
  Machine.invariant (machine cfg k0 os0 script) QInv (qInv_init script)
    (fun _ e _ _ hi hs => by
      cases e with
      | prod => exact qInv_prod hi (stepProd_cases hs)
      | wt => exact qInv_wt hi (stepWt_cases hs)
      | worker i => exact qInv_worker hi (stepWorker_cases hs)) s hr

theorem split_at_first_empty : ∀ (xs ys : List Bytes) (tail : List Res),
    (∀ b ∈ xs, b ≠ []) → (∀ b ∈ ys, b ≠ []) →
    xs.map Res.data ++ [Res.data []] = ys.map Res.data ++ Res.data [] :: tail → xs = ys := by
  intro xs
  induction xs with
  | nil =>
    intro ys tail _ hy h
    cases ys with
    | nil => rfl
    | cons y ys => simp at h
  | cons x xs ih =>
    intro ys tail hx hy h
    cases ys with
    | nil =>
      simp at h
      exact absurd h.1 (hx x (by simp))
    | cons y ys =>
      simp at h
      obtain ⟨rfl, h⟩ := h
      rw [ih ys tail (fun b hb => hx b (List.mem_cons_of_mem _ hb))
        (fun b hb => hy b (List.mem_cons_of_mem _ hb)) (by simpa using h)]

end Osmium.WriterSM
