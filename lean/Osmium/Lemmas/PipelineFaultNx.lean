/-
C05 under a blob-decode fault, part Nx: the blob counter of the parser thread.  In a PBF run
`next` is the start of blob `blob`; a non-PBF run never touches `blob`; with inline decoding the
parser never gets past the faulty blob.
-/
import Osmium.Lemmas.PipelineFaultDefs
import Osmium.Lemmas.PipelineOrderA

namespace Osmium.Pipeline.Fault

open Osmium.Mon Osmium.Pipeline Osmium.Pipeline.Order

variable {α : Type} [DecidableEq α]

section fields
omit [DecidableEq α]
@[simp] theorem afterPop_blob (s : State α) (lv : List (List α)) : (afterPop s lv).blob = s.blob := by
  unfold afterPop; split <;> (try split) <;> rfl
@[simp] theorem afterClose_blob (s : State α) (k : CK) : (afterClose s k).blob = s.blob := by cases k <;> rfl
end fields

structure InvNx (c : Cfg α) (s : State α) : Prop where
  nopbf : c.pbf = false → s.blob = 0
  le : s.blob ≤ c.blobEnd.length
  next : c.pbf = true → s.next = blobStart c s.blob
  inl : c.usePool = false → ∀ b, c.blobFault = some b → s.blob ≤ b

set_option maxHeartbeats 1600000 in
theorem invNx (c : Cfg α) : ∀ s, (machine c).Reachable s → InvNx c s := by
  apply Machine.invariant
  · constructor <;> simp [machine, init, blobStart]
  · intro s e s' hr ih hst
    obtain ⟨h1, h2, h3, h4⟩ := ih
    po_cases e with hst q hq
    all_goals constructor
    all_goals first
      | assumption
      | (simp only [afterPop_blob, afterClose_blob, afterPop_next, afterClose_next]; assumption)
      | (simp_all [blobStart]; done)
      | (simp only [blobStart] at *; grind)

/-- only `pBlob` moves the blob counter -/
theorem blob_frame (c : Cfg α) (s s' : State α) (e : Ev α) (hst : (machine c).Step s e s')
    (he : ∀ sp, e ≠ .pBlob sp) : s'.blob = s.blob := by
  po_cases e with hst q hq
  all_goals first
    | rfl
    | (simp only [afterPop_blob, afterClose_blob]; done)
    | (exfalso; exact he _ rfl)

end Osmium.Pipeline.Fault
