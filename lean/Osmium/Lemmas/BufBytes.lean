/-
C04: byte-level facts about the size fields — what `writeAt` / `setLE` / `addSizeAt` /
`addSizeChain` do to a little-endian u32 read at some offset.
-/
import Osmium.Lemmas.BufLaws

namespace Osmium.Buf

open Osmium.Layout

theorem leBytes_len (v n : Nat) : (leBytes v n).length = n := by
  induction n generalizing v with
  | zero => rfl
  | succ n ih => simp [leBytes, ih]

theorem leBytesInt_len (v : Int) (n : Nat) : (leBytesInt v n).length = n := by
  unfold leBytesInt; exact leBytes_len _ _

theorem zeros_len (n : Nat) : (zeros n).length = n := by simp [zeros]

/-- `writeAt` changes nothing outside `[off, off + d.length)` -/
theorem writeAt_getElem?_out (d : Bytes) : ∀ (l : Bytes) (off j : Nat), (j < off ∨ off + d.length ≤ j) →
    (writeAt l off d)[j]? = l[j]? := by
  induction d with
  | nil => intro l off j _; rfl
  | cons x xs ih =>
    intro l off j h
    simp only [writeAt]
    rw [ih _ _ _ (by simp only [List.length_cons] at h; omega)]
    rw [List.getElem?_set_ne]
    simp only [List.length_cons] at h; omega

/-- inside the written range (and inside the list) `writeAt` delivers the data -/
theorem writeAt_getElem?_in (d : Bytes) : ∀ (l : Bytes) (off i : Nat), i < d.length → off + i < l.length →
    (writeAt l off d)[off + i]? = d[i]? := by
  induction d with
  | nil => intro l off i h; simp at h
  | cons x xs ih =>
    intro l off i hi hl
    simp only [writeAt]
    cases i with
    | zero =>
      simp only [Nat.add_zero] at hl ⊢
      rw [writeAt_getElem?_out _ _ _ _ (Or.inl (Nat.lt_succ_self off))]
      simp [List.getElem?_set_self hl]
    | succ i =>
      have := ih (l.set off x) (off + 1) i (by simp only [List.length_cons] at hi; omega) (by simp; omega)
      have e : off + (i + 1) = off + 1 + i := by omega
      rw [e, this]; simp

theorem leAt_writeAt_out (l : Bytes) (off : Nat) (d : Bytes) (o n : Nat) (h : o + n ≤ off ∨ off + d.length ≤ o) :
    leAt (writeAt l off d) o n = leAt l o n := by
  apply leAt_congr
  intro i hi
  exact writeAt_getElem?_out d l off (o + i) (by omega)

theorem leAt_append_left (l x : Bytes) (o n : Nat) (h : o + n ≤ l.length) : leAt (l ++ x) o n = leAt l o n := by
  apply leAt_congr
  intro i hi
  exact List.getElem?_append_left (by omega)

theorem leAt_leBytes0 (v n : Nat) : leAt (leBytes v n) 0 n = v % 256 ^ n := by
  induction n generalizing v with
  | zero => simp [leAt, Nat.mod_one]
  | succ n ih =>
    simp only [leAt, leBytes]
    have hc : ∀ (a : UInt8) (l : Bytes) (i m : Nat), leAt (a :: l) (i + 1) m = leAt l i m := by
      intro a l i m
      induction m generalizing i with
      | zero => rfl
      | succ m ihm => simp only [leAt]; rw [ihm]; simp [byteAt]
    rw [hc, ih]
    have e : 256 ^ (n + 1) = 256 * 256 ^ n := by rw [Nat.pow_succ, Nat.mul_comm]
    rw [e, Nat.mod_mul]
    simp only [byteAt, List.getD_cons_zero, UInt8.toNat_ofNat']
    omega

/-- reading back what `writeAt` wrote (fully inside the list) -/
theorem leAt_writeAt_same (l : Bytes) (off : Nat) (d : Bytes) (h : off + d.length ≤ l.length) :
    leAt (writeAt l off d) off d.length = leAt d 0 d.length := by
  apply leAt_congr
  intro i hi
  rw [writeAt_getElem?_in d l off i hi (by omega)]
  simp

theorem u32At_setLE_same (p : Pend) (off v : Nat) (h : off + 4 ≤ p.length) :
    u32At (setLE p off v 4) off = v % 4294967296 := by
  unfold u32At setLE
  have := leAt_writeAt_same p off (leBytes v 4) (by rw [leBytes_len]; exact h)
  rw [leBytes_len] at this
  rw [this, leAt_leBytes0]

theorem u32At_setLE_other (p : Pend) (off v n o : Nat) (h : o + 4 ≤ off ∨ off + n ≤ o) :
    u32At (setLE p off v n) o = u32At p o := by
  unfold u32At setLE
  exact leAt_writeAt_out p off _ o 4 (by rw [leBytes_len]; exact h)

theorem u32At_writeAt_out (l : Bytes) (off : Nat) (d : Bytes) (o : Nat) (h : o + 4 ≤ off ∨ off + d.length ≤ o) :
    u32At (writeAt l off d) o = u32At l o := leAt_writeAt_out l off d o 4 h

theorem u32At_append_left (l x : Bytes) (o : Nat) (h : o + 4 ≤ l.length) : u32At (l ++ x) o = u32At l o :=
  leAt_append_left l x o 4 h

theorem u32At_addSizeAt_same (o n : Nat) (p : Pend) (h : o + 4 ≤ p.length) :
    u32At (addSizeAt o n p) o = (u32At p o + n) % 4294967296 := u32At_setLE_same p o _ h

theorem u32At_addSizeAt_other (o' n : Nat) (p : Pend) (o : Nat) (h : o + 4 ≤ o' ∨ o' + 4 ≤ o) :
    u32At (addSizeAt o' n p) o = u32At p o := u32At_setLE_other p o' _ 4 o h

theorem addSizeChain_cons (o : Nat) (offs : List Nat) (n : Nat) (p : Pend) :
    addSizeChain (o :: offs) n p = addSizeChain offs n (addSizeAt o n p) := rfl

/-- a u32 away from every offset of the chain is untouched -/
theorem u32At_addSizeChain_other (offs : List Nat) (n : Nat) (p : Pend) (o : Nat)
    (h : ∀ o' ∈ offs, o + 4 ≤ o' ∨ o' + 4 ≤ o) : u32At (addSizeChain offs n p) o = u32At p o := by
  induction offs generalizing p with
  | nil => rfl
  | cons o1 rest ih =>
    rw [addSizeChain_cons, ih _ (fun o' ho' => h o' (List.mem_cons_of_mem _ ho'))]
    exact u32At_addSizeAt_other o1 n p o (h o1 List.mem_cons_self)

/-- offsets of a builder stack, top first: strictly descending by at least 8, all headers inside `[0, ub)` -/
def Desc : Nat → List Nat → Prop
  | _, [] => True
  | ub, o :: rest => o + 8 ≤ ub ∧ Desc o rest

theorem desc_mono {ub ub' : Nat} {offs : List Nat} (h : Desc ub offs) (hle : ub ≤ ub') : Desc ub' offs := by
  cases offs with
  | nil => trivial
  | cons o rest => exact ⟨Nat.le_trans h.1 hle, h.2⟩

theorem desc_mem {ub : Nat} {offs : List Nat} (h : Desc ub offs) : ∀ o ∈ offs, o + 8 ≤ ub := by
  induction offs generalizing ub with
  | nil => intro o ho; cases ho
  | cons o1 rest ih =>
    intro o ho
    rcases List.mem_cons.1 ho with rfl | ho'
    · exact h.1
    · have := ih h.2 o ho'; have := h.1; omega

/-- every size field of the chain grows by `n` (uint32 arithmetic) -/
theorem u32At_addSizeChain_mem (offs : List Nat) (n : Nat) (p : Pend) (ub : Nat) (hd : Desc ub offs)
    (hub : ub ≤ p.length) (o : Nat) (ho : o ∈ offs) :
    u32At (addSizeChain offs n p) o = (u32At p o + n) % 4294967296 := by
  induction offs generalizing p ub with
  | nil => cases ho
  | cons o1 rest ih =>
    rw [addSizeChain_cons]
    rcases List.mem_cons.1 ho with rfl | ho'
    · rw [u32At_addSizeChain_other]
      · exact u32At_addSizeAt_same o n p (by have := hd.1; omega)
      · intro o' ho'
        have := desc_mem hd.2 o' ho'
        omega
    · rw [ih _ o1 hd.2 (by simp; have := hd.1; omega) ho']
      have hlt := desc_mem hd.2 o ho'
      rw [u32At_addSizeAt_other o1 n p o (by omega)]

end Osmium.Buf
