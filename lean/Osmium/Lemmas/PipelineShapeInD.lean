/-
Input side of the shape invariants, part D: FIFO of the input queue in pipeline terms (`invPre`):
the futures handed out to the parser are a PREFIX of the futures handed to push(), in call order;
a future the parser holds was popped.
-/
import Osmium.Lemmas.PipelineShapeInB
import Osmium.Lemmas.PipelineShapeInC

set_option linter.unusedSimpArgs false
set_option linter.unusedVariables false

namespace Osmium.Pipeline.ShapeIn

open Osmium.Mon Osmium.Pipeline

variable {α : Type} [DecidableEq α]

section queue
variable {β : Type} [DecidableEq β]

/-- everything enqueued or in flight was passed to push() -/
theorem q_mem_called (qc : QueueSM.Cfg) : ∀ s, (QueueSM.machine β qc).Reachable s →
    (∀ x ∈ s.pushed, x ∈ s.called) ∧ (∀ t, ∀ x ∈ QueueSM.inflight s t, x ∈ s.called) := by
  apply Machine.invariant
  · simp [QueueSM.machine, QueueSM.init, QueueSM.inflight, QueueSM.carry]
  · intro s e s' _ ih hst
    obtain ⟨ih1, ih2⟩ := ih
    qsm_cases e with hst tid t <;> refine ⟨?_, fun u => ?_⟩ <;>
      simp only [QueueSM.inflight, setPc_apply, QueueSM.take_pc, QueueSM.take_called, QueueSM.take_pushed] <;>
      (try (have ih2t := ih2 t)) <;> (try (have ih2u := ih2 u)) <;>
      simp only [QueueSM.inflight] at * <;>
      (try (by_cases hut : u = t)) <;> (try subst hut) <;> simp_all [QueueSM.carry] <;> grind

/-- single producer `p`, queue in use: handed out, then queued, then in flight = the push() calls in order -/
theorem q_prefix (qc : QueueSM.Cfg) (s : QueueSM.State β) (h : (QueueSM.machine β qc).Reachable s)
    (hu : s.inUse = true) (p : Tid) (hp : ∀ x ∈ s.called, x.1 = p) :
    s.popped.map (fun x => x.2) ++ s.items ++ QueueSM.inflight s p = s.called := by
  have h1 := (QueueSM.inv_called qc s h hu).2 p
  have h2 : QueueSM.byProd p s.called = s.called := by
    unfold QueueSM.byProd; rw [List.filter_eq_self]; intro x hx; simp [hp x hx]
  have h3 : QueueSM.byProd p s.pushed = s.pushed := by
    unfold QueueSM.byProd; rw [List.filter_eq_self]; intro x hx
    simp [hp x ((q_mem_called qc s h).1 x hx)]
  rw [← h2, h1, h3, QueueSM.inv_cons qc s h, QueueSM.inv_popped qc s h hu]

omit [DecidableEq β] in
theorem pre_take (q : QueueSM.State β) (t : Tid) (rest : List (QueueSM.Item β))
    (h : q.popped.map (fun x => x.2) ++ q.items ++ rest = q.called) :
    (QueueSM.take q t).popped.map (fun x => x.2) <+: (QueueSM.take q t).called := by
  simp only [QueueSM.take_popped, QueueSM.take_called, List.map_append, QueueSM.map_snd_map_pair]
  rw [← h]
  cases q.items with
  | nil => simp
  | cons a l =>
    simp only [List.head?_cons, Option.toList_some, List.append_assoc, List.cons_append, List.nil_append]
    refine (List.prefix_append_right_inj _).mpr ?_
    exact ⟨l ++ rest, rfl⟩

end queue

structure InvPre (s : State α) : Prop where
  pre : s.inq.popped.map (fun p => p.2) <+: s.inq.called
  got : ∀ id, s.ppc = .got id → ∃ x ∈ s.inq.popped, x.2.2 = id

set_option maxHeartbeats 3200000 in
theorem invPre (c : Cfg α) : ∀ s, (machine c).Reachable s → InvPre s := by
  apply Machine.invariant
  · constructor <;> simp [machine, init, QueueSM.init]
  · intro s e s' hr ih hst
    have hK := invK c s hr
    have hN := (invN c s hr).n_ic
    have hpre : s.ppc = .popWait →
        s.inq.popped.map (fun x => x.2) ++ s.inq.items ++ QueueSM.inflight s.inq tR = s.inq.called := fun hp =>
      q_prefix c.inqC s.inq (Q.reachable_inq c s hr) (hK.k_m (.inl hp)).1 tR (fun x hx => (hN x hx).2.2)
    obtain ⟨h1, h2⟩ := ih
    si_cases e with hst
    all_goals (refine ⟨?_, ?_⟩ <;> first
      | assumption
      | (simp only [QueueSM.take_popped, QueueSM.take_called]; assumption)
      | (exact List.IsPrefix.trans h1 (List.prefix_append _ _))
      | (exact pre_take _ _ _ (hpre (by grind)))
      | (simp_all [QueueSM.take_popped] <;> grind)
      | skip)

end Osmium.Pipeline.ShapeIn
