/-
Helpers for Lemmas/XmlSpecTokStr.lean: `ByteArray.toList`, the decimal / hexadecimal digit strings of
`XmlSpec.charRef` and their value under `Xml.number` / `Xml.refValue`, one-step lemmas for the scanners
`tokAttrValue` / `tokText` (literal byte, reference) and the iteration over a list of pieces.
-/
import Osmium.Model.XmlFmt

namespace Osmium.XmlFmt.XmlSpec
open Osmium.Osm Osmium.XmlFmt

theorem ba_len (bs : ByteArray) : bs.data.toList.length = bs.size := Array.length_toList

theorem ba_loop (bs : ByteArray) : ∀ (k i : Nat) (r : List UInt8), bs.size - i = k → i ≤ bs.size →
    ByteArray.toList.loop bs i r = r.reverse ++ bs.data.toList.drop i := by
  intro k
  induction k with
  | zero =>
    intro i r hk hi
    rw [ByteArray.toList.loop, if_neg (by omega)]
    have := ba_len bs
    rw [List.drop_of_length_le (by omega), List.append_nil]
  | succ k ih =>
    intro i r hk hi
    rw [ByteArray.toList.loop, if_pos (by omega), ih (i+1) _ (by omega) (by omega)]
    have hl := ba_len bs
    have hi' : i < bs.data.toList.length := by omega
    rw [List.drop_eq_getElem_cons hi', List.reverse_cons, List.append_assoc]
    have hg : bs.get! i = bs.data.toList[i] := by
      cases bs with | mk d =>
      show d[i]! = d.toList[i]
      have : i < d.size := by simpa using hi'
      rw [getElem!_pos d i this, Array.getElem_toList]
    rw [hg]; rfl

theorem ba_toList (bs : ByteArray) : bs.toList = bs.data.toList := by
  have := ba_loop bs bs.size 0 [] (by omega) (by omega)
  rw [ByteArray.toList, this]; rfl

theorem utf8Encode_ascii : ∀ l : List Char, (∀ c ∈ l, c.utf8Size = 1) →
    l.utf8Encode.data.toList = l.map Char.toUInt8 := by
  intro l
  induction l with
  | nil => intro _; rfl
  | cons c l ih =>
    intro h
    rw [List.utf8Encode_cons, ByteArray.toList_data_append, ih (fun x hx => h x (by simp [hx])),
      List.utf8Encode_singleton, String.utf8EncodeChar_eq_singleton (h c (by simp)), List.toList_data_toByteArray]
    rfl

def digB (n : Nat) : UInt8 := UInt8.ofNat (0x30 + n)

theorem digitChar_digB : ∀ k, k < 10 → (Nat.digitChar k).toUInt8 = digB k := by decide

theorem decDigits_eq_map (n : Nat) : decDigits n = (Nat.toDigits 10 n).map Char.toUInt8 := by
  unfold decDigits
  rw [Nat.toString_eq_ofList_toDigits, String.toUTF8_eq_toByteArray, String.toByteArray_ofList, ba_toList]
  apply utf8Encode_ascii
  intro c hc
  have := Nat.isDigit_of_mem_toDigits (by omega) (by omega) hc
  simp only [Char.isDigit, Bool.and_eq_true, decide_eq_true_eq] at this
  rw [Char.utf8Size_eq_one_iff]
  exact UInt32.le_trans this.2 (by decide)

theorem decDigits_eq_if (n : Nat) :
    decDigits n = if n < 10 then [digB n] else decDigits (n / 10) ++ [digB (n % 10)] := by
  rw [decDigits_eq_map, decDigits_eq_map, Nat.toDigits_eq_if (by omega)]
  split
  · rename_i h; simp [digitChar_digB n h]
  · simp [digitChar_digB (n % 10) (Nat.mod_lt _ (by omega))]


theorem digB_toNat (k : Nat) (h : k < 10) : (digB k).toNat = 0x30 + k := by
  unfold digB; rw [UInt8.toNat_ofNat']; omega

theorem decDigits_digit (n : Nat) : ∀ b ∈ decDigits n, 0x30 ≤ b.toNat ∧ b.toNat ≤ 0x39 := by
  induction n using Nat.strongRecOn with
  | ind n ih =>
    intro b hb
    rw [decDigits_eq_if] at hb
    split at hb
    · simp only [List.mem_singleton] at hb; subst hb; rw [digB_toNat _ (by omega)]; omega
    · rcases List.mem_append.1 hb with hb | hb
      · exact ih (n / 10) (by omega) b hb
      · simp only [List.mem_singleton] at hb; subst hb; rw [digB_toNat _ (by omega)]; omega

theorem decDigits_ne_nil (n : Nat) : decDigits n ≠ [] := by
  rw [decDigits_eq_if]; split <;> simp

theorem number_snoc (b : Nat) (dv : Nat → Option Nat) (l : List Nat) (d a v : Nat) :
    ∀ acc, Xml.number b dv l acc = some a → dv d = some v → a * b + v < 0x110000 →
      Xml.number b dv (l ++ [d]) acc = some (a * b + v) := by
  induction l with
  | nil =>
    intro acc h hd hlt
    simp only [Xml.number] at h; cases h
    simp only [List.nil_append, Xml.number, hd]
    rw [if_neg (by omega)]
  | cons x l ih =>
    intro acc h hd hlt
    simp only [List.cons_append, Xml.number] at h ⊢
    cases hx : dv x with
    | none => rw [hx] at h; cases h
    | some w =>
      rw [hx] at h; simp only at h ⊢
      by_cases hc : acc * b + w ≥ 0x110000
      · rw [if_pos hc] at h; cases h
      · rw [if_neg hc] at h ⊢; exact ih _ h hd hlt

theorem decVal_digB (k : Nat) (h : k < 10) : Xml.decVal (digB k).toNat = some k := by
  rw [digB_toNat k h]; unfold Xml.decVal; rw [if_pos (by omega)]; congr 1; omega

theorem number_decDigits (n : Nat) (h : n < 0x110000) :
    Xml.number 10 Xml.decVal ((decDigits n).map (·.toNat)) 0 = some n := by
  induction n using Nat.strongRecOn with
  | ind n ih =>
    rw [decDigits_eq_if]
    split
    · rename_i hlt
      simp only [List.map_cons, List.map_nil, Xml.number, decVal_digB n hlt]
      rw [if_neg (by omega)]; simp
    · have := ih (n / 10) (by omega) (by omega)
      rw [List.map_append, List.map_cons, List.map_nil,
        number_snoc 10 Xml.decVal _ _ (n / 10) (n % 10) 0 this (decVal_digB _ (Nat.mod_lt _ (by omega))) (by omega)]
      congr 1; omega

/-! ### hexUpper -/

theorem hexVal_hexU : ∀ k, k < 16 → Xml.hexVal (OplFmt.OplSpec.hexU k).toNat = some k := by decide

theorem hexU_ne_semi : ∀ k, k < 16 → OplFmt.OplSpec.hexU k ≠ 0x3b := by decide

theorem hexUpper_mem : ∀ f n, ∀ b ∈ hexUpper f n, ∃ k, k < 16 ∧ b = OplFmt.OplSpec.hexU k := by
  intro f
  induction f with
  | zero => intro n b hb; simp [hexUpper] at hb
  | succ f ih =>
    intro n b hb
    simp only [hexUpper] at hb
    rcases List.mem_append.1 hb with hb | hb
    · split at hb
      · cases hb
      · exact ih _ b hb
    · simp only [List.mem_singleton] at hb; exact ⟨n % 16, Nat.mod_lt _ (by omega), hb⟩

theorem hexU_ne_lt : ∀ k, k < 16 → OplFmt.OplSpec.hexU k ≠ 0x3c := by decide

theorem hexUpper_ne_semi (f n : Nat) : ∀ b ∈ hexUpper f n, b ≠ 0x3b := by
  intro b hb
  obtain ⟨k, hk, rfl⟩ := hexUpper_mem f n b hb
  exact hexU_ne_semi k hk

theorem hexUpper_ne_lt (f n : Nat) : ∀ b ∈ hexUpper f n, b ≠ 0x3c := by
  intro b hb
  obtain ⟨k, hk, rfl⟩ := hexUpper_mem f n b hb
  exact hexU_ne_lt k hk

theorem hexUpper_ne_nil (f n : Nat) : hexUpper (f + 1) n ≠ [] := by
  simp [hexUpper]

theorem number_hexUpper : ∀ f n, n < 16 ^ f → n < 0x110000 →
    Xml.number 16 Xml.hexVal ((hexUpper f n).map (·.toNat)) 0 = some n := by
  intro f
  induction f with
  | zero => intro n h _; simp at h; subst h; rfl
  | succ f ih =>
    intro n h1 h2
    simp only [hexUpper]
    by_cases h0 : n / 16 = 0
    · rw [if_pos h0]
      have hlt : n < 16 := by omega
      simp only [List.nil_append, List.map_cons, List.map_nil, Xml.number, hexVal_hexU _ (Nat.mod_lt n (by omega))]
      rw [if_neg (by omega)]; congr 1; omega
    · rw [if_neg h0]
      have := ih (n / 16) (by rw [Nat.pow_succ] at h1; omega) (by omega)
      rw [List.map_append, List.map_cons, List.map_nil,
        number_snoc 16 Xml.hexVal _ _ (n / 16) (n % 16) 0 this (hexVal_hexU _ (Nat.mod_lt _ (by omega))) (by omega)]
      congr 1; omega


/-! ### references -/

theorem charOk_lt' (c : Nat) (h : Xml.charOk c = true) : c < 0x110000 := by
  simp only [Xml.charOk, Bool.or_eq_true, Bool.and_eq_true, beq_iff_eq, decide_eq_true_eq] at h
  omega

theorem refValue_hex (c : Nat) (hc : Xml.charOk c = true) :
    Xml.refValue ((0x23 :: 0x78 :: hexUpper 8 c).map (·.toNat)) = some c := by
  have hn := number_hexUpper 8 c (by have := charOk_lt' c hc; omega) (charOk_lt' c hc)
  obtain ⟨d, ds, e⟩ := List.exists_cons_of_ne_nil (hexUpper_ne_nil 7 c)
  rw [e] at hn ⊢
  simp only [List.map_cons] at hn ⊢
  simp [Xml.refValue, hn, hc]

theorem refValue_dec (c : Nat) (hc : Xml.charOk c = true) :
    Xml.refValue ((0x23 :: decDigits c).map (·.toNat)) = some c := by
  have hn := number_decDigits c (charOk_lt' c hc)
  obtain ⟨d, ds, e⟩ := List.exists_cons_of_ne_nil (decDigits_ne_nil c)
  have hd := decDigits_digit c d (by rw [e]; simp)
  rw [e] at hn ⊢
  simp only [List.map_cons] at hn ⊢
  have hx : d.toNat ≠ 0x78 := by omega
  simp [Xml.refValue, hn, hc, hx]


/-! ### tokenizer steps -/

theorem takeWhile_semi (body r : Bytes) (hb : ∀ b ∈ body, b ≠ 0x3b) :
    (body ++ 0x3b :: r).takeWhile (· != 0x3b) = body ∧ (body ++ 0x3b :: r).dropWhile (· != 0x3b) = 0x3b :: r := by
  induction body with
  | nil => simp
  | cons b body ih =>
    have h1 : (b != 0x3b) = true := by simpa using hb b (by simp)
    have := ih (fun x hx => hb x (by simp [hx]))
    simp only [List.cons_append, List.takeWhile_cons, List.dropWhile_cons, h1, if_true, this, and_self]

theorem tokRef_body (body r : Bytes) (hb : ∀ b ∈ body, b ≠ 0x3b) (v : Nat)
    (hv : Xml.refValue (body.map (·.toNat)) = some v) : tokRef (body ++ 0x3b :: r) = some (Utf8.encode v, r) := by
  unfold tokRef
  rw [(takeWhile_semi body r hb).1, (takeWhile_semi body r hb).2]
  simp only [hv]

/-- one step of `tokAttrValue`: the piece `p` is consumed and contributes `d` -/
def StepA (q : UInt8) (p d : Bytes) : Prop :=
  ∀ f r, tokAttrValue q (f + 1) (p ++ r) = (tokAttrValue q f r).map fun (x, rest') => (d ++ x, rest')

/-- one step of `tokText` -/
def StepT (p d : Bytes) : Prop :=
  ∀ f r, tokText (f + 1) (p ++ r) = (tokText f r).map fun (x, rest') => (d ++ x, rest')

/-- side conditions for a byte that is copied literally by both scanners -/
def litOK (q b : UInt8) : Bool :=
  b != q && b != 0x3c && !badChar b && b != 0x26 && b != 0x0d && (!isWs b || b == 0x20)

theorem stepA_lit (q b : UInt8) (h : litOK q b = true) : StepA q [b] [b] := by
  intro f r
  simp only [litOK, Bool.and_eq_true, Bool.or_eq_true, bne_iff_ne, ne_eq, Bool.not_eq_true', beq_iff_eq] at h
  obtain ⟨⟨⟨⟨⟨h1, h2⟩, h3⟩, h4⟩, h5⟩, h6⟩ := h
  have e1 : (b == q) = false := by simpa using h1
  have e2 : (b == 0x3c) = false := by simpa using h2
  have e4 : (b == 0x26) = false := by simpa using h4
  have e5 : (b == 0x0d) = false := by simpa using h5
  simp only [List.singleton_append, tokAttrValue, e1, e2, h3, e4, e5, Bool.or_self, Bool.false_and, if_false,
    Bool.false_eq_true]
  rcases h6 with h6 | h6
  · simp only [h6, Bool.false_eq_true, if_false]
  · subst h6; simp only [isWs, beq_self_eq_true, Bool.true_or, if_true]

theorem stepT_lit (q b : UInt8) (h : litOK q b = true) : StepT [b] [b] := by
  intro f r
  simp only [litOK, Bool.and_eq_true, Bool.or_eq_true, bne_iff_ne, ne_eq, Bool.not_eq_true', beq_iff_eq] at h
  obtain ⟨⟨⟨⟨⟨h1, h2⟩, h3⟩, h4⟩, h5⟩, h6⟩ := h
  have e2 : (b == 0x3c) = false := by simpa using h2
  have e4 : (b == 0x26) = false := by simpa using h4
  have e5 : (b == 0x0d) = false := by simpa using h5
  simp only [List.singleton_append, tokText, e2, h3, e4, e5, Bool.false_and, if_false, Bool.false_eq_true]

theorem stepA_ref (q : UInt8) (hq : q ≠ 0x26) (body : Bytes) (hb : ∀ b ∈ body, b ≠ 0x3b) (v : Nat)
    (hv : Xml.refValue (body.map (·.toNat)) = some v) : StepA q (0x26 :: (body ++ [0x3b])) (Utf8.encode v) := by
  intro f r
  have e1 : ((0x26 : UInt8) == q) = false := by simpa using fun h => hq h.symm
  have e2 : ((0x26 : UInt8) == 0x3c) = false := by decide
  have e3 : badChar 0x26 = false := by decide
  have e : 0x26 :: (body ++ [0x3b]) ++ r = 0x26 :: (body ++ 0x3b :: r) := by simp
  rw [e]
  simp only [tokAttrValue, e1, e2, e3, Bool.or_self, Bool.false_eq_true, if_false, beq_self_eq_true, if_true,
    tokRef_body body r hb v hv]

theorem stepT_ref (body : Bytes) (hb : ∀ b ∈ body, b ≠ 0x3b) (v : Nat)
    (hv : Xml.refValue (body.map (·.toNat)) = some v) : StepT (0x26 :: (body ++ [0x3b])) (Utf8.encode v) := by
  intro f r
  have e2 : ((0x26 : UInt8) == 0x3c) = false := by decide
  have e3 : badChar 0x26 = false := by decide
  have e : 0x26 :: (body ++ [0x3b]) ++ r = 0x26 :: (body ++ 0x3b :: r) := by simp
  rw [e]
  simp only [tokText, e2, e3, Bool.false_eq_true, if_false, beq_self_eq_true, if_true,
    tokRef_body body r hb v hv]


theorem runA {α : Type} (q : UInt8) (P D : α → Bytes) (rest : Bytes) :
    ∀ (l : List α), (∀ a ∈ l, StepA q (P a) (D a)) → ∀ f, l.length + 1 ≤ f →
      tokAttrValue q f (l.flatMap P ++ q :: rest) = some (l.flatMap D, rest) := by
  intro l
  induction l with
  | nil =>
    intro _ f hf
    obtain ⟨f', rfl⟩ : ∃ f', f = f' + 1 := ⟨f - 1, by simp only [List.length_nil] at hf; omega⟩
    simp [tokAttrValue]
  | cons a l ih =>
    intro h f hf
    obtain ⟨f', rfl⟩ : ∃ f', f = f' + 1 := ⟨f - 1, by omega⟩
    rw [List.flatMap_cons, List.append_assoc, h a (by simp) f',
      ih (fun x hx => h x (by simp [hx])) f' (by rw [List.length_cons] at hf; omega)]
    simp

theorem runT {α : Type} (P D : α → Bytes) (rest : Bytes) :
    ∀ (l : List α), (∀ a ∈ l, StepT (P a) (D a)) → ∀ f, l.length + 1 ≤ f →
      tokText f (l.flatMap P ++ 0x3c :: rest) = some (l.flatMap D, 0x3c :: rest) := by
  intro l
  induction l with
  | nil =>
    intro _ f hf
    obtain ⟨f', rfl⟩ : ∃ f', f = f' + 1 := ⟨f - 1, by simp only [List.length_nil] at hf; omega⟩
    simp [tokText]
  | cons a l ih =>
    intro h f hf
    obtain ⟨f', rfl⟩ : ∃ f', f = f' + 1 := ⟨f - 1, by omega⟩
    rw [List.flatMap_cons, List.append_assoc, h a (by simp) f',
      ih (fun x hx => h x (by simp [hx])) f' (by rw [List.length_cons] at hf; omega)]
    simp

theorem length_le_flatMap {α : Type} (P : α → Bytes) :
    ∀ (l : List α), (∀ a ∈ l, P a ≠ []) → l.length ≤ (l.flatMap P).length := by
  intro l
  induction l with
  | nil => intro _; simp
  | cons a l ih =>
    intro h
    have h1 : 0 < (P a).length := List.length_pos_iff.2 (h a (by simp))
    have h2 := ih (fun x hx => h x (by simp [hx]))
    rw [List.flatMap_cons, List.length_append, List.length_cons]; omega

/-! ### checkable shape of a piece -/

/-- `p` is `&body;` with a `;`-free body whose value encodes to `d` -/
def refOK (p d : Bytes) : Bool :=
  match p with
  | 0x26 :: t =>
    t.getLast? == some 0x3b && !(t.dropLast.contains 0x3b) &&
      (match Xml.refValue (t.dropLast.map (·.toNat)) with
       | some v => Utf8.encode v == d
       | none => false)
  | _ => false

def pieceOK (q : UInt8) (p : Bytes) (b : UInt8) : Bool := (p == [b] && litOK q b) || refOK p [b]

theorem refOK_spec {p d : Bytes} (h : refOK p d = true) :
    ∃ body v, p = 0x26 :: (body ++ [0x3b]) ∧ (∀ b ∈ body, b ≠ 0x3b) ∧ Xml.refValue (body.map (·.toNat)) = some v ∧
      Utf8.encode v = d := by
  unfold refOK at h
  split at h
  · rename_i t
    simp only [Bool.and_eq_true, beq_iff_eq, Bool.not_eq_true'] at h
    obtain ⟨⟨h1, h2⟩, h3⟩ := h
    obtain ⟨ys, rfl⟩ := List.getLast?_eq_some_iff.1 h1
    have hd : (ys ++ [0x3b]).dropLast = ys := by simp
    rw [hd] at h2 h3
    split at h3
    · rename_i v hv
      refine ⟨ys, v, rfl, ?_, hv, by simpa using h3⟩
      intro b hb hb'
      subst hb'
      have : ys.contains 0x3b = true := by simpa using hb
      rw [this] at h2; cases h2
    · cases h3
  · cases h

theorem stepA_piece (q : UInt8) (hq : q ≠ 0x26) (p : Bytes) (b : UInt8) (h : pieceOK q p b = true) : StepA q p [b] := by
  simp only [pieceOK, Bool.or_eq_true, Bool.and_eq_true, beq_iff_eq] at h
  rcases h with ⟨rfl, h⟩ | h
  · exact stepA_lit q b h
  · obtain ⟨body, v, rfl, h1, h2, h3⟩ := refOK_spec h
    rw [← h3]; exact stepA_ref q hq body h1 v h2

theorem stepT_piece (q : UInt8) (p : Bytes) (b : UInt8) (h : pieceOK q p b = true) : StepT p [b] := by
  simp only [pieceOK, Bool.or_eq_true, Bool.and_eq_true, beq_iff_eq] at h
  rcases h with ⟨rfl, h⟩ | h
  · exact stepT_lit q b h
  · obtain ⟨body, v, rfl, h1, h2, h3⟩ := refOK_spec h
    rw [← h3]; exact stepT_ref body h1 v h2

theorem pieceOK_ne_nil (q : UInt8) (p : Bytes) (b : UInt8) (h : pieceOK q p b = true) : p ≠ [] := by
  rintro rfl
  simp [pieceOK, refOK] at h

end Osmium.XmlFmt.XmlSpec
