/-
Progress (C07), part: the parser's last push on the osmdata queue is the end marker and the
consumer stops popping after it (`OutqMarker`, wait-for invariant I4 of PipelineLiveBase).
-/
import Osmium.Lemmas.PipelineLiveIds

set_option linter.unusedSimpArgs false
set_option linter.unusedVariables false
set_option linter.unusedTactic false
set_option linter.unreachableTactic false

namespace Osmium.Pipeline
open Osmium.Mon
variable {α : Type} [DecidableEq α]
namespace Live

/-- which continuation goes with which parser pc -/
def kOk : PPc α → Prop
  | .push v k => k ≠ .exit ∧ (k = .dtor → v = .eod)
  | .pushFut _ k => k = .run
  | .pushing _ ov k => k ≠ .exit ∧ (k = .dtor → ov = some .eod) ∧ (ov = none → k = .run)
  | .pushed _ v k => k ≠ .exit ∧ (k = .dtor → v = .eod)
  | .sdIn k => k = .run ∨ k = .exit
  | .sdInRun k => k = .run ∨ k = .exit
  | _ => True

set_option maxHeartbeats 1600000 in
theorem inv_kOk (c : Cfg α) : ∀ s, (machine c).Reachable s → kOk s.ppc := by
  apply Machine.invariant
  · simp [machine, init, kOk]
  · intro s e s' _ ih hst
    plv_cases e with hst q hq
    all_goals first
      | exact ih
      | (ap_norm; exact ih)
      | (simp_all [kOk, pCont]; done)
      | (cases ‹PK› <;> simp_all [kOk, pCont]; done)
      | (cases hh : s.ppc <;> simp_all [kOk, pCont]; done)

theorem none_eq_head? {β : Type} {l : List β} : none = l.head? ↔ l = [] := by cases l <;> simp
theorem some_eq_head? {β : Type} {l : List β} {a : β} : some a = l.head? ↔ ∃ t, l = a :: t := by
  cases l <;> simp [eq_comm]

/-- while the osmdata queue is in use the consumer is not past a shutdown / a failed in_use() test -/
theorem inv_notJoined (c : Cfg α) : ∀ s, (machine c).Reachable s → s.outq.inUse = true →
    s.cpc ≠ .eofJoin ∧ ∀ k, s.cpc ≠ .closeJoin k := by
  apply Machine.invariant
  · simp [machine, init]
  · intro s e s' hr ih hst
    have hf := QueueSM.inv_sdFlagged c.outqC s.outq (Q.reachable_outq c s hr) tC
    plv_cases e with hst q hq
    all_goals (try q_unfold hq)
    all_goals first
      | exact ih
      | (ap_norm; exact ih)
      | (simp_all [setPc_apply, QueueSM.pred, none_eq_head?]; done)
      | (rcases afterPop_cpc s ‹List (List _)› with h | ⟨r, h⟩ <;> simp_all; done)
      | (rcases afterClose_cpc s ‹CK› with h | ⟨r, h⟩ <;> simp_all; done)
      | (simp only [setPc_apply, QueueSM.take_inUse, QueueSM.take_items, none_eq_head?] at *; grind [QueueSM.pred])

/-- ids in the osmdata queue are odd and not fresh -/
theorem inv_itemsOdd (c : Cfg α) : ∀ s, (machine c).Reachable s →
    ∀ y ∈ s.outq.items, y.2 % 2 = 1 ∧ y.2 < 2 * s.nOut := by
  apply Machine.invariant
  · simp [machine, init, QueueSM.init]
  · intro s e s' hr ih hst
    have h1 := (n_ppc c s hr).2.1
    have h2 := (pcInv c s hr).pOut
    plv_cases e with hst q hq
    all_goals (try q_unfold hq)
    all_goals first
      | exact ih
      | (ap_norm; exact ih)
      | (intro y hy; simp only [QueueSM.take_items] at hy; have := ih y (List.mem_of_mem_tail hy); simpa using this)
      | (simp_all [setPc_apply, pOkOut, inPush]; done)
      | (simp only [setPc_apply, pOkOut, inPush] at *; grind)

theorem mem_of_some_eq_head? {β : Type} {l : List β} {a : β} (h : some a = l.head?) : a ∈ l := by
  cases l <;> simp_all

/-- the future the consumer holds has an odd, non-fresh id -/
theorem inv_gotOdd (c : Cfg α) : ∀ s, (machine c).Reachable s →
    ∀ id, s.cpc = .readGot id → id % 2 = 1 ∧ id < 2 * s.nOut := by
  apply Machine.invariant
  · simp [machine, init]
  · intro s e s' hr ih hst
    have h1 := inv_itemsOdd c s hr
    plv_cases e with hst q hq
    all_goals (try q_unfold hq)
    all_goals first
      | exact ih
      | (ap_norm; exact ih)
      | (simp_all [setPc_apply]; done)
      | (rcases afterPop_cpc s ‹List (List _)› with h | ⟨r, h⟩ <;> simp_all; done)
      | (rcases afterClose_cpc s ‹CK› with h | ⟨r, h⟩ <;> simp_all; done)
      | (simp only [setPc_apply] at *; grind [mem_of_some_eq_head?])

/-- parser pcs after the end marker has been enqueued (if the queue was in use) -/
def pPast : PPc α → Bool
  | .pushed _ _ k => k == .dtor
  | .sdIn k => k == .exit
  | .sdInRun k => k == .exit
  | .done => true
  | _ => false

/-- the consumer may still pop from the osmdata queue -/
def cStill (w : Nat → Val α) : CPc α → Prop
  | .idle | .hdrWait | .readPop | .readWaitPop | .ret _ => True
  | .readGot id => w id ≠ .eod
  | _ => False

/-- the end marker is in the list -/
def eodIn (w : Nat → Val α) (l : List (QueueSM.Item Nat)) : Prop := ∃ y ∈ l, w y.2 = .eod

omit [DecidableEq α] in
theorem eodIn_setPc_even {w : Nat → Val α} {x n : Nat} {v : Val α} {l : List (QueueSM.Item Nat)}
    (hx : x % 2 = 0) (hl : ∀ y ∈ l, y.2 % 2 = 1 ∧ y.2 < n) (h : eodIn w l) : eodIn (setPc w x v) l := by
  obtain ⟨y, hy, hw⟩ := h
  refine ⟨y, hy, ?_⟩
  have hne : ¬ y.2 = x := by have := hl y hy; omega
  rw [setPc_apply, if_neg hne]; exact hw

omit [DecidableEq α] in
theorem cStill_of_setPc_even {w : Nat → Val α} {x n : Nat} {v : Val α} {p : CPc α}
    (hx : x % 2 = 0) (hg : ∀ id, p = .readGot id → id % 2 = 1 ∧ id < n) (h : cStill (setPc w x v) p) :
    cStill w p := by
  cases p <;> simp_all [cStill]
  rename_i id
  have hne : ¬ id = x := by omega
  rw [setPc_apply, if_neg hne] at h; exact h

omit [DecidableEq α] in
theorem eodIn_tail {w : Nat → Val α} {l : List (QueueSM.Item Nat)} {it : QueueSM.Item Nat}
    (h : some it = l.head?) (hne : w it.2 ≠ .eod) (hl : eodIn w l) : eodIn w l.tail := by
  obtain ⟨y, hy, hw⟩ := hl
  cases l with
  | nil => simp at hy
  | cons a t =>
    simp at h; subst h
    simp at hy
    rcases hy with rfl | hy
    · exact absurd hw hne
    · exact ⟨y, hy, hw⟩

set_option maxHeartbeats 1600000 in
theorem inv_marker (c : Cfg α) : ∀ s, (machine c).Reachable s →
    s.outq.inUse = true → pPast s.ppc = true → cStill s.want s.cpc → eodIn s.want s.outq.items := by
  apply Machine.invariant
  · simp [machine, init, pPast]
  · intro s e s' hr ih hst
    have hK := inv_kOk c s hr
    have hN := inv_notJoined c s hr
    have hI := inv_itemsOdd c s hr
    have hG := inv_gotOdd c s hr
    have hP := (n_ppc c s hr).1
    have hO := (pcInv c s hr).pOut
    have hF := n_fut c s hr
    plv_cases e with hst q hq
    all_goals first
      | exact ih
      | (ap_norm; exact ih)
      | (simp_all [pPast, cStill, pCont, setPc_apply]; done)
      | skip
    all_goals (try q_unfold hq)
    all_goals first
      | exact ih
      | (ap_norm; exact ih)
      | (simp_all [pPast, cStill, pCont, setPc_apply]; done)
      | (intro h1 h2 h3
         refine eodIn_setPc_even ?_ hI (ih h1 h2 (cStill_of_setPc_even ?_ hG h3)) <;> omega)
      | (intro h1 h2 h3
         simp only [QueueSM.take_items, QueueSM.take_inUse] at h1 ⊢
         refine eodIn_tail ?_ h3 (ih h1 h2 ?_) <;> simp_all [cStill]; done)
      | (intro h1 h2 _
         simp only [afterPop_ppc, afterPop_want, Q.afterPop_outq] at h1 h2 ⊢
         refine ih h1 h2 ?_
         have hw := (hF _ _ ‹s.fut _ = some _›).1
         rw [‹s.cpc = CPc.readGot _›]
         simp only [cStill]
         intro hh
         rw [hh] at hw
         simp at hw; done)
      | (cases ‹PK› <;> simp_all [pPast, cStill, pCont, setPc_apply, kOk]; done)
      | (simp_all [pPast, cStill, pCont, setPc_apply, kOk, eodIn, pOkOut, inPush]; done)

/-- (I4, PROVED) the parser's last push on the osmdata queue is the end marker and the consumer stops
    popping after it: if the parser thread has returned and the consumer is blocked inside
    wait_and_pop(), the wait predicate `!in_use || !empty` holds. -/
theorem outq_marker (c : Cfg α) (s : State α) (h : (machine c).Reachable s) : OutqMarker s := by
  intro hp hc _
  cases hu : s.outq.inUse with
  | false => simp [QueueSM.pred, hu]
  | true =>
    obtain ⟨y, hy, _⟩ := inv_marker c s h hu (by simp [hp, pPast]) (by simp [hc, cStill])
    cases hi : s.outq.items with
    | nil => rw [hi] at hy; simp at hy
    | cons a t => simp [QueueSM.pred, hi]

end Live
end Osmium.Pipeline
