/-
decode ∘ encode for whole o5m files: the dataset loop on the token stream of the specification
encoder, and the fold of the dataset decoders over it.
-/
import Osmium.Lemmas.O5mSpec
import Osmium.Props.C06

namespace Osmium.O5m

open Osmium.Wire Osmium.Osm Osmium.Chunks

/-! ### the dataset loop on a token stream -/

def TokWF : O5mSpec.Tok → Prop
  | .raw bs => bs = [0xff] ∨ bs = [0xfe]
  | .ds t fs => t.toNat ≤ 0xef ∧ (O5mSpec.payload fs).length < 2 ^ 64

def tokDataset : O5mSpec.Tok → Dataset
  | .raw bs => if bs = [0xff] then .reset else .other 0xfe
  | .ds t fs => .data t (O5mSpec.payload fs)

theorem specLoop_toks : ∀ (toks : List O5mSpec.Tok) (fuel : Nat) (acc : List Dataset),
    (∀ t ∈ toks, TokWF t) → toks.length < fuel →
    specO5mLoop fuel (O5mSpec.flattenToks toks) acc = (acc.reverse ++ toks.map tokDataset, none)
  | [], fuel, acc, _, hf => by
    obtain ⟨f, rfl⟩ : ∃ f, fuel = f + 1 := ⟨fuel - 1, by simp at hf; omega⟩
    simp [O5mSpec.flattenToks, specO5mLoop]
  | t :: ts, fuel, acc, hwf, hf => by
    obtain ⟨f, rfl⟩ : ∃ f, fuel = f + 1 := ⟨fuel - 1, by simp at hf; omega⟩
    have ht := hwf t (List.mem_cons_self)
    have hts : ∀ x ∈ ts, TokWF x := fun x hx => hwf x (List.mem_cons_of_mem _ hx)
    have ih := fun acc' => specLoop_toks ts f acc' hts (by simp at hf; omega)
    have hfl : O5mSpec.flattenToks (t :: ts) = t.bytes ++ O5mSpec.flattenToks ts := by
      simp [O5mSpec.flattenToks]
    rw [hfl]
    cases t with
    | raw bs =>
      rcases ht with h | h
      · subst h
        simp only [O5mSpec.Tok.bytes, List.cons_append, List.nil_append, specO5mLoop]
        rw [ih]
        simp [tokDataset]
      · subst h
        simp only [O5mSpec.Tok.bytes, List.cons_append, List.nil_append, specO5mLoop]
        rw [ih]
        simp [tokDataset]
    | ds ty fs =>
      obtain ⟨hty, hlen⟩ := ht
      have hnot : ¬ ty.toNat > 0xef := by omega
      simp only [O5mSpec.Tok.bytes, List.cons_append, List.append_assoc, specO5mLoop, hnot, ↓reduceIte,
        decodeVarint_encodeVarint _ hlen]
      have hlt : ¬ (O5mSpec.payload fs ++ O5mSpec.flattenToks ts).length < (O5mSpec.payload fs).length := by
        simp
      simp only [hlt, ↓reduceIte, List.drop_left, List.take_left]
      rw [ih]
      simp [tokDataset]

/-! ### the fold of the decoders over the encoder's tokens -/

structure AccInv (a : Acc) (s : O5mSpec.EncSt) (objs : List Object) (hdr : FileHeader) : Prop where
  st : StRel a.st s
  objs : a.objs = objs
  hdr : a.hdr = hdr
  stop : a.stop = false

theorem StRel.reset {st : St} {s : O5mSpec.EncSt} (h : StRel st s) : StRel st.reset s.reset :=
  ⟨h.tab.clear, rfl, rfl, rfl, rfl, rfl, rfl, rfl, rfl, rfl⟩

theorem fold_cons_step (a a' : Acc) (d : Dataset) (ds : List Dataset) (hs : a.stop = false)
    (h : stepDataset {} a d = .ok a') : foldDatasets {} a (d :: ds) = foldDatasets {} a' ds := by
  simp [foldDatasets, hs, h]

theorem step_reset (a : Acc) : stepDataset {} a .reset = .ok { a with st := a.st.reset } := rfl
theorem step_other (a : Acc) (t : UInt8) : stepDataset {} a (.other t) = .ok a := rfl

/-- one object dataset -/
theorem step_object (ch : O5mSpec.Choices) (o : Object) (hok : ObjOk o) (s : O5mSpec.EncSt) (a : Acc)
    (acc : List Object) (hdr : FileHeader) (hinv : AccInv a s acc hdr)
    (hsz : O5mSpec.tokPayloadLen (O5mSpec.emitObject ch s o).1 < 2 ^ 64) :
    ∃ a', stepDataset {} a (tokDataset (O5mSpec.emitObject ch s o).1) = .ok a' ∧
      AccInv a' (O5mSpec.emitObject ch s o).2 (o :: acc) hdr ∧ TokWF (O5mSpec.emitObject ch s o).1 := by
  obtain ⟨hst, hobjs, hhdr, hstop⟩ := hinv
  cases o with
  | node m loc =>
    obtain ⟨fields, st', hf, hd, hr'⟩ := decodeNode_emit ch m loc hok s a.st hst
    rw [hf] at hsz ⊢
    refine ⟨{ a with headerDone := true, st := st', objs := .node m loc :: a.objs }, ?_, ⟨hr', by simp [hobjs], hhdr, hstop⟩,
      ⟨by decide, hsz⟩⟩
    simp [tokDataset, stepDataset, hd]
    rfl
  | way m refs =>
    obtain ⟨fields, st', hf, hd, hr'⟩ := decodeWay_emit ch m refs hok s a.st hst hsz
    rw [hf] at hsz ⊢
    refine ⟨{ a with headerDone := true, st := st', objs := .way m refs :: a.objs }, ?_, ⟨hr', by simp [hobjs], hhdr, hstop⟩,
      ⟨by decide, hsz⟩⟩
    simp [tokDataset, stepDataset, hd]
    rfl
  | relation m ms =>
    obtain ⟨fields, st', hf, hd, hr'⟩ := decodeRelation_emit ch m ms hok s a.st hst hsz
    rw [hf] at hsz ⊢
    refine ⟨{ a with headerDone := true, st := st', objs := .relation m ms :: a.objs }, ?_, ⟨hr', by simp [hobjs], hhdr, hstop⟩,
      ⟨by decide, hsz⟩⟩
    simp [tokDataset, stepDataset, hd]
    rfl
  | changeset => exact hok.elim

/-- what may stand between two datasets: resets clear both states, unknown / sync / jump datasets
    are skipped -/
theorem fold_emitBefore (s : O5mSpec.EncSt) (k : Nat) (a : Acc) (acc : List Object) (hdr : FileHeader)
    (hinv : AccInv a s acc hdr) (rest : List Dataset) :
    ∃ a', foldDatasets {} a ((O5mSpec.emitBefore s k).1.map tokDataset ++ rest) = foldDatasets {} a' rest ∧
      AccInv a' (O5mSpec.emitBefore s k).2 acc hdr ∧ (∀ t ∈ (O5mSpec.emitBefore s k).1, TokWF t) := by
  obtain ⟨hst, hobjs, hhdr, hstop⟩ := hinv
  have hres : AccInv { a with st := a.st.reset } s.reset acc hdr := ⟨hst.reset, hobjs, hhdr, hstop⟩
  match k with
  | 1 =>
    refine ⟨{ a with st := a.st.reset }, ?_, hres, ?_⟩
    · simp [O5mSpec.emitBefore, tokDataset, foldDatasets, hstop, step_reset]
    · intro t ht; simp [O5mSpec.emitBefore] at ht; subst ht; exact Or.inl rfl
  | 5 =>
    refine ⟨{ a with st := a.st.reset.reset }, ?_, ⟨hst.reset.reset, hobjs, hhdr, hstop⟩, ?_⟩
    · simp [O5mSpec.emitBefore, tokDataset, foldDatasets, hstop, step_reset]
    · intro t ht; simp [O5mSpec.emitBefore] at ht; subst ht; exact Or.inl rfl
  | 2 =>
    refine ⟨a, ?_, ⟨hst, hobjs, hhdr, hstop⟩, ?_⟩
    · simp [O5mSpec.emitBefore, tokDataset, foldDatasets, hstop, stepDataset]
    · intro t ht; simp [O5mSpec.emitBefore] at ht; subst ht; exact ⟨by decide, by decide⟩
  | 3 =>
    refine ⟨a, ?_, ⟨hst, hobjs, hhdr, hstop⟩, ?_⟩
    · simp [O5mSpec.emitBefore, tokDataset, foldDatasets, hstop, stepDataset]
    · intro t ht; simp [O5mSpec.emitBefore] at ht; subst ht; exact ⟨by decide, by decide⟩
  | 4 =>
    refine ⟨a, ?_, ⟨hst, hobjs, hhdr, hstop⟩, ?_⟩
    · simp [O5mSpec.emitBefore, tokDataset, foldDatasets, hstop, stepDataset]
    · intro t ht; simp [O5mSpec.emitBefore] at ht; subst ht; exact ⟨by decide, by decide⟩
  | 0 =>
    exact ⟨a, by simp [O5mSpec.emitBefore], ⟨hst, hobjs, hhdr, hstop⟩, by intro t ht; simp [O5mSpec.emitBefore] at ht⟩
  | n + 6 =>
    exact ⟨a, by simp [O5mSpec.emitBefore], ⟨hst, hobjs, hhdr, hstop⟩, by intro t ht; simp [O5mSpec.emitBefore] at ht⟩

theorem fold_emitObjects (ch : O5mSpec.Choices) : ∀ (objs : List Object) (s : O5mSpec.EncSt) (before : List Nat) (a : Acc)
    (acc : List Object) (hdr : FileHeader) (rest : List Dataset),
    AccInv a s acc hdr → (∀ o ∈ objs, ObjOk o) →
    (∀ t ∈ O5mSpec.emitObjects ch s before objs, O5mSpec.tokPayloadLen t < 2 ^ 64) →
    ∃ a' s', foldDatasets {} a ((O5mSpec.emitObjects ch s before objs).map tokDataset ++ rest) = foldDatasets {} a' rest ∧
      AccInv a' s' (objs.reverse ++ acc) hdr ∧ (∀ t ∈ O5mSpec.emitObjects ch s before objs, TokWF t)
  | [], s, before, a, acc, hdr, rest, hinv, _, _ => by
    obtain ⟨a', hf, hinv', hwf⟩ := fold_emitBefore s (before.headD 0) a acc hdr hinv rest
    exact ⟨a', _, by simpa [O5mSpec.emitObjects] using hf, by simpa using hinv', by simpa [O5mSpec.emitObjects] using hwf⟩
  | o :: os, s, before, a, acc, hdr, rest, hinv, hok, hsz => by
    have ho := hok o (List.mem_cons_self)
    have hos : ∀ x ∈ os, ObjOk x := fun x hx => hok x (List.mem_cons_of_mem _ hx)
    generalize heb : O5mSpec.emitBefore s (before.headD 0) = eb at hsz
    obtain ⟨tb, s1⟩ := eb
    generalize heo : O5mSpec.emitObject ch s1 o = eo at hsz
    obtain ⟨t, s2⟩ := eo
    have hdef : O5mSpec.emitObjects ch s before (o :: os) = tb ++ t :: O5mSpec.emitObjects ch s2 before.tail os := by
      simp only [O5mSpec.emitObjects, heb, heo]
    rw [hdef] at hsz ⊢
    obtain ⟨a1, hf1, hinv1, hwf1⟩ := fold_emitBefore s (before.headD 0) a acc hdr hinv
      (tokDataset t :: ((O5mSpec.emitObjects ch s2 before.tail os).map tokDataset ++ rest))
    rw [heb] at hf1 hinv1 hwf1
    simp only at hf1 hinv1 hwf1
    have hszt : O5mSpec.tokPayloadLen (O5mSpec.emitObject ch s1 o).1 < 2 ^ 64 := by
      rw [heo]; exact hsz t (by simp)
    obtain ⟨a2, hstep, hinv2, hwft⟩ := step_object ch o ho s1 a1 acc hdr hinv1 hszt
    rw [heo] at hstep hinv2 hwft
    simp only at hstep hinv2 hwft
    obtain ⟨a3, s3, hf3, hinv3, hwf3⟩ := fold_emitObjects ch os s2 before.tail a2 (o :: acc) hdr rest hinv2 hos
      (fun x hx => hsz x (by simp [hx]))
    refine ⟨a3, s3, ?_, by simpa using hinv3, ?_⟩
    · simp only [List.map_append, List.map_cons, List.append_assoc, List.cons_append]
      rw [hf1, fold_cons_step a1 a2 _ _ hinv1.stop hstep, hf3]
    · intro x hx
      simp only [List.mem_append, List.mem_cons] at hx
      rcases hx with hx | hx | hx
      · exact hwf1 x hx
      · subst hx; exact hwft
      · exact hwf3 x hx

/-! ### header datasets -/

def BoxOk (b : Location × Location) : Prop :=
  InI32 b.1.x ∧ InI32 b.1.y ∧ InI32 b.2.x ∧ InI32 b.2.y ∧
  ((Location.defined b.1 && Location.defined b.2) || (decide (b.1.x ≤ b.2.x) && decide (b.1.y ≤ b.2.y))) = true

theorem step_box (a : Acc) (b : Location × Location) (hb : BoxOk b) (hd : a.headerDone = false) :
    stepDataset {} a (tokDataset (O5mSpec.emitBox b)) = .ok { a with hdr := { a.hdr with boxes := a.hdr.boxes ++ [b] } } := by
  obtain ⟨h1, h2, h3, h4, hc⟩ := hb
  have hpl : O5mSpec.payload [⟨.num, O5mSpec.svarint b.1.x⟩, ⟨.num, O5mSpec.svarint b.1.y⟩, ⟨.num, O5mSpec.svarint b.2.x⟩,
      ⟨.num, O5mSpec.svarint b.2.y⟩] =
      O5mSpec.svarint b.1.x ++ (O5mSpec.svarint b.1.y ++ (O5mSpec.svarint b.2.x ++ O5mSpec.svarint b.2.y)) := by
    simp [O5mSpec.payload]
  have hz4 : zvarint (O5mSpec.svarint b.2.y) = .ok (b.2.y, []) := by
    simpa using zvarint_svarint _ (inI64_of_inI32 h4) []
  have hdec : decodeBbox (O5mSpec.svarint b.1.x ++ (O5mSpec.svarint b.1.y ++ (O5mSpec.svarint b.2.x ++ O5mSpec.svarint b.2.y))) = .ok b := by
    simp only [decodeBbox, zvarint_svarint _ (inI64_of_inI32 h1), zvarint_svarint _ (inI64_of_inI32 h2),
      zvarint_svarint _ (inI64_of_inI32 h3), hz4, ok_bind,
      wrap32_id _ h1.1 h1.2, wrap32_id _ h2.1 h2.2, wrap32_id _ h3.1 h3.2, wrap32_id _ h4.1 h4.2]
    have e1 : (⟨b.1.x, b.1.y⟩ : Location) = b.1 := by cases b.1; rfl
    have e2 : (⟨b.2.x, b.2.y⟩ : Location) = b.2 := by cases b.2; rfl
    rw [e1, e2]
    have hc' : (!((Location.defined b.1 && Location.defined b.2) || (decide (b.1.x ≤ b.2.x) && decide (b.1.y ≤ b.2.y)))) = false := by
      rw [hc]; rfl
    rw [hc']
    rfl
  simp only [O5mSpec.emitBox, tokDataset, hpl, stepDataset]
  simp [hdec, hd]
  rfl

theorem fold_boxes : ∀ (boxes : List (Location × Location)) (a : Acc) (rest : List Dataset),
    (∀ b ∈ boxes, BoxOk b) → a.headerDone = false → a.stop = false →
    foldDatasets {} a ((boxes.map O5mSpec.emitBox).map tokDataset ++ rest) =
      foldDatasets {} { a with hdr := { a.hdr with boxes := a.hdr.boxes ++ boxes } } rest
  | [], a, rest, _, _, _ => by simp
  | b :: bs, a, rest, hb, hd, hs => by
    have h1 := step_box a b (hb b (List.mem_cons_self)) hd
    have ih := fold_boxes bs { a with hdr := { a.hdr with boxes := a.hdr.boxes ++ [b] } } rest
      (fun x hx => hb x (List.mem_cons_of_mem _ hx)) hd hs
    simp only [List.map_cons, List.cons_append]
    rw [fold_cons_step a _ _ _ hs h1, ih]
    simp

theorem step_timestamp (a : Acc) (ts : Nat) (hts : ts < 4294967296) (hd : a.headerDone = false) :
    stepDataset {} a (tokDataset (.ds 0xdc [⟨.num, O5mSpec.svarint ts⟩])) = .ok { a with hdr := { a.hdr with timestamp := ts } } := by
  have hpl : O5mSpec.payload [⟨.num, O5mSpec.svarint ts⟩] = O5mSpec.svarint ts := by simp [O5mSpec.payload]
  have hI : InI64 (ts : Int) := by unfold InI64; omega
  have hz : zvarint (O5mSpec.svarint ts) = .ok ((ts : Int), []) := by
    simpa using zvarint_svarint _ hI []
  have hdec : decodeTimestamp (O5mSpec.svarint ts) = .ok ts := by
    simp only [decodeTimestamp, hz, ok_bind, toU32_nat ts hts]
    rfl
  simp only [tokDataset, hpl, stepDataset]
  simp [hdec, hd]
  rfl

theorem toks_length_le : ∀ (toks : List O5mSpec.Tok), (∀ t ∈ toks, TokWF t) → toks.length ≤ (O5mSpec.flattenToks toks).length
  | [], _ => by simp
  | t :: ts, h => by
    have ih := toks_length_le ts (fun x hx => h x (List.mem_cons_of_mem _ hx))
    have ht := h t (List.mem_cons_self)
    have : 1 ≤ t.bytes.length := by
      cases t with
      | raw bs => rcases ht with h | h <;> simp [O5mSpec.Tok.bytes, h]
      | ds ty fs => simp [O5mSpec.Tok.bytes]
    simp only [O5mSpec.flattenToks, List.map_cons, List.flatten_cons, List.length_append, List.length_cons] at ih ⊢
    omega

/-! ### the decidable domain predicates imply the propositional ones -/

theorem noNul_prop {s : Bytes} (h : O5mSpec.noNul s = true) : ∀ b ∈ s, b ≠ 0 := by
  intro b hb h0
  subst h0
  simp [O5mSpec.noNul] at h
  exact h hb

theorem inI64_prop {x : Int} (h : O5mSpec.inI64 x = true) : InI64 x := by
  simp [O5mSpec.inI64] at h
  exact h

theorem inI32_prop {x : Int} (h : O5mSpec.inI32 x = true) : InI32 x := by
  simp [O5mSpec.inI32] at h
  exact h

theorem tagOk_prop {t : Tag} (h : O5mSpec.tagOk t = true) : TagOk t := by
  simp only [O5mSpec.tagOk, Bool.and_eq_true, decide_eq_true_eq] at h
  exact ⟨noNul_prop h.1.1.1, noNul_prop h.1.1.2, h.1.2, h.2⟩

theorem metaOk_prop {m : Meta} (h : O5mSpec.metaOk m = true) : MetaOk m := by
  simp only [O5mSpec.metaOk, Bool.and_eq_true, decide_eq_true_eq, Bool.or_eq_true, bne_iff_ne, ne_eq, beq_iff_eq,
    List.all_eq_true, List.isEmpty_iff] at h
  obtain ⟨⟨⟨⟨⟨⟨⟨⟨⟨⟨⟨h1, h2⟩, h3⟩, h4⟩, h5⟩, h6⟩, h7⟩, h8⟩, h9⟩, h10⟩, h11⟩, h12⟩ := h
  refine ⟨inI64_prop h1, h2, h3, h4, h5, noNul_prop h6, h7, fun t ht => tagOk_prop (h8 t ht), ?_, ?_, ?_, ?_⟩
  · intro hv; rcases h9 with h | h
    · exact (h hv).elim
    · exact h
  · intro ht; rcases h10 with h | h
    · exact (h ht).elim
    · exact ⟨h.1.1, h.1.2, h.2⟩
  · intro hu; rcases h11 with h | h
    · exact (h hu).elim
    · exact h
  · intro hv; rcases h12 with h | h
    · rw [hv] at h; cases h
    · exact h

theorem memberOk_prop {x : Member} (h : O5mSpec.memberOk x = true) : MemberOk x := by
  simp only [O5mSpec.memberOk, Bool.and_eq_true, decide_eq_true_eq] at h
  exact ⟨⟨h.1.1.1.1, h.1.1.1.2⟩, inI64_prop h.1.1.2, noNul_prop h.1.2, h.2⟩

theorem objectOk_prop {o : Object} (h : O5mSpec.objectOk o = true) : ObjOk o := by
  cases o with
  | node m loc =>
    simp only [O5mSpec.objectOk, Bool.and_eq_true] at h
    refine ⟨metaOk_prop h.1, ?_, ?_⟩
    · intro hv
      have := h.2
      simp only [hv, ↓reduceIte, Bool.and_eq_true] at this
      exact ⟨inI32_prop this.1, inI32_prop this.2⟩
    · intro hv
      have := h.2
      simp only [hv, Bool.false_eq_true, ↓reduceIte, beq_iff_eq] at this
      exact this
  | way m refs =>
    simp only [O5mSpec.objectOk, Bool.and_eq_true, List.all_eq_true, Bool.or_eq_true, List.isEmpty_iff, beq_iff_eq] at h
    refine ⟨metaOk_prop h.1.1, fun r hr => ⟨inI64_prop (h.1.2 r hr).1, (h.1.2 r hr).2⟩, ?_⟩
    intro hv; rcases h.2 with h2 | h2
    · rw [hv] at h2; cases h2
    · exact h2
  | relation m ms =>
    simp only [O5mSpec.objectOk, Bool.and_eq_true, List.all_eq_true, Bool.or_eq_true, List.isEmpty_iff] at h
    refine ⟨metaOk_prop h.1.1, fun x hx => memberOk_prop (h.1.2 x hx), ?_⟩
    intro hv; rcases h.2 with h2 | h2
    · rw [hv] at h2; cases h2
    · exact h2
  | changeset => simp [O5mSpec.objectOk] at h

theorem boxOk_prop {b : Location × Location} (h : O5mSpec.boxOk b = true) : BoxOk b := by
  simp only [O5mSpec.boxOk, O5mSpec.locOk, Bool.and_eq_true] at h
  exact ⟨inI32_prop h.1.1.1, inI32_prop h.1.1.2, inI32_prop h.1.2.1, inI32_prop h.1.2.2, h.2⟩

/-! ### the whole file -/

/-- the tokens after the 7 header bytes -/
def restToks (ch : O5mSpec.Choices) (f : O5mSpec.File) : List O5mSpec.Tok :=
  (if ch.resetAtStart then [O5mSpec.Tok.raw [0xff]] else []) ++
  (if f.timestamp != 0 then [O5mSpec.Tok.ds 0xdc [⟨.num, O5mSpec.svarint f.timestamp⟩]] else []) ++
  f.boxes.map O5mSpec.emitBox ++
  O5mSpec.emitObjects ch { useRef := ch.useRef } ch.before f.objects ++
  (if ch.trailer == 0 then [O5mSpec.Tok.raw [0xfe]] else [])

theorem encode_eq (ch : O5mSpec.Choices) (f : O5mSpec.File) :
    O5mSpec.encode ch f = O5mSpec.headerBytes f.o5c ++ O5mSpec.flattenToks (restToks ch f) := by
  simp [O5mSpec.encode, O5mSpec.encodeToks, restToks, O5mSpec.flattenToks, O5mSpec.Tok.bytes]

theorem specRun_header (o5c : Bool) (X : Bytes) :
    C06.specO5mRun (O5mSpec.headerBytes o5c ++ X) = specO5mLoop ((O5mSpec.headerBytes o5c ++ X).length + 1) X [] := by
  cases o5c <;> simp [C06.specO5mRun, O5mSpec.headerBytes, o5mMagic] <;> omega

theorem decode_encode (ch : O5mSpec.Choices) (f : O5mSpec.File) (hd : O5mSpec.domainOk f = true)
    (hs : O5mSpec.sizeOk ch f = true) :
    decode {} (O5mSpec.encode ch f) = .ok (O5mSpec.expectedHeader f, f.objects) := by
  -- domain
  simp only [O5mSpec.domainOk, Bool.and_eq_true, List.all_eq_true, decide_eq_true_eq] at hd
  obtain ⟨⟨hobjs, hts⟩, hboxes⟩ := hd
  have hobjs' : ∀ o ∈ f.objects, ObjOk o := fun o ho => objectOk_prop (hobjs o ho)
  have hboxes' : ∀ b ∈ f.boxes, BoxOk b := fun b hb => boxOk_prop (hboxes b hb)
  simp only [O5mSpec.sizeOk, List.all_eq_true, decide_eq_true_eq] at hs
  have hsrest : ∀ t ∈ restToks ch f, O5mSpec.tokPayloadLen t < 2 ^ 64 := by
    intro t ht
    apply hs t
    simp only [O5mSpec.encodeToks, restToks, List.mem_append] at ht ⊢
    rcases ht with (((ht | ht) | ht) | ht) | ht
    · exact Or.inl (Or.inl (Or.inl (Or.inl (Or.inr ht))))
    · exact Or.inl (Or.inl (Or.inl (Or.inr ht)))
    · exact Or.inl (Or.inl (Or.inr ht))
    · exact Or.inl (Or.inr ht)
    · exact Or.inr ht
  -- the fold over the objects
  have hinv0 : AccInv
      ({ st := ({} : St).reset, hdr := O5mSpec.expectedHeader f, objs := [], headerDone := false, stop := false } : Acc)
      { useRef := ch.useRef } [] (O5mSpec.expectedHeader f) :=
    ⟨⟨TabRel.empty.clear, rfl, rfl, rfl, rfl, rfl, rfl, rfl, rfl, rfl⟩, rfl, rfl, rfl⟩
  have hinv0' : AccInv
      ({ st := ({} : St), hdr := O5mSpec.expectedHeader f, objs := [], headerDone := false, stop := false } : Acc)
      { useRef := ch.useRef } [] (O5mSpec.expectedHeader f) :=
    ⟨⟨TabRel.empty, rfl, rfl, rfl, rfl, rfl, rfl, rfl, rfl, rfl⟩, rfl, rfl, rfl⟩
  have hszobj : ∀ t ∈ O5mSpec.emitObjects ch { useRef := ch.useRef } ch.before f.objects, O5mSpec.tokPayloadLen t < 2 ^ 64 := by
    intro t ht
    apply hsrest t
    simp only [restToks, List.mem_append]
    exact Or.inl (Or.inr ht)
  -- all tokens are well formed
  have hwf_of : ∀ (a : Acc), AccInv a { useRef := ch.useRef } [] (O5mSpec.expectedHeader f) →
      ∃ a', foldDatasets {} a ((O5mSpec.emitObjects ch { useRef := ch.useRef } ch.before f.objects ++
          (if ch.trailer == 0 then [O5mSpec.Tok.raw [0xfe]] else [])).map tokDataset) = .ok a' ∧
        a'.hdr = O5mSpec.expectedHeader f ∧ a'.objs = f.objects.reverse ∧ a'.stop = false ∧
        (∀ t ∈ O5mSpec.emitObjects ch { useRef := ch.useRef } ch.before f.objects, TokWF t) := by
    intro a hinv
    obtain ⟨a', s', hf, hinv', hwf⟩ := fold_emitObjects ch f.objects { useRef := ch.useRef } ch.before a []
      (O5mSpec.expectedHeader f) ((if ch.trailer == 0 then [O5mSpec.Tok.raw [0xfe]] else []).map tokDataset) hinv hobjs' hszobj
    refine ⟨a', ?_, hinv'.hdr, by simpa using hinv'.objs, hinv'.stop, hwf⟩
    rw [List.map_append, hf]
    by_cases htr : (ch.trailer == 0) = true
    · simp [htr, tokDataset, foldDatasets, hinv'.stop, step_other]
    · simp [htr, foldDatasets]
  -- the header datasets
  have hhdr : ∃ a', foldDatasets {} ({ hdr := { multipleVersions := f.o5c } } : Acc) ((restToks ch f).map tokDataset) = .ok a' ∧
      a'.hdr = O5mSpec.expectedHeader f ∧ a'.objs = f.objects.reverse ∧ a'.stop = false ∧
      (∀ t ∈ O5mSpec.emitObjects ch { useRef := ch.useRef } ch.before f.objects, TokWF t) := by
    simp only [restToks, List.map_append, List.append_assoc]
    -- timestamp + boxes from any start state with an empty header
    have hrest : ∀ (st0 : St), AccInv ({ st := st0, hdr := O5mSpec.expectedHeader f, objs := [], headerDone := false, stop := false } : Acc)
        { useRef := ch.useRef } [] (O5mSpec.expectedHeader f) →
        ∃ a', foldDatasets {} ({ st := st0, hdr := { multipleVersions := f.o5c } } : Acc)
          ((if f.timestamp != 0 then [O5mSpec.Tok.ds 0xdc [⟨.num, O5mSpec.svarint f.timestamp⟩]] else []).map tokDataset ++
            ((f.boxes.map O5mSpec.emitBox).map tokDataset ++
              ((O5mSpec.emitObjects ch { useRef := ch.useRef } ch.before f.objects).map tokDataset ++
                (if ch.trailer == 0 then [O5mSpec.Tok.raw [0xfe]] else []).map tokDataset))) = .ok a' ∧
          a'.hdr = O5mSpec.expectedHeader f ∧ a'.objs = f.objects.reverse ∧ a'.stop = false ∧
          (∀ t ∈ O5mSpec.emitObjects ch { useRef := ch.useRef } ch.before f.objects, TokWF t) := by
      intro st0 hinv
      obtain ⟨a', hf, h1, h2, h3, h4⟩ := hwf_of _ hinv
      refine ⟨a', ?_, h1, h2, h3, h4⟩
      rw [List.map_append] at hf
      by_cases hts0 : f.timestamp = 0
      · have : (f.timestamp != 0) = false := by simp [hts0]
        simp only [this, Bool.false_eq_true, ↓reduceIte, List.map_nil, List.nil_append]
        rw [fold_boxes f.boxes _ _ hboxes' rfl rfl]
        have e : ({ st := st0, hdr := { multipleVersions := f.o5c, boxes := [] ++ f.boxes }, objs := [], headerDone := false, stop := false } : Acc) =
            { st := st0, hdr := O5mSpec.expectedHeader f, objs := [], headerDone := false, stop := false } := by
          simp [O5mSpec.expectedHeader, hts0]
        simp only [] at e ⊢
        rw [← hf]
        congr 1
      · have : (f.timestamp != 0) = true := by simp [hts0]
        simp only [this, ↓reduceIte, List.map_cons, List.map_nil, List.cons_append, List.nil_append]
        rw [fold_cons_step _ _ _ _ rfl (step_timestamp _ f.timestamp hts rfl)]
        rw [fold_boxes f.boxes _ _ hboxes' rfl rfl]
        rw [← hf]
        congr 1
    by_cases hra : ch.resetAtStart = true
    · simp only [hra, ↓reduceIte, List.map_cons, List.map_nil, List.cons_append, List.nil_append]
      have hstep : stepDataset {} ({ hdr := { multipleVersions := f.o5c } } : Acc) (tokDataset (.raw [0xff])) =
          .ok { st := ({} : St).reset, hdr := { multipleVersions := f.o5c } } := by
        simp [tokDataset, step_reset]
      rw [fold_cons_step _ _ _ _ rfl hstep]
      exact hrest _ hinv0
    · simp only [hra, Bool.false_eq_true, ↓reduceIte, List.map_nil, List.nil_append]
      exact hrest _ hinv0'
  obtain ⟨afin, hfold, hh, ho, hstop, hwfobj⟩ := hhdr
  -- well-formedness of all tokens, for the dataset loop
  have hwf : ∀ t ∈ restToks ch f, TokWF t := by
    intro t ht
    have hsz := hsrest t ht
    simp only [restToks, List.mem_append] at ht
    rcases ht with (((ht | ht) | ht) | ht) | ht
    · split at ht
      · simp at ht; subst ht; exact Or.inl rfl
      · simp at ht
    · split at ht
      · simp at ht; subst ht; exact ⟨by decide, hsz⟩
      · simp at ht
    · simp only [List.mem_map] at ht
      obtain ⟨b, _, rfl⟩ := ht
      exact ⟨by decide, hsz⟩
    · exact hwfobj t ht
    · split at ht
      · simp at ht; subst ht; exact Or.inr rfl
      · simp at ht
  -- the framing
  have hne : O5mSpec.encode ch f ≠ [] := by
    rw [encode_eq]; cases f.o5c <;> simp [O5mSpec.headerBytes]
  have hemp : (O5mSpec.encode ch f).isEmpty = false := by
    cases h : O5mSpec.encode ch f with
    | nil => exact (hne h).elim
    | cons a b => rfl
  have hrun : o5mRun [O5mSpec.encode ch f] = ((restToks ch f).map tokDataset, none) := by
    rw [C06.o5m_chunking [O5mSpec.encode ch f] (by intro c hc; simp at hc; subst hc; exact hne)]
    simp only [List.flatten_cons, List.flatten_nil, List.append_nil]
    rw [encode_eq, specRun_header]
    have hlen := toks_length_le (restToks ch f) hwf
    rw [specLoop_toks (restToks ch f) _ [] hwf (by simp only [List.length_append]; omega)]
    simp
  have hmv : (([O5mSpec.encode ch f] : List Bytes).flatten.drop 5).head? = some (if f.o5c then 0x63 else 0x6d) := by
    rw [encode_eq]; cases f.o5c <;> simp [O5mSpec.headerBytes]
  unfold decode
  simp only [hemp, Bool.false_eq_true, ↓reduceIte, decodeChunks, hrun]
  have hmv2 : ((([O5mSpec.encode ch f] : List Bytes).flatten.drop 5).head? == some 0x63) = f.o5c := by
    rw [hmv]; cases f.o5c <;> decide
  rw [hmv2, hfold]
  simp [hstop, hh, ho]

end Osmium.O5m
