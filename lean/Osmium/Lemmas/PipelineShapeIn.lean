/-
Input side of the shape invariants (C05/C07): the five theorems of the skeleton PipelineShapeIn0.lean,
proved from the invariants of PipelineShapeInA … PipelineShapeInG:
  `invN` ids, `invK` program-counter discipline, `invPre` FIFO prefix, `invR` shape of the read thread's
  push() calls, `invP` parser discipline, `invD` state after the end of the input, `invFR` futures set.
-/
import Osmium.Lemmas.PipelineShapeInDefs
import Osmium.Lemmas.PipelineShapeInG

set_option linter.unusedSimpArgs false
set_option linter.unusedVariables false

namespace Osmium.Pipeline

open Osmium.Mon

variable {α : Type} [DecidableEq α]

/-- once the parser has seen the end of its input, no exception of the read thread is or was on its
    way (an exception future precedes the end marker and the parser stops at it) -/
theorem in_done_clean (c : Cfg α) (s : State α) (h : (machine c).Reachable s) :
    s.inputDone = true → ¬ InExc s := by
  intro hd hx
  obtain ⟨k, hW, _, _, hf⟩ := ShapeIn.invD c s h hd
  rcases hx with ⟨v, hv, he⟩ | ⟨y, hy, he⟩
  · have := ShapeIn.rFin_held hf v hv
    subst this
    exact he
  · have hm : s.want y.2 ∈ ShapeIn.inW s := List.mem_map.mpr ⟨y, hy, rfl⟩
    rw [hW, List.mem_append] at hm
    rcases hm with hm | hm
    · obtain ⟨i, hi, _⟩ := ShapeIn.mem_chunks k _ hm
      rw [hi] at he; exact he
    · simp only [List.mem_singleton] at hm
      rw [hm] at he; exact he

/-- once the parser has seen the end of its input, it has received ALL chunks — unless the consumer
    asked the read thread to stop -/
theorem in_complete (c : Cfg α) (wf : c.WF) (s : State α) (h : (machine c).Reachable s) :
    s.inputDone = true → s.stop = true ∨ s.avail = c.file.length := by
  intro hd
  obtain ⟨k, _, ha, hs, _⟩ := ShapeIn.invD c s h hd
  rcases hs with hs | hs
  · exact .inl hs
  · right
    rw [ha, hs]
    have hl := wf.chunk_last
    rw [List.getLast?_eq_getElem?] at hl
    have hne : c.chunkEnd.length ≠ 0 := by
      intro h0
      have : c.chunkEnd = [] := List.eq_nil_of_length_eq_zero h0
      rw [this] at hl; simp at hl
    simp only [ShapeIn.availOf, hne, if_false, nth, List.getD_eq_getElem?_getD, hl, Option.getD_some]

/-- the parser never has more than the file -/
theorem avail_le (c : Cfg α) (wf : c.WF) (s : State α) (h : (machine c).Reachable s) :
    s.avail ≤ c.file.length := by
  rcases (ShapeIn.invP c s h).p_av with h0 | hm
  · omega
  · exact wf.chunk_le _ hm

/-- wait-for fact of the progress proof: if the read thread has returned and the parser is blocked in
    wait_and_pop on the input queue, its wait predicate holds -/
theorem inq_marker (c : Cfg α) (s : State α) (h : (machine c).Reachable s) :
    s.rpc = .done → s.ppc = .popWait → s.inq.pc tP = .popWaiting → QueueSM.pred s.inq = true := by
  intro hr hp _
  cases hpred : QueueSM.pred s.inq with
  | true => rfl
  | false =>
    exfalso
    obtain ⟨hu, hi⟩ := QueueSM.pred_false hpred
    have hK := ShapeIn.invK c s h
    have hN := ShapeIn.invN c s h
    have hpre := ShapeIn.q_prefix c.inqC s.inq (Q.reachable_inq c s h) hu tR (fun x hx => (hN.n_ic x hx).2.2)
    have hidle : s.inq.pc tR = .idle := hK.k_r (by rw [hr]; intro id v k; simp)
    simp only [QueueSM.inflight, hidle, QueueSM.carry, hi, List.append_nil] at hpre
    obtain ⟨j, _, hPW⟩ := (ShapeIn.invP c s h).p_run (by rw [hp]; rfl) (hK.k_m (.inl hp)).2
    rw [hp] at hPW
    simp only [ShapeIn.gotW, List.append_nil, ShapeIn.PW, hpre] at hPW
    obtain ⟨k, tail, hW, _, hS⟩ := ShapeIn.invR c s h
    rw [hr] at hS
    simp only [ShapeIn.inW] at hW
    have hm : (Val.eod : Val α) ∈ ShapeIn.chunks j := by
      rw [← hPW, hW]
      simp only [ShapeIn.RS] at hS
      rcases hS with ⟨h1, _⟩ | ⟨e, h1⟩ <;> simp [h1]
    obtain ⟨i, hi, _⟩ := ShapeIn.mem_chunks j _ hm
    simp at hi

/-- wait-for fact: once the read thread has returned, a future the parser holds is ready -/
theorem inq_fut_ready (c : Cfg α) (s : State α) (h : (machine c).Reachable s) :
    s.rpc = .done → ∀ id, s.ppc = .got id → s.fut id ≠ none := by
  intro hr id hp
  obtain ⟨⟨y, hy, hid⟩, _⟩ := ShapeIn.pget_id s (ShapeIn.invPre c s h) (ShapeIn.invN c s h) id hp
  have := (ShapeIn.invFR c s h).fr y hy (by rw [hr]; simp [ShapeIn.rIn])
  rw [hid] at this
  exact this

end Osmium.Pipeline
