/-
Reader half of `xml_decode_spec` (C02), part 5: changesets with discussions of the specification
renderer at event level.
-/
import Osmium.Lemmas.XmlSpecRead4
import Osmium.Lemmas.XmlFmtCs2

namespace Osmium.XmlFmt.XmlSpec
open Osmium.Osm Osmium.TextFmt Osmium.Conv Osmium.XmlFmt

theorem run_charsEv (t : Bytes) (tl : List Ev) (st : RSt) :
    runEvents {} (Ev.chars t :: tl) st = runEvents {} tl (characters {} st t) := rfl

/-! ### one comment -/

theorem comment_attrs_spec (ch : Choices) (x : Comment) (hx : XCommentOK x) :
    commentAttrs (OplFmt.OplSpec.pick ch.attrOrder [("uid", num x.uid), ("user", x.user), ("date", toIsoAll x.date)])
      ⟨0, 0, [], []⟩ = .ok ⟨x.date, x.uid, x.user, []⟩ := by
  have hu := rUlong_num x.uid hx.2.1
  have hd := rTimestamp_toIsoAll x.date hx.1
  rw [commentAttrs_pick _ _ (by simp (config := { decide := true })) (by
    intro a ha
    simp only [List.mem_cons, List.not_mem_nil, or_false] at ha
    rcases ha with rfl | rfl | rfl <;> simp (config := { decide := true }) [comGood, hu, hd])]
  simp (config := { decide := true }) [commentAttrs, hu, hd]

theorem comment_run_ev (ch : Choices) (wsE : Nat → List Ev) (hws : WsOnly wsE) (lvl : Nat) (x : Comment) (hx : XCommentOK x)
    (tl : List Ev) (st : RSt) (rest : List Ctx) (c : Cur) (pre : List Sub) (cs0 : List Comment)
    (hs : st.stack = .discussion :: rest) (hc : st.cur = some c) (hsub : c.subs = pre ++ [.discussion cs0])
    (hct : st.commentText = []) (hcp : st.commentPending = false) :
    runEvents {} (elEvs ch wsE lvl "comment" [("uid", num x.uid), ("user", x.user), ("date", toIsoAll x.date)]
        [textEvs wsE (lvl + 1) x.text] ++ tl) st =
      runEvents {} tl { st with cur := some { c with subs := pre ++ [.discussion (cs0 ++ [x])] } } := by
  let x0 : Comment := ⟨x.date, x.uid, x.user, []⟩
  let st1 : RSt := { st with stack := .comment :: .discussion :: rest, cur := some (addComment c x0), commentPending := true }
  let st2 : RSt := { st1 with stack := .text :: .comment :: .discussion :: rest }
  let st3 : RSt := { st2 with commentText := x.text }
  let st4 : RSt := { st3 with stack := .comment :: .discussion :: rest, cur := some (setCommentText (addComment c x0) x.text),
                              commentText := [], commentPending := false }
  have hulen : x0.user.length ≤ 1024 := (xstrOK_spec hx.2.2.1).choose_spec.2.2
  let st5 : RSt := { st4 with stack := .discussion :: rest }
  have hnt : NoText st := by unfold NoText; rw [hs]; simp
  have hnt1 : NoText st1 := by unfold NoText; simp [st1]
  have hnt4 : NoText st4 := by unfold NoText; simp [st4]
  have h1 : startElement {} st "comment" (OplFmt.OplSpec.pick ch.attrOrder [("uid", num x.uid), ("user", x.user), ("date", toIsoAll x.date)])
      = .ok st1 := comment_step st rest c hs hc _ x0 (comment_attrs_spec ch x hx) hulen
  have h2 : startElement {} st1 "text" [] = .ok st2 := text_open_step st1 (.discussion :: rest) rfl [] rfl
  have h3 : runEvents {} ((if x.text.isEmpty then [] else [Ev.chars x.text]) ++ Ev.stop "text" :: (wsE lvl ++ Ev.stop "comment" :: tl)) st2 =
      runEvents {} (Ev.stop "text" :: (wsE lvl ++ Ev.stop "comment" :: tl)) st3 := by
    cases ht : x.text with
    | nil =>
      have : st3 = st2 := by simp only [st3, st2, st1, ht, hct]
      rw [this]; rfl
    | cons b bs =>
      simp only [List.isEmpty_cons, Bool.false_eq_true, if_false, List.cons_append, List.nil_append]
      rw [run_charsEv, text_chars_step st2 (.comment :: .discussion :: rest) rfl]
      have : ({ st2 with commentText := st2.commentText ++ b :: bs } : RSt) = st3 := by
        simp only [st3, st2, st1, ht, hct, List.nil_append]
      rw [this]
  have h4 : endElement {} st3 = .ok st4 := text_close_step st3 (.comment :: .discussion :: rest) (addComment c x0) rfl rfl
  have h5 : endElement {} st4 = .ok st5 := comment_close_step st4 (.discussion :: rest) rfl rfl
  have hfin : st5 = { st with cur := some { c with subs := pre ++ [.discussion (cs0 ++ [x])] } } := by
    have := comment_collect c pre cs0 hsub x0 x.text
    simp only [st5, st4, st3, st2, st1, this, x0, hs, hct, hcp]
  rw [run_open ch wsE hws lvl "comment" _ _ tl st st1 hnt h1]
  simp only [List.flatten_cons, List.flatten_nil, List.append_nil, textEvs, List.isEmpty_cons, Bool.false_eq_true, if_false,
    List.append_assoc, List.cons_append, List.nil_append]
  rw [run_chars _ _ _ (hws _) hnt1, run_start, h2]
  simp only [bindE_ok]
  rw [h3, run_stop, h4]
  simp only [bindE_ok]
  rw [run_chars _ _ _ (hws _) hnt4, run_stop, h5]
  simp only [bindE_ok]
  rw [hfin]

theorem comments_run_ev (ch : Choices) (wsE : Nat → List Ev) (hws : WsOnly wsE) (lvl : Nat) (cs : List Comment)
    (hcs : ∀ x ∈ cs, XCommentOK x) (tl : List Ev) (rest : List Ctx) (pre : List Sub) :
    ∀ (cs0 : List Comment) (st : RSt) (c : Cur), st.stack = .discussion :: rest → st.cur = some c →
      c.subs = pre ++ [.discussion cs0] → st.commentText = [] → st.commentPending = false →
      runEvents {} ((cs.map fun x => elEvs ch wsE lvl "comment" [("uid", num x.uid), ("user", x.user), ("date", toIsoAll x.date)]
          [textEvs wsE (lvl + 1) x.text]).flatten ++ tl) st =
        runEvents {} tl { st with cur := some { c with subs := pre ++ [.discussion (cs0 ++ cs)] } } := by
  induction cs with
  | nil =>
    intro cs0 st c hs hc hsub hct hcp
    have : ({ st with cur := some { c with subs := pre ++ [.discussion (cs0 ++ [])] } } : RSt) = st := by
      rcases st with ⟨stack, header, version, headerOut, cur, out, ct⟩
      rcases c with ⟨obj, subs, lo⟩
      simp only at hc hsub
      subst hc hsub
      simp
    rw [this]; rfl
  | cons x cs ih =>
    intro cs0 st c hs hc hsub hct hcp
    simp only [List.map_cons, List.flatten_cons, List.append_assoc]
    rw [comment_run_ev ch wsE hws lvl x (hcs x (by simp)) _ st rest c pre cs0 hs hc hsub hct hcp]
    have := ih (fun y hy => hcs y (by simp [hy])) (cs0 ++ [x])
      { st with cur := some { c with subs := pre ++ [.discussion (cs0 ++ [x])] } }
      { c with subs := pre ++ [.discussion (cs0 ++ [x])] } hs rfl rfl hct hcp
    rw [this]
    simp

/-! ### `init_changeset` on the permuted attributes -/

/-- the attribute list of `<changeset>` with each optional group present or not (as in `cs_chain`) -/
def csAttrs (b1 b2 b3 b4 : Bool) (idv cav clv usr uv y1 x1 y2 x2 ncv ccv : Bytes) : List Attr :=
  [("id", idv)] ++ optA b1 "created_at" cav ++
    (if b2 then [("closed_at", clv), ("open", bFalse)] else [("open", bTrue)]) ++
    (if b3 then [("user", usr), ("uid", uv)] else []) ++
    (if b4 then [("min_lat", y1), ("min_lon", x1)] ++ [("max_lat", y2), ("max_lon", x2)] else []) ++
    [("num_changes", ncv), ("comments_count", ccv)]

theorem csAttrs_nodup (b1 b2 b3 b4 : Bool) (idv cav clv usr uv y1 x1 y2 x2 ncv ccv : Bytes) :
    ((csAttrs b1 b2 b3 b4 idv cav clv usr uv y1 x1 y2 x2 ncv ccv).map Prod.fst).Nodup := by
  cases b1 <;> cases b2 <;> cases b3 <;> cases b4 <;> simp (config := { decide := true }) [csAttrs, optA]

theorem csAttrs_good (b1 b2 b3 b4 : Bool) (idv cav clv usr uv y1 x1 y2 x2 ncv ccv : Bytes) (idx cax clx ux ncx ccx : Nat)
    (Y1 X1 Y2 X2 : Int)
    (h_id : rUlong idv = .ok idx) (h_ca : rTimestamp cav = .ok cax) (h_cl : rTimestamp clv = .ok clx)
    (h_u : rUlong uv = .ok ux) (h_y1 : rCoord y1 = .ok Y1) (h_x1 : rCoord x1 = .ok X1) (h_y2 : rCoord y2 = .ok Y2)
    (h_x2 : rCoord x2 = .ok X2) (h_nc : rUlong ncv = .ok ncx) (h_cc : rUlong ccv = .ok ccx)
    (h_usr : usr.length ≤ 1024) :
    ∀ a ∈ csAttrs b1 b2 b3 b4 idv cav clv usr uv y1 x1 y2 x2 ncv ccv, csGood a := by
  cases b1 <;> cases b2 <;> cases b3 <;> cases b4 <;>
    simp (config := { decide := true }) [csAttrs, optA, csGood, h_id, h_ca, h_cl, h_u, h_y1, h_x1, h_y2, h_x2, h_nc, h_cc,
      h_usr]

theorem cs_init_spec (ch : Choices) (id ca cl nc ncm : Nat) (uid : Int) (user : Bytes) (bl tr : Location) (tags : List Tag)
    (cs : List Comment) (h : XCsOK id ca cl nc ncm uid user bl tr tags cs) :
    initChangeset (OplFmt.OplSpec.pick ch.attrOrder
      ([("id", num id)] ++ (if ca == 0 then [] else [("created_at", toIso ca)]) ++
        (if cl == 0 then [("open", bTrue)] else [("closed_at", toIso cl), ("open", bFalse)]) ++
        (if uid == 0 then [] else [("user", user), ("uid", num uid)]) ++
        (if isUndefined bl && isUndefined tr then [] else latLon "min_lat" "min_lon" bl ++ latLon "max_lat" "max_lon" tr) ++
        [("num_changes", num nc), ("comments_count", num ncm)])) =
      .ok (.changeset id ca cl nc ncm (if uid != 0 then uid else 0) (if uid != 0 then user else []) bl tr [] []) := by
  have rid := rUlong_num id h.id
  have rnc := rUlong_num nc h.nc
  have rcc := rUlong_num ncm h.ncm
  have ru := rUlong_num uid.toNat (by have := h.uid1; omega)
  have huid : ((uid.toNat : Nat) : Int) = uid := Int.toNat_of_nonneg h.uid0
  rw [huid] at ru
  obtain ⟨bx0, bx1, by0, by1⟩ := h.bl
  obtain ⟨tx0, tx1, ty0, ty1⟩ := h.tr
  have eform : ([("id", num id)] ++ (if ca == 0 then [] else [("created_at", toIso ca)]) ++
        (if cl == 0 then [("open", bTrue)] else [("closed_at", toIso cl), ("open", bFalse)]) ++
        (if uid == 0 then [] else [("user", user), ("uid", num uid)]) ++
        (if isUndefined bl && isUndefined tr then [] else latLon "min_lat" "min_lon" bl ++ latLon "max_lat" "max_lon" tr) ++
        [("num_changes", num nc), ("comments_count", num ncm)]) =
      csAttrs (ca != 0) (cl != 0) (uid != 0) (!isUndefined bl || !isUndefined tr) (num id) (toIsoAll ca) (toIsoAll cl) user
        (num uid) (formatCoord bl.y) (formatCoord bl.x) (formatCoord tr.y) (formatCoord tr.x) (num nc) (num ncm) := by
    unfold csAttrs optA latLon
    generalize isUndefined bl = u1
    generalize isUndefined tr = u2
    cases hca : (ca != 0) <;> cases hcl : (cl != 0) <;> cases hui : (uid != 0) <;> cases u1 <;> cases u2 <;>
      simp at hca hcl hui <;> simp [toIso, hca, hcl, hui]
  rw [eform]
  unfold initChangeset
  rw [initChangesetAttrs_pick _ _ (csAttrs_nodup ..) (csAttrs_good _ _ _ _ _ _ _ _ _ _ _ _ _ _ _ _ _ _ _ _ _ _ _ _ _
    rid (rTimestamp_toIsoAll ca h.ca) (rTimestamp_toIsoAll cl h.cl) ru
      (rCoord_formatCoord _ by0 by1) (rCoord_formatCoord _ bx0 bx1) (rCoord_formatCoord _ ty0 ty1)
      (rCoord_formatCoord _ tx0 tx1) rnc rcc (xstrOK_spec h.user).choose_spec.2.2)]
  have hch := cs_chain (ca != 0) (cl != 0) (uid != 0) (!isUndefined bl || !isUndefined tr) (num id) (toIsoAll ca) (toIsoAll cl)
      user (num uid) (formatCoord bl.y) (formatCoord bl.x) (formatCoord tr.y) (formatCoord tr.x) (num nc) (num ncm) id ca cl uid.toNat nc ncm
      bl.y bl.x tr.y tr.x rid (rTimestamp_toIsoAll ca h.ca) (rTimestamp_toIsoAll cl h.cl) ru
      (rCoord_formatCoord _ by0 by1) (rCoord_formatCoord _ bx0 bx1) (rCoord_formatCoord _ ty0 ty1)
      (rCoord_formatCoord _ tx0 tx1) rnc rcc (xstrOK_spec h.user).choose_spec.2.2
  unfold csAttrs
  rw [hch]
  simp only [bindE_ok]
  have c1 : (if (ca != 0) = true then ca else 0) = ca := by
    cases hca : (ca != 0)
    · simp at hca; simp [hca]
    · simp
  have c2 : (if (cl != 0) = true then cl else 0) = cl := by
    cases hcl : (cl != 0)
    · simp at hcl; simp [hcl]
    · simp
  have c3 : ((if (uid != 0) = true then uid.toNat else 0 : Nat) : Int) = (if (uid != 0) = true then uid else 0) := by
    cases hui : (uid != 0) <;> simp [huid]
  have c4 : (if (!isUndefined bl || !isUndefined tr) = true then (⟨bl.x, bl.y⟩ : Location) else Location.undefined) = bl := by
    cases hb : (!isUndefined bl || !isUndefined tr)
    · simp only [Bool.or_eq_false_iff, Bool.not_eq_false'] at hb
      simp [(isUndefined_iff bl).1 hb.1]
    · simp
  have c5 : (if (!isUndefined bl || !isUndefined tr) = true then (⟨tr.x, tr.y⟩ : Location) else Location.undefined) = tr := by
    cases hb : (!isUndefined bl || !isUndefined tr)
    · simp only [Bool.or_eq_false_iff, Bool.not_eq_false'] at hb
      simp [(isUndefined_iff tr).1 hb.2]
    · simp
  simp only [c1, c2, c3, c4, c5]

/-! ### `<discussion>` -/

theorem discussion_run_ev (ch : Choices) (wsE : Nat → List Ev) (hws : WsOnly wsE) (lvl : Nat) (cs : List Comment)
    (hcs : ∀ x ∈ cs, XCommentOK x) (tl : List Ev) (st : RSt) (rest : List Ctx) (c : Cur)
    (hs : st.stack = .changeset :: rest) (hc : st.cur = some c) (hl : ∀ cs', c.subs.getLast? ≠ some (.discussion cs'))
    (hct : st.commentText = []) (hcp : st.commentPending = false) :
    runEvents {} (elEvs ch wsE lvl "discussion" [] (cs.map fun x =>
        elEvs ch wsE (lvl + 1) "comment" [("uid", num x.uid), ("user", x.user), ("date", toIsoAll x.date)]
          [textEvs wsE (lvl + 2) x.text]) ++ tl) st =
      runEvents {} tl { st with cur := some { c with subs := c.subs ++ [.discussion cs], lastOpen := true } } := by
  let c1 : Cur := { c with subs := c.subs ++ [.discussion []], lastOpen := true }
  let st1 : RSt := { st with stack := .discussion :: .changeset :: rest, cur := some c1 }
  let c2 : Cur := { c1 with subs := c.subs ++ [.discussion ([] ++ cs)] }
  let st2 : RSt := { st1 with cur := some c2 }
  have hnt : NoText st := by unfold NoText; rw [hs]; simp
  have hnt2 : NoText st2 := by unfold NoText; simp [st2, st1]
  have h1 : startElement {} st "discussion" (OplFmt.OplSpec.pick ch.attrOrder []) = .ok st1 := by
    rw [xpick_nil, discussion_open_step st rest c hs hc [], openDiscussion_fresh c hl]
  have h2 := comments_run_ev ch wsE hws (lvl + 1) cs hcs
    ((if (cs.map fun x => elEvs ch wsE (lvl + 1) "comment" [("uid", num x.uid), ("user", x.user), ("date", toIsoAll x.date)]
          [textEvs wsE (lvl + 2) x.text]).isEmpty then [] else wsE lvl) ++ Ev.stop "discussion" :: tl)
    (.changeset :: rest) c.subs [] st1 c1 rfl rfl rfl hct hcp
  have h3 : endElement {} st2 = .ok { st2 with stack := .changeset :: rest } := discussion_close_step st2 (.changeset :: rest) rfl
  have hfin : ({ st2 with stack := .changeset :: rest } : RSt) =
      { st with cur := some { c with subs := c.subs ++ [.discussion cs], lastOpen := true } } := by
    simp only [st2, st1, c2, c1, hs, List.nil_append]
  rw [run_open ch wsE hws lvl "discussion" _ _ tl st st1 hnt h1, h2]
  rw [run_chars _ _ _ (allChars_if hws _ _) hnt2, run_stop, h3]
  simp only [bindE_ok]
  rw [hfin]

/-! ### the whole `<changeset>` -/

theorem firstTags_append_disc (pre : List Sub) (cs : List Comment) (hpre : pre = [] ∨ ∃ x, pre = [.tags x]) :
    firstTags (pre ++ [.discussion cs]) = firstTags pre ∧ firstDiscussion (pre ++ [.discussion cs]) = cs := by
  rcases hpre with rfl | ⟨x, rfl⟩ <;> simp [firstTags, firstDiscussion]

theorem changeset_run_ev (ch : Choices) (wsE : Nat → List Ev) (hws : WsOnly wsE) (lvl : Nat) (id ca cl nc ncm : Nat) (uid : Int)
    (user : Bytes) (bl tr : Location) (tags : List Tag) (cs : List Comment) (h : XCsOK id ca cl nc ncm uid user bl tr tags cs)
    (st : RSt) (p : Ctx) (hp : TopParent p) (rest : List Ctx) (hs : st.stack = p :: rest) (hc : st.cur = none)
    (hct : st.commentText = []) (hcp : st.commentPending = false) (tl : List Ev) :
    runEvents {} (objectEvs ch wsE lvl (.changeset id ca cl nc ncm uid user bl tr tags cs) ++ tl) st =
      runEvents {} tl { markDone st with out := project (specOpts ch) (.changeset id ca cl nc ncm uid user bl tr tags cs) :: st.out } := by
  have hnt : NoText st := by unfold NoText; rw [hs]; rcases hp with rfl | rfl <;> simp
  let ob0 : Object := .changeset id ca cl nc ncm (if uid != 0 then uid else 0) (if uid != 0 then user else []) bl tr [] []
  have hproj : project (specOpts ch) (.changeset id ca cl nc ncm uid user bl tr tags cs) =
      .changeset id ca cl nc ncm (if uid != 0 then uid else 0) (if uid != 0 then user else []) bl tr tags cs := rfl
  obtain ⟨pre, lo, hcol, hpre, hft⟩ := tags_first_collected ob0 tags
  have hstart : ∀ as, initChangeset (OplFmt.OplSpec.pick ch.attrOrder as) = .ok ob0 →
      startElement {} st "changeset" (OplFmt.OplSpec.pick ch.attrOrder as) =
        .ok { markDone (push st .changeset) with cur := some { obj := ob0 } } := by
    intro as hi
    rw [start_changeset st p hp rest hs, hi]
    rfl
  have hinit := cs_init_spec ch id ca cl nc ncm uid user bl tr tags cs h
  simp only [objectEvs]
  cases hcs : cs with
  | nil =>
    subst hcs
    simp only [List.isEmpty_nil, if_true, List.append_nil]
    rw [obj_frame ch wsE hws lvl "changeset" .changeset (Or.inr (Or.inr (Or.inr rfl))) _ _ tl st _ rest hnt hs hc ob0
      (tags.foldl addTag { obj := ob0 }) (hstart _ hinit)
      (fun st1 tl' hs1 hc1 _ => ⟨_, tags_run_ev ch wsE hws (lvl + 1) tags h.tags tl' .changeset (Or.inr (Or.inr (Or.inr rfl))) _ st1 _ hs1 hc1, rfl⟩)]
    rw [hcol, assemble_changeset _ id ca cl nc ncm _ _ bl tr [] [] tags [] rfl hft (by
      rcases hpre with rfl | ⟨x, rfl⟩ <;> rfl), hproj]
  | cons x xs =>
    rw [← hcs]
    have hne : cs.isEmpty = false := by rw [hcs]; rfl
    have hl : ∀ cs', ({ obj := ob0, subs := pre, lastOpen := lo } : Cur).subs.getLast? ≠ some (.discussion cs') := by
      rcases hpre with rfl | ⟨x, rfl⟩ <;> simp
    simp only [hne, Bool.false_eq_true, if_false]
    rw [obj_frame ch wsE hws lvl "changeset" .changeset (Or.inr (Or.inr (Or.inr rfl))) _ _ tl st _ rest hnt hs hc ob0
      { obj := ob0, subs := pre ++ [.discussion cs], lastOpen := true } (hstart _ hinit)
      (fun st1 tl' hs1 hc1 hct1 => ⟨_, by
        rw [List.flatten_append, List.append_assoc,
          tags_run_ev ch wsE hws (lvl + 1) tags h.tags _ .changeset (Or.inr (Or.inr (Or.inr rfl))) _ st1 _ hs1 hc1, hcol]
        simp only [List.flatten_cons, List.flatten_nil, List.append_nil]
        exact discussion_run_ev ch wsE hws (lvl + 1) cs h.cs tl' _ _ { obj := ob0, subs := pre, lastOpen := lo } hs1 rfl hl
          (hct1.1.trans hct) (hct1.2.trans hcp), rfl⟩)]
    obtain ⟨f1, f2⟩ := firstTags_append_disc pre cs hpre
    rw [assemble_changeset _ id ca cl nc ncm _ _ bl tr [] [] tags cs rfl (f1.trans hft) f2, hproj]

end Osmium.XmlFmt.XmlSpec
