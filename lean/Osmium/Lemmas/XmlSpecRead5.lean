/-
Reader half of `xml_decode_spec` (C02), part 5: changesets with discussions of the specification
renderer at event level.
-/
import Osmium.Lemmas.XmlSpecRead4
import Osmium.Lemmas.XmlFmtCs2

namespace Osmium.XmlFmt.XmlSpec
open Osmium.Osm Osmium.TextFmt Osmium.Conv Osmium.XmlFmt

theorem run_charsEv (t : Bytes) (tl : List Ev) (st : RSt) :
    runEvents {} (Ev.chars t :: tl) st = runEvents {} tl (characters {} st t) := rfl

/-! ### one comment -/

theorem comment_attrs_spec (ch : Choices) (x : Comment) (hx : XCommentOK x) :
    commentAttrs (OplFmt.OplSpec.pick ch.attrOrder [("uid", num x.uid), ("user", x.user), ("date", toIsoAll x.date)])
      ⟨0, 0, [], []⟩ = .ok ⟨x.date, x.uid, x.user, []⟩ := by
  have hu := rUlong_num x.uid hx.2.1
  have hd := rTimestamp_toIsoAll x.date hx.1
  rw [commentAttrs_pick _ _ (by simp (config := { decide := true })) (by
    intro a ha
    simp only [List.mem_cons, List.not_mem_nil, or_false] at ha
    rcases ha with rfl | rfl | rfl <;> simp (config := { decide := true }) [comGood, hu, hd])]
  simp (config := { decide := true }) [commentAttrs, hu, hd]

theorem comment_run_ev (ch : Choices) (wsE : Nat → List Ev) (hws : WsOnly wsE) (lvl : Nat) (x : Comment) (hx : XCommentOK x)
    (tl : List Ev) (st : RSt) (rest : List Ctx) (c : Cur) (pre : List Sub) (cs0 : List Comment)
    (hs : st.stack = .discussion :: rest) (hc : st.cur = some c) (hsub : c.subs = pre ++ [.discussion cs0])
    (hct : st.commentText = []) :
    runEvents {} (elEvs ch wsE lvl "comment" [("uid", num x.uid), ("user", x.user), ("date", toIsoAll x.date)]
        [textEvs wsE (lvl + 1) x.text] ++ tl) st =
      runEvents {} tl { st with cur := some { c with subs := pre ++ [.discussion (cs0 ++ [x])] } } := by
  let x0 : Comment := ⟨x.date, x.uid, x.user, []⟩
  let st1 : RSt := { st with stack := .comment :: .discussion :: rest, cur := some (addComment c x0) }
  let st2 : RSt := { st1 with stack := .text :: .comment :: .discussion :: rest }
  let st3 : RSt := { st2 with commentText := x.text }
  let st4 : RSt := { st3 with stack := .comment :: .discussion :: rest, cur := some (setCommentText (addComment c x0) x.text),
                              commentText := [] }
  let st5 : RSt := { st4 with stack := .discussion :: rest }
  have hnt : NoText st := by unfold NoText; rw [hs]; simp
  have hnt1 : NoText st1 := by unfold NoText; simp [st1]
  have hnt4 : NoText st4 := by unfold NoText; simp [st4]
  have h1 : startElement {} st "comment" (OplFmt.OplSpec.pick ch.attrOrder [("uid", num x.uid), ("user", x.user), ("date", toIsoAll x.date)])
      = .ok st1 := comment_step st rest c hs hc _ x0 (comment_attrs_spec ch x hx)
  have h2 : startElement {} st1 "text" [] = .ok st2 := text_open_step st1 (.discussion :: rest) rfl []
  have h3 : runEvents {} ((if x.text.isEmpty then [] else [Ev.chars x.text]) ++ Ev.stop "text" :: (wsE lvl ++ Ev.stop "comment" :: tl)) st2 =
      runEvents {} (Ev.stop "text" :: (wsE lvl ++ Ev.stop "comment" :: tl)) st3 := by
    cases ht : x.text with
    | nil =>
      have : st3 = st2 := by simp only [st3, st2, st1, ht, hct]
      rw [this]; rfl
    | cons b bs =>
      simp only [List.isEmpty_cons, Bool.false_eq_true, if_false, List.cons_append, List.nil_append]
      rw [run_charsEv, text_chars_step st2 (.comment :: .discussion :: rest) rfl]
      have : ({ st2 with commentText := st2.commentText ++ b :: bs } : RSt) = st3 := by
        simp only [st3, st2, st1, ht, hct, List.nil_append]
      rw [this]
  have h4 : endElement {} st3 = .ok st4 := text_close_step st3 (.comment :: .discussion :: rest) (addComment c x0) rfl rfl
  have h5 : endElement {} st4 = .ok st5 := comment_close_step st4 (.discussion :: rest) rfl
  have hfin : st5 = { st with cur := some { c with subs := pre ++ [.discussion (cs0 ++ [x])] } } := by
    have := comment_collect c pre cs0 hsub x0 x.text
    simp only [st5, st4, st3, st2, st1, this, x0, hs, hct]
  rw [run_open ch wsE hws lvl "comment" _ _ tl st st1 hnt h1]
  simp only [List.flatten_cons, List.flatten_nil, List.append_nil, textEvs, List.isEmpty_cons, Bool.false_eq_true, if_false,
    List.append_assoc, List.cons_append, List.nil_append]
  rw [run_chars _ _ _ (hws _) hnt1, run_start, h2]
  simp only [bindE_ok]
  rw [h3, run_stop, h4]
  simp only [bindE_ok]
  rw [run_chars _ _ _ (hws _) hnt4, run_stop, h5]
  simp only [bindE_ok]
  rw [hfin]

theorem comments_run_ev (ch : Choices) (wsE : Nat → List Ev) (hws : WsOnly wsE) (lvl : Nat) (cs : List Comment)
    (hcs : ∀ x ∈ cs, XCommentOK x) (tl : List Ev) (rest : List Ctx) (pre : List Sub) :
    ∀ (cs0 : List Comment) (st : RSt) (c : Cur), st.stack = .discussion :: rest → st.cur = some c →
      c.subs = pre ++ [.discussion cs0] → st.commentText = [] →
      runEvents {} ((cs.map fun x => elEvs ch wsE lvl "comment" [("uid", num x.uid), ("user", x.user), ("date", toIsoAll x.date)]
          [textEvs wsE (lvl + 1) x.text]).flatten ++ tl) st =
        runEvents {} tl { st with cur := some { c with subs := pre ++ [.discussion (cs0 ++ cs)] } } := by
  induction cs with
  | nil =>
    intro cs0 st c hs hc hsub hct
    have : ({ st with cur := some { c with subs := pre ++ [.discussion (cs0 ++ [])] } } : RSt) = st := by
      rcases st with ⟨stack, header, version, headerOut, cur, out, ct⟩
      rcases c with ⟨obj, subs, lo⟩
      simp only at hc hsub
      subst hc hsub
      simp
    rw [this]; rfl
  | cons x cs ih =>
    intro cs0 st c hs hc hsub hct
    simp only [List.map_cons, List.flatten_cons, List.append_assoc]
    rw [comment_run_ev ch wsE hws lvl x (hcs x (by simp)) _ st rest c pre cs0 hs hc hsub hct]
    have := ih (fun y hy => hcs y (by simp [hy])) (cs0 ++ [x])
      { st with cur := some { c with subs := pre ++ [.discussion (cs0 ++ [x])] } }
      { c with subs := pre ++ [.discussion (cs0 ++ [x])] } hs rfl rfl hct
    rw [this]
    simp

end Osmium.XmlFmt.XmlSpec
