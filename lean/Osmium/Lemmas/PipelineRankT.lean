/-
Ranking function of the Reader pipeline, part 3: the events of the threads that are not queue
events (read thread, parser thread, pool workers, consumer inside an API call).
-/
import Osmium.Lemmas.PipelineRankQi

set_option linter.unusedSimpArgs false
set_option linter.unusedVariables false

namespace Osmium.Pipeline

open Osmium.Mon

variable {α : Type} [DecidableEq α]

namespace Rank

/-- split a non-queue event -/
syntax "rk_cases " ident : tactic
macro_rules
  | `(tactic| rk_cases $h:ident) => `(tactic|
      (simp only [step?] at $h:ident <;> (repeat' split at $h:ident) <;>
       simp only [Option.some.injEq, reduceCtorEq] at $h:ident <;> subst $h:ident))

theorem dec_rTestDone (c : Cfg α) (s s' : State α) (saw : Bool) (hst : step? c s (.rTestDone saw) = some s') :
    rank c s' < rank c s := by
  rk_cases hst
  all_goals rk_close s

theorem dec_rRead (c : Cfg α) (s s' : State α) (v : Val α) (hst : step? c s (.rRead v) = some s') :
    rank c s' < rank c s := by
  rk_cases hst
  all_goals rk_close s

theorem dec_rCloseDec (c : Cfg α) (s s' : State α) (ok : Bool) (hst : step? c s (.rCloseDec ok) = some s') :
    rank c s' < rank c s := by
  rk_cases hst
  all_goals rk_close s

theorem dec_rSet (c : Cfg α) (s s' : State α) (hst : step? c s .rSet = some s') :
    rank c s' < rank c s := by
  rk_cases hst
  all_goals rk_close s

/-! ### parser thread -/

theorem dec_pInUse (c : Cfg α) (s s' : State α) (saw : Bool) (hst : step? c s (.pInUse saw) = some s') :
    rank c s' < rank c s := by
  rk_cases hst
  all_goals rk_close s

theorem dec_pGet (c : Cfg α) (s s' : State α) (v : Val α) (hst : step? c s (.pGet v) = some s') :
    rank c s' < rank c s := by
  rk_cases hst
  all_goals (have := nb_le s.inputDone; rk_close s)

theorem dec_pHeader (c : Cfg α) (s s' : State α) (hst : step? c s .pHeader = some s') :
    rank c s' < rank c s := by
  rk_cases hst
  all_goals rk_close s

theorem dec_pObj (c : Cfg α) (s s' : State α) (g : Bool) (hst : step? c s (.pObj g) = some s') :
    rank c s' < rank c s := by
  rk_cases hst
  all_goals have hlt := lt_of_getElem? ‹c.file[s.next]? = some _›
  · have h1 : ne1 s.cur = 1 := ne1_ne (by simp_all)
    rk_close s
  · have := ne1_le s.cur
    rk_close s
  · rk_close s

theorem dec_pThrow (c : Cfg α) (s s' : State α) (hst : step? c s .pThrow = some s') :
    rank c s' < rank c s := by
  rk_cases hst
  all_goals rk_close s

theorem dec_pFlushNested (c : Cfg α) (s s' : State α) (hst : step? c s .pFlushNested = some s') :
    rank c s' < rank c s := by
  rk_cases hst
  all_goals rk_close s

theorem dec_pNewBuf (c : Cfg α) (s s' : State α) (hst : step? c s .pNewBuf = some s') :
    rank c s' < rank c s := by
  rk_cases hst
  all_goals (have h1 : ne1 s.cur = 1 := ne1_ne (by simp_all); rk_close s)

theorem dec_pFlushFinal (c : Cfg α) (s s' : State α) (hst : step? c s .pFlushFinal = some s') :
    rank c s' < rank c s := by
  rk_cases hst
  all_goals (have h1 : ne1 s.cur = 1 := ne1_ne (by simp_all); rk_close s)

theorem dec_pRunEnd (c : Cfg α) (s s' : State α) (hst : step? c s .pRunEnd = some s') :
    rank c s' < rank c s := by
  rk_cases hst
  all_goals rk_close s

theorem dec_pBlob (c : Cfg α) (s s' : State α) (sp : List (List α)) (hst : step? c s (.pBlob sp) = some s') :
    rank c s' < rank c s := by
  rk_cases hst
  all_goals have hb := blobsW_succ c s.blob (by simp_all)
  all_goals rk_close s

theorem dec_pCatch (c : Cfg α) (s s' : State α) (hst : step? c s .pCatch = some s') :
    rank c s' < rank c s := by
  rk_cases hst
  all_goals rk_close s

theorem dec_pSet (c : Cfg α) (s s' : State α) (hst : step? c s .pSet = some s') :
    rank c s' < rank c s := by
  rk_cases hst
  all_goals rk_close s

/-! ### pool -/

theorem dec_wStart (c : Cfg α) (s s' : State α) (w : Tid) (hst : step? c s (.wStart w) = some s') :
    rank c s' < rank c s := by
  rk_cases hst
  rename_i id rest hw
  have h1 := running_le c.workers (setPc s.wpc w (some id))
  simp only [rank, hw, jobsW_cons]
  omega

theorem dec_wDone (c : Cfg α) (s s' : State α) (w : Tid) (hinv : ∀ w, s.wpc w ≠ none → w ∈ c.workers)
    (hst : step? c s (.wDone w) = some s') : rank c s' < rank c s := by
  rk_cases hst
  rename_i id hw
  have h1 := running_done c.workers s.wpc w (hinv w (by simp [hw])) (by simp [hw])
  simp only [rank]
  omega

/-! ### consumer, inside an API call -/

theorem dec_cHeaderGet (c : Cfg α) (s s' : State α) (hst : step? c s .cHeaderGet = some s') :
    rank c s' < rank c s := by
  rk_cases hst
  all_goals rk_close s

theorem dec_cInUse (c : Cfg α) (s s' : State α) (saw : Bool) (hst : step? c s (.cInUse saw) = some s') :
    rank c s' < rank c s := by
  rk_cases hst
  all_goals rk_close s

theorem dec_cGet (c : Cfg α) (s s' : State α) (v : Val α) (hst : step? c s (.cGet v) = some s') :
    rank c s' < rank c s := by
  rk_cases hst
  · unfold afterPop
    split <;> (try split) <;> rk_close s
  all_goals rk_close s

theorem dec_cJoinR (c : Cfg α) (s s' : State α) (hst : step? c s .cJoinR = some s') :
    rank c s' < rank c s := by
  rk_cases hst
  · rename_i k _
    cases k <;> simp only [afterClose] <;> rk_close s
  all_goals rk_close s

theorem dec_cJoinP (c : Cfg α) (s s' : State α) (hst : step? c s .cJoinP = some s') :
    rank c s' < rank c s := by
  rk_cases hst
  all_goals rk_close s

theorem dec_cRet (c : Cfg α) (s s' : State α) (r : Res α) (hst : step? c s (.cRet r) = some s') :
    rank c s' < rank c s := by
  rk_cases hst
  all_goals rk_close s

end Rank

end Osmium.Pipeline
