/-
Per-object round trip, field-list level: what `decode_node / decode_way / decode_relation` make of the
fields `PBFOutputFormat::node / way / relation` emit, under ANY string table that extends the writer's
table at the time the object was added (the block's final table does).
-/
import Osmium.Lemmas.Pbf

namespace Osmium.Pbf

open Osmium.Wire Osmium.PbfMsg Osmium.Osm
open Osmium.StringTable (Table lookup findIdx)

/-! ### string tables that only grow -/

/-- `T` agrees with `S` wherever `S` is defined -/
def Ext (S T : List (List UInt8)) : Prop := ∀ (i : Nat) (x : List UInt8), S[i]? = some x → T[i]? = some x

theorem Ext.refl (S : List (List UInt8)) : Ext S S := fun _ _ h => h
theorem Ext.trans {S T U : List (List UInt8)} (h1 : Ext S T) (h2 : Ext T U) : Ext S U := fun i x h => h2 i x (h1 i x h)

theorem ext_add (t : Table) (s : Bytes) : Ext t.strings (t.add s).2.strings :=
  fun i x h => StringTable.add_mono t s i x h

theorem ext_addAll (t : Table) (ss : List Bytes) : Ext t.strings (t.addAll ss).2.strings :=
  fun i x h => StringTable.addAll_mono ss t i x h

theorem map_get_ext {S T : List (List UInt8)} (h : Ext S T) : ∀ (is : List Nat) (xs : List (List UInt8)),
    is.map (fun i => S[i]?) = xs.map some → is.map (fun i => T[i]?) = xs.map some
  | [], [], _ => rfl
  | [], _ :: _, h' => by simp at h'
  | _ :: _, [], h' => by simp at h'
  | i :: is, x :: xs, h' => by
    simp only [List.map_cons, List.cons.injEq] at h' ⊢
    exact ⟨h i x h'.1, map_get_ext h is xs h'.2⟩

theorem findIdx_lt : ∀ (l : List Bytes) (s : Bytes) (i : Nat), findIdx s l = some i → i < l.length
  | [], _, _, h => by simp [findIdx] at h
  | x :: xs, s, i, h => by
    unfold findIdx at h
    by_cases hx : x = s
    · simp [hx] at h; subst h; simp
    · simp only [hx, ↓reduceIte, Option.map_eq_some_iff] at h
      obtain ⟨j, hj, rfl⟩ := h
      have := findIdx_lt xs s j hj
      simp; omega

theorem add_lt (t : Table) (s : Bytes) : (t.add s).1 < (t.add s).2.size := by
  unfold Table.add
  cases h : findIdx s t.added with
  | some i => have := findIdx_lt _ _ _ h; simp [Table.size]; omega
  | none => simp [Table.size]

theorem size_add_le (t : Table) (s : Bytes) : t.size ≤ (t.add s).2.size := by
  unfold Table.add
  cases h : findIdx s t.added with
  | some i => simp
  | none => simp [Table.size]

theorem size_addAll_le : ∀ (ss : List Bytes) (t : Table), t.size ≤ (t.addAll ss).2.size
  | [], _ => by simp [Table.addAll]
  | s :: ss, t => by
    simp only [Table.addAll]
    exact Nat.le_trans (size_add_le t s) (size_addAll_le ss _)

theorem addAll_lt : ∀ (ss : List Bytes) (t : Table), ∀ i ∈ (t.addAll ss).1, i < (t.addAll ss).2.size
  | [], _ => by simp [Table.addAll]
  | s :: ss, t => by
    intro i hi
    simp only [Table.addAll, List.mem_cons] at hi ⊢
    rcases hi with rfl | hi
    · exact Nat.lt_of_lt_of_le (add_lt t s) (size_addAll_le ss _)
    · exact addAll_lt ss _ i hi

theorem lookup_nat (strs : List Bytes) (n : Nat) : lookup strs (n : Int) = strs[n]? := by
  unfold lookup
  have : ¬ ((n : Int) < 0) := by omega
  simp [this]

/-! ### tags -/

theorem buildTags_ok (p : Params) : ∀ (tags : List Tag) (ks vs : List Nat),
    ks.map (fun i => p.strings[i]?) = (tags.map (·.key)).map some →
    vs.map (fun i => p.strings[i]?) = (tags.map (·.value)).map some →
    (∀ k ∈ ks, k < 2 ^ 32) → (∀ v ∈ vs, v < 2 ^ 32) → buildTags p ks vs = some tags
  | [], [], [], _, _, _, _ => rfl
  | [], _ :: _, _, h, _, _, _ => by simp at h
  | [], [], _ :: _, _, h, _, _ => by simp at h
  | _ :: _, [], _, h, _, _, _ => by simp at h
  | _ :: _, _ :: _, [], _, h, _, _ => by simp at h
  | tg :: tags, k :: ks, v :: vs, hk, hv, bk, bv => by
    simp only [List.map_cons, List.cons.injEq] at hk hv
    have ek : k % 2 ^ 32 = k := Nat.mod_eq_of_lt (bk k List.mem_cons_self)
    have ev : v % 2 ^ 32 = v := Nat.mod_eq_of_lt (bv v List.mem_cons_self)
    have ih := buildTags_ok p tags ks vs hk.2 hv.2 (fun x hx => bk x (List.mem_cons_of_mem _ hx))
      (fun x hx => bv x (List.mem_cons_of_mem _ hx))
    simp only [buildTags, ek, ev, lookup_nat, hk.1, hv.1, ih, bind, Option.bind, pure]

/-! ### Info (moved here from the property file: it is an ingredient of the object lemmas) -/

/-- value domain of the property for the metadata of one object (PBF) -/
def MetaInDomain (m : Meta) : Prop :=
  m.version < 2 ^ 31 ∧ m.uid < 2 ^ 31 ∧ m.timestamp < 2 ^ 32 ∧ m.changeset < 2 ^ 32

instance (m : Meta) : Decidable (MetaInDomain m) := by unfold MetaInDomain; infer_instance

/-- what `decode_info` leaves in the object for what `add_meta` wrote -/
def projectInfo (o : Opts) (m : Meta) : InfoAcc :=
  { version := if o.mdVersion then m.version else 0,
    timestamp := if o.mdTimestamp then m.timestamp else 0,
    changeset := if o.mdChangeset then m.changeset else 0,
    uid := if o.mdUid then m.uid else 0,
    visible := if o.history then m.visible else true }

theorem info_fields_roundtrip (o : Opts) (p : Params) (m : Meta) (u : Nat)
    (hd : MetaInDomain m) (hp : p.dateFactor = 1000)
    (hu : o.mdUser = true → u < 2 ^ 32 ∧ lookup p.strings (u : Nat) = some m.user) :
    decodeMsg (infoStep p) ({}, []) (encInfo o m u) =
      some (projectInfo o m, if o.mdUser then m.user else []) := by
  obtain ⟨hv, hui, hts, hcs⟩ := hd
  have e1 := int32_field m.version hv
  have e2 := int32_field m.uid hui
  have e3 := int64_field m.timestamp hts
  have e4 := int64_field m.changeset hcs
  have e5 := convTimestamp_default m.timestamp hts
  have e6 := changesetOf_nat m.changeset hcs
  have e7 := versionOf_nat m.version
  have e8 := uidOf_nat m.uid
  obtain ⟨d, mv, mt, mc, mu, mus, hist, low⟩ := o
  simp only at hu
  cases mus with
  | false =>
    cases mv <;> cases mt <;> cases mc <;> cases mu <;> cases hist <;> cases hvis : m.visible <;>
      simp [encInfo, decodeMsg, infoStep, fVarint, projectInfo, e1, e2, e3, e4, e5, e6, e7, e8, hp, hvis]
  | true =>
    obtain ⟨hu1, hu2⟩ := hu rfl
    have hm : u % 4294967296 = u := Nat.mod_eq_of_lt (by simpa using hu1)
    cases mv <;> cases mt <;> cases mc <;> cases mu <;> cases hist <;> cases hvis : m.visible <;>
      simp [encInfo, decodeMsg, infoStep, fVarint, projectInfo, e1, e2, e3, e4, e5, e6, e7, e8, hp, hvis, hm, hu2]

theorem encInfo_wf (o : Opts) (m : Meta) (u : Nat) : ∀ f ∈ encInfo o m u, f.WF := by
  intro f hf
  have h64 := u64_lt
  have hu : u % 2 ^ 32 < 2 ^ 64 := by
    have : u % 2 ^ 32 < 2 ^ 32 := Nat.mod_lt _ (by decide)
    simp only [Nat.reducePow] at *; omega
  obtain ⟨d, mv, mt, mc, mu, mus, hist, low⟩ := o
  simp only [encInfo, List.mem_append] at hf
  rcases hf with ((((hf | hf) | hf) | hf) | hf) | hf <;>
    (split at hf <;> simp at hf <;> subst hf <;> simp [Field.WF, fVarint, h64] <;> first | exact hu | (split <;> decide) | skip)

theorem info_roundtrip (o : Opts) (p : Params) (m : Meta) (u : Nat)
    (hd : MetaInDomain m) (hp : p.dateFactor = 1000)
    (hu : o.mdUser = true → u < 2 ^ 32 ∧ lookup p.strings (u : Nat) = some m.user) :
    decodeInfo p {} (encodeFields (encInfo o m u)) = some (projectInfo o m, if o.mdUser then m.user else []) := by
  unfold decodeInfo
  rw [readFields_encodeFields _ (encInfo_wf o m u)]
  exact info_fields_roundtrip o p m u hd hp hu

theorem projectInfo_off (o : Opts) (m : Meta) (h : (o.anyMeta || o.history) = false) :
    projectInfo o m = {} ∧ o.mdUser = false := by
  obtain ⟨d, mv, mt, mc, mu, mus, hist, low⟩ := o
  simp only [Opts.anyMeta, Bool.or_eq_false_iff] at h
  obtain ⟨⟨⟨⟨⟨h1, h2⟩, h3⟩, h4⟩, h5⟩, h6⟩ := h
  subst h1 h2 h3 h4 h5 h6
  simp [projectInfo]

/-! ### `add_meta` against `metaStep` -/

/-- shape of the fields of `add_meta` and resolution of every string id in the table it returns -/
theorem encMeta_spec (o : Opts) (t : Table) (m : Meta) : ∃ (ks vs : List Nat) (u : Nat),
    (encMeta o t m).1 = fPacked 2 ks ++ fPacked 3 vs ++
      (if o.anyMeta || o.history then [fBytes 4 (encodeFields (encInfo o m u))] else []) ∧
    ks.map (fun i => (encMeta o t m).2.strings[i]?) = (m.tags.map (·.key)).map some ∧
    vs.map (fun i => (encMeta o t m).2.strings[i]?) = (m.tags.map (·.value)).map some ∧
    (o.mdUser = true → (encMeta o t m).2.strings[u]? = some m.user) ∧
    (∀ i ∈ ks, i < (encMeta o t m).2.size) ∧ (∀ i ∈ vs, i < (encMeta o t m).2.size) ∧
    u < (encMeta o t m).2.size ∧ Ext t.strings (encMeta o t m).2.strings := by
  unfold encMeta
  have k1 := StringTable.addAll_lookup (m.tags.map (·.key)) t
  have x1 := ext_addAll t (m.tags.map (·.key))
  have l1 := addAll_lt (m.tags.map (·.key)) t
  rcases h1 : t.addAll (m.tags.map (·.key)) with ⟨ks, t1⟩
  rw [h1] at k1 x1 l1
  simp only [h1]
  have k2 := StringTable.addAll_lookup (m.tags.map (·.value)) t1
  have x2 := ext_addAll t1 (m.tags.map (·.value))
  have l2 := addAll_lt (m.tags.map (·.value)) t1
  have s2 := size_addAll_le (m.tags.map (·.value)) t1
  rcases h2 : t1.addAll (m.tags.map (·.value)) with ⟨vs, t2⟩
  rw [h2] at k2 x2 l2 s2
  simp only [h2]
  simp only at k1 x1 l1 k2 x2 l2 s2 ⊢
  by_cases hc : (o.anyMeta || o.history) = true
  · simp only [hc, ↓reduceIte]
    by_cases hus : o.mdUser = true
    · simp only [hus, ↓reduceIte]
      have x3 := ext_add t2 m.user
      have s3 := size_add_le t2 m.user
      have a3 := StringTable.add_lookup t2 m.user
      have b3 := add_lt t2 m.user
      rcases h3 : t2.add m.user with ⟨u, t3⟩
      rw [h3] at x3 s3 a3 b3
      simp only [h3]
      simp only at x3 s3 a3 b3 ⊢
      refine ⟨ks, vs, u, rfl, map_get_ext (x2.trans x3) _ _ k1, map_get_ext x3 _ _ k2,
        fun _ => a3, fun i hi => ?_, fun i hi => ?_, b3, (x1.trans x2).trans x3⟩
      · have := l1 i hi; omega
      · have := l2 i hi; omega
    · simp only [hus, Bool.false_eq_true, ↓reduceIte]
      refine ⟨ks, vs, 0, rfl, map_get_ext x2 _ _ k1, k2, fun h => by first | exact h.elim | exact absurd h hus, fun i hi => ?_, l2, ?_, x1.trans x2⟩
      · have := l1 i hi; omega
      · simp [Table.size]
  · simp only [hc, Bool.false_eq_true, ↓reduceIte, List.append_nil]
    have hus : o.mdUser = false := (projectInfo_off o m (by simpa using hc)).2
    refine ⟨ks, vs, 0, rfl, map_get_ext x2 _ _ k1, k2, fun h => by simp [hus] at h, fun i hi => ?_, l2, ?_, x1.trans x2⟩
    · have := l1 i hi; omega
    · simp [Table.size]

theorem decodeMsg_append {σ : Type} (step : σ → Field → Option σ) (s : σ) (a b : List Field) :
    decodeMsg step s (a ++ b) = (decodeMsg step s a).bind fun s' => decodeMsg step s' b := by
  unfold decodeMsg; rw [List.foldlM_append]; rfl

theorem decodeMsg_congr_step {σ : Type} (step1 step2 : σ → Field → Option σ) : ∀ (fs : List Field) (s : σ),
    (∀ f ∈ fs, ∀ s, step1 s f = step2 s f) → decodeMsg step1 s fs = decodeMsg step2 s fs
  | [], _, _ => rfl
  | f :: fs, s, h => by
    unfold decodeMsg
    rw [foldlM_cons', foldlM_cons', h f List.mem_cons_self s]
    congr 1; funext s'
    exact decodeMsg_congr_step step1 step2 fs s' (fun g hg => h g (List.mem_cons_of_mem _ hg))

/-- the three meta fields through `metaStep`, starting from untouched meta slots -/
theorem decode_metaFields (p : Params) (r : ROpts) (s : ObjAcc) (o : Opts) (m : Meta) (ks vs : List Nat) (u : Nat)
    (hr : r.readMeta = true) (hk : s.keys = []) (hv : s.vals = []) (hi : s.info = {}) (hu : s.user = [])
    (hinfo : (o.anyMeta || o.history) = true →
      decodeInfo p {} (encodeFields (encInfo o m u)) = some (projectInfo o m, if o.mdUser then m.user else [])) :
    decodeMsg (metaStep p r) s (fPacked 2 ks ++ fPacked 3 vs ++
        (if o.anyMeta || o.history then [fBytes 4 (encodeFields (encInfo o m u))] else [])) =
      some { s with keys := pack ks, vals := pack vs, info := projectInfo o m, user := if o.mdUser then m.user else [] } := by
  have pk : ∀ (l : List Nat), l.isEmpty = true → pack l = [] := fun l h => by
    have : l = [] := List.isEmpty_iff.mp h
    subst this; rfl
  by_cases hc : (o.anyMeta || o.history) = true
  · have hin := hinfo hc
    cases h1 : ks.isEmpty <;> cases h2 : vs.isEmpty <;>
      simp [fPacked, h1, h2, hc, decodeMsg, metaStep, fBytes, hr, hi, hin, pk, hk, hv]
  · have hoff := projectInfo_off o m (by simpa using hc)
    cases h1 : ks.isEmpty <;> cases h2 : vs.isEmpty <;>
      simp [fPacked, h1, h2, hc, decodeMsg, metaStep, fBytes, hoff.1, hoff.2, pk, hk, hv, hi, hu] <;>
      (try (cases s; simp_all))

/-! ### coordinates and ids -/

theorem convCoord_default (c : Int) (h1 : -(2:Int)^31 ≤ c) (h2 : c < (2:Int)^31) : convCoord 100 0 c = c := by
  unfold convCoord wrap64
  have r1 : Delta.swrap 64 (c * 100) = c * 100 :=
    Delta.swrap64_id _ (by simp only [Int.reducePow] at *; omega) (by simp only [Int.reducePow] at *; omega)
  rw [r1, Int.add_zero, r1, Int.mul_tdiv_cancel _ (by decide)]
  unfold toInt32 u64
  simp only [Int.reducePow, Nat.reducePow] at *
  omega

/-- value domain of one object (ids strictly inside int64, coordinates any int32 pair) -/
def IdOk (x : Int) : Prop := -(2:Int)^63 ≤ x ∧ x < (2:Int)^63
def LocOk (l : Location) : Prop := (-(2:Int)^31 ≤ l.x ∧ l.x < (2:Int)^31) ∧ (-(2:Int)^31 ≤ l.y ∧ l.y < (2:Int)^31)

theorem nodeStep_ld (p : Params) (r : ROpts) (s : ObjAcc) (f : Field) (h : f.wt = .lengthDelimited) :
    nodeStep p r s f = metaStep p r s f := by
  obtain ⟨tag, wt, val, payload⟩ := f
  simp only at h; subst h
  unfold nodeStep
  split <;> simp_all

theorem metaFields_ld (ks vs : List Nat) (extra : List Field) (he : ∀ f ∈ extra, f.wt = .lengthDelimited) :
    ∀ f ∈ fPacked 2 ks ++ fPacked 3 vs ++ extra, f.wt = .lengthDelimited := by
  intro f hf
  simp only [List.mem_append] at hf
  rcases hf with (hf | hf) | hf
  · unfold fPacked at hf; split at hf <;> simp at hf; subst hf; rfl
  · unfold fPacked at hf; split at hf <;> simp at hf; subst hf; rfl
  · exact he f hf

/-- all ids of a table of at most 2^31 entries fit the uint32 / int32 fields they are written to -/
theorem ids_small {l : List Nat} {n : Nat} (h : ∀ i ∈ l, i < n) (hn : n ≤ 2 ^ 31) : ∀ i ∈ l, i < 2 ^ 32 := by
  intro i hi; have := h i hi; simp only [Nat.reducePow] at *; omega

/-- `decode_node` on the fields of `PBFOutputFormat::node` (plain nodes) -/
theorem node_fields_roundtrip (o : Opts) (t : Table) (m : Meta) (l : Location) (T : List Bytes)
    (hd : MetaInDomain m) (hid : IdOk m.id) (hl : LocOk l)
    (hT : Ext (encNode o t m l).2.strings T) (hsz : (encNode o t m l).2.size ≤ 2 ^ 31) :
    decodeNode { strings := T } {} (encNode o t m l).1 = project o (.node m l) := by
  obtain ⟨ks, vs, u, hfs, hks, hvs, hus, bks, bvs, bu, _⟩ := encMeta_spec o t m
  have e : encNode o t m l = ([fVarint 1 (zigzag64 m.id)] ++ (encMeta o t m).1 ++
      [fVarint 8 (zigzag64 l.y), fVarint 9 (zigzag64 l.x)], (encMeta o t m).2) := rfl
  rw [e] at hT hsz ⊢
  simp only at hT hsz ⊢
  have hinfo : (o.anyMeta || o.history) = true →
      decodeInfo { strings := T } {} (encodeFields (encInfo o m u)) = some (projectInfo o m, if o.mdUser then m.user else []) :=
    fun _ => info_roundtrip o _ m u hd rfl (fun hmu => ⟨by simp only [Nat.reducePow] at *; omega, by
      rw [lookup_nat]; exact hT _ _ (hus hmu)⟩)
  have hmeta := decode_metaFields { strings := T } {} { id := m.id } o m ks vs u rfl rfl rfl rfl rfl hinfo
  have hstep : decodeMsg (nodeStep { strings := T } {}) { id := m.id } (encMeta o t m).1 =
      decodeMsg (metaStep { strings := T } {}) { id := m.id } (encMeta o t m).1 :=
    decodeMsg_congr_step _ _ _ _ (fun f hf s => nodeStep_ld _ _ s f (by
      rw [hfs] at hf
      exact metaFields_ld ks vs _ (fun g hg => by split at hg <;> simp at hg; subst hg; rfl) f hf))
  unfold decodeNode
  rw [decodeMsg_append, decodeMsg_append]
  have h0 : decodeMsg (nodeStep { strings := T } {}) {} [fVarint 1 (zigzag64 m.id)] = some { id := m.id } := by
    simp [decodeMsg, nodeStep, fVarint, unzigzag_zigzag]
  rw [h0, Option.bind_some, hstep, hfs, hmeta, Option.bind_some]
  simp only [decodeMsg, List.foldlM_cons, List.foldlM_nil, nodeStep, fVarint, unzigzag_zigzag, bind, Option.bind, pure]
  have hkeys : unpack (pack ks) = some ks := unpack_pack ks (fun v hv => by have := bks v hv; simp only [Nat.reducePow] at *; omega)
  have hvals : unpack (pack vs) = some vs := unpack_pack vs (fun v hv => by have := bvs v hv; simp only [Nat.reducePow] at *; omega)
  have htags : buildTags { strings := T } ks vs = some m.tags :=
    buildTags_ok _ m.tags ks vs (map_get_ext hT _ _ hks) (map_get_ext hT _ _ hvs) (ids_small bks hsz) (ids_small bvs hsz)
  have nx : (l.x == int64Max) = false := by
    simp only [int64Max, Int.reducePow, beq_eq_false_iff_ne, ne_eq]; have := hl.1.2; simp only [Int.reducePow] at this; omega
  have ny : (l.y == int64Max) = false := by
    simp only [int64Max, Int.reducePow, beq_eq_false_iff_ne, ne_eq]; have := hl.2.2; simp only [Int.reducePow] at this; omega
  simp only [finishTags, hkeys, hvals, htags, nx, ny, convCoord_default _ hl.1.1 hl.1.2, convCoord_default _ hl.2.1 hl.2.2,
    Bool.or_self, Bool.false_eq_true, ↓reduceIte, bind, Option.bind, pure, project, mkMeta, projectMeta, projectInfo]
  obtain ⟨d, mv, mt, mc, mu, mus, hist, low⟩ := o
  cases hist <;> cases hvis : m.visible <;> simp [hvis]

/-! ### ways -/

theorem encGo64_range : ∀ (xs : List Int) (p : Int), ∀ d ∈ Delta.encGo 64 p xs, -(2:Int)^63 ≤ d ∧ d < (2:Int)^63
  | [], _ => by simp [Delta.encGo]
  | x :: xs, p => by
    intro d hd
    simp only [Delta.encGo, List.mem_cons] at hd
    rcases hd with rfl | hd
    · exact Delta.swrap64_range _
    · exact encGo64_range xs x d hd

/-- a delta-coded sint64 array as the writer packs it and the reader unpacks it -/
theorem packed_delta_roundtrip (xs : List Int) (h : ∀ x ∈ xs, IdOk x) :
    (unpack (pack ((Delta.enc 64 xs).map zigzag64))).map (fun l => Delta.dec (l.map unzigzag64)) = some xs := by
  rw [unpack_pack]
  · simp only [Option.map_some, List.map_map]
    have : (unzigzag64 ∘ zigzag64) = id := by funext x; simp [unzigzag_zigzag]
    rw [this, List.map_id, Delta.dec_enc64 xs h]
  · intro v hv
    obtain ⟨d, hd, rfl⟩ := List.mem_map.mp hv
    have := encGo64_range xs 0 d hd
    exact zigzag_lt d this.1 this.2

theorem toInt64_u64 (x : Int) (h : IdOk x) : toInt64 (u64 x) = x := by
  unfold toInt64 u64 IdOk at *
  simp only [Int.reducePow, Nat.reducePow] at *
  omega

theorem wayStep_ld_meta (p : Params) (r : ROpts) (s : ObjAcc) (f : Field)
    (h : f.wt = .lengthDelimited ∧ (f.tag = 2 ∨ f.tag = 3 ∨ f.tag = 4)) : wayStep p r s f = metaStep p r s f := by
  obtain ⟨tag, wt, val, payload⟩ := f
  obtain ⟨h1, h2⟩ := h
  simp only at h1 h2; subst h1
  unfold wayStep
  split <;> simp_all

theorem relationStep_ld_meta (p : Params) (r : ROpts) (s : ObjAcc) (f : Field)
    (h : f.wt = .lengthDelimited ∧ (f.tag = 2 ∨ f.tag = 3 ∨ f.tag = 4)) : relationStep p r s f = metaStep p r s f := by
  obtain ⟨tag, wt, val, payload⟩ := f
  obtain ⟨h1, h2⟩ := h
  simp only at h1 h2; subst h1
  unfold relationStep
  split <;> simp_all

theorem metaFields_tags (ks vs : List Nat) (extra : List Field)
    (he : ∀ f ∈ extra, f.wt = .lengthDelimited ∧ (f.tag = 2 ∨ f.tag = 3 ∨ f.tag = 4)) :
    ∀ f ∈ fPacked 2 ks ++ fPacked 3 vs ++ extra, f.wt = .lengthDelimited ∧ (f.tag = 2 ∨ f.tag = 3 ∨ f.tag = 4) := by
  intro f hf
  simp only [List.mem_append] at hf
  rcases hf with (hf | hf) | hf
  · unfold fPacked at hf; split at hf <;> simp at hf; subst hf; simp [fBytes]
  · unfold fPacked at hf; split at hf <;> simp at hf; subst hf; simp [fBytes]
  · exact he f hf

/-- the three packed arrays after the meta fields, through `wayStep` / `relationStep` (same slots) -/
theorem decode_tail_way (p : Params) (r : ROpts) (s : ObjAcc) (A B C : List Nat) (withBC : Bool)
    (ha : s.a = []) (hb : s.b = []) (hc : s.c = []) :
    decodeMsg (wayStep p r) s (fPacked 8 A ++ (if withBC then fPacked 10 C ++ fPacked 9 B else [])) =
      some { s with a := pack A, b := if withBC then pack B else [], c := if withBC then pack C else [] } := by
  have pk : ∀ (l : List Nat), l.isEmpty = true → pack l = [] := fun l h => by
    have : l = [] := List.isEmpty_iff.mp h
    subst this; rfl
  cases withBC <;> cases h1 : A.isEmpty <;> cases h2 : B.isEmpty <;> cases h3 : C.isEmpty <;>
    simp [fPacked, h1, h2, h3, decodeMsg, wayStep, fBytes, pk, ha, hb, hc] <;> (try (cases s; simp_all))

theorem zip3With_map {α β γ δ ε : Type} (f : β → γ → δ → ε) (a : α → β) (b : α → γ) (c : α → δ) : ∀ (l : List α),
    zip3With f (l.map a) (l.map b) (l.map c) = l.map (fun x => f (a x) (b x) (c x))
  | [] => rfl
  | x :: l => by simp [zip3With, zip3With_map f a b c l]

def WayInDomain (ns : List NodeRef) : Prop := ∀ n ∈ ns, IdOk n.ref ∧ LocOk n.location

/-- `decode_way` on the fields of `PBFOutputFormat::way` -/
theorem way_fields_roundtrip (o : Opts) (t : Table) (m : Meta) (ns : List NodeRef) (T : List Bytes)
    (hd : MetaInDomain m) (hid : IdOk m.id) (hn : WayInDomain ns)
    (hT : Ext (encWay o t m ns).2.strings T) (hsz : (encWay o t m ns).2.size ≤ 2 ^ 31) :
    decodeWay { strings := T } {} (encWay o t m ns).1 = project o (.way m ns) := by
  obtain ⟨ks, vs, u, hfs, hks, hvs, hus, bks, bvs, bu, _⟩ := encMeta_spec o t m
  have e : encWay o t m ns = ([fVarint 1 (u64 m.id)] ++ (encMeta o t m).1 ++
      fPacked 8 ((Delta.encId (ns.map (·.ref))).map zigzag64) ++
      (if o.locationsOnWays then
        fPacked 10 ((Delta.encCoord (ns.map (·.location.x))).map zigzag64) ++
        fPacked 9 ((Delta.encCoord (ns.map (·.location.y))).map zigzag64)
       else []), (encMeta o t m).2) := rfl
  rw [e] at hT hsz ⊢
  simp only at hT hsz ⊢
  have hinfo : (o.anyMeta || o.history) = true →
      decodeInfo { strings := T } {} (encodeFields (encInfo o m u)) = some (projectInfo o m, if o.mdUser then m.user else []) :=
    fun _ => info_roundtrip o _ m u hd rfl (fun hmu => ⟨by simp only [Nat.reducePow] at *; omega, by
      rw [lookup_nat]; exact hT _ _ (hus hmu)⟩)
  have hmeta := decode_metaFields { strings := T } {} { id := m.id } o m ks vs u rfl rfl rfl rfl rfl hinfo
  have hstep : decodeMsg (wayStep { strings := T } {}) { id := m.id } (encMeta o t m).1 =
      decodeMsg (metaStep { strings := T } {}) { id := m.id } (encMeta o t m).1 :=
    decodeMsg_congr_step _ _ _ _ (fun f hf s => wayStep_ld_meta _ _ s f (by
      rw [hfs] at hf
      exact metaFields_tags ks vs _ (fun g hg => by split at hg <;> simp at hg; subst hg; simp [fBytes]) f hf))
  unfold decodeWay
  rw [List.append_assoc, decodeMsg_append, decodeMsg_append]
  have h0 : decodeMsg (wayStep { strings := T } {}) {} [fVarint 1 (u64 m.id)] = some { id := m.id } := by
    simp [decodeMsg, wayStep, fVarint, toInt64_u64 m.id hid]
  rw [h0, Option.bind_some, hstep, hfs, hmeta, Option.bind_some]
  rw [decode_tail_way _ _ _ _ _ _ _ rfl rfl rfl]
  have hkeys : unpack (pack ks) = some ks := unpack_pack ks (fun v hv => by have := bks v hv; simp only [Nat.reducePow] at *; omega)
  have hvals : unpack (pack vs) = some vs := unpack_pack vs (fun v hv => by have := bvs v hv; simp only [Nat.reducePow] at *; omega)
  have htags : buildTags { strings := T } ks vs = some m.tags :=
    buildTags_ok _ m.tags ks vs (map_get_ext hT _ _ hks) (map_get_ext hT _ _ hvs) (ids_small bks hsz) (ids_small bvs hsz)
  have ir : ∀ x ∈ ns.map (·.ref), IdOk x := fun x hx => by
    obtain ⟨n, hn', rfl⟩ := List.mem_map.mp hx; exact (hn n hn').1
  have ix : ∀ x ∈ ns.map (·.location.x), IdOk x := fun x hx => by
    obtain ⟨n, hn', rfl⟩ := List.mem_map.mp hx
    have := (hn n hn').2.1; unfold IdOk; simp only [Int.reducePow] at *; omega
  have iy : ∀ x ∈ ns.map (·.location.y), IdOk x := fun x hx => by
    obtain ⟨n, hn', rfl⟩ := List.mem_map.mp hx
    have := (hn n hn').2.2; unfold IdOk; simp only [Int.reducePow] at *; omega
  have pr := packed_delta_roundtrip _ ir
  have px := packed_delta_roundtrip _ ix
  have py := packed_delta_roundtrip _ iy
  simp only [Option.map_eq_some_iff] at pr px py
  obtain ⟨lr, hlr, elr⟩ := pr
  obtain ⟨lx, hlx, elx⟩ := px
  obtain ⟨ly, hly, ely⟩ := py
  simp only [Delta.encId, Delta.encCoord] at *
  have u0 : unpack ([] : Bytes) = some [] := rfl
  simp only [bind, Option.bind, pure, hlr, finishTags, hkeys, hvals, htags, mkMeta, project, projectMeta, projectInfo]
  cases hlow : o.locationsOnWays
  · simp only [Bool.false_eq_true, ↓reduceIte, u0, List.isEmpty_nil, elr, List.map_map]
    congr
  · simp only [↓reduceIte, hlx, hly, elr, elx, ely]
    have hlist : (if ly.isEmpty = true then List.map (fun i => ({ ref := i } : NodeRef)) (List.map (fun x => x.ref) ns)
        else zip3With (fun i x y => ({ ref := i, location := { x := convCoord 100 0 x, y := convCoord 100 0 y } } : NodeRef))
            (List.map (fun x => x.ref) ns) (List.map (fun x => x.location.x) ns)
            (List.map (fun x => x.location.y) ns)) = List.map (fun n => n) ns := by
      by_cases hly' : ly.isEmpty = true
      · have : ly = [] := List.isEmpty_iff.mp hly'
        subst this
        have : ns = [] := by
          have h' : ([] : List Int) = List.map (fun x => x.location.y) ns := by simpa [Delta.dec, Delta.decGo] using ely
          exact List.map_eq_nil_iff.mp h'.symm
        subst this
        simp
      · simp only [hly', Bool.false_eq_true, ↓reduceIte, zip3With_map]
        apply List.map_congr_left
        intro x hx
        have hl := (hn x hx).2
        rw [convCoord_default _ hl.1.1 hl.1.2, convCoord_default _ hl.2.1 hl.2.2]
    rw [hlist]

/-! ### relations -/

theorem decode_tail_rel (p : Params) (r : ROpts) (s : ObjAcc) (A B C : List Nat)
    (ha : s.a = []) (hb : s.b = []) (hc : s.c = []) :
    decodeMsg (relationStep p r) s (fPacked 8 A ++ fPacked 9 B ++ fPacked 10 C) =
      some { s with a := pack A, b := pack B, c := pack C } := by
  have pk : ∀ (l : List Nat), l.isEmpty = true → pack l = [] := fun l h => by
    have : l = [] := List.isEmpty_iff.mp h
    subst this; rfl
  cases h1 : A.isEmpty <;> cases h2 : B.isEmpty <;> cases h3 : C.isEmpty <;>
    simp [fPacked, h1, h2, h3, decodeMsg, relationStep, fBytes, pk, ha, hb, hc] <;> (try (cases s; simp_all))

def RelInDomain (ms : List Member) : Prop := ∀ x ∈ ms, IdOk x.ref ∧ 1 ≤ x.type ∧ x.type ≤ 3

theorem buildMembers_ok (p : Params) : ∀ (ms : List Member) (rs : List Nat),
    rs.map (fun i => p.strings[i]?) = (ms.map (·.role)).map some → (∀ r ∈ rs, r < 2 ^ 31) → RelInDomain ms →
    buildMembers p (rs.map fun r => u64 (toInt32 r)) (ms.map (·.ref)) (ms.map fun x => u64 (nwrIndex x.type)) = some ms
  | [], [], _, _, _ => rfl
  | [], _ :: _, h, _, _ => by simp at h
  | _ :: _, [], h, _, _ => by simp at h
  | x :: ms, r :: rs, h, hr, hd => by
    simp only [List.map_cons, List.cons.injEq] at h
    have ih := buildMembers_ok p ms rs h.2 (fun y hy => hr y (List.mem_cons_of_mem _ hy))
      (fun y hy => hd y (List.mem_cons_of_mem _ hy))
    have e1 := int32_field r (hr r List.mem_cons_self)
    obtain ⟨_, t1, t3⟩ := hd x List.mem_cons_self
    have e2 : toInt32 (u64 ((nwrIndex x.type : Nat) : Int)) = ((x.type - 1 : Nat) : Int) := by
      unfold nwrIndex
      rw [u64_nat _ (by simp only [Nat.reducePow]; omega), toInt32_small _ (by simp only [Nat.reducePow]; omega)]
    have c1 : ¬ (((x.type - 1 : Nat) : Int) < 0) := by omega
    have c2 : ¬ (((x.type - 1 : Nat) : Int) > 2) := by omega
    have c3 : ((x.type - 1 : Nat) : Int).toNat + 1 = x.type := by omega
    simp only [List.map_cons, buildMembers, e1, lookup_nat, h.1, e2, c1, c2, c3, ih, bind, Option.bind, pure,
      Bool.or_self, Bool.false_eq_true, ↓reduceIte, decide_false]

/-- `decode_relation` on the fields of `PBFOutputFormat::relation` -/
theorem relation_fields_roundtrip (o : Opts) (t : Table) (m : Meta) (ms : List Member) (T : List Bytes)
    (hd : MetaInDomain m) (hid : IdOk m.id) (hm : RelInDomain ms)
    (hT : Ext (encRelation o t m ms).2.strings T) (hsz : (encRelation o t m ms).2.size ≤ 2 ^ 31) :
    decodeRelation { strings := T } {} (encRelation o t m ms).1 = project o (.relation m ms) := by
  obtain ⟨ks, vs, u, hfs, hks, hvs, hus, bks, bvs, bu, _⟩ := encMeta_spec o t m
  have e : encRelation o t m ms = ([fVarint 1 (u64 m.id)] ++ (encMeta o t m).1 ++
      fPacked 8 ((((encMeta o t m).2.addAll (ms.map (·.role))).1).map fun r => u64 (toInt32 r)) ++
      fPacked 9 ((Delta.encId (ms.map (·.ref))).map zigzag64) ++
      fPacked 10 (ms.map fun x => u64 (nwrIndex x.type)), ((encMeta o t m).2.addAll (ms.map (·.role))).2) := rfl
  rw [e] at hT hsz ⊢
  simp only at hT hsz ⊢
  have xr := ext_addAll (encMeta o t m).2 (ms.map (·.role))
  have sr := size_addAll_le (ms.map (·.role)) (encMeta o t m).2
  have kr := StringTable.addAll_lookup (ms.map (·.role)) (encMeta o t m).2
  have lr := addAll_lt (ms.map (·.role)) (encMeta o t m).2
  generalize ((encMeta o t m).2.addAll (ms.map (·.role))) = rr at *
  have hT1 : Ext (encMeta o t m).2.strings T := xr.trans hT
  have hsz1 : (encMeta o t m).2.size ≤ 2 ^ 31 := Nat.le_trans sr hsz
  have hinfo : (o.anyMeta || o.history) = true →
      decodeInfo { strings := T } {} (encodeFields (encInfo o m u)) = some (projectInfo o m, if o.mdUser then m.user else []) :=
    fun _ => info_roundtrip o _ m u hd rfl (fun hmu => ⟨by simp only [Nat.reducePow] at *; omega, by
      rw [lookup_nat]; exact hT1 _ _ (hus hmu)⟩)
  have hmeta := decode_metaFields { strings := T } {} { id := m.id } o m ks vs u rfl rfl rfl rfl rfl hinfo
  have hstep : decodeMsg (relationStep { strings := T } {}) { id := m.id } (encMeta o t m).1 =
      decodeMsg (metaStep { strings := T } {}) { id := m.id } (encMeta o t m).1 :=
    decodeMsg_congr_step _ _ _ _ (fun f hf s => relationStep_ld_meta _ _ s f (by
      rw [hfs] at hf
      exact metaFields_tags ks vs _ (fun g hg => by split at hg <;> simp at hg; subst hg; simp [fBytes]) f hf))
  unfold decodeRelation
  rw [List.append_assoc, List.append_assoc, decodeMsg_append, decodeMsg_append]
  have h0 : decodeMsg (relationStep { strings := T } {}) {} [fVarint 1 (u64 m.id)] = some { id := m.id } := by
    simp [decodeMsg, relationStep, fVarint, toInt64_u64 m.id hid]
  rw [h0, Option.bind_some, hstep, hfs, hmeta, Option.bind_some, ← List.append_assoc]
  rw [decode_tail_rel _ _ _ _ _ _ rfl rfl rfl]
  have hkeys : unpack (pack ks) = some ks := unpack_pack ks (fun v hv => by have := bks v hv; simp only [Nat.reducePow] at *; omega)
  have hvals : unpack (pack vs) = some vs := unpack_pack vs (fun v hv => by have := bvs v hv; simp only [Nat.reducePow] at *; omega)
  have htags : buildTags { strings := T } ks vs = some m.tags :=
    buildTags_ok _ m.tags ks vs (map_get_ext hT1 _ _ hks) (map_get_ext hT1 _ _ hvs) (ids_small bks hsz1) (ids_small bvs hsz1)
  have ir : ∀ x ∈ ms.map (·.ref), IdOk x := fun x hx => by
    obtain ⟨n, hn', rfl⟩ := List.mem_map.mp hx; exact (hm n hn').1
  have pr := packed_delta_roundtrip _ ir
  simp only [Option.map_eq_some_iff] at pr
  obtain ⟨lm, hlm, elm⟩ := pr
  simp only [Delta.encId] at *
  have hroles : unpack (pack (rr.1.map fun r => u64 (toInt32 r))) = some (rr.1.map fun r => u64 (toInt32 r)) :=
    unpack_pack _ (fun v hv => by obtain ⟨a, _, rfl⟩ := List.mem_map.mp hv; exact u64_lt _)
  have htypes : unpack (pack (ms.map fun x => u64 (nwrIndex x.type))) = some (ms.map fun x => u64 (nwrIndex x.type)) :=
    unpack_pack _ (fun v hv => by obtain ⟨a, _, rfl⟩ := List.mem_map.mp hv; exact u64_lt _)
  have hmem := buildMembers_ok { strings := T } ms rr.1 (map_get_ext hT _ _ kr)
    (fun r hr => by have := lr r hr; simp only [Nat.reducePow] at *; omega) hm
  simp only [bind, Option.bind, pure, hroles, hlm, htypes, elm, hmem, finishTags, hkeys, hvals, htags, mkMeta, project,
    projectMeta, projectInfo]

end Osmium.Pbf
