/-
Helper lemmas: `lexLt` (the model of `std::tuple::operator<`) is a strict total order on
lists of equal length.
-/
import Osmium.Model.Order

namespace Osmium.Order

theorem lexLt_irrefl (a : List Nat) : lexLt a a = false := by
  induction a with
  | nil => rfl
  | cons x xs ih => simp [lexLt, ih]

theorem lexLt_trans : ∀ (a b c : List Nat), a.length = b.length → b.length = c.length →
    lexLt a b = true → lexLt b c = true → lexLt a c = true
  | [], _, _, _, _, h, _ => by simp [lexLt] at h
  | _ :: _, [], _, _, _, h, _ => by simp [lexLt] at h
  | _ :: _, _ :: _, [], _, _, _, h => by simp [lexLt] at h
  | x :: xs, y :: ys, z :: zs, h1, h2, hab, hbc => by
    simp only [lexLt, Bool.or_eq_true, Bool.and_eq_true, Bool.not_eq_true', decide_eq_true_eq,
      decide_eq_false_iff_not, List.length_cons] at *
    have ih := lexLt_trans xs ys zs (by omega) (by omega)
    rcases hab with hab | ⟨hab, hab'⟩ <;> rcases hbc with hbc | ⟨hbc, hbc'⟩
    · left; omega
    · left; omega
    · left; omega
    · by_cases hxz : x < z
      · left; exact hxz
      · right; exact ⟨by omega, ih hab' hbc'⟩

theorem lexLt_asymm (a b : List Nat) (h : a.length = b.length) :
    lexLt a b = true → lexLt b a = false := by
  intro hab
  cases hba : lexLt b a with
  | false => rfl
  | true =>
    have := lexLt_trans a b a h h.symm hab hba
    rw [lexLt_irrefl] at this
    exact absurd this (by decide)

/-- On equal-length lists the order is total: incomparable means equal. -/
theorem lexLt_total : ∀ (a b : List Nat), a.length = b.length →
    lexLt a b = false → lexLt b a = false → a = b
  | [], [], _, _, _ => rfl
  | [], _ :: _, h, _, _ => by simp at h
  | _ :: _, [], h, _, _ => by simp at h
  | x :: xs, y :: ys, h, hab, hba => by
    simp only [lexLt, Bool.or_eq_false_iff, Bool.and_eq_false_iff, Bool.not_eq_false',
      decide_eq_false_iff_not, decide_eq_true_eq, List.length_cons] at *
    have hxy : x = y := by omega
    subst hxy
    have ih := lexLt_total xs ys (by omega)
    rcases hab with ⟨_, hab | hab⟩
    · omega
    · rcases hba with ⟨_, hba | hba⟩
      · omega
      · rw [ih hab hba]

end Osmium.Order
