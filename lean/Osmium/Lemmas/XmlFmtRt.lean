/-
XML round trip of nodes, ways and relations at the level of the writer's markup pieces
(helper lemmas for Props/C01Text.lean).
-/
import Osmium.Lemmas.XmlFmtRun

namespace Osmium.XmlFmt
open Osmium.Osm Osmium.TextFmt Osmium.Conv Osmium.Utf8

/-- a run that succeeds decodes every piece -/
theorem eventsOf_of_runPieces (ps : List Piece) : ∀ (st r : RSt), runPieces ps st = .ok r →
    ∃ evs, eventsOf ps = some evs ∧ runEvents {} evs st = .ok r := by
  induction ps with
  | nil => intro st r h; exact ⟨[], rfl, h⟩
  | cons p ps ih =>
    intro st r h
    simp only [runPieces] at h
    cases hp : evOfPiece p with
    | none => rw [hp] at h; simp at h
    | some a =>
      rw [hp] at h
      simp only [] at h
      cases hr : runEvents {} a st with
      | error x => rw [hr] at h; simp at h
      | ok st' =>
        rw [hr] at h
        simp only [bindE_ok] at h
        obtain ⟨b, hb, hrun⟩ := ih st' r h
        refine ⟨a ++ b, by simp [eventsOf, hp, hb], ?_⟩
        rw [runEvents_append, hr]
        exact hrun

/-- parents of data elements -/
def DataParent (p : Ctx) : Prop := p = .osm ∨ p = .createSection ∨ p = .modifySection ∨ p = .deleteSection

theorem parentCtx_data (o : Opts) (m : Meta) : DataParent (parentCtx o m) := by
  unfold parentCtx sectionCtx DataParent
  split
  · split
    · simp
    · split <;> simp
  · simp

/-- `<node …>`, `<way …>`, `<relation …>` under a data parent -/
theorem start_object (st : RSt) (p : Ctx) (hp : DataParent p) (rest : List Ctx) (hs : st.stack = p :: rest)
    (attrs : List (String × Bytes)) :
    startElement {} st "node" attrs = (bindE (initObject (.node emptyMeta Location.undefined) (p == .deleteSection) attrs)
      fun ob => .ok { markDone (push st .node) with cur := some { obj := ob } }) ∧
    startElement {} st "way" attrs = (bindE (initObject (.way emptyMeta []) (p == .deleteSection) attrs)
      fun ob => .ok { markDone (push st .way) with cur := some { obj := ob } }) ∧
    startElement {} st "relation" attrs = (bindE (initObject (.relation emptyMeta []) (p == .deleteSection) attrs)
      fun ob => .ok { markDone (push st .relation) with cur := some { obj := ob } }) := by
  rcases hp with rfl | rfl | rfl | rfl <;>
    simp (config := { decide := true }) [startElement, hs, dataLevel]

/-- `</node>`, `</way>`, `</relation>`: the object is committed -/
theorem end_object (st : RSt) (k p : Ctx) (hk : k = .node ∨ k = .way ∨ k = .relation) (rest : List Ctx)
    (hs : st.stack = k :: p :: rest) (c : Cur) (hc : st.cur = some c) :
    endElement {} st = .ok { st with stack := p :: rest, cur := none, out := assemble c :: st.out } := by
  rcases st with ⟨stack, header, version, headerOut, cur, out, ct⟩
  simp only at hs hc
  subst hs hc
  rcases hk with rfl | rfl | rfl <;> simp [endElement, commit]

/-- the state after a whole object -/
theorem object_done (st st1 : RSt) (k p : Ctx) (rest : List Ctx) (hs : st.stack = p :: rest) (hc : st.cur = none)
    (c : Cur) (ob : Object) (h1 : st1 = { markDone (push st k) with cur := some c }) :
    ({ st1 with stack := p :: rest, cur := none, out := ob :: st1.out } : RSt) = { markDone st with out := ob :: st.out } := by
  subst h1
  rcases st with ⟨stack, header, version, headerOut, cur, out, ct⟩
  simp only at hs hc
  subst hs hc
  cases headerOut <;> simp [markDone, push]

/-- `init_object` on the decoded attribute list of `write_meta` (plus kind-specific extras) -/
theorem initObject_meta (mk : Meta → Object) (hmk : IsMk mk) (o : Opts) (m : Meta) (h : XMetaOK m)
    (idv vv uv cv : Bytes) (hid : rId idv = .ok m.id) (hv : rUlong vv = .ok m.version) (hu : rUlong uv = .ok m.uid)
    (hc : rUlong cv = .ok m.changeset) (extra : List (String × Bytes)) :
    initObjectAttrs (metaList o m idv vv uv cv m.user ++ extra)
        (if (parentCtx o m == Ctx.deleteSection) then mapMeta (fun x => { x with visible := false }) (mk emptyMeta) else mk emptyMeta)
        Location.undefined [] =
      initObjectAttrs extra (mk (metaFinal o m)) Location.undefined (if (o.md.user && !m.user.isEmpty) then m.user else []) := by
  have hts := rTimestampStrict_toIsoAll m.timestamp h.ts
  have hmk' : ∀ f x, mapMeta f (mk x) = mk (f x) := hmk
  have e0 : (if (parentCtx o m == Ctx.deleteSection) then mapMeta (fun x => { x with visible := false }) (mk emptyMeta) else mk emptyMeta)
      = mk (meta0 o m) := by
    rw [parent_inDelete, hmk', meta0]
    cases (o.changeOps && !m.visible) <;> rfl
  rw [e0]
  unfold metaList
  exact init_chain mk hmk _ _ _ _ _ _ idv vv (toIsoAll m.timestamp) uv m.user cv m.id m.version m.timestamp m.uid
    m.changeset m.visible hid hv hts hu hc (meta0 o m) Location.undefined extra

theorem initObject_of (empty : Object) (inDelete : Bool) (attrs : List (String × Bytes)) (obj : Object) (loc : Location)
    (user : Bytes)
    (h : initObjectAttrs attrs (if inDelete then mapMeta (fun m => { m with visible := false }) empty else empty)
      Location.undefined [] = .ok (obj, loc, user)) (hu : user.length ≤ 1024) :
    initObject empty inDelete attrs =
      (match mapMeta (fun m => { m with user := user }) obj with
       | .node m _ => .ok (.node m (if bothDefined loc then loc else Location.undefined))
       | o => .ok o) := by
  have hlen : ¬ (user.length > OplFmt.maxString) := by simp [OplFmt.maxString]; omega
  unfold initObject
  simp only []
  rw [h]
  simp only [bindE_ok, hlen, if_false]
  rfl

/-- the user name `write_meta` emits is short enough for `set_user` -/
theorem userSel_len (o : Opts) (m : Meta) (hm : XMetaOK m) :
    (if (o.md.user && !m.user.isEmpty) then m.user else []).length ≤ 1024 := by
  obtain ⟨_, _, _, hl⟩ := xstrOK_spec hm.user
  split
  · exact hl
  · simp

theorem assemble_way (C : Cur) (M : Meta) (ts : List Tag) (X : List NodeRef) (h1 : C.obj = .way M [])
    (h2 : firstTags C.subs = ts) (h3 : firstNodes C.subs = X) : assemble C = .way { M with tags := ts } X := by
  rcases C with ⟨obj, subs, lo⟩
  simp only at h1 h2 h3
  subst h1 h2 h3
  rfl

theorem assemble_relation (C : Cur) (M : Meta) (ts : List Tag) (X : List Member) (h1 : C.obj = .relation M [])
    (h2 : firstTags C.subs = ts) (h3 : firstMembers C.subs = X) : assemble C = .relation { M with tags := ts } X := by
  rcases C with ⟨obj, subs, lo⟩
  simp only at h1 h2 h3
  subst h1 h2 h3
  rfl

theorem assemble_node (C : Cur) (M : Meta) (l : Location) (ts : List Tag) (h1 : C.obj = .node M l)
    (h2 : firstTags C.subs = ts) : assemble C = .node { M with tags := ts } l := by
  rcases C with ⟨obj, subs, lo⟩
  simp only at h1 h2
  subst h1 h2
  rfl

theorem projectMeta_tags (o : Opts) (m : Meta) :
    ({ ({ projectMeta o m with tags := [] } : Meta) with tags := m.tags } : Meta) = projectMeta o m := by
  simp [projectMeta]

theorem noText_data (st : RSt) (p : Ctx) (hp : DataParent p) (rest : List Ctx) (hs : st.stack = p :: rest) : NoText st := by
  unfold NoText; rw [hs]
  rcases hp with rfl | rfl | rfl | rfl <;> simp

theorem noText_obj (st : RSt) (k : Ctx) (hk : k = .node ∨ k = .way ∨ k = .relation) (rest : List Ctx)
    (hs : st.stack = k :: rest) : NoText st := by
  unfold NoText; rw [hs]
  rcases hk with rfl | rfl | rfl <;> simp

theorem way_rt (o : Opts) (m : Meta) (ns : List NodeRef) (hm : XMetaOK m) (hns : ∀ n ∈ ns, XRefOK n)
    (st : RSt) (rest : List Ctx) (hs : st.stack = parentCtx o m :: rest) (hc : st.cur = none) :
    ∃ ps, objectPieces o (.way m ns) = .ok ps ∧
      runPieces ps st = .ok { markDone st with out := project o (.way m ns) :: st.out } := by
  obtain ⟨idv, vv, uv, cv, rid, rv, ru, rc, hma, hdec⟩ := metaAttrs_spec o m hm
  have hdp := parentCtx_data o m
  have hnt0 := noText_data st _ hdp rest hs
  -- the opening tag
  have hinit := initObject_meta (fun x => Object.way x []) (isMk_way []) o m hm idv vv uv cv rid rv ru rc []
  have hstart : startElement {} st "way" (metaList o m idv vv uv cv m.user) =
      .ok { markDone (push st .way) with cur := some { obj := .way { projectMeta o m with tags := [] } [] } } := by
    rw [(start_object st _ hdp rest hs _).2.1]
    have := hinit
    simp only [List.append_nil] at this
    rw [initObject_of _ _ _ _ _ _ (this.trans rfl) (userSel_len o m hm)]
    simp only [mapMeta, bindE_ok, meta_result o m hm]
  let st1 : RSt := { markDone (push st .way) with cur := some { obj := .way { projectMeta o m with tags := [] } [] } }
  have hs1 : st1.stack = Ctx.way :: parentCtx o m :: rest := by
    simp only [st1]
    cases hh : st.headerOut <;> simp [markDone, push, hh, hs]
  -- children
  obtain ⟨xs, hxs, hnds⟩ := children_run
    (fun (n : NodeRef) => bindE (intAttr "ref" n.ref) fun ar =>
      (Except.ok [sp (prefixSpaces o + 2),
        Piece.elem "nd" (ar :: (if o.locationsOnWays && bothDefined n.location then latLon "lat" "lon" n.location else [])) true,
        nl] : Except WErr (List Piece)))
    addNode (fun n => ({ n with location := if o.locationsOnWays then projectLoc n.location else Location.undefined } : NodeRef))
    Ctx.way (parentCtx o m :: rest) ns (fun n hn => nd_run o (prefixSpaces o) n (hns n hn) _)
  obtain ⟨pre, lo, hcol, hpre, hfn⟩ := nodes_collected (.way { projectMeta o m with tags := [] } [])
    (ns.map fun n => ({ n with location := if o.locationsOnWays then projectLoc n.location else Location.undefined } : NodeRef))
  obtain ⟨at1, at2, _, at4⟩ := assemble_tags (.way { projectMeta o m with tags := [] } []) pre lo m.tags hpre
  -- the result
  have hres : assemble (m.tags.foldl addTag { obj := .way { projectMeta o m with tags := [] } [], subs := pre, lastOpen := lo })
      = project o (.way m ns) := by
    rw [assemble_way _ _ _ _ at4 at1 (at2.trans hfn), projectMeta_tags]
    rfl
  have hend : ∀ c : Cur, endElement {} ({ st1 with cur := some c } : RSt) =
      .ok { markDone st with out := assemble c :: st.out } := by
    intro c
    rw [end_object ({ st1 with cur := some c } : RSt) .way _ (Or.inr (Or.inl rfl)) rest hs1 c rfl]
    exact congrArg Except.ok (object_done st _ .way _ rest hs hc c (assemble c) rfl)
  have hntF : ∀ ob : Object, NoText ({ markDone st with out := ob :: st.out } : RSt) := by
    intro ob
    refine noText_data _ _ hdp rest ?_
    cases hh : st.headerOut <;> simp [markDone, hh, hs]
  by_cases hempty : (m.tags.isEmpty && ns.isEmpty) = true
  · -- <way …/>
    have ht : m.tags = [] ∧ ns = [] := by simpa using hempty
    refine ⟨[sp (prefixSpaces o), .elem "way" (metaList o m idv vv uv cv (Xml.escape m.user)) true, nl],
      by simp only [objectPieces, hma, bindE_ok, hempty, if_true], ?_⟩
    rw [sp, runPieces_ws _ _ _ hnt0, runPieces_elem _ _ _ _ _ _ hdec, hstart]
    simp only [bindE_ok, if_true]
    have h1 := hend { obj := .way { projectMeta o m with tags := [] } [] }
    have e1 : ({ st1 with cur := some { obj := .way { projectMeta o m with tags := [] } [] } } : RSt) = st1 := rfl
    rw [e1] at h1
    rw [h1]
    simp only [bindE_ok, nl]
    rw [runPieces_ws _ _ _ (hntF _), runPieces]
    have : assemble { obj := .way { projectMeta o m with tags := [] } [] } = project o (.way m ns) := by
      rw [ht.2] at hcol
      rw [ht.1] at hres
      simp only [List.map_nil, List.foldl_nil] at hcol hres
      rw [← hres, ← hcol]
    rw [this]
  · -- <way …> children </way>
    have hempty' : (m.tags.isEmpty && ns.isEmpty) = false := by simpa using hempty
    refine ⟨[sp (prefixSpaces o), .elem "way" (metaList o m idv vv uv cv (Xml.escape m.user)) false, nl] ++ xs.flatten ++
        tagPieces (prefixSpaces o) m.tags ++ [sp (prefixSpaces o), .close "way", nl],
      by simp only [objectPieces, hma, bindE_ok, hempty', Bool.false_eq_true, if_false, hxs], ?_⟩
    have hnt1 : ∀ c : Cur, NoText ({ st1 with cur := some c } : RSt) :=
      fun c => noText_obj _ .way (Or.inr (Or.inl rfl)) _ hs1
    simp only [List.cons_append, List.nil_append, List.append_assoc]
    rw [sp, runPieces_ws _ _ _ hnt0, runPieces_elem _ _ _ _ _ _ hdec, hstart]
    simp only [bindE_ok, Bool.false_eq_true, if_false, nl]
    rw [runPieces_ws _ _ _ (hnt1 _), hnds st1 _ _ hs1 rfl, hcol]
    rw [tags_run (prefixSpaces o) m.tags hm.tags _ .way (Or.inr (Or.inl rfl)) (parentCtx o m :: rest)
      ({ st1 with cur := some { obj := .way { projectMeta o m with tags := [] } [], subs := pre, lastOpen := lo } } : RSt) _ hs1 rfl]
    rw [runPieces_ws _ _ _ (hnt1 _), runPieces_close]
    have hE := hend (m.tags.foldl addTag { obj := .way { projectMeta o m with tags := [] } [], subs := pre, lastOpen := lo })
    rw [hres] at hE
    rw [hE]
    simp only [bindE_ok]
    rw [runPieces_ws _ _ _ (hntF _), runPieces]

theorem relation_rt (o : Opts) (m : Meta) (ms : List Member) (hm : XMetaOK m) (hms : ∀ x ∈ ms, XMemberOK x)
    (st : RSt) (rest : List Ctx) (hs : st.stack = parentCtx o m :: rest) (hc : st.cur = none) :
    ∃ ps, objectPieces o (.relation m ms) = .ok ps ∧
      runPieces ps st = .ok { markDone st with out := project o (.relation m ms) :: st.out } := by
  obtain ⟨idv, vv, uv, cv, rid, rv, ru, rc, hma, hdec⟩ := metaAttrs_spec o m hm
  have hdp := parentCtx_data o m
  have hnt0 := noText_data st _ hdp rest hs
  -- the opening tag
  have hinit := initObject_meta (fun x => Object.relation x []) (isMk_relation []) o m hm idv vv uv cv rid rv ru rc []
  have hstart : startElement {} st "relation" (metaList o m idv vv uv cv m.user) =
      .ok { markDone (push st .relation) with cur := some { obj := .relation { projectMeta o m with tags := [] } [] } } := by
    rw [(start_object st _ hdp rest hs _).2.2]
    have := hinit
    simp only [List.append_nil] at this
    rw [initObject_of _ _ _ _ _ _ (this.trans rfl) (userSel_len o m hm)]
    simp only [mapMeta, bindE_ok, meta_result o m hm]
  let st1 : RSt := { markDone (push st .relation) with cur := some { obj := .relation { projectMeta o m with tags := [] } [] } }
  have hs1 : st1.stack = Ctx.relation :: parentCtx o m :: rest := by
    simp only [st1]
    cases hh : st.headerOut <;> simp [markDone, push, hh, hs]
  -- children
  obtain ⟨xs, hxs, hnds⟩ := children_run
    (fun (x : Member) => bindE (intAttr "ref" x.ref) fun ar =>
      (Except.ok [sp (prefixSpaces o + 2),
        Piece.elem "member" [("type", typeName x.type), ar, ("role", Xml.escape x.role)] true, nl] : Except WErr (List Piece)))
    addMember id Ctx.relation (parentCtx o m :: rest) ms (fun x hx => member_run (prefixSpaces o) x (hms x hx) _)
  obtain ⟨pre, lo, hcol, hpre, hfn⟩ := members_collected (.relation { projectMeta o m with tags := [] } []) (ms.map id)
  obtain ⟨at1, _, at3, at4⟩ := assemble_tags (.relation { projectMeta o m with tags := [] } []) pre lo m.tags hpre
  -- the result
  have hres : assemble (m.tags.foldl addTag { obj := .relation { projectMeta o m with tags := [] } [], subs := pre, lastOpen := lo })
      = project o (.relation m ms) := by
    rw [assemble_relation _ _ _ _ at4 at1 (at3.trans hfn), projectMeta_tags, List.map_id]
    rfl
  have hend : ∀ c : Cur, endElement {} ({ st1 with cur := some c } : RSt) =
      .ok { markDone st with out := assemble c :: st.out } := by
    intro c
    rw [end_object ({ st1 with cur := some c } : RSt) .relation _ (Or.inr (Or.inr rfl)) rest hs1 c rfl]
    exact congrArg Except.ok (object_done st _ .relation _ rest hs hc c (assemble c) rfl)
  have hntF : ∀ ob : Object, NoText ({ markDone st with out := ob :: st.out } : RSt) := by
    intro ob
    refine noText_data _ _ hdp rest ?_
    cases hh : st.headerOut <;> simp [markDone, hh, hs]
  by_cases hempty : (m.tags.isEmpty && ms.isEmpty) = true
  · -- <way …/>
    have ht : m.tags = [] ∧ ms = [] := by simpa using hempty
    refine ⟨[sp (prefixSpaces o), .elem "relation" (metaList o m idv vv uv cv (Xml.escape m.user)) true, nl],
      by simp only [objectPieces, hma, bindE_ok, hempty, if_true], ?_⟩
    rw [sp, runPieces_ws _ _ _ hnt0, runPieces_elem _ _ _ _ _ _ hdec, hstart]
    simp only [bindE_ok, if_true]
    have h1 := hend { obj := .relation { projectMeta o m with tags := [] } [] }
    have e1 : ({ st1 with cur := some { obj := .relation { projectMeta o m with tags := [] } [] } } : RSt) = st1 := rfl
    rw [e1] at h1
    rw [h1]
    simp only [bindE_ok, nl]
    rw [runPieces_ws _ _ _ (hntF _), runPieces]
    have : assemble { obj := .relation { projectMeta o m with tags := [] } [] } = project o (.relation m ms) := by
      rw [ht.2] at hcol
      rw [ht.1] at hres
      simp only [List.map_nil, List.foldl_nil] at hcol hres
      rw [← hres, ← hcol]
    rw [this]
  · -- <way …> children </way>
    have hempty' : (m.tags.isEmpty && ms.isEmpty) = false := by simpa using hempty
    refine ⟨[sp (prefixSpaces o), .elem "relation" (metaList o m idv vv uv cv (Xml.escape m.user)) false, nl] ++ xs.flatten ++
        tagPieces (prefixSpaces o) m.tags ++ [sp (prefixSpaces o), .close "relation", nl],
      by simp only [objectPieces, hma, bindE_ok, hempty', Bool.false_eq_true, if_false, hxs], ?_⟩
    have hnt1 : ∀ c : Cur, NoText ({ st1 with cur := some c } : RSt) :=
      fun c => noText_obj _ .relation (Or.inr (Or.inr rfl)) _ hs1
    simp only [List.cons_append, List.nil_append, List.append_assoc]
    rw [sp, runPieces_ws _ _ _ hnt0, runPieces_elem _ _ _ _ _ _ hdec, hstart]
    simp only [bindE_ok, Bool.false_eq_true, if_false, nl]
    rw [runPieces_ws _ _ _ (hnt1 _), hnds st1 _ _ hs1 rfl, hcol]
    rw [tags_run (prefixSpaces o) m.tags hm.tags _ .relation (Or.inr (Or.inr (Or.inl rfl))) (parentCtx o m :: rest)
      ({ st1 with cur := some { obj := .relation { projectMeta o m with tags := [] } [], subs := pre, lastOpen := lo } } : RSt) _ hs1 rfl]
    rw [runPieces_ws _ _ _ (hnt1 _), runPieces_close]
    have hE := hend (m.tags.foldl addTag { obj := .relation { projectMeta o m with tags := [] } [], subs := pre, lastOpen := lo })
    rw [hres] at hE
    rw [hE]
    simp only [bindE_ok]
    rw [runPieces_ws _ _ _ (hntF _), runPieces]


/-- node locations of the XML domain: int32 coordinates (anything not fully defined reads back as
    undefined) -/
def XLocOK (l : Location) : Prop :=
  int32Min ≤ l.x ∧ l.x ≤ int32Max ∧ int32Min ≤ l.y ∧ l.y ≤ int32Max

theorem node_rt (o : Opts) (m : Meta) (l : Location) (hm : XMetaOK m) (hl : XLocOK l)
    (st : RSt) (rest : List Ctx) (hs : st.stack = parentCtx o m :: rest) (hc : st.cur = none) :
    ∃ ps, objectPieces o (.node m l) = .ok ps ∧
      runPieces ps st = .ok { markDone st with out := project o (.node m l) :: st.out } := by
  obtain ⟨idv, vv, uv, cv, rid, rv, ru, rc, hma, hdec0⟩ := metaAttrs_spec o m hm
  obtain ⟨hx0, hx1, hy0, hy1⟩ := hl
  have hdp := parentCtx_data o m
  have hnt0 := noText_data st _ hdp rest hs
  let extra : List (String × Bytes) := if bothDefined l then latLon "lat" "lon" l else []
  have hdecE : decodeAttrs extra = some extra := by
    simp only [extra]
    split
    · simp [decodeAttrs, latLon, unescape_plain _ (formatCoord_plain _ hx0 hx1), unescape_plain _ (formatCoord_plain _ hy0 hy1)]
    · rfl
  have hdec : decodeAttrs (metaList o m idv vv uv cv (Xml.escape m.user) ++ extra)
      = some (metaList o m idv vv uv cv m.user ++ extra) := decodeAttrs_append_some hdec0 hdecE
  have hinit := initObject_meta (fun x => Object.node x Location.undefined) (isMk_node _) o m hm idv vv uv cv rid rv ru rc extra
  have hextra : ∀ (ob : Object) (u : Bytes), initObjectAttrs extra ob Location.undefined u
      = .ok (ob, (if bothDefined l then l else Location.undefined), u) := by
    intro ob u
    simp only [extra]
    split
    · simp (config := { decide := true }) [initObjectAttrs, latLon, rCoord_formatCoord _ hx0 hx1, rCoord_formatCoord _ hy0 hy1,
        Location.undefined]
    · rfl
  have hbd : (if bothDefined (if bothDefined l then l else Location.undefined) then (if bothDefined l then l else Location.undefined)
      else Location.undefined) = projectLoc l := by
    unfold projectLoc
    cases hb : bothDefined l <;> simp [hb]
  have hstart : startElement {} st "node" (metaList o m idv vv uv cv m.user ++ extra) =
      .ok { markDone (push st .node) with cur := some { obj := .node { projectMeta o m with tags := [] } (projectLoc l) } } := by
    rw [(start_object st _ hdp rest hs _).1]
    rw [initObject_of _ _ _ _ _ _ (hinit.trans (hextra _ _)) (userSel_len o m hm)]
    simp only [mapMeta, bindE_ok, meta_result o m hm, hbd]
  let st1 : RSt := { markDone (push st .node) with cur := some { obj := .node { projectMeta o m with tags := [] } (projectLoc l) } }
  have hs1 : st1.stack = Ctx.node :: parentCtx o m :: rest := by
    simp only [st1]
    cases hh : st.headerOut <;> simp [markDone, push, hh, hs]
  obtain ⟨at1, _, _, at4⟩ := assemble_tags (.node { projectMeta o m with tags := [] } (projectLoc l)) [] false m.tags (Or.inl rfl)
  have hres : assemble (m.tags.foldl addTag { obj := .node { projectMeta o m with tags := [] } (projectLoc l) })
      = project o (.node m l) := by
    rw [assemble_node _ _ _ _ at4 at1, projectMeta_tags]
    rfl
  have hend : ∀ c : Cur, endElement {} ({ st1 with cur := some c } : RSt) =
      .ok { markDone st with out := assemble c :: st.out } := by
    intro c
    rw [end_object ({ st1 with cur := some c } : RSt) .node _ (Or.inl rfl) rest hs1 c rfl]
    exact congrArg Except.ok (object_done st _ .node _ rest hs hc c (assemble c) rfl)
  have hntF : ∀ ob : Object, NoText ({ markDone st with out := ob :: st.out } : RSt) := by
    intro ob
    refine noText_data _ _ hdp rest ?_
    cases hh : st.headerOut <;> simp [markDone, hh, hs]
  by_cases hempty : m.tags.isEmpty = true
  · have ht : m.tags = [] := by simpa using hempty
    refine ⟨[sp (prefixSpaces o), .elem "node" (metaList o m idv vv uv cv (Xml.escape m.user) ++ extra) true, nl],
      by simp only [objectPieces, hma, bindE_ok, hempty, if_true, extra], ?_⟩
    rw [sp, runPieces_ws _ _ _ hnt0, runPieces_elem _ _ _ _ _ _ hdec, hstart]
    simp only [bindE_ok, if_true]
    have h1 := hend { obj := .node { projectMeta o m with tags := [] } (projectLoc l) }
    have e1 : ({ st1 with cur := some { obj := .node { projectMeta o m with tags := [] } (projectLoc l) } } : RSt) = st1 := rfl
    rw [e1] at h1
    rw [h1]
    simp only [bindE_ok, nl]
    rw [runPieces_ws _ _ _ (hntF _), runPieces]
    rw [ht] at hres
    simp only [List.foldl_nil] at hres
    rw [hres]
  · have hempty' : m.tags.isEmpty = false := by simpa using hempty
    refine ⟨[sp (prefixSpaces o), .elem "node" (metaList o m idv vv uv cv (Xml.escape m.user) ++ extra) false, nl] ++
        tagPieces (prefixSpaces o) m.tags ++ [sp (prefixSpaces o), .close "node", nl],
      by simp only [objectPieces, hma, bindE_ok, hempty', Bool.false_eq_true, if_false, extra], ?_⟩
    have hnt1 : ∀ c : Cur, NoText ({ st1 with cur := some c } : RSt) :=
      fun c => noText_obj _ .node (Or.inl rfl) _ hs1
    simp only [List.cons_append, List.nil_append, List.append_assoc]
    rw [sp, runPieces_ws _ _ _ hnt0, runPieces_elem _ _ _ _ _ _ hdec, hstart]
    simp only [bindE_ok, Bool.false_eq_true, if_false, nl]
    rw [runPieces_ws _ _ _ (hnt1 _)]
    rw [tags_run (prefixSpaces o) m.tags hm.tags _ .node (Or.inl rfl) (parentCtx o m :: rest) st1 _ hs1 rfl]
    rw [runPieces_ws _ _ _ (hnt1 _), runPieces_close]
    have hE := hend (m.tags.foldl addTag { obj := .node { projectMeta o m with tags := [] } (projectLoc l) })
    rw [hres] at hE
    rw [hE]
    simp only [bindE_ok]
    rw [runPieces_ws _ _ _ (hntF _), runPieces]

end Osmium.XmlFmt
