/-
XML round trip of changesets with discussions, part 1: the reader's steps on `<changeset>`,
`<discussion>`, `<comment>`, `<text>` (at `startElement` / `endElement` / `characters` level, so
that they serve both the writer's markup and the specification renderer's event stream), the
attribute loops `init_changeset` / comment attributes on the writer's attribute lists, and what the
builders collect.  Helper lemmas for Props/C01Text.lean (`xml_roundtrip_changeset`).
-/
import Osmium.Lemmas.XmlFmtCsDefs

namespace Osmium.XmlFmt
open Osmium.Osm Osmium.TextFmt Osmium.Conv Osmium.Utf8

/-! ### reader steps -/

/-- parents under which the reader accepts `<changeset>` -/
def TopParent (p : Ctx) : Prop := p = .osm ∨ p = .osmChange

theorem start_changeset (st : RSt) (p : Ctx) (hp : TopParent p) (rest : List Ctx) (hs : st.stack = p :: rest)
    (attrs : List (String × Bytes)) :
    startElement {} st "changeset" attrs = (bindE (initChangeset attrs)
      fun ob => .ok { markDone (push st .changeset) with cur := some { obj := ob } }) := by
  rcases hp with rfl | rfl <;>
    simp (config := { decide := true }) [startElement, hs, dataLevel]

theorem end_changeset (st : RSt) (p : Ctx) (rest : List Ctx) (hs : st.stack = .changeset :: p :: rest) (c : Cur)
    (hc : st.cur = some c) :
    endElement {} st = .ok { st with stack := p :: rest, cur := none, out := assemble c :: st.out } := by
  rcases st with ⟨stack, header, version, headerOut, cur, out, ct⟩
  simp only at hs hc
  subst hs hc
  simp [endElement, commit]

theorem discussion_open_step (st : RSt) (rest : List Ctx) (c : Cur) (hs : st.stack = .changeset :: rest)
    (hc : st.cur = some c) (attrs : List (String × Bytes)) :
    startElement {} st "discussion" attrs =
      .ok { st with stack := .discussion :: .changeset :: rest, cur := some (openDiscussion c) } := by
  rcases st with ⟨stack, header, version, headerOut, cur, out, ct⟩
  simp only at hs hc
  subst hs hc
  simp (config := { decide := true }) [startElement, push, withCur]

theorem discussion_close_step (st : RSt) (rest : List Ctx) (hs : st.stack = .discussion :: rest) :
    endElement {} st = .ok { st with stack := rest } := by
  rcases st with ⟨stack, header, version, headerOut, cur, out, ct⟩
  simp only at hs
  subst hs
  simp [endElement]

theorem comment_step (st : RSt) (rest : List Ctx) (c : Cur) (hs : st.stack = .discussion :: rest) (hc : st.cur = some c)
    (attrs : List (String × Bytes)) (x : Comment) (h : commentAttrs attrs ⟨0, 0, [], []⟩ = .ok x)
    (hu : x.user.length ≤ 1024) :
    startElement {} st "comment" attrs =
      .ok { st with stack := .comment :: .discussion :: rest, cur := some (addComment c x), commentPending := true } := by
  have hlen : ¬ (1024 < x.user.length) := by omega
  rcases st with ⟨stack, header, version, headerOut, cur, out, ct, cp⟩
  simp only at hs hc
  subst hs hc
  simp (config := { decide := true }) [startElement, push, withCur, h, OplFmt.maxString, hlen]

theorem comment_close_step (st : RSt) (rest : List Ctx) (hs : st.stack = .comment :: rest)
    (hp : st.commentPending = false) :
    endElement {} st = .ok { st with stack := rest } := by
  rcases st with ⟨stack, header, version, headerOut, cur, out, ct, cp⟩
  simp only at hs hp
  subst hs hp
  simp [endElement]

theorem text_open_step (st : RSt) (rest : List Ctx) (hs : st.stack = .comment :: rest) (attrs : List (String × Bytes))
    (hp : st.commentPending = true) :
    startElement {} st "text" attrs = .ok { st with stack := .text :: .comment :: rest } := by
  rcases st with ⟨stack, header, version, headerOut, cur, out, ct, cp⟩
  simp only at hs hp
  subst hs hp
  simp (config := { decide := true }) [startElement, push]

theorem text_chars_step (st : RSt) (rest : List Ctx) (hs : st.stack = .text :: rest) (t : Bytes) :
    characters {} st t = { st with commentText := st.commentText ++ t } := by
  simp [characters, hs]

theorem text_close_step (st : RSt) (rest : List Ctx) (c : Cur) (hs : st.stack = .text :: rest) (hc : st.cur = some c) :
    endElement {} st =
      .ok { st with stack := rest, cur := some (setCommentText c st.commentText), commentText := [],
                    commentPending := false } := by
  rcases st with ⟨stack, header, version, headerOut, cur, out, ct, cp⟩
  simp only at hs hc
  subst hs hc
  simp [endElement]

/-! ### the builders -/

/-- one comment: `add_comment` then `add_comment_text` -/
theorem comment_collect (c : Cur) (pre : List Sub) (cs : List Comment) (h : c.subs = pre ++ [.discussion cs])
    (x : Comment) (t : Bytes) :
    setCommentText (addComment c x) t = { c with subs := pre ++ [.discussion (cs ++ [{ x with text := t }])] } := by
  have h1 : addComment c x = { c with subs := pre ++ [.discussion (cs ++ [x])] } := by
    unfold addComment; rw [h]; simp
  rw [h1]
  unfold setCommentText
  simp

theorem openDiscussion_fresh (c : Cur) (hl : ∀ cs, c.subs.getLast? ≠ some (.discussion cs)) :
    openDiscussion c = { c with subs := c.subs ++ [.discussion []], lastOpen := true } := by
  unfold openDiscussion
  split
  · rename_i cs h1 h2; exact absurd h2 (hl cs)
  · rfl

/-- the tags of a changeset as collected by the tag builder -/
theorem tags_collected (obj : Object) (ts : List Tag) :
    ∃ pre lo, ts.foldl addTag { obj := obj } = { obj := obj, subs := pre, lastOpen := lo } ∧
      (pre = [] ∨ pre = [.tags ts]) ∧ firstTags pre = ts := by
  cases ts with
  | nil => exact ⟨[], false, rfl, Or.inl rfl, rfl⟩
  | cons t ts =>
    have h1 : addTag { obj := obj } t = { obj := obj, subs := [] ++ [.tags [t]], lastOpen := true } := by simp [addTag]
    refine ⟨[.tags (t :: ts)], true, ?_, Or.inr rfl, rfl⟩
    rw [List.foldl_cons, h1, foldl_addTag_open ts _ [] [t] rfl rfl]
    simp

theorem assemble_changeset (C : Cur) (id ca cl nc ncm : Nat) (uid : Int) (user : Bytes) (bl tr : Location)
    (t0 : List Tag) (c0 : List Comment) (ts : List Tag) (cs : List Comment)
    (h1 : C.obj = .changeset id ca cl nc ncm uid user bl tr t0 c0) (h2 : firstTags C.subs = ts)
    (h3 : firstDiscussion C.subs = cs) : assemble C = .changeset id ca cl nc ncm uid user bl tr ts cs := by
  rcases C with ⟨obj, subs, lo⟩
  simp only at h1 h2 h3
  subst h1 h2 h3
  rfl

end Osmium.XmlFmt
