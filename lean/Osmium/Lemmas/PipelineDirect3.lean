/-
Direct-fd configuration, part 3: the initial state of the direct-fd machine corresponds to a REACHABLE
state of the queue-fed machine `machine (fed c)` — the read thread has delivered the one chunk and the
end marker, the parser has taken both and has shut the input queue down (see PipelineDirect.lean).
The run is evaluated by the kernel (`rfl`) on a configuration whose tested fields are literals.
-/
import Osmium.Lemmas.PipelineDirect2

set_option linter.unusedSimpArgs false
set_option linter.unusedVariables false

namespace Osmium.Pipeline

open Osmium.Mon

variable {α : Type} [DecidableEq α]

namespace Direct

/-- `fed c` with the fields that the start run tests written as literals (`m` = bound of the input queue) -/
def fedLit (c : Cfg α) (m : Nat) : Cfg α :=
  { file := c.file, sel := c.sel, strip := c.strip, chunkEnd := [c.file.length], pbf := c.pbf, blobEnd := c.blobEnd,
    usePool := c.usePool, workers := c.workers, wqMax := c.wqMax, inqC := ⟨m, c.inqC.spurious⟩, outqC := c.outqC,
    single := c.single, nothing := c.nothing, readFault := none, closeFault := false, parseFault := c.parseFault,
    blobFault := c.blobFault }

omit [DecidableEq α] in
theorem fed_eq_lit (c : Cfg α) (hd : IsDirect c) (m : Nat) (hm : c.inqC.max = m) : fed c = fedLit c m := by
  obtain ⟨d1, d2, d3⟩ := hd
  cases c with
  | mk file sel strip chunkEnd pbf blobEnd usePool workers wqMax inqC outqC single nothing readFault closeFault parseFault blobFault =>
    cases inqC
    simp_all [fed, fedLit]

/-- the run of the queue-fed machine that leads to the state corresponding to `initD c`;
    `poll`: the input queue is bounded, so push() calls `size()` once -/
def startTr (poll : Bool) : List (Ev α) :=
  [.rTestDone false, .rRead (.chunk 0), .qi (.pushEnter tR 0), .qi (.pushTest tR true)] ++
  (if poll then [.qi (.pushSize tR 0)] else []) ++
  [.qi (.pushLocked tR 1 none), .rSet,
   .pInUse true, .qi (.popNow tP 1 (some (tR, 0))), .pGet (.chunk 0),
   .rTestDone false, .rRead .eod, .rCloseDec true, .qi (.pushEnter tR 2), .qi (.pushTest tR true)] ++
  (if poll then [.qi (.pushSize tR 0)] else []) ++
  [.qi (.pushLocked tR 1 none), .rSet,
   .pInUse true, .qi (.popNow tP 1 (some (tR, 2))), .pGet .eod,
   .qi (.sdEnter tP), .qi (.sdFlag tP), .qi (.sdLocked tP)]

theorem start_ok0 (c : Cfg α) : (runTr (fedLit c 0) (init α) (startTr false)).isSome = true := by rfl
theorem start_ok1 (c : Cfg α) (m : Nat) : (runTr (fedLit c (m + 1)) (init α) (startTr true)).isSome = true := by rfl

def start0 (c : Cfg α) : State α := (runTr (fedLit c 0) (init α) (startTr false)).get (start_ok0 c)
def start1 (c : Cfg α) (m : Nat) : State α := (runTr (fedLit c (m + 1)) (init α) (startTr true)).get (start_ok1 c m)

omit [DecidableEq α] in
theorem odd_ne {id : Nat} (h : id % 2 = 1) : id ≠ 2 ∧ id ≠ 0 := by omega

theorem sim_start0 (c : Cfg α) : Sim (initD c) (start0 c) :=
  ⟨rfl, rfl, rfl, rfl, rfl, rfl, rfl, rfl, rfl, rfl, rfl, rfl, rfl, rfl, rfl, rfl, rfl, rfl, rfl, rfl, rfl, rfl, rfl,
   rfl, rfl, rfl, rfl, rfl,
   fun id h => by
     show (if id = 2 then _ else if id = 0 then _ else none) = none
     simp [(odd_ne h).1, (odd_ne h).2],
   fun id h => by
     show (if id = 2 then _ else if id = 0 then _ else Val.eod) = Val.eod
     simp [(odd_ne h).1, (odd_ne h).2]⟩

theorem sim_start1 (c : Cfg α) (m : Nat) : Sim (initD c) (start1 c m) :=
  ⟨rfl, rfl, rfl, rfl, rfl, rfl, rfl, rfl, rfl, rfl, rfl, rfl, rfl, rfl, rfl, rfl, rfl, rfl, rfl, rfl, rfl, rfl, rfl,
   rfl, rfl, rfl, rfl, rfl,
   fun id h => by
     show (if id = 2 then _ else if id = 0 then _ else none) = none
     simp [(odd_ne h).1, (odd_ne h).2],
   fun id h => by
     show (if id = 2 then _ else if id = 0 then _ else Val.eod) = Val.eod
     simp [(odd_ne h).1, (odd_ne h).2]⟩

/-- the state that corresponds to the initial state of the direct-fd machine is reachable in the queue-fed one -/
theorem start (c : Cfg α) (hd : IsDirect c) :
    ∃ s0, (machine (fed c)).Reachable s0 ∧ Sim (initD c) s0 := by
  cases hm : c.inqC.max with
  | zero =>
    refine ⟨start0 c, ?_, sim_start0 c⟩
    rw [fed_eq_lit c hd 0 hm]
    exact runTr_reachable _ _ _ _ .init (Option.some_get _).symm
  | succ m =>
    refine ⟨start1 c m, ?_, sim_start1 c m⟩
    rw [fed_eq_lit c hd (m + 1) hm]
    exact runTr_reachable _ _ _ _ .init (Option.some_get _).symm

end Direct

end Osmium.Pipeline
