/-
The XML reader on the markup the XML writer produces: attribute loops (`init_object`, `<nd>`,
`<member>`, `<tag>`), the piece-wise runner, children lists (helper lemmas for Props/C01Text.lean).
-/
import Osmium.Lemmas.XmlFmt

namespace Osmium.XmlFmt
open Osmium.Osm Osmium.TextFmt Osmium.Conv Osmium.Utf8

/-- an optional attribute -/
def optA (b : Bool) (n : String) (v : Bytes) : List (String × Bytes) := if b then [(n, v)] else []

/-! ### decoding of attribute lists -/

theorem decodeAttrs_append (a b : List (String × Bytes)) :
    decodeAttrs (a ++ b) = (match decodeAttrs a, decodeAttrs b with
      | some x, some y => some (x ++ y)
      | _, _ => none) := by
  induction a with
  | nil => cases h : decodeAttrs b <;> simp [decodeAttrs, h]
  | cons p a ih =>
    obtain ⟨n, raw⟩ := p
    simp only [List.cons_append, decodeAttrs, ih]
    cases Xml.unescapeAttr raw <;> cases decodeAttrs a <;> cases decodeAttrs b <;> simp

theorem decodeAttrs_append_some {a b a' b' : List (String × Bytes)} (ha : decodeAttrs a = some a')
    (hb : decodeAttrs b = some b') : decodeAttrs (a ++ b) = some (a' ++ b') := by
  rw [decodeAttrs_append, ha, hb]

theorem decodeAttrs_one {n : String} {raw v : Bytes} (h : Xml.unescapeAttr raw = some v) :
    decodeAttrs [(n, raw)] = some [(n, v)] := by
  simp [decodeAttrs, h]

theorem decodeAttrs_opt (b : Bool) (n : String) {raw v : Bytes} (h : b = true → Xml.unescapeAttr raw = some v) :
    decodeAttrs (optA b n raw) = some (optA b n v) := by
  cases b
  · rfl
  · simp [optA, decodeAttrs, h rfl]

/-! ### `init_object`: one attribute at a time -/

/-- constructors `Meta → Object` the attribute setters act through -/
def IsMk (mk : Meta → Object) : Prop := ∀ f m, mapMeta f (mk m) = mk (f m)

theorem isMk_node (l : Location) : IsMk (fun m => .node m l) := fun _ _ => rfl
theorem isMk_way (ns : List NodeRef) : IsMk (fun m => .way m ns) := fun _ _ => rfl
theorem isMk_relation (ms : List Member) : IsMk (fun m => .relation m ms) := fun _ _ => rfl

set_option maxRecDepth 4000 in
/-- the metadata attributes in the writer's order, each optional one present or not -/
theorem init_chain (mk : Meta → Object) (hmk : IsMk mk) (b1 b2 b3 b4 b5 b6 : Bool)
    (idv vv tv uv usr cv : Bytes) (idx : Int) (vx tx ux cx : Nat) (vis : Bool)
    (h_id : rId idv = .ok idx) (h_v : rUlong vv = .ok vx) (h_t : rTimestampStrict tv = .ok tx)
    (h_u : rUlong uv = .ok ux) (h_c : rUlong cv = .ok cx)
    (m0 : Meta) (loc : Location) (rest : List (String × Bytes)) :
    initObjectAttrs ([("id", idv)] ++ optA b1 "version" vv ++ optA b2 "timestamp" tv ++ optA b3 "uid" uv ++
        optA b4 "user" usr ++ optA b5 "changeset" cv ++ optA b6 "visible" (if vis then bTrue else bFalse) ++ rest)
      (mk m0) loc [] =
    initObjectAttrs rest
      (mk { m0 with id := idx, version := if b1 then vx % 2147483648 else m0.version,
                    timestamp := if b2 then tx else m0.timestamp, uid := if b3 then ux else m0.uid,
                    changeset := if b5 then cx else m0.changeset, visible := if b6 then vis else m0.visible })
      loc (if b4 then usr else []) := by
  have hmk' : ∀ f m, mapMeta f (mk m) = mk (f m) := hmk
  have hft : bFalse ≠ bTrue := by decide
  cases b1 <;> cases b2 <;> cases b3 <;> cases b4 <;> cases b5 <;> cases b6 <;> cases vis <;>
    simp (config := { decide := true }) [optA, initObjectAttrs, hmk', h_id, h_v, h_t, h_u, h_c, hft]

/-! ### `write_meta` in closed form, decoded -/

/-- attributes common to nodes, ways and relations: the XML value domain -/
structure XMetaOK (m : Meta) : Prop where
  id0 : int64Min < m.id
  id1 : m.id ≤ int64Max
  ver : m.version < 2147483648
  ts : m.timestamp < 4294967296
  cs : m.changeset < 4294967295
  uid : m.uid < 2147483648
  user : xstrOK m.user = true
  tags : ∀ t ∈ m.tags, xstrOK t.key = true ∧ xstrOK t.value = true

/-- the attribute list of `write_meta` with the user name given -/
def metaList (o : Opts) (m : Meta) (idv vv uv cv usr : Bytes) : List (String × Bytes) :=
  [("id", idv)] ++ optA (o.md.version && m.version != 0) "version" vv ++
  optA (o.md.timestamp && m.timestamp != 0) "timestamp" (toIsoAll m.timestamp) ++
  optA (o.md.uid && m.uid != 0) "uid" uv ++ optA (o.md.user && !m.user.isEmpty) "user" usr ++
  optA (o.md.changeset && m.changeset != 0) "changeset" cv ++
  optA (addVisibleFlag o) "visible" (if m.visible then bTrue else bFalse)

theorem optInt_eq (b : Bool) (n : String) (v : Int) (out : Bytes) (h : wInt v = .ok out) :
    (if b then bindE (intAttr n v) fun a => (Except.ok [a] : Except WErr (List (String × Bytes))) else .ok [])
      = .ok (optA b n out) := by
  cases b <;> simp [intAttr, h, optA]

theorem bTrue_plain : AllPlain bTrue := by intro b hb; revert b; decide
theorem bFalse_plain : AllPlain bFalse := by intro b hb; revert b; decide

theorem metaAttrs_spec (o : Opts) (m : Meta) (h : XMetaOK m) :
    ∃ idv vv uv cv, rId idv = .ok m.id ∧ rUlong vv = .ok m.version ∧ rUlong uv = .ok m.uid ∧
      rUlong cv = .ok m.changeset ∧
      metaAttrs o m = .ok (metaList o m idv vv uv cv (Xml.escape m.user)) ∧
      decodeAttrs (metaList o m idv vv uv cv (Xml.escape m.user)) = some (metaList o m idv vv uv cv m.user) := by
  obtain ⟨idv, hid, pid, rid⟩ := wInt_rId m.id h.id0 h.id1
  obtain ⟨vv, hv, pv, rv⟩ := wInt_rUlong m.version (by have := h.ver; omega)
  obtain ⟨uv, hu, pu, ru⟩ := wInt_rUlong m.uid (by have := h.uid; omega)
  obtain ⟨cv, hc, pc, rc⟩ := wInt_rUlong m.changeset h.cs
  refine ⟨idv, vv, uv, cv, rid, rv, ru, rc, ?_, ?_⟩
  · have e1 : intAttr "id" m.id = .ok ("id", idv) := by simp [intAttr, hid]
    simp only [metaAttrs, e1, bindE_ok, optInt_eq _ _ _ _ hv, optInt_eq _ _ _ _ hu, optInt_eq _ _ _ _ hc, metaList, optA]
  · unfold metaList
    refine decodeAttrs_append_some (decodeAttrs_append_some (decodeAttrs_append_some (decodeAttrs_append_some
      (decodeAttrs_append_some (decodeAttrs_append_some (decodeAttrs_one (unescape_plain _ pid))
      (decodeAttrs_opt _ _ fun _ => unescape_plain _ pv))
      (decodeAttrs_opt _ _ fun _ => unescape_plain _ (toIsoAll_plain _)))
      (decodeAttrs_opt _ _ fun _ => unescape_plain _ pu))
      (decodeAttrs_opt _ _ fun _ => unescape_escape _ h.user))
      (decodeAttrs_opt _ _ fun _ => unescape_plain _ pc))
      (decodeAttrs_opt _ _ fun _ => ?_)
    cases m.visible
    · exact unescape_plain _ bFalse_plain
    · exact unescape_plain _ bTrue_plain

/-- where the object stands: directly under `<osm>`, or — in a change file — in the section the
    writer chose for it -/
def sectionCtx (op : Nat) : Ctx := if op = 1 then .createSection else if op = 2 then .modifySection else .deleteSection

def parentCtx (o : Opts) (m : Meta) : Ctx := if o.changeOps then sectionCtx (opOf m) else .osm

theorem parent_inDelete (o : Opts) (m : Meta) :
    (parentCtx o m == Ctx.deleteSection) = (o.changeOps && !m.visible) := by
  unfold parentCtx sectionCtx opOf
  cases o.changeOps <;> cases m.visible <;> simp <;> split <;> simp

/-- the object `init_object` starts from -/
def meta0 (o : Opts) (m : Meta) : Meta :=
  if (o.changeOps && !m.visible) then { emptyMeta with visible := false } else emptyMeta

/-- the metadata after the attribute loop (user name still separate) -/
def metaFinal (o : Opts) (m : Meta) : Meta :=
  { meta0 o m with
    id := m.id,
    version := if (o.md.version && m.version != 0) then m.version % 2147483648 else (meta0 o m).version,
    timestamp := if (o.md.timestamp && m.timestamp != 0) then m.timestamp else (meta0 o m).timestamp,
    uid := if (o.md.uid && m.uid != 0) then m.uid else (meta0 o m).uid,
    changeset := if (o.md.changeset && m.changeset != 0) then m.changeset else (meta0 o m).changeset,
    visible := if addVisibleFlag o then m.visible else (meta0 o m).visible }

/-- the metadata the reader ends up with = `projectMeta` (without the tags, which are children) -/
theorem meta_result (o : Opts) (m : Meta) (h : XMetaOK m) :
    ({ metaFinal o m with user := if (o.md.user && !m.user.isEmpty) then m.user else [] } : Meta)
      = { projectMeta o m with tags := [] } := by
  have hv : m.version % 2147483648 = m.version := Nat.mod_eq_of_lt h.ver
  rcases o with ⟨⟨a, b, c, d, e⟩, low, hist, fvf, osc⟩
  rcases m with ⟨id, ver, vis, ts, cs, uid, user, tags⟩
  simp only at hv
  simp only [metaFinal, meta0, projectMeta, addVisibleFlag, emptyMeta, hv]
  cases a <;> cases b <;> cases c <;> cases d <;> cases e <;> cases hist <;> cases fvf <;> cases osc <;> cases vis <;>
    simp <;> first | omega | grind

end Osmium.XmlFmt
