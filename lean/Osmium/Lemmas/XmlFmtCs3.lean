/-
XML round trip of changesets with discussions, part 3: the discussion run and the whole
`<changeset>` element over the writer's markup pieces (helper lemmas for Props/C01Text.lean).
-/
import Osmium.Lemmas.XmlFmtCs2

namespace Osmium.XmlFmt
open Osmium.Osm Osmium.TextFmt Osmium.Conv Osmium.Utf8

/-- character data inside `<text>` -/
theorem runPieces_text (raw t : Bytes) (ps : List Piece) (st : RSt) (rest : List Ctx) (hs : st.stack = .text :: rest)
    (h : Xml.unescapeAttr raw = some t) :
    runPieces (.text raw :: ps) st = runPieces ps { st with commentText := st.commentText ++ t } := by
  simp only [runPieces, evOfPiece, h, Option.map_some]
  by_cases he : t.isEmpty = true
  · have : t = [] := by simpa using he
    subst this
    have e : ({ st with commentText := st.commentText ++ [] } : RSt) = st := by cases st; simp
    simp [runEvents]
  · have he' : t.isEmpty = false := by simpa using he
    simp only [he', Bool.false_eq_true, if_false, runEvents, stepEv, bindE_ok, text_chars_step st rest hs t]

/-- the pieces of one comment -/
def commentPieces (au : String × Bytes) (c : Comment) : List Piece :=
  [sp 3, Piece.elem "comment" [au, ("user", Xml.escape c.user), ("date", toIsoAll c.date)] false, nl,
   sp 4, .elem "text" [] false, .text (Xml.escape c.text), .close "text", nl, sp 3, .close "comment", nl]

theorem comment_run (c : Comment) (hc : XCommentOK c) (rest : List Ctx) :
    ∃ x, (bindE (intAttr "uid" c.uid) fun au => (Except.ok (commentPieces au c) : Except WErr (List Piece))) = .ok x ∧
      ∀ (st : RSt) (cur : Cur) (pre : List Sub) (cs0 : List Comment) (ps : List Piece),
        st.stack = Ctx.discussion :: rest → st.cur = some cur → st.commentText = [] → st.commentPending = false →
        cur.subs = pre ++ [.discussion cs0] →
        runPieces (x ++ ps) st = runPieces ps { st with cur := some { cur with subs := pre ++ [.discussion (cs0 ++ [c])] } } := by
  obtain ⟨hd, hu, hus, htx⟩ := hc
  have hulen : c.user.length ≤ 1024 := (xstrOK_spec hus).choose_spec.2.2
  obtain ⟨uv, huv, puv, ruv⟩ := wInt_rUlong c.uid hu
  refine ⟨commentPieces ("uid", uv) c, by simp only [intAttr, huv, bindE_ok], ?_⟩
  intro st cur pre cs0 ps hs hcur hct hcp hsub
  have hdec : decodeAttrs [("uid", uv), ("user", Xml.escape c.user), ("date", toIsoAll c.date)]
      = some [("uid", uv), ("user", c.user), ("date", toIsoAll c.date)] :=
    decodeAttrs_append_some (decodeAttrs_one (unescape_plain _ puv))
      (decodeAttrs_two (unescape_escape _ hus) (unescape_plain _ (toIsoAll_plain c.date)))
  have hca : commentAttrs [("uid", uv), ("user", c.user), ("date", toIsoAll c.date)] ⟨0, 0, [], []⟩
      = .ok ⟨c.date, c.uid, c.user, []⟩ := by
    simp (config := { decide := true }) [commentAttrs, ruv, rTimestamp_toIsoAll c.date hd]
  have hdec0 : decodeAttrs ([] : List (String × Bytes)) = some [] := rfl
  -- the states
  let s1 : RSt := { st with stack := .comment :: .discussion :: rest, cur := some (addComment cur ⟨c.date, c.uid, c.user, []⟩),
                            commentPending := true }
  let s2 : RSt := { s1 with stack := .text :: .comment :: .discussion :: rest }
  let s3 : RSt := { s2 with commentText := c.text }
  have hnt0 : NoText st := by unfold NoText; rw [hs]; simp
  have hnt1 : NoText s1 := by unfold NoText; simp [s1]
  have h3ct : s2.commentText ++ c.text = c.text := by simp [s2, s1, hct]
  have hcoll := comment_collect cur pre cs0 hsub ⟨c.date, c.uid, c.user, []⟩ c.text
  let s4 : RSt := { st with stack := .comment :: .discussion :: rest,
                            cur := some { cur with subs := pre ++ [.discussion (cs0 ++ [c])] } }
  have hclose_text : endElement {} s3 = .ok s4 := by
    rw [text_close_step s3 (.comment :: .discussion :: rest) _ rfl rfl]
    have hcoll' : setCommentText (addComment cur ⟨c.date, c.uid, c.user, []⟩) c.text =
        { cur with subs := pre ++ [.discussion (cs0 ++ [c])] } := hcoll
    simp only [s3, s2, s1, s4, hcoll', hct, hcp]
  have hnt4 : NoText s4 := by unfold NoText; simp [s4]
  let s5 : RSt := { st with cur := some { cur with subs := pre ++ [.discussion (cs0 ++ [c])] } }
  have hclose_comment : endElement {} s4 = .ok s5 := by
    rw [comment_close_step s4 (.discussion :: rest) rfl hcp]
    simp only [s4, s5, hs]
  have hnt5 : NoText s5 := by unfold NoText; simp [s5, hs]
  simp only [commentPieces, List.cons_append, List.nil_append, sp, nl]
  rw [runPieces_ws _ _ _ hnt0, runPieces_elem _ _ _ _ _ _ hdec, comment_step st rest cur hs hcur _ _ hca hulen]
  simp only [bindE_ok, Bool.false_eq_true, if_false]
  rw [runPieces_ws _ _ _ hnt1, runPieces_ws _ _ _ hnt1, runPieces_elem _ _ _ _ _ _ hdec0,
    text_open_step s1 (.discussion :: rest) rfl _ rfl]
  simp only [bindE_ok, Bool.false_eq_true, if_false]
  rw [runPieces_text _ _ _ s2 _ rfl (unescape_escape _ htx)]
  have e3 : ({ s2 with commentText := s2.commentText ++ c.text } : RSt) = s3 := by simp only [s3, h3ct]
  rw [e3, runPieces_close, hclose_text]
  simp only [bindE_ok]
  rw [runPieces_ws _ _ _ hnt4, runPieces_ws _ _ _ hnt4, runPieces_close, hclose_comment]
  simp only [bindE_ok]
  rw [runPieces_ws _ _ _ hnt5]

/-- the writer's function for one comment -/
def commentW (c : Comment) : Except WErr (List Piece) :=
  bindE (intAttr "uid" c.uid) fun au => .ok (commentPieces au c)

theorem comments_run (rest : List Ctx) (cs : List Comment) (hcs : ∀ c ∈ cs, XCommentOK c) :
    ∃ xs, mapE commentW cs = .ok xs ∧
      ∀ (st : RSt) (cur : Cur) (pre : List Sub) (cs0 : List Comment) (ps : List Piece),
        st.stack = Ctx.discussion :: rest → st.cur = some cur → st.commentText = [] → st.commentPending = false →
        cur.subs = pre ++ [.discussion cs0] →
        runPieces (xs.flatten ++ ps) st =
          runPieces ps { st with cur := some { cur with subs := pre ++ [.discussion (cs0 ++ cs)] } } := by
  induction cs with
  | nil =>
    refine ⟨[], rfl, ?_⟩
    intro st cur pre cs0 ps hs hc hct hcp hsub
    have : ({ st with cur := some { cur with subs := pre ++ [.discussion cs0] } } : RSt) = st := by
      cases st; cases cur; simp_all
    simp only [List.flatten_nil, List.nil_append, List.append_nil, this]
  | cons c cs ih =>
    obtain ⟨xs, hxs, hrun⟩ := ih (fun c' hc' => hcs c' (by simp [hc']))
    obtain ⟨x, hx, hx1⟩ := comment_run c (hcs c (by simp)) rest
    refine ⟨x :: xs, by rw [mapE, commentW, hx, bindE_ok, hxs, bindE_ok], ?_⟩
    intro st cur pre cs0 ps hs hc hct hcp hsub
    have e : (x :: xs).flatten ++ ps = x ++ (xs.flatten ++ ps) := by simp
    rw [e, hx1 st cur pre cs0 _ hs hc hct hcp hsub,
      hrun { st with cur := some { cur with subs := pre ++ [.discussion (cs0 ++ [c])] } }
        { cur with subs := pre ++ [.discussion (cs0 ++ [c])] } pre (cs0 ++ [c]) ps hs rfl hct hcp rfl]
    simp

theorem discussionPieces_eq (cs : List Comment) :
    discussionPieces cs = bindE (mapE commentW cs) fun xs =>
      .ok ([sp 2, Piece.elem "discussion" [] false, nl] ++ xs.flatten ++ [sp 2, .close "discussion", nl]) := rfl

/-- `write_discussion` read back: a new discussion sub-item with all comments -/
theorem discussion_run (rest : List Ctx) (cs : List Comment) (hcs : ∀ c ∈ cs, XCommentOK c) :
    ∃ ds, discussionPieces cs = .ok ds ∧
      ∀ (st : RSt) (cur : Cur) (ps : List Piece), st.stack = Ctx.changeset :: rest → st.cur = some cur →
        st.commentText = [] → st.commentPending = false → (∀ x, cur.subs.getLast? ≠ some (.discussion x)) →
        runPieces (ds ++ ps) st =
          runPieces ps { st with cur := some { cur with subs := cur.subs ++ [.discussion cs], lastOpen := true } } := by
  obtain ⟨xs, hxs, hrun⟩ := comments_run (Ctx.changeset :: rest) cs hcs
  refine ⟨[sp 2, Piece.elem "discussion" [] false, nl] ++ xs.flatten ++ [sp 2, .close "discussion", nl],
    by rw [discussionPieces_eq, hxs, bindE_ok], ?_⟩
  intro st cur ps hs hc hct hcp hlast
  have hdec0 : decodeAttrs ([] : List (String × Bytes)) = some [] := rfl
  have hnt0 : NoText st := by unfold NoText; rw [hs]; simp
  let s1 : RSt := { st with stack := .discussion :: .changeset :: rest, cur := some (openDiscussion cur) }
  have hnt1 : NoText s1 := by unfold NoText; simp [s1]
  have hopen := openDiscussion_fresh cur hlast
  let c2 : Cur := { cur with subs := cur.subs ++ [.discussion ([] ++ cs)], lastOpen := true }
  let s2 : RSt := { s1 with cur := some c2 }
  have hnt2 : NoText s2 := by unfold NoText; simp [s2, s1]
  have hclose : endElement {} s2 = .ok { st with cur := some c2 } := by
    rw [discussion_close_step s2 (.changeset :: rest) rfl]
    simp only [s2, s1, hs]
  have hnt3 : NoText ({ st with cur := some c2 } : RSt) := by unfold NoText; simp [hs]
  simp only [List.cons_append, List.nil_append, List.append_assoc, sp, nl]
  rw [runPieces_ws _ _ _ hnt0, runPieces_elem _ _ _ _ _ _ hdec0, discussion_open_step st rest cur hs hc]
  simp only [bindE_ok, Bool.false_eq_true, if_false]
  rw [runPieces_ws _ _ _ hnt1, hrun s1 (openDiscussion cur) cur.subs [] _ rfl rfl hct hcp (by rw [hopen])]
  have e2 : ({ s1 with cur := some { openDiscussion cur with subs := cur.subs ++ [.discussion ([] ++ cs)] } } : RSt) = s2 := by
    simp only [s2, c2, hopen]
  rw [e2, runPieces_ws _ _ _ hnt2, runPieces_close, hclose]
  simp only [bindE_ok]
  rw [runPieces_ws _ _ _ hnt3]
  simp [c2]

end Osmium.XmlFmt
