/-
C11: the step-level lemmas about member lookups (formerly the `_partial` theorems of
Props/C11.lean; the global theorems are built from the run-long invariant in
Lemmas/RelMgrHandles*.lean).  Core-only.
-/
import Osmium.Lemmas.RelMgrInv

namespace Osmium.RelMgr

open Osmium.Order (Kind CheckState checkStep)

/-- `handle_complete_relation`: (1) the lookups the callback performs are evaluated in the state
    BEFORE any member of the relation is released (`complete_relation` is called first), one per
    member with `ref ≠ 0`, in member order; (2) a lookup whose range starts with a live handle
    returns exactly the stored object. -/
theorem handleComplete_lookups_step (c : Cfg) (s : State) (pos : Nat) (r : Rel)
    (hrel : s.relAt pos = some r) :
    (handleComplete c s pos).log =
      Event.complete pos r.id r.content
        ((r.members.filter (fun m => m.ref ≠ 0)).map (fun m => (m, s.lookup m.kind m.ref))) :: s.log ∧
    (∀ (k : Kind) (id : Int) (e : Elem) (rest : List Elem) (o : Obj), id ≠ 0 →
      (splitRange (s.getDb k) id).2.1 = e :: rest → e.h ≠ 0 → stashGet s.stash e.h = some (.obj o) →
      s.lookup k id = .found o) := by
  constructor
  · unfold handleComplete
    rw [hrel]
    simp only []
    rw [relRemove_log, (removeMembers_frame c r.id r.members _).2, (possiblyFlush_frame c _).2]
    rfl
  · intro k id e rest o hid hr hh hst
    unfold State.lookup dbLookup
    rw [if_neg hid, hr]
    simp [hh, hst]

/-- one `remove(member_id, relation_id)`: the stash item is released exactly when the range has
    ONE non-removed element left (references counted with multiplicity, over all relations and
    duplicates inside one relation); otherwise the stash is untouched. -/
theorem dbRemove_release_step (c : Cfg) (s : State) (k : Kind) (id relid : Int) :
    (countNotRemoved (splitRange (s.getDb k) id).2.1 ≠ 1 → (dbRemove c s k id relid).stash = s.stash) ∧
    (∀ e0 rest, (splitRange (s.getDb k) id).2.1 = e0 :: rest → countNotRemoved (e0 :: rest) = 1 →
      (dbRemove c s k id relid).stash = stashRemove s.stash e0.h) := by
  unfold dbRemove
  generalize splitRange (s.getDb k) id = sr
  obtain ⟨pre, mid, post⟩ := sr
  simp only []
  constructor
  · intro h
    cases mid with
    | nil => rfl
    | cons e0 rest =>
      have : (countNotRemoved (e0 :: rest) == 1) = false := by simpa using h
      cases k <;> simp [State.setDb, this]
  · intro e0 rest hr h1
    subst hr
    have : (countNotRemoved (e0 :: rest) == 1) = true := by simpa using h1
    cases k <;> simp [State.setDb, this]

/-- repaired `remove()` (`fixed = true`), database sorted by member id: right after the `remove`
    call that releases the object, a lookup of its id gives `absent` (nullptr). -/
theorem dbRemove_lookup_absent_step (c : Cfg) (hfix : c.fixed = true) (s : State) (k : Kind) (id relid : Int)
    (hs : SortedById (s.getDb k))
    (hlast : countNotRemoved (splitRange (s.getDb k) id).2.1 = 1) :
    (dbRemove c s k id relid).lookup k id = .absent := by
  have hsplit := splitRange_sorted (s.getDb k) id hs
  have hget : ∀ (st : Stash) (ub : Bool) (es : List Elem),
      ((({ s with stash := st, ub := ub } : State).setDb k es).getDb k = es) := by
    intro st ub es; cases k <;> rfl
  unfold dbRemove
  rw [hsplit] at hlast ⊢
  simp only [] at hlast ⊢
  cases hm : (s.getDb k).filter (fun e => e.mid == id) with
  | nil => rw [hm] at hlast; simp [countNotRemoved] at hlast
  | cons e0 rest =>
    rw [hm] at hlast
    have h1 : (countNotRemoved (e0 :: rest) == 1) = true := by simpa using hlast
    simp only [h1, hfix, Bool.and_self, if_true]
    unfold State.lookup
    split
    · rfl
    · rw [hget]
      unfold dbLookup
      have hmid2 : ∀ e ∈ markFirst (fun p => Option.map (fun x => x.id) (s.relAt p)) relid
          (List.map (fun e : Elem => { e with h := 0 }) (e0 :: rest)), e.mid = id ∧ e.h = 0 := by
        apply markFirst_keeps _ _ (fun m h => m = id ∧ h = 0)
        intro e he
        rw [List.mem_map] at he
        obtain ⟨e', he', rfl⟩ := he
        have : e' ∈ (s.getDb k).filter (fun e => e.mid == id) := by rw [hm]; exact he'
        have := (List.mem_filter.mp this).2
        exact ⟨by simpa using this, rfl⟩
      rw [splitRange_rebuild _ _ _ id
        (fun e he => by simpa using (List.mem_filter.mp he).2)
        (fun e he => (hmid2 e he).1)
        (fun e he => by simpa using (List.mem_filter.mp he).2)]
      split
      · rfl
      · rename_i e es hme
        have := (hmid2 e (by rw [hme]; exact List.mem_cons_self ..)).2
        simp [this]

end Osmium.RelMgr
